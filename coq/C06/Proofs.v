(* C06/Proofs.v — lemmas about the reference model R_shape. *)
From Coq Require Import List NArith ZArith Bool Arith Lia.
From Gen Require Import Consts C06.
From C06 Require Import Model Spec Util.
Import ListNotations.

(* ------------------------------------------------------------ list order *)

Lemma R_run_app : forall ll gd budget l1 l2 seq,
  R_run ll gd budget (l1 ++ l2) seq =
  fold_left (apply_lookup ll gd budget) l2 (R_run ll gd budget l1 seq).
Proof. intros. unfold R_run. apply fold_left_app. Qed.

(* ------------------------------------------------- first matching subtable *)

Lemma try_subs_first : forall ll gd budget rec kp a tl s pre sub post r,
  (forall x, In x pre -> try_sub ll gd budget rec kp a tl s x = None) ->
  try_sub ll gd budget rec kp a tl s sub = Some r ->
  try_subs ll gd budget rec kp a tl s (pre ++ sub :: post) = Some r.
Proof.
  intros ll gd budget rec kp a tl s pre. induction pre as [|x pre IH]; intros sub post r Hpre Hsub; simpl.
  - rewrite Hsub. reflexivity.
  - rewrite (Hpre x) by (left; reflexivity). apply IH; [|assumption].
    intros y Hy. apply Hpre. right. assumption.
Qed.

Lemma try_subs_none : forall ll gd budget rec kp a tl s subs,
  (forall x, In x subs -> try_sub ll gd budget rec kp a tl s x = None) ->
  try_subs ll gd budget rec kp a tl s subs = None.
Proof.
  intros ll gd budget rec kp a tl s subs. induction subs as [|x subs IH]; intros H; simpl; [reflexivity|].
  rewrite (H x) by (left; reflexivity). apply IH. intros y Hy. apply H. right. assumption.
Qed.

Lemma try_subs_some_inv : forall ll gd budget rec kp a tl s subs r,
  try_subs ll gd budget rec kp a tl s subs = Some r ->
  exists pre sub post, subs = pre ++ sub :: post /\
    (forall x, In x pre -> try_sub ll gd budget rec kp a tl s x = None) /\
    try_sub ll gd budget rec kp a tl s sub = Some r.
Proof.
  intros ll gd budget rec kp a tl s subs. induction subs as [|x subs IH]; intros r H; simpl in H; [discriminate|].
  destruct (try_sub ll gd budget rec kp a tl s x) as [r'|] eqn:E.
  - inversion H; subst. exists [], x, subs. repeat split; auto. intros y [].
  - destruct (IH r H) as (pre & sub & post & -> & Hpre & Hsub).
    exists (x :: pre), sub, post. repeat split; auto.
    intros y [<-|Hy]; auto.
Qed.

(* ------------------------------------------------------------------ keep *)

Lemma keep_nogdef : forall flags mfs g, keep None flags mfs g = true.
Proof. reflexivity. Qed.

Lemma keep_mark_ignoremarks : forall d flags mfs g,
  class_of (gd_class d) g = c06_GlyphClassMark ->
  has_flag flags c06_IgnoreMarks = true ->
  keep (Some d) flags mfs g = false.
Proof.
  intros d flags mfs g Hc Hf. unfold keep. rewrite Hc.
  change (N.eqb c06_GlyphClassMark c06_GlyphClassBase) with false.
  change (N.eqb c06_GlyphClassMark c06_GlyphClassLigature) with false.
  change (N.eqb c06_GlyphClassMark c06_GlyphClassMark) with true.
  cbv iota. rewrite Hf. reflexivity.
Qed.

Lemma keep_mark_filterset : forall d flags mfs g,
  class_of (gd_class d) g = c06_GlyphClassMark ->
  has_flag flags c06_IgnoreMarks = false ->
  has_flag flags c06_UseMarkFilteringSet = true ->
  keep (Some d) flags mfs g = memN g (nth (N.to_nat mfs) (gd_sets d) []).
Proof.
  intros d flags mfs g Hc Hf1 Hf2. unfold keep. rewrite Hc.
  change (N.eqb c06_GlyphClassMark c06_GlyphClassBase) with false.
  change (N.eqb c06_GlyphClassMark c06_GlyphClassLigature) with false.
  change (N.eqb c06_GlyphClassMark c06_GlyphClassMark) with true.
  cbv iota. rewrite Hf1, Hf2. reflexivity.
Qed.

Lemma keep_mark_attach : forall d flags mfs g,
  class_of (gd_class d) g = c06_GlyphClassMark ->
  has_flag flags c06_IgnoreMarks = false ->
  has_flag flags c06_UseMarkFilteringSet = false ->
  keep (Some d) flags mfs g =
    (N.eqb (attach_type flags) 0 || N.eqb (class_of (gd_attach d) g) (attach_type flags)).
Proof.
  intros d flags mfs g Hc Hf1 Hf2. unfold keep. rewrite Hc.
  change (N.eqb c06_GlyphClassMark c06_GlyphClassBase) with false.
  change (N.eqb c06_GlyphClassMark c06_GlyphClassLigature) with false.
  change (N.eqb c06_GlyphClassMark c06_GlyphClassMark) with true.
  cbv iota. rewrite Hf1, Hf2. destruct (N.eqb (attach_type flags) 0); reflexivity.
Qed.

Lemma keep_base : forall d flags mfs g,
  class_of (gd_class d) g = c06_GlyphClassBase ->
  keep (Some d) flags mfs g = negb (has_flag flags c06_IgnoreBaseGlyphs).
Proof.
  intros d flags mfs g Hc. unfold keep. rewrite Hc.
  change (N.eqb c06_GlyphClassBase c06_GlyphClassBase) with true. reflexivity.
Qed.

Lemma keep_ligature : forall d flags mfs g,
  class_of (gd_class d) g = c06_GlyphClassLigature ->
  keep (Some d) flags mfs g = negb (has_flag flags c06_IgnoreLigatures).
Proof.
  intros d flags mfs g Hc. unfold keep. rewrite Hc.
  change (N.eqb c06_GlyphClassLigature c06_GlyphClassBase) with false.
  change (N.eqb c06_GlyphClassLigature c06_GlyphClassLigature) with true. reflexivity.
Qed.

Lemma keep_other : forall d flags mfs g,
  class_of (gd_class d) g <> c06_GlyphClassBase ->
  class_of (gd_class d) g <> c06_GlyphClassLigature ->
  class_of (gd_class d) g <> c06_GlyphClassMark ->
  keep (Some d) flags mfs g = true.
Proof.
  intros d flags mfs g H1 H2 H3. unfold keep.
  apply N.eqb_neq in H1. apply N.eqb_neq in H2. apply N.eqb_neq in H3.
  rewrite H1, H2, H3. reflexivity.
Qed.

(* --------------------------------------------------------------- matching *)

Lemma next_kept_spec : forall kp l p g l' q,
  next_kept kp l p = Some (g, l', q) ->
  p <= q /\ nth_error l (q - p) = Some g /\ kp (gid g) = true /\ l' = skipn (S (q - p)) l /\
  (forall i h, i < q - p -> nth_error l i = Some h -> kp (gid h) = false).
Proof.
  intros kp l. induction l as [|x l IH]; intros p g l' q H; simpl in H; [discriminate|].
  destruct (kp (gid x)) eqn:E.
  - inversion H; subst. replace (q - q) with 0 by lia. simpl.
    repeat split; auto. intros i h Hi. lia.
  - apply IH in H. destruct H as (Hle & Hn & Hk & Hl & Hs).
    replace (q - p) with (S (q - S p)) by lia. simpl.
    repeat split; auto; try lia.
    intros i h Hi Hnth. destruct i; simpl in Hnth.
    + inversion Hnth; subst. assumption.
    + apply (Hs i h); [lia|assumption].
Qed.

Lemma memnat_true : forall p l, memnat p l = true <-> In p l.
Proof.
  intros p l. unfold memnat. rewrite existsb_exists. split.
  - intros (x & Hx & He). apply Nat.eqb_eq in He. subst. assumption.
  - intros H. exists p. split; [assumption|apply Nat.eqb_refl].
Qed.

Lemma memnat_false : forall p l, memnat p l = false <-> ~ In p l.
Proof.
  intros p l. rewrite <- memnat_true. destruct (memnat p l); split; intros; try discriminate; auto.
  exfalso; auto.
Qed.

Lemma match_seq_length : forall kp preds l p qs,
  match_seq kp preds l p = Some qs -> length qs = length preds.
Proof.
  intros kp preds. induction preds as [|pr preds IH]; intros l p qs H; simpl in H.
  - inversion H; reflexivity.
  - destruct (next_kept kp l p) as [[[g l'] q]|]; [|discriminate].
    destruct (test_pred pr (gid g)); [|discriminate].
    destruct (match_seq kp preds l' (S q)) as [qs'|] eqn:E; [|discriminate].
    inversion H; subst. simpl. f_equal. eapply IH; eassumption.
Qed.

Lemma match_seq_bounds : forall kp preds l p qs,
  match_seq kp preds l p = Some qs -> forall q, In q qs -> p <= q < p + length l.
Proof.
  intros kp preds. induction preds as [|pr preds IH]; intros l p qs H q0 Hin; simpl in H.
  - inversion H; subst. destruct Hin.
  - destruct (next_kept kp l p) as [[[g l'] q]|] eqn:En; [|discriminate].
    destruct (test_pred pr (gid g)); [|discriminate].
    destruct (match_seq kp preds l' (S q)) as [qs'|] eqn:E; [|discriminate].
    inversion H; subst. apply next_kept_spec in En.
    destruct En as (Hle & Hn & Hk & Hl & Hs).
    assert (Hq : q - p < length l) by (apply nth_error_Some; congruence).
    destruct Hin as [<-|Hin]; [lia|].
    specialize (IH _ _ _ E _ Hin). subst l'. rewrite skipn_length in IH. lia.
Qed.

Lemma last_cons_ne {A} (x : A) (l : list A) (d d' : A) : l <> [] -> last (x :: l) d = last l d'.
Proof.
  revert x. induction l as [|y l IH]; intros x H; [congruence|].
  destruct l as [|z l]; [reflexivity|].
  change (last (x :: y :: z :: l) d) with (last (y :: z :: l) d).
  change (last (y :: z :: l) d') with (last (z :: l) d').
  rewrite (IH y) by discriminate. reflexivity.
Qed.

Lemma match_seq_last : forall kp preds l p qs,
  match_seq kp preds l p = Some qs -> qs <> [] -> p + length qs <= S (last qs 0).
Proof.
  intros kp preds. induction preds as [|pr preds IH]; intros l p qs H Hne; simpl in H.
  - inversion H; subst. congruence.
  - destruct (next_kept kp l p) as [[[g l'] q]|] eqn:En; [|discriminate].
    destruct (test_pred pr (gid g)); [|discriminate].
    destruct (match_seq kp preds l' (S q)) as [qs'|] eqn:E; [|discriminate].
    inversion H; subst. apply next_kept_spec in En. destruct En as (Hle & _).
    destruct qs' as [|q' qs'].
    + simpl. lia.
    + rewrite (last_cons_ne q (q' :: qs') 0 0) by discriminate.
      assert (Hne' : q' :: qs' <> []) by discriminate.
      specialize (IH _ _ _ E Hne'). simpl in *. lia.
Qed.

(* inside the matched span, a glyph is kept iff it is one of the matched ones *)
Lemma match_seq_kept_iff : forall kp preds l p qs,
  match_seq kp preds l p = Some qs ->
  forall j h, p + j <= last qs 0 -> qs <> [] -> nth_error l j = Some h ->
  kp (gid h) = memnat (p + j) qs.
Proof.
  intros kp preds. induction preds as [|pr preds IH]; intros l p qs H j h Hj Hne Hnth; simpl in H.
  - inversion H; subst. congruence.
  - destruct (next_kept kp l p) as [[[g l'] q]|] eqn:En; [|discriminate].
    destruct (test_pred pr (gid g)); [|discriminate].
    destruct (match_seq kp preds l' (S q)) as [qs'|] eqn:E; [|discriminate].
    inversion H; subst. apply next_kept_spec in En.
    destruct En as (Hle & Hn & Hk & Hl & Hs).
    pose proof (match_seq_bounds _ _ _ _ _ E) as Hb.
    destruct (Nat.lt_trichotomy j (q - p)) as [Hlt|[Heq|Hgt]].
    + rewrite (Hs j h Hlt Hnth). symmetry. apply memnat_false.
      intros [Hq|Hin]; [lia|]. apply Hb in Hin. lia.
    + subst j. rewrite Hn in Hnth. inversion Hnth; subst.
      rewrite Hk. symmetry. apply memnat_true. left. lia.
    + destruct qs' as [|q' qs'].
      * simpl in Hj. lia.
      * rewrite (last_cons_ne q (q' :: qs') 0 0) in Hj by discriminate.
        assert (Hnth' : nth_error l' (j - S (q - p)) = Some h).
        { subst l'. rewrite nth_error_skipn_add. replace (S (q - p) + (j - S (q - p))) with j by lia. assumption. }
        pose proof (IH _ _ _ E (j - S (q - p)) h) as IH'.
        replace (S q + (j - S (q - p))) with (p + j) in IH' by lia.
        rewrite IH' by (auto; discriminate).
        unfold memnat. simpl. replace (p + j =? q) with false by (symmetry; apply Nat.eqb_neq; lia).
        reflexivity.
Qed.

Lemma drop_at_filter : forall kp qs (l : list glyph) p,
  (forall j h, nth_error l j = Some h -> kp (gid h) = memnat (p + j) qs) ->
  drop_at l p qs = filter (skipped kp) l.
Proof.
  intros kp qs l. induction l as [|x l IH]; intros p H; simpl; [reflexivity|].
  pose proof (H 0 x eq_refl) as H0. rewrite Nat.add_0_r in H0.
  unfold skipped at 1. rewrite H0.
  assert (IH' : drop_at l (S p) qs = filter (skipped kp) l).
  { apply IH. intros j h Hj. rewrite (H (S j) h Hj). f_equal. lia. }
  destruct (memnat p qs); simpl; rewrite IH'; reflexivity.
Qed.

Lemma drop_at_app {A} : forall (l1 l2 : list A) p qs,
  drop_at (l1 ++ l2) p qs = drop_at l1 p qs ++ drop_at l2 (p + length l1) qs.
Proof.
  induction l1 as [|x l1 IH]; intros l2 p qs; simpl.
  - rewrite Nat.add_0_r. reflexivity.
  - rewrite IH. replace (S p + length l1) with (p + S (length l1)) by lia.
    destruct (memnat p qs); reflexivity.
Qed.

Lemma drop_at_beyond {A} : forall (l : list A) p qs,
  (forall q, In q qs -> q < p) -> drop_at l p qs = l.
Proof.
  induction l as [|x l IH]; intros p qs H; simpl; [reflexivity|].
  replace (memnat p qs) with false.
  - f_equal. apply IH. intros q Hq. specialize (H q Hq). lia.
  - symmetry. apply memnat_false. intros Hin. specialize (H p Hin). lia.
Qed.

Lemma drop_at_subseq {A} : forall (l : list A) p qs, Subseq (drop_at l p qs) l.
Proof.
  induction l as [|x l IH]; intros p qs; simpl; [constructor|].
  destruct (memnat p qs); [apply sub_skip | apply sub_cons]; apply IH.
Qed.

Lemma last_in {A} (l : list A) (d : A) : l <> [] -> In (last l d) l.
Proof.
  induction l as [|x l IH]; intros H; [congruence|].
  destruct l as [|y l]; [left; reflexivity|].
  right. change (last (x :: y :: l) d) with (last (y :: l) d). apply IH. discriminate.
Qed.

Lemma match_seq_le_last : forall kp preds l p qs,
  match_seq kp preds l p = Some qs -> forall q, In q qs -> q <= last qs 0.
Proof.
  intros kp preds. induction preds as [|pr preds IH]; intros l p qs H q0 Hin; simpl in H.
  - inversion H; subst. destruct Hin.
  - destruct (next_kept kp l p) as [[[g l'] q]|] eqn:En; [|discriminate].
    destruct (test_pred pr (gid g)); [|discriminate].
    destruct (match_seq kp preds l' (S q)) as [qs'|] eqn:E; [|discriminate].
    inversion H; subst.
    destruct qs' as [|q' qs'].
    + destruct Hin as [<-|[]]. simpl. lia.
    + rewrite (last_cons_ne q (q' :: qs') 0 0) by discriminate.
      destruct Hin as [<-|Hin].
      * assert (Hne : q' :: qs' <> []) by discriminate.
        pose proof (match_seq_bounds _ _ _ _ _ E (last (q' :: qs') 0) (last_in _ 0 Hne)). lia.
      * eapply IH; eassumption.
Qed.

Lemma skipn_skipn' {A} (l : list A) : forall x y, skipn x (skipn y l) = skipn (y + x) l.
Proof.
  induction l as [|z l IH]; intros x y.
  - rewrite !skipn_nil. reflexivity.
  - destruct y; simpl; [reflexivity|]. apply IH.
Qed.

Lemma skipn_split_slice {A} (l : list A) (i j : nat) :
  i <= j -> skipn i l = slice l i j ++ skipn j l.
Proof.
  intros H. unfold slice. rewrite <- (firstn_skipn (j - i) (skipn i l)) at 1.
  f_equal. rewrite skipn_skipn'. f_equal. lia.
Qed.

(* shape of the sequence behind a ligature: the glyphs of the matched span
   which are not components are exactly the skipped ones, in order *)
Lemma merge_shape : forall kp preds seq a b qs,
  match_seq kp preds (slice seq (S a) b) (S a) = Some qs ->
  drop_at (skipn (S a) seq) (S a) qs =
  filter (skipped kp) (slice seq (S a) (S (last_pos (a :: qs) a))) ++
  skipn (S (last_pos (a :: qs) a)) seq.
Proof.
  intros kp preds seq a b qs H. unfold last_pos.
  destruct qs as [|q0 qs0].
  - cbn [last]. unfold slice. rewrite Nat.sub_diag. cbn [firstn filter app].
    apply drop_at_beyond. intros q [].
  - set (qs := q0 :: qs0) in *.
    rewrite (last_cons_ne a qs a 0) by (unfold qs; discriminate).
    set (lst := last qs 0).
    assert (Hin : In lst qs) by (apply last_in; unfold qs; discriminate).
    pose proof (match_seq_bounds _ _ _ _ _ H lst Hin) as Hb.
    pose proof (slice_length seq (S a) b) as Hsl.
    assert (Hlen : lst < length seq).
    { pose proof (match_seq_kept_iff _ _ _ _ _ H (lst - S a)) as _.
      assert (Hx : lst - S a < length (slice seq (S a) b)) by lia.
      apply nth_error_Some in Hx.
      destruct (nth_error (slice seq (S a) b) (lst - S a)) as [h|] eqn:Eh; [|congruence].
      apply nth_error_slice in Eh. destruct Eh as [Eh _].
      assert (S a + (lst - S a) < length seq) by (apply nth_error_Some; congruence). lia. }
    rewrite (skipn_split_slice seq (S a) (S lst)) by lia.
    rewrite drop_at_app. f_equal.
    + apply drop_at_filter. intros j h Hj.
      apply nth_error_slice in Hj. destruct Hj as [Hj Hlt].
      apply (match_seq_kept_iff _ _ _ _ _ H j h); [fold lst; lia | unfold qs; discriminate |].
      unfold slice. rewrite nth_error_firstn_lt by lia.
      rewrite nth_error_skipn_add. assumption.
    + apply drop_at_beyond. intros q Hq.
      pose proof (match_seq_le_last _ _ _ _ _ H q Hq) as Hle. fold lst in Hle.
      unfold slice. rewrite firstn_length, skipn_length. lia.
Qed.

Lemma match_input_inv : forall kp seq a b pr rest ms,
  match_input kp seq a b (pr :: rest) = Some ms ->
  exists g0 qs, nth_error seq a = Some g0 /\ a < b /\ test_pred pr (gid g0) = true /\
    match_seq kp rest (slice seq (S a) b) (S a) = Some qs /\ ms = a :: qs.
Proof.
  intros kp seq a b pr rest ms H. unfold match_input in H.
  destruct (nth_error seq a) as [g0|]; [|discriminate].
  destruct (a <? b) eqn:Eab; simpl in H; [|discriminate].
  destruct (test_pred pr (gid g0)) eqn:Et; [|discriminate].
  destruct (match_seq kp rest (slice seq (S a) b) (S a)) as [qs|] eqn:E; [|discriminate].
  inversion H; subst. apply Nat.ltb_lt in Eab. exists g0, qs. auto.
Qed.

(* ------------------------------------------- effects of simple subtables *)

Lemma find_lig_inv : forall kp seq a b g ligs ms out,
  find_lig kp seq a b g ligs = Some (ms, out) ->
  exists pre comps post, ligs = pre ++ (comps, out) :: post /\
    (forall c o, In (c, o) pre -> match_input kp seq a b (PGlyph g :: map PGlyph c) = None) /\
    match_input kp seq a b (PGlyph g :: map PGlyph comps) = Some ms.
Proof.
  intros kp seq a b g ligs. induction ligs as [|[c o] ligs IH]; intros ms out H; cbn [find_lig] in H; [discriminate|].
  destruct (match_input kp seq a b (PGlyph g :: map PGlyph c)) as [ms'|] eqn:E.
  - inversion H; subst. exists [], c, ligs.
    split; [reflexivity|]. split; [intros ? ? []|assumption].
  - destruct (IH _ _ H) as (pre & comps & post & -> & Hpre & Hm).
    exists ((c, o) :: pre), comps, post.
    split; [reflexivity|]. split; [|assumption].
    intros c' o' [Heq|Hin]; [inversion Heq; subst; assumption | eapply Hpre; eassumption].
Qed.

Lemma pair_second_kept : forall kp seq a b g1 l' p,
  next_kept kp (slice seq (S a) b) (S a) = Some (g1, l', p) ->
  a < p /\ nth_error seq p = Some g1 /\ kp (gid_at seq p) = true.
Proof.
  intros kp seq a b g1 l' p H. apply next_kept_spec in H.
  destruct H as (Hle & Hn & Hk & _). apply nth_error_slice in Hn. destruct Hn as [Hn _].
  replace (S a + (p - S a)) with p in Hn by lia.
  repeat split; [lia | assumption |]. unfold gid_at. rewrite Hn. assumption.
Qed.

Lemma simple_effect_wf : forall gd kp seq a b sub e ok,
  simple_effect gd kp seq a b sub = Some (e, ok) ->
  effect_wf kp seq a e /\ a < length seq.
Proof.
  intros gd kp seq a b sub e ok H. unfold simple_effect in H.
  destruct (nth_error seq a) as [g0|] eqn:Ea; [|discriminate].
  assert (Hlen : a < length seq) by (apply nth_error_Some; congruence).
  split; [|assumption].
  destruct sub; try discriminate.
  - (* single 1 *) destruct (memN (gid g0) cov); inversion H; subst. simpl. split; [lia|reflexivity].
  - destruct (assoc (gid g0) m); inversion H; subst. simpl. split; [lia|reflexivity].
  - destruct (assoc (gid g0) m) as [[|h hs]|]; inversion H; subst. simpl. split; [reflexivity|discriminate].
  - destruct (assoc (gid g0) m) as [[|h hs]|]; inversion H; subst. simpl. split; [lia|reflexivity].
  - (* ligature *)
    destruct (assoc (gid g0) m) as [ligs|]; [|discriminate].
    destruct (find_lig kp seq a b (gid g0) ligs) as [[ms out]|] eqn:El; inversion H; subst.
    apply find_lig_inv in El. destruct El as (pre & comps & post & _ & _ & Hm).
    apply match_input_inv in Hm. destruct Hm as (g0' & qs & _ & _ & _ & Hq & ->).
    simpl. exists (map PGlyph comps), b, qs. auto.
  - destruct (memN (gid g0) cov); inversion H; subst. simpl. split; [lia|reflexivity].
  - destruct (assoc (gid g0) m); inversion H; subst. simpl. split; [lia|reflexivity].
  - (* pair 1 *)
    destruct (next_kept kp (slice seq (S a) b) (S a)) as [[[g1 l'] p]|] eqn:En; [|discriminate].
    apply pair_second_kept in En. destruct En as (Hap & Hn & Hk).
    destruct (assoc (gid g0) m) as [row|]; [|discriminate].
    destruct (assoc (gid g1) row) as [[v1 [v2|]]|]; inversion H; subst; simpl.
    + split; [lia|]. auto.
    + split; [lia|reflexivity].
  - (* pair 2 *)
    destruct (memN (gid g0) cov); [|discriminate].
    destruct (next_kept kp (slice seq (S a) b) (S a)) as [[[g1 l'] p]|] eqn:En; [|discriminate].
    apply pair_second_kept in En. destruct En as (Hap & Hn & Hk).
    destruct (nth_error m (N.to_nat (class_of cd1 (gid g0)))) as [row|]; [|discriminate].
    destruct (nth_error row (N.to_nat (class_of cd2 (gid g1)))) as [[v1 [v2|]]|]; inversion H; subst; simpl.
    + split; [lia|]. auto.
    + split; [lia|reflexivity].
  - (* mark to base *)
    destruct (assoc (gid g0) marks) as [[cls [mx my]]|]; [|discriminate].
    destruct (find_base bases (rev (firstn a seq)) 1) as [[anchors d]|]; [|discriminate].
    destruct (nth_error anchors cls) as [[[bx byy]|]|]; inversion H; subst.
    simpl. split; [lia|reflexivity].
  - (* mark to mark *)
    destruct (assoc (gid g0) marks1) as [[cls [mx my]]|]; [|discriminate].
    destruct (negb (mm_same (next_kept kp (rev (firstn a seq)) 0) (find_base marks2 (rev (firstn a seq)) 1))).
    + inversion H; subst. simpl. split; [lia|reflexivity].
    + destruct (next_kept kp (rev (firstn a seq)) 0) as [[[g2 l2] d]|]; [|discriminate].
      destruct (assoc (gid g2) marks2) as [anchors|]; [|discriminate].
      destruct (nth_error anchors cls) as [[[bx byy]|]|]; inversion H; subst.
      simpl. split; [lia|reflexivity].
  - (* reverse chaining *)
    destruct (assoc (gid g0) m) as [h|]; [|discriminate].
    destruct (match_ctx kp (map PCov back) (rev (firstn a seq)) && match_ctx kp (map PCov look) (skipn (S a) seq));
      inversion H; subst. simpl. split; [lia|reflexivity].
Qed.

(* ------------------------------------------------------ skipped glyphs *)

Lemma filter_app_skipped : forall kp (l1 l2 : list glyph),
  filter (skipped kp) (l1 ++ l2) = filter (skipped kp) l1 ++ filter (skipped kp) l2.
Proof. intros. apply filter_app. Qed.

Lemma set_nth_skipped : forall kp (l : list glyph) p g',
  kp (gid_at l p) = true -> Subseq (filter (skipped kp) l) (set_nth p g' l).
Proof.
  intros kp l p g' Hk. unfold gid_at in Hk.
  destruct (nth_error l p) as [g|] eqn:E.
  - rewrite (set_nth_split l p g' g E).
    rewrite (firstn_skipn_cons l p g E) at 1.
    rewrite filter_app_skipped. apply subseq_app; [apply filter_subseq|].
    simpl. unfold skipped at 1. rewrite Hk. simpl. apply sub_skip. apply filter_subseq.
  - rewrite set_nth_none by assumption. apply filter_subseq.
Qed.

Lemma filter_skipped_kept : forall kp g (l : list glyph),
  kp (gid g) = true -> filter (skipped kp) (g :: l) = filter (skipped kp) l.
Proof. intros kp g l H. cbn [filter]. unfold skipped at 1. rewrite H. reflexivity. Qed.

Lemma subseq_app_r {A} (l1 l2 pre : list A) : Subseq l1 l2 -> Subseq l1 (pre ++ l2).
Proof. intros H. induction pre; simpl; [assumption | apply sub_skip; assumption]. Qed.

Lemma apply_effect_skipped : forall kp seq a e s,
  s_seq s = seq -> effect_wf kp seq a e -> kp (gid_at seq a) = true ->
  Subseq (filter (skipped kp) seq) (s_seq (fst (apply_effect e s))).
Proof.
  intros kp seq a e s Hs Hwf Hk. destruct e as [upd next | p gs | ms lig].
  - destruct Hwf as [_ Hwf]. cbn [apply_effect fst s_seq]. rewrite Hs.
    destruct upd as [|[p1 g1] [|[p2 g2] [|? ?]]]; try contradiction.
    + subst p1. cbn [fold_left fst snd]. apply set_nth_skipped. assumption.
    + destruct Hwf as (-> & Hlt & Hk2). cbn [fold_left fst snd].
      eapply skipped_chain; [apply set_nth_skipped; exact Hk|].
      apply set_nth_skipped. unfold gid_at in *.
      rewrite nth_error_set_nth_other by lia. assumption.
  - destruct Hwf as [-> _]. cbn [apply_effect fst s_seq]. rewrite Hs.
    unfold gid_at in Hk. destruct (nth_error seq a) as [g|] eqn:E.
    + rewrite (firstn_skipn_cons seq a g E) at 1.
      rewrite filter_app_skipped. apply subseq_app; [apply filter_subseq|].
      rewrite filter_skipped_kept by assumption.
      apply subseq_app_r. apply filter_subseq.
    + assert (Hlen : length seq <= a) by (apply nth_error_None; assumption).
      rewrite firstn_all2 by assumption.
      replace (filter (skipped kp) seq) with (filter (skipped kp) seq ++ []) by apply app_nil_r.
      apply subseq_app; [apply filter_subseq | constructor].
  - destruct Hwf as (preds & b & qs & -> & Hm). cbn [apply_effect fst s_seq hd tl]. rewrite Hs.
    rewrite (merge_shape _ _ _ _ _ _ Hm).
    unfold gid_at in Hk. destruct (nth_error seq a) as [g|] eqn:E.
    + rewrite (firstn_skipn_cons seq a g E) at 1.
      rewrite filter_app_skipped. apply subseq_app; [apply filter_subseq|].
      rewrite filter_skipped_kept by assumption. apply sub_skip.
      set (lst := last_pos (a :: qs) a).
      assert (Hle : S a <= S lst).
      { unfold lst, last_pos. destruct qs as [|q0 qs0]; [simpl; lia|].
        rewrite (last_cons_ne a (q0 :: qs0) a 0) by discriminate.
        assert (Hne : q0 :: qs0 <> []) by discriminate.
        pose proof (match_seq_bounds _ _ _ _ _ Hm _ (last_in _ 0 Hne)). lia. }
      rewrite (skipn_split_slice seq (S a) (S lst) Hle) at 1.
      rewrite filter_app_skipped. apply subseq_app; [apply subseq_refl | apply filter_subseq].
    + assert (Hlen : length seq <= a) by (apply nth_error_None; assumption).
      rewrite firstn_all2 by assumption.
      replace (filter (skipped kp) seq) with (filter (skipped kp) seq ++ []) by apply app_nil_r.
      apply subseq_app; [apply filter_subseq | constructor].
Qed.

Lemma ctx_rules_simple : forall sub g, is_simple sub = true -> ctx_rules sub g = [].
Proof. intros sub g H. destruct sub; simpl in *; try reflexivity; discriminate. Qed.

Lemma try_sub_simple : forall ll gd budget rec kp a tl s sub,
  is_simple sub = true ->
  try_sub ll gd budget rec kp a tl s sub =
  match simple_effect gd kp (s_seq s) a (length (s_seq s) - tl) sub with
  | Some (e, ok) => Some (apply_effect e (and_ok ok s))
  | None => None
  end.
Proof.
  intros. unfold try_sub.
  destruct (simple_effect gd kp (s_seq s) a (length (s_seq s) - tl) sub) as [[e ok]|]; [reflexivity|].
  rewrite ctx_rules_simple by assumption. reflexivity.
Qed.

Lemma try_subs_skipped : forall ll gd budget rec kp a tl s subs s' next,
  forallb is_simple subs = true ->
  kp (gid_at (s_seq s) a) = true ->
  try_subs ll gd budget rec kp a tl s subs = Some (s', next) ->
  Subseq (filter (skipped kp) (s_seq s)) (s_seq s').
Proof.
  intros ll gd budget rec kp a tl s subs. induction subs as [|sub subs IH]; intros s' next Hsimple Hk H.
  - discriminate.
  - cbn [forallb] in Hsimple. apply andb_prop in Hsimple. destruct Hsimple as [Hs1 Hs2].
    cbn [try_subs] in H. rewrite try_sub_simple in H by assumption.
    destruct (simple_effect gd kp (s_seq s) a (length (s_seq s) - tl) sub) as [[e ok]|] eqn:E.
    + inversion H as [H1]. apply simple_effect_wf in E. destruct E as [Hwf _].
      pose proof (apply_effect_skipped kp (s_seq s) a e (and_ok ok s) eq_refl Hwf Hk) as Hsub.
      rewrite H1 in Hsub. exact Hsub.
    + eapply IH; eassumption.
Qed.

Lemma step_skipped : forall ll gd budget lk p seq seq' next ok,
  forallb is_simple (lk_subs lk) = true ->
  step ll gd budget lk p seq = (seq', next, ok) ->
  Subseq (filter (skipped (kp_of gd lk)) seq) seq'.
Proof.
  intros ll gd budget lk p seq seq' next ok Hsimple H. unfold step in H.
  destruct (kp_of gd lk (gid_at seq p)) eqn:Hk.
  - destruct budget as [|f]; cbn [apply_at] in H.
    + inversion H; subst. apply filter_subseq.
    + destruct (try_subs ll gd (S f) (apply_at ll gd (S f) f) (kp_of gd lk) p 0 (mkSt seq [] 0 true) (lk_subs lk))
        as [[s' nx]|] eqn:E.
      * inversion H; subst. eapply (try_subs_skipped _ _ _ _ _ _ _ (mkSt seq [] 0 true)); eassumption.
      * inversion H; subst. apply filter_subseq.
  - inversion H; subst. apply filter_subseq.
Qed.

Lemma scan_skipped : forall ll gd budget lk fuel r seq ok,
  forallb is_simple (lk_subs lk) = true ->
  Subseq (filter (skipped (kp_of gd lk)) seq) (fst (scan ll gd budget lk fuel r seq ok)).
Proof.
  intros ll gd budget lk fuel. induction fuel as [|f IH]; intros r seq ok Hsimple; cbn [scan].
  - apply filter_subseq.
  - destruct (r =? 0); [apply filter_subseq|].
    destruct (step ll gd budget lk (length seq - r) seq) as [[seq' next] ok'] eqn:E.
    destruct (size_cap <? length seq').
    + cbn [fst]. eapply step_skipped; eassumption.
    + eapply skipped_chain; [eapply step_skipped; eassumption | apply IH; assumption].
Qed.

(* ---------------------------------------------------------- scan progress *)

Lemma fold_set_nth_length : forall (upd : list (nat * glyph)) (l : list glyph),
  length (fold_left (fun l u => set_nth (fst u) (snd u) l) upd l) = length l.
Proof.
  induction upd as [|u upd IH]; intros l; simpl; [reflexivity|].
  rewrite IH. apply set_nth_length.
Qed.

Lemma drop_at_length {A} : forall (l : list A) p qs, length (drop_at l p qs) <= length l.
Proof. intros. apply subseq_length. apply drop_at_subseq. Qed.

Lemma merge_next_ge : forall kp preds l a qs,
  match_seq kp preds l (S a) = Some qs -> S a <= S (last_pos (a :: qs) a) - length qs.
Proof.
  intros kp preds l a qs H. unfold last_pos. destruct qs as [|q0 qs0].
  - simpl. lia.
  - rewrite (last_cons_ne a (q0 :: qs0) a 0) by discriminate.
    assert (Hne : q0 :: qs0 <> []) by discriminate.
    pose proof (match_seq_last _ _ _ _ _ H Hne). lia.
Qed.

Lemma apply_effect_progress : forall kp seq a e s,
  s_seq s = seq -> effect_wf kp seq a e -> a < length seq ->
  length (s_seq (fst (apply_effect e s))) - snd (apply_effect e s) < length seq - a.
Proof.
  intros kp seq a e s Hs Hwf Ha. destruct e as [upd next | p gs | ms lig].
  - destruct Hwf as [Hn _]. cbn [apply_effect fst snd s_seq].
    rewrite fold_set_nth_length, Hs. lia.
  - destruct Hwf as [-> Hne]. cbn [apply_effect fst snd s_seq]. rewrite Hs.
    rewrite !app_length, firstn_length, skipn_length.
    destruct gs; [congruence|]. simpl. lia.
  - destruct Hwf as (preds & b & qs & -> & Hm). cbn [apply_effect fst snd s_seq hd tl]. rewrite Hs.
    pose proof (merge_next_ge _ _ _ _ _ Hm) as Hn.
    rewrite app_length, firstn_length. cbn [length].
    pose proof (drop_at_length (skipn (S a) seq) (S a) qs) as Hd.
    rewrite skipn_length in Hd. lia.
Qed.

Lemma skip_ignored_ge : forall kp l p, p <= skip_ignored kp l p.
Proof.
  intros kp l. induction l as [|g l IH]; intros p; simpl; [lia|].
  destruct (kp (gid g)); [lia|]. specialize (IH (S p)). lia.
Qed.

Lemma find_rule_inv : forall kp seq a b rs P acts,
  find_rule kp seq a b rs = Some (P, acts) ->
  exists pre r post, rs = pre ++ r :: post /\
    (forall x, In x pre -> rule_matches kp seq a b x = None) /\
    rule_matches kp seq a b r = Some P /\ acts = r_acts r.
Proof.
  intros kp seq a b rs. induction rs as [|r rs IH]; intros P acts H; cbn [find_rule] in H; [discriminate|].
  destruct (rule_matches kp seq a b r) as [ms|] eqn:E.
  - inversion H; subst. exists [], r, rs.
    split; [reflexivity|]. split; [intros ? []|]. split; [assumption|reflexivity].
  - destruct (IH _ _ H) as (pre & r' & post & -> & Hpre & Hm & Ha).
    exists (r :: pre), r', post.
    split; [reflexivity|]. split; [|split; assumption].
    intros x [<-|Hin]; [assumption | apply Hpre; assumption].
Qed.

Lemma rule_matches_inv : forall kp seq a b r P,
  rule_matches kp seq a b r = Some P ->
  match_input kp seq a b (r_in r) = Some P /\
  match_ctx kp (r_back r) (rev (firstn a seq)) = true /\
  match_ctx kp (r_look r) (skipn (S (last_pos P a)) seq) = true.
Proof.
  intros kp seq a b r P H. unfold rule_matches in H.
  destruct (match_input kp seq a b (r_in r)) as [ms|] eqn:E; [|discriminate].
  destruct (match_ctx kp (r_back r) (rev (firstn a seq))) eqn:Eb; cbn [andb] in H; [|discriminate].
  destruct (match_ctx kp (r_look r) (skipn (S (last_pos ms a)) seq)) eqn:El; [|discriminate].
  inversion H; subst. auto.
Qed.

Lemma match_input_last_ge : forall kp seq a b preds P,
  match_input kp seq a b preds = Some P -> a <= last_pos P a /\ a < length seq /\ a < b.
Proof.
  intros kp seq a b preds P H. destruct preds as [|pr rest]; [discriminate|].
  apply match_input_inv in H. destruct H as (g0 & qs & Hn & Hab & _ & Hm & ->).
  assert (a < length seq) by (apply nth_error_Some; congruence).
  repeat split; try assumption. unfold last_pos. destruct qs as [|q0 qs0]; [simpl; lia|].
  rewrite (last_cons_ne a (q0 :: qs0) a 0) by discriminate.
  assert (Hne : q0 :: qs0 <> []) by discriminate.
  pose proof (match_seq_bounds _ _ _ _ _ Hm _ (last_in _ 0 Hne)). lia.
Qed.

Lemma try_sub_progress : forall ll gd budget rec kp a tl s sub s' next,
  try_sub ll gd budget rec kp a tl s sub = Some (s', next) ->
  length (s_seq s') - next < length (s_seq s) - a.
Proof.
  intros ll gd budget rec kp a tl s sub s' next H. unfold try_sub in H.
  destruct (simple_effect gd kp (s_seq s) a (length (s_seq s) - tl) sub) as [[e ok]|] eqn:E.
  - apply simple_effect_wf in E. destruct E as [Hwf Ha].
    pose proof (apply_effect_progress kp (s_seq s) a e (and_ok ok s) eq_refl Hwf Ha) as Hp.
    inversion H as [H1]. rewrite H1 in Hp. exact Hp.
  - destruct (find_rule kp (s_seq s) a (length (s_seq s) - tl) (ctx_rules sub (gid_at (s_seq s) a)))
      as [[P acts]|] eqn:Ef; [|discriminate].
    apply find_rule_inv in Ef. destruct Ef as (pre & r & post & _ & _ & Hm & _).
    apply rule_matches_inv in Hm. destruct Hm as (Hm & _ & _).
    apply match_input_last_ge in Hm. destruct Hm as (Hl & Ha & _).
    inversion H; subst. clear H.
    pose proof (skip_ignored_ge kp (slice (s_seq s) (S (last_pos P a)) (length (s_seq s) - tl)) (S (last_pos P a))) as Hs.
    unfold end_pos. unfold pop_frame. cbn [s_seq]. lia.
Qed.

Lemma try_subs_progress : forall ll gd budget rec kp a tl s subs s' next,
  try_subs ll gd budget rec kp a tl s subs = Some (s', next) ->
  length (s_seq s') - next < length (s_seq s) - a.
Proof.
  intros ll gd budget rec kp a tl s subs. induction subs as [|sub subs IH]; intros s' next H; cbn [try_subs] in H.
  - discriminate.
  - destruct (try_sub ll gd budget rec kp a tl s sub) as [[s1 n1]|] eqn:E.
    + inversion H; subst. eapply try_sub_progress; eassumption.
    + apply IH; assumption.
Qed.

Lemma step_decreases : forall ll gd budget lk r seq seq' next ok,
  0 < r -> r <= length seq ->
  step ll gd budget lk (length seq - r) seq = (seq', next, ok) ->
  length seq' - next < r.
Proof.
  intros ll gd budget lk r seq seq' next ok Hr Hle H. unfold step in H.
  set (p := length seq - r) in *.
  assert (Hp : length seq - S p < r) by lia.
  destruct (kp_of gd lk (gid_at seq p)).
  - destruct budget as [|f]; cbn [apply_at] in H.
    + inversion H; subst. simpl. exact Hp.
    + destruct (try_subs ll gd (S f) (apply_at ll gd (S f) f) (kp_of gd lk) p 0 (mkSt seq [] 0 true) (lk_subs lk))
        as [[s' nx]|] eqn:E.
      * inversion H; subst. apply try_subs_progress in E. simpl in E. lia.
      * inversion H; subst. exact Hp.
  - inversion H; subst. exact Hp.
Qed.

Lemma scan_trace_decreasing : forall ll gd budget lk fuel r seq,
  r <= length seq ->
  strictly_decreasing (scan_trace ll gd budget lk fuel r seq).
Proof.
  intros ll gd budget lk fuel. induction fuel as [|f IH]; intros r seq Hle; cbn [scan_trace].
  - exact I.
  - destruct (r =? 0) eqn:Er; [exact I|]. apply Nat.eqb_neq in Er.
    destruct (step ll gd budget lk (length seq - r) seq) as [[seq' next] ok] eqn:E.
    assert (Hr : 0 < r) by lia.
    pose proof (step_decreases _ _ _ _ _ _ _ _ _ Hr Hle E) as Hd.
    cbn [strictly_decreasing]. destruct (size_cap <? length seq'); [split; exact I|]. split.
    + destruct f; cbn [scan_trace]; [exact I|].
      destruct (length seq' - next =? 0); [exact I|].
      destruct (step ll gd budget lk (length seq' - (length seq' - next)) seq') as [[? ?] ?]. exact Hd.
    + apply IH. lia.
Qed.

(* the fuel |seq| given by apply_lookup always suffices *)
Lemma scan_fuel_irrelevant : forall ll gd budget lk f1 f2 r seq ok,
  r <= f1 -> r <= f2 -> r <= length seq ->
  scan ll gd budget lk f1 r seq ok = scan ll gd budget lk f2 r seq ok.
Proof.
  intros ll gd budget lk f1. induction f1 as [|f1 IH]; intros f2 r seq ok H1 H2 Hle.
  - assert (r = 0) by lia. subst. destruct f2; [reflexivity|].
    cbn [scan Nat.eqb]. rewrite andb_true_r. reflexivity.
  - destruct f2 as [|f2].
    + assert (r = 0) by lia. subst. cbn [scan Nat.eqb]. rewrite andb_true_r. reflexivity.
    + cbn [scan]. destruct (r =? 0) eqn:Er; [reflexivity|]. apply Nat.eqb_neq in Er.
      destruct (step ll gd budget lk (length seq - r) seq) as [[seq' next] ok'] eqn:E.
      assert (Hr : 0 < r) by lia.
      pose proof (step_decreases _ _ _ _ _ _ _ _ _ Hr Hle E) as Hd.
      destruct (size_cap <? length seq'); [reflexivity|].
      apply IH; lia.
Qed.

(* -------------------------------------------------------------- ligature *)

Lemma match_seq_glyphs : forall kp comps l p qs,
  match_seq kp (map PGlyph comps) l p = Some qs ->
  map (fun q => match nth_error l (q - p) with Some g => gid g | None => 0%N end) qs = comps.
Proof.
  intros kp comps. induction comps as [|c comps IH]; intros l p qs H; cbn [map match_seq] in H.
  - inversion H; reflexivity.
  - destruct (next_kept kp l p) as [[[g l'] q]|] eqn:En; [|discriminate].
    destruct (test_pred (PGlyph c) (gid g)) eqn:Et; [|discriminate].
    destruct (match_seq kp (map PGlyph comps) l' (S q)) as [qs'|] eqn:E; [|discriminate].
    inversion H; subst. apply next_kept_spec in En. destruct En as (Hle & Hn & Hk & Hl & Hs).
    cbn [map]. rewrite Hn. simpl in Et. apply N.eqb_eq in Et. f_equal; [assumption|].
    rewrite <- (IH _ _ _ E). apply map_ext_in. intros q' Hq'.
    pose proof (match_seq_bounds _ _ _ _ _ E q' Hq') as Hb.
    subst l'. rewrite nth_error_skipn_add. replace (S (q - p) + (q' - S q)) with (q' - p) by lia.
    reflexivity.
Qed.

Lemma ligature_result : forall kp seq a b g ligs ms out s lig,
  find_lig kp seq a b g ligs = Some (ms, out) -> s_seq s = seq ->
  exists comps,
    In (comps, out) ligs /\
    map (gid_at seq) ms = g :: comps /\
    hd 0 ms = a /\
    Forall (fun p => kp (gid_at seq p) = true) (tl ms) /\
    s_seq (fst (apply_effect (EMerge ms lig) s)) =
      firstn a seq ++ lig :: filter (skipped kp) (slice seq (S a) (S (last_pos ms a)))
                   ++ skipn (S (last_pos ms a)) seq.
Proof.
  intros kp seq a b g ligs ms out s lig H Hs.
  apply find_lig_inv in H. destruct H as (pre & comps & post & -> & _ & Hm).
  apply match_input_inv in Hm. destruct Hm as (g0 & qs & Hn & Hab & Ht & Hq & ->).
  exists comps. split; [apply in_or_app; right; left; reflexivity|].
  assert (Hnth : forall q, In q qs -> exists h, nth_error (slice seq (S a) b) (q - S a) = Some h /\
                                          nth_error seq q = Some h).
  { intros q Hin. pose proof (match_seq_bounds _ _ _ _ _ Hq q Hin) as Hb.
    assert (Hx : q - S a < length (slice seq (S a) b)) by lia.
    apply nth_error_Some in Hx.
    destruct (nth_error (slice seq (S a) b) (q - S a)) as [h|] eqn:Eh; [|congruence].
    exists h. split; [reflexivity|]. apply nth_error_slice in Eh. destruct Eh as [Eh _].
    replace (S a + (q - S a)) with q in Eh by lia. assumption. }
  split; [|split; [reflexivity|split]].
  - cbn [map]. f_equal.
    + unfold gid_at. rewrite Hn. simpl in Ht. apply N.eqb_eq in Ht. assumption.
    + rewrite <- (match_seq_glyphs _ _ _ _ _ Hq). apply map_ext_in. intros q Hin.
      destruct (Hnth q Hin) as (h & H1 & H2). unfold gid_at. rewrite H1, H2. reflexivity.
  - cbn [tl]. apply Forall_forall. intros q Hin.
    destruct (Hnth q Hin) as (h & H1 & H2). unfold gid_at. rewrite H2.
    pose proof (match_seq_kept_iff _ _ _ _ _ Hq (q - S a) h) as Hk.
    replace (S a + (q - S a)) with q in Hk
      by (pose proof (match_seq_bounds _ _ _ _ _ Hq q Hin); lia).
    rewrite Hk; [apply memnat_true; assumption | | | assumption].
    + eapply match_seq_le_last; eassumption.
    + intros ->. destruct Hin.
  - cbn [apply_effect fst s_seq hd tl]. rewrite Hs.
    rewrite (merge_shape _ _ _ _ _ _ Hq). reflexivity.
Qed.

Lemma ligature_effect : forall gd kp seq a b m g0 ligs ms out,
  nth_error seq a = Some g0 -> assoc (gid g0) m = Some ligs ->
  find_lig kp seq a b (gid g0) ligs = Some (ms, out) ->
  simple_effect gd kp seq a b (SLigature m) =
  Some (EMerge ms (mkG out (flat_map (text_at seq) ms) 0%Z 0%Z 0%Z), true).
Proof. intros. unfold simple_effect. rewrite H, H0, H1. reflexivity. Qed.

(* ------------------------------------------------------------ positioning *)

Lemma eset1_result : forall (seq : list glyph) a g' next s,
  s_seq s = seq -> a < length seq ->
  let seq' := s_seq (fst (apply_effect (ESet [(a, g')] next) s)) in
  nth_error seq' a = Some g' /\ (forall q, q <> a -> nth_error seq' q = nth_error seq q) /\
  length seq' = length seq.
Proof.
  intros seq a g' next s Hs Ha. cbn [apply_effect fst s_seq fold_left snd]. rewrite Hs.
  split; [apply nth_error_set_nth_same; assumption|].
  split; [intros q Hq; apply nth_error_set_nth_other; auto | apply set_nth_length].
Qed.

Lemma eset2_result : forall (seq : list glyph) a p g' g'' next s,
  s_seq s = seq -> a < length seq -> p < length seq -> a <> p ->
  let seq' := s_seq (fst (apply_effect (ESet [(a, g'); (p, g'')] next) s)) in
  nth_error seq' a = Some g' /\ nth_error seq' p = Some g'' /\
  (forall q, q <> a -> q <> p -> nth_error seq' q = nth_error seq q) /\
  length seq' = length seq.
Proof.
  intros seq a p g' g'' next s Hs Ha Hp Hne. cbn [apply_effect fst s_seq fold_left snd]. rewrite Hs.
  split; [|split; [|split]].
  - rewrite nth_error_set_nth_other by auto. apply nth_error_set_nth_same; assumption.
  - apply nth_error_set_nth_same. rewrite set_nth_length. assumption.
  - intros q H1 H2. rewrite !nth_error_set_nth_other by auto. reflexivity.
  - rewrite !set_nth_length. reflexivity.
Qed.

Lemma pos1_effect : forall gd kp seq a b cov v g0,
  nth_error seq a = Some g0 -> memN (gid g0) cov = true ->
  simple_effect gd kp seq a b (SPos1 cov v) = Some (ESet [(a, add_vr v g0)] (S a), vr_ok v g0).
Proof. intros. unfold simple_effect. rewrite H, H0. reflexivity. Qed.

Lemma pos2_effect : forall gd kp seq a b m v g0,
  nth_error seq a = Some g0 -> assoc (gid g0) m = Some v ->
  simple_effect gd kp seq a b (SPos2 m) = Some (ESet [(a, add_vr v g0)] (S a), vr_ok v g0).
Proof. intros. unfold simple_effect. rewrite H, H0. reflexivity. Qed.

Lemma pair1_effect_both : forall gd kp seq a b m g0 g1 l' p row v1 v2,
  nth_error seq a = Some g0 ->
  next_kept kp (slice seq (S a) b) (S a) = Some (g1, l', p) ->
  assoc (gid g0) m = Some row -> assoc (gid g1) row = Some (v1, Some v2) ->
  simple_effect gd kp seq a b (SPair1 m) =
  Some (ESet [(a, add_vr v1 g0); (p, add_vr v2 g1)] (S p), vr_ok v1 g0 && vr_ok v2 g1).
Proof. intros. unfold simple_effect. rewrite H, H0, H1, H2. reflexivity. Qed.

Lemma pair1_effect_first : forall gd kp seq a b m g0 g1 l' p row v1,
  nth_error seq a = Some g0 ->
  next_kept kp (slice seq (S a) b) (S a) = Some (g1, l', p) ->
  assoc (gid g0) m = Some row -> assoc (gid g1) row = Some (v1, None) ->
  simple_effect gd kp seq a b (SPair1 m) = Some (ESet [(a, add_vr v1 g0)] p, vr_ok v1 g0).
Proof. intros. unfold simple_effect. rewrite H, H0, H1, H2. reflexivity. Qed.

Lemma pair2_effect : forall gd kp seq a b cov cd1 cd2 m g0 g1 l' p row v1 v2o,
  nth_error seq a = Some g0 -> memN (gid g0) cov = true ->
  next_kept kp (slice seq (S a) b) (S a) = Some (g1, l', p) ->
  nth_error m (N.to_nat (class_of cd1 (gid g0))) = Some row ->
  nth_error row (N.to_nat (class_of cd2 (gid g1))) = Some (v1, v2o) ->
  simple_effect gd kp seq a b (SPair2 cov cd1 cd2 m) =
  match v2o with
  | None => Some (ESet [(a, add_vr v1 g0)] p, vr_ok v1 g0)
  | Some v2 => Some (ESet [(a, add_vr v1 g0); (p, add_vr v2 g1)] (S p), vr_ok v1 g0 && vr_ok v2 g1)
  end.
Proof. intros. unfold simple_effect. rewrite H, H0, H1, H2, H3. destruct v2o; reflexivity. Qed.

Lemma markbase_effect : forall gd kp seq a b marks (bases : list (N * list anchor)) g0 cls mx my
    (anchors : list anchor) d bx byy,
  nth_error seq a = Some g0 -> assoc (gid g0) marks = Some (cls, (mx, my)) ->
  find_base bases (rev (firstn a seq)) 1 = Some (anchors, d) ->
  nth_error anchors cls = Some (Some (bx, byy)) ->
  exists ok,
  simple_effect gd kp seq a b (SMarkBase marks bases) =
  Some (ESet [(a, mkG (gid g0) (gtext g0)
                      (gx g0 + (bx - mx - sum_adv (slice seq (a - d) a)))%Z
                      (gy g0 + (byy - my))%Z (gadv g0))] (S a), ok).
Proof.
  intros. unfold simple_effect. rewrite H. cbn iota beta. rewrite H0. cbn iota beta.
  rewrite H1. cbn iota beta. rewrite H2. eexists. reflexivity.
Qed.

(* the base found by find_base is the nearest preceding glyph with a base record *)
Lemma find_base_spec : forall V (bases : list (N * V)) l d0 v d,
  find_base bases l d0 = Some (v, d) ->
  d0 <= d /\ (exists g, nth_error l (d - d0) = Some g /\ assoc (gid g) bases = Some v) /\
  (forall i h, i < d - d0 -> nth_error l i = Some h -> assoc (gid h) bases = None).
Proof.
  intros V bases l. induction l as [|x l IH]; intros d0 v d H; cbn [find_base] in H; [discriminate|].
  destruct (assoc (gid x) bases) as [v'|] eqn:E.
  - inversion H; subst. rewrite Nat.sub_diag. split; [lia|]. split.
    + exists x. split; [reflexivity|assumption].
    + intros i h Hi. lia.
  - apply IH in H. destruct H as (Hle & (g & Hn & Ha) & Hs).
    split; [lia|]. replace (d - d0) with (S (d - S d0)) by lia. split.
    + exists g. split; assumption.
    + intros i h Hi Hnth. destruct i; simpl in Hnth.
      * inversion Hnth; subst. assumption.
      * apply (Hs i h); [lia|assumption].
Qed.

(* ------------------------------------------------------------ no match *)

Lemma step_not_kept : forall ll gd budget lk p seq,
  kp_of gd lk (gid_at seq p) = false -> step ll gd budget lk p seq = (seq, S p, true).
Proof. intros. unfold step. rewrite H. reflexivity. Qed.

Lemma step_no_subtable : forall ll gd f lk p seq,
  (forall x, In x (lk_subs lk) ->
     try_sub ll gd (S f) (apply_at ll gd (S f) f) (kp_of gd lk) p 0 (mkSt seq [] 0 true) x = None) ->
  step ll gd (S f) lk p seq = (seq, S p, true).
Proof.
  intros ll gd f lk p seq H. unfold step. destruct (kp_of gd lk (gid_at seq p)); [|reflexivity].
  cbn [apply_at]. rewrite try_subs_none by assumption. reflexivity.
Qed.

(* ---------------------- the glyph result does not depend on the domain flag *)

Lemma scan_fst_indep : forall ll gd budget lk fuel r seq ok1 ok2,
  fst (scan ll gd budget lk fuel r seq ok1) = fst (scan ll gd budget lk fuel r seq ok2).
Proof.
  intros ll gd budget lk fuel. induction fuel as [|f IH]; intros r seq ok1 ok2; cbn [scan].
  - reflexivity.
  - destruct (r =? 0); [reflexivity|].
    destruct (step ll gd budget lk (length seq - r) seq) as [[seq' next] ok'].
    destruct (size_cap <? length seq'); [reflexivity | apply IH].
Qed.

Lemma apply_lookup_fst_indep : forall ll gd budget li seq ok1 ok2,
  fst (apply_lookup ll gd budget (seq, ok1) li) = fst (apply_lookup ll gd budget (seq, ok2) li).
Proof.
  intros. unfold apply_lookup. destruct (nth_error ll li) as [lk|]; [|reflexivity].
  cbn [fst snd]. destruct (is_reverse lk); [reflexivity | apply scan_fst_indep].
Qed.

Lemma fold_lookup_fst_indep : forall ll gd budget order seq ok1 ok2,
  fst (fold_left (apply_lookup ll gd budget) order (seq, ok1)) =
  fst (fold_left (apply_lookup ll gd budget) order (seq, ok2)).
Proof.
  intros ll gd budget order. induction order as [|li order IH]; intros seq ok1 ok2; cbn [fold_left].
  - reflexivity.
  - pose proof (apply_lookup_fst_indep ll gd budget li seq ok1 ok2) as H.
    destruct (apply_lookup ll gd budget (seq, ok1) li) as [s1 o1].
    destruct (apply_lookup ll gd budget (seq, ok2) li) as [s2 o2].
    cbn [fst] in H. subst s2. apply IH.
Qed.

Lemma R_shape_app : forall ll gd l1 l2 seq,
  R_shape ll gd (l1 ++ l2) seq = R_shape ll gd l2 (R_shape ll gd l1 seq).
Proof.
  intros. unfold R_shape. rewrite R_run_app. unfold R_run at 2.
  destruct (R_run ll gd gtab_actionBudget l1 seq) as [s1 o1]. cbn [fst].
  apply fold_lookup_fst_indep.
Qed.

(* ------------------------------------------------ nested actions are live *)

Lemma run_actions_nil : forall ll gd budget rec tl' s,
  run_actions ll gd budget rec tl' [] s = s.
Proof. reflexivity. Qed.

(* an action is resolved against the CURRENT input positions of the
   innermost frame (the head of s_frames at the time the action runs) *)
Lemma run_actions_cons_live : forall ll gd budget rec tl' si li acts s p lk' s' n,
  s_ok (count_action budget s) = true ->
  nth_error (hd [] (s_frames s)) si = Some p ->
  nth_error ll li = Some lk' ->
  kp_of gd lk' (gid_at (s_seq s) p) = true ->
  rec lk' p tl' (count_action budget s) = Some (s', n) ->
  run_actions ll gd budget rec tl' ((si, li) :: acts) s = run_actions ll gd budget rec tl' acts s'.
Proof.
  intros ll gd budget rec tl' si li acts s p lk' s' n Hok Hp Hl Hk Hr.
  cbn [run_actions]. rewrite Hok. cbn [negb].
  change (s_frames (count_action budget s)) with (s_frames s).
  change (s_seq (count_action budget s)) with (s_seq s).
  rewrite Hp, Hl, Hk, Hr. reflexivity.
Qed.

Lemma run_actions_cons_skip : forall ll gd budget rec tl' si li acts s,
  s_ok (count_action budget s) = true ->
  (nth_error (hd [] (s_frames s)) si = None \/ nth_error ll li = None \/
   exists p lk', nth_error (hd [] (s_frames s)) si = Some p /\ nth_error ll li = Some lk' /\
                 kp_of gd lk' (gid_at (s_seq s) p) = false) ->
  run_actions ll gd budget rec tl' ((si, li) :: acts) s =
  run_actions ll gd budget rec tl' acts (count_action budget s).
Proof.
  intros ll gd budget rec tl' si li acts s Hok H.
  cbn [run_actions]. rewrite Hok. cbn [negb].
  change (s_frames (count_action budget s)) with (s_frames s).
  change (s_seq (count_action budget s)) with (s_seq s).
  destruct H as [H|[H|(p & lk' & H1 & H2 & H3)]].
  - rewrite H. reflexivity.
  - rewrite H. destruct (nth_error (hd [] (s_frames s)) si); reflexivity.
  - rewrite H1, H2, H3. reflexivity.
Qed.

(* every enclosing frame is updated by every edit *)
Lemma frames_after_insert : forall p gs s,
  s_frames (fst (apply_effect (EInsert p gs) s)) = map (ins_positions p (length gs)) (s_frames s).
Proof. reflexivity. Qed.

Lemma frames_after_merge : forall ms lig s,
  s_frames (fst (apply_effect (EMerge ms lig) s)) = map (del_positions (tl ms)) (s_frames s).
Proof. reflexivity. Qed.

Lemma frames_after_set : forall upd next s,
  s_frames (fst (apply_effect (ESet upd next) s)) = s_frames s.
Proof. reflexivity. Qed.

Lemma ins_positions_single : forall p k q,
  ins_positions p k [q] = if q <? p then [q] else if q =? p then seq p k else [q + k - 1].
Proof.
  intros. unfold ins_positions. cbn [flat_map]. rewrite app_nil_r. reflexivity.
Qed.

Lemma ins_positions_app : forall p k P1 P2,
  ins_positions p k (P1 ++ P2) = ins_positions p k P1 ++ ins_positions p k P2.
Proof. intros. unfold ins_positions. apply flat_map_app. Qed.

(* the renumbering of ins_positions follows the glyphs *)
Lemma insert_tracks : forall (l gs : list glyph) p,
  p < length l ->
  let l' := firstn p l ++ gs ++ skipn (S p) l in
  (forall q, q < p -> nth_error l' q = nth_error l q) /\
  (forall j, j < length gs -> nth_error l' (p + j) = nth_error gs j) /\
  (forall q, p < q -> nth_error l' (q + length gs - 1) = nth_error l q).
Proof.
  intros l gs p Hp l'. unfold l'.
  assert (Hf : length (firstn p l) = p) by (rewrite firstn_length; lia).
  split; [|split].
  - intros q Hq. rewrite nth_error_app1 by lia. apply nth_error_firstn_lt. assumption.
  - intros j Hj. rewrite nth_error_app2 by lia. rewrite Hf.
    replace (p + j - p) with j by lia. apply nth_error_app1. assumption.
  - intros q Hq. rewrite nth_error_app2 by lia. rewrite Hf.
    rewrite nth_error_app2 by lia. rewrite nth_error_skipn_add. f_equal. lia.
Qed.

Lemma del_positions_removed : forall rest q, In q rest -> del_positions rest [q] = [].
Proof.
  intros rest q H. unfold del_positions. cbn [flat_map].
  apply memnat_true in H. rewrite H. reflexivity.
Qed.

Lemma del_positions_kept : forall rest q, ~ In q rest -> del_positions rest [q] = [q - count_lt rest q].
Proof.
  intros rest q H. unfold del_positions. cbn [flat_map].
  apply memnat_false in H. rewrite H. reflexivity.
Qed.

Lemma del_positions_app : forall rest P1 P2,
  del_positions rest (P1 ++ P2) = del_positions rest P1 ++ del_positions rest P2.
Proof. intros. unfold del_positions. apply flat_map_app. Qed.

Lemma count_lt_before : forall rest q, (forall r, In r rest -> q <= r) -> count_lt rest q = 0.
Proof.
  intros rest q H. unfold count_lt. induction rest as [|r rest IH]; [reflexivity|].
  cbn [filter]. replace (r <? q) with false.
  - apply IH. intros r' Hr'. apply H. right. assumption.
  - symmetry. apply Nat.ltb_ge. apply H. left. reflexivity.
Qed.

(* positions in front of a merge are not renumbered; the ligature stays at
   the first component's position *)
Lemma merge_tracks_front : forall (l : list glyph) m0 rest lig,
  m0 <= length l ->
  let l' := firstn m0 l ++ lig :: drop_at (skipn (S m0) l) (S m0) rest in
  (forall q, q < m0 -> nth_error l' q = nth_error l q) /\ nth_error l' m0 = Some lig.
Proof.
  intros l m0 rest lig Hm l'. unfold l'.
  assert (Hf : length (firstn m0 l) = m0) by (rewrite firstn_length; lia).
  split.
  - intros q Hq. rewrite nth_error_app1 by lia. apply nth_error_firstn_lt. assumption.
  - rewrite nth_error_app2 by lia. rewrite Hf, Nat.sub_diag. reflexivity.
Qed.



(* ------------------------------------------- mark to mark, reverse chaining *)

Lemma markmark_effect : forall gd kp seq a b marks1 (marks2 : list (N * list anchor)) g0 cls mx my
    g2 l2 d (anchors : list anchor) bx byy,
  nth_error seq a = Some g0 -> assoc (gid g0) marks1 = Some (cls, (mx, my)) ->
  next_kept kp (rev (firstn a seq)) 0 = Some (g2, l2, d) ->
  mm_same (Some (g2, l2, d)) (find_base marks2 (rev (firstn a seq)) 1) = true ->
  assoc (gid g2) marks2 = Some anchors ->
  nth_error anchors cls = Some (Some (bx, byy)) ->
  let g' := mkG (gid g0) (gtext g0)
                (gx g2 + (bx - mx - sum_adv (slice seq (a - S d) a)))%Z
                (gy g2 + (byy - my))%Z (gadv g0) in
  simple_effect gd kp seq a b (SMarkMark marks1 marks2) =
  Some (ESet [(a, g')] (S a), glyph_fits g' && Z.eqb (gx g2) 0 && Z.eqb (gy g2) 0).
Proof.
  intros. unfold simple_effect. rewrite H. cbn iota beta. rewrite H0. cbn iota beta zeta.
  rewrite H1. rewrite H2. cbn [negb]. cbn iota beta. rewrite H3. cbn iota beta. rewrite H4. reflexivity.
Qed.

Lemma revchain_effect : forall gd kp seq a b m back look g0 h,
  nth_error seq a = Some g0 -> assoc (gid g0) m = Some h ->
  match_ctx kp (map PCov back) (rev (firstn a seq)) = true ->
  match_ctx kp (map PCov look) (skipn (S a) seq) = true ->
  simple_effect gd kp seq a b (SRevChain m back look) = Some (ESet [(a, set_gid h g0)] (S a), true).
Proof.
  intros. unfold simple_effect. rewrite H. cbn iota beta. rewrite H0. cbn iota beta.
  rewrite H1, H2. reflexivity.
Qed.

Lemma revchain_no_context : forall gd kp seq a b m back look g0 h,
  nth_error seq a = Some g0 -> assoc (gid g0) m = Some h ->
  match_ctx kp (map PCov back) (rev (firstn a seq)) && match_ctx kp (map PCov look) (skipn (S a) seq) = false ->
  simple_effect gd kp seq a b (SRevChain m back look) = None.
Proof.
  intros. unfold simple_effect. rewrite H. cbn iota beta. rewrite H0. cbn iota beta.
  rewrite H1. reflexivity.
Qed.

Lemma apply_lookup_reverse : forall ll gd budget lk li seq ok,
  nth_error ll li = Some lk -> is_reverse lk = true ->
  apply_lookup ll gd budget (seq, ok) li =
  (rscan ll gd budget lk (length seq) seq,
   ok && seq_eqb (rscan ll gd budget lk (length seq) seq)
                 (fst (scan ll gd budget lk (length seq) (length seq) seq true))).
Proof. intros. unfold apply_lookup. rewrite H, H0. reflexivity. Qed.

Lemma apply_lookup_forward : forall ll gd budget lk li seq ok,
  nth_error ll li = Some lk -> is_reverse lk = false ->
  apply_lookup ll gd budget (seq, ok) li = scan ll gd budget lk (length seq) (length seq) seq ok.
Proof. intros. unfold apply_lookup. rewrite H, H0. reflexivity. Qed.
