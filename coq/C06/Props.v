From Coq Require Import List NArith ZArith Bool Arith Lia.
From Gen Require Import Consts C06.
From C06 Require Import Model Proofs.
Import ListNotations.

Theorem lookups_in_list_order : forall ll gd l1 l2 seq,
  R_run ll gd gtab_actionBudget (l1 ++ l2) seq =
  fold_left (apply_lookup ll gd gtab_actionBudget) l2 (R_run ll gd gtab_actionBudget l1 seq).
Proof. intros. apply R_run_app. Qed.
Print Assumptions lookups_in_list_order.
