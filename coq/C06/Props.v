(* C06/Props.v — the theorems about the reference model R_shape, stated
   against the constants the translator extracted from opentype/gtab and
   opentype/gdef on this run (flag bits, GDEF classes, action budget).
   "The implementation equals R_shape on in_domain inputs" is decided by the
   correspondence run, not here. *)
From Coq Require Import List NArith ZArith Bool Arith Lia.
From Gen Require Import Consts C06.
From C06 Require Import Model Spec Util Proofs Proofs_merge.
Import ListNotations.

Definition B := gtab_actionBudget.

(* 1. Lookups run in lookup-list order: applying l1 ++ l2 is applying l2 to
   the result of l1 (all lookup lists, GDEF tables, orders and sequences). *)
Theorem lookups_in_list_order : forall ll gd l1 l2 seq,
  R_shape ll gd (l1 ++ l2) seq = R_shape ll gd l2 (R_shape ll gd l1 seq).
Proof. exact R_shape_app. Qed.
Print Assumptions lookups_in_list_order.

Theorem lookups_in_list_order_run : forall ll gd l1 l2 seq,
  R_run ll gd B (l1 ++ l2) seq = fold_left (apply_lookup ll gd B) l2 (R_run ll gd B l1 seq).
Proof. intros. apply R_run_app. Qed.

(* 2. The first matching subtable wins: if no subtable of `pre` applies at the
   position and `sub` does, the lookup does exactly what `sub` does, whatever
   follows; and whenever a lookup applies, it is by its first applicable
   subtable; if none applies nothing happens. *)
Theorem first_matching_subtable : forall ll gd rec kp a tl s pre sub post r,
  (forall x, In x pre -> try_sub ll gd B rec kp a tl s x = None) ->
  try_sub ll gd B rec kp a tl s sub = Some r ->
  try_subs ll gd B rec kp a tl s (pre ++ sub :: post) = Some r.
Proof. intros. eapply try_subs_first; eassumption. Qed.
Print Assumptions first_matching_subtable.

Theorem first_matching_subtable_inv : forall ll gd rec kp a tl s subs r,
  try_subs ll gd B rec kp a tl s subs = Some r ->
  exists pre sub post, subs = pre ++ sub :: post /\
    (forall x, In x pre -> try_sub ll gd B rec kp a tl s x = None) /\
    try_sub ll gd B rec kp a tl s sub = Some r.
Proof. intros. eapply try_subs_some_inv; eassumption. Qed.

Theorem no_matching_subtable : forall ll gd f lk p seq,
  (forall x, In x (lk_subs lk) ->
     try_sub ll gd (S f) (apply_at ll gd (S f) f) (kp_of gd lk) p 0 (mkSt seq [] 0 true) x = None) ->
  step ll gd (S f) lk p seq = (seq, S p, true).
Proof. intros. apply step_no_subtable. assumption. Qed.

(* 3. Left-to-right scan.  With r glyphs still to visit the scan is at
   position |seq| - r; a step at p either leaves the sequence alone and
   resumes at p+1 (glyph skipped by the flags, or no subtable applies) or
   rewrites and resumes at the position the match returns, and in every case
   strictly fewer glyphs remain: each glyph of the unvisited tail is visited
   at most once, in increasing order (the remaining-length trace is strictly
   decreasing), and the fuel |seq| of apply_lookup always suffices. *)
Theorem left_to_right_scan_unfold : forall ll gd lk f r seq ok,
  r <> 0 ->
  scan ll gd B lk (S f) r seq ok =
  match step ll gd B lk (length seq - r) seq with
  | (seq', next, ok') =>
    if size_cap <? length seq' then (seq', false)
    else scan ll gd B lk f (length seq' - next) seq' (ok && ok')
  end.
Proof.
  intros ll gd lk f r seq ok Hr. cbn [scan]. apply Nat.eqb_neq in Hr. rewrite Hr. reflexivity.
Qed.

Theorem left_to_right_scan : forall ll gd lk fuel r seq,
  r <= length seq ->
  strictly_decreasing (scan_trace ll gd B lk fuel r seq).
Proof. intros. apply scan_trace_decreasing. assumption. Qed.
Print Assumptions left_to_right_scan.

Theorem match_resumes_after : forall ll gd lk r seq seq' next ok,
  0 < r -> r <= length seq ->
  step ll gd B lk (length seq - r) seq = (seq', next, ok) ->
  length seq' - next < r.
Proof. intros. eapply step_decreases; eassumption. Qed.

Theorem skipped_position_resumes_next : forall ll gd lk p seq,
  kp_of gd lk (gid_at seq p) = false -> step ll gd B lk p seq = (seq, S p, true).
Proof. intros. apply step_not_kept. assumption. Qed.

Theorem scan_fuel : forall ll gd lk f1 f2 r seq ok,
  r <= f1 -> r <= f2 -> r <= length seq ->
  scan ll gd B lk f1 r seq ok = scan ll gd B lk f2 r seq ok.
Proof. intros. apply scan_fuel_irrelevant; assumption. Qed.

(* 4. A non-contextual lookup never changes a glyph its flags skip: the
   skipped glyphs of the input all survive, unchanged and in order. *)
Theorem skipped_untouched : forall ll gd lk seq ok,
  forallb is_simple (lk_subs lk) = true ->
  Subseq (filter (skipped (kp_of gd lk)) seq)
         (fst (scan ll gd B lk (length seq) (length seq) seq ok)).
Proof. intros. apply scan_skipped. assumption. Qed.
Print Assumptions skipped_untouched.

(* 5. Precedence of the flags for mark glyphs: IgnoreMarks > mark filtering
   set > mark attachment type; base and ligature glyphs depend only on their
   own bit; other glyphs are always kept; without GDEF nothing is skipped. *)
Theorem keep_precedence : forall d flags mfs g,
  class_of (gd_class d) g = c06_GlyphClassMark ->
  (has_flag flags c06_IgnoreMarks = true -> keep (Some d) flags mfs g = false) /\
  (has_flag flags c06_IgnoreMarks = false -> has_flag flags c06_UseMarkFilteringSet = true ->
     keep (Some d) flags mfs g = memN g (nth (N.to_nat mfs) (gd_sets d) [])) /\
  (has_flag flags c06_IgnoreMarks = false -> has_flag flags c06_UseMarkFilteringSet = false ->
     keep (Some d) flags mfs g =
       (N.eqb (attach_type flags) 0 || N.eqb (class_of (gd_attach d) g) (attach_type flags))).
Proof.
  intros d flags mfs g Hc. split; [|split]; intros.
  - apply keep_mark_ignoremarks; assumption.
  - apply keep_mark_filterset; assumption.
  - apply keep_mark_attach; assumption.
Qed.
Print Assumptions keep_precedence.

Theorem keep_base_ligature_other : forall d flags mfs g,
  (class_of (gd_class d) g = c06_GlyphClassBase ->
     keep (Some d) flags mfs g = negb (has_flag flags c06_IgnoreBaseGlyphs)) /\
  (class_of (gd_class d) g = c06_GlyphClassLigature ->
     keep (Some d) flags mfs g = negb (has_flag flags c06_IgnoreLigatures)) /\
  (class_of (gd_class d) g <> c06_GlyphClassBase ->
   class_of (gd_class d) g <> c06_GlyphClassLigature ->
   class_of (gd_class d) g <> c06_GlyphClassMark -> keep (Some d) flags mfs g = true) /\
  keep None flags mfs g = true.
Proof.
  intros. split; [|split; [|split]]; intros.
  - apply keep_base; assumption.
  - apply keep_ligature; assumption.
  - apply keep_other; assumption.
  - reflexivity.
Qed.

(* 6. Ligature substitution: the first ligature of the set whose components
   are the next kept glyphs is chosen; the matched glyphs are exactly
   first :: components (all kept by the flags); they are replaced by ONE glyph
   at the first position carrying the concatenated text; the glyphs of the
   span which are not components are exactly the skipped ones and follow the
   ligature in their order; the rest of the sequence is untouched. *)
Theorem ligature_consumes : forall gd kp seq a b m g0 ligs ms out s,
  nth_error seq a = Some g0 -> assoc (gid g0) m = Some ligs ->
  find_lig kp seq a b (gid g0) ligs = Some (ms, out) -> s_seq s = seq ->
  let lig := mkG out (flat_map (text_at seq) ms) 0%Z 0%Z 0%Z in
  simple_effect gd kp seq a b (SLigature m) = Some (EMerge ms lig, true) /\
  exists comps,
    In (comps, out) ligs /\
    map (gid_at seq) ms = gid g0 :: comps /\
    hd 0 ms = a /\
    Forall (fun p => kp (gid_at seq p) = true) (tl ms) /\
    s_seq (fst (apply_effect (EMerge ms lig) s)) =
      firstn a seq ++ lig :: filter (skipped kp) (slice seq (S a) (S (last_pos ms a)))
                   ++ skipn (S (last_pos ms a)) seq.
Proof.
  intros gd kp seq a b m g0 ligs ms out s Hn Ha Hf Hs lig. split.
  - eapply ligature_effect; eassumption.
  - eapply ligature_result; eassumption.
Qed.
Print Assumptions ligature_consumes.

(* 7. Positioning adds exactly the value record (GPOS 1.1, 1.2, 2.1, 2.2)
   resp. the anchor difference minus the intervening advances (GPOS 4.1);
   glyph id and text are unchanged, no other glyph is touched. *)
Theorem value_record_adds_exactly : forall v g,
  gx (add_vr v g) = (gx g + vx v)%Z /\ gy (add_vr v g) = (gy g + vy v)%Z /\
  gadv (add_vr v g) = (gadv g + va v)%Z /\ gid (add_vr v g) = gid g /\ gtext (add_vr v g) = gtext g.
Proof. intros. repeat split. Qed.

Theorem gpos_adds_exactly_single : forall gd kp seq a b g0 s,
  nth_error seq a = Some g0 -> s_seq s = seq ->
  (forall cov v, memN (gid g0) cov = true ->
     exists ok, simple_effect gd kp seq a b (SPos1 cov v) = Some (ESet [(a, add_vr v g0)] (S a), ok)) /\
  (forall m v, assoc (gid g0) m = Some v ->
     exists ok, simple_effect gd kp seq a b (SPos2 m) = Some (ESet [(a, add_vr v g0)] (S a), ok)) /\
  (forall g' next,
     let seq' := s_seq (fst (apply_effect (ESet [(a, g')] next) s)) in
     nth_error seq' a = Some g' /\ (forall q, q <> a -> nth_error seq' q = nth_error seq q) /\
     length seq' = length seq).
Proof.
  intros gd kp seq a b g0 s Hn Hs. split; [|split].
  - intros cov v Hc. eexists. apply pos1_effect; assumption.
  - intros m v Hm. eexists. apply pos2_effect; assumption.
  - intros g' next. apply eset1_result; [assumption|]. apply nth_error_Some. congruence.
Qed.
Print Assumptions gpos_adds_exactly_single.

(* pairs: the second glyph is the next glyph the flags keep inside the window;
   with a second value record both glyphs are adjusted and the scan resumes
   behind the second, without one only the first and the scan resumes AT the
   second glyph *)
Theorem gpos_adds_exactly_pair : forall gd kp seq a b g0 g1 l' p s,
  nth_error seq a = Some g0 -> s_seq s = seq ->
  next_kept kp (slice seq (S a) b) (S a) = Some (g1, l', p) ->
  (a < p /\ nth_error seq p = Some g1 /\ kp (gid g1) = true /\
   (forall i h, S a <= i < p -> nth_error seq i = Some h -> kp (gid h) = false)) /\
  (forall m row v1 v2, assoc (gid g0) m = Some row -> assoc (gid g1) row = Some (v1, Some v2) ->
     exists ok, simple_effect gd kp seq a b (SPair1 m) =
                Some (ESet [(a, add_vr v1 g0); (p, add_vr v2 g1)] (S p), ok)) /\
  (forall m row v1, assoc (gid g0) m = Some row -> assoc (gid g1) row = Some (v1, None) ->
     exists ok, simple_effect gd kp seq a b (SPair1 m) = Some (ESet [(a, add_vr v1 g0)] p, ok)) /\
  (forall cov cd1 cd2 m row v1 v2o, memN (gid g0) cov = true ->
     nth_error m (N.to_nat (class_of cd1 (gid g0))) = Some row ->
     nth_error row (N.to_nat (class_of cd2 (gid g1))) = Some (v1, v2o) ->
     exists ok, simple_effect gd kp seq a b (SPair2 cov cd1 cd2 m) =
       Some (match v2o with
             | None => ESet [(a, add_vr v1 g0)] p
             | Some v2 => ESet [(a, add_vr v1 g0); (p, add_vr v2 g1)] (S p)
             end, ok)) /\
  (forall g' g'' next,
     let seq' := s_seq (fst (apply_effect (ESet [(a, g'); (p, g'')] next) s)) in
     nth_error seq' a = Some g' /\ nth_error seq' p = Some g'' /\
     (forall q, q <> a -> q <> p -> nth_error seq' q = nth_error seq q) /\
     length seq' = length seq).
Proof.
  intros gd kp seq a b g0 g1 l' p s Hn Hs Hk.
  pose proof (next_kept_spec _ _ _ _ _ _ Hk) as (Hle & Hnth & Hkp & _ & Hskip).
  pose proof (pair_second_kept _ _ _ _ _ _ _ Hk) as (Hap & Hp & _).
  split; [|split; [|split; [|split]]].
  - repeat split; auto. intros i h Hi Hh.
    apply (Hskip (i - S a) h); [lia|]. unfold slice.
    rewrite nth_error_firstn_lt.
    + rewrite nth_error_skipn_add. replace (S a + (i - S a)) with i by lia. assumption.
    + apply nth_error_slice in Hnth. lia.
  - intros. eexists. eapply pair1_effect_both; eassumption.
  - intros. eexists. eapply pair1_effect_first; eassumption.
  - intros cov cd1 cd2 m row v1 v2o Hc Hr Hc2.
    rewrite (pair2_effect gd kp seq a b cov cd1 cd2 m g0 g1 l' p row v1 v2o Hn Hc Hk Hr Hc2).
    destruct v2o; eexists; reflexivity.
  - intros g' g'' next. apply eset2_result; try assumption.
    + apply nth_error_Some. congruence.
    + apply nth_error_Some. congruence.
    + lia.
Qed.
Print Assumptions gpos_adds_exactly_pair.

(* mark-to-base: the base is the nearest preceding glyph with a base record
   (d glyphs before the mark); the mark's offset changes by base anchor - mark
   anchor - advances of the glyphs from the base up to the mark *)
Theorem gpos_adds_exactly_markbase : forall gd kp seq a b marks (bases : list (N * list anchor)) g0
    cls mx my (anchors : list anchor) d bx byy,
  nth_error seq a = Some g0 -> assoc (gid g0) marks = Some (cls, (mx, my)) ->
  find_base bases (rev (firstn a seq)) 1 = Some (anchors, d) ->
  nth_error anchors cls = Some (Some (bx, byy)) ->
  (1 <= d /\
   (exists g, nth_error (rev (firstn a seq)) (d - 1) = Some g /\ assoc (gid g) bases = Some anchors) /\
   (forall i h, i < d - 1 -> nth_error (rev (firstn a seq)) i = Some h -> assoc (gid h) bases = None)) /\
  exists ok,
  simple_effect gd kp seq a b (SMarkBase marks bases) =
  Some (ESet [(a, mkG (gid g0) (gtext g0)
                      (gx g0 + (bx - mx - sum_adv (slice seq (a - d) a)))%Z
                      (gy g0 + (byy - my))%Z (gadv g0))] (S a), ok).
Proof.
  intros. split.
  - eapply find_base_spec; eassumption.
  - eapply markbase_effect; eassumption.
Qed.
Print Assumptions gpos_adds_exactly_markbase.

(* 8. (P2) Nested actions are resolved against the LIVE input positions.
   An action (si, li) runs lookup li at the si-th CURRENT input position of the
   innermost enclosing match, inside that match's window; an index beyond the
   input sequence, a missing lookup or a glyph the child's flags skip make the
   action a no-op.  Every edit renumbers the input positions of every
   enclosing match: an insertion puts all new glyphs into the input sequence
   at the place of the replaced glyph and shifts the later positions; a merge
   drops the removed components and shifts the later positions; and the
   renumbering follows the glyphs. *)
Theorem nested_positions_live : forall ll gd rec tl' si li acts s,
  s_ok (count_action B s) = true ->
  (forall p lk' s' n,
     nth_error (hd [] (s_frames s)) si = Some p -> nth_error ll li = Some lk' ->
     kp_of gd lk' (gid_at (s_seq s) p) = true ->
     rec lk' p tl' (count_action B s) = Some (s', n) ->
     run_actions ll gd B rec tl' ((si, li) :: acts) s = run_actions ll gd B rec tl' acts s') /\
  ((nth_error (hd [] (s_frames s)) si = None \/ nth_error ll li = None \/
    exists p lk', nth_error (hd [] (s_frames s)) si = Some p /\ nth_error ll li = Some lk' /\
                  kp_of gd lk' (gid_at (s_seq s) p) = false) ->
   run_actions ll gd B rec tl' ((si, li) :: acts) s =
   run_actions ll gd B rec tl' acts (count_action B s)).
Proof.
  intros ll gd rec tl' si li acts s Hok. split.
  - intros. eapply run_actions_cons_live; eassumption.
  - intros. apply run_actions_cons_skip; assumption.
Qed.
Print Assumptions nested_positions_live.

Theorem positions_follow_insertion : forall p gs s q,
  s_frames (fst (apply_effect (EInsert p gs) s)) = map (ins_positions p (length gs)) (s_frames s) /\
  ins_positions p (length gs) [q] =
    (if q <? p then [q] else if q =? p then seq p (length gs) else [q + length gs - 1]) /\
  (p < length (s_seq s) ->
   let l' := s_seq (fst (apply_effect (EInsert p gs) s)) in
   (forall q, q < p -> nth_error l' q = nth_error (s_seq s) q) /\
   (forall j, j < length gs -> nth_error l' (p + j) = nth_error gs j) /\
   (forall q, p < q -> nth_error l' (q + length gs - 1) = nth_error (s_seq s) q)).
Proof.
  intros p gs s q. split; [reflexivity|]. split; [apply ins_positions_single|].
  intros Hp. cbn [apply_effect fst s_seq]. apply insert_tracks. assumption.
Qed.

Theorem positions_follow_merge : forall ms lig s q,
  s_frames (fst (apply_effect (EMerge ms lig) s)) = map (del_positions (tl ms)) (s_frames s) /\
  (In q (tl ms) -> del_positions (tl ms) [q] = []) /\
  (~ In q (tl ms) -> del_positions (tl ms) [q] = [q - count_lt (tl ms) q]) /\
  ((forall r, In r (tl ms) -> q <= r) -> count_lt (tl ms) q = 0) /\
  (hd 0 ms <= length (s_seq s) ->
   let l' := s_seq (fst (apply_effect (EMerge ms lig) s)) in
   (forall q, q < hd 0 ms -> nth_error l' q = nth_error (s_seq s) q) /\
   nth_error l' (hd 0 ms) = Some lig) /\
  (* behind the ligature: the glyph at old position q (not removed) is now at
     q - #(removed positions before q); all sequences *)
  (NoDup (tl ms) -> (forall r, In r (tl ms) -> hd 0 ms < r) -> hd 0 ms < length (s_seq s) ->
   forall x, hd 0 ms < q -> ~ In q (tl ms) -> nth_error (s_seq s) q = Some x ->
   nth_error (s_seq (fst (apply_effect (EMerge ms lig) s))) (q - count_lt (tl ms) q) = Some x).
Proof.
  intros ms lig s q. split; [reflexivity|].
  split; [apply del_positions_removed|]. split; [apply del_positions_kept|].
  split; [apply count_lt_before|]. split.
  - intros H. cbn [apply_effect fst s_seq]. apply merge_tracks_front. assumption.
  - intros Hnd Hall Hm x Hq Hnot Hn. cbn [apply_effect fst s_seq].
    apply merge_tracks_behind; assumption.
Qed.
Print Assumptions positions_follow_merge.

(* the positions a ligature match returns satisfy the hypotheses above *)
Theorem matched_positions_distinct_increasing : forall kp preds seq a b qs,
  match_seq kp preds (slice seq (S a) b) (S a) = Some qs ->
  NoDup qs /\ (forall r, In r qs -> a < r).
Proof.
  intros kp preds seq a b qs H. split.
  - eapply match_seq_nodup; eassumption.
  - intros r Hr. pose proof (match_seq_bounds _ _ _ _ _ H r Hr). lia.
Qed.

(* 9. GPOS 6.1 (mark to mark): mark2 is the glyph preceding the mark under
   the lookup flags - the nearest preceding kept glyph, everything between is
   skipped by the flags; the mark's offsets become mark2's offsets + (mark2
   anchor - mark1 anchor) - the advances from mark2 up to the mark; glyph id,
   text and advance are unchanged.  The domain flag of the effect is exactly:
   result within int16 and mark2's own offsets zero (together with mm_same
   these are the inputs on which the implementation agrees, open finding
   c06-gpos6-markmark). *)
Theorem gpos_adds_exactly_markmark : forall gd kp seq a b marks1 (marks2 : list (N * list anchor)) g0
    cls mx my g2 l2 d (anchors : list anchor) bx byy,
  nth_error seq a = Some g0 -> assoc (gid g0) marks1 = Some (cls, (mx, my)) ->
  next_kept kp (rev (firstn a seq)) 0 = Some (g2, l2, d) ->
  mm_same (Some (g2, l2, d)) (find_base marks2 (rev (firstn a seq)) 1) = true ->
  assoc (gid g2) marks2 = Some anchors ->
  nth_error anchors cls = Some (Some (bx, byy)) ->
  (nth_error (rev (firstn a seq)) d = Some g2 /\ kp (gid g2) = true /\
   (forall i h, i < d -> nth_error (rev (firstn a seq)) i = Some h -> kp (gid h) = false)) /\
  let g' := mkG (gid g0) (gtext g0)
                (gx g2 + (bx - mx - sum_adv (slice seq (a - S d) a)))%Z
                (gy g2 + (byy - my))%Z (gadv g0) in
  simple_effect gd kp seq a b (SMarkMark marks1 marks2) =
  Some (ESet [(a, g')] (S a), glyph_fits g' && Z.eqb (gx g2) 0 && Z.eqb (gy g2) 0).
Proof.
  intros gd kp seq a b marks1 marks2 g0 cls mx my g2 l2 d anchors bx byy Hn Hm Hk Hs Ha Hc. split.
  - pose proof (next_kept_spec _ _ _ _ _ _ Hk) as (_ & Hnth & Hkp & _ & Hskip).
    rewrite Nat.sub_0_r in *. repeat split; auto.
  - eapply markmark_effect; eassumption.
Qed.
Print Assumptions gpos_adds_exactly_markmark.

(* 10. GSUB 8.1 (reverse chaining single substitution): a lookup made of 8.1
   subtables is processed from the END of the sequence (position p-1 first,
   then p-2, ... 0); at a position the glyph is replaced iff it has an entry,
   the preceding kept glyphs match the backtrack coverages (closest first) and
   the following kept glyphs match the lookahead coverages.  The domain flag of
   such a lookup is exactly "the forward scan gives the same sequence" (the
   implementation scans forward: open finding c06-gsub8-forward-order). *)
Theorem reverse_chaining_from_end : forall ll gd lk p seq,
  rscan ll gd B lk 0 seq = seq /\
  rscan ll gd B lk (S p) seq =
    match step ll gd B lk p seq with (seq', _, _) => rscan ll gd B lk p seq' end.
Proof. intros. split; reflexivity. Qed.

Theorem reverse_chaining_lookup : forall ll gd lk li seq ok,
  nth_error ll li = Some lk ->
  (is_reverse lk = true ->
   apply_lookup ll gd B (seq, ok) li =
   (rscan ll gd B lk (length seq) seq,
    ok && seq_eqb (rscan ll gd B lk (length seq) seq)
                  (fst (scan ll gd B lk (length seq) (length seq) seq true)))) /\
  (is_reverse lk = false ->
   apply_lookup ll gd B (seq, ok) li = scan ll gd B lk (length seq) (length seq) seq ok).
Proof.
  intros. split; intros.
  - apply apply_lookup_reverse; assumption.
  - apply apply_lookup_forward; assumption.
Qed.
Print Assumptions reverse_chaining_lookup.

Theorem reverse_chaining_substitutes : forall gd kp seq a b m back look g0 h,
  nth_error seq a = Some g0 -> assoc (gid g0) m = Some h ->
  (match_ctx kp (map PCov back) (rev (firstn a seq)) = true ->
   match_ctx kp (map PCov look) (skipn (S a) seq) = true ->
   simple_effect gd kp seq a b (SRevChain m back look) = Some (ESet [(a, set_gid h g0)] (S a), true)) /\
  (match_ctx kp (map PCov back) (rev (firstn a seq)) && match_ctx kp (map PCov look) (skipn (S a) seq) = false ->
   simple_effect gd kp seq a b (SRevChain m back look) = None).
Proof.
  intros. split; intros.
  - eapply revchain_effect; eassumption.
  - eapply revchain_no_context; eassumption.
Qed.
