(* C12C/Props.v — the hmtx half of hmtx.Decode as REGENERATED from hmtx/hmtx.go
   (Gen/C12C.v) against C12's hand-written model. *)
From Coq Require Import List NArith ZArith Bool Arith Lia.
From Common Require Import Bytes Outcome.
From Gen Require Import C17B C12C.
From C12 Require Import Codec Util Model Proofs_hmtx.
From C12C Require Import Model Proofs.
Import ListNotations.

(* generated_hmtx_decode_is_model: on every byte table and every
   numberOfHMetrics the generated loop (long metrics, then the trailing left
   side bearings, with its three "hmtx too short" exits) returns exactly what
   C12's dec_long - the hmtx half of M_hmtx_decode - returns. *)
Theorem generated_hmtx_decode_is_model :
  forall (numHor : N) (d : list N),
    bytes_ok d = true -> (Z.of_nat (length d) < 4611686018427387904)%Z ->
    gen_hmtx_read numHor d = S_hmtx_read (N.to_nat numHor) d.
Proof. intros. unfold S_hmtx_read. now apply gen_hmtx_read_is_dec_long. Qed.
Print Assumptions generated_hmtx_decode_is_model.

(* totality: the generated loop ends within its fuel and never panics *)
Theorem generated_hmtx_decode_total :
  forall (numHor : N) (d : list N),
    bytes_ok d = true -> (Z.of_nat (length d) < 4611686018427387904)%Z ->
    gen_hmtx_read numHor d <> Panic /\ gen_hmtx_read numHor d <> OutOfFuel.
Proof.
  intros numHor d Hb Hl. rewrite (gen_hmtx_read_is_dec_long numHor d Hb Hl). apply dec_long_not_bad.
Qed.
Print Assumptions generated_hmtx_decode_total.

(* C12's hmtx_numlong_least for the GENERATED reader: a table written with k
   long records reads back exactly iff k >= numLong *)
Theorem generated_hmtx_numlong_least :
  forall (ws ls : list Z) (k : nat),
    length ws = length ls -> Forall I16 ws -> Forall I16 ls -> (1 <= k <= length ws)%nat ->
    (Z.of_nat (length ws) < 1000000000000000000)%Z ->
    (gen_hmtx_read (N.of_nat k) (S_hmtx_with k ws ls) = Ok (ws, ls) <-> (M_numLong ws <= k)%nat).
Proof.
  intros ws ls k Hlen Hws Hls Hk Hn.
  rewrite gen_hmtx_read_is_dec_long.
  - rewrite Nat2N.id. exact (hmtx_numlong_least_gen ws ls k Hlen Hws Hls Hk).
  - apply hmtx_bytes_ok.
  - unfold S_hmtx_with. pose proof (hmtx_bytes_len ws k ls). lia.
Qed.
Print Assumptions generated_hmtx_numlong_least.
