(* C12C/Proofs.v — the generated loop of hmtx.Decode is C12's dec_long. *)
From Coq Require Import List NArith ZArith Bool Arith Lia.
From Common Require Import Bytes Outcome.
From Gen Require Import C17B C12C.
From C12 Require Import Codec Util Model.
From C17B Require Import Util Proofs_val.
From C12C Require Import Model.
Import ListNotations.
Local Open Scope Z_scope.

(* the loop body and condition, fetched from the generated term *)
Section Fetch.
  Variable n : Z.
  Definition gen_cond : unit -> (list Z * Z * list Z * list Z * Z) -> bool :=
    ltac:(let t := eval cbv beta zeta delta [hmtx_decode_loop] in (fun d => hmtx_decode_loop 0 d n) in
          match t with context [loop_while _ ?c _ _ _] => exact c end).
  Definition gen_body : unit -> (list Z * Z * list Z * list Z * Z) ->
      ctl unit (list Z * Z * list Z * list Z * Z) (option (list Z * list Z)) :=
    ltac:(let t := eval cbv beta zeta delta [hmtx_decode_loop] in (fun d => hmtx_decode_loop 0 d n) in
          match t with context [loop_while _ _ ?b _ _] => exact b end).
End Fetch.

Lemma zlen_cons {A} (x : A) l : zlen (x :: l) = 1 + zlen l.
Proof. unfold zlen. cbn [length]. lia. Qed.

Lemma gi0 x l : go_index (x :: l) 0 = Some x. Proof. reflexivity. Qed.
Lemma gi1 x y l : go_index (x :: y :: l) 1 = Some y. Proof. reflexivity. Qed.
Lemma gs2 (x y : Z) l : go_slice (x :: y :: l) 2 (zlen (x :: y :: l)) = Some l.
Proof.
  rewrite go_slice_ok by (rewrite !zlen_cons; pose proof (zlen_nonneg l); lia).
  f_equal. unfold sub. cbn [Z.to_nat Pos.to_nat Pos.iter_op Nat.add skipn].
  apply firstn_all2. rewrite !zlen_cons. unfold zlen. lia.
Qed.

Lemma ltb2_f (x y : Z) l : (zlen (x :: y :: l) <? 2) = false.
Proof. apply Z.ltb_ge. rewrite !zlen_cons. pose proof (zlen_nonneg l). lia. Qed.
Lemma ltb2_1 (x : Z) : (zlen [x] <? 2) = true. Proof. reflexivity. Qed.
Lemma ltb2_0 : (zlen (@nil Z) <? 2) = true. Proof. reflexivity. Qed.

(* funit.Int16(a)<<8 | funit.Int16(b) on bytes is C12's i16_of *)
Lemma i16_gen (a b : N) : (a < 256)%N -> (b < 256)%N ->
  Z.lor (wrap_s 16 (Z.shiftl (Z.of_N a) 8)) (Z.of_N b) = i16_of a b.
Proof.
  intros Ha Hb. unfold i16_of, to_i16, wrap_s.
  rewrite Z.shiftl_mul_pow2 by lia.
  change (2 ^ 8) with 256. change (2 ^ (16 - 1)) with 32768. change (2 ^ 16) with 65536.
  destruct (N.ltb_spec (a * 256 + b) 32768) as [H|H].
  - rewrite Z.mod_small by lia.
    replace (Z.of_N a * 256 + 32768 - 32768) with (Z.of_N a * 2 ^ 8) by (change (2 ^ 8) with 256; lia).
    rewrite lor_mul_add by (change (2 ^ 8) with 256; lia). change (2 ^ 8) with 256. lia.
  - replace (Z.of_N a * 256 + 32768) with (Z.of_N a * 256 - 32768 + 1 * 65536) by lia.
    rewrite Z.mod_add by lia. rewrite Z.mod_small by lia.
    replace (Z.of_N a * 256 - 32768 - 32768) with ((Z.of_N a - 256) * 2 ^ 8) by (change (2 ^ 8) with 256; lia).
    rewrite lor_mul_add by (change (2 ^ 8) with 256; lia). change (2 ^ 8) with 256. lia.
Qed.

Definition LS : Type := (list Z * Z * list Z * list Z * Z)%type.

(* what the loop does from a state, in terms of dec_long *)
Definition loop_post (n : Z) (dN : list N) (prev : Z) (ws ls : list Z) (i : Z)
    (r : ctl unit LS (option (list Z * list Z))) : Prop :=
  let k := Z.to_nat (n - i) in
  match dec_long k prev dN with
  | Ok (ws', ls') =>
      exists p' i', r = CNorm tt ([], p', ws ++ ws', ls ++ ls', i') /\ (k <= length ws')%nat
  | _ =>
      r = CRet tt None \/
      exists p' ws' ls' i', r = CNorm tt ([], p', ws ++ ws', ls ++ ls', i') /\ (length ws' < k)%nat
  end.

Lemma dec_short_not_bad prev d : dec_short prev d <> Panic /\ dec_short prev d <> OutOfFuel.
Proof.
  revert prev. induction d as [d IH] using (well_founded_induction (Wf_nat.well_founded_ltof _ (@length N))).
  intros prev. destruct d as [|a [|b r]]; cbn [dec_short]; try (split; discriminate).
  destruct (IH r ltac:(unfold Wf_nat.ltof; cbn; lia) prev) as [H1 H2].
  destruct (dec_short prev r) as [[w l]| | |]; try (split; discriminate); contradiction.
Qed.

Lemma dec_long_not_bad k : forall prev d, dec_long k prev d <> Panic /\ dec_long k prev d <> OutOfFuel.
Proof.
  induction k as [|k IH]; intros prev d; cbn [dec_long]; [apply dec_short_not_bad|].
  destruct d as [|a [|b [|c [|e r]]]]; try (split; discriminate).
  destruct (IH (i16_of a b) r) as [H1 H2].
  destruct (dec_long k (i16_of a b) r) as [[w l]| | |]; try (split; discriminate); contradiction.
Qed.

Lemma loop_spec n : 0 <= n -> forall f dN prev ws ls i,
  bytes_ok dN = true -> (length dN < f)%nat -> 0 <= i -> i + Z.of_nat (length dN) < 4611686018427387904 ->
  loop_post n dN prev ws ls i (loop_while f (gen_cond) (gen_body n) tt (ofN dN, prev, ws, ls, i)).
Proof.
  intros Hn. induction f as [|f IH]; intros dN prev ws ls i Hb Hf Hi Hr; [lia|].
  cbn [loop_while]. unfold gen_cond at 1.
  destruct dN as [|a dN].
  - (* no data left *)
    cbn [ofN map]. change (zlen (@nil Z)) with 0. cbn [Z.gtb Z.compare].
    unfold loop_post. destruct (Z.to_nat (n - i)) as [|k]; cbn [dec_long dec_short].
    + exists prev, i. rewrite !app_nil_r. split; [reflexivity|cbn; lia].
    + right. exists prev, [], [], i. rewrite !app_nil_r. split; [reflexivity|cbn; lia].
  - cbn [ofN map]. fold (ofN dN).
    replace (zlen (Z.of_N a :: ofN dN) >? 0) with true
      by (symmetry; apply gtb_true; rewrite zlen_cons; pose proof (zlen_nonneg (ofN dN)); lia).
    cbn [bytes_ok forallb] in Hb. apply andb_true_iff in Hb. destruct Hb as [Hba Hb].
    unfold byte_ok in Hba. apply N.ltb_lt in Hba.
    unfold gen_body at 1.
    destruct (Z.ltb_spec i n) as [Hlt|Hge].
    + (* a long record *)
      assert (Ek : Z.to_nat (n - i) = S (Z.to_nat (n - (i + 1)))) by lia.
      unfold loop_post. rewrite Ek. cbn [dec_long].
      destruct dN as [|b dN].
      { cbn [ofN map]. rewrite ltb2_1. cbn [cbind]. left. reflexivity. }
      cbn [ofN map] in *. fold (ofN dN) in *.
      cbn [bytes_ok forallb] in Hb. apply andb_true_iff in Hb. destruct Hb as [Hbb Hb].
      unfold byte_ok in Hbb. apply N.ltb_lt in Hbb.
      rewrite ltb2_f, gi0, gi1. cbn [pbind]. rewrite gs2. cbn [pbind cbind]. rewrite (i16_gen a b Hba Hbb).
      destruct dN as [|c dN].
      { cbn [ofN map]. rewrite ltb2_0. left. reflexivity. }
      destruct dN as [|e dN].
      { cbn [ofN map]. rewrite ltb2_1. left. reflexivity. }
      cbn [ofN map] in *. fold (ofN dN) in *.
      cbn [bytes_ok forallb] in Hb. apply andb_true_iff in Hb. destruct Hb as [Hbc Hb].
      apply andb_true_iff in Hb. destruct Hb as [Hbe Hb].
      unfold byte_ok in Hbc, Hbe. apply N.ltb_lt in Hbc. apply N.ltb_lt in Hbe.
      rewrite ltb2_f, gi0, gi1. cbn [pbind]. rewrite gs2. cbn [pbind]. rewrite (i16_gen c e Hbc Hbe).
      cbn [length] in Hf, Hr.
      rewrite wrap_s64_small by lia.
      specialize (IH dN (i16_of a b) (ws ++ [i16_of a b]) (ls ++ [i16_of c e]) (i + 1) Hb ltac:(lia) ltac:(lia) ltac:(lia)).
      unfold loop_post in IH.
      destruct (dec_long_not_bad (Z.to_nat (n - (i + 1))) (i16_of a b) dN) as [Hnp Hnf].
      destruct (dec_long (Z.to_nat (n - (i + 1))) (i16_of a b) dN) as [[ws' ls']| | |]; try contradiction.
      * destruct IH as (p' & i' & E & Hl). exists p', i'. rewrite E, <- !app_assoc. split; [reflexivity|cbn; lia].
      * destruct IH as [E|(p' & ws' & ls' & i' & E & Hl)]; [left; exact E|].
        right. exists p', (i16_of a b :: ws'), (i16_of c e :: ls'), i'. rewrite E, <- !app_assoc.
        split; [reflexivity|cbn; lia].
    + (* a bare side bearing *)
      assert (Ek : Z.to_nat (n - i) = 0%nat) by lia.
      unfold loop_post. rewrite Ek. cbn [dec_long cbind].
      destruct dN as [|b dN].
      { cbn [ofN map dec_short]. rewrite ltb2_1. left. reflexivity. }
      cbn [ofN map dec_short] in *. fold (ofN dN) in *.
      cbn [bytes_ok forallb] in Hb. apply andb_true_iff in Hb. destruct Hb as [Hbb Hb].
      unfold byte_ok in Hbb. apply N.ltb_lt in Hbb.
      rewrite ltb2_f, gi0, gi1. cbn [pbind]. rewrite gs2. cbn [pbind]. rewrite (i16_gen a b Hba Hbb).
      cbn [length] in Hf, Hr.
      rewrite wrap_s64_small by lia.
      specialize (IH dN prev (ws ++ [prev]) (ls ++ [i16_of a b]) (i + 1) Hb ltac:(lia) ltac:(lia) ltac:(lia)).
      unfold loop_post in IH. replace (Z.to_nat (n - (i + 1))) with 0%nat in IH by lia.
      cbn [dec_long] in IH.
      destruct (dec_short_not_bad prev dN) as [Hnp Hnf].
      destruct (dec_short prev dN) as [[ws' ls']| | |]; try contradiction.
      * destruct IH as (p' & i' & E & Hl). exists p', i'. rewrite E, <- !app_assoc. split; [reflexivity|cbn; lia].
      * destruct IH as [E|(p' & ws' & ls' & i' & E & Hl)]; [left; exact E|]. cbn in Hl. lia.
Qed.

(* the fragment as a whole *)
Theorem gen_hmtx_read_is_dec_long (numHor : N) (d : list N) :
  bytes_ok d = true -> Z.of_nat (length d) < 4611686018427387904 ->
  gen_hmtx_read numHor d = dec_long (N.to_nat numHor) 0 d.
Proof.
  intros Hb Hl. unfold gen_hmtx_read, hmtx_decode_loop. cbv zeta.
  fold gen_cond. fold (gen_body (Z.of_N numHor)).
  pose proof (loop_spec (Z.of_N numHor) ltac:(lia) (S (length d)) d 0 [] [] 0 Hb ltac:(lia) ltac:(lia) ltac:(lia)) as H.
  unfold loop_post in H. replace (Z.to_nat (Z.of_N numHor - 0)) with (N.to_nat numHor) in H by lia.
  destruct (dec_long_not_bad (N.to_nat numHor) 0 d) as [Hnp Hnf].
  destruct (dec_long (N.to_nat numHor) 0 d) as [[ws ls]| | |]; try contradiction.
  - destruct H as (p' & i' & E & Hk). rewrite E. cbn [cbind app].
    replace (zlen ws <? Z.of_N numHor) with false by (symmetry; apply Z.ltb_ge; unfold zlen; lia).
    reflexivity.
  - destruct H as [E|(p' & ws & ls & i' & E & Hk)]; rewrite E; cbn [cbind finish app]; [reflexivity|].
    replace (zlen ws <? Z.of_N numHor) with true by (symmetry; apply Z.ltb_lt; unfold zlen; lia).
    reflexivity.
Qed.

Lemma hmtx_bytes_ok : forall ws k ls, bytes_ok (hmtx_bytes k ws ls) = true.
Proof.
  induction ws as [|w ws IH]; intros k ls; [reflexivity|].
  destruct ls as [|l ls]; [reflexivity|]. cbn [hmtx_bytes].
  pose proof (be16_bytes_ok (of_i16 w)) as Hw. pose proof (be16_bytes_ok (of_i16 l)) as Hl.
  destruct k; unfold bytes_ok in *; rewrite ?forallb_app; unfold puti16;
    rewrite ?Hw, ?Hl; cbn [andb]; apply IH.
Qed.

Lemma hmtx_bytes_len : forall ws k ls, (length (hmtx_bytes k ws ls) <= 4 * length ws)%nat.
Proof.
  induction ws as [|w ws IH]; intros k ls; [cbn; lia|].
  destruct ls as [|l ls]; [cbn; lia|]. cbn [hmtx_bytes length].
  destruct k as [|k]; rewrite ?app_length, ?puti16_length; [specialize (IH 0%nat ls)|specialize (IH k ls)]; lia.
Qed.
