(* C12C/Model.v — entry points over the GENERATED hmtx half of hmtx.Decode
   (Gen/C12C.v, regenerated from hmtx/hmtx.go on every run). Definitions only. *)
From Coq Require Import List NArith ZArith Bool.
From Common Require Import Bytes Outcome.
From Gen Require Import C17B C12C.
Import ListNotations.

Definition ofN (l : list N) : list Z := map Z.of_N l.

(* the loop of Decode on a table and numberOfHMetrics; fuel = length + 1 *)
Definition gen_hmtx_read (numHor : N) (d : list N) : outcome (list Z * list Z) :=
  match hmtx_decode_loop (S (length d)) (ofN d) (Z.of_N numHor) with
  | MRet _ (Some r) => Ok r
  | MRet _ None => Err
  | MPanic _ => Panic
  | MFuel => OutOfFuel
  end.
