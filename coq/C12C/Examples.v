(* C12C/Examples.v — the hypotheses of Props.v on concrete tables. *)
From Coq Require Import List NArith ZArith Bool.
From Common Require Import Bytes Outcome.
From Gen Require Import C17B C12C.
From C12 Require Import Codec Model.
From C12C Require Import Model.
Import ListNotations.

Example ex_read :
  gen_hmtx_read 2 [1; 0; 255; 254; 2; 0; 0; 3; 0; 7]%N = Ok ([256; 512; 512]%Z, [-2; 3; 7]%Z) /\
  gen_hmtx_read 2 [1; 0; 255; 254; 2; 0; 0; 3; 0]%N = Err /\
  gen_hmtx_read 3 [1; 0; 255; 254; 2; 0; 0; 3]%N = Err /\
  gen_hmtx_read 0 []%N = Ok ([], []) /\
  bytes_ok [1; 0; 255; 254; 2; 0; 0; 3; 0; 7]%N = true.
Proof. vm_compute. repeat split; reflexivity. Qed.

Example ex_written :
  gen_hmtx_read 2 (S_hmtx_with 2 [500; 600; 600]%Z [1; -1; 0]%Z) = Ok ([500; 600; 600]%Z, [1; -1; 0]%Z) /\
  gen_hmtx_read 1 (S_hmtx_with 1 [500; 600; 600]%Z [1; -1; 0]%Z) <> Ok ([500; 600; 600]%Z, [1; -1; 0]%Z).
Proof. vm_compute. split; [reflexivity|discriminate]. Qed.
