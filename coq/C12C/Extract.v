From Coq Require Import Extraction ExtrOcamlBasic.
From Common Require Import Conv.
From C12C Require Import Model.
Extraction "c12c_model.ml" conv_anchor gen_hmtx_read.
