(* C14B/ModelTags2.v — opentype/gtab/locale.go as string functions, and the
   script list at the level of tags.  Definitions only.

   C14/ModelTags.v holds the pieces (imported, not copied): [trim_right]
   (strings.TrimRight(s, " ") and the hand-written loop that strips ALL
   trailing spaces of the language tag), [M_otf_tag_string] (the string
   otfToBCP47 hands to language.Parse: table lookups, "und" for the default
   language system, the script appended when the language part has no "-",
   the "-x-" private-use suffix carrying script and language), [M_from_ext]
   (bcp47ToOtf on the x extension: split at "-", 2 or 3 parts, "dflt" ->
   "DFLT", padding with spaces to 4 bytes, ToUpper of the language) and
   [xtext_spec], the hypothesis about golang.org/x/text.  Here they are put
   together as the two functions, the shapes of tags for which the round trip
   holds are stated, and gtab.ScriptListInfo's encode / readScriptList are
   modelled on top of C08's byte-level codec (C08/ModelSL.v, imported).

   golang.org/x/text is the parameter [xtext] : the string given to
   language.Parse |-> None (parse error) or Some e, e the string of
   tag.Extension('x').  A language.Tag produced by otfToBCP47 is represented
   by that extension string - the only part of it the code under test looks
   at (bcp47ToOtf's other branches, for tags without an x extension, need
   x/text's Raw / Script and are outside the model). *)
From Coq Require Import List NArith Bool Arith.
From Common Require Import Bytes Outcome.
From Gen Require Import C14 C14B.
From C14 Require Import Model ModelTags.
From C08 Require Import Model ModelSub ModelSL.
Import ListNotations.
Local Open Scope N_scope.

Notation list_eqb := C14.Model.list_eqb (only parsing).

(* ------------------------------------------------------------------ *)
(* the two conversions                                                 *)

Section XText.
  Variable xtext : list N -> option (list N).

  (* otfToBCP47(script, lang): None = error return *)
  Definition M_otf_to_ext (script lang : list N) : option (list N) :=
    match M_otf_tag_string script lang with
    | Some p => xtext (full_tag p)
    | None => None
    end.

  (* what readScriptTable asks: `tag, err := otfToBCP47(...); if err != nil { continue }` *)
  Definition conv_ok (script lang : list N) : bool :=
    match M_otf_to_ext script lang with Some _ => true | None => false end.

  (* bcp47ToOtf(otfToBCP47(script, lang)) *)
  Definition M_otf_there_and_back (script lang : list N) : option (list N * list N) :=
    match M_otf_to_ext script lang with
    | Some ext => M_from_ext ext
    | None => None
    end.
End XText.

(* ------------------------------------------------------------------ *)
(* shapes of tags                                                      *)

Definition is_digit (c : N) : bool := (48 <=? c) && (c <=? 57).
Definition is_lower_alnum (c : N) : bool := is_digit c || ((97 <=? c) && (c <=? 122)).
Definition is_upper_alnum (c : N) : bool := is_digit c || ((65 <=? c) && (c <=? 90)).

Definition tag_DFLT : list N := [68; 70; 76; 84].
Definition tag_dflt : list N := [100; 102; 108; 116].

(* a script tag that survives: four bytes; "DFLT", or 1..4 digits / lower-case
   letters followed by spaces, other than "dflt" *)
Definition script_shape (s : list N) : bool :=
  (length s =? 4)%nat &&
  (list_eqb s tag_DFLT ||
   (let c := trim_right s in
    nonempty c && forallb is_lower_alnum c && negb (list_eqb c tag_dflt))).

(* a language tag that survives: "" (the default language system), or four
   bytes: 1..4 digits / upper-case letters followed by spaces *)
Definition lang_shape (l : list N) : bool :=
  match l with
  | [] => true
  | _ => (length l =? 4)%nat &&
         (let c := trim_right l in nonempty c && forallb is_upper_alnum c)
  end.

(* number of padding spaces of a tag *)
Definition padding (s : list N) : nat := length s - length (trim_right s).

(* ------------------------------------------------------------------ *)
(* variant: strings.TrimSuffix(lang, " ") - one space only (seed C08-j) *)

Definition trim_one (s : list N) : list N :=
  match rev s with
  | c :: r => if c =? ch_space then rev r else s
  | [] => s
  end.
Definition private_part_trim1 (script lang : list N) : list N :=
  trim_right script ++ match trim_one lang with [] => [] | l => ch_dash :: l end.

(* a stand-in for x/text that meets xtext_spec and, like x/text, rejects a
   private-use part that is not a list of 1..8 alphanumerics: the extracted
   model runs with it, and the _refuted witnesses are stated with it *)
Fixpoint find_x_parts (pre_rev : list (list N)) (subs : list (list N))
  : option (list (list N) * list (list N)) :=
  match subs with
  | [] => None
  | s :: r => if list_eqb (lower s) [120] then Some (rev pre_rev, r) else find_x_parts (s :: pre_rev) r
  end.
Fixpoint join_dash2 (l : list (list N)) : list N :=
  match l with
  | [] => []
  | [s] => s
  | s :: r => s ++ ch_dash :: join_dash2 r
  end.
Definition xtext_strict (tag : list N) : option (list N) :=
  match find_x_parts [] (split_dash tag) with
  | Some (_, r) => if forallb subtag_ok r then Some ([120; 45] ++ lower (join_dash2 r)) else None
  | None => None
  end.

(* ------------------------------------------------------------------ *)
(* ScriptListInfo.encode: grouping the tags by script                  *)

(* One language system of a ScriptListInfo, as the code sees it: the x
   extension string of the key (a language.Tag) and the value. *)
Definition xitem := (list N * langsys)%type.

(* insertion into the language system records of a script, sorted by tag
   (sort.Slice(langSysRecords, tag <)) *)
Fixpoint ins_lang (lang : list N) (f : langsys) (l : list (list N * langsys)) : list (list N * langsys) :=
  match l with
  | [] => [(lang, f)]
  | (g, x) :: r => if tag_lt lang g then (lang, f) :: l else (g, x) :: ins_lang lang f r
  end.

(* lang == "" is the default language system of the script *)
Definition add_item (lang : list N) (f : langsys) (e : script_entry) : script_entry :=
  match lang with
  | [] => (e_tag e, Some f, e_langs e)
  | _ => (e_tag e, e_def e, ins_lang lang f (e_langs e))
  end.

(* scriptLangs[script] = append(...), scripts sorted by tag *)
Fixpoint ins_entry (script lang : list N) (f : langsys) (es : list script_entry) : list script_entry :=
  match es with
  | [] => [add_item lang f (script, None, [])]
  | e :: r =>
      if list_eqb (e_tag e) script then add_item lang f e :: r
      else if tag_lt script (e_tag e) then add_item lang f (script, None, []) :: es
      else e :: ins_entry script lang f r
  end.

Fixpoint group_pairs (asg : list ((list N * list N) * langsys)) : list script_entry :=
  match asg with
  | [] => []
  | ((s, l), f) :: r => ins_entry s l f (group_pairs r)
  end.

(* for tag := range info { script, _, err := bcp47ToOtf(tag); if err != nil { continue } ... } *)
Fixpoint M_sl_group (xinfo : list xitem) : list script_entry :=
  match xinfo with
  | [] => []
  | (ext, f) :: r =>
      match M_from_ext ext with
      | Some (s, l) => ins_entry s l f (M_sl_group r)
      | None => M_sl_group r
      end
  end.

(* ScriptListInfo.encode() on a non-nil map *)
Definition M_sl_info_encode (xinfo : list xitem) : outcome (list N) :=
  M_sl_encode (M_sl_group xinfo).

(* variant: language systems equal to the script's default are not written (seed C14-i) *)
Definition langsys_eqb (a b : langsys) : bool := (fst a =? fst b) && list_eqb (snd a) (snd b).
Definition drop_equal_default (e : script_entry) : script_entry :=
  match e_def e with
  | Some d => (e_tag e, e_def e, filter (fun x => negb (langsys_eqb (snd x) d)) (e_langs e))
  | None => e
  end.
Definition M_sl_info_encode_dropdefault (xinfo : list xitem) : outcome (list N) :=
  M_sl_encode (map drop_equal_default (M_sl_group xinfo)).

(* readScriptList: the assignments info[otfToBCP47(script, lang)] = LangSys in
   the order they are made (C08's reader, with the conversion filled in) *)
Definition M_sl_info_read (xtext : list N -> option (list N)) (data : list N)
  : outcome (list ((list N * list N) * langsys)) :=
  M_sl_read (conv_ok xtext) data 0.

(* the map these assignments leave behind: later assignments to the same key
   win; presented sorted by (script, language) for comparison *)
Definition key_eqb (a b : list N * list N) : bool := list_eqb (fst a) (fst b) && list_eqb (snd a) (snd b).
Definition key_lt (a b : list N * list N) : bool :=
  tag_lt (fst a) (fst b) || (list_eqb (fst a) (fst b) && tag_lt (snd a) (snd b)).
Fixpoint last_wins (asg : list ((list N * list N) * langsys)) : list ((list N * list N) * langsys) :=
  match asg with
  | [] => []
  | a :: r => if existsb (fun b => key_eqb (fst a) (fst b)) r then last_wins r else a :: last_wins r
  end.
Fixpoint ins_asg (a : (list N * list N) * langsys) (l : list ((list N * list N) * langsys)) :=
  match l with
  | [] => [a]
  | b :: r => if key_lt (fst a) (fst b) then a :: l else b :: ins_asg a r
  end.
Definition canon_asg (asg : list ((list N * list N) * langsys)) : list ((list N * list N) * langsys) :=
  fold_right ins_asg [] (last_wins asg).

(* ------------------------------------------------------------------ *)
(* bcp47ToOtf on a tag WITHOUT an x extension (fixes/C08-bcp47-plain-tag-
   deterministic.diff applied).  What the code observes of the tag, through
   x/text, is the input: whether it is language.Chinese (1), SimplifiedChinese
   (2), TraditionalChinese (3) or none of them (0), the string of its Raw
   language and the string of its Script. *)
Record ptag := mk_ptag { pt_special : N; pt_lang : list N; pt_script : list N }.

(* for key, val := range table { if val == x && (acc == "" || string(key) < acc) { acc = string(key) } }
   [iter]: the entries in the order the Go map is visited *)
Fixpoint search_min (iter : list (list N * list N)) (target acc : list N) : list N :=
  match iter with
  | [] => acc
  | (k, v) :: r =>
      search_min r target
        (if list_eqb v target && (match acc with [] => true | _ => tag_lt k acc end) then k else acc)
  end.
(* as found: for key, val := range table { if val == x { acc = string(key); break } } *)
Fixpoint search_first (iter : list (list N * list N)) (target : list N) : list N :=
  match iter with
  | [] => []
  | (k, v) :: r => if list_eqb v target then k else search_first r target
  end.
(* which of the two the source has is regenerated (Gen/C14B.v) *)
Definition M_plain_search (smallest : bool) (iter : list (list N * list N)) (target : list N) : list N :=
  if smallest then search_min iter target [] else search_first iter target.

Definition tag_hani : list N := [104; 97; 110; 105].
Definition M_plain_tag_gen (lmin smin : bool) (iterL iterS : list (list N * list N)) (pt : ptag)
  : list N * list N :=
  if pt_special pt =? 1 then (tag_hani, [90; 72; 80; 32])            (* "ZHP " *)
  else if pt_special pt =? 2 then (tag_hani, [90; 72; 83; 32])       (* "ZHS " *)
  else if pt_special pt =? 3 then (tag_hani, [90; 72; 84; 32])       (* "ZHT " *)
  else (M_plain_search smin iterS (pt_script pt), M_plain_search lmin iterL (pt_lang pt)).
Definition M_plain_tag := M_plain_tag_gen gtab_plain_lang_min gtab_plain_script_min.

(* a key of a ScriptListInfo: a tag with an x extension or a plain tag *)
Inductive gtag := XTag (ext : list N) | PTag (pt : ptag).
Definition M_bcp47ToOtf (iterL iterS : list (list N * list N)) (t : gtag) : option (list N * list N) :=
  match t with
  | XTag ext => M_from_ext ext
  | PTag pt => Some (M_plain_tag iterL iterS pt)
  end.

Fixpoint M_sl_group_g (iterL iterS : list (list N * list N)) (info : list (gtag * langsys)) : list script_entry :=
  match info with
  | [] => []
  | (t, f) :: r =>
      match M_bcp47ToOtf iterL iterS t with
      | Some (s, l) => ins_entry s l f (M_sl_group_g iterL iterS r)
      | None => M_sl_group_g iterL iterS r
      end
  end.
Definition M_sl_info_encode_g (iterL iterS : list (list N * list N)) (info : list (gtag * langsys))
  : outcome (list N) :=
  M_sl_encode (M_sl_group_g iterL iterS info).

(* all pairs of the built-in tables (with the default language system) *)
Definition builtin_scripts : list (list N) := map fst gtab_scriptBcp47.
Definition builtin_langs : list (list N) := [] :: map fst gtab_langBcp47.
