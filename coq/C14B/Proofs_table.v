(* C14B/Proofs_table.v — name.Table as a struct: get / set / keys. *)
From Coq Require Import List NArith Bool Arith Lia Permutation.
From Coq Require Import ZifyBool ZifyNat ZifyN.
From Common Require Import Bytes Outcome.
From Gen Require Import C14 C14B.
From C14 Require Import Model Proofs_name1 Proofs_name2.
From C14B Require Import Model.
Import ListNotations.
Local Open Scope N_scope.

(* ------------------------------------------------------------------ *)
(* the regenerated switch statements, checked on every run             *)

Definition switch_check : bool :=
  (* get and set use the same correspondence *)
  (list_eqb (map fst name_get_switch) (map fst name_set_switch)) &&
  (list_eqb (map snd name_get_switch) (map snd name_set_switch)) &&
  (* no name id twice, no field twice *)
  nodupb (map fst name_get_switch) && nodupb (map snd name_get_switch) &&
  (* every case label is reached by the counting loop of keys() *)
  forallb (fun p => fst p <=? name_keys_loop_last) name_get_switch &&
  (* every string field is the target of exactly one case *)
  forallb (fun p => N.to_nat (snd p) <? nfields)%nat name_get_switch &&
  (length name_get_switch =? nfields)%nat &&
  (* the Extra filter starts right after the counting loop; the loop ends at maxID *)
  (name_keys_extra_min =? name_keys_loop_last + 1) && (name_keys_loop_last =? name_maxID) &&
  (name_keys_loop_last <? 65536).

Lemma switch_check_true : switch_check = true.
Proof. vm_compute. reflexivity. Qed.

Lemma list_eqb_eq' a b : list_eqb a b = true -> a = b.
Proof.
  revert b. induction a as [|x a IH]; destruct b as [|y b]; cbn [list_eqb]; try discriminate; auto.
  intros H. apply andb_true_iff in H. destruct H as [H1 H2]. apply N.eqb_eq in H1. f_equal; auto.
Qed.

Lemma fst_snd_eq {A B} (l l' : list (A * B)) :
  map fst l = map fst l' -> map snd l = map snd l' -> l = l'.
Proof.
  revert l'. induction l as [|[a b] l IH]; intros [|[c d] l']; cbn [map fst snd]; try discriminate; auto.
  intros E1 E2. injection E1 as -> E1. injection E2 as -> E2. f_equal. now apply IH.
Qed.

Lemma switch_same : name_get_switch = name_set_switch.
Proof.
  pose proof switch_check_true as H. unfold switch_check in H.
  rewrite !andb_true_iff in H. destruct H as [[[[[[[[[H1 H2] _] _] _] _] _] _] _] _].
  apply list_eqb_eq' in H1, H2. now apply fst_snd_eq.
Qed.

Lemma switch_facts :
  NoDup (map fst name_get_switch) /\ NoDup (map snd name_get_switch) /\
  (forall id fi, In (id, fi) name_get_switch -> id <= name_keys_loop_last /\ (N.to_nat fi < nfields)%nat) /\
  length name_get_switch = nfields /\
  name_keys_extra_min = name_keys_loop_last + 1 /\ name_keys_loop_last < 65536.
Proof.
  pose proof switch_check_true as H. unfold switch_check in H.
  rewrite !andb_true_iff in H.
  destruct H as [[[[[[[[[_ _] H3] H4] H5] H6] H7] H8] _] H10].
  split; [now apply nodupb_NoDup|]. split; [now apply nodupb_NoDup|].
  split.
  - intros id fi Hin. rewrite forallb_forall in H5, H6.
    specialize (H5 _ Hin). specialize (H6 _ Hin). cbn [fst snd] in *. split; lia.
  - split; [now apply Nat.eqb_eq|]. split; lia.
Qed.

Lemma switch_lookup_in id fi : lookupN id name_get_switch = Some fi -> In (id, fi) name_get_switch.
Proof. apply lookupN_in. Qed.

Lemma switch_in_lookup id fi : In (id, fi) name_get_switch -> lookupN id name_get_switch = Some fi.
Proof. intros H. apply lookupN_nodup; [apply switch_facts|exact H]. Qed.

Lemma switch_le id fi : lookupN id name_get_switch = Some fi ->
  id <= name_keys_loop_last /\ (N.to_nat fi < nfields)%nat.
Proof. intros H. apply switch_lookup_in in H. now apply (proj1 (proj2 (proj2 switch_facts))) in H. Qed.

Lemma switch_none_above id : name_keys_loop_last < id -> lookupN id name_get_switch = None.
Proof.
  intros H. destruct (lookupN id name_get_switch) as [fi|] eqn:E; [|reflexivity].
  apply switch_le in E. lia.
Qed.

(* two ids with the same field are the same id *)
Lemma switch_inj id id' fi :
  lookupN id name_get_switch = Some fi -> lookupN id' name_get_switch = Some fi -> id = id'.
Proof.
  intros H1 H2. apply switch_lookup_in in H1, H2.
  destruct switch_facts as (_ & Hnd & _).
  revert H1 H2 Hnd. generalize name_get_switch.
  induction l as [|[a b] l IH]; cbn [In map snd]; [tauto|].
  intros [E1|H1] [E2|H2] Hnd; inversion Hnd as [|? ? Hni Hnd']; subst.
  - congruence.
  - injection E1 as -> ->. exfalso. apply Hni. change fi with (snd (id', fi)). now apply in_map.
  - injection E2 as -> ->. exfalso. apply Hni. change fi with (snd (id, fi)). now apply in_map.
  - now apply IH.
Qed.

(* every field index below nfields is the target of a case *)
Lemma switch_surj fi : (fi < nfields)%nat -> exists id, lookupN id name_get_switch = Some (N.of_nat fi).
Proof.
  intros Hfi.
  destruct switch_facts as (_ & Hnd & Hb & Hlen & _).
  (* pigeonhole: NoDup list of length nfields inside {0..nfields-1} contains everything *)
  assert (Hincl : incl (map (fun p => N.to_nat (snd p)) name_get_switch) (seq 0 nfields)).
  { intros x Hx. apply in_map_iff in Hx. destruct Hx as [[id f] [<- Hin]]. cbn [snd].
    apply in_seq. specialize (Hb _ _ Hin). lia. }
  assert (Hnd' : NoDup (map (fun p => N.to_nat (snd p)) name_get_switch)).
  { rewrite <- (map_map snd N.to_nat). apply FinFun.Injective_map_NoDup; [|exact Hnd].
    intros a b Hab. lia. }
  assert (Hin : In fi (map (fun p => N.to_nat (snd p)) name_get_switch)).
  { assert (Hrev : incl (seq 0 nfields) (map (fun p => N.to_nat (snd p)) name_get_switch)).
    { apply NoDup_length_incl; [exact Hnd'| |exact Hincl].
      rewrite map_length, seq_length, Hlen. lia. }
    apply Hrev. apply in_seq. lia. }
  apply in_map_iff in Hin. destruct Hin as [[id f] [E Hin]]. cbn [snd] in E.
  exists id. apply switch_in_lookup. replace (N.of_nat fi) with f by lia. exact Hin.
Qed.

(* ------------------------------------------------------------------ *)
(* lists                                                               *)

Lemma set_nth_length {A} n (v : A) l : length (set_nth n v l) = length l.
Proof. revert n. induction l as [|x l IH]; destruct n; cbn [set_nth length]; auto. Qed.

Lemma nth_set_nth {A} (d : A) n m v l :
  (n < length l)%nat -> nth m (set_nth n v l) d = if (n =? m)%nat then v else nth m l d.
Proof.
  revert n m. induction l as [|x l IH]; intros n m Hn; cbn [length] in Hn; [lia|].
  destruct n, m; cbn [set_nth nth Nat.eqb]; auto. apply IH. lia.
Qed.

Lemma nth_repeat_nil {A} n m : nth m (repeat (@nil A) n) [] = [].
Proof. revert m. induction n; destruct m; cbn [repeat nth]; auto. Qed.

(* ------------------------------------------------------------------ *)
(* the Extra map                                                       *)

Lemma lookup_emap_set m id v id' :
  lookupN id' (emap_set m id v) = if id =? id' then Some v else lookupN id' m.
Proof.
  induction m as [|[i x] r IH]; cbn [emap_set lookupN].
  - reflexivity.
  - destruct (id <? i) eqn:E1; [cbn [lookupN]; reflexivity|].
    destruct (i =? id) eqn:E2.
    + apply N.eqb_eq in E2. subst i. cbn [lookupN]. destruct (id =? id'); reflexivity.
    + cbn [lookupN]. rewrite IH. destruct (i =? id') eqn:E3; [|reflexivity].
      apply N.eqb_eq in E3. subst i. rewrite N.eqb_sym, E2. reflexivity.
Qed.

Definition lb (x : N) (m : list (N * list N)) : Prop := forall e, In e m -> x < fst e.

Lemma sorted_keys_cons i x r : sorted_keys ((i, x) :: r) = true <-> lb i r /\ sorted_keys r = true.
Proof.
  revert i x. induction r as [|[j y] r IH]; intros i x.
  - cbn. split; [intros _; split; [intros e []|reflexivity]|reflexivity].
  - change (sorted_keys ((i, x) :: (j, y) :: r)) with ((i <? j) && sorted_keys ((j, y) :: r)).
    rewrite andb_true_iff. split.
    + intros [H1 H2]. split; [|exact H2]. intros e [<-|He]; cbn [fst]; [lia|].
      apply IH in H2. destruct H2 as [H2 _]. specialize (H2 _ He). lia.
    + intros [H1 H2]. split; [|exact H2]. specialize (H1 (j, y) (or_introl eq_refl)). cbn in H1. lia.
Qed.

Lemma emap_set_in m id v e : In e (emap_set m id v) -> e = (id, v) \/ In e m.
Proof.
  induction m as [|[i x] r IH]; cbn [emap_set].
  - intros [<-|[]]. now left.
  - destruct (id <? i); [intros [<-|H]; [now left|now right]|].
    destruct (i =? id).
    + intros [<-|H]; [now left|right; now right].
    + intros [<-|H]; [right; now left|]. destruct (IH H) as [->|H']; [now left|right; now right].
Qed.

Lemma emap_set_sorted m id v : sorted_keys m = true -> sorted_keys (emap_set m id v) = true.
Proof.
  induction m as [|[i x] r IH]; intros Hs; cbn [emap_set]; [reflexivity|].
  pose proof (proj1 (sorted_keys_cons _ _ _) Hs) as [Hlb Hr].
  destruct (id <? i) eqn:E1.
  - apply sorted_keys_cons. split; [|exact Hs].
    intros e [<-|He]; cbn [fst]; [lia|]. specialize (Hlb _ He). lia.
  - destruct (i =? id) eqn:E2.
    + apply N.eqb_eq in E2. subst i. apply sorted_keys_cons. now split.
    + apply sorted_keys_cons. split; [|now apply IH].
      intros e He. apply emap_set_in in He. destruct He as [->|He]; [cbn [fst]; lia|now apply Hlb].
Qed.

Lemma lookup_lb x m : lb x m -> forall y, y <= x -> lookupN y m = None.
Proof.
  induction m as [|[i v] r IH]; intros Hlb y Hy; cbn [lookupN]; [reflexivity|].
  pose proof (Hlb (i, v) (or_introl eq_refl)) as H. cbn [fst] in H.
  destruct (i =? y) eqn:E; [lia|]. apply IH; [|exact Hy]. intros e He. apply Hlb. now right.
Qed.

Lemma sorted_nodup m : sorted_keys m = true -> NoDup (map fst m).
Proof.
  induction m as [|[i x] r IH]; intros Hs; cbn [map fst]; [constructor|].
  apply sorted_keys_cons in Hs. destruct Hs as [Hlb Hr]. constructor; [|now apply IH].
  intros Hin. apply in_map_iff in Hin. destruct Hin as [e [E He]]. specialize (Hlb _ He). lia.
Qed.

(* two sorted maps with non-empty values and the same lookups are equal *)
Lemma emap_ext m1 : forall m2,
  sorted_keys m1 = true -> sorted_keys m2 = true ->
  (forall e, In e m1 -> snd e <> []) -> (forall e, In e m2 -> snd e <> []) ->
  (forall id, tget m1 id = tget m2 id) -> m1 = m2.
Proof.
  induction m1 as [|[i x] r1 IH]; intros m2 S1 S2 N1 N2 Hg.
  - destruct m2 as [|[j y] r2]; [reflexivity|]. exfalso.
    specialize (Hg j). unfold tget in Hg. cbn [lookupN] in Hg. rewrite N.eqb_refl in Hg.
    apply (N2 (j, y) (or_introl eq_refl)). cbn [snd]. congruence.
  - apply sorted_keys_cons in S1. destruct S1 as [L1 S1].
    destruct m2 as [|[j y] r2].
    + exfalso. specialize (Hg i). unfold tget in Hg. cbn [lookupN] in Hg. rewrite N.eqb_refl in Hg.
      apply (N1 (i, x) (or_introl eq_refl)). cbn [snd]. congruence.
    + apply sorted_keys_cons in S2. destruct S2 as [L2 S2].
      assert (Hij : i = j).
      { destruct (N.lt_trichotomy i j) as [Hlt|[He|Hgt]]; [|exact He|]; exfalso.
        - specialize (Hg i). unfold tget in Hg. cbn [lookupN] in Hg. rewrite N.eqb_refl in Hg.
          destruct (j =? i) eqn:E; [lia|]. rewrite (lookup_lb j r2 L2 i) in Hg by lia.
          apply (N1 (i, x) (or_introl eq_refl)). exact Hg.
        - specialize (Hg j). unfold tget in Hg. cbn [lookupN] in Hg. rewrite N.eqb_refl in Hg.
          destruct (i =? j) eqn:E; [lia|]. rewrite (lookup_lb i r1 L1 j) in Hg by lia.
          apply (N2 (j, y) (or_introl eq_refl)). cbn [snd]. congruence. }
      subst j.
      assert (Hxy : x = y).
      { specialize (Hg i). unfold tget in Hg. cbn [lookupN] in Hg. now rewrite N.eqb_refl in Hg. }
      subst y. f_equal. apply IH; auto.
      * intros e He. apply N1. now right.
      * intros e He. apply N2. now right.
      * intros id. specialize (Hg id). unfold tget in *. cbn [lookupN] in Hg.
        destruct (i =? id) eqn:E; [|exact Hg].
        apply N.eqb_eq in E. subst id.
        rewrite (lookup_lb i r1 L1 i), (lookup_lb i r2 L2 i) by lia. reflexivity.
Qed.

(* ------------------------------------------------------------------ *)
(* get / set                                                           *)

Definition wf (t : stable) : Prop := wf_stable t = true.

Lemma wf_parts t : wf t <->
  length (st_fields t) = nfields /\
  match st_extra t with None => True | Some m => sorted_keys m = true end.
Proof.
  unfold wf, wf_stable. rewrite andb_true_iff, Nat.eqb_eq.
  destruct (st_extra t); intuition.
Qed.

Lemma wf_empty : wf empty_table.
Proof. apply wf_parts. cbn [empty_table st_fields st_extra]. split; [apply repeat_length|exact I]. Qed.

Lemma M_get_empty id : M_get empty_table id = [].
Proof.
  unfold M_get. cbn [empty_table st_fields st_extra emap_get].
  destruct (lookupN id name_get_switch); [apply nth_repeat_nil|reflexivity].
Qed.

Lemma set_wf t id v : wf t -> wf (M_set t id v).
Proof.
  intros H. apply wf_parts in H. destruct H as [Hl He]. apply wf_parts. unfold M_set.
  destruct (lookupN id name_set_switch); cbn [st_fields st_extra].
  - split; [now rewrite set_nth_length|exact He].
  - split; [exact Hl|]. apply emap_set_sorted. destruct (st_extra t); [exact He|reflexivity].
Qed.

(* get after set: the string just stored under its id, every other id unchanged *)
Lemma get_set t id v id' : wf t ->
  M_get (M_set t id v) id' = if id =? id' then v else M_get t id'.
Proof.
  intros H. apply wf_parts in H. destruct H as [Hl _].
  unfold M_get, M_set. rewrite <- switch_same.
  destruct (lookupN id name_get_switch) as [fi|] eqn:E1; cbn [st_fields st_extra].
  - destruct (lookupN id' name_get_switch) as [fi'|] eqn:E2.
    + rewrite nth_set_nth by (rewrite Hl; now apply (switch_le id)).
      destruct (id =? id') eqn:E.
      * apply N.eqb_eq in E. subst id'. assert (fi' = fi) by congruence. subst fi'.
        now rewrite Nat.eqb_refl.
      * destruct (N.to_nat fi =? N.to_nat fi')%nat eqn:E3; [|reflexivity].
        exfalso. apply Nat.eqb_eq in E3. assert (fi = fi') by lia. subst fi'.
        pose proof (switch_inj _ _ _ E1 E2). lia.
    + destruct (id =? id') eqn:E; [|reflexivity].
      apply N.eqb_eq in E. subst id'. congruence.
  - cbn [emap_get]. destruct (lookupN id' name_get_switch) as [fi'|] eqn:E2.
    + destruct (id =? id') eqn:E; [|reflexivity].
      apply N.eqb_eq in E. subst id'. congruence.
    + rewrite lookup_emap_set. destruct (id =? id'); [reflexivity|].
      destruct (st_extra t); reflexivity.
Qed.

(* ------------------------------------------------------------------ *)
(* sorting                                                             *)

Fixpoint ascN (l : list N) : Prop :=
  match l with [] => True | x :: r => (forall y, In y r -> x < y) /\ ascN r end.
Fixpoint wascN (l : list N) : Prop :=
  match l with [] => True | x :: r => (forall y, In y r -> x <= y) /\ wascN r end.

Lemma asc_wasc l : ascN l -> wascN l.
Proof.
  induction l as [|x r IH]; cbn [ascN wascN]; [auto|]. intros [H1 H2]. split; [|auto].
  intros y Hy. specialize (H1 y Hy). lia.
Qed.

Lemma asc_nodup l : ascN l -> NoDup l.
Proof.
  induction l as [|x r IH]; cbn [ascN]; [constructor|]. intros [H1 H2]. constructor; [|auto].
  intros Hin. specialize (H1 x Hin). lia.
Qed.

Lemma insert_wasc x l : wascN l -> wascN (insert leN x l).
Proof.
  induction l as [|y r IH]; cbn [insert wascN]; [intros _; split; [intros ? []|exact I]|].
  intros [H1 H2]. unfold leN at 1. destruct (x <=? y) eqn:E.
  - cbn [wascN]. split; [|now split]. intros z [<-|Hz]; [lia|]. specialize (H1 z Hz). lia.
  - cbn [wascN]. split; [|now apply IH].
    intros z Hz. apply (Permutation_in _ (insert_perm leN x r)) in Hz.
    destruct Hz as [<-|Hz]; [lia|now apply H1].
Qed.

Lemma isort_wasc l : wascN (isort leN l).
Proof. induction l as [|x r IH]; cbn [isort]; [exact I|now apply insert_wasc]. Qed.

Lemma wasc_perm_unique a : forall b, wascN a -> wascN b -> Permutation a b -> a = b.
Proof.
  induction a as [|x a IH]; intros b Ha Hb Hp.
  - apply Permutation_nil in Hp. now subst.
  - destruct b as [|y b]; [apply Permutation_sym, Permutation_nil in Hp; discriminate|].
    cbn [wascN] in Ha, Hb. destruct Ha as [Ha1 Ha2]. destruct Hb as [Hb1 Hb2].
    assert (x = y).
    { assert (In x (y :: b)) by (eapply Permutation_in; [exact Hp|now left]).
      assert (In y (x :: a)) by (eapply Permutation_in; [symmetry; exact Hp|now left]).
      destruct H as [->|H]; [reflexivity|]. destruct H0 as [->|H0]; [reflexivity|].
      specialize (Ha1 _ H0). specialize (Hb1 _ H). lia. }
    subst y. f_equal. apply IH; auto. now apply Permutation_cons_inv in Hp.
Qed.

(* sorting any permutation of an ascending list gives that list *)
Lemma isort_of_perm l s : ascN s -> Permutation l s -> isort leN l = s.
Proof.
  intros Hs Hp. apply wasc_perm_unique; [apply isort_wasc|now apply asc_wasc|].
  etransitivity; [apply isort_perm|exact Hp].
Qed.

Lemma asc_app a b : ascN a -> ascN b -> (forall x y, In x a -> In y b -> x < y) -> ascN (a ++ b).
Proof.
  induction a as [|x a IH]; cbn [app ascN]; [auto|].
  intros [H1 H2] Hb Hab. split.
  - intros y Hy. apply in_app_or in Hy. destruct Hy as [Hy|Hy]; [now apply H1|].
    apply Hab; [now left|exact Hy].
  - apply IH; auto. intros x' y Hx Hy. apply Hab; [now right|exact Hy].
Qed.

Lemma asc_filter f l : ascN l -> ascN (filter f l).
Proof.
  induction l as [|x r IH]; cbn [filter ascN]; [auto|]. intros [H1 H2].
  destruct (f x); cbn [ascN]; [|auto]. split; [|auto].
  intros y Hy. apply filter_In in Hy. now apply H1.
Qed.

Lemma nrange_in lo n x : In x (nrange lo n) <-> lo <= x < lo + N.of_nat n.
Proof.
  revert lo. induction n as [|n IH]; intros lo; cbn [nrange In]; [lia|].
  rewrite IH. lia.
Qed.

Lemma nrange_asc lo n : ascN (nrange lo n).
Proof.
  revert lo. induction n as [|n IH]; intros lo; cbn [nrange ascN]; [exact I|].
  split; [|apply IH]. intros y Hy. apply nrange_in in Hy. lia.
Qed.

Lemma sorted_keys_asc m : sorted_keys m = true -> ascN (map fst m).
Proof.
  induction m as [|[i x] r IH]; intros Hs; cbn [map fst ascN]; [exact I|].
  apply sorted_keys_cons in Hs. destruct Hs as [Hlb Hr]. split; [|now apply IH].
  intros y Hy. apply in_map_iff in Hy. destruct Hy as [e [<- He]]. now apply Hlb.
Qed.

Lemma asc_map_filter (f : N * list N -> bool) m :
  sorted_keys m = true -> ascN (map fst (filter f m)).
Proof.
  induction m as [|[i x] r IH]; intros Hs; cbn [filter map ascN]; [exact I|].
  apply sorted_keys_cons in Hs. destruct Hs as [Hlb Hr].
  destruct (f (i, x)); [|now apply IH].
  cbn [map fst ascN]. split; [|now apply IH].
  intros y Hy. apply in_map_iff in Hy. destruct Hy as [e [<- He]].
  apply filter_In in He. now apply Hlb.
Qed.

(* ------------------------------------------------------------------ *)
(* keys                                                                *)

Lemma perm_filter {A} (f : A -> bool) l l' : Permutation l l' -> Permutation (filter f l) (filter f l').
Proof.
  induction 1; cbn [filter].
  - constructor.
  - destruct (f x); auto.
  - destruct (f y), (f x); auto using perm_swap, Permutation_refl.
  - eauto using Permutation_trans.
Qed.

Definition named_keys (last : N) (t : stable) : list N :=
  filter (fun id => nonempty (M_get t id)) (nrange 0 (S (N.to_nat last))).
Definition extra_keys (emin : N) (m : list (N * list N)) : list N :=
  map fst (filter (fun e => nonempty (snd e) && (emin <=? fst e)) m).

Lemma named_keys_in last t id : In id (named_keys last t) <-> id <= last /\ M_get t id <> [].
Proof.
  unfold named_keys. rewrite filter_In, nrange_in, nonempty_true.
  split; intros [H1 H2]; (split; [lia|exact H2]).
Qed.

Lemma extra_keys_in emin m id : sorted_keys m = true ->
  (In id (extra_keys emin m) <-> emin <= id /\ tget m id <> []).
Proof.
  intros Hs. unfold extra_keys. rewrite in_map_iff. split.
  - intros [[i v] [<- He]]. apply filter_In in He. destruct He as [He Hf]. cbn [fst snd] in *.
    apply andb_true_iff in Hf. destruct Hf as [Hv Hi]. split; [lia|].
    unfold tget. rewrite (lookupN_nodup i m v (sorted_nodup _ Hs) He). now apply nonempty_true.
  - intros [Hi Hv]. unfold tget in Hv. destruct (lookupN id m) as [v|] eqn:E; [|congruence].
    exists (id, v). split; [reflexivity|]. apply filter_In. split; [now apply lookupN_in|].
    cbn [fst snd]. apply andb_true_iff. split; [now apply nonempty_true|lia].
Qed.

Lemma keys_gen_shape last emin t iter :
  last < emin -> wf t ->
  (match st_extra t with Some m => Permutation iter m | None => True end) ->
  M_keys_gen last emin t iter =
    named_keys last t ++ match st_extra t with Some m => extra_keys emin m | None => [] end /\
  ascN (M_keys_gen last emin t iter).
Proof.
  intros Hle Hwf Hp. apply wf_parts in Hwf. destruct Hwf as [_ He].
  assert (Hn : ascN (named_keys last t)) by (apply asc_filter, nrange_asc).
  unfold M_keys_gen. fold (named_keys last t).
  destruct (st_extra t) as [m|].
  - assert (Hasc : ascN (named_keys last t ++ extra_keys emin m)).
    { apply asc_app; [exact Hn|now apply asc_map_filter|].
      intros x y Hx Hy. apply named_keys_in in Hx. apply (extra_keys_in _ _ _ He) in Hy. lia. }
    assert (E : isort leN (named_keys last t ++
                 map fst (filter (fun e => nonempty (snd e) && (emin <=? fst e)) iter)) =
                named_keys last t ++ extra_keys emin m).
    { apply isort_of_perm; [exact Hasc|]. apply Permutation_app_head.
      unfold extra_keys. apply Permutation_map.
      now apply perm_filter. }
    rewrite E. split; [reflexivity|exact Hasc].
  - rewrite app_nil_r. split; [reflexivity|exact Hn].
Qed.

Lemma loop_lt_min : name_keys_loop_last < name_keys_extra_min.
Proof. destruct switch_facts as (_ & _ & _ & _ & H & _). lia. Qed.

(* keys(): ascending, and exactly the ids whose string is not empty; the
   iteration order of the Extra map does not matter *)
Lemma keys_iter_spec t iter : wf t ->
  (match st_extra t with Some m => Permutation iter m | None => True end) ->
  M_keys_iter t iter = M_keys t /\ ascN (M_keys t) /\
  forall id, In id (M_keys t) <-> M_get t id <> [].
Proof.
  intros Hwf Hp. unfold M_keys, M_keys_iter.
  destruct (keys_gen_shape _ _ t iter loop_lt_min Hwf Hp) as [E1 _].
  assert (Hp0 : match st_extra t with
                | Some m => Permutation (match st_extra t with Some m0 => m0 | None => [] end) m
                | None => True end) by (destruct (st_extra t); auto).
  destruct (keys_gen_shape _ _ t _ loop_lt_min Hwf Hp0) as [E2 A2].
  split; [congruence|]. split; [exact A2|].
  intros id. rewrite E2, in_app_iff, named_keys_in.
  pose proof Hwf as Hwf'. apply wf_parts in Hwf'. destruct Hwf' as [_ He].
  destruct switch_facts as (_ & _ & _ & _ & Hmin & _).
  destruct (N.le_gt_cases id name_keys_loop_last) as [Hid|Hid].
  - split; [intros [[_ H]|H]; [exact H|]|intros H; now left].
    exfalso. destruct (st_extra t) as [m|]; [|destruct H].
    apply (extra_keys_in _ _ _ He) in H. lia.
  - unfold M_get. rewrite (switch_none_above id) by lia.
    destruct (st_extra t) as [m|]; cbn [emap_get].
    + rewrite (extra_keys_in _ _ _ He). unfold tget. split; [intros [[H _]|[_ H]]; [lia|exact H]|].
      intros H. right. split; [lia|exact H].
    + split; [intros [[H _]|[]]; lia|congruence].
Qed.

Lemma keys_asc t : wf t -> ascN (M_keys t).
Proof.
  intros H. apply (keys_iter_spec t (match st_extra t with Some m => m | None => [] end) H).
  destruct (st_extra t); auto.
Qed.

Lemma keys_in t id : wf t -> (In id (M_keys t) <-> M_get t id <> []).
Proof.
  intros H. apply (keys_iter_spec t (match st_extra t with Some m => m | None => [] end) H).
  destruct (st_extra t); auto.
Qed.

(* ------------------------------------------------------------------ *)
(* abstraction and concretisation                                      *)

Lemma abs_keys t : map fst (abs_table t) = M_keys t.
Proof. unfold abs_table. rewrite map_map. cbn [fst]. apply map_id. Qed.

Lemma abs_in t id v : wf t -> (In (id, v) (abs_table t) <-> v = M_get t id /\ v <> []).
Proof.
  intros Hwf. unfold abs_table. rewrite in_map_iff. split.
  - intros [i [E Hi]]. injection E as <- <-. split; [reflexivity|]. now apply keys_in.
  - intros [-> Hv]. exists id. split; [reflexivity|]. now apply keys_in.
Qed.

Lemma abs_tget t id : wf t -> tget (abs_table t) id = M_get t id.
Proof.
  intros Hwf. unfold tget.
  destruct (lookupN id (abs_table t)) as [v|] eqn:E.
  - apply lookupN_in in E. apply (abs_in t id v Hwf) in E. now destruct E.
  - destruct (M_get t id) as [|c s] eqn:G; [reflexivity|]. exfalso.
    assert (Hin : In (id, c :: s) (abs_table t)) by (apply abs_in; [exact Hwf|split; [auto|discriminate]]).
    assert (Hnd : NoDup (map fst (abs_table t))) by (rewrite abs_keys; now apply asc_nodup, keys_asc).
    rewrite (lookupN_nodup id _ _ Hnd Hin) in E. discriminate.
Qed.

(* the entries of abs_table are sorted by id and non-empty: C14's keys leaves them alone *)
Lemma insert_head {A} (leb : A -> A -> bool) x l :
  (forall y, In y l -> leb x y = true) -> insert leb x l = x :: l.
Proof. destruct l as [|y r]; cbn [insert]; [reflexivity|]. intros H. now rewrite (H y (or_introl eq_refl)). Qed.

Lemma filter_all {A} (f : A -> bool) l : (forall x, In x l -> f x = true) -> filter f l = l.
Proof.
  induction l as [|x r IH]; intros H; cbn [filter]; [reflexivity|].
  rewrite (H x (or_introl eq_refl)). f_equal. apply IH. intros y Hy. apply H. now right.
Qed.

Lemma c14_keys_abs t : wf t -> keys (abs_table t) = abs_table t.
Proof.
  intros Hwf. unfold keys.
  assert (Hf : filter (fun e : N * list N => nonempty (snd e)) (abs_table t) = abs_table t).
  { apply filter_all. intros [id v] Hin.
    apply (abs_in t id v Hwf) in Hin. cbn [snd]. apply nonempty_true. tauto. }
  rewrite Hf. pose proof (keys_asc t Hwf) as Ha. rewrite <- abs_keys in Ha.
  revert Ha. generalize (abs_table t). induction l as [|[i x] r IH]; cbn [map fst ascN isort]; [auto|].
  intros [H1 H2]. rewrite IH by exact H2. apply insert_head.
  intros [j y] Hy. cbn [fst]. specialize (H1 j). apply N.leb_le.
  assert (In j (map fst r)) by (change j with (fst (j, y)); now apply in_map). specialize (H1 H). lia.
Qed.

Lemma conc_fold_wf tbl : forall t0, wf t0 -> wf (fold_left (fun t e => M_set t (fst e) (snd e)) tbl t0).
Proof. induction tbl as [|e r IH]; intros t0 H; cbn [fold_left]; [exact H|]. apply IH. now apply set_wf. Qed.

Lemma conc_wf tbl : wf (conc_table tbl).
Proof. apply conc_fold_wf, wf_empty. Qed.

Lemma conc_fold_get tbl : forall t0 id, wf t0 -> NoDup (map fst tbl) ->
  M_get (fold_left (fun t e => M_set t (fst e) (snd e)) tbl t0) id =
  match lookupN id tbl with Some v => v | None => M_get t0 id end.
Proof.
  induction tbl as [|[i v] r IH]; intros t0 id Hwf Hnd; cbn [fold_left lookupN fst snd]; [reflexivity|].
  inversion Hnd as [|? ? Hni Hnd']; subst. rewrite IH by (auto using set_wf).
  destruct (i =? id) eqn:E.
  - apply N.eqb_eq in E. subst i.
    destruct (lookupN id r) as [w|] eqn:El.
    + exfalso. apply Hni. apply lookupN_in in El. change id with (fst (id, w)). now apply in_map.
    + rewrite get_set by exact Hwf. now rewrite N.eqb_refl.
  - destruct (lookupN id r); [reflexivity|]. rewrite get_set by exact Hwf. now rewrite E.
Qed.

Lemma conc_get tbl id : NoDup (map fst tbl) -> M_get (conc_table tbl) id = tget tbl id.
Proof.
  intros Hnd. unfold conc_table, tget. rewrite conc_fold_get by (auto using wf_empty).
  destruct (lookupN id tbl); [reflexivity|apply M_get_empty].
Qed.

(* ------------------------------------------------------------------ *)
(* clean tables and extensionality                                     *)

Definition clean (t : stable) : Prop := clean_table t = true.

Lemma clean_parts t : clean t <->
  wf t /\ match st_extra t with
          | None => True
          | Some m => m <> [] /\ forall e, In e m -> snd e <> [] /\ lookupN (fst e) name_get_switch = None
          end.
Proof.
  unfold clean, clean_table, clean_extra, wf. rewrite andb_true_iff.
  destruct (st_extra t) as [m|]; [|tauto].
  rewrite andb_true_iff, forallb_forall, nonempty_true. split.
  - intros [H1 [H2 H3]]. split; [exact H1|]. split; [exact H2|].
    intros e He. specialize (H3 e He). apply andb_true_iff in H3. destruct H3 as [H3 H4].
    split; [now apply nonempty_true|]. destruct (lookupN (fst e) name_get_switch); [discriminate|reflexivity].
  - intros [H1 [H2 H3]]. split; [exact H1|]. split; [exact H2|].
    intros e He. destruct (H3 e He) as [H4 H5]. apply andb_true_iff. split; [now apply nonempty_true|].
    now rewrite H5.
Qed.

Lemma clean_empty : clean empty_table.
Proof. apply clean_parts. split; [apply wf_empty|exact I]. Qed.

Lemma set_clean t id v : clean t -> v <> [] -> clean (M_set t id v).
Proof.
  intros Hc Hv. apply clean_parts in Hc. destruct Hc as [Hwf He]. apply clean_parts.
  split; [now apply set_wf|]. unfold M_set. rewrite <- switch_same.
  destruct (lookupN id name_get_switch) eqn:E; cbn [st_extra]; [exact He|].
  split.
  - destruct (match st_extra t with Some m => m | None => [] end) as [|[i x] r]; cbn [emap_set]; [discriminate|].
    destruct (id <? i); [discriminate|]. destruct (i =? id); discriminate.
  - intros e Hin. apply emap_set_in in Hin. destruct Hin as [->|Hin]; [cbn [fst snd]; now split|].
    destruct (st_extra t); [now apply He|destruct Hin].
Qed.

Lemma conc_clean tbl : (forall e, In e tbl -> snd e <> []) -> clean (conc_table tbl).
Proof.
  unfold conc_table. generalize clean_empty. generalize empty_table.
  induction tbl as [|e r IH]; intros t0 Hc Hne; cbn [fold_left]; [exact Hc|].
  apply IH; [|intros e' He'; apply Hne; now right].
  apply set_clean; [exact Hc|apply Hne; now left].
Qed.

(* a clean table is determined by what get returns *)
Lemma clean_ext t1 t2 : clean t1 -> clean t2 -> (forall id, M_get t1 id = M_get t2 id) -> t1 = t2.
Proof.
  intros C1 C2 Hg. apply clean_parts in C1, C2. destruct C1 as [W1 E1]. destruct C2 as [W2 E2].
  apply wf_parts in W1, W2. destruct W1 as [L1 S1]. destruct W2 as [L2 S2].
  destruct t1 as [f1 e1], t2 as [f2 e2]. cbn [st_fields st_extra] in *.
  assert (Hf : f1 = f2).
  { apply (nth_ext _ _ [] []); [congruence|]. intros n Hn. rewrite L1 in Hn.
    destruct (switch_surj n Hn) as [id Hid]. specialize (Hg id). unfold M_get in Hg.
    rewrite Hid in Hg. cbn [st_fields] in Hg. now rewrite Nat2N.id in Hg. }
  subst f2. f_equal.
  (* the Extra maps: compare through ids outside the switch *)
  assert (Hx : forall id, lookupN id name_get_switch = None -> emap_get e1 id = emap_get e2 id).
  { intros id Hid. specialize (Hg id). unfold M_get in Hg. now rewrite Hid in Hg. }
  destruct e1 as [m1|], e2 as [m2|]; cbn [emap_get] in Hx.
  - f_equal. destruct E1 as [_ N1]. destruct E2 as [_ N2].
    apply emap_ext; auto; try (intros e He; now apply N1); try (intros e He; now apply N2).
    intros id. unfold tget.
    destruct (lookupN id name_get_switch) eqn:Es; [|now apply Hx].
    (* an id of the switch occurs in neither map *)
    destruct (lookupN id m1) as [v1|] eqn:L1'.
    { apply lookupN_in in L1'. destruct (N1 _ L1') as [_ H]. cbn [fst] in H. congruence. }
    destruct (lookupN id m2) as [v2|] eqn:L2'.
    { apply lookupN_in in L2'. destruct (N2 _ L2') as [_ H]. cbn [fst] in H. congruence. }
    reflexivity.
  - exfalso. destruct E1 as [Hne N1]. destruct m1 as [|[i x] r]; [congruence|].
    destruct (N1 (i, x) (or_introl eq_refl)) as [Hv Hs]. cbn [fst snd] in *.
    specialize (Hx i Hs). cbn [lookupN] in Hx. rewrite N.eqb_refl in Hx. congruence.
  - exfalso. destruct E2 as [Hne N2]. destruct m2 as [|[i x] r]; [congruence|].
    destruct (N2 (i, x) (or_introl eq_refl)) as [Hv Hs]. cbn [fst snd] in *.
    specialize (Hx i Hs). cbn [lookupN] in Hx. rewrite N.eqb_refl in Hx. congruence.
  - reflexivity.
Qed.

(* rebuilding a clean table from what Encode sees of it gives the table back *)
Lemma norm_clean t : clean t -> M_keys t <> [] -> norm_table t = Some t.
Proof.
  intros Hc Hk. pose proof (proj1 (proj1 (clean_parts t) Hc)) as Hwf.
  unfold norm_table. destruct (abs_table t) as [|a r] eqn:E.
  - exfalso. apply Hk. rewrite <- abs_keys, E. reflexivity.
  - rewrite <- E. f_equal. apply clean_ext; [|exact Hc|].
    + apply conc_clean. intros [id v] Hin. apply (abs_in t id v Hwf) in Hin. cbn [snd]. tauto.
    + intros id. rewrite conc_get by (rewrite abs_keys; now apply asc_nodup, keys_asc).
      now apply abs_tget.
Qed.

(* in general: same strings under get, Extra reduced to what get can see *)
Lemma norm_get t t' id : wf t -> norm_table t = Some t' -> M_get t' id = M_get t id.
Proof.
  intros Hwf. unfold norm_table. destruct (abs_table t) as [|a r] eqn:E; [discriminate|].
  intros H. injection H as <-. rewrite <- E.
  rewrite conc_get by (rewrite abs_keys; now apply asc_nodup, keys_asc). now apply abs_tget.
Qed.

Lemma norm_none t : wf t -> (norm_table t = None <-> forall id, M_get t id = []).
Proof.
  intros Hwf. unfold norm_table. split.
  - destruct (abs_table t) as [|a r] eqn:E; [|discriminate]. intros _ id.
    destruct (M_get t id) as [|c s] eqn:G; [reflexivity|]. exfalso.
    assert (In (id, c :: s) (abs_table t)) by (apply abs_in; [exact Hwf|split; [auto|discriminate]]).
    rewrite E in H. destruct H.
  - intros H. destruct (abs_table t) as [|[id v] r] eqn:E; [reflexivity|]. exfalso.
    assert (Hin : In (id, v) (abs_table t)) by (rewrite E; now left).
    apply (abs_in t id v Hwf) in Hin. destruct Hin as [-> Hne]. now apply Hne.
Qed.

Lemma norm_is_clean t t' : wf t -> norm_table t = Some t' -> clean t'.
Proof.
  intros Hwf. unfold norm_table. destruct (abs_table t) as [|a r] eqn:E; [discriminate|].
  intros H. injection H as <-. rewrite <- E. apply conc_clean.
  intros [id v] Hin. apply (abs_in t id v Hwf) in Hin. cbn [snd]. tauto.
Qed.
