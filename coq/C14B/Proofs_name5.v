(* C14B/Proofs_name5.v — the statements of Props.v about the name table, put
   together from Proofs_table / Proofs_info / Proofs_dec. *)
From Coq Require Import List NArith Bool Arith Lia Permutation.
From Coq Require Import ZifyBool ZifyNat ZifyN.
From Common Require Import Bytes Outcome.
From Gen Require Import C14 C14B.
From C14 Require Import Model Proofs_codecs Proofs_post Proofs_name1 Proofs_name2 Proofs_name3 Proofs_name4 Proofs_lang.
From C14B Require Import Model Proofs_table Proofs_info Proofs_dec.
Import ListNotations.
Local Open Scope N_scope.

(* ------------------------------------------------------------------ *)
(* which records Encode writes                                         *)

Definition record_spec (om ow : list (N * list N)) (inf : sinfo) (p l i : N) : Prop :=
  (p = 1 /\ exists tag t, In (l, tag) om /\ stabs_find (s_mac inf) tag = Some t /\ M_get t i <> []) \/
  (p = 3 /\ exists tag t, In (l, tag) ow /\ stabs_find (s_win inf) tag = Some t /\ M_get t i <> []).

Lemma records_exact_lemma om ow weid inf :
  wf_sinfo inf ->
  let recs := S_name_records om ow weid inf in
  S_name_encode om ow weid inf =
    be16 0 ++ be16 (lenN recs) ++ be16 (6 + 12 * lenN recs) ++ flat_map enc_rec recs ++
    nb_data (fst (S_name_gen om ow weid inf)) /\
  (forall p l i, In (p, l, i) (map rec_key recs) <-> record_spec om ow inf p l i) /\
  (NoDup (map fst om) -> NoDup (map fst ow) -> NoDup (map rec_key recs)) /\
  (forall r, In r recs -> r_enc r = if r_plat r =? 1 then 0 else weid) /\
  S_name_encode om ow weid inf = M_name_encode om ow weid (abs_info inf).
Proof.
  intros [Hm Hw] recs. subst recs. unfold S_name_records.
  pose proof (S_name_gen_keys om ow weid inf) as Hk.
  assert (Hperm : Permutation (map rec_key (isort rec_leb (snd (S_name_gen om ow weid inf))))
                              (expected_keys om (s_mac inf) 1 ++ expected_keys ow (s_win inf) 3)).
  { rewrite <- Hk. apply Permutation_map, isort_perm. }
  split; [|split; [|split; [|split]]].
  - unfold S_name_encode. destruct (S_name_gen om ow weid inf) as [nb rs]. reflexivity.
  - intros p l i. split.
    + intros H. apply (Permutation_in _ Hperm) in H. apply in_app_or in H. destruct H as [H|H].
      * apply (expected_keys_in _ _ _ _ _ _ Hm) in H. now left.
      * apply (expected_keys_in _ _ _ _ _ _ Hw) in H. now right.
    + intros H. apply (Permutation_in _ (Permutation_sym Hperm)). apply in_or_app.
      destruct H as [H|H]; [left; now apply expected_keys_in|right; now apply expected_keys_in].
  - intros N1 N2. apply (Permutation_NoDup (Permutation_sym Hperm)).
    apply nodup_app; [now apply expected_keys_nodup|now apply expected_keys_nodup|].
    intros [[p l] i] H1 H2. apply (expected_keys_in _ _ _ _ _ _ Hm) in H1.
    apply (expected_keys_in _ _ _ _ _ _ Hw) in H2. destruct H1 as [-> _]. destruct H2 as [H2 _]. discriminate.
  - intros r Hr. apply isort_in in Hr. revert r Hr. unfold S_name_gen.
    assert (G : forall order tt plat enc codec nb r,
               In r (snd (s_gen_langs order tt plat enc codec nb)) -> r_plat r = plat /\ r_enc r = enc).
    { assert (GT : forall plat enc lang codec t ids nb r,
                 In r (snd (s_gen_table plat enc lang codec t ids nb)) -> r_plat r = plat /\ r_enc r = enc).
      { intros plat enc lang codec t ids. induction ids as [|id ids IH]; intros nb r; cbn [s_gen_table snd]; [intros []|].
        destruct (nb_add nb (codec (M_get t id))) as [nb1 [o l]].
        specialize (IH nb1 r). destruct (s_gen_table plat enc lang codec t ids nb1) as [nb2 rs].
        cbn [snd] in *. intros [<-|H]; [split; reflexivity|now apply IH]. }
      intros order tt plat enc codec. induction order as [|[lang tag] o IH]; intros nb r; cbn [s_gen_langs snd]; [intros []|].
      destruct (stabs_find tt tag) as [t|]; [|apply IH].
      pose proof (GT plat enc lang codec t (M_keys t) nb r) as H1.
      destruct (s_gen_table plat enc lang codec t (M_keys t) nb) as [nb1 rs1].
      specialize (IH nb1 r). destruct (s_gen_langs o tt plat enc codec nb1) as [nb2 rs2].
      cbn [snd] in *. intros H. apply in_app_or in H. destruct H; auto. }
    pose proof (G om (s_mac inf) 1 0 M_mac_encode nb_empty) as G1.
    destruct (s_gen_langs om (s_mac inf) 1 0 M_mac_encode nb_empty) as [nb1 r1].
    pose proof (G ow (s_win inf) 3 weid M_utf16_encode nb1) as G2.
    destruct (s_gen_langs ow (s_win inf) 3 weid M_utf16_encode nb1) as [nb2 r2].
    cbn [snd] in *. intros r Hr. apply in_app_or in Hr. destruct Hr as [Hr|Hr].
    + destruct (G1 r Hr) as [-> ->]. reflexivity.
    + destruct (G2 r Hr) as [-> ->]. reflexivity.
  - apply S_name_encode_eq. now split.
Qed.

(* ------------------------------------------------------------------ *)
(* identity on clean Info values                                       *)

(* every key is a language string of the platform's table, every pointer is
   non-nil, every table is clean and has at least one non-empty string *)
Definition clean_stabs (tbl : list (N * list N)) (tt : list (list N * option stable)) : Prop :=
  forall tag ot, lookupB tag tt = Some ot ->
    supported tbl tag = true /\ exists t, ot = Some t /\ clean t /\ M_keys t <> [].
Definition clean_sinfo (inf : sinfo) : Prop :=
  clean_stabs name_appleBCP (s_mac inf) /\ clean_stabs name_msBCP (s_win inf).

Lemma clean_stabs_wf tbl tt : clean_stabs tbl tt -> wf_stabs tt.
Proof.
  intros H tag t Hf. unfold stabs_find in Hf.
  destruct (lookupB tag tt) as [[t'|]|] eqn:E; try discriminate. injection Hf as <-.
  destruct (H tag _ E) as (_ & t'' & E2 & Hc & _). injection E2 as <-.
  now apply clean_parts in Hc.
Qed.

Lemma clean_survives tbl tt tag : clean_stabs tbl tt -> survives tbl tt tag = stabs_find tt tag.
Proof.
  intros H. unfold survives, stabs_find.
  destruct (lookupB tag tt) as [ot|] eqn:E; [|now destruct (supported tbl tag)].
  destruct (H tag ot E) as (Hs & t & -> & Hc & Hk). rewrite Hs. now apply norm_clean.
Qed.

Lemma identity_lemma om ow inf :
  (forall p, In p om <-> In p name_appleBCP) ->
  (forall p, In p ow <-> In p name_msBCP) ->
  clean_sinfo inf -> representable inf ->
  6 + 12 * name_num_records om ow 1 (abs_info inf) <= 65535 ->
  name_storage_len om ow 1 (abs_info inf) <= 65535 ->
  exists out,
    S_name_decode (S_name_encode om ow 1 inf) = Ok out /\
    (forall tag, stabs_find (s_mac out) tag = stabs_find (s_mac inf) tag) /\
    (forall tag, stabs_find (s_win out) tag = stabs_find (s_win inf) tag).
Proof.
  intros Hom How [Cm Cw] Hrep Hrec Hsto.
  assert (Hwf : wf_sinfo inf) by (split; eapply clean_stabs_wf; eassumption).
  destruct (decode_encode_lemma om ow inf Hom How Hwf Hrep Hrec Hsto) as (out & Ho & Gm & Gw).
  exists out. split; [exact Ho|]. split; intros tag.
  - rewrite Gm. now apply clean_survives.
  - rewrite Gw. now apply clean_survives.
Qed.

(* ------------------------------------------------------------------ *)
(* one table under one language string                                 *)

Lemma single_find (tag : list N) (t : stable) tag' :
  stabs_find [(tag, Some t)] tag' = if list_eqb tag tag' then Some t else None.
Proof. unfold stabs_find. cbn [lookupB]. destruct (list_eqb tag tag'); reflexivity. Qed.

Lemma supported_of_in tbl lang tag : In (lang, tag) tbl -> supported tbl tag = true.
Proof.
  intros H. unfold supported. apply existsb_exists. exists (lang, tag). split; [exact H|].
  cbn [snd]. apply list_eqb_refl.
Qed.

Lemma verbatim_mac om ow lang tag t :
  (forall p, In p om <-> In p name_appleBCP) ->
  (forall p, In p ow <-> In p name_msBCP) ->
  In (lang, tag) name_appleBCP -> clean t -> M_keys t <> [] ->
  (forall id, M_get t id <> [] -> id < 65536 /\ forallb mac_repertoire (M_get t id) = true) ->
  let inf := mk_sinfo [(tag, Some t)] [] in
  6 + 12 * name_num_records om ow 1 (abs_info inf) <= 65535 ->
  name_storage_len om ow 1 (abs_info inf) <= 65535 ->
  exists out,
    S_name_decode (S_name_encode om ow 1 inf) = Ok out /\
    (forall tag', stabs_find (s_mac out) tag' = if list_eqb tag tag' then Some t else None) /\
    (forall tag', stabs_find (s_win out) tag' = None) /\
    (forall r, In r (S_name_records om ow 1 inf) -> r_plat r = 1 /\ r_lang r = lang).
Proof.
  intros Hom How Hin Hc Hk Hs inf Hrec Hsto.
  assert (Cm : clean_stabs name_appleBCP (s_mac inf)).
  { intros tag' ot Hl. cbn [inf s_mac lookupB] in Hl. destruct (list_eqb tag tag') eqn:E; [|discriminate].
    apply list_eqb_eq in E. subst tag'. injection Hl as <-.
    split; [now apply (supported_of_in _ lang)|]. exists t. auto. }
  assert (Cw : clean_stabs name_msBCP (s_win inf)) by (intros tag' ot Hl; discriminate).
  assert (Hrep : representable inf).
  { split; intros tag' t' Hf; cbn [inf s_mac s_win] in Hf.
    - rewrite single_find in Hf. destruct (list_eqb tag tag'); [|discriminate]. injection Hf as <-. exact Hs.
    - discriminate. }
  destruct (identity_lemma om ow inf Hom How (conj Cm Cw) Hrep Hrec Hsto) as (out & Ho & Gm & Gw).
  exists out. split; [exact Ho|]. split; [|split].
  - intros tag'. rewrite Gm. apply single_find.
  - intros tag'. rewrite Gw. reflexivity.
  - intros r Hr.
    assert (Hwf : wf_sinfo inf) by (split; eapply clean_stabs_wf; eassumption).
    destruct (records_exact_lemma om ow 1 inf Hwf) as (_ & Hspec & _).
    assert (Hk3 : In (rec_key r) (map rec_key (S_name_records om ow 1 inf))) by now apply in_map.
    unfold rec_key in Hk3 at 1. apply Hspec in Hk3.
    destruct Hk3 as [[Hp (tag' & t' & Hl & Hf & _)]|[_ (tag' & t' & _ & Hf & _)]]; [|discriminate].
    split; [exact Hp|]. cbn [inf s_mac] in Hf. rewrite single_find in Hf.
    destruct (list_eqb tag tag') eqn:E; [|discriminate]. apply list_eqb_eq in E. subst tag'.
    apply Hom in Hl. destruct (bij_check_spec _ apple_bij) as [Hinj _]. now apply (Hinj _ _ tag).
Qed.

Lemma verbatim_win om ow lang tag t :
  (forall p, In p om <-> In p name_appleBCP) ->
  (forall p, In p ow <-> In p name_msBCP) ->
  In (lang, tag) name_msBCP -> clean t -> M_keys t <> [] ->
  (forall id, M_get t id <> [] -> id < 65536 /\ forallb is_scalar (M_get t id) = true) ->
  let inf := mk_sinfo [] [(tag, Some t)] in
  6 + 12 * name_num_records om ow 1 (abs_info inf) <= 65535 ->
  name_storage_len om ow 1 (abs_info inf) <= 65535 ->
  exists out,
    S_name_decode (S_name_encode om ow 1 inf) = Ok out /\
    (forall tag', stabs_find (s_win out) tag' = if list_eqb tag tag' then Some t else None) /\
    (forall tag', stabs_find (s_mac out) tag' = None) /\
    (forall r, In r (S_name_records om ow 1 inf) -> r_plat r = 3 /\ r_lang r = lang).
Proof.
  intros Hom How Hin Hc Hk Hs inf Hrec Hsto.
  assert (Cw : clean_stabs name_msBCP (s_win inf)).
  { intros tag' ot Hl. cbn [inf s_win lookupB] in Hl. destruct (list_eqb tag tag') eqn:E; [|discriminate].
    apply list_eqb_eq in E. subst tag'. injection Hl as <-.
    split; [now apply (supported_of_in _ lang)|]. exists t. auto. }
  assert (Cm : clean_stabs name_appleBCP (s_mac inf)) by (intros tag' ot Hl; discriminate).
  assert (Hrep : representable inf).
  { split; intros tag' t' Hf; cbn [inf s_mac s_win] in Hf.
    - discriminate.
    - rewrite single_find in Hf. destruct (list_eqb tag tag'); [|discriminate]. injection Hf as <-. exact Hs. }
  destruct (identity_lemma om ow inf Hom How (conj Cm Cw) Hrep Hrec Hsto) as (out & Ho & Gm & Gw).
  exists out. split; [exact Ho|]. split; [|split].
  - intros tag'. rewrite Gw. apply single_find.
  - intros tag'. rewrite Gm. reflexivity.
  - intros r Hr.
    assert (Hwf : wf_sinfo inf) by (split; eapply clean_stabs_wf; eassumption).
    destruct (records_exact_lemma om ow 1 inf Hwf) as (_ & Hspec & _).
    assert (Hk3 : In (rec_key r) (map rec_key (S_name_records om ow 1 inf))) by now apply in_map.
    unfold rec_key in Hk3 at 1. apply Hspec in Hk3.
    destruct Hk3 as [[_ (tag' & t' & _ & Hf & _)]|[Hp (tag' & t' & Hl & Hf & _)]]; [discriminate|].
    split; [exact Hp|]. cbn [inf s_win] in Hf. rewrite single_find in Hf.
    destruct (list_eqb tag tag') eqn:E; [|discriminate]. apply list_eqb_eq in E. subst tag'.
    apply How in Hl. destruct (bij_check_spec _ ms_bij) as [Hinj _]. now apply (Hinj _ _ tag).
Qed.

(* ------------------------------------------------------------------ *)
(* totality                                                            *)

Lemma s_decode_total data :
  bytes_ok data = true -> S_name_decode data <> Panic /\ S_name_decode data <> OutOfFuel.
Proof.
  intros Hb. destruct (name_decode_total_lemma data Hb) as [H1 H2]. unfold S_name_decode.
  destruct (M_name_decode data); split; congruence.
Qed.
