(* C14B/Proofs_final.v — the statements of Props.v with their (short) proofs; stated against what the
   translator extracted from /repo on this run (Gen/C14.v: the language-id
   tables, maxID, the script and language tag tables; Gen/C14B.v: the fields of
   name.Table, the switch statements of get and set, the two bounds of keys).
   Nothing else. *)
From Coq Require Import List NArith Bool Arith Lia Permutation.
From Common Require Import Bytes Outcome.
From Gen Require Import C14 C14B.
From C14 Require Import Model ModelTags.
From C08 Require Import ModelSL.
From C14B Require Import Model ModelTags2 Proofs_table Proofs_info Proofs_dec Proofs_name5 Proofs_check
     Proofs_tags2 Proofs_sl2 Examples Examples_tags.
Import ListNotations.
Local Open Scope N_scope.

Lemma table_get_set_lemma :
  forall t id v, wf_stable t = true ->
    wf_stable (M_set t id v) = true /\
    forall id', M_get (M_set t id v) id' = if id =? id' then v else M_get t id'.
Proof. intros t id v H. split; [now apply set_wf|intros; now apply get_set]. Qed.

Lemma keys_complete_lemma :
  forall t iter, wf_stable t = true ->
    (match st_extra t with Some m => Permutation iter m | None => True end) ->
    M_keys_iter t iter = M_keys t /\
    ascN (M_keys t) /\ NoDup (M_keys t) /\
    forall id, In id (M_keys t) <-> M_get t id <> [].
Proof.
  intros t iter H Hp. destruct (keys_iter_spec t iter H Hp) as (H1 & H2 & H3).
  split; [exact H1|]. split; [exact H2|]. split; [now apply asc_nodup|exact H3].
Qed.

Lemma name_decode_encode_lemma :
  forall (om ow : list (N * list N)) (inf : sinfo),
    Permutation om name_appleBCP -> Permutation ow name_msBCP ->
    wf_sinfo inf -> representable inf ->
    6 + 12 * name_num_records om ow 1 (abs_info inf) <= 65535 ->
    name_storage_len om ow 1 (abs_info inf) <= 65535 ->
    exists out,
      S_name_decode (S_name_encode om ow 1 inf) = Ok out /\
      (forall tag, stabs_find (s_mac out) tag = survives name_appleBCP (s_mac inf) tag) /\
      (forall tag, stabs_find (s_win out) tag = survives name_msBCP (s_win inf) tag) /\
      (forall tag t t', stabs_find (s_mac inf) tag = Some t -> norm_table t = Some t' ->
         clean_table t' = true /\ forall id, M_get t' id = M_get t id).
Proof.
  intros om ow inf Pm Pw Hwf Hrep H1 H2.
  destruct (decode_encode_lemma om ow inf) as (out & Ho & Gm & Gw); auto.
  - intros p. split; apply Permutation_in; [exact Pm | symmetry; exact Pm].
  - intros p. split; apply Permutation_in; [exact Pw | symmetry; exact Pw].
  - exists out. repeat split; auto.
    + apply (norm_is_clean t); [apply (proj1 Hwf tag)|]; assumption.
    + intros id. apply norm_get; [apply (proj1 Hwf tag)|]; assumption.
Qed.

Lemma name_roundtrip_identity_lemma :
  forall (om ow : list (N * list N)) (inf : sinfo),
    Permutation om name_appleBCP -> Permutation ow name_msBCP ->
    clean_sinfo inf -> representable inf ->
    6 + 12 * name_num_records om ow 1 (abs_info inf) <= 65535 ->
    name_storage_len om ow 1 (abs_info inf) <= 65535 ->
    exists out,
      S_name_decode (S_name_encode om ow 1 inf) = Ok out /\
      (forall tag, stabs_find (s_mac out) tag = stabs_find (s_mac inf) tag) /\
      (forall tag, stabs_find (s_win out) tag = stabs_find (s_win inf) tag).
Proof.
  intros om ow inf Pm Pw. apply identity_lemma.
  - intros p. split; apply Permutation_in; [exact Pm | symmetry; exact Pm].
  - intros p. split; apply Permutation_in; [exact Pw | symmetry; exact Pw].
Qed.

Lemma language_keys_verbatim_lemma :
  forall (om ow : list (N * list N)) (lang : N) (tag : list N) (t : stable),
    Permutation om name_appleBCP -> Permutation ow name_msBCP ->
    clean_table t = true -> M_keys t <> [] ->
    (In (lang, tag) name_appleBCP ->
     (forall id, M_get t id <> [] -> id < 65536 /\ forallb mac_repertoire (M_get t id) = true) ->
     let inf := mk_sinfo [(tag, Some t)] [] in
     6 + 12 * name_num_records om ow 1 (abs_info inf) <= 65535 ->
     name_storage_len om ow 1 (abs_info inf) <= 65535 ->
     exists out,
       S_name_decode (S_name_encode om ow 1 inf) = Ok out /\
       (forall tag', stabs_find (s_mac out) tag' = if list_eqb tag tag' then Some t else None) /\
       (forall tag', stabs_find (s_win out) tag' = None) /\
       (forall r, In r (S_name_records om ow 1 inf) -> r_plat r = 1 /\ r_lang r = lang)) /\
    (In (lang, tag) name_msBCP ->
     (forall id, M_get t id <> [] -> id < 65536 /\ forallb is_scalar (M_get t id) = true) ->
     let inf := mk_sinfo [] [(tag, Some t)] in
     6 + 12 * name_num_records om ow 1 (abs_info inf) <= 65535 ->
     name_storage_len om ow 1 (abs_info inf) <= 65535 ->
     exists out,
       S_name_decode (S_name_encode om ow 1 inf) = Ok out /\
       (forall tag', stabs_find (s_win out) tag' = if list_eqb tag tag' then Some t else None) /\
       (forall tag', stabs_find (s_mac out) tag' = None) /\
       (forall r, In r (S_name_records om ow 1 inf) -> r_plat r = 3 /\ r_lang r = lang)).
Proof.
  intros om ow lang tag t Pm Pw Hc Hk.
  assert (Hom : forall p, In p om <-> In p name_appleBCP)
    by (intros p; split; apply Permutation_in; [exact Pm | symmetry; exact Pm]).
  assert (How : forall p, In p ow <-> In p name_msBCP)
    by (intros p; split; apply Permutation_in; [exact Pw | symmetry; exact Pw]).
  split; intros Hin Hs; [now apply verbatim_mac | now apply verbatim_win].
Qed.

Lemma otf_tag_there_and_back_lemma :
  forall xtext, xtext_spec xtext ->
    (forall s l, M_otf_tag_string s l <> None -> script_shape s = true -> lang_shape l = true ->
       conv_ok xtext s l = true /\ M_otf_there_and_back xtext s l = Some (s, l)) /\
    (forall s l, M_otf_tag_string s l <> None <->
       lookupS s gtab_scriptBcp47 <> None /\ (lookupS l gtab_langBcp47 <> None \/ l = [])).
Proof.
  intros xtext Hx. split; [|exact tag_string_defined].
  intros s l Hd Hs Hl. destruct (there_and_back xtext s l Hx Hd Hs Hl) as (ext & _ & _ & H1 & H2). now split.
Qed.

Lemma builtin_tags_all_convert_lemma :
  forallb script_shape builtin_scripts && forallb lang_shape builtin_langs = true /\
  forall xtext, xtext_spec xtext ->
  forall s l, In s builtin_scripts -> In l builtin_langs ->
    conv_ok xtext s l = true /\ M_otf_there_and_back xtext s l = Some (s, l).
Proof.
  split; [exact builtin_shapes_ok_true|]. intros xtext Hx s l Hs Hl.
  destruct (there_and_back xtext s l Hx (builtin_defined s l Hs Hl)
              (builtin_script_shape s Hs) (builtin_lang_shape l Hl)) as (ext & _ & _ & H1 & H2). now split.
Qed.

Lemma scriptlist_tags_all_survive_lemma :
  forall xtext, xtext_spec xtext ->
  forall (asg : list ((list N * list N) * langsys)) (xinfo : list xitem) (b : list N),
    NoDup (map fst asg) -> Forall builtin_asg asg -> asg_work asg <= maxWork ->
    info_of xtext asg xinfo ->
    M_sl_info_encode xinfo = Ok b ->
    exists out, M_sl_info_read xtext b = Ok out /\ Permutation out asg.
Proof. intros. eapply sl_tags_survive_lemma; eassumption. Qed.

Lemma c14b_total_lemma :
  (forall data, bytes_ok data = true ->
     S_name_decode data <> Panic /\ S_name_decode data <> OutOfFuel) /\
  (forall xtext data, M_sl_info_read xtext data <> Panic) /\
  (forall tbl, wf_stable (conc_table tbl) = true).
Proof.
  split; [exact s_decode_total|]. split; [|exact conc_wf].
  intros xtext data. apply C08.Proofs_sl.sl_read_total.
Qed.

