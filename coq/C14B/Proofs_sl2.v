(* C14B/Proofs_sl2.v — the script list at the level of tags: grouping, and the
   composition of C08's byte-level round trip with the tag conversion. *)
From Coq Require Import List NArith Bool Arith Lia Permutation.
From Coq Require Import ZifyBool ZifyNat ZifyN.
From Common Require Import Bytes Outcome.
From Gen Require Import C14.
From C14 Require Import Model ModelTags Proofs_post Proofs_tags.
From C08 Require Import Model ModelSub ModelSL Proofs_sl.
From C14B Require Import ModelTags2 Proofs_tags2.
Import ListNotations.
Local Open Scope N_scope.

Notation asgn := ((list N * list N) * langsys)%type (only parsing).

(* ------------------------------------------------------------------ *)
(* grouping keeps every language system                                *)

Lemma ins_lang_perm lang f l : Permutation (ins_lang lang f l) ((lang, f) :: l).
Proof.
  induction l as [|[g x] r IH]; cbn [ins_lang]; [apply Permutation_refl|].
  destruct (tag_lt lang g); [apply Permutation_refl|].
  etransitivity; [apply perm_skip, IH|apply perm_swap].
Qed.

Definition has_key (k : list N * list N) (l : list asgn) : Prop := In k (map fst l).

Lemma add_item_asg lang f e :
  ~ has_key (e_tag e, lang) (entry_assignments e) ->
  Permutation (entry_assignments (add_item lang f e)) (((e_tag e, lang), f) :: entry_assignments e).
Proof.
  intros Hno. destruct e as [[tag def] langs]. unfold add_item, entry_assignments, e_tag, e_def, e_langs in *.
  cbn [fst snd] in *. destruct lang as [|c lang].
  - destruct def as [g|].
    + exfalso. apply Hno. unfold has_key. cbn [app map fst]. now left.
    + cbn [app]. apply Permutation_refl.
  - cbn [fst snd].
    etransitivity; [apply Permutation_app_head, Permutation_map, ins_lang_perm|].
    cbn [map fst snd]. symmetry. apply Permutation_middle.
Qed.

Lemma ins_entry_asg s l f es :
  ~ has_key (s, l) (flat_map entry_assignments es) ->
  Permutation (flat_map entry_assignments (ins_entry s l f es))
              (((s, l), f) :: flat_map entry_assignments es).
Proof.
  induction es as [|e r IH]; intros Hno; cbn [ins_entry flat_map].
  - rewrite app_nil_r.
    change ((s, l, f) :: []) with ((((e_tag (s, @None langsys, @nil (list N * langsys))), l), f)
                                   :: entry_assignments (s, None, [])).
    apply add_item_asg. cbn. tauto.
  - destruct (list_eqb (e_tag e) s) eqn:E.
    + apply list_eqb_eq in E. subst s. cbn [flat_map].
      etransitivity; [apply Permutation_app_tail, add_item_asg|reflexivity].
      intros H. apply Hno. unfold has_key in *. cbn [flat_map]. rewrite map_app. apply in_or_app. now left.
    + destruct (tag_lt s (e_tag e)).
      * cbn [flat_map].
        change (((s, l), f) :: entry_assignments e ++ flat_map entry_assignments r)
          with ((((s, l), f) :: []) ++ (entry_assignments e ++ flat_map entry_assignments r)).
        apply Permutation_app_tail.
        change ((s, l, f) :: []) with ((((e_tag (s, @None langsys, @nil (list N * langsys))), l), f)
                                       :: entry_assignments (s, None, [])).
        apply add_item_asg. cbn. tauto.
      * cbn [flat_map]. etransitivity; [apply Permutation_app_head, IH|].
        -- intros H. apply Hno. unfold has_key in *. cbn [flat_map]. rewrite map_app. apply in_or_app. now right.
        -- symmetry. apply Permutation_middle.
Qed.

Lemma group_pairs_asg asg : NoDup (map fst asg) ->
  Permutation (flat_map entry_assignments (group_pairs asg)) asg.
Proof.
  induction asg as [|[[s l] f] r IH]; intros Hnd; cbn [group_pairs]; [apply Permutation_refl|].
  cbn [map fst] in Hnd. inversion Hnd as [|? ? Hni Hnd']; subst.
  etransitivity; [apply ins_entry_asg|apply perm_skip, IH, Hnd'].
  intros H. apply Hni. unfold has_key in H.
  eapply Permutation_in; [apply Permutation_map, IH, Hnd'|exact H].
Qed.

(* ------------------------------------------------------------------ *)
(* grouping keeps the reader's preconditions                           *)

Section Conv.
  Variable cok : list N -> list N -> bool.

  Definition asg_ok (a : asgn) : Prop :=
    tag_ok (fst (fst a)) /\ (snd (fst a) = [] \/ tag_ok (snd (fst a))) /\
    ls_ok (snd a) /\ lenN (snd (snd a)) < 65536 /\ cok (fst (fst a)) (snd (fst a)) = true.

  Lemma ins_lang_in lang f l x : In x (ins_lang lang f l) -> x = (lang, f) \/ In x l.
  Proof.
    intros H. apply (Permutation_in _ (ins_lang_perm lang f l)) in H. destruct H; auto.
  Qed.

  Lemma add_item_ok lang f e :
    asg_ok ((e_tag e, lang), f) ->
    tag_ok (e_tag e) /\ Forall (fun x : item => tag_ok (fst x)) (e_langs e) /\
      Forall (item_ok (e_tag e) cok) (items_of e) ->
    entry_rd_ok cok (add_item lang f e).
  Proof.
    intros (Hs & Hl & Hf & Hn & Hc) (Ht & Hlangs & Hitems). cbn [fst snd] in *.
    destruct e as [[tag def] langs]. unfold add_item, entry_rd_ok, items_of, e_tag, e_def, e_langs in *.
    cbn [fst snd] in *. destruct lang as [|c lang].
    - split; [exact Ht|]. split; [exact Hlangs|].
      apply Forall_app. split.
      + constructor; [|constructor]. unfold item_ok. cbn [fst snd]. auto.
      + apply Forall_app in Hitems. tauto.
    - cbn [fst snd]. destruct Hl as [Hl|Hl]; [discriminate|].
      split; [exact Ht|]. split.
      + apply Forall_forall. intros x Hx. apply ins_lang_in in Hx. destruct Hx as [->|Hx]; [exact Hl|].
        rewrite Forall_forall in Hlangs. now apply Hlangs.
      + apply Forall_app in Hitems. destruct Hitems as [H1 H2]. apply Forall_app. split; [exact H1|].
        apply Forall_forall. intros x Hx. apply ins_lang_in in Hx. destruct Hx as [->|Hx].
        * unfold item_ok. cbn [fst snd]. auto.
        * rewrite Forall_forall in H2. now apply H2.
  Qed.

  Lemma ins_entry_ok s l f es :
    asg_ok ((s, l), f) -> Forall (entry_rd_ok cok) es -> Forall (entry_rd_ok cok) (ins_entry s l f es).
  Proof.
    intros Ha. induction es as [|e r IH]; intros Hes; cbn [ins_entry].
    - constructor; [|constructor]. apply add_item_ok; [exact Ha|].
      destruct Ha as (Hs & _). cbn [fst snd] in Hs. split; [exact Hs|]. split; constructor.
    - inversion Hes as [|? ? He Hr]; subst. destruct (list_eqb (e_tag e) s) eqn:E.
      + apply list_eqb_eq in E. subst s. constructor; [|exact Hr]. now apply add_item_ok.
      + destruct (tag_lt s (e_tag e)).
        * constructor; [|exact Hes]. apply add_item_ok; [exact Ha|].
          destruct Ha as (Hs & _). cbn [fst snd] in Hs. split; [exact Hs|]. split; constructor.
        * constructor; [exact He|now apply IH].
  Qed.

  Lemma group_pairs_ok asg : Forall asg_ok asg -> Forall (entry_rd_ok cok) (group_pairs asg).
  Proof.
    induction asg as [|[[s l] f] r IH]; intros H; cbn [group_pairs]; [constructor|].
    inversion H; subst. apply ins_entry_ok; auto.
  Qed.
End Conv.

(* ------------------------------------------------------------------ *)
(* the reader's work budget                                            *)

Fixpoint asg_work (asg : list asgn) : N :=
  match asg with [] => 0 | a :: r => 1 + lenN (snd (snd a)) + asg_work r end.

Lemma work_app a b : work (a ++ b) = work a + work b.
Proof. induction a as [|x a IH]; cbn [app work]; [reflexivity|]. rewrite IH. lia. Qed.

Lemma work_ins_lang lang f l : work (ins_lang lang f l) = 1 + lenN (snd f) + work l.
Proof.
  induction l as [|[g x] r IH]; cbn [ins_lang work fst snd]; [lia|].
  destruct (tag_lt lang g); cbn [work fst snd]; [reflexivity|]. rewrite IH. lia.
Qed.

Lemma work_add_item lang f e : work (items_of (add_item lang f e)) <= 1 + lenN (snd f) + work (items_of e).
Proof.
  destruct e as [[tag def] langs]. unfold add_item, items_of, e_tag, e_def, e_langs. cbn [fst snd].
  destruct lang as [|c lang]; cbn [fst snd].
  - rewrite !work_app. destruct def; cbn [work fst snd]; lia.
  - rewrite !work_app, work_ins_lang. lia.
Qed.

Lemma work_ins_entry s l f es : total_work (ins_entry s l f es) <= 1 + lenN (snd f) + total_work es.
Proof.
  induction es as [|e r IH]; cbn [ins_entry total_work].
  - pose proof (work_add_item l f (s, None, [])) as H. cbn [items_of e_def e_langs fst snd app work] in H. lia.
  - destruct (list_eqb (e_tag e) s).
    + cbn [total_work]. pose proof (work_add_item l f e). lia.
    + destruct (tag_lt s (e_tag e)); cbn [total_work].
      * pose proof (work_add_item l f (s, None, [])) as H. cbn [items_of e_def e_langs fst snd app work] in H. lia.
      * lia.
Qed.

Lemma work_group asg : total_work (group_pairs asg) <= asg_work asg.
Proof.
  induction asg as [|[[s l] f] r IH]; cbn [group_pairs asg_work total_work fst snd]; [lia|].
  pose proof (work_ins_entry s l f (group_pairs r)). lia.
Qed.

(* ------------------------------------------------------------------ *)
(* the built-in tags                                                   *)

Definition tag4 (t : list N) : bool := (length t =? 4)%nat && forallb (fun b => b <? 256) t.
Definition builtin_tags4 : bool :=
  forallb tag4 builtin_scripts && forallb (fun l => match l with [] => true | _ => tag4 l end) builtin_langs.
Lemma builtin_tags4_true : builtin_tags4 = true.
Proof. vm_compute. reflexivity. Qed.

Lemma tag4_ok t : tag4 t = true -> tag_ok t.
Proof.
  unfold tag4, tag_ok. rewrite andb_true_iff, Nat.eqb_eq, forallb_forall. intros [H1 H2].
  split; [exact H1|]. apply Forall_forall. intros b Hb. specialize (H2 b Hb). lia.
Qed.

Lemma builtin_script_tag_ok s : In s builtin_scripts -> tag_ok s.
Proof.
  pose proof builtin_tags4_true as H. unfold builtin_tags4 in H. apply andb_true_iff in H.
  destruct H as [H _]. rewrite forallb_forall in H. intros Hs. now apply tag4_ok, H.
Qed.
Lemma builtin_lang_tag_ok l : In l builtin_langs -> l = [] \/ tag_ok l.
Proof.
  pose proof builtin_tags4_true as H. unfold builtin_tags4 in H. apply andb_true_iff in H.
  destruct H as [_ H]. rewrite forallb_forall in H. intros Hl. specialize (H l Hl).
  destruct l; [now left|right; now apply tag4_ok].
Qed.

(* ------------------------------------------------------------------ *)
(* encode / read over the built-in tags                                *)

(* a ScriptListInfo whose keys are otfToBCP47(script, lang) for the pairs of
   [asg]: every key carries the x extension the conversion gives it *)
Definition info_of (xtext : list N -> option (list N)) (asg : list asgn) (xinfo : list xitem) : Prop :=
  Forall2 (fun a x => M_otf_to_ext xtext (fst (fst a)) (snd (fst a)) = Some (fst x) /\ snd x = snd a)
          asg xinfo.

Definition builtin_asg (a : asgn) : Prop :=
  In (fst (fst a)) builtin_scripts /\ In (snd (fst a)) builtin_langs /\
  ls_ok (snd a) /\ lenN (snd (snd a)) < 65536.

Lemma group_of_info xtext asg xinfo :
  xtext_spec xtext -> Forall builtin_asg asg -> info_of xtext asg xinfo ->
  M_sl_group xinfo = group_pairs asg.
Proof.
  intros Hx Hb Hi. induction Hi as [|[[s l] f] [ext f'] asg xinfo [He Hf] _ IH]; [reflexivity|].
  inversion Hb as [|? ? (Hs & Hl & _) Hb']; subst. cbn [fst snd] in *. subst f'.
  cbn [M_sl_group group_pairs].
  destruct (there_and_back xtext s l Hx (builtin_defined s l Hs Hl)
              (builtin_script_shape s Hs) (builtin_lang_shape l Hl)) as (ext' & E1 & E2 & _).
  assert (ext' = ext) by congruence. subst ext'. rewrite E2. now rewrite IH.
Qed.

Lemma builtin_asg_ok xtext a : xtext_spec xtext -> builtin_asg a -> asg_ok (conv_ok xtext) a.
Proof.
  intros Hx (Hs & Hl & Hf & Hn). destruct a as [[s l] f]. cbn [fst snd] in *.
  split; [now apply builtin_script_tag_ok|]. split; [now apply builtin_lang_tag_ok|].
  split; [exact Hf|]. split; [exact Hn|].
  destruct (there_and_back xtext s l Hx (builtin_defined s l Hs Hl)
              (builtin_script_shape s Hs) (builtin_lang_shape l Hl)) as (_ & _ & _ & E & _).
  exact E.
Qed.

Lemma sl_tags_survive_lemma xtext asg xinfo b :
  xtext_spec xtext ->
  NoDup (map fst asg) -> Forall builtin_asg asg -> asg_work asg <= maxWork ->
  info_of xtext asg xinfo ->
  M_sl_info_encode xinfo = Ok b ->
  exists out, M_sl_info_read xtext b = Ok out /\ Permutation out asg.
Proof.
  intros Hx Hnd Hb Hw Hi He. unfold M_sl_info_encode in He.
  rewrite (group_of_info xtext asg xinfo Hx Hb Hi) in He.
  exists (flat_map entry_assignments (group_pairs asg)). split; [|now apply group_pairs_asg].
  unfold M_sl_info_read.
  pose proof (sl_roundtrip (conv_ok xtext) (group_pairs asg) b [] []) as R.
  rewrite app_nil_r in R. cbn [app] in R. apply R; [| |exact He].
  - apply group_pairs_ok. apply Forall_forall. intros a Ha. rewrite Forall_forall in Hb.
    apply builtin_asg_ok; auto.
  - pose proof (work_group asg). lia.
Qed.

(* boolean form of builtin_asg, for concrete values *)
Definition builtin_asgb (a : asgn) : bool :=
  existsb (list_eqb (fst (fst a))) builtin_scripts && existsb (list_eqb (snd (fst a))) builtin_langs &&
  (fst (snd a) <? 65536) && forallb (fun i => i <? 65535) (snd (snd a)) && (lenN (snd (snd a)) <? 65536).

Lemma builtin_asgb_spec a : builtin_asgb a = true -> builtin_asg a.
Proof.
  unfold builtin_asgb, builtin_asg, ls_ok. rewrite !andb_true_iff.
  intros [[[[H1 H2] H3] H4] H5]. split; [|split; [|split; [split|]]].
  - apply existsb_exists in H1. destruct H1 as [x [Hx E]]. apply list_eqb_eq in E. now subst.
  - apply existsb_exists in H2. destruct H2 as [x [Hx E]]. apply list_eqb_eq in E. now subst.
  - lia.
  - apply Forall_forall. intros i Hi. rewrite forallb_forall in H4. specialize (H4 i Hi). lia.
  - lia.
Qed.
