(* C14B/Proofs_dec.v — Info.Decode at the struct level: the finite-map steps of
   C14's record loop and the Table.set steps agree; an invariant of the
   decoded value; Decode after Encode. *)
From Coq Require Import List NArith Bool Arith Lia Permutation.
From Coq Require Import ZifyBool ZifyNat ZifyN.
From Common Require Import Bytes Outcome.
From Gen Require Import C14 C14B.
From C14 Require Import Model Proofs_codecs Proofs_name1 Proofs_name2 Proofs_name3 Proofs_name4.
From C14B Require Import Model Proofs_table Proofs_info.
Import ListNotations.
Local Open Scope N_scope.

(* ------------------------------------------------------------------ *)
(* invariant of the tables Decode builds                               *)

Definition tbl_inv (tbl : list (N * list N)) : Prop :=
  tbl <> [] /\ NoDup (map fst tbl) /\ forall e, In e tbl -> snd e <> [].
Definition tabs_inv (tt : list (list N * list (N * list N))) : Prop :=
  forall e, In e tt -> tbl_inv (snd e).
Definition info_inv (i : info) : Prop := tabs_inv (i_mac i) /\ tabs_inv (i_win i).

Lemma tset_in t id v e : In e (tset t id v) -> e = (id, v) \/ In e t.
Proof.
  induction t as [|[i x] r IH]; cbn [tset].
  - intros [<-|[]]. now left.
  - destruct (i =? id) eqn:E.
    + apply N.eqb_eq in E. subst i. intros [<-|H]; [now left|right; now right].
    + intros [<-|H]; [right; now left|]. destruct (IH H) as [->|H']; [now left|right; now right].
Qed.

Lemma tset_keys_in t id v k : In k (map fst (tset t id v)) -> k = id \/ In k (map fst t).
Proof.
  intros H. apply in_map_iff in H. destruct H as [e [<- He]]. apply tset_in in He.
  destruct He as [->|He]; [now left|right; now apply in_map].
Qed.

Lemma tset_nodup t id v : NoDup (map fst t) -> NoDup (map fst (tset t id v)).
Proof.
  induction t as [|[i x] r IH]; intros Hnd; cbn [tset map fst].
  - constructor; [intros []|constructor].
  - inversion Hnd as [|? ? Hni Hnd']; subst. destruct (i =? id) eqn:E.
    + apply N.eqb_eq in E. subst i. cbn [map fst]. now constructor.
    + cbn [map fst]. constructor; [|now apply IH].
      intros Hin. apply tset_keys_in in Hin. destruct Hin as [->|Hin]; [|now apply Hni].
      rewrite N.eqb_refl in E. discriminate.
Qed.

Lemma tset_inv t id v : v <> [] -> (t = [] \/ tbl_inv t) -> tbl_inv (tset t id v).
Proof.
  intros Hv Ht. split; [destruct t as [|[i x] r]; cbn [tset]; [discriminate|destruct (i =? id); discriminate]|].
  destruct Ht as [->|(Hne & Hnd & Hval)].
  - cbn [tset map fst]. split; [constructor; [intros []|constructor]|].
    intros e [<-|[]]. exact Hv.
  - split; [now apply tset_nodup|]. intros e He. apply tset_in in He.
    destruct He as [->|He]; [exact Hv|now apply Hval].
Qed.

Lemma tabs_set_inv tt key id v : v <> [] -> tabs_inv tt -> tabs_inv (tabs_set tt key id v).
Proof.
  intros Hv. induction tt as [|[g t] r IH]; intros Hinv; cbn [tabs_set].
  - intros e [<-|[]]. cbn [snd]. apply (tset_inv [] id v Hv). now left.
  - destruct (list_eqb g key).
    + intros e [<-|He]; [|apply Hinv; now right]. cbn [snd]. apply tset_inv; [exact Hv|right].
      apply (Hinv (g, t)). now left.
    + intros e [<-|He]; [apply (Hinv (g, t)); now left|].
      apply IH; [|exact He]. intros e' He'. apply Hinv. now right.
Qed.

Lemma dec_loop_inv n : forall recs data so acc out,
  info_inv acc -> dec_loop n recs data so acc = Ok out -> info_inv out.
Proof.
  induction n as [|n IH]; intros recs data so acc out Hinv; cbn [dec_loop].
  - intros H. injection H as <-. exact Hinv.
  - destruct recs as [|p0 [|p1 [|e0 [|e1 [|l0 [|l1 [|i0 [|i1 [|n0 [|n1 [|o0 [|o1 recs']]]]]]]]]]]];
      try discriminate.
    match goal with |- context [negb (nonempty ?k)] => destruct (negb (nonempty k)) end;
      [now apply IH|].
    match goal with |- context [if ?c then Err else _] => destruct c end; [discriminate|].
    match goal with |- context [obind ?v _] => destruct v as [val| | |] end; cbn [obind];
      try discriminate.
    destruct (negb (nonempty val)) eqn:Ev; [now apply IH|].
    assert (Hval : val <> []) by (apply nonempty_true; destruct (nonempty val); [reflexivity|discriminate]).
    destruct Hinv as [Hm Hw].
    destruct (p0 * 256 + p1 =? 1); apply IH; (split; cbn [i_mac i_win]; auto using tabs_set_inv).
Qed.

Lemma decode_inv data out : M_name_decode data = Ok out -> info_inv out.
Proof.
  unfold M_name_decode.
  assert (H0 : info_inv (mk_info [] [])) by (split; intros e []).
  destruct (lenN data <? 6); [discriminate|].
  destruct (1 <? rd16 data); [discriminate|].
  destruct (lenN data <? 6 + 12 * rd16 (skipn 2 data)); [discriminate|].
  destruct (0 <? rd16 data).
  - destruct (lenN data <? 6 + 12 * rd16 (skipn 2 data) + 2); [discriminate|].
    destruct (skipn (N.to_nat (6 + 12 * rd16 (skipn 2 data))) data) as [|a [|b rest]]; try discriminate.
    cbn [obind]. match goal with |- context [if ?c then Err else _] => destruct c end; [discriminate|].
    now apply dec_loop_inv.
  - cbn [obind]. match goal with |- context [if ?c then Err else _] => destruct c end; [discriminate|].
    now apply dec_loop_inv.
Qed.

(* ------------------------------------------------------------------ *)
(* the struct steps refine the finite-map steps                        *)

Lemma conc_tset t id v : v <> [] -> NoDup (map fst t) -> (forall e, In e t -> snd e <> []) ->
  conc_table (tset t id v) = M_set (conc_table t) id v.
Proof.
  intros Hv Hnd Hval. apply clean_ext.
  - apply conc_clean. intros e He. apply tset_in in He. destruct He as [->|He]; [exact Hv|now apply Hval].
  - apply set_clean; [now apply conc_clean|exact Hv].
  - intros id'. rewrite conc_get by now apply tset_nodup.
    rewrite get_set by apply conc_wf. rewrite conc_get by exact Hnd. apply tget_tset.
Qed.

Lemma conc_single id v : conc_table [(id, v)] = M_set empty_table id v.
Proof. reflexivity. Qed.

(* one accepted record: tabs_set on finite maps = the lookup / &Table{} /
   Table.set / store sequence on structs *)
Lemma conc_tabs_set tt key id v : v <> [] -> tabs_inv tt ->
  conc_tabs (tabs_set tt key id v) = s_tabs_set (conc_tabs tt) key id v.
Proof.
  intros Hv. induction tt as [|[g t] r IH]; intros Hinv; cbn [tabs_set conc_tabs map s_tabs_set fst snd].
  - reflexivity.
  - destruct (list_eqb g key).
    + cbn [map fst snd]. f_equal. f_equal. f_equal.
      destruct (Hinv (g, t) (or_introl eq_refl)) as (_ & Hnd & Hval). now apply conc_tset.
    + cbn [map fst snd]. f_equal. apply IH. intros e He. apply Hinv. now right.
Qed.

Lemma find_conc_tabs tt tag :
  stabs_find (conc_tabs tt) tag = option_map conc_table (lookupB tag tt).
Proof.
  unfold stabs_find. induction tt as [|[g t] r IH]; cbn [conc_tabs map lookupB fst snd]; [reflexivity|].
  destruct (list_eqb g tag); [reflexivity|exact IH].
Qed.

(* ------------------------------------------------------------------ *)
(* Decode after Encode                                                 *)

(* strings Encode can represent *)
Definition strings_ok (ok : N -> bool) (tt : list (list N * option stable)) : Prop :=
  forall tag t, stabs_find tt tag = Some t ->
    forall id, M_get t id <> [] -> id < 65536 /\ forallb ok (M_get t id) = true.
Definition representable (inf : sinfo) : Prop :=
  strings_ok mac_repertoire (s_mac inf) /\ strings_ok is_scalar (s_win inf).

Lemma abs_wf_tables ok tt : wf_stabs tt -> strings_ok ok tt -> wf_tables ok (abs_tabs tt).
Proof.
  intros Hwf Hs tag tbl Hl. rewrite lookup_abs_tabs in Hl.
  pose proof (Hwf tag) as Hw. pose proof (Hs tag) as Hst. unfold stabs_find in Hw, Hst.
  destruct (lookupB tag tt) as [[t|]|]; try discriminate; injection Hl as <-.
  - specialize (Hw t eq_refl). split; [rewrite abs_keys; now apply asc_nodup, keys_asc|].
    intros id v Hin. apply (abs_in t id v Hw) in Hin. destruct Hin as [-> Hne].
    now apply (Hst t eq_refl).
  - split; [constructor|intros id v []].
Qed.

Lemma abs_tabs_get tt tag id : wf_stabs tt -> tabs_get (abs_tabs tt) tag id = stabs_get tt tag id.
Proof.
  intros Hwf. unfold tabs_get, stabs_get. rewrite lookup_abs_tabs.
  pose proof (Hwf tag) as Hw. unfold stabs_find in *.
  destruct (lookupB tag tt) as [[t|]|]; try reflexivity. now apply abs_tget, Hw.
Qed.

(* one platform: from C14's statement about strings to the tables *)
Lemma survives_lemma tbl tt otabs :
  wf_stabs tt -> tabs_inv otabs ->
  (forall tag id, tabs_get otabs tag id = if supported tbl tag then tabs_get (abs_tabs tt) tag id else []) ->
  forall tag, stabs_find (conc_tabs otabs) tag = survives tbl tt tag.
Proof.
  intros Hwf Hinv Hget tag. rewrite find_conc_tabs. unfold survives.
  assert (Hg : forall id, tabs_get otabs tag id = if supported tbl tag then stabs_get tt tag id else []).
  { intros id. rewrite Hget. now rewrite abs_tabs_get. }
  clear Hget. unfold tabs_get in Hg.
  destruct (lookupB tag otabs) as [otbl|] eqn:El; cbn [option_map].
  - pose proof (lookupB_in _ _ _ El) as Hin. destruct (Hinv _ Hin) as (Hne & Hnd & Hval). cbn [snd] in *.
    destruct otbl as [|[i0 v0] orest] eqn:Eo; [congruence|]. rewrite <- Eo in *.
    assert (H0 : tget otbl i0 = v0).
    { rewrite Eo. unfold tget. cbn [lookupN]. now rewrite N.eqb_refl. }
    assert (Hv0 : v0 <> []) by (apply (Hval (i0, v0)); rewrite Eo; now left).
    pose proof (Hg i0) as Hg0. rewrite H0 in Hg0.
    destruct (supported tbl tag); [|congruence].
    unfold stabs_get in Hg, Hg0. destruct (stabs_find tt tag) as [t|] eqn:Ef; [|congruence].
    pose proof (Hwf tag t Ef) as Hw.
    destruct (norm_table t) as [t'|] eqn:En.
    + f_equal. apply clean_ext.
      * now apply conc_clean.
      * now apply (norm_is_clean t).
      * intros id. rewrite conc_get by exact Hnd. rewrite Hg. symmetry. now apply norm_get.
    + exfalso. apply (norm_none t Hw) with (id := i0) in En. congruence.
  - destruct (supported tbl tag); [|reflexivity].
    unfold stabs_get in Hg. destruct (stabs_find tt tag) as [t|] eqn:Ef; [|reflexivity].
    symmetry. apply norm_none; [now apply (Hwf tag)|]. intros id. symmetry. apply Hg.
Qed.

(* Decode(Encode(info)): every table is found again under the string it was
   stored under, in its normal form, when the string is one of the language
   table's; nothing else is found *)
Lemma decode_encode_lemma om ow inf :
  (forall p, In p om <-> In p name_appleBCP) ->
  (forall p, In p ow <-> In p name_msBCP) ->
  wf_sinfo inf -> representable inf ->
  6 + 12 * name_num_records om ow 1 (abs_info inf) <= 65535 ->
  name_storage_len om ow 1 (abs_info inf) <= 65535 ->
  exists out,
    S_name_decode (S_name_encode om ow 1 inf) = Ok out /\
    (forall tag, stabs_find (s_mac out) tag = survives name_appleBCP (s_mac inf) tag) /\
    (forall tag, stabs_find (s_win out) tag = survives name_msBCP (s_win inf) tag).
Proof.
  intros Hom How Hwf Hrep Hrec Hsto.
  assert (Hwfi : wf_info (abs_info inf)).
  { destruct Hwf as [Hm Hw]. destruct Hrep as [Rm Rw].
    split; cbn [abs_info i_mac i_win]; now apply abs_wf_tables. }
  destruct (name_roundtrip_lemma om ow (abs_info inf) Hom How Hwfi Hrec Hsto) as (o & Ho & Gm & Gw).
  exists (conc_info o). split.
  - unfold S_name_decode. rewrite S_name_encode_eq by exact Hwf. now rewrite Ho.
  - pose proof (decode_inv _ _ Ho) as [Im Iw]. destruct Hwf as [Hm Hw].
    cbn [conc_info s_mac s_win]. split.
    + apply survives_lemma; auto.
    + apply survives_lemma; auto.
Qed.
