(* C14B/Props.v — the theorems of part C14B, stated against what the
   translator extracted from /repo on this run (Gen/C14.v: the language-id
   tables, maxID, the script and language tag tables; Gen/C14B.v: the fields of
   name.Table, the switch statements of get and set, the two bounds of keys).
   Nothing else. *)
From Coq Require Import List NArith Bool Arith Lia Permutation.
From Common Require Import Bytes Outcome.
From Gen Require Import C14 C14B.
From C14 Require Import Model ModelTags.
From C08 Require Import ModelSL.
From C14B Require Import Model ModelTags2 Proofs_table Proofs_info Proofs_dec Proofs_name5 Proofs_check
     Proofs_tags2 Proofs_sl2 Proofs_plain Examples Examples_tags Proofs_final.
Import ListNotations.
Local Open Scope N_scope.

(* ------------------------------------------------------------------ *)
(* name.Table: get / set.  For every well-formed table (the right number of
   string fields, Extra nil or a map), every id and string: set keeps the table
   well-formed, get after set returns the string just stored under its id and
   what was there before under every other id - named field, the field-less
   id 15, or any id of Extra.  (The functions are total by construction.) *)
Theorem table_get_set :
  forall t id v, wf_stable t = true ->
    wf_stable (M_set t id v) = true /\
    forall id', M_get (M_set t id v) id' = if id =? id' then v else M_get t id'.
Proof. exact table_get_set_lemma. Qed.
Print Assumptions table_get_set.

(* ------------------------------------------------------------------ *)
(* keys() lists every id whose string is not empty - named field or Extra,
   0..65535 and beyond - exactly once, in ascending order, and nothing else;
   the order in which `range t.Extra` visits the map does not matter.  (This
   rests on facts of the regenerated switch statements and loop bounds,
   re-checked on every run: every case label is reached by the counting loop,
   which ends at maxID, and the Extra filter starts at maxID + 1.) *)
Theorem keys_complete :
  forall t iter, wf_stable t = true ->
    (match st_extra t with Some m => Permutation iter m | None => True end) ->
    M_keys_iter t iter = M_keys t /\
    ascN (M_keys t) /\ NoDup (M_keys t) /\
    forall id, In id (M_keys t) <-> M_get t id <> [].
Proof. exact keys_complete_lemma. Qed.
Print Assumptions keys_complete.

(* the variant whose Extra filter starts at 256 (seed C14-h) is not complete *)
Theorem keys_from_256_refuted :
  exists t, wf_stable t = true /\ M_get t 26 <> [] /\ M_get t 255 <> [] /\
            ~ In 26 (M_keys_gen name_keys_loop_last 256 t
                       (match st_extra t with Some m => m | None => [] end)) /\
            ~ In 255 (M_keys_gen name_keys_loop_last 256 t
                        (match st_extra t with Some m => m | None => [] end)).
Proof. exact Examples.keys_from_256_refuted. Qed.
Print Assumptions keys_from_256_refuted.

(* ------------------------------------------------------------------ *)
(* Info.Encode, for every iteration order of the two language tables, every
   Windows encoding id and every Info whose tables are well-formed (no size
   bound): the output is header, records in ascending order, string storage;
   a record (platform, language id, name id) is written exactly when the
   language id's string - compared byte by byte, no normalisation - is a key
   of the platform's map with a non-nil table whose get(name id) is not empty
   (nil pointers, missing keys, empty strings and Extra entries under an id
   that has a field of its own write nothing); no triple is written twice;
   Macintosh records carry encoding id 0, Windows records the caller's; and
   the bytes are those of C14's encoder on the abstraction (so that C14's
   name_roundtrip and name_strings_shared speak about them). *)
Theorem name_records_exact :
  forall (om ow : list (N * list N)) (weid : N) (inf : sinfo),
    wf_sinfo inf ->
    let recs := S_name_records om ow weid inf in
    S_name_encode om ow weid inf =
      be16 0 ++ be16 (lenN recs) ++ be16 (6 + 12 * lenN recs) ++ flat_map enc_rec recs ++
      nb_data (fst (S_name_gen om ow weid inf)) /\
    (forall p l i, In (p, l, i) (map rec_key recs) <->
       (p = 1 /\ exists tag t, In (l, tag) om /\ stabs_find (s_mac inf) tag = Some t /\ M_get t i <> []) \/
       (p = 3 /\ exists tag t, In (l, tag) ow /\ stabs_find (s_win inf) tag = Some t /\ M_get t i <> [])) /\
    (NoDup (map fst om) -> NoDup (map fst ow) -> NoDup (map rec_key recs)) /\
    (forall r, In r recs -> r_enc r = if r_plat r =? 1 then 0 else weid) /\
    S_name_encode om ow weid inf = M_name_encode om ow weid (abs_info inf).
Proof. exact records_exact_lemma. Qed.
Print Assumptions name_records_exact.

(* Decode after Encode, in general: for every iteration order, every Info with
   well-formed tables, 16-bit name ids, Macintosh strings in the Mac Roman
   repertoire and Windows strings of scalar values, within the two 16-bit
   limits Encode does not guard (C14's open findings): Decode succeeds, and
   under a string [tag] it holds exactly [survives]: nothing when the string is
   not one of the platform's language strings or the caller had no table (or
   a nil pointer) there or the table had no non-empty string; otherwise the
   table rebuilt from the strings get returns - fields as they were, Extra
   reduced to the non-empty entries under ids without a field, nil if none. *)
Theorem name_decode_encode :
  forall (om ow : list (N * list N)) (inf : sinfo),
    Permutation om name_appleBCP -> Permutation ow name_msBCP ->
    wf_sinfo inf -> representable inf ->
    6 + 12 * name_num_records om ow 1 (abs_info inf) <= 65535 ->
    name_storage_len om ow 1 (abs_info inf) <= 65535 ->
    exists out,
      S_name_decode (S_name_encode om ow 1 inf) = Ok out /\
      (forall tag, stabs_find (s_mac out) tag = survives name_appleBCP (s_mac inf) tag) /\
      (forall tag, stabs_find (s_win out) tag = survives name_msBCP (s_win inf) tag) /\
      (forall tag t t', stabs_find (s_mac inf) tag = Some t -> norm_table t = Some t' ->
         clean_table t' = true /\ forall id, M_get t' id = M_get t id).
Proof. exact name_decode_encode_lemma. Qed.
Print Assumptions name_decode_encode.

(* Decode after Encode is the identity on Info values whose keys are language
   strings of their platform, whose pointers are non-nil and whose tables are
   clean (Extra holds only non-empty strings under ids without a field of
   their own and is nil when empty) with at least one non-empty string. *)
Theorem name_roundtrip_identity :
  forall (om ow : list (N * list N)) (inf : sinfo),
    Permutation om name_appleBCP -> Permutation ow name_msBCP ->
    clean_sinfo inf -> representable inf ->
    6 + 12 * name_num_records om ow 1 (abs_info inf) <= 65535 ->
    name_storage_len om ow 1 (abs_info inf) <= 65535 ->
    exists out,
      S_name_decode (S_name_encode om ow 1 inf) = Ok out /\
      (forall tag, stabs_find (s_mac out) tag = stabs_find (s_mac inf) tag) /\
      (forall tag, stabs_find (s_win out) tag = stabs_find (s_win inf) tag).
Proof. exact name_roundtrip_identity_lemma. Qed.
Print Assumptions name_roundtrip_identity.

(* What is lost otherwise - each hypothesis is needed. *)
Theorem unsupported_key_refuted :
  sinfo_okb unsupported_info = true /\
  stabs_okb mac_repertoire (s_mac unsupported_info) = true /\
  clean_table ex_t = true /\
  supported name_appleBCP tag_roMD = false /\ supported name_appleBCP tag_enUS = false /\
  supported name_msBCP tag_enus_lower = false /\ supported name_msBCP tag_en = false /\
  S_name_decode (S_name_encode name_appleBCP name_msBCP 1 unsupported_info) = Ok (mk_sinfo [] []).
Proof. exact Examples.unsupported_key_refuted. Qed.
Print Assumptions unsupported_key_refuted.

Theorem extra_collision_refuted :
  sinfo_okb coll_info = true /\ clean_sinfob coll_info = false /\
  match S_name_decode (S_name_encode name_appleBCP name_msBCP 1 coll_info) with
  | Ok out => match stabs_find (s_win out) tag_enUS with
              | Some t => (match st_extra t with Some [(300, [121])] => true | _ => false end) &&
                          nonempty (emap_get (st_extra t_coll) 1) && negb (nonempty (emap_get (st_extra t) 1))
              | None => false
              end
  | _ => false
  end = true.
Proof. exact Examples.extra_collision_refuted. Qed.
Print Assumptions extra_collision_refuted.

Theorem mac_not_representable_refuted :
  stabs_okb mac_repertoire (s_mac nonroman_info) = false /\
  clean_sinfob nonroman_info = true /\
  S_name_decode (S_name_encode name_appleBCP name_msBCP 1 nonroman_info) =
    Ok (mk_sinfo [(tag_en, Some (M_set empty_table 1 [63; 65]))] []).
Proof. exact Examples.mac_not_representable_refuted. Qed.
Print Assumptions mac_not_representable_refuted.

(* Decode stores every accepted record with Table.set on the table found
   under the key (a fresh &Table{} when there is none): on the values Decode
   builds, C14's finite-map step and the struct step agree. *)
Theorem decode_steps_refine :
  forall tt key id v, v <> [] -> tabs_inv tt ->
    conc_tabs (tabs_set tt key id v) = s_tabs_set (conc_tabs tt) key id v.
Proof. exact conc_tabs_set. Qed.
Print Assumptions decode_steps_refine.

(* ------------------------------------------------------------------ *)
(* A table stored under any built-in language string - verbatim, e.g. "mo",
   which x/text would rewrite to "ro-MD" - is written under that string's
   language id and under no other, and Decode finds it under the SAME string
   and under no other; on both platforms. *)
Theorem language_keys_verbatim :
  forall (om ow : list (N * list N)) (lang : N) (tag : list N) (t : stable),
    Permutation om name_appleBCP -> Permutation ow name_msBCP ->
    clean_table t = true -> M_keys t <> [] ->
    (In (lang, tag) name_appleBCP ->
     (forall id, M_get t id <> [] -> id < 65536 /\ forallb mac_repertoire (M_get t id) = true) ->
     let inf := mk_sinfo [(tag, Some t)] [] in
     6 + 12 * name_num_records om ow 1 (abs_info inf) <= 65535 ->
     name_storage_len om ow 1 (abs_info inf) <= 65535 ->
     exists out,
       S_name_decode (S_name_encode om ow 1 inf) = Ok out /\
       (forall tag', stabs_find (s_mac out) tag' = if list_eqb tag tag' then Some t else None) /\
       (forall tag', stabs_find (s_win out) tag' = None) /\
       (forall r, In r (S_name_records om ow 1 inf) -> r_plat r = 1 /\ r_lang r = lang)) /\
    (In (lang, tag) name_msBCP ->
     (forall id, M_get t id <> [] -> id < 65536 /\ forallb is_scalar (M_get t id) = true) ->
     let inf := mk_sinfo [] [(tag, Some t)] in
     6 + 12 * name_num_records om ow 1 (abs_info inf) <= 65535 ->
     name_storage_len om ow 1 (abs_info inf) <= 65535 ->
     exists out,
       S_name_decode (S_name_encode om ow 1 inf) = Ok out /\
       (forall tag', stabs_find (s_win out) tag' = if list_eqb tag tag' then Some t else None) /\
       (forall tag', stabs_find (s_mac out) tag' = None) /\
       (forall r, In r (S_name_records om ow 1 inf) -> r_plat r = 3 /\ r_lang r = lang)).
Proof. exact language_keys_verbatim_lemma. Qed.
Print Assumptions language_keys_verbatim.

(* the same, executed inside Coq for every entry of the two regenerated
   tables (finite: all of name.appleBCP and name.msBCP) with a sample table
   holding a field, an Extra id in 26..255 and one above 255; "mo" is language
   id 53 of the Macintosh table *)
Theorem language_keys_verbatim_all :
  forallb (verbatim_check true) name_appleBCP && forallb (verbatim_check false) name_msBCP = true /\
  existsb (fun e => (fst e =? 53) && list_eqb (snd e) tag_mo) name_appleBCP = true.
Proof. exact Examples.language_keys_verbatim_all. Qed.
Print Assumptions language_keys_verbatim_all.

(* ------------------------------------------------------------------ *)
(* OpenType tags <-> BCP 47 as string functions.  For EVERY script tag of
   four bytes that is "DFLT" or 1..4 digits / lower-case letters padded with
   spaces (other than "dflt"), and every language tag that is "" or 1..4
   digits / upper-case letters padded with spaces to four bytes - whatever
   the number of padding spaces, 0 to 3 - the private-use part built by
   otfToBCP47 is a list of 1..8-alphanumeric subtags (all trailing spaces
   trimmed), and bcp47ToOtf recovers exactly (script, language) from its
   lower-cased form (padding back to four bytes, ToUpper, dflt -> DFLT). *)
Theorem otf_tag_string_roundtrip :
  forall s l, script_shape s = true -> lang_shape l = true ->
    priv_ok (private_part s l) = true /\
    M_from_ext ([120; 45] ++ lower (private_part s l)) = Some (s, l).
Proof. exact shape_roundtrip. Qed.
Print Assumptions otf_tag_string_roundtrip.

(* With x/text as a parameter meeting C14's hypothesis xtext_spec: for every
   pair otfToBCP47 has table entries for and whose tags have the shapes,
   bcp47ToOtf (otfToBCP47 (s, l)) = (s, l); otfToBCP47 reports an error exactly
   for a script outside scriptBcp47 or a non-empty language outside langBcp47. *)
Theorem otf_tag_there_and_back :
  forall xtext, xtext_spec xtext ->
    (forall s l, M_otf_tag_string s l <> None -> script_shape s = true -> lang_shape l = true ->
       conv_ok xtext s l = true /\ M_otf_there_and_back xtext s l = Some (s, l)) /\
    (forall s l, M_otf_tag_string s l <> None <->
       lookupS s gtab_scriptBcp47 <> None /\ (lookupS l gtab_langBcp47 <> None \/ l = [])).
Proof. exact otf_tag_there_and_back_lemma. Qed.
Print Assumptions otf_tag_there_and_back.

(* Every tag of the built-in tables (finite: the regenerated scriptBcp47 and
   langBcp47, and the default language system "") has the shape, so every
   built-in pair converts and comes back - including the tags padded with two
   spaces, "yi  ", "HO  ", "WA  ". *)
Theorem builtin_tags_all_convert :
  forallb script_shape builtin_scripts && forallb lang_shape builtin_langs = true /\
  forall xtext, xtext_spec xtext ->
  forall s l, In s builtin_scripts -> In l builtin_langs ->
    conv_ok xtext s l = true /\ M_otf_there_and_back xtext s l = Some (s, l).
Proof. exact builtin_tags_all_convert_lemma. Qed.
Print Assumptions builtin_tags_all_convert.

Theorem xtext_strict_meets_xtext_spec : xtext_spec xtext_strict.
Proof. exact xtext_strict_meets_spec. Qed.
Print Assumptions xtext_strict_meets_xtext_spec.

(* trimming one trailing space only (seed C08-j) breaks "HO  " and "WA  ";
   outside the shapes the round trip fails ("dflt", lower-case language) *)
Theorem trim_one_space_refuted :
  private_part_trim1 t_deva t_HO = [100; 101; 118; 97; 45; 72; 79; 32] /\
  priv_ok (private_part_trim1 t_deva t_HO) = false /\
  priv_ok (private_part_trim1 t_latn t_WA) = false /\
  xtext_strict (full_tag ([104; 111; 99; 45; 68; 101; 118; 97], private_part_trim1 t_deva t_HO)) = None /\
  private_part_trim1 t_latn t_DEU = private_part t_latn t_DEU.
Proof. exact Examples_tags.trim_one_space_refuted. Qed.
Print Assumptions trim_one_space_refuted.

Theorem shape_needed_refuted :
  script_shape tag_dflt = false /\
  M_from_ext ([120; 45] ++ lower (private_part tag_dflt [])) = Some (tag_DFLT, []) /\
  lang_shape [100; 101; 117; 32] = false /\
  M_from_ext ([120; 45] ++ lower (private_part t_latn [100; 101; 117; 32])) = Some (t_latn, t_DEU).
Proof. exact Examples_tags.shape_needed_refuted. Qed.
Print Assumptions shape_needed_refuted.

(* ------------------------------------------------------------------ *)
(* Script list over the built-in tags.  For x/text meeting xtext_spec and
   every finite map from pairwise distinct (script, language) pairs of the
   built-in tables (language "" = default language system) to language
   systems with valid feature indices - equal to the script's default or not,
   shared or not - within the reader's work budget: if xinfo is the
   ScriptListInfo whose keys are otfToBCP47 of these pairs (in any order of
   the Go map), whatever encode() writes (it refuses only on 16-bit
   overflow), readScriptList assigns exactly these language systems to
   exactly these pairs: every language system survives.
   (C08's scriptlist_roundtrip composed with the tag conversion.) *)
Theorem scriptlist_tags_all_survive :
  forall xtext, xtext_spec xtext ->
  forall (asg : list ((list N * list N) * langsys)) (xinfo : list xitem) (b : list N),
    NoDup (map fst asg) -> Forall builtin_asg asg -> asg_work asg <= maxWork ->
    info_of xtext asg xinfo ->
    M_sl_info_encode xinfo = Ok b ->
    exists out, M_sl_info_read xtext b = Ok out /\ Permutation out asg.
Proof. exact scriptlist_tags_all_survive_lemma. Qed.
Print Assumptions scriptlist_tags_all_survive.

(* the encoder that leaves out language systems equal to the script's
   default (seed C14-i) loses ("latn", "DEU ") *)
Theorem drop_equal_default_refuted :
  match M_sl_info_encode_dropdefault ex_xinfo with
  | Ok b => omap canon_asg (M_sl_info_read xtext_strict b)
  | _ => Err
  end = Ok [((t_deva, t_HO), (3, [2])); ((t_latn, []), (65535, [0; 1]));
            ((t_latn, t_TRK), (65535, [0; 1; 2]))].
Proof. exact Examples_tags.drop_equal_default_refuted. Qed.
Print Assumptions drop_equal_default_refuted.

(* ------------------------------------------------------------------ *)
(* bcp47ToOtf on a tag WITHOUT an x extension (the Chinese special cases and
   the two table searches, with fixes/C08-bcp47-plain-tag-deterministic.diff:
   the smallest matching OpenType tag) is a function of the tag: for every
   iteration order of langBcp47 and of scriptBcp47 the answer is the one
   obtained in table order.  Rests on regenerated facts: both loops have the
   smallest-key shape and no key of the tables is empty. *)
Theorem plain_tag_is_function :
  forall iterL iterS pt,
    Permutation iterL gtab_langBcp47 -> Permutation iterS gtab_scriptBcp47 ->
    M_plain_tag iterL iterS pt = M_plain_tag gtab_langBcp47 gtab_scriptBcp47 pt.
Proof. exact plain_tag_function_lemma. Qed.
Print Assumptions plain_tag_is_function.

(* as found (stop at the first match) it was not: bn-Beng is "beng" in one
   order of the script table and "bng2" in another *)
Theorem plain_tag_as_found_refuted :
  Permutation (rev gtab_scriptBcp47) gtab_scriptBcp47 /\
  M_plain_tag_gen false false gtab_langBcp47 gtab_scriptBcp47 pt_bnBeng = (t_beng, [66; 69; 78; 32]) /\
  M_plain_tag_gen false false gtab_langBcp47 (rev gtab_scriptBcp47) pt_bnBeng = (t_bng2, [66; 69; 78; 32]).
Proof. exact Examples_tags.plain_tag_as_found_refuted. Qed.
Print Assumptions plain_tag_as_found_refuted.

(* ScriptListInfo.encode with keys of either kind (x extension or plain), for
   every order in which the map is visited: the bytes (or the refusal) do not
   depend on the iteration order of the two tables. *)
Theorem scriptlist_plain_keys_function :
  forall iterL iterS (info : list (gtag * langsys)),
    Permutation iterL gtab_langBcp47 -> Permutation iterS gtab_scriptBcp47 ->
    M_sl_info_encode_g iterL iterS info = M_sl_info_encode_g gtab_langBcp47 gtab_scriptBcp47 info.
Proof. exact sl_plain_function_lemma. Qed.
Print Assumptions scriptlist_plain_keys_function.

(* ------------------------------------------------------------------ *)
(* Totality.  get, set, keys, Encode, the tag conversions and the grouping
   are total functions (no fuel, no partiality in their definitions); Decode
   and readScriptList never panic and never run out of fuel, whatever the
   bytes; set keeps tables well-formed. *)
Theorem c14b_total :
  (forall data, bytes_ok data = true ->
     S_name_decode data <> Panic /\ S_name_decode data <> OutOfFuel) /\
  (forall xtext data, M_sl_info_read xtext data <> Panic) /\
  (forall tbl, wf_stable (conc_table tbl) = true).
Proof. exact c14b_total_lemma. Qed.
Print Assumptions c14b_total.
