(* C14B/Proofs_plain.v — bcp47ToOtf on tags without an x extension is a
   function of the tag: the search for the smallest matching key does not
   depend on the iteration order of the Go maps. *)
From Coq Require Import List NArith Bool Arith Lia Permutation.
From Coq Require Import ZifyBool ZifyNat ZifyN.
From Common Require Import Bytes Outcome.
From Gen Require Import C14 C14B.
From C14 Require Import Model ModelTags Proofs_post.
From C08 Require Import Model ModelSub ModelSL.
From C14B Require Import ModelTags2.
Import ListNotations.
Local Open Scope N_scope.

(* ------------------------------------------------------------------ *)
(* the byte-wise order on strings                                      *)

Lemma tag_lt_irrefl a : tag_lt a a = false.
Proof.
  induction a as [|x a IH]; cbn [tag_lt]; [reflexivity|].
  rewrite N.ltb_irrefl, N.eqb_refl, IH. reflexivity.
Qed.

Lemma tag_lt_trans a : forall b c, tag_lt a b = true -> tag_lt b c = true -> tag_lt a c = true.
Proof.
  induction a as [|x a IH]; intros [|y b] [|z c]; cbn [tag_lt]; try discriminate; auto.
  rewrite !orb_true_iff, !andb_true_iff. intros [H1|[H1 H2]] [H3|[H3 H4]].
  - left. lia.
  - left. lia.
  - left. lia.
  - right. split; [lia|]. now apply (IH b).
Qed.

Lemma tag_lt_total a : forall b, tag_lt a b = false -> tag_lt b a = false -> a = b.
Proof.
  induction a as [|x a IH]; intros [|y b]; cbn [tag_lt]; try discriminate; auto.
  rewrite !orb_false_iff, !andb_false_iff. intros [H1 H2] [H3 H4].
  assert (x = y) by lia. subst y. f_equal. apply IH.
  - destruct H2 as [H2|H2]; [rewrite N.eqb_refl in H2; discriminate|exact H2].
  - destruct H4 as [H4|H4]; [rewrite N.eqb_refl in H4; discriminate|exact H4].
Qed.

(* ------------------------------------------------------------------ *)
(* the search returns the smallest matching key                        *)

Definition matches (iter : list (list N * list N)) (target k : list N) : Prop :=
  exists v, In (k, v) iter /\ list_eqb v target = true.

(* [r] is the least element of (acc, if any) together with the matching keys *)
Definition least_of (iter : list (list N * list N)) (target acc r : list N) : Prop :=
  (r = [] /\ acc = [] /\ forall k, ~ matches iter target k) \/
  (r <> [] /\ (r = acc \/ matches iter target r) /\
   (acc <> [] -> tag_lt acc r = false) /\ forall k, matches iter target k -> tag_lt k r = false).

Lemma search_min_least iter target : forall acc,
  (forall k v, In (k, v) iter -> k <> []) ->
  least_of iter target acc (search_min iter target acc).
Proof.
  induction iter as [|[k v] r IH]; intros acc Hne; cbn [search_min].
  - destruct acc as [|c acc'] eqn:E.
    + left. repeat split; auto. intros k' [v' [[] _]].
    + right. split; [discriminate|]. split; [now left|]. split; [intros _; apply tag_lt_irrefl|].
      intros k' [v' [[] _]].
  - assert (Hk : k <> []) by (apply (Hne k v); now left).
    assert (Hne' : forall k' v', In (k', v') r -> k' <> []) by (intros k' v' H; apply (Hne k' v'); now right).
    remember (if list_eqb v target && (match acc with [] => true | _ => tag_lt k acc end) then k else acc)
      as acc' eqn:Eacc.
    specialize (IH acc' Hne'). remember (search_min r target acc') as res eqn:Eres.
    (* what the step does *)
    assert (Hstep : (acc' = acc /\ (list_eqb v target = false \/ (acc <> [] /\ tag_lt k acc = false))) \/
                    (acc' = k /\ list_eqb v target = true /\ (acc = [] \/ tag_lt k acc = true))).
    { clear IH Eres. subst acc'. destruct (list_eqb v target); cbn [andb]; [|left; auto].
      destruct acc as [|c a]; [right; auto|].
      destruct (tag_lt k (c :: a)) eqn:E; [right; auto|left; split; [reflexivity|right; split; [discriminate|reflexivity]]]. }
    destruct IH as [(Hr & Ha & Hnone)|(Hr & Hin & Hacc & Hmin)].
    + (* nothing found at all *)
      destruct Hstep as [[Ea Hs]|[Ea _]]; [|congruence].
      left. split; [exact Hr|]. split; [congruence|].
      intros k' [v' [[E|Hin'] Hm]].
      * injection E as <- <-. destruct Hs as [Hs|[Hs _]]; [congruence|]. apply Hs. congruence.
      * apply (Hnone k'). now exists v'.
    + right. split; [exact Hr|].
      destruct Hstep as [[Ea Hs]|(Ea & Hm & Hlt)].
      * (* the entry is skipped *)
        rewrite Ea in *. split; [destruct Hin as [Hin|[v' [Hin Hm]]]; [now left|right; exists v'; split; [now right|exact Hm]]|].
        split; [exact Hacc|].
        intros k' [v' [[E|Hin'] Hm]].
        -- injection E as <- <-. destruct Hs as [Hs|[Hs1 Hs2]]; [congruence|].
           (* k >= acc >= res *)
           destruct (tag_lt k res) eqn:E; [|reflexivity]. exfalso.
           specialize (Hacc Hs1).
           destruct (tag_lt acc k) eqn:E2.
           ++ rewrite (tag_lt_trans acc k res E2 E) in Hacc. discriminate.
           ++ assert (acc = k) by now apply tag_lt_total. subst acc. congruence.
        -- apply Hmin. now exists v'.
      * (* the entry becomes the candidate *)
        rewrite Ea in *. specialize (Hacc Hk).
        split; [right; destruct Hin as [->|[v' [Hin Hm']]]; [exists v; split; [now left|exact Hm]|exists v'; split; [now right|exact Hm']]|].
        split.
        -- intros Hane. destruct Hlt as [->|Hlt]; [congruence|].
           destruct (tag_lt acc res) eqn:E; [|reflexivity]. exfalso.
           rewrite (tag_lt_trans k acc res Hlt E) in Hacc. discriminate.
        -- intros k' [v' [[E|Hin'] Hm']]; [injection E as <- <-; exact Hacc|].
           apply Hmin. now exists v'.
Qed.

(* the least matching key is unique, so the order of the entries is irrelevant *)
Lemma search_min_perm iter1 iter2 target :
  Permutation iter1 iter2 -> (forall k v, In (k, v) iter1 -> k <> []) ->
  search_min iter1 target [] = search_min iter2 target [].
Proof.
  intros Hp Hne.
  assert (Hne2 : forall k v, In (k, v) iter2 -> k <> []).
  { intros k v H. apply (Hne k v). eapply Permutation_in; [symmetry; exact Hp|exact H]. }
  pose proof (search_min_least iter1 target [] Hne) as L1.
  pose proof (search_min_least iter2 target [] Hne2) as L2.
  assert (Hm : forall k, matches iter1 target k <-> matches iter2 target k).
  { intros k. split; intros [v [Hin H]]; exists v; (split; [|exact H]);
      [eapply Permutation_in; [exact Hp|exact Hin]|eapply Permutation_in; [symmetry; exact Hp|exact Hin]]. }
  set (r1 := search_min iter1 target []) in *. set (r2 := search_min iter2 target []) in *.
  destruct L1 as [(E1 & _ & N1)|(R1 & I1 & _ & M1)]; destruct L2 as [(E2 & _ & N2)|(R2 & I2 & _ & M2)].
  - congruence.
  - exfalso. destruct I2 as [I2|I2]; [congruence|]. apply (N1 r2). now apply Hm.
  - exfalso. destruct I1 as [I1|I1]; [congruence|]. apply (N2 r1). now apply Hm.
  - destruct I1 as [I1|I1]; [congruence|]. destruct I2 as [I2|I2]; [congruence|].
    apply tag_lt_total; [apply M2; now apply Hm|apply M1; now apply Hm].
Qed.

(* ------------------------------------------------------------------ *)
(* the regenerated tables and search shape                             *)

Definition plain_check : bool :=
  gtab_plain_lang_min && gtab_plain_script_min &&
  forallb (fun e => nonempty (fst e)) gtab_langBcp47 && forallb (fun e => nonempty (fst e)) gtab_scriptBcp47.
Lemma plain_check_true : plain_check = true.
Proof. vm_compute. reflexivity. Qed.

Lemma keys_nonempty tbl : forallb (fun e : list N * list N => nonempty (fst e)) tbl = true ->
  forall k v, In (k, v) tbl -> k <> [].
Proof.
  intros H k v Hin. rewrite forallb_forall in H. specialize (H _ Hin). cbn [fst] in H.
  destruct k; [discriminate|discriminate].
Qed.

Lemma plain_tag_function_lemma iterL iterS pt :
  Permutation iterL gtab_langBcp47 -> Permutation iterS gtab_scriptBcp47 ->
  M_plain_tag iterL iterS pt = M_plain_tag gtab_langBcp47 gtab_scriptBcp47 pt.
Proof.
  intros PL PS. pose proof plain_check_true as H. unfold plain_check in H.
  rewrite !andb_true_iff in H. destruct H as [[[H1 H2] H3] H4].
  unfold M_plain_tag, M_plain_tag_gen. rewrite H1, H2. unfold M_plain_search.
  destruct (pt_special pt =? 1); [reflexivity|]. destruct (pt_special pt =? 2); [reflexivity|].
  destruct (pt_special pt =? 3); [reflexivity|].
  f_equal; apply search_min_perm; auto; intros k v Hin.
  - apply (keys_nonempty _ H4 k v). eapply Permutation_in; [exact PS|exact Hin].
  - apply (keys_nonempty _ H3 k v). eapply Permutation_in; [exact PL|exact Hin].
Qed.

Lemma sl_plain_function_lemma iterL iterS info :
  Permutation iterL gtab_langBcp47 -> Permutation iterS gtab_scriptBcp47 ->
  M_sl_info_encode_g iterL iterS info = M_sl_info_encode_g gtab_langBcp47 gtab_scriptBcp47 info.
Proof.
  intros PL PS. unfold M_sl_info_encode_g. f_equal.
  induction info as [|[t f] r IH]; cbn [M_sl_group_g]; [reflexivity|].
  assert (E : M_bcp47ToOtf iterL iterS t = M_bcp47ToOtf gtab_langBcp47 gtab_scriptBcp47 t).
  { destruct t as [ext|pt]; cbn [M_bcp47ToOtf]; [reflexivity|]. now rewrite plain_tag_function_lemma. }
  rewrite E, IH. reflexivity.
Qed.
