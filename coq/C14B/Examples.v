(* C14B/Examples.v — non-vacuity: concrete values meeting every hypothesis of
   every theorem of Props.v, the model evaluated on them inside Coq, and the
   _refuted witnesses. *)
From Coq Require Import List NArith Bool Arith Lia Permutation.
From Common Require Import Bytes Outcome.
From Gen Require Import C14 C14B.
From C14 Require Import Model ModelTags Proofs_name2 Proofs_tags.
From C14B Require Import Model Proofs_table Proofs_info Proofs_dec Proofs_name5 Proofs_check.
Import ListNotations.
Local Open Scope N_scope.

(* ------------------------------------------------------------------ *)
(* name.Table                                                          *)

Definition s_Foo : list N := [70; 111; 111].
(* Family "Foo"; Extra: 15 (an id of the standard range without a field),
   26 and 255 (reserved range), 256, 65535 *)
Definition ex_t : stable :=
  conc_table [(1, s_Foo); (300, [120]); (26, [114]); (15, [116]); (255, [113]); (256, [112]); (65535, [122])].

Example ex_t_value :
  st_extra ex_t = Some [(15, [116]); (26, [114]); (255, [113]); (256, [112]); (300, [120]); (65535, [122])] /\
  nth 1 (st_fields ex_t) [] = s_Foo /\ wf_stable ex_t = true /\ clean_table ex_t = true.
Proof. vm_compute. repeat split; reflexivity. Qed.

(* keys: every id class, once, ascending *)
Example ex_t_keys : M_keys ex_t = [1; 15; 26; 255; 256; 300; 65535].
Proof. vm_compute. reflexivity. Qed.

(* whatever the order in which `range t.Extra` visits the map *)
Example ex_t_keys_iter :
  M_keys_iter ex_t [(65535, [122]); (26, [114]); (300, [120]); (15, [116]); (256, [112]); (255, [113])] =
  M_keys ex_t.
Proof. vm_compute. reflexivity. Qed.

(* get / set: a named field, the field-less id 15, ids beyond maxID; an
   overwritten and an erased string *)
Example ex_get_set :
  M_get ex_t 1 = s_Foo /\ M_get ex_t 15 = [116] /\ M_get ex_t 2 = [] /\ M_get ex_t 1000 = [] /\
  M_get (M_set ex_t 26 [65]) 26 = [65] /\ M_keys (M_set ex_t 26 []) = [1; 15; 255; 256; 300; 65535] /\
  M_get (M_set empty_table 25 [65]) 25 = [65] /\ st_extra (M_set empty_table 25 [65]) = None /\
  st_extra (M_set empty_table 15 [65]) = Some [(15, [65])].
Proof. vm_compute. repeat split; reflexivity. Qed.

(* the variant of keys() that lists Extra ids from 256 on only (seed C14-h)
   misses ids 26..255: keys_complete fails for it *)
Lemma keys_from_256_refuted :
  exists t, wf_stable t = true /\ M_get t 26 <> [] /\ M_get t 255 <> [] /\
            ~ In 26 (M_keys_gen name_keys_loop_last 256 t
                       (match st_extra t with Some m => m | None => [] end)) /\
            ~ In 255 (M_keys_gen name_keys_loop_last 256 t
                        (match st_extra t with Some m => m | None => [] end)).
Proof.
  exists ex_t. split; [vm_compute; reflexivity|]. split; [vm_compute; discriminate|].
  split; [vm_compute; discriminate|].
  split; vm_compute; intros H; repeat (destruct H as [H|H]; [discriminate|]); exact H.
Qed.

(* an Extra entry under an id that has a field of its own: get reads the
   field, keys never lists the entry *)
Definition t_coll : stable :=
  mk_stable (st_fields (M_set empty_table 2 [66])) (Some [(1, [120]); (300, [121])]).
Example ex_coll :
  wf_stable t_coll = true /\ clean_table t_coll = false /\
  M_get t_coll 1 = [] /\ M_keys t_coll = [2; 300] /\
  norm_table t_coll = Some (mk_stable (st_fields t_coll) (Some [(300, [121])])).
Proof. vm_compute. repeat split; reflexivity. Qed.

(* ------------------------------------------------------------------ *)
(* name.Info                                                           *)

Definition tag_en : list N := [101; 110].
Definition tag_mo : list N := [109; 111].
Definition tag_enUS : list N := [101; 110; 45; 85; 83].
Definition tag_srCyrl : list N := [115; 114; 45; 67; 121; 114; 108; 45; 67; 83].      (* "sr-Cyrl-CS" *)

Definition ex_sinfo : sinfo :=
  mk_sinfo [(tag_en, Some ex_t); (tag_mo, Some (M_set empty_table 4 [196; 8364]))]
           [(tag_enUS, Some (M_set ex_t 2 [128512; 65])); (tag_srCyrl, Some (M_set empty_table 1 [1046]))].

Example ex_sinfo_ok : sinfo_okb ex_sinfo = true /\ clean_sinfob ex_sinfo = true.
Proof. vm_compute. split; reflexivity. Qed.

Example ex_sinfo_hyps :
  wf_sinfo ex_sinfo /\ representable ex_sinfo /\ clean_sinfo ex_sinfo /\
  6 + 12 * name_num_records name_appleBCP name_msBCP 1 (abs_info ex_sinfo) <= 65535 /\
  name_storage_len name_appleBCP name_msBCP 1 (abs_info ex_sinfo) <= 65535.
Proof.
  destruct (sinfo_okb_spec ex_sinfo (proj1 ex_sinfo_ok)) as [H1 H2].
  split; [exact H1|]. split; [exact H2|]. split; [apply clean_sinfob_spec, ex_sinfo_ok|].
  split; apply N.leb_le; vm_compute; reflexivity.
Qed.

(* 17 records: 7 + 1 Macintosh, 8 + 1 Windows; "mo" is written under language id 53 *)
Example ex_sinfo_records :
  map rec_key (S_name_records name_appleBCP name_msBCP 1 ex_sinfo) =
  [(1, 0, 1); (1, 0, 15); (1, 0, 26); (1, 0, 255); (1, 0, 256); (1, 0, 300); (1, 0, 65535); (1, 53, 4);
   (3, 1033, 1); (3, 1033, 2); (3, 1033, 15); (3, 1033, 26); (3, 1033, 255); (3, 1033, 256);
   (3, 1033, 300); (3, 1033, 65535); (3, 3098, 1)].
Proof. vm_compute. reflexivity. Qed.

Example ex_sinfo_roundtrip :
  S_name_decode (S_name_encode name_appleBCP name_msBCP 1 ex_sinfo) = Ok ex_sinfo /\
  S_name_decode (S_name_encode (rev name_appleBCP) (rev name_msBCP) 1 ex_sinfo) = Ok ex_sinfo.
Proof. vm_compute. split; reflexivity. Qed.

(* the struct-level encoder is C14's on the abstraction *)
Example ex_sinfo_abs :
  S_name_encode name_appleBCP name_msBCP 1 ex_sinfo =
  M_name_encode name_appleBCP name_msBCP 1 (abs_info ex_sinfo).
Proof. vm_compute. reflexivity. Qed.

(* nil pointers and tables without any non-empty string write nothing and are
   not found after Decode *)
Example ex_nil_and_empty :
  S_name_decode (S_name_encode name_appleBCP name_msBCP 1
                   (mk_sinfo [(tag_en, None); (tag_mo, Some empty_table)]
                             [(tag_enUS, Some (M_set empty_table 300 []))])) = Ok (mk_sinfo [] []).
Proof. vm_compute. reflexivity. Qed.

(* What is lost, 1: a table under a key that is not one of the platform's
   language strings (exact string match: "en-us" is not "en-US", "ro-MD" is
   not "mo", a Windows string is not a Macintosh string) *)
Definition tag_enus_lower : list N := [101; 110; 45; 117; 115].
Definition tag_roMD : list N := [114; 111; 45; 77; 68].
Definition unsupported_info : sinfo :=
  mk_sinfo [(tag_roMD, Some ex_t); (tag_enUS, Some ex_t)] [(tag_enus_lower, Some ex_t); (tag_en, Some ex_t)].
Lemma unsupported_key_refuted :
  sinfo_okb unsupported_info = true /\
  stabs_okb mac_repertoire (s_mac unsupported_info) = true /\
  clean_table ex_t = true /\
  supported name_appleBCP tag_roMD = false /\ supported name_appleBCP tag_enUS = false /\
  supported name_msBCP tag_enus_lower = false /\ supported name_msBCP tag_en = false /\
  S_name_decode (S_name_encode name_appleBCP name_msBCP 1 unsupported_info) = Ok (mk_sinfo [] []).
Proof. vm_compute. repeat split; reflexivity. Qed.

(* What is lost, 2: an Extra entry under an id that is also a named field *)
Definition coll_info : sinfo := mk_sinfo [] [(tag_enUS, Some t_coll)].
Lemma extra_collision_refuted :
  sinfo_okb coll_info = true /\ clean_sinfob coll_info = false /\
  match S_name_decode (S_name_encode name_appleBCP name_msBCP 1 coll_info) with
  | Ok out => match stabs_find (s_win out) tag_enUS with
              | Some t => (match st_extra t with Some [(300, [121])] => true | _ => false end) &&
                          nonempty (emap_get (st_extra t_coll) 1) && negb (nonempty (emap_get (st_extra t) 1))
              | None => false
              end
  | _ => false
  end = true.
Proof. vm_compute. repeat split; reflexivity. Qed.

(* What is lost, 3: a Macintosh string outside Mac Roman comes back as "?" *)
Definition nonroman_info : sinfo := mk_sinfo [(tag_en, Some (M_set empty_table 1 [20013; 65]))] [].
Lemma mac_not_representable_refuted :
  stabs_okb mac_repertoire (s_mac nonroman_info) = false /\
  clean_sinfob nonroman_info = true /\
  S_name_decode (S_name_encode name_appleBCP name_msBCP 1 nonroman_info) =
    Ok (mk_sinfo [(tag_en, Some (M_set empty_table 1 [63; 65]))] []).
Proof. vm_compute. repeat split; reflexivity. Qed.

(* ------------------------------------------------------------------ *)
(* every built-in language string, both platforms (finite: the regenerated
   tables, 118 Macintosh and 205 Windows strings at the time of writing): a
   table stored under the string is written under its language id and comes
   back under the same string *)
Definition sample_table (lang : N) : stable :=
  M_set (M_set (M_set empty_table 1 s_Foo) 26 [65 + lang mod 26]) 300 [97].

Definition verbatim_check (mac : bool) (e : N * list N) : bool :=
  let t := sample_table (fst e) in
  let inf := if mac then mk_sinfo [(snd e, Some t)] [] else mk_sinfo [] [(snd e, Some t)] in
  forallb (fun r => (r_plat r =? (if mac then 1 else 3)) && (r_lang r =? fst e))
          (S_name_records name_appleBCP name_msBCP 1 inf) &&
  (length (S_name_records name_appleBCP name_msBCP 1 inf) =? 3)%nat &&
  match S_name_decode (S_name_encode name_appleBCP name_msBCP 1 inf) with
  | Ok out =>
      let tt := if mac then s_mac out else s_win out in
      let other := if mac then s_win out else s_mac out in
      match tt, other with
      | [(tag, Some t')], [] =>
          list_eqb tag (snd e) && list_eqb (M_keys t') (M_keys t) &&
          forallb (fun id => list_eqb (M_get t' id) (M_get t id)) (M_keys t) && clean_table t'
      | _, _ => false
      end
  | _ => false
  end.

Lemma language_keys_verbatim_all :
  forallb (verbatim_check true) name_appleBCP && forallb (verbatim_check false) name_msBCP = true /\
  existsb (fun e => (fst e =? 53) && list_eqb (snd e) tag_mo) name_appleBCP = true.
Proof. vm_compute. split; reflexivity. Qed.
