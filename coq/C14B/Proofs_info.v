(* C14B/Proofs_info.v — Info.Encode's enumeration and Info.Decode at the
   struct level; composition with C14's byte-level round trip. *)
From Coq Require Import List NArith Bool Arith Lia Permutation.
From Coq Require Import ZifyBool ZifyNat ZifyN.
From Common Require Import Bytes Outcome.
From Gen Require Import C14 C14B.
From C14 Require Import Model Proofs_codecs Proofs_name1 Proofs_name2 Proofs_name3 Proofs_name4.
From C14B Require Import Model Proofs_table.
Import ListNotations.
Local Open Scope N_scope.

(* C14's [supported] and ours are the same function *)
Lemma supported_same tbl tag : Proofs_name2.supported tbl tag = Model.supported tbl tag.
Proof. reflexivity. Qed.

(* ------------------------------------------------------------------ *)
(* Encode: the struct-level enumeration is C14's on the abstraction    *)

Definition wf_stabs (tt : list (list N * option stable)) : Prop :=
  forall tag t, stabs_find tt tag = Some t -> wf t.
Definition wf_sinfo (inf : sinfo) : Prop := wf_stabs (s_mac inf) /\ wf_stabs (s_win inf).

Lemma s_gen_table_eq plat enc lang codec t ids : forall nb,
  s_gen_table plat enc lang codec t ids nb =
  gen_table plat enc lang codec (map (fun id => (id, M_get t id)) ids) nb.
Proof.
  induction ids as [|id r IH]; intros nb; cbn [s_gen_table gen_table map]; [reflexivity|].
  destruct (nb_add nb (codec (M_get t id))) as [nb1 [o l]]. now rewrite IH.
Qed.

Lemma lookup_abs_tabs tag tt :
  lookupB tag (abs_tabs tt) =
  match lookupB tag tt with
  | Some (Some t) => Some (abs_table t)
  | Some None => Some []
  | None => None
  end.
Proof.
  induction tt as [|[g ot] r IH]; cbn [abs_tabs map lookupB fst snd]; [reflexivity|].
  destruct (list_eqb g tag); [destruct ot; reflexivity|exact IH].
Qed.

Lemma s_gen_langs_eq tt plat enc codec order : wf_stabs tt -> forall nb,
  s_gen_langs order tt plat enc codec nb = gen_langs order (abs_tabs tt) plat enc codec nb.
Proof.
  intros Hwf. induction order as [|[lang tag] o IH]; intros nb; cbn [s_gen_langs gen_langs]; [reflexivity|].
  rewrite lookup_abs_tabs. pose proof (Hwf tag) as Hw. unfold stabs_find in *.
  destruct (lookupB tag tt) as [[t|]|].
  - rewrite (c14_keys_abs t (Hw t eq_refl)). unfold abs_table at 1. rewrite <- s_gen_table_eq.
    destruct (s_gen_table plat enc lang codec t (M_keys t) nb) as [nb1 rs1]. now rewrite IH.
  - cbn [keys filter isort gen_table]. rewrite IH.
    destruct (gen_langs o (abs_tabs tt) plat enc codec nb) as [nb2 rs2]. reflexivity.
  - apply IH.
Qed.

Lemma S_name_gen_eq om ow weid inf : wf_sinfo inf ->
  S_name_gen om ow weid inf = name_gen om ow weid (abs_info inf).
Proof.
  intros [Hm Hw]. unfold S_name_gen, name_gen, abs_info. cbn [i_mac i_win].
  rewrite s_gen_langs_eq by exact Hm.
  destruct (gen_langs om (abs_tabs (s_mac inf)) 1 0 M_mac_encode nb_empty) as [nb1 r1].
  now rewrite s_gen_langs_eq by exact Hw.
Qed.

Lemma S_name_encode_eq om ow weid inf : wf_sinfo inf ->
  S_name_encode om ow weid inf = M_name_encode om ow weid (abs_info inf).
Proof. intros H. unfold S_name_encode, M_name_encode. now rewrite S_name_gen_eq. Qed.

(* ------------------------------------------------------------------ *)
(* which records are written                                           *)

Definition expected_keys (order : list (N * list N)) (tt : list (list N * option stable)) (plat : N)
  : list (N * N * N) :=
  flat_map (fun p => match stabs_find tt (snd p) with
                     | Some t => map (fun id => (plat, fst p, id)) (M_keys t)
                     | None => []
                     end) order.

Lemma s_gen_table_keys plat enc lang codec t ids : forall nb,
  map rec_key (snd (s_gen_table plat enc lang codec t ids nb)) = map (fun id => (plat, lang, id)) ids.
Proof.
  induction ids as [|id r IH]; intros nb; cbn [s_gen_table map snd]; [reflexivity|].
  destruct (nb_add nb (codec (M_get t id))) as [nb1 [o l]].
  specialize (IH nb1). destruct (s_gen_table plat enc lang codec t r nb1) as [nb2 rs].
  cbn [snd map] in *. now rewrite IH.
Qed.

Lemma s_gen_langs_keys tt plat enc codec order : forall nb,
  map rec_key (snd (s_gen_langs order tt plat enc codec nb)) = expected_keys order tt plat.
Proof.
  induction order as [|[lang tag] o IH]; intros nb; cbn [s_gen_langs expected_keys flat_map fst snd];
    [reflexivity|].
  destruct (stabs_find tt tag) as [t|].
  - pose proof (s_gen_table_keys plat enc lang codec t (M_keys t) nb) as H1.
    destruct (s_gen_table plat enc lang codec t (M_keys t) nb) as [nb1 rs1].
    specialize (IH nb1). destruct (s_gen_langs o tt plat enc codec nb1) as [nb2 rs2].
    cbn [snd] in *. rewrite map_app, H1, IH. reflexivity.
  - apply IH.
Qed.

Lemma S_name_gen_keys om ow weid inf :
  map rec_key (snd (S_name_gen om ow weid inf)) =
  expected_keys om (s_mac inf) 1 ++ expected_keys ow (s_win inf) 3.
Proof.
  unfold S_name_gen.
  pose proof (s_gen_langs_keys (s_mac inf) 1 0 M_mac_encode om nb_empty) as H1.
  destruct (s_gen_langs om (s_mac inf) 1 0 M_mac_encode nb_empty) as [nb1 r1].
  pose proof (s_gen_langs_keys (s_win inf) 3 weid M_utf16_encode ow nb1) as H2.
  destruct (s_gen_langs ow (s_win inf) 3 weid M_utf16_encode nb1) as [nb2 r2].
  cbn [snd] in *. now rewrite map_app, H1, H2.
Qed.

Lemma expected_keys_in order tt plat p l i : wf_stabs tt ->
  (In (p, l, i) (expected_keys order tt plat) <->
   p = plat /\ exists tag t, In (l, tag) order /\ stabs_find tt tag = Some t /\ M_get t i <> []).
Proof.
  intros Hwf. unfold expected_keys. rewrite in_flat_map. split.
  - intros [[lang tag] [Hin H]]. cbn [fst snd] in H.
    destruct (stabs_find tt tag) as [t|] eqn:E; [|destruct H].
    apply in_map_iff in H. destruct H as [id [Eq Hid]]. injection Eq as <- <- <-.
    split; [reflexivity|]. exists tag, t. repeat split; auto. now apply keys_in; [apply (Hwf tag)|].
  - intros [-> (tag & t & Hin & Hf & Hg)]. exists (l, tag). split; [exact Hin|]. cbn [fst snd].
    rewrite Hf. apply in_map_iff. exists i. split; [reflexivity|]. now apply keys_in; [apply (Hwf tag)|].
Qed.

Lemma nodup_app {A} (a b : list A) :
  NoDup a -> NoDup b -> (forall x, In x a -> In x b -> False) -> NoDup (a ++ b).
Proof.
  induction a as [|x a IH]; intros Ha Hb Hd; cbn [app]; [exact Hb|].
  inversion Ha as [|? ? Hni Ha']; subst. constructor.
  - intros Hin. apply in_app_or in Hin. destruct Hin as [Hin|Hin]; [now apply Hni|].
    apply (Hd x); [now left|exact Hin].
  - apply IH; auto. intros y Hy1 Hy2. apply (Hd y); [now right|exact Hy2].
Qed.

Lemma expected_keys_nodup order tt plat : wf_stabs tt -> NoDup (map fst order) ->
  NoDup (expected_keys order tt plat).
Proof.
  intros Hwf. induction order as [|[lang tag] o IH]; intros Hnd; cbn [expected_keys flat_map fst snd];
    [constructor|].
  cbn [map fst] in Hnd. inversion Hnd as [|? ? Hni Hnd']; subst.
  fold (expected_keys o tt plat).
  assert (Hrest : forall k, In k (expected_keys o tt plat) -> snd (fst k) <> lang).
  { intros [[p l] i] Hk. apply (expected_keys_in o tt plat p l i Hwf) in Hk.
    destruct Hk as [_ (tag' & t' & Hin & _)]. cbn [fst snd]. intros ->. apply Hni.
    change lang with (fst (lang, tag')). now apply in_map. }
  destruct (stabs_find tt tag) as [t|] eqn:E; [|now apply IH].
  apply nodup_app; [| now apply IH |].
  - apply FinFun.Injective_map_NoDup; [intros a b H; now injection H|].
    apply asc_nodup, keys_asc. now apply (Hwf tag).
  - intros k Hk1 Hk2. apply in_map_iff in Hk1. destruct Hk1 as [id [<- _]].
    apply (Hrest _ Hk2). reflexivity.
Qed.
