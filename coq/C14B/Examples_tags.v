(* C14B/Examples_tags.v — non-vacuity and _refuted witnesses for the tag
   conversion and the script list. *)
From Coq Require Import List NArith Bool Arith Lia Permutation.
From Common Require Import Bytes Outcome.
From Gen Require Import C14.
From C14 Require Import Model ModelTags Proofs_tags.
From C08 Require Import Model ModelSub ModelSL.
From C14B Require Import ModelTags2 Proofs_tags2 Proofs_sl2.
Import ListNotations.
Local Open Scope N_scope.

Definition t_HO : list N := [72; 79; 32; 32].        (* "HO  " *)
Definition t_WA : list N := [87; 65; 32; 32].        (* "WA  " *)
Definition t_DEU : list N := [68; 69; 85; 32].       (* "DEU " *)
Definition t_TRK : list N := [84; 82; 75; 32].       (* "TRK " *)
Definition t_deva : list N := [100; 101; 118; 97].   (* "deva" *)
Definition t_latn : list N := [108; 97; 116; 110].   (* "latn" *)
Definition t_yi : list N := [121; 105; 32; 32].      (* "yi  " *)
Definition t_lao : list N := [108; 97; 111; 32].     (* "lao " *)

(* the hypothesis about x/text is satisfiable by a function that, like
   x/text, rejects ill-formed private-use parts *)
Example ex_xtext : xtext_spec xtext_strict.
Proof. exact xtext_strict_meets_spec. Qed.

(* tags padded with 0, 1 and 2 spaces, the default script and the default
   language system; the string given to language.Parse for ("deva", "HO  ") is
   "hoc-Deva-x-deva-HO" *)
Example ex_there_and_back :
  M_otf_tag_string t_deva t_HO = Some ([104; 111; 99; 45; 68; 101; 118; 97], [100; 101; 118; 97; 45; 72; 79]) /\
  M_otf_there_and_back xtext_strict t_deva t_HO = Some (t_deva, t_HO) /\
  M_otf_there_and_back xtext_strict t_yi t_WA = Some (t_yi, t_WA) /\
  M_otf_there_and_back xtext_strict t_lao t_DEU = Some (t_lao, t_DEU) /\
  M_otf_there_and_back xtext_strict t_yi [] = Some (t_yi, []) /\
  M_otf_there_and_back xtext_strict tag_DFLT [] = Some (tag_DFLT, []) /\
  M_otf_there_and_back xtext_strict tag_DFLT t_DEU = Some (tag_DFLT, t_DEU).
Proof. vm_compute. repeat split; reflexivity. Qed.

(* shapes: a tag of one letter and three spaces is handled too (none of the
   built-in tags is padded with three spaces) *)
Example ex_shapes :
  script_shape t_yi = true /\ script_shape [113; 32; 32; 32] = true /\ script_shape tag_DFLT = true /\
  lang_shape t_HO = true /\ lang_shape [81; 32; 32; 32] = true /\ lang_shape [] = true /\
  M_from_ext ([120; 45] ++ lower (private_part [113; 32; 32; 32] [81; 32; 32; 32])) =
    Some ([113; 32; 32; 32], [81; 32; 32; 32]).
Proof. vm_compute. repeat split; reflexivity. Qed.

(* how the built-in tags are padded: (no space, one, two, three) *)
Example ex_padding_census :
  map (fun k => length (filter (fun s => Nat.eqb (padding s) k) builtin_scripts)) [0; 1; 2; 3]%nat =
    [163; 3; 1; 0]%nat /\
  filter (fun s => Nat.eqb (padding s) 2) builtin_scripts = [t_yi] /\
  filter (fun s => Nat.eqb (padding s) 2) (map fst gtab_langBcp47) = [t_HO; t_WA].
Proof. vm_compute. repeat split; reflexivity. Qed.

(* outside the shapes the round trip fails: the script "dflt" comes back as
   "DFLT", a language tag with lower-case letters comes back in upper case *)
Lemma shape_needed_refuted :
  script_shape tag_dflt = false /\
  M_from_ext ([120; 45] ++ lower (private_part tag_dflt [])) = Some (tag_DFLT, []) /\
  lang_shape [100; 101; 117; 32] = false /\
  M_from_ext ([120; 45] ++ lower (private_part t_latn [100; 101; 117; 32])) = Some (t_latn, t_DEU).
Proof. vm_compute. repeat split; reflexivity. Qed.

(* unknown script, unknown language: otfToBCP47 reports an error *)
Example ex_unknown :
  M_otf_tag_string [122; 122; 122; 122] [] = None /\ M_otf_tag_string t_latn [81; 81; 81; 81] = None /\
  conv_ok xtext_strict [122; 122; 122; 122] [] = false.
Proof. vm_compute. repeat split; reflexivity. Qed.

(* trimming one trailing space only (strings.TrimSuffix, seed C08-j): for
   "HO  " and "WA  " the private-use part keeps a space, which is outside what
   the hypothesis on x/text covers, and a parser that rejects it (as x/text
   does) makes the conversion fail *)
Lemma trim_one_space_refuted :
  private_part_trim1 t_deva t_HO = [100; 101; 118; 97; 45; 72; 79; 32] /\
  priv_ok (private_part_trim1 t_deva t_HO) = false /\
  priv_ok (private_part_trim1 t_latn t_WA) = false /\
  xtext_strict (full_tag ([104; 111; 99; 45; 68; 101; 118; 97], private_part_trim1 t_deva t_HO)) = None /\
  (* one-space tags are not affected *)
  private_part_trim1 t_latn t_DEU = private_part t_latn t_DEU.
Proof. vm_compute. repeat split; reflexivity. Qed.

(* ------------------------------------------------------------------ *)
(* script list                                                         *)

(* a default language system, a language system EQUAL to it, a different
   one, and a two-letter language tag *)
Definition ex_asg : list ((list N * list N) * langsys) :=
  [((t_latn, t_DEU), (65535, [0; 1])); ((t_latn, []), (65535, [0; 1]));
   ((t_deva, t_HO), (3, [2])); ((t_latn, t_TRK), (65535, [0; 1; 2]))].
Definition ext_of (a : (list N * list N) * langsys) : xitem :=
  match M_otf_to_ext xtext_strict (fst (fst a)) (snd (fst a)) with
  | Some e => (e, snd a)
  | None => ([], snd a)
  end.
Definition ex_xinfo : list xitem := map ext_of ex_asg.

Example ex_xinfo_value :
  map fst ex_xinfo =
  [[120; 45; 108; 97; 116; 110; 45; 100; 101; 117]; [120; 45; 108; 97; 116; 110];
   [120; 45; 100; 101; 118; 97; 45; 104; 111]; [120; 45; 108; 97; 116; 110; 45; 116; 114; 107]].
Proof. vm_compute. reflexivity. Qed.

Example ex_asg_hyps :
  NoDup (map fst ex_asg) /\ Forall builtin_asg ex_asg /\ asg_work ex_asg <= maxWork /\
  info_of xtext_strict ex_asg ex_xinfo.
Proof.
  split; [|split; [|split]].
  - repeat constructor; cbn; intuition discriminate.
  - apply Forall_forall. intros a Ha. apply builtin_asgb_spec.
    repeat (destruct Ha as [<-|Ha]; [vm_compute; reflexivity|]). destruct Ha.
  - vm_compute. discriminate.
  - repeat constructor.
Qed.

Example ex_group :
  M_sl_group ex_xinfo =
  [(t_deva, None, [(t_HO, (3, [2]))]);
   (t_latn, Some (65535, [0; 1]), [(t_DEU, (65535, [0; 1])); (t_TRK, (65535, [0; 1; 2]))])].
Proof. vm_compute. reflexivity. Qed.

Example ex_sl_roundtrip :
  match M_sl_info_encode ex_xinfo with
  | Ok b => omap canon_asg (M_sl_info_read xtext_strict b)
  | _ => Err
  end = Ok [((t_deva, t_HO), (3, [2])); ((t_latn, []), (65535, [0; 1]));
            ((t_latn, t_DEU), (65535, [0; 1])); ((t_latn, t_TRK), (65535, [0; 1; 2]))].
Proof. vm_compute. reflexivity. Qed.

(* the encoder that does not write language systems equal to the script's
   default (seed C14-i) loses "DEU " *)
Lemma drop_equal_default_refuted :
  match M_sl_info_encode_dropdefault ex_xinfo with
  | Ok b => omap canon_asg (M_sl_info_read xtext_strict b)
  | _ => Err
  end = Ok [((t_deva, t_HO), (3, [2])); ((t_latn, []), (65535, [0; 1]));
            ((t_latn, t_TRK), (65535, [0; 1; 2]))].
Proof. vm_compute. reflexivity. Qed.

(* a tag that does not convert is skipped by the reader, the others are kept:
   script "zzzz" next to "latn" *)
Example ex_skip_unknown :
  match M_sl_encode [(t_latn, Some (1, [2]), []); ([122; 122; 122; 122], Some (3, [4]), [(t_DEU, (5, []))])] with
  | Ok b => M_sl_info_read xtext_strict b
  | _ => Err
  end = Ok [((t_latn, []), (1, [2]))].
Proof. vm_compute. reflexivity. Qed.

(* ------------------------------------------------------------------ *)
(* tags without an x extension                                         *)
From C14B Require Import Proofs_plain.

Definition pt_bnBeng : ptag := mk_ptag 0 [98; 110] [66; 101; 110; 103].      (* bn-Beng *)
Definition pt_mlMlym : ptag := mk_ptag 0 [109; 108] [77; 108; 121; 109].     (* ml-Mlym *)
Definition t_beng : list N := [98; 101; 110; 103].
Definition t_bng2 : list N := [98; 110; 103; 50].

(* the smallest matching OpenType tags, whatever the order; the Chinese
   special cases; a language and a script the tables do not know *)
Example ex_plain :
  M_plain_tag gtab_langBcp47 gtab_scriptBcp47 pt_bnBeng = (t_beng, [66; 69; 78; 32]) /\
  M_plain_tag (rev gtab_langBcp47) (rev gtab_scriptBcp47) pt_bnBeng = (t_beng, [66; 69; 78; 32]) /\
  M_plain_tag (rev gtab_langBcp47) gtab_scriptBcp47 pt_mlMlym = ([109; 108; 109; 50], [77; 65; 76; 32]) /\
  M_plain_tag gtab_langBcp47 gtab_scriptBcp47 (mk_ptag 2 [122; 104] [72; 97; 110; 115]) = (tag_hani, [90; 72; 83; 32]) /\
  M_plain_tag gtab_langBcp47 gtab_scriptBcp47 (mk_ptag 0 [113; 113; 113] [81; 113; 113; 113]) = ([], []).
Proof. vm_compute. repeat split; reflexivity. Qed.

(* as found (stop at the first match): two iteration orders of the script
   table, two answers for bn-Beng - "beng" and "bng2" *)
Lemma plain_tag_as_found_refuted :
  Permutation (rev gtab_scriptBcp47) gtab_scriptBcp47 /\
  M_plain_tag_gen false false gtab_langBcp47 gtab_scriptBcp47 pt_bnBeng = (t_beng, [66; 69; 78; 32]) /\
  M_plain_tag_gen false false gtab_langBcp47 (rev gtab_scriptBcp47) pt_bnBeng = (t_bng2, [66; 69; 78; 32]).
Proof. split; [symmetry; apply Permutation_rev|]. vm_compute. split; reflexivity. Qed.

(* a script list keyed by plain tags: the bytes do not depend on the order of the tables *)
Definition ex_plain_info : list (gtag * langsys) :=
  [(PTag pt_bnBeng, (65535, [0; 1])); (PTag pt_mlMlym, (2, [3])); (XTag [120; 45; 108; 97; 116; 110], (65535, [4]))].
Example ex_plain_encode :
  M_sl_info_encode_g (rev gtab_langBcp47) (rev gtab_scriptBcp47) ex_plain_info =
  M_sl_info_encode_g gtab_langBcp47 gtab_scriptBcp47 ex_plain_info /\
  M_sl_group_g gtab_langBcp47 gtab_scriptBcp47 ex_plain_info =
  [(t_beng, None, [([66; 69; 78; 32], (65535, [0; 1]))]); (t_latn, Some (65535, [4]), []);
   ([109; 108; 109; 50], None, [([77; 65; 76; 32], (2, [3]))])].
Proof. vm_compute. split; reflexivity. Qed.
