(* C14B/Proofs_check.v — boolean forms of the hypotheses of the name-table
   theorems (so that they can be established by computation on concrete
   values, as Examples.v does). *)
From Coq Require Import List NArith Bool Arith Lia Permutation.
From Coq Require Import ZifyBool ZifyNat ZifyN.
From Common Require Import Bytes Outcome.
From Gen Require Import C14 C14B.
From C14 Require Import Model Proofs_codecs Proofs_post Proofs_name1 Proofs_name2 Proofs_name3.
From C14B Require Import Model Proofs_table Proofs_info Proofs_dec Proofs_name5.
Import ListNotations.
Local Open Scope N_scope.

Definition table_strings_okb (ok : N -> bool) (t : stable) : bool :=
  forallb (fun id => (id <? 65536) && forallb ok (M_get t id)) (M_keys t).
Definition stabs_okb (ok : N -> bool) (tt : list (list N * option stable)) : bool :=
  forallb (fun e => match snd e with
                    | Some t => wf_stable t && table_strings_okb ok t
                    | None => true
                    end) tt.
Definition sinfo_okb (inf : sinfo) : bool :=
  stabs_okb mac_repertoire (s_mac inf) && stabs_okb is_scalar (s_win inf).

Lemma lookupB_in' {V} k (l : list (list N * V)) v : lookupB k l = Some v -> exists k', In (k', v) l.
Proof.
  induction l as [|[k' v'] r IH]; cbn [lookupB]; [discriminate|].
  destruct (list_eqb k' k).
  - intros H. injection H as <-. exists k'. now left.
  - intros H. destruct (IH H) as [k2 H2]. exists k2. now right.
Qed.

Lemma stabs_okb_spec ok tt : stabs_okb ok tt = true -> wf_stabs tt /\ strings_ok ok tt.
Proof.
  unfold stabs_okb. rewrite forallb_forall. intros H.
  assert (G : forall tag t, stabs_find tt tag = Some t -> wf t /\ table_strings_okb ok t = true).
  { intros tag t Hf. unfold stabs_find in Hf. destruct (lookupB tag tt) as [[t'|]|] eqn:E; try discriminate.
    injection Hf as <-. destruct (lookupB_in' _ _ _ E) as [k Hin]. specialize (H _ Hin). cbn [snd] in H.
    now apply andb_true_iff in H. }
  split.
  - intros tag t Hf. now apply (G tag).
  - intros tag t Hf id Hne. destruct (G tag t Hf) as [Hw Hs].
    unfold table_strings_okb in Hs. rewrite forallb_forall in Hs.
    apply (keys_in t id Hw) in Hne. specialize (Hs id Hne). apply andb_true_iff in Hs. split; [lia|tauto].
Qed.

Lemma sinfo_okb_spec inf : sinfo_okb inf = true -> wf_sinfo inf /\ representable inf.
Proof.
  unfold sinfo_okb. rewrite andb_true_iff. intros [H1 H2].
  apply stabs_okb_spec in H1, H2. unfold wf_sinfo, representable. tauto.
Qed.

Definition clean_stabsb (tbl : list (N * list N)) (tt : list (list N * option stable)) : bool :=
  forallb (fun e => supported tbl (fst e) &&
                    match snd e with
                    | Some t => clean_table t && nonempty (M_keys t)
                    | None => false
                    end) tt.
Definition clean_sinfob (inf : sinfo) : bool :=
  clean_stabsb name_appleBCP (s_mac inf) && clean_stabsb name_msBCP (s_win inf).

Lemma clean_stabsb_spec tbl tt : clean_stabsb tbl tt = true -> clean_stabs tbl tt.
Proof.
  unfold clean_stabsb. rewrite forallb_forall. intros H tag ot Hl.
  pose proof (lookupB_in _ _ _ Hl) as Hin. specialize (H _ Hin). cbn [fst snd] in H.
  apply andb_true_iff in H. destruct H as [H1 H2]. split; [exact H1|].
  destruct ot as [t|]; [|discriminate]. apply andb_true_iff in H2. destruct H2 as [H2 H3].
  exists t. split; [reflexivity|]. split; [exact H2|now apply nonempty_true].
Qed.

Lemma clean_sinfob_spec inf : clean_sinfob inf = true -> clean_sinfo inf.
Proof.
  unfold clean_sinfob. rewrite andb_true_iff. intros [H1 H2]. split; now apply clean_stabsb_spec.
Qed.
