(* C14B/Proofs_tags2.v — otfToBCP47 / bcp47ToOtf as string functions: the
   round trip for every tag of the stated shapes, and the shapes of the
   built-in tables. *)
From Coq Require Import List NArith Bool Arith Lia.
From Coq Require Import ZifyBool ZifyNat ZifyN.
From Common Require Import Bytes Outcome.
From Gen Require Import C14.
From C14 Require Import Model ModelTags Proofs_post Proofs_name2 Proofs_tags.
From C14B Require Import ModelTags2.
Import ListNotations.
Local Open Scope N_scope.

(* ------------------------------------------------------------------ *)
(* trimming and padding                                                *)

Lemma trim_right_spec s : exists k, s = trim_right s ++ repeat ch_space k.
Proof.
  induction s as [|c r [k IH]]; [exists 0%nat; reflexivity|].
  cbn [trim_right]. destruct (trim_right r) as [|x t] eqn:E.
  - cbn [app] in IH. destruct (c =? ch_space) eqn:Ec.
    + apply N.eqb_eq in Ec. subst c. exists (S k). cbn [app repeat]. now rewrite IH at 1.
    + exists k. cbn [app]. now rewrite IH at 1.
  - exists k. cbn [app]. rewrite IH at 1. reflexivity.
Qed.

Lemma pad4s_trim s : length s = 4%nat -> pad4s (trim_right s) = s.
Proof.
  intros Hl. destruct (trim_right_spec s) as [k Hk]. unfold pad4s.
  assert (k = (4 - length (trim_right s))%nat).
  { rewrite Hk in Hl at 1. rewrite app_length, repeat_length in Hl. lia. }
  subst k. now rewrite <- Hk.
Qed.

Lemma trim_right_length s : (length (trim_right s) <= length s)%nat.
Proof.
  destruct (trim_right_spec s) as [k Hk]. rewrite Hk at 2. rewrite app_length. lia.
Qed.

(* ------------------------------------------------------------------ *)
(* case mapping, splitting                                             *)

Lemma lower_id c : forallb is_lower_alnum c = true -> lower c = c.
Proof.
  induction c as [|x c IH]; cbn [forallb lower map]; [reflexivity|].
  rewrite andb_true_iff. intros [H1 H2]. fold (lower c). rewrite IH by exact H2. f_equal.
  unfold lower1, is_lower_alnum, is_digit in *. destruct ((65 <=? x) && (x <=? 90)) eqn:E; [lia|reflexivity].
Qed.

Lemma upper_lower_id c : forallb is_upper_alnum c = true -> upper (lower c) = c.
Proof.
  induction c as [|x c IH]; cbn [forallb lower upper map]; [reflexivity|].
  rewrite andb_true_iff. intros [H1 H2]. fold (lower c). fold (upper (lower c)).
  rewrite IH by exact H2. f_equal.
  unfold upper1, lower1, is_upper_alnum, is_digit in *.
  destruct ((65 <=? x) && (x <=? 90)) eqn:E.
  - destruct ((97 <=? x + 32) && (x + 32 <=? 122)) eqn:E2; lia.
  - destruct ((97 <=? x) && (x <=? 122)) eqn:E2; lia.
Qed.

Lemma lower_app a b : lower (a ++ b) = lower a ++ lower b.
Proof. apply map_app. Qed.

Lemma lower_alnum_lower c : forallb is_alnum c = true -> forallb is_lower_alnum (lower c) = true.
Proof.
  induction c as [|x c IH]; cbn [forallb lower map]; [reflexivity|].
  rewrite !andb_true_iff. intros [H1 H2]. split; [|now apply IH].
  unfold lower1, is_lower_alnum, is_alnum, is_digit in *.
  destruct ((65 <=? x) && (x <=? 90)) eqn:E; lia.
Qed.

Definition no_dash (c : list N) : Prop := forallb (fun x => negb (x =? ch_dash)) c = true.

Lemma split_no_dash c : no_dash c -> split_dash c = [c].
Proof.
  unfold no_dash. induction c as [|x c IH]; cbn [forallb split_dash]; [reflexivity|].
  rewrite andb_true_iff, negb_true_iff. intros [H1 H2]. rewrite H1, IH by exact H2. reflexivity.
Qed.

Lemma alnum_no_dash c : forallb is_alnum c = true -> no_dash c.
Proof.
  unfold no_dash. induction c as [|x c IH]; cbn [forallb]; [reflexivity|].
  rewrite !andb_true_iff. intros [H1 H2]. split; [|now apply IH].
  unfold is_alnum, ch_dash in *. lia.
Qed.

Lemma lower_alnum_is_alnum c : forallb is_lower_alnum c = true -> forallb is_alnum c = true.
Proof.
  induction c as [|x c IH]; cbn [forallb]; [reflexivity|].
  rewrite !andb_true_iff. intros [H1 H2]. split; [|now apply IH].
  unfold is_lower_alnum, is_alnum, is_digit in *. lia.
Qed.

Lemma upper_alnum_is_alnum c : forallb is_upper_alnum c = true -> forallb is_alnum c = true.
Proof.
  induction c as [|x c IH]; cbn [forallb]; [reflexivity|].
  rewrite !andb_true_iff. intros [H1 H2]. split; [|now apply IH].
  unfold is_upper_alnum, is_alnum, is_digit in *. lia.
Qed.

Lemma lower_preserves_alnum c : forallb is_alnum c = true -> forallb is_alnum (lower c) = true.
Proof. intros H. now apply lower_alnum_is_alnum, lower_alnum_lower. Qed.

(* ------------------------------------------------------------------ *)
(* what the shapes give                                                *)

(* the facts about the trimmed script used below *)
Definition script_core_ok (s cs : list N) : Prop :=
  cs <> [] /\ (length cs <= 4)%nat /\ forallb is_alnum cs = true /\
  pad4s (if list_eqb (lower cs) tag_dflt then tag_DFLT else lower cs) = s.

Lemma script_shape_core s : script_shape s = true -> script_core_ok s (trim_right s).
Proof.
  unfold script_shape. rewrite andb_true_iff, Nat.eqb_eq. intros [Hl H].
  pose proof (trim_right_length s) as Hle. rewrite Hl in Hle.
  apply orb_true_iff in H. destruct H as [H|H].
  - apply list_eqb_eq in H. subst s. vm_compute. repeat split; try discriminate; lia.
  - rewrite !andb_true_iff, negb_true_iff in H. destruct H as [[H1 H2] H3].
    split; [now apply nonempty_true|]. split; [exact Hle|].
    split; [now apply lower_alnum_is_alnum|].
    rewrite (lower_id _ H2), H3. now apply pad4s_trim.
Qed.

Definition lang_core_ok (l cl : list N) : Prop :=
  (l = [] /\ cl = []) \/
  (cl <> [] /\ (length cl <= 4)%nat /\ forallb is_alnum cl = true /\ pad4s (upper (lower cl)) = l).

Lemma lang_shape_core l : lang_shape l = true -> lang_core_ok l (trim_right l).
Proof.
  unfold lang_shape. destruct l as [|c r] eqn:El; [intros _; left; split; reflexivity|].
  rewrite <- El. rewrite !andb_true_iff, Nat.eqb_eq. intros [Hl [H1 H2]].
  pose proof (trim_right_length l) as Hle. rewrite Hl in Hle.
  right. split; [now apply nonempty_true|]. split; [exact Hle|].
  split; [now apply upper_alnum_is_alnum|].
  rewrite (upper_lower_id _ H2). now apply pad4s_trim.
Qed.

Lemma subtag_ok_core c : c <> [] -> (length c <= 4)%nat -> forallb is_alnum c = true -> subtag_ok c = true.
Proof.
  intros Hne Hl Ha. unfold subtag_ok. rewrite Ha, andb_true_r. apply andb_true_iff.
  destruct c; [congruence|]. cbn [length] in *. split; apply Nat.leb_le; lia.
Qed.

(* the round trip on strings: the private-use part is well-formed and
   bcp47ToOtf recovers script and language from its lower-cased form *)
Lemma shape_roundtrip s l :
  script_shape s = true -> lang_shape l = true ->
  priv_ok (private_part s l) = true /\
  M_from_ext ([120; 45] ++ lower (private_part s l)) = Some (s, l).
Proof.
  intros Hs Hl. apply script_shape_core in Hs. apply lang_shape_core in Hl.
  destruct Hs as (Sne & Slen & Saln & Spad). unfold tag_dflt, tag_DFLT in Spad. unfold private_part.
  set (cs := trim_right s) in *. set (cl := trim_right l) in *.
  pose proof (alnum_no_dash _ (lower_preserves_alnum _ Saln)) as Snd.
  destruct Hl as [[-> Ecl]|(Lne & Llen & Laln & Lpad)].
  - rewrite Ecl, app_nil_r. split.
    + unfold priv_ok. rewrite (split_no_dash cs (alnum_no_dash _ Saln)). cbn [forallb].
      now rewrite subtag_ok_core.
    + unfold M_from_ext.
      change ([120; 45] ++ lower cs) with ([120] ++ ch_dash :: lower cs).
      rewrite split_dash_app, (split_no_dash _ Snd). change (split_dash [120]) with [[120]].
      cbn [app length Nat.ltb Nat.leb orb nth]. now rewrite Spad.
  - destruct cl as [|c0 cr] eqn:Ecl; [congruence|]. rewrite <- Ecl in *.
    pose proof (alnum_no_dash _ (lower_preserves_alnum _ Laln)) as Lnd.
    split.
    + unfold priv_ok. rewrite split_dash_app, (split_no_dash cs (alnum_no_dash _ Saln)),
        (split_no_dash cl (alnum_no_dash _ Laln)). cbn [app forallb].
      now rewrite !subtag_ok_core.
    + unfold M_from_ext. rewrite lower_app.
      change (lower (ch_dash :: cl)) with (ch_dash :: lower cl).
      change ([120; 45] ++ lower cs ++ ch_dash :: lower cl)
        with ([120] ++ ch_dash :: (lower cs ++ ch_dash :: lower cl)).
      rewrite split_dash_app, split_dash_app, (split_no_dash _ Snd), (split_no_dash _ Lnd).
      change (split_dash [120]) with [[120]].
      cbn [app length Nat.ltb Nat.leb orb nth]. now rewrite Spad, Lpad.
Qed.

(* ------------------------------------------------------------------ *)
(* the x/text side                                                     *)

Lemma pre_ok_app a b : pre_ok (a ++ ch_dash :: b) = pre_ok a && pre_ok b.
Proof. unfold pre_ok. now rewrite split_dash_app, forallb_app. Qed.

(* every BCP 47 half of the built-in tables (and "und") has no singleton x *)
Definition bcp_values_ok : bool :=
  forallb (fun e => pre_ok (snd e)) gtab_scriptBcp47 &&
  forallb (fun e => pre_ok (snd e)) gtab_langBcp47 && pre_ok und.
Lemma bcp_values_ok_true : bcp_values_ok = true.
Proof. vm_compute. reflexivity. Qed.

(* every tag of the built-in tables has the shape the round trip needs *)
Definition builtin_shapes_ok : bool :=
  forallb script_shape builtin_scripts && forallb lang_shape builtin_langs.
Lemma builtin_shapes_ok_true : builtin_shapes_ok = true.
Proof. vm_compute. reflexivity. Qed.

Lemma builtin_script_shape s : In s builtin_scripts -> script_shape s = true.
Proof.
  pose proof builtin_shapes_ok_true as H. unfold builtin_shapes_ok in H.
  apply andb_true_iff in H. destruct H as [H _]. rewrite forallb_forall in H. apply H.
Qed.
Lemma builtin_lang_shape l : In l builtin_langs -> lang_shape l = true.
Proof.
  pose proof builtin_shapes_ok_true as H. unfold builtin_shapes_ok in H.
  apply andb_true_iff in H. destruct H as [_ H]. rewrite forallb_forall in H. apply H.
Qed.

Lemma tag_string_pre_ok s l p : M_otf_tag_string s l = Some p -> pre_ok (fst p) = true.
Proof.
  pose proof bcp_values_ok_true as H. unfold bcp_values_ok in H.
  rewrite !andb_true_iff, !forallb_forall in H. destruct H as [[Hs Hl] Hu].
  unfold M_otf_tag_string.
  destruct (lookupS s gtab_scriptBcp47) as [bs|] eqn:Es; [|discriminate].
  assert (Hbs : pre_ok bs = true).
  { clear -Es Hs. revert Es Hs. generalize gtab_scriptBcp47. induction l as [|[k v] r IH]; cbn [lookupS]; [discriminate|].
    intros E H. destruct (C14.Model.list_eqb k s).
    - injection E as <-. apply (H (k, v)). now left.
    - apply IH; [exact E|]. intros x Hx. apply H. now right. }
  assert (Hbl : forall bl, (match lookupS l gtab_langBcp47 with
                            | Some x => Some x
                            | None => match l with [] => Some und | _ => None end
                            end) = Some bl -> pre_ok bl = true).
  { intros bl. destruct (lookupS l gtab_langBcp47) as [x|] eqn:El.
    - intros E. injection E as <-. clear -El Hl. revert El Hl. generalize gtab_langBcp47.
      induction l0 as [|[k v] r IH]; cbn [lookupS]; [discriminate|].
      intros E H. destruct (C14.Model.list_eqb k l).
      + injection E as <-. apply (H (k, v)). now left.
      + apply IH; [exact E|]. intros y Hy. apply H. now right.
    - destruct l; [|discriminate]. intros E. injection E as <-. exact Hu. }
  destruct (match lookupS l gtab_langBcp47 with
            | Some x => Some x
            | None => match l with [] => Some und | _ => None end
            end) as [bl|] eqn:Eb; [|discriminate].
  intros E. injection E as <-. unfold tag_parts. cbn [fst].
  specialize (Hbl bl eq_refl).
  destruct (contains_dash bl); [now rewrite app_nil_r|].
  rewrite pre_ok_app. now rewrite Hbl, Hbs.
Qed.

Lemma tag_string_private s l p : M_otf_tag_string s l = Some p -> snd p = private_part s l.
Proof.
  unfold M_otf_tag_string. destruct (lookupS s gtab_scriptBcp47); [|discriminate].
  destruct (match lookupS l gtab_langBcp47 with
            | Some x => Some x
            | None => match l with [] => Some und | _ => None end
            end); [|discriminate].
  intros E. injection E as <-. reflexivity.
Qed.

(* otfToBCP47 errors exactly on an unknown script or an unknown non-empty language *)
Lemma tag_string_defined s l :
  M_otf_tag_string s l <> None <->
  lookupS s gtab_scriptBcp47 <> None /\ (lookupS l gtab_langBcp47 <> None \/ l = []).
Proof.
  unfold M_otf_tag_string. destruct (lookupS s gtab_scriptBcp47); [|intuition congruence].
  destruct (lookupS l gtab_langBcp47); [intuition congruence|].
  destruct l; intuition congruence.
Qed.

(* the conversion there and back, for every pair the tables know and whose
   tags have the shapes *)
Lemma there_and_back xtext s l :
  xtext_spec xtext ->
  M_otf_tag_string s l <> None -> script_shape s = true -> lang_shape l = true ->
  exists ext, M_otf_to_ext xtext s l = Some ext /\ M_from_ext ext = Some (s, l) /\
              conv_ok xtext s l = true /\ M_otf_there_and_back xtext s l = Some (s, l).
Proof.
  intros Hx Hdef Hs Hl. destruct (M_otf_tag_string s l) as [p|] eqn:Ep; [|congruence].
  destruct (shape_roundtrip s l Hs Hl) as [Hpriv Hback].
  pose proof (tag_string_pre_ok s l p Ep) as Hpre.
  pose proof (tag_string_private s l p Ep) as Hsnd.
  assert (Hx' : xtext (full_tag p) = Some ([120; 45] ++ lower (private_part s l))).
  { unfold full_tag. rewrite Hsnd. now apply Hx. }
  exists ([120; 45] ++ lower (private_part s l)).
  unfold conv_ok, M_otf_there_and_back, M_otf_to_ext. rewrite Ep, Hx'. repeat split; auto.
Qed.

Lemma in_lookupS {V} k (l : list (list N * V)) : In k (map fst l) -> lookupS k l <> None.
Proof.
  induction l as [|[k' v] r IH]; cbn [map fst In lookupS]; [tauto|].
  intros [->|H]; [rewrite list_eqb_refl; discriminate|].
  destruct (C14.Model.list_eqb k' k); [discriminate|now apply IH].
Qed.

Lemma builtin_defined s l :
  In s builtin_scripts -> In l builtin_langs -> M_otf_tag_string s l <> None.
Proof.
  intros Hs Hl. apply tag_string_defined. split; [now apply in_lookupS|].
  destruct Hl as [<-|Hl]; [now right|left; now apply in_lookupS].
Qed.

(* ------------------------------------------------------------------ *)
(* xtext_strict meets the hypothesis                                   *)

Lemma find_x_parts_skip pre_rev subs rest :
  forallb (fun s => negb (C14.Model.list_eqb (lower s) [120])) subs = true ->
  find_x_parts pre_rev (subs ++ [120] :: rest) = Some (rev pre_rev ++ subs, rest).
Proof.
  revert pre_rev. induction subs as [|s r IH]; intros pre_rev H; cbn [app find_x_parts forallb] in *.
  - now rewrite app_nil_r.
  - apply andb_true_iff in H. destruct H as [H1 H2]. apply negb_true_iff in H1. rewrite H1.
    rewrite IH by exact H2. cbn [rev]. now rewrite <- app_assoc.
Qed.

Lemma join_dash2_eq l : join_dash2 l = join_dash l.
Proof. induction l as [|s [|t r] IH]; cbn [join_dash2 join_dash] in *; auto; try now rewrite IH. Qed.

Lemma xtext_strict_meets_spec : xtext_spec xtext_strict.
Proof.
  intros pre rest Hpre Hpriv. unfold xtext_strict.
  change (pre ++ [45; 120; 45] ++ rest) with (pre ++ ch_dash :: ([120] ++ ch_dash :: rest)).
  rewrite split_dash_app, split_dash_app. change (split_dash [120]) with [[120]]. cbn [app].
  rewrite find_x_parts_skip by exact Hpre. unfold priv_ok in Hpriv. rewrite Hpriv.
  now rewrite join_dash2_eq, join_split.
Qed.
