From Coq Require Import Extraction ExtrOcamlBasic.
From Common Require Import Conv Outcome.
From Gen Require Import C14 C14B.
From C14 Require Import Model ModelTags.
From C08 Require Import ModelSL.
From C14B Require Import Model ModelTags2.
Extraction "c14b_model.ml" conv_anchor
  empty_table M_get M_set M_keys M_keys_iter wf_stable clean_table norm_table
  S_name_encode S_name_records rec_key S_name_decode canon_stabs survives name_view
  name_appleBCP name_msBCP name_maxID
  M_otf_tag_string M_otf_to_ext M_from_ext M_otf_there_and_back conv_ok xtext_strict private_part
  script_shape lang_shape
  M_sl_group M_sl_info_encode M_sl_info_read M_sl_encode canon_asg
  M_plain_tag M_sl_info_encode_g gtab_langBcp47 gtab_scriptBcp47.
