(* C14B/Model.v — the struct level of the "name" table code (name/table.go,
   name/name.go), as the code is.  Definitions only.

   C14's model treats a name.Table as a finite map name id -> string and
   Table.keys() as "the sorted non-empty entries".  This part models what is
   underneath: the struct with its string fields and the Extra map, get / set
   / keys with the switch statements regenerated from the Go source
   (Gen/C14B.v), Info.Encode's enumeration over the language tables with the
   caller's maps keyed by strings, and Info.Decode's inverse.  The byte level
   (records, string storage, Mac Roman, UTF-16) is C14's, by import.

   Representation.  A Go string holding text is the list of its runes, a
   map key string the list of its bytes (as in C14).  name.Table is
     st_fields : the string fields in declaration order (name_table_fields),
     st_extra  : the Extra map; None = nil map, Some m = a map with the
                 entries of m, m strictly sorted by key (canonical form of a
                 Go map; the iteration order of `range t.Extra` is a separate
                 parameter of keys, see M_keys_iter).
   name.Tables (a map from string to Table pointer) is an association list key -> pointer,
   None = nil pointer; a missing key and a nil pointer are both "no table"
   for Encode. *)
From Coq Require Import List NArith Bool Arith.
From Common Require Import Bytes Outcome.
From Gen Require Import C14 C14B.
From C14 Require Import Model.
Import ListNotations.
Local Open Scope N_scope.

(* ------------------------------------------------------------------ *)
(* name.Table                                                          *)

Notation emap := (list (N * list N)) (only parsing).      (* map[ID]string, sorted *)
Record stable := mk_stable { st_fields : list (list N); st_extra : option (list (N * list N)) }.

Definition nfields : nat := length name_table_fields.
(* &Table{} *)
Definition empty_table : stable := mk_stable (repeat [] nfields) None.

Fixpoint set_nth {A} (n : nat) (v : A) (l : list A) : list A :=
  match l, n with
  | [], _ => []
  | _ :: r, O => v :: r
  | x :: r, S n' => x :: set_nth n' v r
  end.

(* m[id] on a possibly nil map *)
Definition emap_get (e : option (list (N * list N))) (id : N) : list N :=
  match e with
  | Some m => match lookupN id m with Some v => v | None => [] end
  | None => []
  end.

(* m[id] = v on a sorted association list *)
Fixpoint emap_set (m : list (N * list N)) (id : N) (v : list N) : list (N * list N) :=
  match m with
  | [] => [(id, v)]
  | (i, x) :: r =>
      if id <? i then (id, v) :: m
      else if i =? id then (id, v) :: r
      else (i, x) :: emap_set r id v
  end.

(* Table.get(nameID): the switch, default -> Extra *)
Definition M_get (t : stable) (id : N) : list N :=
  match lookupN id name_get_switch with
  | Some fi => nth (N.to_nat fi) (st_fields t) []
  | None => emap_get (st_extra t) id
  end.

(* Table.set(nameID, val) *)
Definition M_set (t : stable) (id : N) (v : list N) : stable :=
  match lookupN id name_set_switch with
  | Some fi => mk_stable (set_nth (N.to_nat fi) v (st_fields t)) (st_extra t)
  | None =>
      mk_stable (st_fields t)
                (Some (emap_set (match st_extra t with Some m => m | None => [] end) id v))
  end.

(* 0, 1, ..., n-1 / lo, lo+1, ... *)
Fixpoint nrange (lo : N) (n : nat) : list N :=
  match n with O => [] | S n' => lo :: nrange (lo + 1) n' end.

Definition leN (a b : N) : bool := a <=? b.

(* Table.keys().  [last] is the last id of the counting loop,
   [emin] the least Extra id that passes the filter, [iter] the order in
   which `range t.Extra` visits the map (any permutation of its entries). *)
Definition M_keys_gen (last emin : N) (t : stable) (iter : list (N * list N)) : list N :=
  let named := filter (fun id => nonempty (M_get t id)) (nrange 0 (S (N.to_nat last))) in
  match st_extra t with
  | None => named
  | Some _ =>
      isort leN (named ++
                 map fst (filter (fun e => nonempty (snd e) && (emin <=? fst e)) iter))
  end.
Definition M_keys_iter (t : stable) (iter : list (N * list N)) : list N :=
  M_keys_gen name_keys_loop_last name_keys_extra_min t iter.
(* with the map visited in ascending key order *)
Definition M_keys (t : stable) : list N :=
  M_keys_iter t (match st_extra t with Some m => m | None => [] end).

(* ------------------------------------------------------------------ *)
(* name.Tables, name.Info                                              *)

Notation stabs := (list (list N * option stable)) (only parsing).
Record sinfo := mk_sinfo { s_mac : stabs; s_win : stabs }.

(* t := info.Mac[tag]; t == nil covers both the missing key and the nil pointer *)
Definition stabs_find (tt : stabs) (tag : list N) : option stable :=
  match lookupB tag tt with Some (Some t) => Some t | _ => None end.

Definition stabs_get (tt : stabs) (tag : list N) (id : N) : list N :=
  match stabs_find tt tag with Some t => M_get t id | None => [] end.

(* for _, nameID := range t.keys() { val := t.get(nameID); b.Add(codec(val)); record } *)
Fixpoint s_gen_table (plat enc lang : N) (codec : list N -> list N) (t : stable)
         (ids : list N) (nb : builder) : builder * list rec :=
  match ids with
  | [] => (nb, [])
  | id :: ids' =>
      let '(nb1, (o, l)) := nb_add nb (codec (M_get t id)) in
      let '(nb2, rs) := s_gen_table plat enc lang codec t ids' nb1 in
      (nb2, mk_rec plat enc lang id o l :: rs)
  end.

(* for languageID, tag := range appleBCP { t := info.Mac[tag]; if t == nil { continue } ... }
   [order]: the (languageID, tag) pairs in the order the Go map is visited *)
Fixpoint s_gen_langs (order : list (N * list N)) (tt : stabs) (plat enc : N)
         (codec : list N -> list N) (nb : builder) : builder * list rec :=
  match order with
  | [] => (nb, [])
  | (lang, tag) :: o' =>
      match stabs_find tt tag with
      | None => s_gen_langs o' tt plat enc codec nb
      | Some t =>
          let '(nb1, rs1) := s_gen_table plat enc lang codec t (M_keys t) nb in
          let '(nb2, rs2) := s_gen_langs o' tt plat enc codec nb1 in
          (nb2, rs1 ++ rs2)
      end
  end.

Definition S_name_gen (om ow : list (N * list N)) (weid : N) (inf : sinfo) : builder * list rec :=
  let '(nb1, r1) := s_gen_langs om (s_mac inf) 1 0 M_mac_encode nb_empty in
  let '(nb2, r2) := s_gen_langs ow (s_win inf) 3 weid M_utf16_encode nb1 in
  (nb2, r1 ++ r2).

(* the records in the order they are written *)
Definition S_name_records (om ow : list (N * list N)) (weid : N) (inf : sinfo) : list rec :=
  isort rec_leb (snd (S_name_gen om ow weid inf)).

(* Info.Encode(windowsEncodingID) *)
Definition S_name_encode (om ow : list (N * list N)) (weid : N) (inf : sinfo) : list N :=
  let '(nb, rs) := S_name_gen om ow weid inf in
  let recs := isort rec_leb rs in
  let numRec := lenN recs in
  let startOfStrings := 6 + 12 * numRec in
  be16 0 ++ be16 numRec ++ be16 startOfStrings ++ flat_map enc_rec recs ++ nb_data nb.

(* what a record says about its origin *)
Definition rec_key (r : rec) : N * N * N := (r_plat r, r_lang r, r_id r).

(* ------------------------------------------------------------------ *)
(* the abstraction to C14's finite maps                                *)

(* the content Encode sees of a table: its keys with their strings *)
Definition abs_table (t : stable) : list (N * list N) :=
  map (fun id => (id, M_get t id)) (M_keys t).
Definition abs_tabs (tt : stabs) : list (list N * list (N * list N)) :=
  map (fun e => (fst e, match snd e with Some t => abs_table t | None => [] end)) tt.
Definition abs_info (inf : sinfo) : info := mk_info (abs_tabs (s_mac inf)) (abs_tabs (s_win inf)).

(* ------------------------------------------------------------------ *)
(* Decode                                                              *)

(* t := tables[key]; if t == nil { t = &Table{} }; t.set(nameID, val); tables[key] = t *)
Fixpoint s_tabs_set (tt : stabs) (key : list N) (id : N) (v : list N) : stabs :=
  match tt with
  | [] => [(key, Some (M_set empty_table id v))]
  | (g, ot) :: r =>
      if list_eqb g key
      then (g, Some (M_set (match ot with Some t => t | None => empty_table end) id v)) :: r
      else (g, ot) :: s_tabs_set r key id v
  end.

(* the struct a sequence of set calls builds from &Table{} *)
Definition conc_table (tbl : list (N * list N)) : stable :=
  fold_left (fun t e => M_set t (fst e) (snd e)) tbl empty_table.
Definition conc_tabs (tt : list (list N * list (N * list N))) : stabs :=
  map (fun e => (fst e, Some (conc_table (snd e)))) tt.
Definition conc_info (i : info) : sinfo := mk_sinfo (conc_tabs (i_mac i)) (conc_tabs (i_win i)).

(* func Decode(data []byte): C14's record loop (header checks,
   platform / language / encoding filters, string decoding), each accepted
   record stored with Table.set; that C14's finite-map steps and the struct
   steps agree is decode_steps_refine *)
Definition S_name_decode (data : list N) : outcome sinfo :=
  match M_name_decode data with
  | Ok i => Ok (conc_info i)
  | Err => Err
  | Panic => Panic
  | OutOfFuel => OutOfFuel
  end.

(* ------------------------------------------------------------------ *)
(* what survives Encode / Decode                                       *)

(* a table as Decode rebuilds it from the records Encode writes for it:
   None when no record is written *)
Definition norm_table (t : stable) : option stable :=
  match abs_table t with
  | [] => None
  | a => Some (conc_table a)
  end.

Definition supported (tbl : list (N * list N)) (tag : list N) : bool :=
  existsb (fun e => list_eqb (snd e) tag) tbl.

(* the table Decode(Encode(info)) holds under [tag] *)
Definition survives (tbl : list (N * list N)) (tt : stabs) (tag : list N) : option stable :=
  if supported tbl tag
  then match stabs_find tt tag with Some t => norm_table t | None => None end
  else None.

(* a table that is its own normal form: Extra holds only ids without a field
   of their own, with non-empty strings, and is nil when it would be empty *)
Definition clean_extra (e : option (list (N * list N))) : bool :=
  match e with
  | None => true
  | Some m =>
      nonempty m &&
      forallb (fun p => nonempty (snd p) &&
                        match lookupN (fst p) name_get_switch with None => true | Some _ => false end) m
  end.

Fixpoint sorted_keys (m : list (N * list N)) : bool :=
  match m with
  | [] => true
  | (i, _) :: r => match r with [] => true | (j, _) :: _ => (i <? j) && sorted_keys r end
  end.

(* well-formed: the right number of fields, Extra a strictly sorted list *)
Definition wf_stable (t : stable) : bool :=
  (length (st_fields t) =? nfields)%nat &&
  match st_extra t with None => true | Some m => sorted_keys m end.

Definition clean_table (t : stable) : bool := wf_stable t && clean_extra (st_extra t).

(* canonical presentation for the comparison with the implementation *)
Definition canon_stabs (tbl : list (N * list N)) (tt : stabs) : stabs :=
  flat_map (fun tag => match stabs_find tt tag with Some t => [(tag, Some t)] | None => [] end)
           (dedup (map snd tbl) []).
