(* C10B/Proofs_glyf.v — SubsetGlyf over concrete TrueType outlines: totality,
   the closure (by C10's comp_close_spec through the abstraction), the
   per-glyph rewriting (C11's fix_components), and the byte level: the
   encoding of a rewritten composite differs from the original's exactly at
   the positions of the component indices. *)
From Coq Require Import List NArith ZArith Bool Arith Lia.
From Coq Require Import ZifyBool ZifyNat ZifyN.
From Common Require Import Bytes Outcome.
From C10 Require Import Model Spec Util Proofs_state Proofs_gsub Proofs_outl.
From C11 Require Proofs_comp Proofs_glyf.
From C10B Require Import Model Spec Util Abs Proofs_abs.
Import ListNotations.
Local Open Scope N_scope.

(* the abstraction of a TrueType glyph set alone (ids do not matter here) *)
Definition ttfont (go : goutlines) : font :=
  mkFont KGlyf (mapi (abs_glyf_glyph (fun _ => 0) (fun _ => 0) go) 0 (go_glyphs go)) [] [] [] None [] [].

Lemma mapi_In {X Y} (f : nat -> X -> Y) : forall l i y, In y (mapi f i l) ->
  exists k x, nth_error l k = Some x /\ y = f (i + k)%nat x.
Proof.
  induction l as [|a r IH]; intros i y H; cbn [mapi In] in H; [destruct H|].
  destruct H as [<-|H].
  - exists O, a. split; [reflexivity|]. rewrite Nat.add_0_r. reflexivity.
  - destruct (IH _ _ H) as [k [x [Hk ->]]]. exists (S k), x. split; [exact Hk|]. f_equal. lia.
Qed.

Lemma nG_ttfont : forall go, nG (ttfont go) = N.of_nat (length (go_glyphs go)).
Proof. intros go. unfold nG, ttfont. cbn [f_glyphs]. rewrite mapi_length. reflexivity. Qed.

Lemma wf_ttfont : forall go, glyf_pre go -> wf_fontb (ttfont go) = true.
Proof.
  intros go [Hn [Hc _]]. unfold wf_fontb. rewrite nG_ttfont.
  replace (N.of_nat (length (go_glyphs go)) <=? 65536) with true by lia.
  cbn [f_gsub f_cmaps f_gpos ttfont forallb andb]. rewrite !andb_true_r.
  apply forallb_forall. intros y Hy. cbn [f_glyphs] in Hy.
  destruct (mapi_In _ _ _ _ Hy) as [k [x [Hk ->]]].
  unfold wf_glyphb. cbn [f_kind abs_glyf_glyph g_comps]. apply forallb_forall. intros c Hcc.
  unfold gid_ok. fold (ttfont go). rewrite nG_ttfont.
  specialize (Hc k x c Hk Hcc). lia.
Qed.

Lemma glyph_at_tt : forall go g, glyph_at (ttfont go) g =
  match nth_error (go_glyphs go) (N.to_nat g) with
  | Some x => Ok (abs_glyf_glyph (fun _ => 0) (fun _ => 0) go (N.to_nat g) x)
  | None => Panic
  end.
Proof. intros go g. apply (glyph_at_glyf (fun _ => 0) (fun _ => 0)). reflexivity. Qed.

(* reachability through concrete component references is C10's closedness *)
Lemma Reach_closed : forall go l, comps_closed (ttfont go) (Reach go l).
Proof.
  intros go l g x c Hg Hx Hc. rewrite glyph_at_tt in Hx.
  destruct (nth_error (go_glyphs go) (N.to_nat g)) as [y|] eqn:Ey; [|discriminate].
  inversion Hx; subst x. cbn [abs_glyf_glyph g_comps] in Hc.
  eapply Reach_comp; eauto.
Qed.

Theorem glyf_subset_spec : forall go orc st,
  glyf_pre go -> Inv (N.of_nat (length (go_glyphs go))) st ->
  exists go' st2,
    M_SubsetGlyf go orc st = Ok (go', st2) /\
    Inv (N.of_nat (length (go_glyphs go))) st2 /\ extends st st2 /\
    (forall g, In g (s_glyphs st2) <-> Reach go (s_glyphs st) g) /\
    Forall2 (fun g y => exists x, nth_error (go_glyphs go) (N.to_nat g) = Some x /\
                                  y = C11.Model.fix_components (new_or0 st2) x)
            (s_glyphs st2) (go_glyphs go') /\
    Forall2 (fun g w => nth_error (go_widths go) (N.to_nat g) = Some w) (s_glyphs st2) (go_widths go') /\
    match go_names go with
    | None => go_names go' = None
    | Some l => exists l', go_names go' = Some l' /\
                Forall2 (fun g n => nth_error l (N.to_nat g) = Some n) (s_glyphs st2) l'
    end.
Proof.
  intros go orc st Hpre HI. pose proof (wf_ttfont go Hpre) as Hwf.
  rewrite <- nG_ttfont in HI.
  destruct (subset_glyf_spec (ttfont go) orc st Hwf eq_refl HI) as [l [st2 [E [I2 [X2 [C2 [M2 Hl]]]]]]].
  unfold subset_glyf in E. unfold M_SubsetGlyf.
  set (todo := fold_left (fun t g => set_add g t) (s_glyphs st) []) in *.
  replace (length (f_glyphs (ttfont go))) with (length (go_glyphs go)) in E
    by (unfold ttfont; cbn [f_glyphs]; rewrite mapi_length; reflexivity).
  rewrite (comp_close_sim (fun _ => 0) (fun _ => 0) (ttfont go) go eq_refl).
  destruct (comp_close (S (length (go_glyphs go) + length todo)) (ttfont go) orc todo st) as [st2'| | |] eqn:Ecc;
    cbn [obind] in E; try discriminate.
  destruct (glyf_glyphs (ttfont go) st2' (s_glyphs st2')) as [l'| | |]; cbn [obind] in E; try discriminate.
  inversion E; subst l' st2'. cbn [obind].
  rewrite nG_ttfont in I2. destruct Hpre as [Hn [Hc [Hw Hnm]]].
  assert (Hb : forall g, In g (s_glyphs st2) -> g < N.of_nat (length (go_glyphs go))) by (apply (inv_bound _ _ I2)).
  destruct (mapo_total (fixed_glyph go st2) (s_glyphs st2)) as [glyphs Eg].
  { intros g Hg. unfold fixed_glyph. destruct (idx_lt (go_glyphs go) g (Hb g Hg)) as [x Ex]. rewrite Ex. cbn [obind]. eauto. }
  destruct (mapo_total (idx (go_widths go)) (s_glyphs st2)) as [widths Ew].
  { intros g Hg. apply idx_lt. rewrite Hw. apply Hb. exact Hg. }
  rewrite Eg, Ew. cbn [obind].
  assert (Hnames : exists names,
            match go_names go with None => Ok None | Some l => n <- mapo (idx l) (s_glyphs st2) ;; Ok (Some n) end = Ok names /\
            match go_names go with
            | None => names = None
            | Some l => exists l', names = Some l' /\ Forall2 (fun g n => nth_error l (N.to_nat g) = Some n) (s_glyphs st2) l'
            end).
  { destruct (go_names go) as [ln|]; [|eauto].
    destruct (mapo_total (idx ln) (s_glyphs st2)) as [n En].
    { intros g Hg. apply idx_lt. rewrite (Hnm ln eq_refl). apply Hb. exact Hg. }
    rewrite En. cbn [obind]. eexists. split; [reflexivity|]. exists n. split; [reflexivity|]. apply mapo_idx. exact En. }
  destruct Hnames as [names [En Hnames]]. rewrite En. cbn [obind].
  eexists. exists st2. split; [reflexivity|]. split; [exact I2|]. split; [exact X2|].
  cbn [go_glyphs go_widths go_names]. split; [|split; [|split]].
  - (* the closure *)
    intros g. split.
    + intros Hg. apply (M2 (Reach go (s_glyphs st))); [intros g' Hg'; apply Reach_base; exact Hg'|apply Reach_closed|exact Hg].
    + intros Hr. induction Hr as [g Hg|g x c _ IH Hx Hcc].
      * eapply extends_In; eauto.
      * apply (C2 g (abs_glyf_glyph (fun _ => 0) (fun _ => 0) go (N.to_nat g) x) c IH).
        -- rewrite glyph_at_tt, Hx. reflexivity.
        -- exact Hcc.
  - apply mapo_Forall2 in Eg. eapply Forall2_imp; [|exact Eg].
    intros g y Hy. unfold fixed_glyph in Hy.
    destruct (idx (go_glyphs go) g) as [x| | |] eqn:Ex; cbn [obind] in Hy; try discriminate.
    inversion Hy. apply idx_Ok in Ex. eauto.
  - apply mapo_idx. exact Ew.
  - destruct (go_names go); exact Hnames.
Qed.

(* ------------------------------------------------------------------ *)
(* the bytes of a rewritten composite                                   *)

Lemma nth_app_l {X} (a b : list X) i d : (i < length a)%nat -> nth i (a ++ b) d = nth i a d.
Proof. intros H. apply app_nth1. exact H. Qed.

Lemma enc_component_length : forall c, length (C11.Model.enc_component c) = (4 + length (C11.Model.c_data c))%nat.
Proof. intros c. unfold C11.Model.enc_component. rewrite !app_length, !be16_length. lia. Qed.

Definition fix_comp (h : N -> N) (c : C11.Model.component) : C11.Model.component :=
  {| C11.Model.c_flags := C11.Model.c_flags c; C11.Model.c_gid := h (C11.Model.c_gid c);
     C11.Model.c_data := C11.Model.c_data c |}.

Lemma comps_bytes_length : forall h cs,
  length (flat_map C11.Model.enc_component (map (fix_comp h) cs)) = length (flat_map C11.Model.enc_component cs).
Proof.
  intros h. induction cs as [|c r IH]; cbn [map flat_map]; [reflexivity|].
  rewrite !app_length, IH, !enc_component_length. reflexivity.
Qed.

(* inside the component records: same bytes except at the index positions *)
Lemma comps_bytes_nth : forall h cs off p,
  ~ In (off + p)%nat (gid_offsets off cs) ->
  nth p (flat_map C11.Model.enc_component (map (fix_comp h) cs)) 0 =
  nth p (flat_map C11.Model.enc_component cs) 0.
Proof.
  intros h. induction cs as [|c r IH]; intros off p Hn; cbn [map flat_map]; [reflexivity|].
  cbn [gid_offsets In] in Hn.
  destruct (Nat.ltb_spec p (4 + length (C11.Model.c_data c))) as [Hlt|Hge].
  - rewrite !app_nth1 by (rewrite enc_component_length; cbn [fix_comp C11.Model.c_data]; lia).
    unfold C11.Model.enc_component. cbn [fix_comp C11.Model.c_flags C11.Model.c_gid C11.Model.c_data].
    unfold be16. cbn [app].
    destruct p as [|[|[|[|p]]]]; try reflexivity.
    + exfalso. apply Hn. left. lia.
    + exfalso. apply Hn. right. left. lia.
  - rewrite !app_nth2 by (rewrite enc_component_length; cbn [fix_comp C11.Model.c_data]; lia).
    rewrite !enc_component_length. cbn [fix_comp C11.Model.c_data].
    apply (IH (off + 4 + length (C11.Model.c_data c))%nat).
    intros Hin. apply Hn. right. right.
    replace (off + 4 + length (C11.Model.c_data c) + (p - (4 + length (C11.Model.c_data c))))%nat with (off + p)%nat in Hin by lia.
    exact Hin.
Qed.

(* the two bytes at the k-th index position are the new index *)
Lemma comps_bytes_gid : forall h cs off k c,
  nth_error cs k = Some c ->
  exists p, nth_error (gid_offsets off cs) (2 * k) = Some (off + p)%nat /\
            nth_error (gid_offsets off cs) (2 * k + 1) = Some (off + p + 1)%nat /\
            firstn 2 (skipn p (flat_map C11.Model.enc_component (map (fix_comp h) cs))) = be16 (h (C11.Model.c_gid c)).
Proof.
  intros h. induction cs as [|c0 r IH]; intros off k c Hk; [destruct k; discriminate|].
  destruct k as [|k]; cbn [nth_error] in Hk.
  - inversion Hk; subst c0. exists 2%nat. cbn [gid_offsets Nat.mul Nat.add nth_error].
    split; [reflexivity|]. split; [f_equal; lia|].
    cbn [map flat_map]. unfold C11.Model.enc_component at 1. cbn [fix_comp C11.Model.c_flags C11.Model.c_gid C11.Model.c_data].
    unfold be16 at 1. cbn [app skipn]. unfold be16. reflexivity.
  - destruct (IH (off + 4 + length (C11.Model.c_data c0))%nat k c Hk) as [p [H1 [H2 H3]]].
    exists (4 + length (C11.Model.c_data c0) + p)%nat. cbn [gid_offsets].
    replace (2 * S k)%nat with (S (S (2 * k))) by lia. cbn [nth_error Nat.add].
    split; [rewrite H1; f_equal; lia|]. split; [replace (S (S (2 * k)) + 1)%nat with (S (S (2 * k + 1))) by lia; cbn [nth_error]; rewrite H2; f_equal; lia|].
    cbn [map flat_map]. rewrite skipn_app.
    rewrite (skipn_all2 (C11.Model.enc_component (fix_comp h c0))) by (rewrite enc_component_length; cbn [fix_comp C11.Model.c_data]; lia).
    rewrite enc_component_length. cbn [fix_comp C11.Model.c_data app].
    match goal with |- firstn 2 (skipn ?q _) = _ => replace q with p by lia end.
    exact H3.
Qed.

Lemma fix_components_map : forall h b cs ins,
  C11.Model.fix_components h (Some {| C11.Model.g_box := b; C11.Model.g_data := C11.Model.Composite cs ins |}) =
  Some {| C11.Model.g_box := b; C11.Model.g_data := C11.Model.Composite (map (fix_comp h) cs) ins |}.
Proof. reflexivity. Qed.

(* the unpadded encoding: header, component records, instructions *)
Definition glyph_bytes (g : option C11.Model.glyph) : list N :=
  match g with
  | None => []
  | Some g => C11.Model.enc_header g ++ C11.Model.enc_body (C11.Model.g_data g)
  end.

Lemma enc_header_length : forall g, length (C11.Model.enc_header g) = 10%nat.
Proof. intros g. unfold C11.Model.enc_header. rewrite !app_length, !be16_length. reflexivity. Qed.

(* Glyph.append writes these bytes, then pads to an even length (C11) *)
Lemma enc_glyph_at_bytes : forall n g,
  C11.Model.enc_glyph_at n g =
  match g with
  | None => []
  | Some _ => glyph_bytes g ++ repeat 0 (C11.Model.pad_count (n + C11.Model.len (glyph_bytes g)))
  end.
Proof. intros n [g|]; reflexivity. Qed.

Theorem fixed_glyph_bytes : forall h g,
  length (glyph_bytes (C11.Model.fix_components h g)) = length (glyph_bytes g) /\
  (forall p, ~ In p (glyph_gid_offsets g) ->
     nth p (glyph_bytes (C11.Model.fix_components h g)) 0 = nth p (glyph_bytes g) 0) /\
  glyph_gid_offsets (C11.Model.fix_components h g) = glyph_gid_offsets g.
Proof.
  intros h g. destruct g as [[b [nc e|cs ins]]|].
  - cbn [C11.Model.fix_components]. repeat split; reflexivity.
  - rewrite fix_components_map. cbn [glyph_bytes C11.Model.enc_body C11.Model.g_data glyph_gid_offsets].
    assert (Hh : C11.Model.enc_header {| C11.Model.g_box := b; C11.Model.g_data := C11.Model.Composite (map (fix_comp h) cs) ins |} =
                 C11.Model.enc_header {| C11.Model.g_box := b; C11.Model.g_data := C11.Model.Composite cs ins |}) by reflexivity.
    rewrite Hh. split; [|split].
    + rewrite !app_length, comps_bytes_length. reflexivity.
    + intros p Hp. set (hd := C11.Model.enc_header _).
      destruct (Nat.ltb_spec p 10) as [Hlt|Hge].
      * rewrite !app_nth1 by (unfold hd; rewrite enc_header_length; exact Hlt). reflexivity.
      * rewrite !(app_nth2 hd) by (unfold hd; rewrite enc_header_length; exact Hge).
        unfold hd. rewrite enc_header_length.
        destruct (Nat.ltb_spec (p - 10) (length (flat_map C11.Model.enc_component cs))) as [Hl2|Hg2].
        -- rewrite !app_nth1 by (try rewrite comps_bytes_length; exact Hl2).
           apply (comps_bytes_nth h cs 10). replace (10 + (p - 10))%nat with p by lia. exact Hp.
        -- rewrite !app_nth2 by (try rewrite comps_bytes_length; exact Hg2).
           rewrite comps_bytes_length. reflexivity.
    + clear. generalize 10%nat. induction cs as [|c r IH]; intros off; cbn [map gid_offsets]; [reflexivity|].
      cbn [fix_comp C11.Model.c_data]. rewrite IH. reflexivity.
  - cbn [C11.Model.fix_components]. repeat split; reflexivity.
Qed.

(* ------------------------------------------------------------------ *)
(* the rewritten glyph decodes (C11's decoder) to itself                *)

Lemma nf_more_fix : forall h cs, C11.Model.nf_more (map (fix_comp h) cs) = C11.Model.nf_more cs.
Proof.
  intros h. induction cs as [|c r IH]; [reflexivity|].
  destruct r as [|c2 r2]; [reflexivity|].
  cbn [map] in *.
  change (C11.Model.nf_more (fix_comp h c :: fix_comp h c2 :: map (fix_comp h) r2)) with
    (C11.Model.has (C11.Model.c_flags c) Gen.C11.glyf_FlagMoreComponents &&
     C11.Model.nf_more (fix_comp h c2 :: map (fix_comp h) r2)).
  rewrite IH. reflexivity.
Qed.

Lemma nf_fix : forall h g,
  C11.Model.nf_glyph g = true ->
  (forall c, In c (C11.Model.components g) -> h c < 65536) ->
  C11.Model.nf_glyph (C11.Model.fix_components h g) = true.
Proof.
  intros h [[b [nc e|cs ins]]|] Hnf Hb; try exact Hnf.
  rewrite fix_components_map. cbn [C11.Model.nf_glyph C11.Model.g_box C11.Model.g_data C11.Model.nf_gdata] in *.
  apply andb_true_iff in Hnf. destruct Hnf as [Hbox Hd]. rewrite Hbox. cbn [andb].
  apply andb_true_iff in Hd. destruct Hd as [Hd Hins].
  apply andb_true_iff in Hd. destruct Hd as [Hc Hm].
  rewrite nf_more_fix, Hm. rewrite andb_true_r.
  apply andb_true_iff. split.
  - rewrite forallb_forall in *. intros c' Hc'. apply in_map_iff in Hc'. destruct Hc' as [c [<- Hin]].
    specialize (Hc c Hin). unfold C11.Model.nf_component in *. cbn [fix_comp C11.Model.c_flags C11.Model.c_gid C11.Model.c_data].
    repeat (apply andb_true_iff in Hc; destruct Hc as [Hc ?]).
    assert (Hg : h (C11.Model.c_gid c) < 65536).
    { apply Hb. cbn [C11.Model.components C11.Model.g_data]. apply in_map. exact Hin. }
    repeat (apply andb_true_iff; split); try assumption. lia.
  - destruct ins as [i|]; [|reflexivity].
    repeat (apply andb_true_iff in Hins; destruct Hins as [Hins ?]).
    repeat (apply andb_true_iff; split); try assumption.
    rewrite existsb_exists in *. destruct Hins as [c [Hin Hf]]. exists (fix_comp h c). split; [apply in_map; exact Hin|exact Hf].
Qed.

Theorem fixed_glyph_decodes : forall h g n,
  n mod 2 = 0 -> C11.Model.nf_glyph g = true ->
  (forall c, In c (C11.Model.components g) -> h c < 65536) ->
  C11.Model.M_decode_glyph (C11.Model.enc_glyph_at n (C11.Model.fix_components h g)) =
    Ok (C11.Model.fix_components h g).
Proof.
  intros h g n Hn Hnf Hb. apply C11.Proofs_glyf.decode_glyph_enc; [exact Hn|]. apply nf_fix; assumption.
Qed.

(* the two bytes at the k-th index position of the rewritten composite are
   the new index of the k-th component *)
Theorem fixed_glyph_gid_bytes : forall h b cs ins k c,
  nth_error cs k = Some c ->
  let g := Some {| C11.Model.g_box := b; C11.Model.g_data := C11.Model.Composite cs ins |} in
  exists p,
    nth_error (glyph_gid_offsets g) (2 * k) = Some p /\
    nth_error (glyph_gid_offsets g) (2 * k + 1) = Some (p + 1)%nat /\
    firstn 2 (skipn p (glyph_bytes (C11.Model.fix_components h g))) = be16 (h (C11.Model.c_gid c)).
Proof.
  intros h b cs ins k c Hk g. subst g. rewrite fix_components_map.
  destruct (comps_bytes_gid h cs 10 k c Hk) as [p [H1 [H2 H3]]].
  exists (10 + p)%nat. cbn [glyph_gid_offsets]. split; [exact H1|]. split; [exact H2|].
  cbn [glyph_bytes C11.Model.enc_body C11.Model.g_data].
  set (hd := C11.Model.enc_header _). set (X := flat_map _ _) in *.
  assert (Hh : length hd = 10%nat) by (unfold hd; apply enc_header_length).
  rewrite skipn_app. rewrite (skipn_all2 hd) by lia. rewrite Hh. cbn [app].
  replace (10 + p - 10)%nat with p by lia.
  assert (Hlen : (2 <= length (skipn p X))%nat).
  { assert (Hl : length (firstn 2 (skipn p X)) = 2%nat) by (rewrite H3; apply be16_length).
    rewrite firstn_length in Hl. lia. }
  rewrite skipn_app. rewrite firstn_app.
  replace (2 - length (skipn p X))%nat with 0%nat by lia. cbn [firstn]. rewrite app_nil_r. exact H3.
Qed.
