(* C10B/Proofs_transfer.v — the theorems of C10/Props.v read back at the
   concrete level through the refinement (Proofs_abs.subset_refines): the
   refinement holds for every assignment of ids, so choosing id functions
   that separate the values in question turns "the same id" into "the same
   value". *)
From Coq Require Import List NArith ZArith Bool Arith Lia.
From Coq Require Import ZifyBool ZifyNat ZifyN.
From Common Require Import Bytes Outcome.
From C10 Require Import Model Spec Util Proofs_state Proofs_main Proofs_props.
From C10 Require Props.
From C11 Require Proofs_comp.
From C10B Require Import Model Spec Util Abs Proofs_abs.
Import ListNotations.
Local Open Scope N_scope.

(* ------------------------------------------------------------------ *)
(* the domain does not depend on the ids                                *)

Definition zid {X} : X -> N := fun _ => 0.

(* the abstraction with all ids 0: enough to decide C10's domain *)
Definition abs0 (macrune : N -> N) (f : cfont) : font := abs_font zid zid zid zid zid macrune f.

Lemma forallb_mapi2 {X Y} (P Q : Y -> bool) (f f' : nat -> X -> Y) : forall l i,
  (forall k x, P (f k x) = Q (f' k x)) -> forallb P (mapi f i l) = forallb Q (mapi f' i l).
Proof.
  induction l as [|x r IH]; intros i H; cbn [mapi forallb]; [reflexivity|].
  rewrite H, (IH (S i) H). reflexivity.
Qed.

Lemma forallb_ext' {X} (P Q : X -> bool) : forall l, (forall x, P x = Q x) -> forallb P l = forallb Q l.
Proof. induction l as [|x r IH]; intros H; cbn [forallb]; [reflexivity|]. rewrite H, IH by exact H. reflexivity. Qed.

Section Indep.
  Variable body_id : list N -> N.
  Variable name_id : list N -> N.
  Variable priv_id : C13B.ModelFont.privdict -> N.
  Variable mat_id : list C13B.ModelNum.real -> N.
  Variable tt_id : option C11.Model.glyph -> N.
  Notation afont := (abs_font body_id name_id priv_id mat_id tt_id).

  Lemma nG_indep : forall macrune f, nG (afont macrune f) = nG (abs0 macrune f).
  Proof.
    intros macrune f. unfold nG, abs0, abs_font. cbn [f_glyphs]. unfold abs_glyphs.
    destruct (cf_outl f); rewrite !mapi_length; reflexivity.
  Qed.

  Lemma wf_subb_indep : forall macrune f s, wf_subb (afont macrune f) s = wf_subb (abs0 macrune f) s.
  Proof.
    intros macrune f s. unfold wf_subb, wf_ligb, gid_ok. rewrite nG_indep. reflexivity.
  Qed.

  Lemma wf_indep : forall macrune f, wf_fontb (afont macrune f) = wf_fontb (abs0 macrune f).
  Proof.
    intros macrune f. unfold wf_fontb. rewrite nG_indep.
    assert (Hg : forallb (wf_glyphb (afont macrune f)) (f_glyphs (afont macrune f)) =
                 forallb (wf_glyphb (abs0 macrune f)) (f_glyphs (abs0 macrune f))).
    { unfold abs0, abs_font. cbn [f_glyphs]. unfold abs_glyphs.
      destruct (cf_outl f) as [o|go] eqn:Eol.
      - apply forallb_mapi2. intros k x. unfold wf_glyphb. cbn [f_kind f_privs f_mats abs_kind abs_privs abs_mats].
        cbn [abs_cff_glyph g_fd]. rewrite !map_length. reflexivity.
      - apply forallb_mapi2. intros k x. unfold wf_glyphb. cbn [f_kind abs_kind abs_glyf_glyph g_comps].
        apply forallb_ext'. intros c. unfold gid_ok, nG. cbn [f_glyphs abs_glyphs]. rewrite !mapi_length. reflexivity. }
    rewrite Hg.
    assert (Hs : forallb (forallb (wf_subb (afont macrune f))) (f_gsub (afont macrune f)) =
                 forallb (forallb (wf_subb (abs0 macrune f))) (f_gsub (abs0 macrune f))).
    { unfold abs0 at 2. cbn [abs_font f_gsub]. apply forallb_ext'. intros lk. apply forallb_ext'. intros s. apply wf_subb_indep. }
    rewrite Hs. reflexivity.
  Qed.

  Lemma wf_list_indep : forall macrune f gl, wf_listb (afont macrune f) gl = wf_listb (abs0 macrune f) gl.
  Proof. intros macrune f gl. unfold wf_listb, gid_ok. rewrite nG_indep. reflexivity. Qed.
End Indep.

(* ------------------------------------------------------------------ *)
(* decidable equality of the concrete values                            *)

Lemma real_eq_dec : forall a b : C13B.ModelNum.real, {a = b} + {a <> b}.
Proof. decide equality; try apply Z.eq_dec; apply bool_dec. Qed.

Lemma priv_eq_dec : forall a b : C13B.ModelFont.privdict, {a = b} + {a <> b}.
Proof. decide equality; try apply Z.eq_dec; try apply bool_dec; try apply real_eq_dec; apply (list_eq_dec Z.eq_dec). Qed.

Lemma bytes_eq_dec : forall a b : list N, {a = b} + {a <> b}.
Proof. apply (list_eq_dec N.eq_dec). Qed.

Lemma ttglyph_eq_dec : forall a b : option C11.Model.glyph, {a = b} + {a <> b}.
Proof.
  decide equality. decide equality.
  - decide equality.
    + apply bytes_eq_dec.
    + apply Z.eq_dec.
    + decide equality. apply bytes_eq_dec.
    + apply (list_eq_dec). decide equality; try apply N.eq_dec. apply bytes_eq_dec.
  - decide equality; apply Z.eq_dec.
Qed.

(* the id function that tells one value from all others *)
Definition ind {X} (dec : forall a b : X, {a = b} + {a <> b}) (v : X) : X -> N :=
  fun w => if dec w v then 1 else 0.

Lemma ind_eq {X} dec (v w : X) : ind dec v w = ind dec v v -> w = v.
Proof. unfold ind. destruct (dec v v) as [_|H]; [|contradiction]. destruct (dec w v); [auto|discriminate]. Qed.

(* ------------------------------------------------------------------ *)
(* glyph_i_is_original, concretely                                      *)

Section Transfer.
  Variable macrune : N -> N.

  (* C10's domain, decided on the abstraction with trivial ids *)
  Definition in_c10_domain (f : cfont) (gl : list N) : Prop :=
    wf_fontb (abs0 macrune f) = true /\ wf_listb (abs0 macrune f) gl = true.

  Lemma run_abstract : forall body_id name_id priv_id mat_id tt_id orc f gl rc,
    in_c10_domain f gl -> M_subset_c macrune orc f gl = Ok rc ->
    wf_fontb (abs_font body_id name_id priv_id mat_id tt_id macrune f) = true /\
    wf_listb (abs_font body_id name_id priv_id mat_id tt_id macrune f) gl = true /\
    M_subset orc (abs_font body_id name_id priv_id mat_id tt_id macrune f) gl =
      Ok (abs_result body_id name_id priv_id mat_id tt_id rc).
  Proof.
    intros body_id name_id priv_id mat_id tt_id orc f gl rc [H1 H2] E.
    rewrite wf_indep, wf_list_indep. split; [exact H1|]. split; [exact H2|].
    apply subset_refines. exact E.
  Qed.

  (* CFF: glyph i of the subset carries the charstring, width, name, CID,
     private dictionary and font matrix of the original glyph listed at i *)
  Theorem glyph_i_is_original_cff : forall orc f gl rc o o',
    in_c10_domain f gl -> M_subset_c macrune orc f gl = Ok rc ->
    cf_outl f = OCff o -> cr_outl rc = OCff o' ->
    (forall i g, nth_error gl i = Some g -> nth_error (cr_sel rc) i = Some g) /\
    length (o_glyphs o') = length (cr_sel rc) /\
    forall i g, nth_error (cr_sel rc) i = Some g ->
      exists x y p,
        nth_error (o_glyphs o) (N.to_nat g) = Some x /\ nth_error (o_glyphs o') i = Some y /\
        cg_body y = cg_body x /\ cg_width y = cg_width x /\ cg_name y = cg_name x /\
        cid_at o' i = cid_at o (N.to_nat g) /\
        nth_error (o_private o) (N.to_nat (fd_at o (N.to_nat g))) = Some p /\
        nth_error (o_private o') (N.to_nat (fd_at o' i)) = Some p /\
        (is_cid_keyed o = true -> exists m,
           nth_error (o_matrices o) (N.to_nat (fd_at o (N.to_nat g))) = Some m /\
           nth_error (o_matrices o') (N.to_nat (fd_at o' i)) = Some m).
  Proof.
    intros orc f gl rc o o' Hdom E Ho Ho'.
    (* any ids: the glyph list and the count *)
    destruct (run_abstract zid zid zid zid zid orc f gl rc Hdom E) as [W1 [W2 R0]].
    destruct (C10.Props.glyph_i_is_original orc _ gl W1 W2) as [r [Er [Hlen [Hpre _]]]].
    rewrite R0 in Er. inversion Er; subst r. cbn [abs_result r_sel r_font f_glyphs] in Hlen, Hpre.
    rewrite Ho' in Hlen. cbn [abs_glyphs] in Hlen. rewrite mapi_length in Hlen.
    split; [exact Hpre|]. split; [exact Hlen|].
    intros i g Hi.
    (* the original glyph and its dictionary exist *)
    assert (Hx : exists x, nth_error (o_glyphs o) (N.to_nat g) = Some x).
    { destruct (C10.Props.glyph_i_is_original orc _ gl W1 W2) as [r [Er' [_ [_ Hg]]]].
      rewrite R0 in Er'. inversion Er'; subst r. cbn [abs_result r_sel] in Hg.
      destruct (Hg i g Hi) as [xa [_ [Hxa _]]]. cbn [abs_font f_glyphs] in Hxa. rewrite Ho in Hxa.
      cbn [abs_glyphs] in Hxa. rewrite mapi_nth in Hxa.
      destruct (nth_error (o_glyphs o) (N.to_nat g)) as [x|]; [eauto|discriminate]. }
    destruct Hx as [x Hx].
    (* choose ids that single out the values of the original glyph *)
    set (bid := ind bytes_eq_dec (cg_body x)). set (nid := ind bytes_eq_dec (cg_name x)).
    pose (pid0 := fun p : C13B.ModelFont.privdict => 0).
    destruct (run_abstract bid nid zid zid zid orc f gl rc Hdom E) as [V1 [V2 R1]].
    destruct (C10.Props.glyph_i_is_original orc _ gl V1 V2) as [r [Er1 [_ [_ Hg]]]].
    rewrite R1 in Er1. inversion Er1; subst r. cbn [abs_result r_sel r_font] in Hg.
    destruct (Hg i g Hi) as [xa [ya [Hxa [Hya [Eo [Ew [En [Ec [Hp Hm]]]]]]]]].
    cbn [abs_font f_glyphs] in Hxa. rewrite Ho in Hxa. cbn [abs_glyphs] in Hxa. rewrite mapi_nth, Hx in Hxa.
    cbn [option_map Nat.add] in Hxa. inversion Hxa; subst xa. clear Hxa.
    cbn [f_glyphs] in Hya. rewrite Ho' in Hya. cbn [abs_glyphs] in Hya. rewrite mapi_nth in Hya.
    destruct (nth_error (o_glyphs o') i) as [y|] eqn:Hy; [|discriminate].
    cbn [option_map Nat.add] in Hya. inversion Hya; subst ya. clear Hya.
    cbn [abs_cff_glyph g_outline g_width g_name g_cid] in Eo, Ew, En, Ec.
    apply ind_eq in Eo. apply ind_eq in En.
    (* the private dictionary *)
    assert (Hk : f_kind (abs_font bid nid zid zid zid macrune f) <> KGlyf).
    { cbn [abs_font f_kind]. rewrite Ho. cbn [abs_kind]. unfold abs_cff_kind. destruct (is_cid_keyed o); discriminate. }
    destruct (Hp Hk) as [_ Hpne]. unfold priv_of, nthN in Hpne. cbn [f_privs abs_cff_glyph g_fd] in Hpne.
    rewrite Ho' in Hpne. cbn [abs_privs] in Hpne. rewrite nth_error_map in Hpne.
    destruct (nth_error (o_private o') (N.to_nat (fd_at o' i))) as [p'|] eqn:Hp'; [|exfalso; apply Hpne; reflexivity].
    set (pid := ind priv_eq_dec p').
    destruct (run_abstract zid zid pid zid zid orc f gl rc Hdom E) as [U1 [U2 R2]].
    destruct (C10.Props.glyph_i_is_original orc _ gl U1 U2) as [r [Er2 [_ [_ Hg2]]]].
    rewrite R2 in Er2. inversion Er2; subst r. cbn [abs_result r_sel r_font] in Hg2.
    destruct (Hg2 i g Hi) as [xa [ya [Hxa [Hya [_ [_ [_ [_ [Hp2 _]]]]]]]]].
    cbn [abs_font f_glyphs] in Hxa. rewrite Ho in Hxa. cbn [abs_glyphs] in Hxa. rewrite mapi_nth, Hx in Hxa.
    cbn [option_map Nat.add] in Hxa. inversion Hxa; subst xa. clear Hxa.
    cbn [f_glyphs] in Hya. rewrite Ho' in Hya. cbn [abs_glyphs] in Hya. rewrite mapi_nth, Hy in Hya.
    cbn [option_map Nat.add] in Hya. inversion Hya; subst ya. clear Hya.
    assert (Hk2 : f_kind (abs_font zid zid pid zid zid macrune f) <> KGlyf).
    { cbn [abs_font f_kind]. rewrite Ho. cbn [abs_kind]. unfold abs_cff_kind. destruct (is_cid_keyed o); discriminate. }
    destruct (Hp2 Hk2) as [Hpe _]. unfold priv_of, nthN in Hpe. cbn [f_privs abs_font abs_cff_glyph g_fd] in Hpe.
    rewrite Ho, Ho' in Hpe. cbn [abs_privs] in Hpe. rewrite !nth_error_map, Hp' in Hpe. cbn [option_map] in Hpe.
    destruct (nth_error (o_private o) (N.to_nat (fd_at o (N.to_nat g)))) as [p|] eqn:Hpo; [|discriminate].
    cbn [option_map] in Hpe. inversion Hpe as [Hpi]. symmetry in Hpi. apply ind_eq in Hpi. subst p.
    exists x, y, p'. split; [first [exact Hx|reflexivity]|]. split; [first [exact Hy|reflexivity]|].
    split; [exact Eo|]. split; [exact Ew|].
    split; [exact En|]. split; [exact Ec|]. split; [first [exact Hpo|reflexivity]|]. split; [first [exact Hp'|reflexivity]|].
    (* the matrix *)
    intros Hcid.
    assert (Hkc : f_kind (abs_font bid nid zid zid zid macrune f) = KCid).
    { cbn [abs_font f_kind]. rewrite Ho. cbn [abs_kind]. unfold abs_cff_kind. rewrite Hcid. reflexivity. }
    destruct (Hm Hkc) as [_ Hmne]. unfold mat_of, nthN in Hmne. cbn [f_mats abs_cff_glyph g_fd] in Hmne.
    rewrite Ho' in Hmne. cbn [abs_mats] in Hmne. rewrite nth_error_map in Hmne.
    destruct (nth_error (o_matrices o') (N.to_nat (fd_at o' i))) as [m'|] eqn:Hm'; [|exfalso; apply Hmne; reflexivity].
    set (mid := ind (list_eq_dec real_eq_dec) m').
    destruct (run_abstract zid zid zid mid zid orc f gl rc Hdom E) as [T1 [T2 R3]].
    destruct (C10.Props.glyph_i_is_original orc _ gl T1 T2) as [r [Er3 [_ [_ Hg3]]]].
    rewrite R3 in Er3. inversion Er3; subst r. cbn [abs_result r_sel r_font] in Hg3.
    destruct (Hg3 i g Hi) as [xa [ya [Hxa [Hya [_ [_ [_ [_ [_ Hm3]]]]]]]]].
    cbn [abs_font f_glyphs] in Hxa. rewrite Ho in Hxa. cbn [abs_glyphs] in Hxa. rewrite mapi_nth, Hx in Hxa.
    cbn [option_map Nat.add] in Hxa. inversion Hxa; subst xa. clear Hxa.
    cbn [f_glyphs] in Hya. rewrite Ho' in Hya. cbn [abs_glyphs] in Hya. rewrite mapi_nth, Hy in Hya.
    cbn [option_map Nat.add] in Hya. inversion Hya; subst ya. clear Hya.
    assert (Hk3 : f_kind (abs_font zid zid zid mid zid macrune f) = KCid).
    { cbn [abs_font f_kind]. rewrite Ho. cbn [abs_kind]. unfold abs_cff_kind. rewrite Hcid. reflexivity. }
    destruct (Hm3 Hk3) as [Hme _]. unfold mat_of, nthN in Hme. cbn [f_mats abs_font abs_cff_glyph g_fd] in Hme.
    rewrite Ho, Ho' in Hme. cbn [abs_mats] in Hme. rewrite !nth_error_map, Hm' in Hme. cbn [option_map] in Hme.
    destruct (nth_error (o_matrices o) (N.to_nat (fd_at o (N.to_nat g)))) as [m|] eqn:Hmo; [|discriminate].
    cbn [option_map] in Hme. inversion Hme as [Hmi]. symmetry in Hmi. apply ind_eq in Hmi. subst m.
    exists m'. split; [first [exact Hmo|reflexivity]|first [exact Hm'|reflexivity]].
  Qed.

  (* TrueType: every component reference of the subset leads to a glyph that
     is the original component: same glyph data up to its own component
     indices (in particular blank iff blank), same width, same name *)
  Theorem composite_components_identical_glyf : forall orc f gl rc go go',
    in_c10_domain f gl -> M_subset_c macrune orc f gl = Ok rc ->
    cf_outl f = OGlyf go -> cr_outl rc = OGlyf go' ->
    forall i g x y, nth_error (cr_sel rc) i = Some g ->
      nth_error (go_glyphs go) (N.to_nat g) = Some x -> nth_error (go_glyphs go') i = Some y ->
      length (C11.Model.components y) = length (C11.Model.components x) /\
      forall k c, nth_error (C11.Model.components x) k = Some c ->
        exists c' xc yc,
          nth_error (C11.Model.components y) k = Some c' /\
          nth_error (cr_sel rc) (N.to_nat c') = Some c /\
          nth_error (go_glyphs go) (N.to_nat c) = Some xc /\ nth_error (go_glyphs go') (N.to_nat c') = Some yc /\
          C11.Model.forget_gids yc = C11.Model.forget_gids xc /\
          (yc = None <-> xc = None) /\
          nth (N.to_nat c') (go_widths go') 0%Z = nth (N.to_nat c) (go_widths go) 0%Z.
  Proof.
    intros orc f gl rc go go' Hdom E Ho Ho' i g x y Hi Hx Hy.
    assert (Hkind : forall b n p m t, f_kind (abs_font b n p m t macrune f) = KGlyf).
    { intros. cbn [abs_font f_kind]. rewrite Ho. reflexivity. }
    (* references lead to the right position *)
    destruct (run_abstract zid zid zid zid zid orc f gl rc Hdom E) as [W1 [W2 R0]].
    destruct (C10.Props.closure_minimal_and_closed orc _ gl W1 W2) as [r [Er [_ [_ [_ Hcomp]]]]].
    rewrite R0 in Er. inversion Er; subst r. cbn [abs_result r_sel r_font] in Hcomp.
    specialize (Hcomp (Hkind _ _ _ _ _) i g (abs_glyf_glyph zid zid go (N.to_nat g) x) (abs_glyf_glyph zid zid go' i y) Hi).
    cbn [abs_font f_glyphs] in Hcomp. rewrite Ho, Ho' in Hcomp. cbn [abs_glyphs] in Hcomp.
    rewrite !mapi_nth, Hx, Hy in Hcomp. cbn [option_map Nat.add abs_glyf_glyph g_comps] in Hcomp.
    destruct (Hcomp eq_refl eq_refl) as [Hlen Hpos].
    split; [exact Hlen|]. intros k c Hk.
    destruct (Hpos k c Hk) as [c' [Hc' Hsel]].
    (* the component exists on both sides *)
    destruct (C10.Props.composite_components_identical orc _ gl W1 W2 (Hkind _ _ _ _ _)) as [r [Er' Hid]].
    rewrite R0 in Er'. inversion Er'; subst r. cbn [abs_result r_sel r_font] in Hid.
    specialize (Hid i g (abs_glyf_glyph zid zid go (N.to_nat g) x) (abs_glyf_glyph zid zid go' i y) Hi).
    cbn [abs_font f_glyphs] in Hid. rewrite Ho, Ho' in Hid. cbn [abs_glyphs] in Hid.
    rewrite !mapi_nth, Hx, Hy in Hid. cbn [option_map Nat.add] in Hid.
    destruct (Hid eq_refl eq_refl k c Hk) as [c2 [xca [yca [Hc2 [Hxca [Hyca _]]]]]].
    cbn [abs_glyf_glyph g_comps] in Hc2. rewrite Hc' in Hc2. inversion Hc2; subst c2.
    rewrite mapi_nth in Hxca, Hyca.
    destruct (nth_error (go_glyphs go) (N.to_nat c)) as [xc|] eqn:Hxc; [|discriminate].
    destruct (nth_error (go_glyphs go') (N.to_nat c')) as [yc|] eqn:Hyc; [|discriminate].
    clear Hxca Hyca xca yca.
    (* ids that single out the original component *)
    set (tid := ind ttglyph_eq_dec (C11.Model.forget_gids xc)).
    destruct (run_abstract zid zid zid zid tid orc f gl rc Hdom E) as [V1 [V2 R1]].
    destruct (C10.Props.composite_components_identical orc _ gl V1 V2 (Hkind _ _ _ _ _)) as [r [Er1 Hid1]].
    rewrite R1 in Er1. inversion Er1; subst r. cbn [abs_result r_sel r_font] in Hid1.
    specialize (Hid1 i g (abs_glyf_glyph zid tid go (N.to_nat g) x) (abs_glyf_glyph zid tid go' i y) Hi).
    cbn [abs_font f_glyphs] in Hid1. rewrite Ho, Ho' in Hid1. cbn [abs_glyphs] in Hid1.
    rewrite !mapi_nth, Hx, Hy in Hid1. cbn [option_map Nat.add] in Hid1.
    destruct (Hid1 eq_refl eq_refl k c Hk) as [c3 [xca [yca [Hc3 [Hxca [Hyca [Eo [Ew _]]]]]]]].
    cbn [abs_glyf_glyph g_comps] in Hc3. rewrite Hc' in Hc3. inversion Hc3; subst c3.
    rewrite mapi_nth, Hxc in Hxca. rewrite mapi_nth, Hyc in Hyca. cbn [option_map Nat.add] in Hxca, Hyca.
    inversion Hxca; subst xca. inversion Hyca; subst yca.
    cbn [abs_glyf_glyph g_outline g_width] in Eo, Ew.
    exists c', xc, yc. split; [exact Hc'|]. split; [exact Hsel|]. split; [first [exact Hxc|reflexivity]|]. split; [first [exact Hyc|reflexivity]|].
    assert (Hforget : C11.Model.forget_gids yc = C11.Model.forget_gids xc /\ (yc = None <-> xc = None)).
    { unfold tt_outline in Eo. destruct yc as [yc|], xc as [xc|].
      - apply N.succ_inj in Eo. apply ind_eq in Eo. split; [exact Eo|]. split; discriminate.
      - exfalso. unfold blank_outline in Eo. lia.
      - exfalso. unfold blank_outline in Eo. lia.
      - split; [reflexivity|]. split; reflexivity. }
    split; [exact (proj1 Hforget)|]. split; [exact (proj2 Hforget)|]. exact Ew.
  Qed.
End Transfer.
