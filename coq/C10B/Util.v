(* C10B/Util.v — helper lemmas: the element-by-element loops (mapo), checked
   indexing (idx), lists. *)
From Coq Require Import List NArith ZArith Bool Arith Lia.
From Coq Require Import ZifyBool ZifyNat ZifyN.
From Common Require Import Bytes Outcome.
From C10B Require Import Model.
Import ListNotations.
Local Open Scope N_scope.

Lemma idx_Ok {X} : forall (l : list X) i x, idx l i = Ok x <-> nth_error l (N.to_nat i) = Some x.
Proof.
  intros l i x. unfold idx. destruct (nth_error l (N.to_nat i)); split; intros H; congruence.
Qed.

Lemma idx_lt {X} : forall (l : list X) i, i < N.of_nat (length l) -> exists x, idx l i = Ok x.
Proof.
  intros l i H. unfold idx. destruct (nth_error l (N.to_nat i)) eqn:E; [eauto|].
  apply nth_error_None in E. lia.
Qed.

Lemma idx_cases {X} : forall (l : list X) i, (exists x, idx l i = Ok x) \/ idx l i = Panic.
Proof. intros l i. unfold idx. destruct (nth_error l (N.to_nat i)); eauto. Qed.

Lemma mapo_Forall2 {X Y} (f : X -> outcome Y) : forall l ys,
  mapo f l = Ok ys -> Forall2 (fun x y => f x = Ok y) l ys.
Proof.
  induction l as [|x r IH]; cbn [mapo]; intros ys H.
  - inversion H. constructor.
  - destruct (f x) as [y| | |] eqn:E; cbn [obind] in H; try discriminate.
    destruct (mapo f r) as [ys'| | |] eqn:E'; cbn [obind] in H; try discriminate.
    inversion H; subst. constructor; [exact E|]. apply IH. reflexivity.
Qed.

Lemma Forall2_mapo {X Y} (f : X -> outcome Y) : forall l ys,
  Forall2 (fun x y => f x = Ok y) l ys -> mapo f l = Ok ys.
Proof.
  induction 1 as [|x y l ys H _ IH]; cbn [mapo]; [reflexivity|].
  rewrite H. cbn [obind]. rewrite IH. reflexivity.
Qed.

Lemma mapo_total {X Y} (f : X -> outcome Y) : forall l,
  (forall x, In x l -> exists y, f x = Ok y) -> exists ys, mapo f l = Ok ys.
Proof.
  induction l as [|x r IH]; intros H; cbn [mapo]; [eauto|].
  destruct (H x (or_introl eq_refl)) as [y Ey]. rewrite Ey. cbn [obind].
  destruct IH as [ys Eys]; [intros z Hz; apply H; right; exact Hz|].
  rewrite Eys. cbn [obind]. eauto.
Qed.

Lemma mapo_length {X Y} (f : X -> outcome Y) : forall l ys, mapo f l = Ok ys -> length ys = length l.
Proof.
  intros l ys H. apply mapo_Forall2 in H. induction H; cbn [length]; congruence.
Qed.

Lemma mapo_nth {X Y} (f : X -> outcome Y) : forall l ys i x,
  mapo f l = Ok ys -> nth_error l i = Some x -> exists y, nth_error ys i = Some y /\ f x = Ok y.
Proof.
  intros l ys i x H. apply mapo_Forall2 in H. revert i x.
  induction H as [|a b l ys Hab _ IH]; intros [|i] x Hx; cbn [nth_error] in *; try discriminate.
  - inversion Hx; subst. eauto.
  - apply IH. exact Hx.
Qed.

Lemma mapo_nth_inv {X Y} (f : X -> outcome Y) : forall l ys i y,
  mapo f l = Ok ys -> nth_error ys i = Some y -> exists x, nth_error l i = Some x /\ f x = Ok y.
Proof.
  intros l ys i y H. apply mapo_Forall2 in H. revert i y.
  induction H as [|a b l ys Hab _ IH]; intros [|i] y Hy; cbn [nth_error] in *; try discriminate.
  - inversion Hy; subst. eauto.
  - apply IH. exact Hy.
Qed.

Lemma mapo_ext {X Y} (f g : X -> outcome Y) : forall l,
  (forall x, In x l -> f x = g x) -> mapo f l = mapo g l.
Proof.
  induction l as [|x r IH]; intros H; cbn [mapo]; [reflexivity|].
  rewrite (H x (or_introl eq_refl)). rewrite IH; [reflexivity|]. intros z Hz. apply H. right; exact Hz.
Qed.

(* a loop over checked indexing is a map when every index is in range *)
Lemma mapo_idx {X} (l : list X) : forall gs ys,
  mapo (idx l) gs = Ok ys ->
  Forall2 (fun g y => nth_error l (N.to_nat g) = Some y) gs ys.
Proof.
  intros gs ys H. apply mapo_Forall2 in H. induction H; constructor; [apply idx_Ok; assumption|assumption].
Qed.

Lemma mapo_not_fuel {X Y} (f : X -> outcome Y) : forall l,
  (forall x, f x <> OutOfFuel) -> mapo f l <> OutOfFuel.
Proof.
  induction l as [|x r IH]; intros H; cbn [mapo]; [discriminate|].
  specialize (H x) as Hx. destruct (f x); cbn [obind]; try congruence.
  specialize (IH H). destruct (mapo f r); cbn [obind]; congruence.
Qed.

Lemma Forall2_nth_l {X Y} (R : X -> Y -> Prop) : forall l l' i a,
  Forall2 R l l' -> nth_error l i = Some a -> exists b, nth_error l' i = Some b /\ R a b.
Proof.
  intros l l' i a H. revert i a. induction H as [|x y l l' Hxy _ IH]; intros [|i] a Ha; cbn [nth_error] in *; try discriminate.
  - inversion Ha; subst. eauto.
  - apply IH. exact Ha.
Qed.

Lemma Forall2_len {X Y} (R : X -> Y -> Prop) : forall l l', Forall2 R l l' -> length l = length l'.
Proof. induction 1; cbn [length]; congruence. Qed.

Lemma Forall2_snoc {X Y} (R : X -> Y -> Prop) : forall l l' a b,
  Forall2 R l l' -> R a b -> Forall2 R (l ++ [a]) (l' ++ [b]).
Proof. intros l l' a b H Hab. apply Forall2_app; [exact H|]. constructor; [exact Hab|constructor]. Qed.

Lemma nth_error_map_some {X Y} (f : X -> Y) : forall l i x, nth_error l i = Some x -> nth_error (map f l) i = Some (f x).
Proof. intros l i x H. rewrite nth_error_map, H. reflexivity. Qed.

Lemma Forall2_imp {X Y} (R R' : X -> Y -> Prop) : forall l l',
  (forall a b, R a b -> R' a b) -> Forall2 R l l' -> Forall2 R' l l'.
Proof. intros l l' H H2. induction H2; constructor; auto. Qed.
