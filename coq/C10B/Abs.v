(* C10B/Abs.v — the abstraction function from concrete fonts to the abstract
   fonts of C10/Model.v.  Definitions only.

   C10 treats outlines, glyph names, private dictionaries and font matrices as
   opaque ids.  The abstraction is parameterised by the functions that assign
   those ids; the refinement theorem (Proofs_abs.v) holds for EVERY choice of
   them, which is what lets the theorems of C10 be read back as statements
   about the concrete values (choose functions that separate the values in
   question).

     CFF glyph i      outline id = body_id (glyph program), width, name id,
                      CID = GIDToCID[i], FD = FDSelect(i), no components
     TrueType glyph i outline id = 0 for a nil glyph, 1 + tt_id (the glyph
                      with its component indices erased, C11's forget_gids)
                      otherwise; components = C11's components
     cmap             the subtables Subset can decode, as maps
     layout tables    C10's own lists (nil = no lookups) *)
From Coq Require Import List NArith ZArith Bool Arith.
From Common Require Import Bytes Outcome.
From C10 Require Import Model.
From C10B Require Import Model Spec.
Import ListNotations.
Local Open Scope N_scope.

Fixpoint mapi {X Y} (f : nat -> X -> Y) (i : nat) (l : list X) : list Y :=
  match l with
  | [] => []
  | x :: r => f i x :: mapi f (S i) r
  end.

Section Abs.
  Variable body_id : list N -> N.
  Variable name_id : list N -> N.
  Variable priv_id : C13B.ModelFont.privdict -> N.
  Variable mat_id : list C13B.ModelNum.real -> N.
  Variable tt_id : option C11.Model.glyph -> N.

  (* ---- CFF ---- *)
  Definition cid_at (o : outlines) (i : nat) : N :=
    match o_gid2cid o with Some l => nth i l 0 | None => 0 end.

  Definition fd_at (o : outlines) (i : nat) : N :=
    match o_fdselect o with Some sel => fdN sel (N.of_nat i) | None => 0 end.

  Definition abs_cff_glyph (o : outlines) (i : nat) (x : cglyph) : glyph :=
    mkGlyph (body_id (cg_body x)) (cg_width x) (name_id (cg_name x)) (cid_at o i) (fd_at o i) [].

  Definition abs_cff_kind (o : outlines) : kind := if is_cid_keyed o then KCid else KCff.

  (* ---- TrueType ---- *)
  Definition tt_outline (g : option C11.Model.glyph) : N :=
    match g with
    | None => blank_outline
    | Some _ => N.succ (tt_id (C11.Model.forget_gids g))
    end.

  Definition abs_glyf_glyph (go : goutlines) (i : nat) (g : option C11.Model.glyph) : glyph :=
    mkGlyph (tt_outline g) (nth i (go_widths go) 0%Z)
            (match go_names go with Some l => name_id (nth i l []) | None => 0 end)
            0 0 (C11.Model.components g).

  (* ---- fonts ---- *)
  Definition abs_kind (ol : coutl) : kind :=
    match ol with OCff o => abs_cff_kind o | OGlyf _ => KGlyf end.

  Definition abs_glyphs (ol : coutl) : list glyph :=
    match ol with
    | OCff o => mapi (abs_cff_glyph o) 0 (o_glyphs o)
    | OGlyf go => mapi (abs_glyf_glyph go) 0 (go_glyphs go)
    end.

  Definition abs_privs (ol : coutl) : list N :=
    match ol with OCff o => map priv_id (o_private o) | OGlyf _ => [] end.

  Definition abs_mats (ol : coutl) : list N :=
    match ol with OCff o => map mat_id (o_matrices o) | OGlyf _ => [] end.

  Definition abs_enc (ol : coutl) : option (list N) :=
    match ol with OCff o => o_encoding o | OGlyf _ => None end.

  (* the subtables of the original that Subset can decode *)
  Fixpoint abs_cmaps (macrune : N -> N) (t : list (C09.ModelT.key * list N)) : list (list (N * N)) :=
    match t with
    | [] => []
    | (_, data) :: r =>
        match C09.ModelT.M_get_sub macrune raw_key data with
        | Ok (C09.ModelT.SubMap m) => m :: abs_cmaps macrune r
        | _ => abs_cmaps macrune r
        end
    end.

  Definition opt_list {X} (o : option (list X)) : list X := match o with Some l => l | None => [] end.

  Definition abs_font (macrune : N -> N) (f : cfont) : font :=
    mkFont (abs_kind (cf_outl f)) (abs_glyphs (cf_outl f)) (abs_privs (cf_outl f)) (abs_mats (cf_outl f))
           (match cf_cmap f with Some t => abs_cmaps macrune t | None => [] end)
           (abs_enc (cf_outl f)) (opt_list (cf_gsub f)) (opt_list (cf_gpos f)).

  Definition abs_result (r : cresult) : result :=
    mkResult (cr_sel r)
      (mkFont (abs_kind (cr_outl r)) (abs_glyphs (cr_outl r)) (abs_privs (cr_outl r)) (abs_mats (cr_outl r))
              (match cr_cmap r with Some l => map (fun e => csub_map (snd e)) l | None => [] end)
              (abs_enc (cr_outl r)) (opt_list (cr_gsub r)) (opt_list (cr_gpos r))).
End Abs.
