(* C10B/Proofs_write.v — "the subset can be written and read back", for
   CID-keyed outlines, inside Coq: the subset of outlines that lie in the
   domain of C13B's write/read round trip lies in that domain again, so
   C13B.write_read_roundtrip applies to it. *)
From Coq Require Import List NArith ZArith Bool Arith Lia.
From Coq Require Import ZifyBool ZifyNat ZifyN.
From Common Require Import Bytes Outcome.
From Gen Require Import C10B.
From C10 Require Import Model Spec Util Proofs_state.
From C13 Require Util.
From C13B Require ModelNum ModelFont Proofs_num Proofs_cdict Proofs_fields Proofs_cid2 Proofs_simple Props.
From C10B Require Import Model Spec Util Abs Proofs_cff.
Import ListNotations.
Local Open Scope N_scope.

Module FF := C13B.ModelFont.

(* the font cff.Font.Write is given: FontInfo, the integer default / nominal
   widths encodeCharStrings returns, and the outlines (glyph program bytes in
   the role of the charstrings; FDSelect as the list of its values) *)
Definition to_c13b (info : FF.fontinfo) (defw nomw : Z) (o : outlines) : FF.font :=
  FF.mkFont info (o_ros o) (map (fun g => (cg_name g, cg_body g)) (o_glyphs o)) defw nomw (o_private o)
            (map (fd_at o) (seq 0 (length (o_glyphs o))))
            (opt_list (o_encoding o)) (opt_list (o_gid2cid o)) (o_matrices o).

Lemma tab_ok_In {X} : forall (tbl : list X) used out p, tab_ok tbl used out -> In p out -> In p tbl.
Proof.
  intros tbl used out p H Hin. induction H as [|fd q used out Hq _ IH]; [destruct Hin|].
  destruct Hin as [<-|Hin]; [eapply nth_error_In; exact Hq|apply IH; exact Hin].
Qed.

Lemma used_fds_bounded : forall sel gl n,
  (forall g, In g gl -> fdN sel g < n) -> (length (used_fds sel gl) <= N.to_nat n)%nat.
Proof.
  intros sel gl n H. apply NoDup_bounded_length; [apply first_occ_spec|].
  intros fd Hfd. unfold used_fds in Hfd. apply (proj2 (first_occ_spec _ _)) in Hfd. destruct Hfd as [Hfd _].
  apply in_map_iff in Hfd. destruct Hfd as [g [<- Hg]]. specialize (H g Hg). lia.
Qed.

Theorem cid_subset_in_write_domain : forall info defw nomw o sel gl reg ord sup o',
  C13B.Proofs_cid2.font_ok_cid (to_c13b info defw nomw o) reg ord sup ->
  cff_pre o sel gl -> gl <> [] -> N.of_nat (length gl) < 65536 ->
  M_cff_subset o gl = Ok o' ->
  C13B.Proofs_cid2.font_ok_cid (to_c13b info defw nomw o') reg ord sup.
Proof.
  intros info defw nomw o sel gl reg ord sup o' Hok Hpre Hne Hlen E.
  destruct (cff_subset_body_spec c10b_cffSingleFD o sel gl (init gl) eq_refl Hpre) as [o2 [E2 S]].
  unfold M_cff_subset in E. rewrite E in E2. inversion E2; subst o2. clear E2.
  destruct S as [Sg Sp Sm [sel' [Es' Hs']] Se Sr Sc].
  destruct Hok as [Hros [Hsup [Hng [Hfi [Hnp [Hpd [Hpm [Hmat [Hdw [Hnw [Hfl [Hfd Hcl]]]]]]]]]]]].
  cbn [to_c13b FF.f_ros FF.f_glyphs FF.f_info FF.f_private FF.f_fontmatrices FF.f_defw FF.f_nomw
       FF.f_fdselect FF.f_gid2cid] in *.
  assert (Hcid : is_cid_keyed o = true) by (unfold is_cid_keyed; rewrite Hros; reflexivity).
  rewrite Hcid in Sm.
  assert (Hlg : length (o_glyphs o') = length gl) by (symmetry; eapply Forall2_len; exact Sg).
  assert (Hlp : length (o_private o') = length (used_fds sel gl)) by (symmetry; eapply Forall2_len; exact Sp).
  assert (Hlm : length (o_matrices o') = length (used_fds sel gl)) by (symmetry; eapply Forall2_len; exact Sm).
  assert (Hfdlt : forall g, In g gl -> fdN sel g < N.of_nat (length (o_private o))).
  { intros g Hg. destruct Hpre as [_ Hp]. destruct (Hp g Hg) as [_ [[fd [Efd [Hlt _]]] _]].
    unfold fdN. rewrite Efd, N2Z.id. exact Hlt. }
  unfold C13B.Proofs_cid2.font_ok_cid.
  cbn [to_c13b FF.f_ros FF.f_glyphs FF.f_info FF.f_private FF.f_fontmatrices FF.f_defw FF.f_nomw
       FF.f_fdselect FF.f_gid2cid].
  split; [rewrite Sr; exact Hros|]. split; [exact Hsup|].
  split; [rewrite C13.Util.lenN_length, map_length, Hlg; exact Hlen|]. split; [exact Hfi|].
  split.
  { rewrite Hlp. split.
    - destruct gl as [|g0 gr]; [contradiction|].
      assert (Hin : In (fdN sel g0) (used_fds sel (g0 :: gr))) by (apply fdN_in_used; left; reflexivity).
      destruct (used_fds sel (g0 :: gr)); [destruct Hin|cbn [length]; lia].
    - pose proof (used_fds_bounded sel gl _ Hfdlt). lia. }
  split; [apply Forall_forall; intros p Hp; rewrite Forall_forall in Hpd; apply Hpd; eapply tab_ok_In; eauto|].
  split; [congruence|].
  split; [apply Forall_forall; intros m Hm; rewrite Forall_forall in Hmat; apply Hmat; eapply tab_ok_In; eauto|].
  split; [exact Hdw|]. split; [exact Hnw|].
  split; [rewrite !map_length, seq_length; reflexivity|].
  split.
  { apply Forall_forall. intros fd Hfd'. apply in_map_iff in Hfd'. destruct Hfd' as [i [<- Hi]].
    apply in_seq in Hi. rewrite Hlg in Hi.
    destruct (nth_error gl i) as [g|] eqn:Egi; [|apply nth_error_None in Egi; lia].
    unfold fd_at. rewrite Es'. unfold fdN. rewrite (Hs' i g Egi), N2Z.id.
    destruct (fd_pos_lt _ _ (fdN_in_used sel gl g (nth_error_In _ _ Egi))) as [Hlt _]. lia. }
  destruct (o_gid2cid o) as [l|] eqn:El.
  - destruct Sc as [l' [El' Hl']]. rewrite El'. cbn [opt_list]. rewrite map_length, Hlg.
    symmetry. eapply Forall2_len. exact Hl'.
  - (* no GIDToCID: the original is not in the domain unless it has no glyphs *)
    cbn [opt_list length] in Hcl. rewrite map_length in Hcl.
    destruct gl as [|g0 gr]; [contradiction|].
    destruct Hpre as [_ Hp]. destruct (Hp g0 (or_introl eq_refl)) as [Hlt _]. lia.
Qed.

(* ... hence the written subset is read back as its normal form (C13B): the
   glyph programs, FDSelect, GIDToCID and matrices of the subset, and its
   private dictionaries in C13B's normal form *)
Theorem cid_subset_write_read : forall std_code exp_code info defw nomw o sel gl reg ord sup o' bytes,
  C13B.Proofs_cid2.font_ok_cid (to_c13b info defw nomw o) reg ord sup ->
  cff_pre o sel gl -> gl <> [] -> N.of_nat (length gl) < 65536 ->
  M_cff_subset o gl = Ok o' ->
  C13B.Proofs_simple.write_size_ok std_code exp_code (to_c13b info defw nomw o') ->
  FF.M_write std_code exp_code (to_c13b info defw nomw o') = Ok bytes ->
  FF.M_read std_code exp_code bytes = Ok (C13B.Proofs_cid2.font_nf_cid (to_c13b info defw nomw o') reg ord sup).
Proof.
  intros std_code exp_code info defw nomw o sel gl reg ord sup o' bytes Hok Hpre Hne Hlen E Hsz Hw.
  destruct (C13B.Props.write_read_roundtrip std_code exp_code _ bytes Hsz Hw) as [_ Hc].
  apply Hc. eapply cid_subset_in_write_domain; eauto.
Qed.
