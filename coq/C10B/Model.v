(* C10B/Model.v — part C10B of property C10: the CONCRETE data transformations
   of subsetting.  Executable definitions only.

   C10/Model.v models Font.Subset over an abstract font whose outlines,
   private dictionaries and font matrices are opaque ids.  Here the same code
   is modelled over the concrete values of the developments that own them:

     cff/subset.go  Outlines.Subset      M_cff_subset
     subset.go      subsetter.SubsetCFF  M_SubsetCFF     over C13B's privdict / real
     subset.go      subsetter.SubsetGlyf M_SubsetGlyf    over C11's glyph / component records
     glyf/composite.go Components, FixComponents            C11.Model.components / fix_components
     subset.go      the cmap loop of Font.Subset         M_subset_cmaps  over C09's decoders / encoders
     subset.go      Font.Subset                          M_subset_c

   The subsetter state (s.glyphs, s.newGid), getNewGid, SubsetCMap, SubsetGsub
   and SubsetGpos are those of C10/Model.v (imported, not copied): they are
   already concrete there.

   Conventions as in C10: Go maps are association lists (an update conses, a
   lookup finds the latest entry); where Go iterates over a map the order
   comes from an oracle `orc`; glyph.ID arithmetic is wrapped where Go
   truncates; indexing out of range, calling a nil function value and an
   explicit panic are Panic; exhausted fuel is OutOfFuel. *)
From Coq Require Import List NArith ZArith Bool Arith.
From Common Require Import Bytes Outcome.
From Gen Require Import C10B.
From C10 Require Model.
From C11 Require Model.
From C09 Require Model Model4 ModelT.
From C13B Require ModelNum ModelFont.
Import ListNotations.
Local Open Scope N_scope.


Notation str := (list N) (only parsing).

(* ------------------------------------------------------------------ *)
(* helpers                                                              *)

(* Go's l[i] *)
Definition idx {X} (l : list X) (i : N) : outcome X :=
  match nth_error l (N.to_nat i) with Some x => Ok x | None => Panic end.

(* a loop that fills a slice element by element *)
Fixpoint mapo {X Y} (f : X -> outcome Y) (l : list X) : outcome (list Y) :=
  match l with
  | [] => Ok []
  | x :: r => y <- f x ;; ys <- mapo f r ;; Ok (y :: ys)
  end.

(* ------------------------------------------------------------------ *)
(* cff.Outlines                                                         *)

(* *cff.Glyph: Subset copies the pointer; the value is the name, the advance
   width and the glyph program (as the byte string of its charstring) *)
Record cglyph : Type := mkCG { cg_name : str; cg_width : Z; cg_body : list N }.

Record outlines : Type := mkOut {
  o_glyphs : list cglyph;                      (* Glyphs *)
  o_private : list C13B.ModelFont.privdict;                (* Private: the values of the *type1.PrivateDict *)
  o_fdselect : option (N -> option Z);         (* FDSelect: None = nil func; the function returns a Go
                                                  int, or panics (None) - e.g. the closure over fdSel[gid]
                                                  that readFDSelect and Subset build *)
  o_encoding : option (list N);                (* Encoding: nil or code -> gid *)
  o_ros : option (str * str * Z);              (* ROS: nil = simple font *)
  o_gid2cid : option (list N);                 (* GIDToCID *)
  o_matrices : list (list C13B.ModelNum.real)             (* FontMatrices: matrix.Matrix = [6]float64 *)
}.

(* func (o *Outlines) IsCIDKeyed() bool { return o.ROS != nil } *)
Definition is_cid_keyed (o : outlines) : bool :=
  match o_ros o with Some _ => true | None => false end.

(* for _, oldGID := range glyphs {
     oldPIdx := o.FDSelect(oldGID)
     if _, ok := pIdxMap[oldPIdx]; !ok {
       newPIdx := len(subset.Private)
       subset.Private = append(subset.Private, o.Private[oldPIdx])
       if o.IsCIDKeyed() { subset.FontMatrices = append(subset.FontMatrices, o.FontMatrices[oldPIdx]) }
       pIdxMap[oldPIdx] = newPIdx } }
   pIdxMap is keyed by the Go int FDSelect returns.  A negative value is never
   stored (o.Private[oldPIdx] panics before the store), so the keys are kept
   as N after that test. *)
Fixpoint fd_loop (o : outlines) (sel : N -> option Z) (gs : list N)
    (privs : list C13B.ModelFont.privdict) (mats : list (list C13B.ModelNum.real)) (pmap : list (N * N))
  : outcome (list C13B.ModelFont.privdict * list (list C13B.ModelNum.real) * list (N * N)) :=
  match gs with
  | [] => Ok (privs, mats, pmap)
  | g :: r =>
      match sel g with
      | None => Panic
      | Some z =>
          if (z <? 0)%Z then Panic else
          let fd := Z.to_N z in
          match C10.Model.lookup fd pmap with
          | Some _ => fd_loop o sel r privs mats pmap
          | None =>
              match idx (o_private o) fd with
              | Ok p =>
                  let np := N.of_nat (length privs) in
                  if is_cid_keyed o then
                    match idx (o_matrices o) fd with
                    | Ok m => fd_loop o sel r (privs ++ [p]) (mats ++ [m]) ((fd, np) :: pmap)
                    | _ => Panic
                    end
                  else fd_loop o sel r (privs ++ [p]) mats ((fd, np) :: pmap)
              | _ => Panic
              end
          end
      end
  end.

(* fdSel[newGID] = pIdxMap[o.FDSelect(oldGID)]  (a missing key reads as 0) *)
Definition fd_entry (sel : N -> option Z) (pmap : list (N * N)) (g : N) : outcome Z :=
  match sel g with
  | None => Panic
  | Some z =>
      Ok (if (z <? 0)%Z then 0%Z
          else match C10.Model.lookup (Z.to_N z) pmap with Some n => Z.of_N n | None => 0%Z end)
  end.

(* fdSelectSimple / func(glyph.ID) int { return 0 } *)
Definition fdselect_simple : N -> option Z := fun _ => Some 0%Z.

(* func(gid glyph.ID) int { return fdSel[gid] } *)
Definition fdselect_table (tbl : list Z) : N -> option Z := fun gid => nth_error tbl (N.to_nat gid).

(* The body shared by cff.Outlines.Subset and subsetter.SubsetCFF:
   `single` is the literal in `len(subset.Private) == 1`, gs the glyph list,
   st the index map used for the encoding (cff: gidMap built from the list;
   sfnt: s.newGid). *)
Definition cff_subset_body (single : nat) (o : outlines) (gs : list N) (st : C10.Model.sst) : outcome outlines :=
  glyphs <- mapo (idx (o_glyphs o)) gs ;;
  match o_fdselect o, gs with
  | None, _ :: _ => Panic                                (* call of a nil func *)
  | osel, _ =>
      let sel := match osel with Some s => s | None => fdselect_simple end in   (* not called when gs = [] *)
      t <- fd_loop o sel gs [] [] [] ;;
      let '(privs, mats, pmap) := t in
      fdsel <- (if Nat.eqb (length privs) single then Ok fdselect_simple
                else tbl <- mapo (fd_entry sel pmap) gs ;; Ok (fdselect_table tbl)) ;;
      let enc := match o_encoding o with
                 | None => None
                 | Some e => Some (map (C10.Model.new_or0 st) e)
                 end in
      g2c <- match o_gid2cid o with
             | None => Ok None
             | Some l => c <- mapo (idx l) gs ;; Ok (Some c)
             end ;;
      Ok (mkOut glyphs privs (Some fdsel) enc (o_ros o) g2c mats)
  end.

(* cff/subset.go: func (o *Outlines) Subset(glyphs []glyph.ID) *Outlines;
   gidMap[oldGID] = glyph.ID(newGID) is C10's init *)
Definition M_cff_subset (o : outlines) (gl : list N) : outcome outlines :=
  cff_subset_body c10b_cffSingleFD o gl (C10.Model.init gl).

(* subset.go: func (s *subsetter) SubsetCFF(oldOutlines *cff.Outlines) *cff.Outlines *)
Definition M_SubsetCFF (o : outlines) (st : C10.Model.sst) : outcome outlines :=
  cff_subset_body c10b_sfntSingleFD o (C10.Model.s_glyphs st) st.

(* ------------------------------------------------------------------ *)
(* glyf.Outlines                                                        *)

Record goutlines : Type := mkGO {
  go_glyphs : C11.Model.glyphs;                 (* Glyphs: list (option glyph), None = nil *)
  go_widths : list Z;                   (* Widths *)
  go_names : option (list str)          (* Names: nil or one per glyph *)
}.

(* oldOutlines.Glyphs[oldGid].Components() *)
Definition comps_at (go : goutlines) (g : N) : outcome (list N) :=
  x <- idx (go_glyphs go) g ;; Ok (C11.Model.components x).

(* for len(todo) > 0 { oldGid := pop(todo); cc := ...Components(); for ... } :
   C10's comp_close over the concrete glyphs (add_comps, pick: C10's) *)
Fixpoint c_comp_close (fuel : nat) (go : goutlines) (orc : list nat) (todo : list N) (st : C10.Model.sst)
  : outcome C10.Model.sst :=
  match fuel with
  | O => OutOfFuel
  | S fu =>
      match C10.Model.pick orc todo with
      | None => Ok st
      | Some (g, todo1) =>
          cc <- comps_at go g ;;
          let '(st1, todo2) := C10.Model.add_comps cc st todo1 in
          c_comp_close fu go (tl orc) todo2 st1
      end
  end.

(* newOutlines.Glyphs[newGid] = oldOutlines.Glyphs[oldGid].FixComponents(s.newGid) *)
Definition fixed_glyph (go : goutlines) (st : C10.Model.sst) (g : N) : outcome (option C11.Model.glyph) :=
  x <- idx (go_glyphs go) g ;; Ok (C11.Model.fix_components (C10.Model.new_or0 st) x).

(* subset.go: func (s *subsetter) SubsetGlyf(oldOutlines *glyf.Outlines) *glyf.Outlines
   (Tables and Maxp are carried over unchanged) *)
Definition M_SubsetGlyf (go : goutlines) (orc : list nat) (st : C10.Model.sst) : outcome (goutlines * C10.Model.sst) :=
  let todo := fold_left (fun t g => C10.Model.set_add g t) (C10.Model.s_glyphs st) [] in
  st1 <- c_comp_close (S (length (go_glyphs go) + length todo)) go orc todo st ;;
  glyphs <- mapo (fixed_glyph go st1) (C10.Model.s_glyphs st1) ;;
  widths <- mapo (idx (go_widths go)) (C10.Model.s_glyphs st1) ;;
  names <- match go_names go with
           | None => Ok None
           | Some l => n <- mapo (idx l) (C10.Model.s_glyphs st1) ;; Ok (Some n)
           end ;;
  Ok (mkGO glyphs widths names, st1).

(* ------------------------------------------------------------------ *)
(* the cmap loop of Font.Subset                                      *)

(* a cmap.Subtable as SubsetCMap returns it *)
Inductive csub : Type :=
| CS4 (m : C09.Model.amap)         (* cmap.Format4 *)
| CS12 (m : C09.Model.amap).       (* cmap.Format12 *)

Definition csub_map (s : csub) : C09.Model.amap := match s with CS4 m => m | CS12 m => m end.

(* rawKey := cmap.Key{PlatformID: 3, EncodingID: 1} *)
Definition raw_key : C09.ModelT.key := (c10b_rawPlatform, c10b_rawEncoding, 0).

(* c, err := cmap.Table{rawKey: data}.Get(rawKey); if err != nil { continue };
   c = s.SubsetCMap(c): the decoders of formats 4 and 6 return a Format4, the
   decoder of format 12 a Format12, the decoder of format 0 a *Format0, for
   which SubsetCMap panics ("unsupported cmap format").
   None = the subtable is left out of the subset. *)
Definition M_subset_cmap_entry (macrune : N -> N) (st : C10.Model.sst) (data : list N) : outcome (option csub) :=
  match C09.ModelT.M_get_sub macrune raw_key data with
  | Ok (C09.ModelT.SubMap m) =>
      let m' := C10.Model.subset_cmap st m in
      Ok (Some (if rd16 data =? 12 then CS12 m' else CS4 m'))
  | Ok (C09.ModelT.SubBytes _) => Panic
  | Err => Ok None
  | Panic => Panic
  | OutOfFuel => OutOfFuel
  end.

(* for key, data := range f.CMapTable { ... res.CMapTable[key] = c.Encode(key.Language) }
   (the table as a list sorted by key; the result does not depend on the
   iteration order) *)
Fixpoint M_subset_cmaps (macrune : N -> N) (st : C10.Model.sst) (t : list (C09.ModelT.key * list N))
  : outcome (list (C09.ModelT.key * csub)) :=
  match t with
  | [] => Ok []
  | (k, data) :: r =>
      e <- M_subset_cmap_entry macrune st data ;;
      rest <- M_subset_cmaps macrune st r ;;
      Ok (match e with Some s => (k, s) :: rest | None => rest end)
  end.

(* ------------------------------------------------------------------ *)
(* Font.Subset                                                       *)

Inductive coutl : Type :=
| OCff (o : outlines)        (* *cff.Outlines *)
| OGlyf (g : goutlines).     (* *glyf.Outlines *)

Record cfont : Type := mkCFont {
  cf_outl : coutl;
  cf_cmap : option (list (C09.ModelT.key * list N));     (* CMapTable: nil or key -> subtable bytes, sorted by key *)
  cf_gsub : option (list (list C10.Model.gsubst));        (* Gsub: nil or LookupList (C10's subtables) *)
  cf_gpos : option (list (list C10.Model.kernsub));       (* Gpos *)
  cf_gdef : bool                                  (* Gdef != nil *)
}.

Record cresult : Type := mkCResult {
  cr_sel : list N;                                (* the final s.glyphs *)
  cr_outl : coutl;
  cr_cmap : option (list (C09.ModelT.key * csub));       (* the subtables before Encode *)
  cr_gsub : option (list (list C10.Model.gsubst));
  cr_gpos : option (list (list C10.Model.kernsub))
}.

Definition M_subset_c (macrune : N -> N) (orc : list nat) (f : cfont) (gl : list N) : outcome cresult :=
  let st0 := C10.Model.init gl in
  cmaps <- match cf_cmap f with
           | None => Ok None
           | Some t => c <- M_subset_cmaps macrune st0 t ;; Ok (Some c)
           end ;;
  t <- match cf_gsub f with
       | None => Ok (None, st0, orc)
       | Some ll => x <- C10.Model.subset_gsub orc ll st0 ;;
                    let '(gsub, st1, orc1) := x in Ok (Some gsub, st1, orc1)
       end ;;
  let '(gsub, st1, orc1) := t in
  let gpos := match cf_gpos f with None => None | Some ll => Some (C10.Model.subset_gpos st1 ll) end in
  if cf_gdef f then Panic else                    (* SubsetGdef: panic("not implemented") *)
  match cf_outl f with
  | OCff o =>
      o' <- M_SubsetCFF o st1 ;;
      Ok (mkCResult (C10.Model.s_glyphs st1) (OCff o') cmaps gsub gpos)
  | OGlyf go =>
      p <- M_SubsetGlyf go orc1 st1 ;;
      Ok (mkCResult (C10.Model.s_glyphs (snd p)) (OGlyf (fst p)) cmaps gsub gpos)
  end.
