(* C10B/Proofs_cff.v — cff.Outlines.Subset / SubsetCFF over concrete outlines:
   the loop over the font dictionaries, the new FDSelect, the transfer of
   glyphs, CIDs and the encoding. *)
From Coq Require Import List NArith ZArith Bool Arith Lia.
From Coq Require Import ZifyBool ZifyNat ZifyN.
From Common Require Import Bytes Outcome.
From Gen Require Import C10B.
From C10 Require Import Model Spec Util Proofs_state.
From C10B Require Import Model Spec Util.
Import ListNotations.
Local Open Scope N_scope.

(* ------------------------------------------------------------------ *)
(* first occurrences                                                    *)

(* the list the loop builds: new elements are appended *)
Fixpoint used_from (fds used : list N) : list N :=
  match fds with
  | [] => used
  | fd :: r => used_from r (set_add fd used)
  end.

Lemma first_occ_ext : forall l s1 s2, (forall x, memN x s1 = memN x s2) -> first_occ l s1 = first_occ l s2.
Proof.
  induction l as [|x r IH]; intros s1 s2 H; cbn [first_occ]; [reflexivity|].
  rewrite (H x). destruct (memN x s2); [apply IH; exact H|].
  f_equal. apply IH. intros y. unfold memN in *. cbn [existsb]. rewrite (H y). reflexivity.
Qed.

Lemma memN_app : forall x a b, memN x (a ++ b) = memN x a || memN x b.
Proof. intros x a b. unfold memN. apply existsb_app. Qed.

Lemma used_from_first_occ : forall l u, used_from l u = u ++ first_occ l u.
Proof.
  induction l as [|x r IH]; intros u; cbn [used_from first_occ]; [rewrite app_nil_r; reflexivity|].
  unfold set_add. destruct (memN x u) eqn:E; [apply IH|].
  rewrite IH. rewrite <- app_assoc. cbn [app]. do 2 f_equal.
  apply first_occ_ext. intros y. rewrite memN_app. unfold memN at 2 3. cbn [existsb].
  rewrite orb_false_r. apply orb_comm.
Qed.

Lemma used_from_nil : forall l, used_from l [] = first_occ l [].
Proof. intros l. rewrite used_from_first_occ. reflexivity. Qed.

Lemma first_occ_spec : forall l seen,
  NoDup (first_occ l seen) /\
  (forall x, In x (first_occ l seen) <-> In x l /\ ~ In x seen).
Proof.
  induction l as [|x r IH]; intros seen; cbn [first_occ].
  - split; [constructor|]. intros y. split; [intros []|intros [[] _]].
  - destruct (memN x seen) eqn:E.
    + destruct (IH seen) as [H1 H2]. split; [exact H1|]. intros y. rewrite H2. cbn [In].
      apply memN_In in E. split; [intros [Hy Hn]; auto|]. intros [[Hy|Hy] Hn]; [subst; contradiction|auto].
    + apply memN_false in E. destruct (IH (x :: seen)) as [H1 H2]. split.
      * constructor; [|exact H1]. intros Hx. apply H2 in Hx. destruct Hx as [_ Hx]. apply Hx. left; reflexivity.
      * intros y. cbn [In]. rewrite H2. cbn [In]. split.
        -- intros [Hy|[Hy Hn]]; [subst; auto|]. split; [auto|]. intros Hs. apply Hn. right; exact Hs.
        -- intros [[Hy|Hy] Hn]; [left; exact Hy|]. destruct (N.eq_dec x y) as [->|Hne]; [left; reflexivity|].
           right. split; [exact Hy|]. intros [Hs|Hs]; [contradiction|contradiction].
Qed.

(* the first element of l that has not been seen is the first element of the
   result: the order is the order of first use *)
Lemma first_occ_order : forall l seen a b i j,
  nth_error (first_occ l seen) i = Some a -> nth_error (first_occ l seen) j = Some b -> (i < j)%nat ->
  exists p q, index_of a l = Some p /\ index_of b l = Some q /\ (p < q)%nat.
Proof.
  induction l as [|x r IH]; intros seen a b i j Ha Hb Hij; cbn [first_occ] in *.
  - destruct i; discriminate.
  - destruct (memN x seen) eqn:E.
    + destruct (IH seen a b i j Ha Hb Hij) as [p [q [Hp [Hq Hpq]]]].
      assert (Hax : a <> x).
      { intros ->. assert (Hin : In x (first_occ r seen)) by (eapply nth_error_In; eauto).
        apply (proj2 (first_occ_spec r seen)) in Hin. apply memN_In in E. tauto. }
      assert (Hbx : b <> x).
      { intros ->. assert (Hin : In x (first_occ r seen)) by (eapply nth_error_In; eauto).
        apply (proj2 (first_occ_spec r seen)) in Hin. apply memN_In in E. tauto. }
      exists (S p), (S q). cbn [index_of].
      destruct (N.eqb_spec a x); [contradiction|]. destruct (N.eqb_spec b x); [contradiction|].
      rewrite Hp, Hq. cbn [option_map]. split; [reflexivity|]. split; [reflexivity|lia].
    + destruct i as [|i]; destruct j as [|j]; try lia; cbn [nth_error] in *.
      * inversion Ha; subst a.
        assert (Hin : In b (first_occ r (x :: seen))) by (eapply nth_error_In; eauto).
        apply (proj2 (first_occ_spec r (x :: seen))) in Hin. destruct Hin as [Hbr Hbs].
        assert (Hbx : b <> x) by (intros ->; apply Hbs; left; reflexivity).
        destruct (index_of_In b r Hbr) as [q Hq].
        exists O, (S q). cbn [index_of]. rewrite N.eqb_refl.
        destruct (N.eqb_spec b x); [contradiction|]. rewrite Hq. cbn [option_map].
        split; [reflexivity|]. split; [reflexivity|lia].
      * destruct (IH (x :: seen) a b i j Ha Hb ltac:(lia)) as [p [q [Hp [Hq Hpq]]]].
        assert (Hax : a <> x).
        { intros ->. assert (Hin : In x (first_occ r (x :: seen))) by (eapply nth_error_In; eauto).
          apply (proj2 (first_occ_spec r (x :: seen))) in Hin. destruct Hin as [_ Hn]. apply Hn. left; reflexivity. }
        assert (Hbx : b <> x).
        { intros ->. assert (Hin : In x (first_occ r (x :: seen))) by (eapply nth_error_In; eauto).
          apply (proj2 (first_occ_spec r (x :: seen))) in Hin. destruct Hin as [_ Hn]. apply Hn. left; reflexivity. }
        exists (S p), (S q). cbn [index_of].
        destruct (N.eqb_spec a x); [contradiction|]. destruct (N.eqb_spec b x); [contradiction|].
        rewrite Hp, Hq. cbn [option_map]. split; [reflexivity|]. split; [reflexivity|lia].
Qed.

(* ------------------------------------------------------------------ *)
(* the loop over the font dictionaries                                  *)

Definition pmap_ok (used : list N) (pmap : list (N * N)) : Prop :=
  forall fd, lookup fd pmap = option_map N.of_nat (index_of fd used).

Definition tab_ok {X} (tbl : list X) (used : list N) (out : list X) : Prop :=
  Forall2 (fun fd p => nth_error tbl (N.to_nat fd) = Some p) used out.

Definition fd_good (o : outlines) (sel : N -> option Z) (g : N) : Prop :=
  exists fd, sel g = Some (Z.of_N fd) /\ fd < N.of_nat (length (o_private o)) /\
             (is_cid_keyed o = true -> fd < N.of_nat (length (o_matrices o))).

Lemma fd_good_fdN : forall o sel g, fd_good o sel g -> sel g = Some (Z.of_N (fdN sel g)).
Proof. intros o sel g [fd [E _]]. unfold fdN. rewrite E. rewrite N2Z.id. reflexivity. Qed.

Lemma pmap_ok_snoc : forall used pmap fd n,
  pmap_ok used pmap -> ~ In fd used -> n = N.of_nat (length used) ->
  pmap_ok (used ++ [fd]) ((fd, n) :: pmap).
Proof.
  intros used pmap fd n Hok Hni -> fd'. cbn [lookup]. destruct (N.eqb_spec fd' fd) as [->|Hne].
  - rewrite index_of_app_r by exact Hni. cbn [index_of]. rewrite N.eqb_refl. cbn [option_map].
    f_equal. lia.
  - rewrite Hok. destruct (index_of fd' used) eqn:E.
    + rewrite (index_of_app_l _ _ [fd] _ E). reflexivity.
    + apply index_of_None in E. rewrite index_of_app_r by exact E. cbn [index_of].
      destruct (N.eqb_spec fd' fd); [contradiction|]. reflexivity.
Qed.

Lemma fd_loop_spec : forall o sel gs used privs mats pmap,
  (forall g, In g gs -> fd_good o sel g) ->
  pmap_ok used pmap -> tab_ok (o_private o) used privs ->
  (is_cid_keyed o = true -> tab_ok (o_matrices o) used mats) ->
  exists privs' mats' pmap',
    fd_loop o sel gs privs mats pmap = Ok (privs', mats', pmap') /\
    pmap_ok (used_from (map (fdN sel) gs) used) pmap' /\
    tab_ok (o_private o) (used_from (map (fdN sel) gs) used) privs' /\
    (is_cid_keyed o = true -> tab_ok (o_matrices o) (used_from (map (fdN sel) gs) used) mats') /\
    (is_cid_keyed o = false -> mats' = mats).
Proof.
  intros o sel. induction gs as [|g r IH]; intros used privs mats pmap Hg Hp Ht Hm; cbn [fd_loop map used_from].
  - exists privs, mats, pmap. repeat split; auto.
  - assert (Hr : forall g', In g' r -> fd_good o sel g') by (intros g' Hg'; apply Hg; right; exact Hg').
    destruct (Hg g (or_introl eq_refl)) as [fd [Es [Hfd Hfdm]]].
    assert (Efd : fdN sel g = fd) by (unfold fdN; rewrite Es; apply N2Z.id).
    rewrite Es. replace (Z.of_N fd <? 0)%Z with false by lia. rewrite N2Z.id. rewrite Efd.
    rewrite Hp. unfold set_add. destruct (index_of fd used) eqn:Ei; cbn [option_map].
    + assert (Hin : In fd used) by (apply index_of_Some in Ei; destruct Ei as [Ei _]; eapply nth_error_In; eauto).
      apply memN_In in Hin. rewrite Hin. apply IH; assumption.
    + assert (Hni : ~ In fd used) by (apply index_of_None; exact Ei).
      pose proof Hni as Hmem. apply memN_false in Hmem. rewrite Hmem.
      destruct (idx_lt (o_private o) fd Hfd) as [p Ep]. rewrite Ep.
      assert (Hlen : length used = length privs) by (eapply Forall2_len; exact Ht).
      destruct (is_cid_keyed o) eqn:Ec.
      * destruct (idx_lt (o_matrices o) fd (Hfdm eq_refl)) as [m Em]. rewrite Em.
        destruct (IH (used ++ [fd]) (privs ++ [p]) (mats ++ [m]) ((fd, N.of_nat (length privs)) :: pmap) Hr)
          as [p' [m' [pm' [E [H1 [H2 [H3 H4]]]]]]].
        -- apply pmap_ok_snoc; [exact Hp|exact Hni|congruence].
        -- apply Forall2_snoc; [exact Ht|]. apply idx_Ok. exact Ep.
        -- intros _. apply Forall2_snoc; [apply Hm; reflexivity|]. apply idx_Ok. exact Em.
        -- exists p', m', pm'. split; [exact E|]. split; [exact H1|]. split; [exact H2|]. split; [exact H3|discriminate].
      * destruct (IH (used ++ [fd]) (privs ++ [p]) mats ((fd, N.of_nat (length privs)) :: pmap) Hr)
          as [p' [m' [pm' [E [H1 [H2 [H3 H4]]]]]]].
        -- apply pmap_ok_snoc; [exact Hp|exact Hni|congruence].
        -- apply Forall2_snoc; [exact Ht|]. apply idx_Ok. exact Ep.
        -- discriminate.
        -- exists p', m', pm'. split; [exact E|]. split; [exact H1|]. split; [exact H2|]. split; [discriminate|exact H4].
Qed.

(* ------------------------------------------------------------------ *)
(* the whole body                                                       *)

(* what cff_subset_body returns, as a function of the input: the
   specification of the subset *)
Record cff_spec (single : nat) (o : outlines) (sel : N -> option Z) (gs : list N) (st : sst) (o' : outlines) : Prop := mkCffSpec {
  cs_glyphs : Forall2 (fun g x => nth_error (o_glyphs o) (N.to_nat g) = Some x) gs (o_glyphs o');
  cs_privs : tab_ok (o_private o) (used_fds sel gs) (o_private o');
  cs_mats : if is_cid_keyed o then tab_ok (o_matrices o) (used_fds sel gs) (o_matrices o')
            else o_matrices o' = [];
  cs_fdsel : exists sel', o_fdselect o' = Some sel' /\
             forall i g, nth_error gs i = Some g ->
               sel' (N.of_nat i) = Some (Z.of_N (fd_pos (used_fds sel gs) (fdN sel g)));
  cs_enc : o_encoding o' = option_map (map (new_or0 st)) (o_encoding o);
  cs_ros : o_ros o' = o_ros o;
  cs_g2c : match o_gid2cid o with
           | None => o_gid2cid o' = None
           | Some l => exists l', o_gid2cid o' = Some l' /\
                       Forall2 (fun g c => nth_error l (N.to_nat g) = Some c) gs l'
           end
}.

Lemma fd_pos_lt : forall used fd, In fd used -> (N.to_nat (fd_pos used fd) < length used)%nat /\
  nth_error used (N.to_nat (fd_pos used fd)) = Some fd.
Proof.
  intros used fd H. unfold fd_pos. destruct (index_of_In fd used H) as [k Ek]. rewrite Ek.
  apply index_of_Some in Ek. destruct Ek as [E1 E2]. rewrite Nat2N.id. split; [exact E2|exact E1].
Qed.

Lemma fdN_in_used : forall sel gs g, In g gs -> In (fdN sel g) (used_fds sel gs).
Proof.
  intros sel gs g H. unfold used_fds. apply (proj2 (first_occ_spec _ _)). split; [|intros []].
  apply in_map. exact H.
Qed.

Theorem cff_subset_body_spec : forall single o sel gs st,
  single = 1%nat -> cff_pre o sel gs ->
  exists o', cff_subset_body single o gs st = Ok o' /\ cff_spec single o sel gs st o'.
Proof.
  intros single o sel gs st Hs [Hsel Hpre]. unfold cff_subset_body.
  (* the glyphs *)
  destruct (mapo_total (idx (o_glyphs o)) gs) as [glyphs Eg].
  { intros g Hg. destruct (Hpre g Hg) as [Hlt _]. apply idx_lt. exact Hlt. }
  rewrite Eg. cbn [obind]. rewrite Hsel.
  assert (Hgood : forall g, In g gs -> fd_good o sel g).
  { intros g Hg. destruct (Hpre g Hg) as [_ [H _]]. exact H. }
  destruct (fd_loop_spec o sel gs [] [] [] [] Hgood) as [privs [mats [pmap [El [Hpm [Hpr [Hma Hma']]]]]]].
  { intros fd. reflexivity. }
  { constructor. }
  { intros _. constructor. }
  rewrite used_from_nil in Hpm, Hpr, Hma. fold (used_fds sel gs) in Hpm, Hpr, Hma.
  (* the table of the new FDSelect *)
  assert (Htbl : exists tbl, mapo (fd_entry sel pmap) gs = Ok tbl /\
            forall i g, nth_error gs i = Some g ->
              nth_error tbl i = Some (Z.of_N (fd_pos (used_fds sel gs) (fdN sel g)))).
  { destruct (mapo_total (fd_entry sel pmap) gs) as [tbl Et].
    { intros g Hg. unfold fd_entry. rewrite (fd_good_fdN o sel g (Hgood g Hg)). eauto. }
    exists tbl. split; [exact Et|]. intros i g Hi.
    destruct (mapo_nth _ _ _ _ _ Et Hi) as [y [Hy Ey]]. rewrite Hy. f_equal.
    unfold fd_entry in Ey. rewrite (fd_good_fdN o sel g (Hgood g (nth_error_In _ _ Hi))) in Ey.
    replace (Z.of_N (fdN sel g) <? 0)%Z with false in Ey by lia. rewrite N2Z.id in Ey.
    rewrite Hpm in Ey. unfold fd_pos.
    destruct (index_of_In _ _ (fdN_in_used sel gs g (nth_error_In _ _ Hi))) as [k Ek].
    rewrite Ek in *. cbn [option_map] in Ey. inversion Ey. reflexivity. }
  destruct Htbl as [tbl [Et Htbl]].
  (* GIDToCID *)
  assert (Hcid : exists g2c, match o_gid2cid o with
                             | None => Ok None
                             | Some l => c <- mapo (idx l) gs ;; Ok (Some c)
                             end = Ok g2c /\
                 match o_gid2cid o with
                 | None => g2c = None
                 | Some l => exists l', g2c = Some l' /\ Forall2 (fun g c => nth_error l (N.to_nat g) = Some c) gs l'
                 end).
  { destruct (o_gid2cid o) as [l|] eqn:El2; [|eauto].
    destruct (mapo_total (idx l) gs) as [c Ec].
    { intros g Hg. destruct (Hpre g Hg) as [_ [_ H]]. apply idx_lt. apply H. reflexivity. }
    rewrite Ec. cbn [obind]. exists (Some c). split; [reflexivity|]. exists c. split; [reflexivity|].
    apply mapo_idx. exact Ec. }
  destruct Hcid as [g2c [Ec Hc]].
  rewrite El. cbn [obind].
  assert (Hlen : length privs = length (used_fds sel gs)) by (symmetry; eapply Forall2_len; exact Hpr).
  assert (Hfs : exists fdsel,
            (if Nat.eqb (length privs) single then Ok fdselect_simple
             else tbl0 <- mapo (fd_entry sel pmap) gs ;; Ok (fdselect_table tbl0)) = Ok fdsel /\
            forall i g, nth_error gs i = Some g ->
              fdsel (N.of_nat i) = Some (Z.of_N (fd_pos (used_fds sel gs) (fdN sel g)))).
  { destruct (Nat.eqb_spec (length privs) single) as [E1|E1].
    - exists fdselect_simple. split; [reflexivity|]. intros i g Hi. unfold fdselect_simple.
      destruct (fd_pos_lt _ _ (fdN_in_used sel gs g (nth_error_In _ _ Hi))) as [Hlt _].
      do 2 f_equal. lia.
    - rewrite Et. cbn [obind]. exists (fdselect_table tbl). split; [reflexivity|].
      intros i g Hi. unfold fdselect_table. rewrite Nat2N.id. apply Htbl. exact Hi. }
  destruct Hfs as [fdsel [Efs Hfs]].
  rewrite Efs. cbn [obind]. rewrite Ec. cbn [obind].
  eexists. split; [reflexivity|]. constructor; cbn [o_glyphs o_private o_matrices o_fdselect o_encoding o_ros o_gid2cid].
  - apply mapo_idx. exact Eg.
  - exact Hpr.
  - destruct (is_cid_keyed o) eqn:Ek; [apply Hma; reflexivity|apply Hma'; reflexivity].
  - exists fdsel. split; [reflexivity|exact Hfs].
  - destruct (o_encoding o); reflexivity.
  - reflexivity.
  - destruct (o_gid2cid o); [destruct Hc as [l' [-> Hl']]; eauto|subst; reflexivity].
Qed.
