(* C10B/Proofs_cmap.v — the character map of a subset: SubsetCMap keeps a
   sorted map sorted and inside the encoders' domains, contains exactly
   c -> new(old(c)) for the listed glyphs, and what the writer emits (C09's
   encoder models) decodes (C09's decoder models) to it. *)
From Coq Require Import List NArith ZArith Bool Arith Lia.
From Coq Require Import ZifyBool ZifyNat ZifyN.
From Common Require Import Bytes Outcome.
From C10 Require Import Model Spec Util Proofs_state.
From C09 Require Model Model4 ModelT Util Proofs_4edges Props.
From C10B Require Import Model Spec Util.
Import ListNotations.
Local Open Scope N_scope.

Module M9 := C09.Model.

(* ------------------------------------------------------------------ *)
(* sorted association lists                                             *)

Lemma sorted_from_weaken : forall m lo lo', lo <= lo' -> M9.sorted_from lo' m = true -> M9.sorted_from lo m = true.
Proof.
  intros [|[k v] r] lo lo' H Hs; [reflexivity|]. cbn [M9.sorted_from] in *.
  apply andb_true_iff in Hs. destruct Hs as [H1 H2]. apply andb_true_iff. split; [lia|exact H2].
Qed.

Lemma sorted_from_keys : forall m lo c v, M9.sorted_from lo m = true -> In (c, v) m -> lo < c.
Proof.
  induction m as [|[k w] r IH]; intros lo c v Hs Hin; [destruct Hin|].
  cbn [M9.sorted_from] in Hs. apply andb_true_iff in Hs. destruct Hs as [H1 H2].
  destruct Hin as [E|Hin]; [inversion E; subst; lia|].
  specialize (IH k c v H2 Hin). lia.
Qed.

Lemma sorted_keys_tail : forall k v r, M9.sorted_keys ((k, v) :: r) = true -> M9.sorted_from k r = true.
Proof. intros k v r H. exact H. Qed.

Lemma sorted_from_sorted_keys : forall m lo, M9.sorted_from lo m = true -> M9.sorted_keys m = true.
Proof.
  intros [|[k v] r] lo H; [reflexivity|]. cbn [M9.sorted_from] in H. apply andb_true_iff in H. exact (proj2 H).
Qed.

Lemma lookup_sorted_In : forall m c v, M9.sorted_keys m = true -> In (c, v) m -> M9.lookup m c = v.
Proof.
  induction m as [|[k w] r IH]; intros c v Hs Hin; [destruct Hin|].
  cbn [M9.lookup]. pose proof (sorted_keys_tail k w r Hs) as Hr.
  destruct Hin as [E|Hin].
  - inversion E; subst. rewrite N.eqb_refl. reflexivity.
  - pose proof (sorted_from_keys r k c v Hr Hin) as Hlt.
    destruct (N.eqb_spec k c); [lia|]. apply IH; [eapply sorted_from_sorted_keys; exact Hr|exact Hin].
Qed.

Lemma lookup_absent : forall m c, (forall v, ~ In (c, v) m) -> M9.lookup m c = 0.
Proof.
  induction m as [|[k w] r IH]; intros c H; [reflexivity|]. cbn [M9.lookup].
  destruct (N.eqb_spec k c) as [->|Hne].
  - exfalso. apply (H w). left; reflexivity.
  - apply IH. intros v Hv. apply (H v). right; exact Hv.
Qed.

Lemma lookup_values : forall m c b, (forall p, In p m -> snd p < b) -> 0 < b -> M9.lookup m c < b.
Proof.
  induction m as [|[k w] r IH]; intros c b H Hb; cbn [M9.lookup]; [exact Hb|].
  destruct (k =? c).
  - apply (H (k, w)). left; reflexivity.
  - apply IH; [|exact Hb]. intros p Hp. apply H. right; exact Hp.
Qed.

(* ------------------------------------------------------------------ *)
(* SubsetCMap                                                           *)

Lemma subset_cmap_In : forall st m c k,
  In (c, k) (subset_cmap st m) <-> exists g, In (c, g) m /\ lookup g (s_new st) = Some k.
Proof.
  intros st. induction m as [|[c0 g0] r IH]; intros c k; cbn [subset_cmap].
  - split; [intros []|intros [g [[] _]]].
  - destruct (lookup g0 (s_new st)) as [n|] eqn:El; cbn [In]; rewrite IH; split.
    + intros [E|[g [Hg Hl]]]; [inversion E; subst; exists g0; split; [left; reflexivity|exact El]|].
      exists g. split; [right; exact Hg|exact Hl].
    + intros [g [[E|Hg] Hl]]; [inversion E; subst; left; congruence|]. right. eauto.
    + intros [g [Hg Hl]]. exists g. split; [right; exact Hg|exact Hl].
    + intros [g [[E|Hg] Hl]]; [inversion E; subst; congruence|eauto].
Qed.

Lemma subset_cmap_sorted_from : forall st m lo, M9.sorted_from lo m = true -> M9.sorted_from lo (subset_cmap st m) = true.
Proof.
  intros st. induction m as [|[c g] r IH]; intros lo Hs; [reflexivity|]. cbn [subset_cmap].
  cbn [M9.sorted_from] in Hs. apply andb_true_iff in Hs. destruct Hs as [H1 H2].
  destruct (lookup g (s_new st)).
  - cbn [M9.sorted_from]. rewrite H1. cbn [andb]. apply IH. exact H2.
  - apply IH. apply (sorted_from_weaken r lo c); [lia|exact H2].
Qed.

Lemma subset_cmap_sorted : forall st m, M9.sorted_keys m = true -> M9.sorted_keys (subset_cmap st m) = true.
Proof.
  intros st [|[c g] r] Hs; [reflexivity|].
  assert (H : M9.sorted_from c (subset_cmap st r) = true) by (apply subset_cmap_sorted_from; exact Hs).
  cbn [subset_cmap]. destruct (lookup g (s_new st)); [exact H|].
  eapply sorted_from_sorted_keys. exact H.
Qed.

Lemma subset_cmap_length : forall st m, (length (subset_cmap st m) <= length m)%nat.
Proof.
  intros st. induction m as [|[c g] r IH]; cbn [subset_cmap length]; [lia|].
  destruct (lookup g (s_new st)); cbn [length]; lia.
Qed.

Lemma subset_cmap_keys : forall st m p, In p (subset_cmap st m) -> exists g, In (fst p, g) m.
Proof. intros st m [c k] H. apply subset_cmap_In in H. destruct H as [g [Hg _]]. eauto. Qed.

(* glyph.ID(newgid): every value of the map built from the list is 16 bits wide *)
Lemma init_new_values : forall gl i m g k,
  lookup g (init_new i gl m) = Some k -> k < 65536 \/ lookup g m = Some k.
Proof.
  induction gl as [|x r IH]; intros i m g k H; cbn [init_new] in H; [right; exact H|].
  destruct (IH _ _ _ _ H) as [Hk|Hk]; [left; exact Hk|].
  cbn [lookup] in Hk. destruct (g =? x); [|right; exact Hk].
  inversion Hk. left. unfold wrap16. apply N.mod_lt. discriminate.
Qed.

Lemma subset_cmap_values : forall gl m p, In p (subset_cmap (init gl) m) -> snd p < 65536.
Proof.
  intros gl m [c k] H. apply subset_cmap_In in H. destruct H as [g [_ Hl]]. cbn [init s_new] in Hl.
  destruct (init_new_values _ _ _ _ _ Hl) as [Hk|Hk]; [exact Hk|discriminate].
Qed.

(* for a duplicate-free list of at most 65536 glyphs: new(g) = k iff g is listed at k *)
Lemma init_lookup_nth : forall gl g k, NoDup gl -> N.of_nat (length gl) <= 65536 ->
  (lookup g (s_new (init gl)) = Some k <-> nth_error gl (N.to_nat k) = Some g).
Proof.
  intros gl g k Hnd Hlen. cbn [init s_new]. rewrite init_new_lookup by (try assumption; cbn; lia).
  cbn [lookup Nat.add]. split.
  - destruct (index_of g gl) as [i|] eqn:E; [|discriminate]. intros H. inversion H; subst k.
    rewrite Nat2N.id. apply index_of_Some in E. exact (proj1 E).
  - intros H. rewrite (index_of_nth _ _ _ Hnd H). f_equal. lia.
Qed.

(* ------------------------------------------------------------------ *)
(* written and read back                                                *)

Theorem cmap12_roundtrip : forall gl m lang,
  M9.sorted_keys m = true -> (forall p, In p m -> fst p < 4294967295) -> N.of_nat (length m) <= 65536 ->
  C09.Model.M_decode12 false (C09.Model.M_encode12 (subset_cmap (init gl) m) lang) = Ok (subset_cmap (init gl) m).
Proof.
  intros gl m lang Hs Hk Hl. apply C09.Props.format12_roundtrip.
  - apply subset_cmap_sorted. exact Hs.
  - apply Forall_forall. intros p Hp. split.
    + destruct (subset_cmap_keys _ _ _ Hp) as [g Hg]. exact (Hk _ Hg).
    + exact (subset_cmap_values gl m p Hp).
  - pose proof (subset_cmap_length (init gl) m). lia.
Qed.

Theorem cmap4_roundtrip : forall gl m segs lang,
  lang < 65536 ->
  C09.Proofs_4edges.path (M9.lookup (subset_cmap (init gl) m)) 0 segs ->
  C09.Model4.emit4_size (M9.lookup (subset_cmap (init gl) m)) segs <= 65535 ->
  exists b mm,
    C09.Model4.M_emit4 (M9.lookup (subset_cmap (init gl) m)) segs lang = Ok b /\
    C09.Model4.M_decode4 (fun c => c) b = Ok mm /\ M9.sorted_keys mm = true /\
    forall c, c <= 65535 -> M9.lookup mm c = M9.lookup (subset_cmap (init gl) m) c.
Proof.
  intros gl m segs lang Hlang Hp Hsz.
  apply (C09.Props.format4_roundtrip (M9.lookup (subset_cmap (init gl) m))); try assumption.
  intros c. apply lookup_values; [|lia]. intros p Hp'. exact (subset_cmap_values gl m p Hp').
Qed.

(* what the map of the subset says about a code *)
Theorem subset_cmap_exact : forall gl m, NoDup gl -> N.of_nat (length gl) <= 65536 ->
  forall c k, In (c, k) (subset_cmap (init gl) m) <-> exists g, In (c, g) m /\ nth_error gl (N.to_nat k) = Some g.
Proof.
  intros gl m Hnd Hlen c k. rewrite subset_cmap_In. split; intros [g [Hg H]]; exists g; (split; [exact Hg|]);
    apply (init_lookup_nth gl g k Hnd Hlen); exact H.
Qed.

Theorem subset_cmap_lookup : forall gl m, NoDup gl -> N.of_nat (length gl) <= 65536 -> M9.sorted_keys m = true ->
  forall c,
    (forall g k, In (c, g) m -> nth_error gl k = Some g -> M9.lookup (subset_cmap (init gl) m) c = N.of_nat k) /\
    ((forall g, In (c, g) m -> ~ In g gl) -> M9.lookup (subset_cmap (init gl) m) c = 0).
Proof.
  intros gl m Hnd Hlen Hs c. split.
  - intros g k Hg Hk. apply lookup_sorted_In; [apply subset_cmap_sorted; exact Hs|].
    apply (subset_cmap_exact gl m Hnd Hlen). exists g. split; [exact Hg|]. rewrite Nat2N.id. exact Hk.
  - intros H. apply lookup_absent. intros v Hv. apply (subset_cmap_exact gl m Hnd Hlen) in Hv.
    destruct Hv as [g [Hg Hn]]. apply (H g Hg). eapply nth_error_In. exact Hn.
Qed.

(* ------------------------------------------------------------------ *)
(* every key of a map decodeFormat12 returns is below 0xFFFFFFFF (the decoder
   rejects endCharCode = 0xFFFFFFFF): such a map is in the domain of C09's
   format-12 round trip *)

Definition keys_below (b : N) (m : M9.amap) : Prop := forall p, In p m -> fst p < b.

Lemma put_keys_below : forall b k v acc, k < b -> keys_below b acc -> keys_below b (M9.put k v acc).
Proof.
  intros b k v. induction acc as [|[k' v'] r IH]; intros Hk Ha; cbn [M9.put].
  - intros p [<-|[]]. exact Hk.
  - destruct (k' <? k).
    + intros p [<-|Hp]; [exact Hk|apply Ha; exact Hp].
    + destruct (k' =? k).
      * intros p [<-|Hp]; [exact Hk|apply Ha; right; exact Hp].
      * intros p [<-|Hp]; [apply (Ha (k', v')); left; reflexivity|].
        apply IH; [exact Hk| |exact Hp]. intros q Hq. apply Ha. right; exact Hq.
Qed.

Lemma fill12_keys_below : forall b n c s g acc,
  c + N.of_nat n <= b -> keys_below b acc -> keys_below b (M9.fill12 n c s g acc).
Proof.
  intros b. induction n as [|n IH]; intros c s g acc Hc Ha; cbn [M9.fill12]; [exact Ha|].
  apply IH; [lia|]. apply put_keys_below; [lia|exact Ha].
Qed.

Lemma dec12_loop_keys_below : forall n first rest size prevEnd acc acc',
  Forall (fun x => x < 256) rest -> keys_below 4294967295 acc ->
  M9.dec12_loop n first rest size prevEnd acc = Ok acc' -> keys_below 4294967295 acc'.
Proof.
  induction n as [|n IH]; intros first rest size prevEnd acc acc' Hb Ha H; cbn [M9.dec12_loop] in H.
  - inversion H; subst. exact Ha.
  - do 12 (destruct rest as [|? rest]; [discriminate|]). cbv zeta in H.
    repeat match goal with Hf : Forall _ (_ :: _) |- _ => inversion Hf; clear Hf; subst end.
    match type of H with context [if ?c then Err else _] => destruct c eqn:Ec; [discriminate|] end.
    match type of H with context [if ?c then Err else _] => destruct c; [discriminate|] end.
    eapply IH in H; [exact H|assumption|].
    repeat (apply orb_false_iff in Ec; destruct Ec as [Ec ?]).
    set (s := rd32 [n0; n1; n2; n3]) in *. set (e := rd32 [n4; n5; n6; n7]) in *.
    assert (He : e < 4294967296) by (unfold e; apply C09.Util.rd32_bound; assumption).
    unfold C09.f12_badEnd in *.
    apply fill12_keys_below; [lia|exact Ha].
Qed.

Lemma decode12_keys_below : forall data m,
  Forall (fun x => x < 256) data -> M9.M_decode12 false data = Ok m -> keys_below 4294967295 m.
Proof.
  intros data m Hb H. unfold M9.M_decode12 in H.
  destruct (_ <? _); [discriminate|]. destruct (_ || _); [discriminate|].
  unfold omap in H. destruct (M9.dec12_loop _ _ _ _ _ _) as [acc| | |] eqn:E; cbn [obind] in H; try discriminate.
  inversion H; subst m. apply dec12_loop_keys_below in E; [| |intros p []].
  - intros p Hp. apply E. rewrite C09.Util.frev_rev in Hp. apply in_rev. exact Hp.
  - clear -Hb. revert data Hb. generalize 16%nat. induction n as [|n IH]; intros data Hb; [exact Hb|].
    destruct data as [|x r]; [constructor|]. cbn [skipn]. apply IH. inversion Hb; assumption.
Qed.
