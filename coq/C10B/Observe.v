(* C10B/Observe.v — entry points of the extracted model and the canonical
   observations compared, as strings, with what the harness observes on the
   real code.  Definitions only.

   cff.Outlines.Subset and SubsetCFF are deterministic: the observation is
   the result itself (the FDSelect function sampled at 0 .. len(glyphs)).
   SubsetGlyf pops glyph ids from a Go map: the order of the appended glyphs
   is not determined.  Its observation lists the appended glyphs in
   increasing order of their ORIGINAL id and pulls every component reference
   back to the original id through s.glyphs, so that it does not depend on
   that order. *)
From Coq Require Import List NArith ZArith Bool Arith.
From Common Require Import Bytes Outcome.
From C10B Require Import Model.
Import ListNotations.
Local Open Scope N_scope.

(* the state Font.Subset hands to SubsetCFF / SubsetGlyf: the list, then the
   glyphs SubsetGsub appended with getNewGid *)
Definition state_of (gl extras : list N) : C10.Model.sst :=
  fold_left (fun st g => snd (C10.Model.get_new st g)) extras (C10.Model.init gl).

(* an FDSelect function given by a table: entry i for glyph i (None = the
   function panics there), `dflt` outside the table *)
Definition fdselect_of (tbl : list (option Z)) (dflt : option Z) : N -> option Z :=
  fun g => match nth_error tbl (N.to_nat g) with Some v => v | None => dflt end.

Record cff_obs : Type := mkCffObs {
  co_out : outlines;
  co_fdsel : list (option Z)      (* FDSelect(0) .. FDSelect(n), n = number of glyphs *)
}.

Definition sample (o : outlines) : list (option Z) :=
  match o_fdselect o with
  | None => []
  | Some sel => map (fun i => sel (N.of_nat i)) (seq 0 (S (length (o_glyphs o))))
  end.

(* which = false: cff.Outlines.Subset(gl); which = true: SubsetCFF with the
   state state_of gl extras *)
Definition run_cff (which : bool) (o : outlines) (gl extras : list N) : outcome cff_obs :=
  r <- (if which then M_SubsetCFF o (state_of gl extras) else M_cff_subset o gl) ;;
  Ok (mkCffObs r (sample r)).

(* ---- TrueType ---- *)

(* the original id of new glyph j (a marker outside the glyph id range when j
   is not a glyph of the subset) *)
Definition pull (sel : list N) (j : N) : N :=
  match nth_error sel (N.to_nat j) with Some g => g | None => 100000 + j end.

Fixpoint ninsert {X} (key : X -> N) (x : X) (l : list X) : list X :=
  match l with
  | [] => [x]
  | y :: r => if key x <=? key y then x :: l else y :: ninsert key x r
  end.

Fixpoint nsort {X} (key : X -> N) (l : list X) : list X :=
  match l with
  | [] => []
  | x :: r => ninsert key x (nsort key r)
  end.

(* original id, glyph with original component ids, width, name *)
Definition grec : Type := (N * option C11.Model.glyph * Z * option (list N))%type.

Fixpoint grecs (sel : list N) (names : option (list (list N))) (j : nat)
    (gs : list (option C11.Model.glyph)) (ws : list Z) : list grec :=
  match gs with
  | [] => []
  | g :: gr =>
      (pull sel (N.of_nat j), C11.Model.fix_components (pull sel) g, nth j ws 0%Z,
       match names with None => None | Some l => Some (nth j l []) end)
      :: grecs sel names (S j) gr ws
  end.

Record glyf_obs : Type := mkGlyfObs {
  g_listed : list grec;
  g_extras : list grec;           (* sorted by original id *)
  g_nwidths : N;
  g_nnames : option N
}.

Definition observe_glyf (n0 : nat) (sel : list N) (go : goutlines) : glyf_obs :=
  let all := grecs sel (go_names go) 0 (go_glyphs go) (go_widths go) in
  let k := Nat.min n0 (length all) in
  mkGlyfObs (firstn k all) (nsort (fun r => fst (fst (fst r))) (skipn k all))
            (N.of_nat (length (go_widths go)))
            (match go_names go with None => None | Some l => Some (N.of_nat (length l)) end).

Definition run_glyf (go : goutlines) (orc : list nat) (gl extras : list N) : outcome glyf_obs :=
  let st := state_of gl extras in
  p <- M_SubsetGlyf go orc st ;;
  Ok (observe_glyf (length (C10.Model.s_glyphs st)) (C10.Model.s_glyphs (snd p)) (fst p)).

(* ---- whole fonts ---- *)

Inductive outl_obs : Type :=
| ObsCff (o : cff_obs)
| ObsGlyf (o : glyf_obs).

Record font_obs : Type := mkFontObs {
  fo_outl : outl_obs;
  (* key, is-format-12, the map without the entries for glyph 0, and for
     format 12 the bytes Encode returns *)
  fo_cmap : option (list (C09.ModelT.key * bool * C09.Model.amap * option (list N)))
}.

Definition cmap_obs (e : C09.ModelT.key * csub) : C09.ModelT.key * bool * C09.Model.amap * option (list N) :=
  let '(k, s) := e in
  let nz := filter (fun p => negb (snd p =? 0)) (csub_map s) in
  match s with
  | CS4 _ => (k, false, nz, None)
  | CS12 m => (k, true, nz, Some (C09.Model.M_encode12 m (snd k)))
  end.

(* fonts without layout tables (the layout part of Subset is C10's model and
   correspondence) *)
Definition run_font (macrune : N -> N) (orc : list nat) (ol : coutl)
    (cm : option (list (C09.ModelT.key * list N))) (gdef : bool) (gl : list N) : outcome font_obs :=
  r <- M_subset_c macrune orc (mkCFont ol cm None None gdef) gl ;;
  Ok (mkFontObs
        (match cr_outl r with
         | OCff o => ObsCff (mkCffObs o (sample o))
         | OGlyf go => ObsGlyf (observe_glyf (length gl) (cr_sel r) go)
         end)
        (match cr_cmap r with None => None | Some l => Some (map cmap_obs l) end)).
