(* C10B/Proofs_abs.v — the refinement: whenever the concrete model returns a
   subset, C10's abstract model, run on the abstraction of the input, returns
   the abstraction of that subset - for every assignment of ids. *)
From Coq Require Import List NArith ZArith Bool Arith Lia.
From Coq Require Import ZifyBool ZifyNat ZifyN.
From Common Require Import Bytes Outcome.
From Gen Require Import C10B.
From C10 Require Import Model Spec Util Proofs_state Proofs_outl.
From C11 Require Proofs_comp.
From C10B Require Import Model Spec Util Abs.
Import ListNotations.
Local Open Scope N_scope.

(* ------------------------------------------------------------------ *)
(* lists                                                                *)

Lemma mapi_length {X Y} (f : nat -> X -> Y) : forall l i, length (mapi f i l) = length l.
Proof. induction l as [|x r IH]; intros i; cbn [mapi length]; [reflexivity|]. rewrite IH. reflexivity. Qed.

Lemma mapi_nth {X Y} (f : nat -> X -> Y) : forall l i k,
  nth_error (mapi f i l) k = option_map (f (i + k)%nat) (nth_error l k).
Proof.
  induction l as [|x r IH]; intros i k; cbn [mapi].
  - destruct k; reflexivity.
  - destruct k as [|k]; cbn [nth_error option_map].
    + rewrite Nat.add_0_r. reflexivity.
    + rewrite IH. replace (S i + k)%nat with (i + S k)%nat by lia. reflexivity.
Qed.

Lemma nth_error_ext {X} : forall (l1 l2 : list X), (forall i, nth_error l1 i = nth_error l2 i) -> l1 = l2.
Proof.
  induction l1 as [|a r IH]; intros [|b r2] H.
  - reflexivity.
  - specialize (H O). discriminate.
  - specialize (H O). discriminate.
  - pose proof (H O) as H0. cbn in H0. inversion H0; subst. f_equal. apply IH.
    intros i. exact (H (S i)).
Qed.

Lemma nth_error_nth' {X} : forall (l : list X) i x d, nth_error l i = Some x -> nth i l d = x.
Proof. intros l i x d H. apply nth_error_nth. exact H. Qed.

Section Ref.
  Variable body_id : list N -> N.
  Variable name_id : list N -> N.
  Variable priv_id : C13B.ModelFont.privdict -> N.
  Variable mat_id : list C13B.ModelNum.real -> N.
  Variable tt_id : option C11.Model.glyph -> N.

  Notation aglyph_c := (abs_cff_glyph body_id name_id).
  Notation aglyph_g := (abs_glyf_glyph name_id tt_id).
  Notation afont := (abs_font body_id name_id priv_id mat_id tt_id).
  Notation ares := (abs_result body_id name_id priv_id mat_id tt_id).

  (* ---------------------------------------------------------------- *)
  (* CFF                                                                *)

  Section Cff.
    Variable F : font.
    Variable o : outlines.
    Variable sel : N -> option Z.
    Hypothesis Hsel : o_fdselect o = Some sel.
    Hypothesis HFg : f_glyphs F = mapi (aglyph_c o) 0 (o_glyphs o).
    Hypothesis HFp : f_privs F = map priv_id (o_private o).
    Hypothesis HFm : f_mats F = map mat_id (o_matrices o).
    Hypothesis HFk : f_kind F = abs_cff_kind o.

    Lemma glyph_at_cff : forall g x, nth_error (o_glyphs o) (N.to_nat g) = Some x ->
      glyph_at F g = Ok (aglyph_c o (N.to_nat g) x).
    Proof.
      intros g x H. unfold glyph_at, nthN. rewrite HFg, mapi_nth, H. reflexivity.
    Qed.

    Lemma cff_fds_sim : forall gs privs mats pmap privs' mats' pmap',
      (forall g, In g gs -> g < N.of_nat (length (o_glyphs o))) ->
      fd_loop o sel gs privs mats pmap = Ok (privs', mats', pmap') ->
      cff_fds F gs (map priv_id privs) (map mat_id mats) pmap =
        Ok (map priv_id privs', map mat_id mats', pmap').
    Proof.
      induction gs as [|g r IH]; intros privs mats pmap privs' mats' pmap' Hb H; cbn [fd_loop cff_fds] in *.
      - inversion H; subst. reflexivity.
      - assert (Hr : forall g', In g' r -> g' < N.of_nat (length (o_glyphs o))) by (intros g' Hg'; apply Hb; right; exact Hg').
        destruct (idx_lt (o_glyphs o) g (Hb g (or_introl eq_refl))) as [x Ex]. apply idx_Ok in Ex.
        rewrite (glyph_at_cff g x Ex). cbn [obind]. cbn [aglyph_c abs_cff_glyph g_fd].
        unfold fd_at. rewrite Hsel. rewrite N2Nat.id.
        destruct (sel g) as [z|] eqn:Es; [|discriminate].
        destruct (z <? 0)%Z eqn:Ez; [discriminate|].
        unfold fdN. rewrite Es.
        destruct (lookup (Z.to_N z) pmap) eqn:El; [apply IH; assumption|].
        destruct (idx (o_private o) (Z.to_N z)) as [p| | |] eqn:Ep; try discriminate.
        apply idx_Ok in Ep. unfold nthN. rewrite HFp. rewrite (nth_error_map_some priv_id _ _ _ Ep).
        rewrite HFk. unfold abs_cff_kind. rewrite map_length.
        destruct (is_cid_keyed o) eqn:Ec.
        + destruct (idx (o_matrices o) (Z.to_N z)) as [m| | |] eqn:Em; try discriminate.
          apply idx_Ok in Em. rewrite HFm. rewrite (nth_error_map_some mat_id _ _ _ Em).
          specialize (IH (privs ++ [p]) (mats ++ [m]) ((Z.to_N z, N.of_nat (length privs)) :: pmap) privs' mats' pmap' Hr H).
          rewrite !map_app in IH. exact IH.
        + specialize (IH (privs ++ [p]) mats ((Z.to_N z, N.of_nat (length privs)) :: pmap) privs' mats' pmap' Hr H).
          rewrite !map_app in IH. exact IH.
    Qed.

    Lemma fd_loop_nonneg : forall gs privs mats pmap r,
      fd_loop o sel gs privs mats pmap = Ok r ->
      forall g, In g gs -> exists z, sel g = Some z /\ (z <? 0)%Z = false.
    Proof.
      induction gs as [|g0 rr IH]; intros privs mats pmap r H g Hg; [destruct Hg|].
      cbn [fd_loop] in H. destruct (sel g0) as [z|] eqn:Es; [|discriminate].
      destruct (z <? 0)%Z eqn:Ez; [discriminate|].
      destruct Hg as [->|Hg]; [eauto|].
      destruct (lookup (Z.to_N z) pmap); [eapply IH; eauto|].
      destruct (idx (o_private o) (Z.to_N z)); try discriminate.
      destruct (is_cid_keyed o).
      - destruct (idx (o_matrices o) (Z.to_N z)); try discriminate. eapply IH; eauto.
      - eapply IH; eauto.
    Qed.

    (* the glyph records cff_glyphs builds are the abstraction of the new outlines *)
    Lemma cff_glyphs_sim : forall (single : bool) pmap gs glyphs tbl (fdsel : N -> option Z) (g2c' : option (list N)) o',
      mapo (idx (o_glyphs o)) gs = Ok glyphs ->
      (forall g, In g gs -> exists z, sel g = Some z /\ (z <? 0)%Z = false) ->
      (if single then fdsel = fdselect_simple
       else mapo (fd_entry sel pmap) gs = Ok tbl /\ fdsel = fdselect_table tbl) ->
      match o_gid2cid o with
      | None => g2c' = None
      | Some l => exists c, mapo (idx l) gs = Ok c /\ g2c' = Some c
      end ->
      o_glyphs o' = glyphs -> o_fdselect o' = Some fdsel -> o_gid2cid o' = g2c' ->
      cff_glyphs F single pmap gs = Ok (mapi (aglyph_c o') 0 (o_glyphs o')).
    Proof.
      intros single pmap gs glyphs tbl fdsel g2c' o' Eg Hnn Efs Ec Hg' Hf' Hc'.
      assert (Hb : bounded (nG F) gs).
      { intros g Hg. unfold nG. rewrite HFg, mapi_length.
        destruct (In_nth_error _ _ Hg) as [i Hi]. destruct (mapo_nth _ _ _ _ _ Eg Hi) as [y [_ Hy]].
        apply idx_Ok in Hy. assert (N.to_nat g < length (o_glyphs o))%nat by (apply nth_error_Some; congruence). lia. }
      destruct (cff_glyphs_spec F single pmap gs Hb) as [l [El Hl]]. rewrite El. f_equal.
      apply nth_error_ext. intros i. rewrite mapi_nth. cbn [Nat.add]. rewrite Hg'.
      destruct (nth_error gs i) as [g|] eqn:Egi.
      - destruct (mapo_nth _ _ _ _ _ Eg Egi) as [x [Hx Ex]]. apply idx_Ok in Ex. rewrite Hx. cbn [option_map].
        destruct (Forall2_nth_l _ _ _ _ _ Hl Egi) as [y [Hy [x' [Ex' Ey]]]]. rewrite Hy. f_equal. subst y.
        rewrite (glyph_at_cff g x Ex) in Ex'. inversion Ex'; subst x'.
        unfold cff_rec, abs_cff_glyph. cbn [g_outline g_width g_name g_cid g_fd]. f_equal.
        + (* CID *)
          unfold cid_at. rewrite Hc'. destruct (o_gid2cid o) as [lc|] eqn:Elc.
          * destruct Ec as [c [Emc ->]]. destruct (mapo_nth _ _ _ _ _ Emc Egi) as [cc [Hcc Ecc]].
            apply idx_Ok in Ecc. rewrite (nth_error_nth' _ _ _ 0 Hcc). rewrite (nth_error_nth' _ _ _ 0 Ecc). reflexivity.
          * subst g2c'. reflexivity.
        + (* FD *)
          unfold fd_at at 2. rewrite Hf'. unfold fd_at. rewrite Hsel, N2Nat.id.
          destruct single.
          * subst fdsel. reflexivity.
          * destruct Efs as [Et ->]. unfold fdN, fdselect_table. rewrite Nat2N.id.
            destruct (mapo_nth _ _ _ _ _ Et Egi) as [z [Hz Ez]]. rewrite Hz.
            unfold fd_entry in Ez. destruct (Hnn g (nth_error_In _ _ Egi)) as [zz [Ezz Hzz]].
            rewrite Ezz in *. inversion Ez; subst z. rewrite Hzz.
            destruct (lookup (Z.to_N zz) pmap); [symmetry; apply N2Z.id|reflexivity].
      - assert (Hn1 : nth_error glyphs i = None).
        { apply nth_error_None. rewrite (mapo_length _ _ _ Eg). apply nth_error_None. exact Egi. }
        rewrite Hn1. cbn [option_map]. apply nth_error_None.
        rewrite <- (Forall2_len _ _ _ Hl). apply nth_error_None. exact Egi.
    Qed.

    Lemma subset_cff_sim : forall single gs st o',
      cff_subset_body single o gs st = Ok o' -> s_glyphs st = gs -> single = 1%nat ->
      subset_cff F st = Ok (mapi (aglyph_c o') 0 (o_glyphs o'), map priv_id (o_private o'), map mat_id (o_matrices o')) /\
      o_encoding o' = subset_enc st (o_encoding o) /\ is_cid_keyed o' = is_cid_keyed o.
    Proof.
      intros single gs st o' H Hst Hs. unfold cff_subset_body in H.
      destruct (mapo (idx (o_glyphs o)) gs) as [glyphs| | |] eqn:Eg; cbn [obind] in H; try discriminate.
      rewrite Hsel in H.
      destruct (fd_loop o sel gs [] [] []) as [[[privs mats] pmap]| | |] eqn:El; cbn [obind] in H; try discriminate.
      assert (Hb : forall g, In g gs -> g < N.of_nat (length (o_glyphs o))).
      { intros g Hg. destruct (In_nth_error _ _ Hg) as [i Hi]. destruct (mapo_nth _ _ _ _ _ Eg Hi) as [y [_ Hy]].
        apply idx_Ok in Hy. assert (N.to_nat g < length (o_glyphs o))%nat by (apply nth_error_Some; congruence). lia. }
      pose proof (cff_fds_sim gs [] [] [] privs mats pmap Hb El) as Hf. cbn [map] in Hf.
      unfold subset_cff. rewrite Hst, Hf. cbn [obind].
      assert (Hnn := fd_loop_nonneg _ _ _ _ _ El).
      assert (Hg2c : forall g2c,
                match o_gid2cid o with None => Ok None | Some l => c <- mapo (idx l) gs ;; Ok (Some c) end = Ok g2c ->
                match o_gid2cid o with None => g2c = None | Some l => exists c, mapo (idx l) gs = Ok c /\ g2c = Some c end).
      { intros g2c Ec. destruct (o_gid2cid o) as [lc|].
        - destruct (mapo (idx lc) gs) as [c| | |]; cbn [obind] in Ec; try discriminate. inversion Ec. eauto.
        - inversion Ec. reflexivity. }
      destruct (Nat.eqb (length privs) single) eqn:E1.
      - cbn [obind] in H.
        destruct (match o_gid2cid o with None => Ok None | Some l => c <- mapo (idx l) gs ;; Ok (Some c) end) as [g2c| | |] eqn:Ec;
          cbn [obind] in H; try discriminate.
        injection H as <-. cbn [o_glyphs o_private o_matrices o_encoding o_ros].
        rewrite map_length. subst single. rewrite E1.
        match goal with |- context [mapi (aglyph_c ?X) 0 _] =>
          rewrite (cff_glyphs_sim true pmap gs glyphs [] fdselect_simple g2c X Eg Hnn eq_refl (Hg2c g2c eq_refl) eq_refl eq_refl eq_refl) end.
        cbn [obind o_glyphs]. split; [reflexivity|]. split; [destruct (o_encoding o); reflexivity|reflexivity].
      - destruct (mapo (fd_entry sel pmap) gs) as [tbl| | |] eqn:Et; cbn [obind] in H; try discriminate.
        destruct (match o_gid2cid o with None => Ok None | Some l => c <- mapo (idx l) gs ;; Ok (Some c) end) as [g2c| | |] eqn:Ec;
          cbn [obind] in H; try discriminate.
        injection H as <-. cbn [o_glyphs o_private o_matrices o_encoding o_ros].
        rewrite map_length. subst single. rewrite E1.
        match goal with |- context [mapi (aglyph_c ?X) 0 _] =>
          rewrite (cff_glyphs_sim false pmap gs glyphs tbl (fdselect_table tbl) g2c X Eg Hnn (conj Et eq_refl) (Hg2c g2c eq_refl) eq_refl eq_refl eq_refl) end.
        cbn [obind o_glyphs]. split; [reflexivity|]. split; [destruct (o_encoding o); reflexivity|reflexivity].
    Qed.
  End Cff.

  (* ---------------------------------------------------------------- *)
  (* TrueType                                                           *)

  (* FixComponents does not change the glyph with erased indices *)
  Lemma tt_outline_fix : forall h g, tt_outline tt_id (C11.Model.fix_components h g) = tt_outline tt_id g.
  Proof.
    intros h g. pose proof (C11.Proofs_comp.fix_forget h g) as H.
    destruct g as [[b [nc e|cs ins]]|]; cbn [C11.Model.fix_components] in *; unfold tt_outline; [reflexivity| |reflexivity].
    rewrite H. reflexivity.
  Qed.

  Section Glyf.
    Variable F : font.
    Variable go : goutlines.
    Hypothesis HFg : f_glyphs F = mapi (aglyph_g go) 0 (go_glyphs go).

    Lemma glyph_at_glyf : forall g, glyph_at F g =
      match nth_error (go_glyphs go) (N.to_nat g) with
      | Some x => Ok (aglyph_g go (N.to_nat g) x)
      | None => Panic
      end.
    Proof. intros g. unfold glyph_at, nthN. rewrite HFg, mapi_nth. destruct (nth_error (go_glyphs go) (N.to_nat g)); reflexivity. Qed.

    Lemma comp_close_sim : forall fuel orc todo st,
      c_comp_close fuel go orc todo st = comp_close fuel F orc todo st.
    Proof.
      induction fuel as [|fu IH]; intros orc todo st; cbn [c_comp_close comp_close]; [reflexivity|].
      destruct (pick orc todo) as [[g todo1]|]; [|reflexivity].
      unfold comps_at, idx. rewrite glyph_at_glyf.
      destruct (nth_error (go_glyphs go) (N.to_nat g)) as [x|]; cbn [obind]; [|reflexivity].
      cbn [aglyph_g abs_glyf_glyph g_comps].
      destruct (add_comps (C11.Model.components x) st todo1) as [st1 todo2]. apply IH.
    Qed.

    Lemma glyf_glyphs_sim : forall st gs glyphs widths names go',
      mapo (fixed_glyph go st) gs = Ok glyphs ->
      mapo (idx (go_widths go)) gs = Ok widths ->
      match go_names go with
      | None => names = None
      | Some l => exists n, mapo (idx l) gs = Ok n /\ names = Some n
      end ->
      go' = mkGO glyphs widths names ->
      glyf_glyphs F st gs = Ok (mapi (aglyph_g go') 0 (go_glyphs go')).
    Proof.
      intros st gs glyphs widths names go' Eg Ew En ->. cbn [go_glyphs].
      assert (Hb : bounded (nG F) gs).
      { intros g Hg. unfold nG. rewrite HFg, mapi_length.
        destruct (In_nth_error _ _ Hg) as [i Hi]. destruct (mapo_nth _ _ _ _ _ Eg Hi) as [y [_ Hy]].
        unfold fixed_glyph in Hy. destruct (idx (go_glyphs go) g) as [x| | |] eqn:Ex; cbn [obind] in Hy; try discriminate.
        apply idx_Ok in Ex. assert (N.to_nat g < length (go_glyphs go))%nat by (apply nth_error_Some; congruence). lia. }
      destruct (glyf_glyphs_spec F st gs Hb) as [l [El Hl]]. rewrite El. f_equal.
      apply nth_error_ext. intros i. rewrite mapi_nth. cbn [Nat.add].
      destruct (nth_error gs i) as [g|] eqn:Egi.
      - destruct (mapo_nth _ _ _ _ _ Eg Egi) as [y [Hy Ey]]. rewrite Hy. cbn [option_map].
        unfold fixed_glyph in Ey. destruct (idx (go_glyphs go) g) as [x| | |] eqn:Ex; cbn [obind] in Ey; try discriminate.
        inversion Ey; subst y. apply idx_Ok in Ex.
        destruct (Forall2_nth_l _ _ _ _ _ Hl Egi) as [r [Hr [x' [Ex' Er]]]]. rewrite Hr. f_equal. subst r.
        rewrite glyph_at_glyf, Ex in Ex'. inversion Ex'; subst x'.
        unfold glyf_rec, abs_glyf_glyph. cbn [g_outline g_width g_name g_cid g_comps go_widths go_names].
        destruct (mapo_nth _ _ _ _ _ Ew Egi) as [w [Hw Ew']]. apply idx_Ok in Ew'.
        f_equal.
        + symmetry. apply tt_outline_fix.
        + rewrite (nth_error_nth' _ _ _ 0%Z Hw). rewrite (nth_error_nth' _ _ _ 0%Z Ew'). reflexivity.
        + destruct (go_names go) as [ln|] eqn:Eln.
          * destruct En as [n [Emn ->]]. destruct (mapo_nth _ _ _ _ _ Emn Egi) as [nm [Hnm Enm]].
            apply idx_Ok in Enm. rewrite (nth_error_nth' _ _ _ [] Hnm). rewrite (nth_error_nth' _ _ _ [] Enm). reflexivity.
          * subst names. reflexivity.
        + symmetry. apply C11.Proofs_comp.components_fix_lemma.
      - assert (Hn1 : nth_error glyphs i = None).
        { apply nth_error_None. rewrite (mapo_length _ _ _ Eg). apply nth_error_None. exact Egi. }
        rewrite Hn1. cbn [option_map]. apply nth_error_None.
        rewrite <- (Forall2_len _ _ _ Hl). apply nth_error_None. exact Egi.
    Qed.

    Lemma subset_glyf_sim : forall orc st go' st',
      M_SubsetGlyf go orc st = Ok (go', st') ->
      subset_glyf F orc st = Ok (mapi (aglyph_g go') 0 (go_glyphs go'), st').
    Proof.
      intros orc st go' st' H. unfold M_SubsetGlyf in H. unfold subset_glyf.
      replace (length (f_glyphs F)) with (length (go_glyphs go)) by (rewrite HFg, mapi_length; reflexivity).
      set (todo := fold_left (fun t g => set_add g t) (s_glyphs st) []) in *.
      rewrite <- comp_close_sim.
      destruct (c_comp_close (S (length (go_glyphs go) + length todo)) go orc todo st) as [st1| | |]; cbn [obind] in *; try discriminate.
      destruct (mapo (fixed_glyph go st1) (s_glyphs st1)) as [glyphs| | |] eqn:Eg; cbn [obind] in H; try discriminate.
      destruct (mapo (idx (go_widths go)) (s_glyphs st1)) as [widths| | |] eqn:Ew; cbn [obind] in H; try discriminate.
      destruct (match go_names go with None => Ok None | Some l => n <- mapo (idx l) (s_glyphs st1) ;; Ok (Some n) end)
        as [names| | |] eqn:En; cbn [obind] in H; try discriminate.
      inversion H; subst go' st'.
      erewrite (glyf_glyphs_sim st1 (s_glyphs st1) glyphs widths names); try reflexivity; try eassumption.
      destruct (go_names go) as [l|].
      - destruct (mapo (idx l) (s_glyphs st1)) as [n| | |]; cbn [obind] in En; try discriminate. inversion En. eauto.
      - inversion En. reflexivity.
    Qed.
  End Glyf.

  (* ---------------------------------------------------------------- *)
  (* cmap                                                               *)

  Lemma subset_cmaps_sim : forall macrune st t c,
    M_subset_cmaps macrune st t = Ok c ->
    map (subset_cmap st) (abs_cmaps macrune t) = map (fun e => csub_map (snd e)) c.
  Proof.
    intros macrune st. induction t as [|[k data] r IH]; intros c H; cbn [M_subset_cmaps abs_cmaps] in *.
    - inversion H. reflexivity.
    - unfold M_subset_cmap_entry in H.
      destruct (C09.ModelT.M_get_sub macrune raw_key data) as [[d|m]| | |]; cbn [obind] in H; try discriminate.
      + destruct (M_subset_cmaps macrune st r) as [rest| | |]; cbn [obind] in H; try discriminate.
        inversion H; subst c. cbn [map snd]. f_equal; [|apply IH; reflexivity].
        destruct (rd16 data =? 12); reflexivity.
      + destruct (M_subset_cmaps macrune st r) as [rest| | |]; cbn [obind] in H; try discriminate.
        inversion H; subst c. apply IH. reflexivity.
  Qed.

  (* ---------------------------------------------------------------- *)
  (* the font                                                           *)

  Theorem subset_refines : forall macrune orc f gl rc,
    M_subset_c macrune orc f gl = Ok rc ->
    M_subset orc (afont macrune f) gl = Ok (ares rc).
  Proof.
    intros macrune orc f gl rc H. unfold M_subset_c in H. unfold M_subset.
    (* cmap *)
    assert (Hcm : exists cm, match cf_cmap f with None => Ok None | Some t => c <- M_subset_cmaps macrune (init gl) t ;; Ok (Some c) end = Ok cm /\
              map (subset_cmap (init gl)) (f_cmaps (afont macrune f)) =
              match cm with Some l => map (fun e => csub_map (snd e)) l | None => [] end).
    { cbn [abs_font f_cmaps]. destruct (cf_cmap f) as [t|].
      - destruct (M_subset_cmaps macrune (init gl) t) as [c| | |] eqn:Ec; cbn [obind] in H; try discriminate.
        exists (Some c). split; [reflexivity|]. apply subset_cmaps_sim. exact Ec.
      - exists None. split; reflexivity. }
    destruct Hcm as [cm [Ecm Hcm]]. rewrite Ecm in H. cbn [obind] in H.
    (* GSUB *)
    assert (Hgs : exists gsub st1 orc1,
              match cf_gsub f with
              | None => Ok (None, init gl, orc)
              | Some ll => x <- subset_gsub orc ll (init gl) ;; let '(gsub, st1, orc1) := x in Ok (Some gsub, st1, orc1)
              end = Ok (gsub, st1, orc1) /\
              subset_gsub orc (f_gsub (afont macrune f)) (init gl) = Ok (opt_list gsub, st1, orc1)).
    { cbn [abs_font f_gsub]. destruct (cf_gsub f) as [ll|]; cbn [opt_list].
      - destruct (subset_gsub orc ll (init gl)) as [[[gsub st1] orc1]| | |] eqn:Eg; cbn [obind] in H; try discriminate.
        exists (Some gsub), st1, orc1. split; reflexivity.
      - exists None, (init gl), orc. split; reflexivity. }
    destruct Hgs as [gsub [st1 [orc1 [Egs Hgs]]]]. rewrite Egs in H. cbn [obind] in H.
    rewrite Hgs. cbn [obind].
    destruct (cf_gdef f); [discriminate|].
    destruct (cf_outl f) as [o|go] eqn:Eol.
    - (* CFF *)
      destruct (M_SubsetCFF o st1) as [o'| | |] eqn:Eo; cbn [obind] in H; try discriminate.
      inversion H; subst rc. unfold M_SubsetCFF in Eo.
      assert (Hk : f_kind (afont macrune f) = abs_cff_kind o) by (cbn [abs_font f_kind]; rewrite Eol; reflexivity).
      assert (Hsim : subset_cff (afont macrune f) st1 =
                       Ok (mapi (aglyph_c o') 0 (o_glyphs o'), map priv_id (o_private o'), map mat_id (o_matrices o')) /\
                     o_encoding o' = subset_enc st1 (o_encoding o) /\ is_cid_keyed o' = is_cid_keyed o).
      { destruct (o_fdselect o) as [sel|] eqn:Hsel.
        - apply (subset_cff_sim (afont macrune f) o sel Hsel) with (single := c10b_sfntSingleFD) (gs := s_glyphs st1);
            try reflexivity; try exact Eo;
            cbn [abs_font f_glyphs f_privs f_mats f_kind]; rewrite Eol; reflexivity.
        - (* a nil FDSelect is not called when the state is empty *)
          unfold cff_subset_body in Eo. rewrite Hsel in Eo. unfold subset_cff.
          destruct (s_glyphs st1) as [|g0 gr] eqn:Es.
          + cbn [mapo obind fd_loop length] in Eo. change (Nat.eqb 0 c10b_sfntSingleFD) with false in Eo.
            cbn [mapo obind cff_fds cff_glyphs length].
            destruct (o_gid2cid o); cbn [mapo obind] in Eo; injection Eo as <-;
              cbn [o_glyphs o_private o_matrices o_encoding o_ros mapi map is_cid_keyed];
              (split; [reflexivity|]); (split; [destruct (o_encoding o); reflexivity|reflexivity]).
          + destruct (mapo (idx (o_glyphs o)) (g0 :: gr)); cbn [obind] in Eo; discriminate. }
      destruct Hsim as [Hs [He Hc]].
      rewrite Hk. unfold abs_cff_kind at 1.
        assert (Hnk : (if is_cid_keyed o then KCid else KCff) <> KGlyf) by (destruct (is_cid_keyed o); discriminate).
        destruct (if is_cid_keyed o then KCid else KCff) eqn:Ek; [congruence| |];
          rewrite Hs; cbn [obind]; unfold abs_result; cbn [cr_sel cr_outl cr_cmap cr_gsub cr_gpos abs_kind abs_glyphs abs_privs abs_mats abs_enc];
          unfold abs_cff_kind; rewrite Hc, Ek; cbn [abs_font f_enc f_gpos]; rewrite Eol; cbn [abs_enc]; rewrite He, Hcm;
          destruct (cf_gpos f); reflexivity.
    - (* TrueType *)
      destruct (M_SubsetGlyf go orc1 st1) as [[go' st2]| | |] eqn:Eg; cbn [obind] in H; try discriminate.
      inversion H; subst rc. cbn [fst snd].
      assert (Hk : f_kind (afont macrune f) = KGlyf) by (cbn [abs_font f_kind]; rewrite Eol; reflexivity).
      rewrite Hk.
      rewrite (subset_glyf_sim (afont macrune f) go) with (go' := go') (st' := st2); [|cbn [abs_font f_glyphs]; rewrite Eol; reflexivity|exact Eg].
      cbn [obind]. unfold abs_result. cbn [cr_sel cr_outl cr_cmap cr_gsub cr_gpos abs_kind abs_glyphs abs_privs abs_mats abs_enc].
      cbn [abs_font f_gpos]. rewrite Hcm. destruct (cf_gpos f); reflexivity.
  Qed.
End Ref.
