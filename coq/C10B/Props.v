(* C10B/Props.v — the property theorems of part C10B (property C10: subsetting
   keeps every selected glyph intact and consistently re-indexed), stated over
   the CONCRETE models of the developments that own the data: C13B's private
   dictionaries and reals, C11's TrueType glyph and component records with its
   byte encoder / decoder, C09's cmap encoders / decoders.  Nothing else.

   M_cff_subset = cff.Outlines.Subset, M_SubsetCFF / M_SubsetGlyf = the
   methods of the subsetter in subset.go, M_subset_c = Font.Subset.  `sel` is
   the FDSelect function (N -> option Z: a Go int, or a panic); used_fds sel gl
   = the font dictionaries the listed glyphs use, each once, in the order of
   first use; fdN sel g = FDSelect(g). *)
From Coq Require Import String.
From Coq Require Import List NArith ZArith Bool Arith Lia.
From Common Require Import Bytes Outcome.
From Gen Require Import C10B.
From C10 Require Import Model Spec Util Proofs_state.
From C10B Require Import Model Spec Util Abs Proofs_cff Proofs_abs Proofs_glyf Proofs_cmap
  Proofs_props Proofs_transfer Proofs_total Proofs_write.
Import ListNotations.
Local Open Scope N_scope.

(* ================================================================== *)
(* (1) CID-keyed CFF outlines                                          *)

(* For EVERY CID-keyed outlines value, every FDSelect function and every glyph
   list on which the call is defined (cff_pre: the listed glyphs exist,
   FDSelect names an existing private dictionary and font matrix for each of
   them, GIDToCID covers them - any number of dictionaries, nothing asked of
   unlisted glyphs, the list need not even be duplicate-free): Subset returns
   CID-keyed outlines with the same ROS in which glyph i is the *Glyph
   (charstring, width, name) listed at i, with the same CID, and the new
   FDSelect leads - through the re-numbered FD array - to the private
   dictionary and font matrix EQUAL to those the original assigned to that
   glyph; the dictionaries of the subset are exactly the used ones
   (unused ones are dropped), each once, in the order of first use. *)
Theorem cff_subset_fd_preserved : forall (o : outlines) (sel : N -> option Z) (gl : list N),
  is_cid_keyed o = true -> cff_pre o sel gl ->
  exists o' sel',
    M_cff_subset o gl = Ok o' /\ o_fdselect o' = Some sel' /\ o_ros o' = o_ros o /\
    length (o_glyphs o') = length gl /\
    (forall i g, nth_error gl i = Some g ->
       exists x p m fd',
         nth_error (o_glyphs o) (N.to_nat g) = Some x /\ nth_error (o_glyphs o') i = Some x /\
         sel' (N.of_nat i) = Some (Z.of_N fd') /\
         nth_error (o_private o) (N.to_nat (fdN sel g)) = Some p /\ nth_error (o_private o') (N.to_nat fd') = Some p /\
         nth_error (o_matrices o) (N.to_nat (fdN sel g)) = Some m /\ nth_error (o_matrices o') (N.to_nat fd') = Some m /\
         (forall l, o_gid2cid o = Some l ->
            exists l' c, o_gid2cid o' = Some l' /\ nth_error l (N.to_nat g) = Some c /\ nth_error l' i = Some c)) /\
    length (o_private o') = length (used_fds sel gl) /\ length (o_matrices o') = length (used_fds sel gl) /\
    NoDup (used_fds sel gl) /\
    (forall fd, In fd (used_fds sel gl) <-> exists g, In g gl /\ fdN sel g = fd) /\
    (forall k fd, nth_error (used_fds sel gl) k = Some fd ->
       nth_error (o_private o') k = nth_error (o_private o) (N.to_nat fd) /\
       nth_error (o_matrices o') k = nth_error (o_matrices o) (N.to_nat fd) /\
       nth_error (o_private o') k <> None /\ nth_error (o_matrices o') k <> None) /\
    (forall i j a b, (i < j)%nat -> nth_error (used_fds sel gl) i = Some a -> nth_error (used_fds sel gl) j = Some b ->
       exists p q, index_of a (map (fdN sel) gl) = Some p /\ index_of b (map (fdN sel) gl) = Some q /\ (p < q)%nat).
Proof. exact cff_subset_fd_preserved_lemma. Qed.
Print Assumptions cff_subset_fd_preserved.

(* The same body serves SubsetCFF of subset.go (the literal `== 1` of either
   function is regenerated from the source): what it returns for the state st
   satisfies the same specification, with the encoding re-keyed through
   s.newGid. *)
Theorem subsetcff_spec : forall o sel st, cff_pre o sel (s_glyphs st) ->
  exists o', M_SubsetCFF o st = Ok o' /\ cff_spec c10b_sfntSingleFD o sel (s_glyphs st) st o'.
Proof. intros o sel st H. apply cff_subset_body_spec; [reflexivity|exact H]. Qed.
Print Assumptions subsetcff_spec.

(* ================================================================== *)
(* (2) simple CFF outlines: names and the built-in encoding            *)

(* For every simple font (at most 65536 glyphs), every duplicate-free list in
   the domain: glyph i carries the name, width and charstring of the glyph
   listed at i; the result is a simple font without font matrices; every code
   of a listed glyph - each of them when the glyph has several codes - gets
   the glyph's new index, and every code of an unlisted glyph gets 0, the
   .notdef glyph (the list starts with glyph 0; without that see
   Examples.cff_list_not_starting_with_0_refuted). *)
Theorem cff_subset_simple : forall (o : outlines) (sel : N -> option Z) (gl : list N),
  is_cid_keyed o = false -> cff_pre o sel gl -> NoDup gl ->
  N.of_nat (length (o_glyphs o)) <= 65536 ->
  exists o',
    M_cff_subset o gl = Ok o' /\ o_ros o' = None /\ o_matrices o' = [] /\
    length (o_glyphs o') = length gl /\
    (forall i g, nth_error gl i = Some g ->
       exists x, nth_error (o_glyphs o) (N.to_nat g) = Some x /\ nth_error (o_glyphs o') i = Some x) /\
    match o_encoding o with
    | None => o_encoding o' = None
    | Some e => exists e', o_encoding o' = Some e' /\ length e' = length e /\
        forall code g, nth_error e code = Some g ->
          (forall i, nth_error gl i = Some g -> nth_error e' code = Some (N.of_nat i)) /\
          (~ In g gl -> nth_error e' code = Some 0)
    end.
Proof. exact cff_subset_simple_lemma. Qed.
Print Assumptions cff_subset_simple.

(* ================================================================== *)
(* (3) TrueType outlines: closure and rewritten composites             *)

(* For every glyph set (arbitrarily nested composites, shared and blank
   components, cycles) whose component references are in range, with one
   width / name per glyph (glyf_pre), every map-iteration order orc and every
   subsetter state st (Inv: duplicate-free, in range): SubsetGlyf returns; its
   glyph list is st's list followed by extras, without duplicates, and holds
   exactly the glyphs reachable from st's list through component references;
   new glyph i is FixComponents of the glyph listed at i: by C11's
   components_fix the same component list with every glyph id mapped old ->
   new and everything else untouched; every mapped id is the position of the
   original component in the new list; the encoded bytes have the same length
   and are identical outside the positions of the glyph ids; for glyphs in
   C11's normal form (everything glyf.Decode returns) C11's decoder reads the
   rewritten glyph back from those bytes; widths and names follow. *)
Theorem glyf_subset_components : forall go orc st,
  glyf_pre go -> Inv (N.of_nat (length (go_glyphs go))) st ->
  exists go' st2,
    M_SubsetGlyf go orc st = Ok (go', st2) /\
    (exists ext, s_glyphs st2 = s_glyphs st ++ ext) /\ NoDup (s_glyphs st2) /\
    (forall g, In g (s_glyphs st2) <-> Reach go (s_glyphs st) g) /\
    length (go_glyphs go') = length (s_glyphs st2) /\
    (forall i g, nth_error (s_glyphs st2) i = Some g ->
       exists x y w,
         nth_error (go_glyphs go) (N.to_nat g) = Some x /\ nth_error (go_glyphs go') i = Some y /\
         y = C11.Model.fix_components (new_or0 st2) x /\
         C11.Model.components y = map (new_or0 st2) (C11.Model.components x) /\
         C11.Model.forget_gids y = C11.Model.forget_gids x /\
         (forall c, In c (C11.Model.components x) ->
            nth_error (s_glyphs st2) (N.to_nat (new_or0 st2 c)) = Some c /\ new_or0 st2 c < 65536) /\
         length (glyph_bytes y) = length (glyph_bytes x) /\
         (forall p, ~ In p (glyph_gid_offsets x) -> nth p (glyph_bytes y) 0 = nth p (glyph_bytes x) 0) /\
         (C11.Model.nf_glyph x = true -> forall n, n mod 2 = 0 ->
            C11.Model.M_decode_glyph (C11.Model.enc_glyph_at n y) = Ok y) /\
         nth_error (go_widths go) (N.to_nat g) = Some w /\ nth_error (go_widths go') i = Some w /\
         match go_names go with
         | None => go_names go' = None
         | Some l => exists l' nm, go_names go' = Some l' /\ nth_error l (N.to_nat g) = Some nm /\ nth_error l' i = Some nm
         end).
Proof. exact glyf_subset_components_lemma. Qed.
Print Assumptions glyf_subset_components.

(* glyph_bytes is what Glyph.append writes before the padding (C11's
   enc_glyph_at), and the bytes at the k-th glyph-id position of a rewritten
   composite are the new id of its k-th component, big-endian. *)
Theorem rewritten_composite_gid_bytes : forall h b cs ins k c,
  nth_error cs k = Some c ->
  let g := Some {| C11.Model.g_box := b; C11.Model.g_data := C11.Model.Composite cs ins |} in
  (forall n, C11.Model.enc_glyph_at n (C11.Model.fix_components h g) =
     glyph_bytes (C11.Model.fix_components h g) ++
     repeat 0 (C11.Model.pad_count (n + C11.Model.len (glyph_bytes (C11.Model.fix_components h g))))) /\
  exists p,
    nth_error (glyph_gid_offsets g) (2 * k) = Some p /\
    nth_error (glyph_gid_offsets g) (2 * k + 1) = Some (p + 1)%nat /\
    firstn 2 (skipn p (glyph_bytes (C11.Model.fix_components h g))) = be16 (h (C11.Model.c_gid c)).
Proof.
  intros h b cs ins k c Hk g. split; [intros n; reflexivity|]. exact (fixed_glyph_gid_bytes h b cs ins k c Hk).
Qed.
Print Assumptions rewritten_composite_gid_bytes.

(* ================================================================== *)
(* (4) the character map, written and read back                       *)

(* For every duplicate-free list (at most 65536 glyphs), every cmap subtable
   (bytes) that the loop of Font.Subset keeps: the decoder returned a sorted
   map m; the subtable of the subset holds exactly  c -> k  for the codes c
   with m(c) listed at position k, and nothing else; and WHATEVER the writer
   emits for it - Format12.Encode, or Format4.Encode for any path of its
   segment graph that fits the 16-bit length field (C09) - decodes with the
   library's decoder to that map (format 12: the identical association list;
   format 4: the same glyph for every one of the 65536 codes). *)
Theorem cmap_subset_roundtrips : forall macrune gl data s,
  NoDup gl -> N.of_nat (length gl) <= 65536 -> Forall (fun b => b < 256) data ->
  M_subset_cmap_entry macrune (init gl) data = Ok (Some s) ->
  exists m,
    C09.ModelT.M_get_sub macrune raw_key data = Ok (C09.ModelT.SubMap m) /\
    C09.Model.sorted_keys m = true /\
    csub_map s = subset_cmap (init gl) m /\
    (forall c k, In (c, k) (csub_map s) <-> exists g, In (c, g) m /\ nth_error gl (N.to_nat k) = Some g) /\
    forall lang b, lang < 65536 -> encodes s lang b ->
      match s with
      | CS12 m' => C09.Model.M_decode12 false b = Ok m'
      | CS4 m' => exists mm, C09.Model4.M_decode4 (fun c => c) b = Ok mm /\ C09.Model.sorted_keys mm = true /\
                             forall c, c <= 65535 -> C09.Model.lookup mm c = C09.Model.lookup m' c
      end.
Proof. exact cmap_subset_roundtrips_lemma. Qed.
Print Assumptions cmap_subset_roundtrips.

(* the lookup function of the subset's map, code by code *)
Theorem cmap_subset_lookup : forall gl m, NoDup gl -> N.of_nat (length gl) <= 65536 -> C09.Model.sorted_keys m = true ->
  forall c,
    (forall g k, In (c, g) m -> nth_error gl k = Some g -> C09.Model.lookup (subset_cmap (init gl) m) c = N.of_nat k) /\
    ((forall g, In (c, g) m -> ~ In g gl) -> C09.Model.lookup (subset_cmap (init gl) m) c = 0).
Proof. exact subset_cmap_lookup. Qed.
Print Assumptions cmap_subset_lookup.

(* ================================================================== *)
(* (5) refinement of C10's abstract model                              *)

(* For EVERY assignment of ids to glyph programs, names, private
   dictionaries, font matrices and (index-erased) TrueType glyphs, every
   font, list and iteration order: whenever the concrete model of Font.Subset
   returns a subset, C10's M_subset, run on the abstraction of the font,
   returns the abstraction of that subset.  So every theorem of C10/Props.v
   about M_subset speaks about the concrete subset. *)
Theorem subset_refines_abstract :
  forall (body_id name_id : list N -> N) (priv_id : C13B.ModelFont.privdict -> N)
         (mat_id : list C13B.ModelNum.real -> N) (tt_id : option C11.Model.glyph -> N)
         macrune orc f gl rc,
    M_subset_c macrune orc f gl = Ok rc ->
    M_subset orc (abs_font body_id name_id priv_id mat_id tt_id macrune f) gl =
      Ok (abs_result body_id name_id priv_id mat_id tt_id rc).
Proof. exact subset_refines. Qed.
Print Assumptions subset_refines_abstract.

(* C10's domain (wf_fontb / wf_listb) does not look at the ids *)
Theorem c10_domain_id_independent :
  forall body_id name_id priv_id mat_id tt_id macrune f gl,
    wf_fontb (abs_font body_id name_id priv_id mat_id tt_id macrune f) = wf_fontb (abs0 macrune f) /\
    wf_listb (abs_font body_id name_id priv_id mat_id tt_id macrune f) gl = wf_listb (abs0 macrune f) gl.
Proof. intros. split; [apply wf_indep|apply wf_list_indep]. Qed.
Print Assumptions c10_domain_id_independent.

(* C10.glyph_i_is_original transferred (CFF): glyph i of the concrete subset
   has the glyph program, width, name and CID of the original glyph listed at
   i, and its private dictionary and (CID-keyed) font matrix are EQUAL, as
   values, to the original's - also for the glyphs appended for substitution
   rules. *)
Theorem glyph_i_is_original_concrete : forall macrune orc f gl rc o o',
  in_c10_domain macrune f gl -> M_subset_c macrune orc f gl = Ok rc ->
  cf_outl f = OCff o -> cr_outl rc = OCff o' ->
  (forall i g, nth_error gl i = Some g -> nth_error (cr_sel rc) i = Some g) /\
  length (o_glyphs o') = length (cr_sel rc) /\
  forall i g, nth_error (cr_sel rc) i = Some g ->
    exists x y p,
      nth_error (o_glyphs o) (N.to_nat g) = Some x /\ nth_error (o_glyphs o') i = Some y /\
      cg_body y = cg_body x /\ cg_width y = cg_width x /\ cg_name y = cg_name x /\
      cid_at o' i = cid_at o (N.to_nat g) /\
      nth_error (o_private o) (N.to_nat (fd_at o (N.to_nat g))) = Some p /\
      nth_error (o_private o') (N.to_nat (fd_at o' i)) = Some p /\
      (is_cid_keyed o = true -> exists m,
         nth_error (o_matrices o) (N.to_nat (fd_at o (N.to_nat g))) = Some m /\
         nth_error (o_matrices o') (N.to_nat (fd_at o' i)) = Some m).
Proof. exact glyph_i_is_original_cff. Qed.
Print Assumptions glyph_i_is_original_concrete.

(* C10.composite_components_identical (with the positions of
   closure_minimal_and_closed) transferred (TrueType): the k-th component
   reference of every glyph of the concrete subset is the position of the
   original's k-th component in the new glyph list, and the glyph found there
   is that component: the same glyph data up to its own component indices
   (nil iff nil), the same advance width. *)
Theorem composite_components_identical_concrete : forall macrune orc f gl rc go go',
  in_c10_domain macrune f gl -> M_subset_c macrune orc f gl = Ok rc ->
  cf_outl f = OGlyf go -> cr_outl rc = OGlyf go' ->
  forall i g x y, nth_error (cr_sel rc) i = Some g ->
    nth_error (go_glyphs go) (N.to_nat g) = Some x -> nth_error (go_glyphs go') i = Some y ->
    length (C11.Model.components y) = length (C11.Model.components x) /\
    forall k c, nth_error (C11.Model.components x) k = Some c ->
      exists c' xc yc,
        nth_error (C11.Model.components y) k = Some c' /\
        nth_error (cr_sel rc) (N.to_nat c') = Some c /\
        nth_error (go_glyphs go) (N.to_nat c) = Some xc /\ nth_error (go_glyphs go') (N.to_nat c') = Some yc /\
        C11.Model.forget_gids yc = C11.Model.forget_gids xc /\
        (yc = None <-> xc = None) /\
        nth (N.to_nat c') (go_widths go') 0%Z = nth (N.to_nat c) (go_widths go) 0%Z.
Proof. exact composite_components_identical_glyf. Qed.
Print Assumptions composite_components_identical_concrete.

(* "The subset can be written and read back", CID-keyed outlines, inside Coq:
   when the font assembled from the outlines (any FontInfo, any default /
   nominal widths) lies in the domain of C13B's write/read round trip, the
   font assembled from the subset lies in it again (1..256 dictionaries with
   a matrix each, FDSelect values below their number, one CID per glyph) ... *)
Theorem cid_subset_stays_writable : forall info defw nomw o sel gl reg ord sup o',
  C13B.Proofs_cid2.font_ok_cid (to_c13b info defw nomw o) reg ord sup ->
  cff_pre o sel gl -> gl <> [] -> N.of_nat (length gl) < 65536 ->
  M_cff_subset o gl = Ok o' ->
  C13B.Proofs_cid2.font_ok_cid (to_c13b info defw nomw o') reg ord sup.
Proof. exact cid_subset_in_write_domain. Qed.
Print Assumptions cid_subset_stays_writable.

(* ... so C13B's write_read_roundtrip applies: what cff.Read returns for the
   written subset is the subset (its glyph programs, FDSelect, GIDToCID and
   matrices; private dictionaries in C13B's normal form). *)
Theorem cid_subset_written_and_read_back :
  forall std_code exp_code info defw nomw o sel gl reg ord sup o' bytes,
  C13B.Proofs_cid2.font_ok_cid (to_c13b info defw nomw o) reg ord sup ->
  cff_pre o sel gl -> gl <> [] -> N.of_nat (length gl) < 65536 ->
  M_cff_subset o gl = Ok o' ->
  C13B.Proofs_simple.write_size_ok std_code exp_code (to_c13b info defw nomw o') ->
  C13B.ModelFont.M_write std_code exp_code (to_c13b info defw nomw o') = Ok bytes ->
  C13B.ModelFont.M_read std_code exp_code bytes =
    Ok (C13B.Proofs_cid2.font_nf_cid (to_c13b info defw nomw o') reg ord sup).
Proof. exact cid_subset_write_read. Qed.
Print Assumptions cid_subset_written_and_read_back.

(* ================================================================== *)
(* (6) totality                                                        *)

(* cff.Outlines.Subset and SubsetCFF return (no Panic, no OutOfFuel) on
   every input in the domain cff_pre. *)
Theorem cff_subset_total : forall o sel gl, cff_pre o sel gl ->
  (exists o', M_cff_subset o gl = Ok o') /\
  (forall st, s_glyphs st = gl -> exists o', M_SubsetCFF o st = Ok o').
Proof. exact cff_subset_total_lemma. Qed.
Print Assumptions cff_subset_total.

(* the cmap loop does not panic on subtables cmap.Decode can have produced
   (at least 10 bytes, a format word of the specification) other than format 0,
   for which SubsetCMap refuses loudly (Examples.cmap_format0_refuted) *)
Theorem cmap_loop_total : forall macrune st t,
  (forall k data, In (k, data) t ->
     10 <= N.of_nat (length data) /\ C09.Proofs_T.valid_format (rd16 data) = true /\ rd16 data <> 0) ->
  exists c, M_subset_cmaps macrune st t = Ok c.
Proof. exact subset_cmaps_ok. Qed.
Print Assumptions cmap_loop_total.

(* Font.Subset returns a subset for every font whose abstraction lies in
   C10's domain (supported layout data, references in range, at most 65536
   glyphs), every duplicate-free list of its glyphs and every iteration
   order, provided what the abstraction cannot see is in order (font_pre: no
   GDEF; decodable, non-format-0 cmap subtables; FDSelect / GIDToCID defined on
   all glyphs; one width and name per TrueType glyph). *)
Theorem subset_total : forall macrune orc f gl,
  in_c10_domain macrune f gl -> font_pre f ->
  exists rc, M_subset_c macrune orc f gl = Ok rc.
Proof. exact subset_c_total. Qed.
Print Assumptions subset_total.

(* ================================================================== *)
(* the source text the models were written from (translator tie)       *)

(* FixComponents copies Flags, Data, Instructions and the bounding box and
   maps only GlyphIndex; Subset / SubsetCFF / SubsetGlyf transfer glyph i from
   the glyph listed at i.  Gen/C10B.v is regenerated from /repo on every run;
   a change of these expressions breaks this theorem. *)
Theorem source_shape :
  c10b_fix_component = ["Flags=c.Flags"; "GlyphIndex=newGid[c.GlyphIndex]"; "Data=c.Data"]%string /\
  c10b_fix_composite = ["Components=make([]GlyphComponent, len(d.Components))"; "Instructions=d.Instructions"]%string /\
  c10b_fix_glyph = ["Rect16=g.Rect16"; "Data=d2"]%string /\
  c10b_cff_glyph_src = "o.Glyphs[oldGID]"%string /\ c10b_sfnt_glyph_src = "oldOutlines.Glyphs[oldGid]"%string /\
  c10b_cff_fdsel_src = "pIdxMap[o.FDSelect(oldGID)]"%string /\
  c10b_sfnt_fdsel_src = "pIdxMap[oldOutlines.FDSelect(oldGid)]"%string /\
  c10b_cff_enc_src = "newGID"%string /\ c10b_sfnt_enc_src = "newGid"%string /\
  c10b_cff_ros_src = "o.ROS"%string /\ c10b_sfnt_ros_src = "oldOutlines.ROS"%string /\
  c10b_cff_cid_src = "o.GIDToCID[oldGid]"%string /\ c10b_sfnt_cid_src = "oldOutlines.GIDToCID[oldGid]"%string /\
  c10b_glyf_glyph_src = "oldOutlines.Glyphs[oldGid].FixComponents(s.newGid)"%string /\
  c10b_glyf_width_src = "oldOutlines.Widths[oldGid]"%string /\
  c10b_glyf_name_src = "oldOutlines.Names[oldGid]"%string /\
  c10b_glyf_closure_src = "componendGidNew"%string /\
  c10b_cffSingleFD = 1%nat /\ c10b_sfntSingleFD = 1%nat /\
  c10b_rawPlatform = 3 /\ c10b_rawEncoding = 1.
Proof. repeat split. Qed.
Print Assumptions source_shape.

(* the component flag bits of this part's generators and of C11's decoder
   model are the constants of glyf/composite.go *)
Theorem component_flag_bits :
  [c10b_FlagArg1And2AreWords; c10b_FlagArgsAreXYValues; c10b_FlagRoundXYToGrid; c10b_FlagWeHaveAScale;
   c10b_FlagMoreComponents; c10b_FlagWeHaveAnXAndYScale; c10b_FlagWeHaveATwoByTwo; c10b_FlagWeHaveInstructions;
   c10b_FlagUseMyMetrics; c10b_FlagOverlapCompound; c10b_FlagScaledComponentOffset; c10b_FlagUnscaledComponentOffset]
  = [1; 2; 4; 8; 32; 64; 128; 256; 512; 1024; 2048; 4096] /\
  c10b_FlagArg1And2AreWords = Gen.C11.glyf_FlagArg1And2AreWords /\
  c10b_FlagMoreComponents = Gen.C11.glyf_FlagMoreComponents /\
  c10b_FlagWeHaveInstructions = Gen.C11.glyf_FlagWeHaveInstructions.
Proof. repeat split. Qed.
Print Assumptions component_flag_bits.
