(* C10B/Examples.v — non-vacuity: concrete, non-trivial values that satisfy
   every hypothesis of every theorem of Props.v, the model evaluated on them
   inside Coq (cross-check of the extraction), and the `_refuted` witnesses:
   inputs outside the documented domain on which the code panics, or on which
   the property fails without a panic.  Every witness is a case line of
   corpus/C10B and is replayed on the Go code by every run. *)
From Coq Require Import List NArith ZArith Bool Arith Lia.
From Common Require Import Bytes Outcome.
From C10 Require Import Model Spec Util Proofs_state.
From C09 Require Proofs_4edges Proofs_T.
From C13B Require Proofs_num Proofs_cdict Proofs_fields Proofs_cid2.
From C10B Require Import Model Spec Util Abs Observe Proofs_cff Proofs_props Proofs_transfer Proofs_total.
From C10B Require Proofs_write.
Import ListNotations.
Local Open Scope N_scope.

Module FN := C13B.ModelNum.
Module FF := C13B.ModelFont.

(* ------------------------------------------------------------------ *)
(* CID-keyed outlines: 4 glyphs, 3 font dictionaries                    *)

Definition pd (k : Z) : FF.privdict :=
  FF.mkPriv [(-10)%Z; 0%Z; 500%Z; (510 + k)%Z] [] (FN.mkReal false 39625 (-6)) 7 1 (FN.mkReal false k 0) FN.R0 false.
Definition r1 : FN.real := FN.mkReal false 1 0.
Definition mat (k : Z) : list FN.real := [r1; FN.R0; FN.R0; r1; FN.mkReal false k 0; FN.R0].

Definition cg (n w : Z) (body : list N) : cglyph := mkCG [110; Z.to_N n] w body.   (* name "n<k>" *)
Definition ex_glyphs : list cglyph :=
  [mkCG [46; 110; 111; 116; 100; 101; 102] 500 []; cg 49 600 [1; 0; 1; 0; 2]; cg 50 700 [1; 0; 3; 0; 4]; cg 51 800 [2; 0; 5; 0; 6]].

Definition ex_sel : N -> option Z := fdselect_of [Some 0%Z; Some 2%Z; Some 0%Z; Some 1%Z] None.

Definition ex_cid : outlines :=
  mkOut ex_glyphs [pd 1; pd 2; pd 3] (Some ex_sel) None (Some ([65], [73], 0%Z)) (Some [0; 5; 7; 9]) [mat 1; mat 2; mat 3].

(* the list [0; 3; 1]: glyph 3 uses dictionary 1, glyph 1 dictionary 2 *)
Example ex_cid_pre : cff_pre ex_cid ex_sel [0; 3; 1].
Proof.
  split; [reflexivity|]. intros g [<-|[<-|[<-|[]]]]; (split; [cbn; lia|]); (split; [|intros l E; inversion E; subst; cbn; lia]).
  - exists 0. repeat split; cbn; lia.
  - exists 1. repeat split; cbn; lia.
  - exists 2. repeat split; cbn; lia.
Qed.

Example ex_cid_is_cid : is_cid_keyed ex_cid = true. Proof. reflexivity. Qed.

(* the subset: dictionaries in the order of first use [0; 1; 2] = pd 1, pd 2,
   pd 3; the new FDSelect is 0, 1, 2; CIDs 0, 9, 5 *)
Example ex_cid_run :
  omap (fun r => (o_glyphs (co_out r), o_private (co_out r), co_fdsel r, o_gid2cid (co_out r), o_matrices (co_out r)))
       (run_cff false ex_cid [0; 3; 1] []) =
  Ok ([nth 0 ex_glyphs (cg 0 0 []); nth 3 ex_glyphs (cg 0 0 []); nth 1 ex_glyphs (cg 0 0 [])],
      [pd 1; pd 2; pd 3], [Some 0%Z; Some 1%Z; Some 2%Z; None], Some [0; 9; 5], [mat 1; mat 2; mat 3]).
Proof. vm_compute. reflexivity. Qed.

Example ex_cid_used : used_fds ex_sel [0; 3; 1] = [0; 1; 2]. Proof. vm_compute. reflexivity. Qed.

(* a list that leaves a dictionary unused and reduces the rest: [0; 2] uses
   only dictionary 0: one private dictionary, the constant FDSelect *)
Example ex_cid_run_single :
  omap (fun r => (length (o_private (co_out r)), co_fdsel r)) (run_cff false ex_cid [0; 2] []) =
  Ok (1%nat, [Some 0%Z; Some 0%Z; Some 0%Z]).
Proof. vm_compute. reflexivity. Qed.

(* SubsetCFF with a glyph registered by SubsetGsub *)
Example ex_cid_sfnt_pre : cff_pre ex_cid ex_sel (s_glyphs (state_of [0; 3] [1])).
Proof.
  split; [reflexivity|]. cbn. intros g [<-|[<-|[<-|[]]]]; (split; [cbn; lia|]); (split; [|intros l E; inversion E; subst; cbn; lia]).
  - exists 0. repeat split; cbn; lia.
  - exists 1. repeat split; cbn; lia.
  - exists 2. repeat split; cbn; lia.
Qed.

(* the font assembled from ex_cid lies in the domain of C13B's round trip *)
Definition ex_info : FF.fontinfo :=
  FF.mkInfo [86] [] [] [] [] [] [] FN.R0 false (FN.mkReal true 1 2) (FN.mkReal false 5 1)
            [FN.mkReal false 1 (-3); FN.R0; FN.R0; FN.mkReal false 1 (-3); FN.R0; FN.R0].

Example ex_cid_writable : C13B.Proofs_cid2.font_ok_cid (Proofs_write.to_c13b ex_info 0 0 ex_cid) [65] [73] 0.
Proof.
  unfold C13B.Proofs_cid2.font_ok_cid. cbn [Proofs_write.to_c13b FF.f_ros FF.f_glyphs FF.f_info FF.f_private FF.f_fontmatrices
    FF.f_defw FF.f_nomw FF.f_fdselect FF.f_gid2cid ex_cid o_ros o_glyphs o_private o_matrices o_gid2cid].
  split; [reflexivity|]. split; [unfold C13B.Proofs_cdict.int32; lia|]. split; [vm_compute; reflexivity|].
  split.
  { unfold C13B.Proofs_fields.fi_ok. cbn. repeat split; try reflexivity; repeat constructor; try (split; vm_compute; reflexivity). }
  split; [cbn; lia|]. split.
  { repeat constructor; unfold C13B.Proofs_fields.int16s, C13B.Proofs_cdict.int32; cbn; repeat constructor; try lia;
      try (split; vm_compute; reflexivity). }
  split; [reflexivity|]. split.
  { repeat constructor; try reflexivity; try (split; vm_compute; reflexivity). }
  split; [unfold C13B.Proofs_cdict.int32; lia|]. split; [unfold C13B.Proofs_cdict.int32; lia|].
  split; [reflexivity|]. split; [|reflexivity].
  vm_compute. repeat constructor.
Qed.

(* ------------------------------------------------------------------ *)
(* simple outlines with a built-in encoding                             *)

(* glyph 1 has the codes 65 and 97 (multiply encoded), glyph 2 the code 66,
   glyph 3 the code 67; all other codes are unused (0) *)
Definition ex_enc : list N :=
  map (fun c => if c =? 65 then 1 else if c =? 97 then 1 else if c =? 66 then 2 else if c =? 67 then 3 else 0)
      (map N.of_nat (seq 0 256)).

Definition ex_simple : outlines :=
  mkOut ex_glyphs [pd 1] (Some fdselect_simple) (Some ex_enc) None None [].

Example ex_simple_pre : cff_pre ex_simple fdselect_simple [0; 3; 1].
Proof.
  split; [reflexivity|]. intros g [<-|[<-|[<-|[]]]]; (split; [cbn; lia|]); (split; [|intros l E; discriminate]);
    exists 0; repeat split; cbn; try lia; discriminate.
Qed.

Example ex_simple_hyps : is_cid_keyed ex_simple = false /\ NoDup [0; 3; 1] /\ N.of_nat (length (o_glyphs ex_simple)) <= 65536.
Proof. split; [reflexivity|]. split; [|cbn; lia]. repeat constructor; cbn; intuition lia. Qed.

(* both codes of glyph 1 map to its new index 2, the code of glyph 3 to 1, the
   code of the dropped glyph 2 to 0 *)
Example ex_simple_run :
  omap (fun r => match o_encoding (co_out r) with
                 | Some e => (nth 65 e 9, nth 97 e 9, nth 66 e 9, nth 67 e 9, nth 0 e 9, length e)
                 | None => (9, 9, 9, 9, 9, O) end)
       (run_cff false ex_simple [0; 3; 1] []) = Ok (2, 2, 0, 1, 0, 256%nat).
Proof. vm_compute. reflexivity. Qed.

(* ------------------------------------------------------------------ *)
(* TrueType outlines with nested composites and a blank component       *)

Definition bx : C11.Model.bbox := {| C11.Model.llx := 0; C11.Model.lly := (-5); C11.Model.urx := 20; C11.Model.ury := 30 |}.
Definition sg (a : N) : option C11.Model.glyph :=
  Some {| C11.Model.g_box := bx; C11.Model.g_data := C11.Model.Simple 1 [0; 2; 0; 0; 55; 55; 55; a; 3; 1; 10; 5; 7] |}.
Definition comp (fl gid : N) (d : list N) : C11.Model.component :=
  {| C11.Model.c_flags := fl; C11.Model.c_gid := gid; C11.Model.c_data := d |}.
(* 3 = composite of 1 and the blank glyph 2; 4 = composite of 3 and 1, with instructions *)
Definition ex_go : goutlines :=
  mkGO [sg 0; sg 1; None;
        Some {| C11.Model.g_box := bx; C11.Model.g_data := C11.Model.Composite [comp 35 1 [0; 1; 0; 2]; comp 2 2 [3; 4]] None |};
        Some {| C11.Model.g_box := bx; C11.Model.g_data := C11.Model.Composite [comp 34 3 [5; 6]; comp 258 1 [7; 8]] (Some [176; 1]) |}]
       [100; 113; 126; 139; 152]%Z
       (Some [[46; 110]; [103; 49]; [103; 50]; [103; 51]; [103; 52]]).

Example ex_go_pre : glyf_pre ex_go.
Proof.
  split; [cbn; lia|]. split; [|split; [reflexivity|intros l E; inversion E; reflexivity]].
  intros g x c Hx Hc.
  do 5 (destruct g as [|g]; [cbn in Hx; inversion Hx; subst; cbn in Hc; intuition (subst; cbn; lia)|]).
  destruct g; discriminate.
Qed.

Example ex_go_nf : forallb C11.Model.nf_glyph (go_glyphs ex_go) = true. Proof. vm_compute. reflexivity. Qed.

Example ex_go_inv : Inv (N.of_nat (length (go_glyphs ex_go))) (init [0; 4]).
Proof.
  apply init_inv; [cbn; lia| |intros g [<-|[<-|[]]]; cbn; lia].
  repeat constructor; cbn; intuition lia.
Qed.

(* the list [0; 4]: the closure appends 3, 1 and the blank glyph 2; composite
   4 refers to 3 and 1, composite 3 to 1 and 2 (observation with original ids,
   appended glyphs sorted) *)
Example ex_go_run :
  omap (fun r => (map (fun t => fst (fst (fst t))) (g_listed r), map (fun t => fst (fst (fst t))) (g_extras r),
                  map (fun t => C11.Model.components (snd (fst (fst t)))) (g_listed r ++ g_extras r)))
       (run_glyf ex_go [3; 1; 4]%nat [0; 4] []) =
  Ok ([0; 4], [1; 2; 3], [[]; [3; 1]; []; []; [1; 2]]).
Proof. vm_compute. reflexivity. Qed.

(* the raw result for one iteration order: new ids 0 4 | 3 1 2 *)
Example ex_go_raw :
  omap (fun p => (s_glyphs (snd p), map C11.Model.components (go_glyphs (fst p)), go_widths (fst p)))
       (M_SubsetGlyf ex_go [] (init [0; 4])) =
  Ok ([0; 4; 3; 1; 2], [[]; [2; 3]; [3; 4]; []; []], [100%Z; 152%Z; 139%Z; 113%Z; 126%Z]).
Proof. vm_compute. reflexivity. Qed.

(* ------------------------------------------------------------------ *)
(* cmap subtables                                                       *)

Definition ex_map : C09.Model.amap := [(65, 1); (66, 3); (67, 2); (70000, 3)].
Definition ex_data12 : list N := C09.Model.M_encode12 ex_map 0.

Lemma forallb_Forall_lt : forall l, forallb (fun b => b <? 256) l = true -> Forall (fun b => b < 256) l.
Proof. intros l H. apply Forall_forall. intros x Hx. rewrite forallb_forall in H. specialize (H x Hx). lia. Qed.

Example ex_data12_bytes : Forall (fun b => b < 256) ex_data12.
Proof. apply forallb_Forall_lt. vm_compute. reflexivity. Qed.

(* glyph 2 is not listed: code 67 disappears; 65 -> 2, 66 -> 1, 70000 -> 1 *)
Example ex_cmap12_entry :
  M_subset_cmap_entry (fun c => c) (init [0; 3; 1]) ex_data12 = Ok (Some (CS12 [(65, 2); (66, 1); (70000, 1)])).
Proof. vm_compute. reflexivity. Qed.

Example ex_cmap12_encodes : encodes (CS12 [(65, 2); (66, 1); (70000, 1)]) 0 (C09.Model.M_encode12 [(65, 2); (66, 1); (70000, 1)] 0).
Proof. reflexivity. Qed.

(* format 4: a path of the segment graph for the subset map, found greedily *)
Fixpoint greedy (m : N -> N) (fuel : nat) (v : N) : list C09.Model4.seg4 :=
  match fuel with
  | O => []
  | S k => match C09.Model4.M_edges m v with
           | s :: _ => s :: greedy m k (C09.Model4.M_edge_to s)
           | [] => []
           end
  end.

Definition ex_map4 : C09.Model.amap := [(65, 1); (66, 3); (67, 2); (200, 3)].
Definition ex_sub4 : C09.Model.amap := subset_cmap (init [0; 3; 1]) ex_map4.
Definition ex_segs : list C09.Model4.seg4 := greedy (C09.Model.lookup ex_sub4) 8 0.

Example ex_sub4_val : ex_sub4 = [(65, 2); (66, 1); (200, 1)]. Proof. vm_compute. reflexivity. Qed.

Example ex_cmap4_encodes : exists b, encodes (CS4 ex_sub4) 0 b.
Proof.
  assert (Hp : C09.Model4.path_ok (C09.Model.lookup ex_sub4) 0 ex_segs = true) by (vm_compute; reflexivity).
  assert (Hs : C09.Model4.emit4_size (C09.Model.lookup ex_sub4) ex_segs <= 65535) by (vm_compute; discriminate).
  assert (He : exists b, C09.Model4.M_emit4 (C09.Model.lookup ex_sub4) ex_segs 0 = Ok b) by (vm_compute; eexists; reflexivity).
  destruct He as [b E].
  exists b. exists ex_segs. split; [apply C09.Proofs_4edges.path_ok_sound; exact Hp|]. split; [exact Hs|exact E].
Qed.

(* the format 4 subtable written for ex_map4 goes through the cmap loop *)
Definition ex_data4 : list N :=
  match C09.Model4.M_emit4 (C09.Model.lookup ex_map4) (greedy (C09.Model.lookup ex_map4) 8 0) 0 with Ok b => b | _ => [] end.

Example ex_cmap4_entry :
  M_subset_cmap_entry (fun c => c) (init [0; 3; 1]) ex_data4 = Ok (Some (CS4 ex_sub4)).
Proof. vm_compute. reflexivity. Qed.

Example ex_data4_bytes : Forall (fun b => b < 256) ex_data4.
Proof. apply forallb_Forall_lt. vm_compute. reflexivity. Qed.

(* ------------------------------------------------------------------ *)
(* whole fonts                                                          *)

Definition ex_font : cfont :=
  mkCFont (OGlyf ex_go) (Some [((3, 1, 0), ex_data4); ((3, 10, 0), ex_data12)]) None None false.

Example ex_font_domain : in_c10_domain (fun c => c) ex_font [0; 4].
Proof. split; vm_compute; reflexivity. Qed.

Example ex_font_pre : font_pre ex_font.
Proof.
  split; [reflexivity|]. split; [|exact ex_go_pre].
  intros t E k data Hin. injection E as <-.
  destruct Hin as [H|[H|[]]]; apply (f_equal snd) in H; cbn [snd] in H; subst data;
    (split; [vm_compute; discriminate|]); (split; [vm_compute; reflexivity|vm_compute; discriminate]).
Qed.

(* a CID-keyed font: FDSelect defined on all four glyphs *)
Definition ex_font_cid : cfont := mkCFont (OCff ex_cid) (Some [((3, 10, 0), ex_data12)]) None None false.

Example ex_font_cid_domain : in_c10_domain (fun c => c) ex_font_cid [0; 3; 1].
Proof. split; vm_compute; reflexivity. Qed.

Example ex_font_cid_pre : font_pre ex_font_cid.
Proof.
  split; [reflexivity|]. split.
  - intros t E k data Hin. injection E as <-. destruct Hin as [H|[]]; apply (f_equal snd) in H; cbn [snd] in H; subst data.
    split; [vm_compute; discriminate|]. split; [vm_compute; reflexivity|vm_compute; discriminate].
  - exists ex_sel. intros gs Hgs. split; [reflexivity|]. intros g Hg. specialize (Hgs g Hg). cbn in Hgs.
    assert (Hc : g = 0 \/ g = 1 \/ g = 2 \/ g = 3) by lia.
    split; [cbn; lia|]. split; [|intros l E; inversion E; subst; cbn; lia].
    destruct Hc as [Hc|[Hc|[Hc|Hc]]]; subst g.
    + exists 0. repeat split; cbn; lia.
    + exists 2. repeat split; cbn; lia.
    + exists 0. repeat split; cbn; lia.
    + exists 1. repeat split; cbn; lia.
Qed.

Example ex_font_cid_run :
  match M_subset_c (fun c => c) [] ex_font_cid [0; 3; 1] with
  | Ok r => cr_sel r = [0; 3; 1] /\ cr_cmap r = Some [((3, 10, 0), CS12 [(65, 2); (66, 1); (70000, 1)])]
  | _ => False
  end.
Proof. vm_compute. split; reflexivity. Qed.

(* ------------------------------------------------------------------ *)
(* refuted: preconditions the code relies on silently                   *)

(* a nil FDSelect function is called *)
Theorem cff_fdselect_nil_refuted :
  exists o gl, o_fdselect o = None /\ gl = [0] /\ M_cff_subset o gl = Panic.
Proof. exists (mkOut ex_glyphs [pd 1] None None None None []), [0]. repeat split. Qed.

(* FDSelect returns an index without a private dictionary, or a negative one *)
Theorem cff_fdselect_out_of_range_refuted :
  exists o gl, M_cff_subset o gl = Panic /\
    o = mkOut ex_glyphs [pd 1; pd 2] (Some (fdselect_of [Some 0%Z; Some 2%Z] (Some 0%Z))) None None None [] /\ gl = [0; 1].
Proof. eexists. eexists. split; [|split; reflexivity]. vm_compute. reflexivity. Qed.

Theorem cff_fdselect_negative_refuted :
  exists o gl, M_cff_subset o gl = Panic /\
    o = mkOut ex_glyphs [pd 1; pd 2] (Some (fdselect_of [Some 0%Z; Some (-1)%Z] (Some 0%Z))) None None None [] /\ gl = [0; 1].
Proof. eexists. eexists. split; [|split; reflexivity]. vm_compute. reflexivity. Qed.

(* a CID-keyed font with fewer font matrices than private dictionaries *)
Theorem cff_matrices_short_refuted :
  exists o gl, is_cid_keyed o = true /\ (length (o_matrices o) < length (o_private o))%nat /\ M_cff_subset o gl = Panic /\
    o = mkOut ex_glyphs [pd 1; pd 2; pd 3] (Some ex_sel) None (Some ([65], [73], 0%Z)) (Some [0; 5; 7; 9]) [mat 1; mat 2] /\
    gl = [0; 1].
Proof. eexists. eexists. split; [|split; [|split; [|split; reflexivity]]]; vm_compute; try reflexivity; lia. Qed.

(* GIDToCID shorter than the glyph list *)
Theorem cff_gid2cid_short_refuted :
  exists o gl, M_cff_subset o gl = Panic /\
    o = mkOut ex_glyphs [pd 1; pd 2; pd 3] (Some ex_sel) None (Some ([65], [73], 0%Z)) (Some [0; 5]) [mat 1; mat 2; mat 3] /\
    gl = [0; 3].
Proof. eexists. eexists. split; [|split; reflexivity]. vm_compute. reflexivity. Qed.

(* a glyph that does not exist *)
Theorem cff_list_out_of_range_refuted : M_cff_subset ex_cid [0; 4] = Panic.
Proof. vm_compute. reflexivity. Qed.

(* The documented precondition "the list starts with glyph 0" is needed: for
   the list [3; 1] every unused code of the original (encoding entry 0 =
   .notdef) is, in the subset, a code of new glyph 0 - which is original glyph
   3, not .notdef: a character that was not mapped is mapped now. *)
Theorem cff_list_not_starting_with_0_refuted :
  exists o', M_cff_subset ex_simple [3; 1] = Ok o' /\
    nth 0 ex_enc 9 = 0 /\                                      (* code 0 was unused *)
    (exists e', o_encoding o' = Some e' /\ nth 0 e' 9 = 0) /\   (* ... and now selects new glyph 0 *)
    nth_error (o_glyphs o') 0 = nth_error ex_glyphs 3.          (* which is original glyph 3 *)
Proof.
  destruct (M_cff_subset ex_simple [3; 1]) as [o'| | |] eqn:E; try (vm_compute in E; discriminate).
  exists o'. split; [reflexivity|]. split; [reflexivity|].
  assert (H : (match o_encoding o' with Some e' => nth 0 e' 9 | None => 9 end, nth_error (o_glyphs o') 0) =
              (0, nth_error ex_glyphs 3)).
  { revert E. vm_compute. intros E. inversion E. reflexivity. }
  destruct (o_encoding o') as [e'|]; [|discriminate]. injection H as H1 H2.
  split; [exists e'; split; [reflexivity|exact H1]|exact H2].
Qed.

(* TrueType: fewer widths than glyphs; a component that does not exist (the
   reader does not check component indices) *)
Theorem glyf_widths_short_refuted :
  M_SubsetGlyf (mkGO (go_glyphs ex_go) [100; 113]%Z (go_names ex_go)) [] (init [0; 4]) = Panic.
Proof. vm_compute. reflexivity. Qed.

Theorem glyf_names_short_refuted :
  M_SubsetGlyf (mkGO (go_glyphs ex_go) (go_widths ex_go) (Some [[46]])) [] (init [0; 4]) = Panic.
Proof. vm_compute. reflexivity. Qed.

Theorem glyf_component_out_of_range_refuted :
  M_SubsetGlyf (mkGO [sg 0; Some {| C11.Model.g_box := bx; C11.Model.g_data := C11.Model.Composite [comp 2 7 [0; 0]] None |}]
                     [100; 113]%Z None) [] (init [0; 1]) = Panic.
Proof. vm_compute. reflexivity. Qed.

(* cmap: a format 0 subtable is decoded and then refused by SubsetCMap; a
   format word without a decoder calls a nil function *)
Definition ex_data0 : list N := [0; 0; 1; 6; 0; 0] ++ repeat 1 256.

Theorem cmap_format0_refuted : M_subset_cmap_entry (fun c => c) (init [0; 1]) ex_data0 = Panic.
Proof. vm_compute. reflexivity. Qed.

Theorem cmap_unknown_format_refuted :
  M_subset_cmap_entry (fun c => c) (init [0; 1]) [0; 1; 0; 10; 0; 0; 0; 0; 0; 0] = Panic.
Proof. vm_compute. reflexivity. Qed.

(* a font with a GDEF table: SubsetGdef is not implemented *)
Theorem font_gdef_refuted :
  M_subset_c (fun c => c) [] (mkCFont (OGlyf ex_go) None None None true) [0; 4] = Panic.
Proof. vm_compute. reflexivity. Qed.
