(* C10B/Proofs_total.v — totality of the whole Font.Subset model on inputs in
   the documented domain.  The cmap decoders of C09 use no fuel; C09 proves
   "never Panic" for them, "never OutOfFuel" is shown here (structurally, on
   C09's definitions) because M_subset_c sequences them with the rest. *)
From Coq Require Import List NArith ZArith Bool Arith Lia.
From Coq Require Import ZifyBool ZifyNat ZifyN.
From Common Require Import Bytes Outcome.
From Gen Require Import C10B.
From C10 Require Import Model Spec Util Proofs_state Proofs_gsub Proofs_main.
From C09 Require Model Model4 ModelT Proofs_4dec Proofs_T.
From C10B Require Import Model Spec Util Abs Proofs_cff Proofs_abs Proofs_glyf Proofs_props Proofs_transfer.
Import ListNotations.
Local Open Scope N_scope.

(* ------------------------------------------------------------------ *)
(* no fuel in the cmap decoders                                         *)

Lemma dec4_loop_no_fuel c2r segCount glen gia es : forall k ss ds rs prevEnd acc,
  C09.Model4.dec4_loop c2r segCount glen gia k es ss ds rs prevEnd acc <> OutOfFuel.
Proof.
  induction es as [|e es' IH]; intros k ss ds rs prevEnd acc; cbn [C09.Model4.dec4_loop]; [discriminate|].
  destruct ss as [|s ss']; [discriminate|]. destruct ds as [|d ds']; [discriminate|].
  destruct rs as [|ro rs']; [discriminate|]. cbv zeta.
  destruct ((s <? prevEnd) || (e + 1 <=? s)); [discriminate|].
  destruct (ro =? 0); [apply IH|].
  destruct (_ || _).
  - destruct (s =? 65535); [apply IH|discriminate].
  - destruct (C09.Model4.vfill c2r _ s d _ acc) eqn:Ev; try discriminate; [apply IH|].
    exfalso. revert Ev. apply C09.Proofs_4dec.vfill_no_fuel.
Qed.

Lemma slice_no_fuel {X} (l : list X) lo hi : C09.Model4.slice l lo hi <> OutOfFuel.
Proof. unfold C09.Model4.slice. destruct (_ && _); discriminate. Qed.

Lemma decode4_no_fuel c2r data : C09.Model4.M_decode4 c2r data <> OutOfFuel.
Proof.
  unfold C09.Model4.M_decode4. cbv zeta.
  destruct (_ || _); [discriminate|]. destruct (_ || _); [discriminate|].
  repeat match goal with
         | |- obind (C09.Model4.slice ?l ?a ?b) _ <> OutOfFuel =>
             let E := fresh "E" in
             destruct (C09.Model4.slice l a b) eqn:E; cbn [obind]; try discriminate;
             [|exfalso; revert E; apply slice_no_fuel]
         end.
  unfold omap.
  match goal with |- obind ?x _ <> _ => destruct x eqn:Eloop end; cbn [obind]; try discriminate.
  exfalso. revert Eloop. apply dec4_loop_no_fuel.
Qed.

Lemma dec12_loop_no_fuel n : forall first rest size prevEnd acc,
  C09.Model.dec12_loop n first rest size prevEnd acc <> OutOfFuel.
Proof.
  induction n as [|n IH]; intros first rest size prevEnd acc; cbn [C09.Model.dec12_loop]; [discriminate|].
  do 12 (destruct rest as [|? rest]; [discriminate|]). cbv zeta.
  destruct (_ || _); [discriminate|]. destruct (_ <? _); [discriminate|]. apply IH.
Qed.

Lemma decode12_no_fuel mac data : C09.Model.M_decode12 mac data <> OutOfFuel.
Proof.
  unfold C09.Model.M_decode12. destruct mac; [discriminate|]. cbv zeta.
  destruct (_ <? _); [discriminate|]. destruct (_ || _); [discriminate|].
  unfold omap. match goal with |- obind ?x _ <> _ => destruct x eqn:E end; cbn [obind]; try discriminate.
  exfalso. revert E. apply dec12_loop_no_fuel.
Qed.

Lemma decode6_no_fuel c2r data : C09.Model.M_decode6 c2r data <> OutOfFuel.
Proof.
  unfold C09.Model.M_decode6. cbv zeta. destruct (_ <? _); [discriminate|].
  destruct (_ <? _); [discriminate|]. destruct (negb _); discriminate.
Qed.

Lemma decode0_no_fuel data : C09.Model.M_decode0 data <> OutOfFuel.
Proof. unfold C09.Model.M_decode0. destruct (_ <? _); [discriminate|]. destruct (negb _); discriminate. Qed.

Lemma get_sub_no_fuel macrune k data : C09.ModelT.M_get_sub macrune k data <> OutOfFuel.
Proof.
  unfold C09.ModelT.M_get_sub. destruct k as [[p e] l]. destruct (_ && _); [discriminate|]. cbv zeta.
  unfold C09.ModelT.get16, C09.ModelT.get8.
  destruct (nth_error data (N.to_nat 0)); cbn [obind]; [|discriminate].
  destruct (nth_error data (N.to_nat (0 + 1))); cbn [obind]; [|discriminate].
  unfold omap.
  destruct (_ =? 0).
  { pose proof (decode0_no_fuel data). destruct (C09.Model.M_decode0 data); cbn [obind]; congruence. }
  destruct (_ =? 4).
  { match goal with |- obind ?x _ <> _ => pose proof (decode4_no_fuel (if p =? 1 then macrune else C09.ModelT.unicode) data); destruct x end;
      cbn [obind]; congruence. }
  destruct (_ =? 6).
  { match goal with |- obind ?x _ <> _ => pose proof (decode6_no_fuel (if p =? 1 then macrune else C09.ModelT.unicode) data); destruct x end;
      cbn [obind]; congruence. }
  destruct (_ =? 12).
  { match goal with |- obind ?x _ <> _ => pose proof (decode12_no_fuel (p =? 1) data); destruct x end;
      cbn [obind]; congruence. }
  destruct (_ || _); discriminate.
Qed.

Lemma subset_cmaps_ok : forall macrune st t,
  (forall k data, In (k, data) t ->
     10 <= N.of_nat (length data) /\ C09.Proofs_T.valid_format (rd16 data) = true /\ rd16 data <> 0) ->
  exists c, M_subset_cmaps macrune st t = Ok c.
Proof.
  intros macrune st. induction t as [|[k data] r IH]; intros H; cbn [M_subset_cmaps]; [eauto|].
  destruct (H k data (or_introl eq_refl)) as [H1 [H2 H3]].
  pose proof (subset_cmap_entry_total macrune st data H1 H2 H3) as Hp.
  assert (Hf : M_subset_cmap_entry macrune st data <> OutOfFuel /\ M_subset_cmap_entry macrune st data <> Err).
  { unfold M_subset_cmap_entry. pose proof (get_sub_no_fuel macrune raw_key data).
    destruct (C09.ModelT.M_get_sub macrune raw_key data) as [[d|m]| | |]; split; congruence. }
  destruct (M_subset_cmap_entry macrune st data) as [e| | |]; try (exfalso; tauto).
  cbn [obind]. destruct IH as [c Ec]; [intros k' d' Hin; apply (H k' d'); right; exact Hin|].
  rewrite Ec. cbn [obind]. eauto.
Qed.

(* ------------------------------------------------------------------ *)
(* Font.Subset                                                          *)

(* the part of the domain the abstraction cannot see: no GDEF table; every
   cmap subtable is one cmap.Decode can have produced and is not of format
   0; FDSelect is defined, non-negative and in range on EVERY glyph (the
   closure over substitution rules may add any glyph), GIDToCID covers all
   glyphs; one width (and name) per TrueType glyph *)
Definition font_pre (f : cfont) : Prop :=
  cf_gdef f = false /\
  (forall t, cf_cmap f = Some t -> forall k data, In (k, data) t ->
     10 <= N.of_nat (length data) /\ C09.Proofs_T.valid_format (rd16 data) = true /\ rd16 data <> 0) /\
  match cf_outl f with
  | OCff o => exists sel, forall gs, (forall g, In g gs -> g < N.of_nat (length (o_glyphs o))) -> cff_pre o sel gs
  | OGlyf go => glyf_pre go
  end.

Theorem subset_c_total : forall macrune orc f gl,
  in_c10_domain macrune f gl -> font_pre f ->
  exists rc, M_subset_c macrune orc f gl = Ok rc.
Proof.
  intros macrune orc f gl [Hwf Hl] [Hgd [Hcm Hol]]. unfold M_subset_c.
  (* cmap *)
  assert (Hc : exists cm, match cf_cmap f with None => Ok None | Some t => c <- M_subset_cmaps macrune (init gl) t ;; Ok (Some c) end = Ok cm).
  { destruct (cf_cmap f) as [t|]; [|eauto].
    destruct (subset_cmaps_ok macrune (init gl) t (Hcm t eq_refl)) as [c Ec]. rewrite Ec. cbn [obind]. eauto. }
  destruct Hc as [cm Ec]. rewrite Ec. cbn [obind].
  (* GSUB: C10's subset_gsub_spec on the abstraction *)
  destruct (subset_gsub_spec (abs0 macrune f) gl orc Hwf Hl) as [st1 [orc1 [Eg [I1 _]]]].
  assert (Hg : exists gsub st1' orc1',
            match cf_gsub f with
            | None => Ok (None, init gl, orc)
            | Some ll => x <- subset_gsub orc ll (init gl) ;; let '(gsub, st1, orc1) := x in Ok (Some gsub, st1, orc1)
            end = Ok (gsub, st1', orc1') /\ Inv (nG (abs0 macrune f)) st1').
  { unfold abs0 in Eg at 1 2. cbn [abs_font f_gsub] in Eg. destruct (cf_gsub f) as [ll|]; cbn [opt_list] in Eg.
    - rewrite Eg. cbn [obind]. eauto.
    - unfold subset_gsub in Eg. cbn in Eg. inversion Eg; subst st1 orc1. eauto. }
  destruct Hg as [gsub [st1' [orc1' [Eg' I1']]]]. rewrite Eg'. cbn [obind]. rewrite Hgd.
  assert (HnG : nG (abs0 macrune f) = match cf_outl f with
                                      | OCff o => N.of_nat (length (o_glyphs o))
                                      | OGlyf go => N.of_nat (length (go_glyphs go))
                                      end).
  { unfold nG, abs0. cbn [abs_font f_glyphs]. unfold abs_glyphs. destruct (cf_outl f); rewrite mapi_length; reflexivity. }
  destruct (cf_outl f) as [o|go].
  - destruct Hol as [sel Hpre]. rewrite HnG in I1'.
    destruct (cff_subset_total_lemma o sel (s_glyphs st1') (Hpre _ (inv_bound _ _ I1'))) as [_ Ht].
    destruct (Ht st1' eq_refl) as [o' Eo]. rewrite Eo. cbn [obind]. eauto.
  - rewrite HnG in I1'.
    destruct (glyf_subset_spec go orc1' st1' Hol I1') as [go' [st2 [E2 _]]]. rewrite E2. cbn [obind]. eauto.
Qed.
