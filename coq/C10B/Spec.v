(* C10B/Spec.v — the specification side of part C10B: the domains (documented
   preconditions as predicates), what "the private dictionaries used, in the
   order of first use" means, when a byte string is an encoding of a subset
   cmap subtable, and the positions of the glyph ids inside an encoded
   composite glyph.  Written from the property text and the format
   specifications, not from subset.go. *)
From Coq Require Import List NArith ZArith Bool Arith.
From Common Require Import Bytes Outcome.
From C10 Require Import Model Spec Util.
From C09 Require Proofs_4edges.
From C10B Require Import Model.
Import ListNotations.
Local Open Scope N_scope.

(* ------------------------------------------------------------------ *)
(* CFF                                                                  *)

(* the font dictionary FDSelect assigns to a glyph (0 where the function
   panics or returns a negative number: outside every domain below) *)
Definition fdN (sel : N -> option Z) (g : N) : N :=
  match sel g with Some z => Z.to_N z | None => 0 end.

(* the dictionaries the listed glyphs use, each once, in the order of first
   use: C10's first_occ (keep the first occurrence of every element) *)
Definition used_fds (sel : N -> option Z) (gl : list N) : list N :=
  first_occ (map (fdN sel) gl) [].

(* the position of a dictionary in that list *)
Definition fd_pos (used : list N) (fd : N) : N :=
  match index_of fd used with Some k => N.of_nat k | None => 0 end.

(* Domain of cff.Outlines.Subset for the glyph list gl: the listed glyphs
   exist; FDSelect is a function that returns, for every listed glyph, the
   index of an existing private dictionary (and, for a CID-keyed font, of an
   existing font matrix); GIDToCID, when present, covers the listed glyphs.
   Nothing is asked about glyphs that are not listed, nor about the number of
   dictionaries. *)
Definition cff_pre (o : outlines) (sel : N -> option Z) (gl : list N) : Prop :=
  o_fdselect o = Some sel /\
  (forall g, In g gl ->
     g < N.of_nat (length (o_glyphs o)) /\
     (exists fd, sel g = Some (Z.of_N fd) /\ fd < N.of_nat (length (o_private o)) /\
                 (is_cid_keyed o = true -> fd < N.of_nat (length (o_matrices o)))) /\
     (forall l, o_gid2cid o = Some l -> g < N.of_nat (length l))).

(* the same, decidable (for Examples and the driver) *)
Definition cff_preb (o : outlines) (gl : list N) : bool :=
  match o_fdselect o with
  | None => false
  | Some sel =>
      forallb (fun g =>
        (g <? N.of_nat (length (o_glyphs o))) &&
        match sel g with
        | Some z => (0 <=? z)%Z && (Z.to_N z <? N.of_nat (length (o_private o))) &&
                    (negb (is_cid_keyed o) || (Z.to_N z <? N.of_nat (length (o_matrices o))))
        | None => false
        end &&
        match o_gid2cid o with Some l => g <? N.of_nat (length l) | None => true end) gl
  end.

(* ------------------------------------------------------------------ *)
(* TrueType                                                             *)

(* Domain of SubsetGlyf: every component reference of the font and every
   glyph of the state is a glyph of the font; one width (and, when present,
   one name) per glyph; at most 65536 glyphs (glyph.ID is 16 bits wide). *)
Definition comps_in_range (go : goutlines) : Prop :=
  forall g x c, nth_error (go_glyphs go) g = Some x -> In c (C11.Model.components x) ->
                c < N.of_nat (length (go_glyphs go)).

Definition glyf_pre (go : goutlines) : Prop :=
  N.of_nat (length (go_glyphs go)) <= 65536 /\
  comps_in_range go /\
  length (go_widths go) = length (go_glyphs go) /\
  (forall l, go_names go = Some l -> length l = length (go_glyphs go)).

Definition glyf_preb (go : goutlines) : bool :=
  let n := N.of_nat (length (go_glyphs go)) in
  (n <=? 65536) &&
  forallb (fun x => forallb (fun c => c <? n) (C11.Model.components x)) (go_glyphs go) &&
  Nat.eqb (length (go_widths go)) (length (go_glyphs go)) &&
  match go_names go with Some l => Nat.eqb (length l) (length (go_glyphs go)) | None => true end.

(* reachable through component references from the glyphs of l *)
Inductive Reach (go : goutlines) (l : list N) : N -> Prop :=
| Reach_base : forall g, In g l -> Reach go l g
| Reach_comp : forall g x c, Reach go l g -> nth_error (go_glyphs go) (N.to_nat g) = Some x ->
                             In c (C11.Model.components x) -> Reach go l c.

(* the byte offsets, inside the encoding of a composite glyph that starts at
   offset off (10 = after the glyph header), at which the two bytes of each
   component's glyph index sit: flags(2) index(2) arguments/transform(n) ... *)
Fixpoint gid_offsets (off : nat) (cs : list C11.Model.component) : list nat :=
  match cs with
  | [] => []
  | c :: r => (off + 2)%nat :: (off + 3)%nat
              :: gid_offsets (off + 4 + length (C11.Model.c_data c))%nat r
  end.

Definition glyph_gid_offsets (g : option C11.Model.glyph) : list nat :=
  match g with
  | Some {| C11.Model.g_data := C11.Model.Composite cs _ |} => gid_offsets 10 cs
  | _ => []
  end.

(* ------------------------------------------------------------------ *)
(* cmap                                                                 *)

(* b is what c.Encode(lang) may return for the subtable s: Format12.Encode is
   a function; Format4.Encode emits the segments of a shortest path of the
   graph of makeSegments.AppendEdges - every path of that graph whose size
   fits the 16-bit length field is admitted (C09: the shortest-path package is
   not modelled) *)
Definition encodes (s : csub) (lang : N) (b : list N) : Prop :=
  match s with
  | CS12 m => b = C09.Model.M_encode12 m lang
  | CS4 m =>
      exists segs, C09.Proofs_4edges.path (C09.Model.lookup m) 0 segs /\
                   C09.Model4.emit4_size (C09.Model.lookup m) segs <= 65535 /\
                   C09.Model4.M_emit4 (C09.Model.lookup m) segs lang = Ok b
  end.

(* the character map a subset must have: c -> new(old(c)) for the characters
   whose glyph is listed, nothing else *)
Definition cmap_of_subset (gl : list N) (m : C09.Model.amap) (c k : N) : Prop :=
  exists g, In (c, g) m /\ index_of g gl = Some (N.to_nat k) .
