From Coq Require Import Extraction ExtrOcamlBasic.
From Common Require Import Conv.
From C10B Require Import Model Observe.
Extraction "c10b_model.ml" conv_anchor run_cff run_glyf run_font fdselect_of.
