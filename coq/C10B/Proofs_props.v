(* C10B/Proofs_props.v — the statements of Props.v assembled from the
   specifications proved in Proofs_cff / Proofs_glyf / Proofs_cmap /
   Proofs_abs, and the corollaries transferred from C10/Props.v. *)
From Coq Require Import List NArith ZArith Bool Arith Lia.
From Coq Require Import ZifyBool ZifyNat ZifyN.
From Common Require Import Bytes Outcome.
From Gen Require Import C10B.
From C10 Require Import Model Spec Util Proofs_state Proofs_main Proofs_props.
From C10 Require Props.
From C11 Require Proofs_comp Props.
From C09 Require Proofs_T.
From C10B Require Import Model Spec Util Abs Proofs_cff Proofs_abs Proofs_glyf Proofs_cmap.
Import ListNotations.
Local Open Scope N_scope.

(* ------------------------------------------------------------------ *)
(* (1) CID-keyed outlines                                               *)

Lemma tab_ok_nth {X} : forall (tbl : list X) used out k fd,
  tab_ok tbl used out -> nth_error used k = Some fd ->
  exists p, nth_error out k = Some p /\ nth_error tbl (N.to_nat fd) = Some p.
Proof. intros tbl used out k fd H Hk. exact (Forall2_nth_l _ _ _ _ _ H Hk). Qed.

Lemma cff_subset_fd_preserved_lemma : forall (o : outlines) (sel : N -> option Z) (gl : list N),
  is_cid_keyed o = true -> cff_pre o sel gl ->
  exists o' sel',
    M_cff_subset o gl = Ok o' /\ o_fdselect o' = Some sel' /\ o_ros o' = o_ros o /\
    length (o_glyphs o') = length gl /\
    (* glyph i: charstring (with name and width), CID, private dictionary, matrix *)
    (forall i g, nth_error gl i = Some g ->
       exists x p m fd',
         nth_error (o_glyphs o) (N.to_nat g) = Some x /\ nth_error (o_glyphs o') i = Some x /\
         sel' (N.of_nat i) = Some (Z.of_N fd') /\
         nth_error (o_private o) (N.to_nat (fdN sel g)) = Some p /\ nth_error (o_private o') (N.to_nat fd') = Some p /\
         nth_error (o_matrices o) (N.to_nat (fdN sel g)) = Some m /\ nth_error (o_matrices o') (N.to_nat fd') = Some m /\
         (forall l, o_gid2cid o = Some l ->
            exists l' c, o_gid2cid o' = Some l' /\ nth_error l (N.to_nat g) = Some c /\ nth_error l' i = Some c)) /\
    (* the dictionaries of the subset: the used ones, once each, in the order of first use *)
    length (o_private o') = length (used_fds sel gl) /\ length (o_matrices o') = length (used_fds sel gl) /\
    NoDup (used_fds sel gl) /\
    (forall fd, In fd (used_fds sel gl) <-> exists g, In g gl /\ fdN sel g = fd) /\
    (forall k fd, nth_error (used_fds sel gl) k = Some fd ->
       nth_error (o_private o') k = nth_error (o_private o) (N.to_nat fd) /\
       nth_error (o_matrices o') k = nth_error (o_matrices o) (N.to_nat fd) /\
       nth_error (o_private o') k <> None /\ nth_error (o_matrices o') k <> None) /\
    (forall i j a b, (i < j)%nat -> nth_error (used_fds sel gl) i = Some a -> nth_error (used_fds sel gl) j = Some b ->
       exists p q, index_of a (map (fdN sel) gl) = Some p /\ index_of b (map (fdN sel) gl) = Some q /\ (p < q)%nat).
Proof.
  intros o sel gl Hcid Hpre.
  destruct (cff_subset_body_spec c10b_cffSingleFD o sel gl (init gl) eq_refl Hpre) as [o' [E S]].
  destruct S as [Sg Sp Sm [sel' [Es' Hs']] Se Sr Sc]. rewrite Hcid in Sm.
  exists o', sel'. split; [exact E|]. split; [exact Es'|]. split; [exact Sr|].
  split; [symmetry; eapply Forall2_len; exact Sg|].
  split; [|split; [|split; [|split; [|split; [|split]]]]].
  - intros i g Hi.
    destruct (Forall2_nth_l _ _ _ _ _ Sg Hi) as [x [Hx' Hx]].
    pose proof (fdN_in_used sel gl g (nth_error_In _ _ Hi)) as Hin.
    destruct (fd_pos_lt _ _ Hin) as [_ Hpos].
    destruct (tab_ok_nth _ _ _ _ _ Sp Hpos) as [p [Hp' Hp]].
    destruct (tab_ok_nth _ _ _ _ _ Sm Hpos) as [m [Hm' Hm]].
    exists x, p, m, (fd_pos (used_fds sel gl) (fdN sel g)).
    split; [exact Hx|]. split; [exact Hx'|]. split; [apply Hs'; exact Hi|].
    split; [exact Hp|]. split; [exact Hp'|]. split; [exact Hm|]. split; [exact Hm'|].
    intros l Hl. rewrite Hl in Sc. destruct Sc as [l' [El' Hl']].
    destruct (Forall2_nth_l _ _ _ _ _ Hl' Hi) as [c [Hc' Hc]]. exists l', c. auto.
  - symmetry. eapply Forall2_len. exact Sp.
  - symmetry. eapply Forall2_len. exact Sm.
  - apply first_occ_spec.
  - intros fd. unfold used_fds. rewrite (proj2 (first_occ_spec _ _)). rewrite in_map_iff. split.
    + intros [[g [E1 Hg]] _]. eauto.
    + intros [g [Hg E1]]. split; [eauto|intros []].
  - intros k fd Hk.
    destruct (tab_ok_nth _ _ _ _ _ Sp Hk) as [p [Hp' Hp]].
    destruct (tab_ok_nth _ _ _ _ _ Sm Hk) as [m [Hm' Hm]].
    rewrite Hp', Hp, Hm', Hm. repeat split; congruence.
  - intros i j a b Hij Ha Hb. unfold used_fds in *. eapply first_occ_order; eauto.
Qed.

(* ------------------------------------------------------------------ *)
(* (2) simple outlines: names and the built-in encoding                 *)

Lemma cff_subset_simple_lemma : forall (o : outlines) (sel : N -> option Z) (gl : list N),
  is_cid_keyed o = false -> cff_pre o sel gl -> NoDup gl ->
  N.of_nat (length (o_glyphs o)) <= 65536 ->
  exists o',
    M_cff_subset o gl = Ok o' /\ o_ros o' = None /\ o_matrices o' = [] /\
    length (o_glyphs o') = length gl /\
    (* glyph i: name, width, charstring *)
    (forall i g, nth_error gl i = Some g ->
       exists x, nth_error (o_glyphs o) (N.to_nat g) = Some x /\ nth_error (o_glyphs o') i = Some x) /\
    (* the encoding: every code of a listed glyph gets its new index - also when
       the glyph has several codes -, every other code gets 0 (.notdef) *)
    match o_encoding o with
    | None => o_encoding o' = None
    | Some e => exists e', o_encoding o' = Some e' /\ length e' = length e /\
        forall code g, nth_error e code = Some g ->
          (forall i, nth_error gl i = Some g -> nth_error e' code = Some (N.of_nat i)) /\
          (~ In g gl -> nth_error e' code = Some 0)
    end.
Proof.
  intros o sel gl Hcid Hpre Hnd Hn.
  destruct (cff_subset_body_spec c10b_cffSingleFD o sel gl (init gl) eq_refl Hpre) as [o' [E S]].
  destruct S as [Sg Sp Sm [sel' [Es' Hs']] Se Sr Sc]. rewrite Hcid in Sm.
  exists o'. split; [exact E|]. split.
  { rewrite Sr. unfold is_cid_keyed in Hcid. destruct (o_ros o); [discriminate|reflexivity]. }
  split; [exact Sm|]. split; [symmetry; eapply Forall2_len; exact Sg|]. split.
  - intros i g Hi. destruct (Forall2_nth_l _ _ _ _ _ Sg Hi) as [x [Hx' Hx]]. eauto.
  - assert (HI : Inv (N.of_nat (length (o_glyphs o))) (init gl)).
    { apply init_inv; [exact Hn|exact Hnd|]. intros g Hg. destruct Hpre as [_ Hp]. exact (proj1 (Hp g Hg)). }
    rewrite Se. destruct (o_encoding o) as [e|]; [|reflexivity]. cbn [option_map].
    eexists. split; [reflexivity|]. split; [apply map_length|].
    intros code g Hc. rewrite nth_error_map, Hc. cbn [option_map]. split.
    + intros i Hi. f_equal. rewrite (pos0_new_or0 _ _ g HI). cbn [init s_glyphs].
      unfold pos0, pos. rewrite (index_of_nth _ _ _ Hnd Hi). reflexivity.
    + intros Hni. f_equal. rewrite (pos0_new_or0 _ _ g HI). cbn [init s_glyphs]. apply pos0_absent. exact Hni.
Qed.

(* ------------------------------------------------------------------ *)
(* (6) totality                                                         *)

Lemma cff_subset_total_lemma : forall o sel gl, cff_pre o sel gl ->
  (exists o', M_cff_subset o gl = Ok o') /\
  (forall st, s_glyphs st = gl -> exists o', M_SubsetCFF o st = Ok o').
Proof.
  intros o sel gl Hpre. split.
  - destruct (cff_subset_body_spec c10b_cffSingleFD o sel gl (init gl) eq_refl Hpre) as [o' [E _]]. eauto.
  - intros st Hst. unfold M_SubsetCFF. rewrite Hst.
    destruct (cff_subset_body_spec c10b_sfntSingleFD o sel gl st eq_refl Hpre) as [o' [E _]]. eauto.
Qed.

(* the decoders Subset calls never panic on a cmap subtable that cmap.Decode
   can have produced (C09: at least 10 bytes, a valid format word), so the
   cmap loop panics only where SubsetCMap refuses: format 0 *)
Lemma subset_cmap_entry_total : forall macrune st data,
  10 <= N.of_nat (length data) -> C09.Proofs_T.valid_format (rd16 data) = true -> rd16 data <> 0 ->
  M_subset_cmap_entry macrune st data <> Panic.
Proof.
  intros macrune st data Hlen Hv Hfmt. unfold M_subset_cmap_entry.
  pose proof (C09.Proofs_T.get_sub_no_panic macrune raw_key data Hlen Hv) as Hnp.
  destruct (C09.ModelT.M_get_sub macrune raw_key data) as [[d|m]| | |] eqn:E; try discriminate; [|contradiction].
  exfalso. unfold C09.ModelT.M_get_sub, raw_key in E.
  change (c10b_rawPlatform =? 1) with false in E. cbn [andb] in E.
  destruct (C09.Proofs_T.get16_ok data 0 ltac:(lia)) as [format Hf]. rewrite Hf in E. cbn [obind] in E.
  apply C09.Proofs_T.get16_rd16 in Hf. cbn [N.to_nat skipn] in Hf. subst format.
  destruct (rd16 data =? 0) eqn:F0; [apply N.eqb_eq in F0; contradiction|].
  unfold omap in E.
  destruct (rd16 data =? 4); [destruct (C09.Model4.M_decode4 _ data); cbn [obind] in E; discriminate|].
  destruct (rd16 data =? 6); [destruct (C09.Model.M_decode6 _ data); cbn [obind] in E; discriminate|].
  destruct (rd16 data =? 12); [destruct (C09.Model.M_decode12 _ data); cbn [obind] in E; discriminate|].
  destruct (_ || _); discriminate.
Qed.

Lemma subset_cmaps_total : forall macrune st t,
  (forall k data, In (k, data) t ->
     10 <= N.of_nat (length data) /\ C09.Proofs_T.valid_format (rd16 data) = true /\ rd16 data <> 0) ->
  M_subset_cmaps macrune st t <> Panic.
Proof.
  intros macrune st. induction t as [|[k data] r IH]; intros H; cbn [M_subset_cmaps]; [discriminate|].
  destruct (H k data (or_introl eq_refl)) as [H1 [H2 H3]].
  pose proof (subset_cmap_entry_total macrune st data H1 H2 H3) as He.
  destruct (M_subset_cmap_entry macrune st data) as [e| | |]; cbn [obind]; try congruence; try discriminate.
  assert (Hr : M_subset_cmaps macrune st r <> Panic) by (apply IH; intros k' d' Hin; apply (H k' d'); right; exact Hin).
  destruct (M_subset_cmaps macrune st r); cbn [obind]; try congruence; discriminate.
Qed.

(* ------------------------------------------------------------------ *)
(* (3) TrueType: the rewritten glyphs                                   *)

Lemma glyf_subset_components_lemma : forall go orc st,
  glyf_pre go -> Inv (N.of_nat (length (go_glyphs go))) st ->
  exists go' st2,
    M_SubsetGlyf go orc st = Ok (go', st2) /\
    (exists ext, s_glyphs st2 = s_glyphs st ++ ext) /\ NoDup (s_glyphs st2) /\
    (forall g, In g (s_glyphs st2) <-> Reach go (s_glyphs st) g) /\
    length (go_glyphs go') = length (s_glyphs st2) /\
    (forall i g, nth_error (s_glyphs st2) i = Some g ->
       exists x y w,
         nth_error (go_glyphs go) (N.to_nat g) = Some x /\ nth_error (go_glyphs go') i = Some y /\
         y = C11.Model.fix_components (new_or0 st2) x /\
         (* the same component list with every glyph id mapped old -> new, nothing else changed *)
         C11.Model.components y = map (new_or0 st2) (C11.Model.components x) /\
         C11.Model.forget_gids y = C11.Model.forget_gids x /\
         (* every reference leads to the new glyph that IS the original component *)
         (forall c, In c (C11.Model.components x) ->
            nth_error (s_glyphs st2) (N.to_nat (new_or0 st2 c)) = Some c /\ new_or0 st2 c < 65536) /\
         (* the bytes: same length, identical outside the glyph index positions *)
         length (glyph_bytes y) = length (glyph_bytes x) /\
         (forall p, ~ In p (glyph_gid_offsets x) -> nth p (glyph_bytes y) 0 = nth p (glyph_bytes x) 0) /\
         (* and they decode (C11's decoder) to the rewritten glyph *)
         (C11.Model.nf_glyph x = true -> forall n, n mod 2 = 0 ->
            C11.Model.M_decode_glyph (C11.Model.enc_glyph_at n y) = Ok y) /\
         nth_error (go_widths go) (N.to_nat g) = Some w /\ nth_error (go_widths go') i = Some w /\
         match go_names go with
         | None => go_names go' = None
         | Some l => exists l' nm, go_names go' = Some l' /\ nth_error l (N.to_nat g) = Some nm /\ nth_error l' i = Some nm
         end).
Proof.
  intros go orc st Hpre HI.
  destruct (glyf_subset_spec go orc st Hpre HI) as [go' [st2 [E [I2 [X2 [Hcl [Hg [Hw Hn]]]]]]]].
  exists go', st2. split; [exact E|]. split; [exact X2|]. split; [exact (inv_nodup _ _ I2)|]. split; [exact Hcl|].
  split; [symmetry; eapply Forall2_len; exact Hg|].
  intros i g Hi.
  destruct (Forall2_nth_l _ _ _ _ _ Hg Hi) as [y [Hy [x [Hx Ey]]]].
  destruct (Forall2_nth_l _ _ _ _ _ Hw Hi) as [w [Hw' Hw0]].
  exists x, y, w. split; [exact Hx|]. split; [exact Hy|]. split; [exact Ey|]. subst y.
  destruct (C11.Props.components_fix (new_or0 st2) x) as [Hc1 [Hc2 _]].
  split; [exact Hc1|]. split; [exact Hc2|].
  assert (Hcomp : forall c, In c (C11.Model.components x) ->
            nth_error (s_glyphs st2) (N.to_nat (new_or0 st2 c)) = Some c /\ new_or0 st2 c < 65536).
  { intros c Hc.
    assert (Hin : In c (s_glyphs st2)).
    { apply Hcl. eapply Reach_comp; [apply Hcl; eapply nth_error_In; exact Hi|exact Hx|exact Hc]. }
    pose proof (new_or0_nth _ _ _ I2 Hin) as Hnth. split; [exact Hnth|].
    assert (N.to_nat (new_or0 st2 c) < length (s_glyphs st2))%nat by (apply nth_error_Some; congruence).
    pose proof (inv_length _ _ I2). destruct Hpre as [Hle _]. lia. }
  split; [exact Hcomp|].
  destruct (fixed_glyph_bytes (new_or0 st2) x) as [B1 [B2 _]].
  split; [exact B1|]. split; [exact B2|].
  split.
  { intros Hnf n Hn2. apply fixed_glyph_decodes; [exact Hn2|exact Hnf|]. intros c Hc. exact (proj2 (Hcomp c Hc)). }
  split; [exact Hw0|]. split; [exact Hw'|].
  destruct (go_names go) as [l|]; [|exact Hn].
  destruct Hn as [l' [El' Hl']]. destruct (Forall2_nth_l _ _ _ _ _ Hl' Hi) as [nm [H1 H2]]. exists l', nm. auto.
Qed.

(* ------------------------------------------------------------------ *)
(* (4) the character map                                                *)

Lemma cmap_subset_roundtrips_lemma : forall macrune gl data s,
  NoDup gl -> N.of_nat (length gl) <= 65536 -> Forall (fun b => b < 256) data ->
  M_subset_cmap_entry macrune (init gl) data = Ok (Some s) ->
  exists m,
    C09.ModelT.M_get_sub macrune raw_key data = Ok (C09.ModelT.SubMap m) /\
    C09.Model.sorted_keys m = true /\
    csub_map s = subset_cmap (init gl) m /\
    (forall c k, In (c, k) (csub_map s) <-> exists g, In (c, g) m /\ nth_error gl (N.to_nat k) = Some g) /\
    forall lang b, lang < 65536 -> encodes s lang b ->
      match s with
      | CS12 m' => C09.Model.M_decode12 false b = Ok m'
      | CS4 m' => exists mm, C09.Model4.M_decode4 (fun c => c) b = Ok mm /\ C09.Model.sorted_keys mm = true /\
                             forall c, c <= 65535 -> C09.Model.lookup mm c = C09.Model.lookup m' c
      end.
Proof.
  intros macrune gl data s Hnd Hlen Hb H. unfold M_subset_cmap_entry in H.
  destruct (C09.ModelT.M_get_sub macrune raw_key data) as [[d|m]| | |] eqn:E; try discriminate.
  exists m. split; [reflexivity|].
  (* what the decoder returned is a sorted map *)
  assert (Hsorted : C09.Model.sorted_keys m = true /\
                    (rd16 data = 12 -> N.of_nat (length m) <= 65536 /\ keys_below 4294967295 m)).
  { unfold C09.ModelT.M_get_sub, raw_key in E. change (c10b_rawPlatform =? 1) with false in E. cbn [andb] in E.
    destruct (C09.ModelT.get16 data 0) as [format| | |] eqn:Ef; cbn [obind] in E; try discriminate.
    apply C09.Proofs_T.get16_rd16 in Ef. cbn [N.to_nat skipn] in Ef. subst format. unfold omap in E.
    destruct (rd16 data =? 0) eqn:F0.
    { destruct (C09.Model.M_decode0 data); cbn [obind] in E; discriminate. }
    destruct (rd16 data =? 4) eqn:F4.
    { destruct (C09.Model4.M_decode4 C09.ModelT.unicode data) as [m4| | |] eqn:E4; cbn [obind] in E; try discriminate.
      inversion E; subst m4. destruct (C09.Props.decode4_agrees_with_spec data m Hb E4) as [Hs _].
      split; [exact Hs|]. intros H12. apply N.eqb_eq in F4. congruence. }
    destruct (rd16 data =? 6) eqn:F6.
    { destruct (C09.Model.M_decode6 C09.ModelT.unicode data) as [m6| | |] eqn:E6; cbn [obind] in E; try discriminate.
      inversion E; subst m6. destruct (C09.Props.format6_spec data m E6) as [Hs _].
      split; [exact Hs|]. intros H12. apply N.eqb_eq in F6. congruence. }
    destruct (rd16 data =? 12) eqn:F12.
    { destruct (C09.Model.M_decode12 false data) as [m12| | |] eqn:E12; cbn [obind] in E; try discriminate.
      inversion E; subst m12. destruct (C09.Props.decode12_agrees_with_spec false data m Hb E12) as [Hs [Hl _]].
      split; [exact Hs|]. intros _. split; [exact Hl|]. apply (decode12_keys_below data m Hb E12). }
    destruct (_ || _); discriminate. }
  destruct Hsorted as [Hs Hl12]. split; [exact Hs|].
  assert (Em : csub_map s = subset_cmap (init gl) m).
  { inversion H. destruct (rd16 data =? 12); reflexivity. }
  split; [exact Em|]. split.
  { rewrite Em. apply subset_cmap_exact; assumption. }
  intros lang b Hlang Henc. inversion H as [Hs']. destruct (rd16 data =? 12) eqn:F12; subst s; cbn [encodes] in Henc.
  - apply N.eqb_eq in F12. destruct (Hl12 F12) as [Hl Hk]. subst b. apply cmap12_roundtrip; [exact Hs|exact Hk|exact Hl].
  - destruct Henc as [segs [Hp [Hsz He]]].
    destruct (cmap4_roundtrip gl m segs lang Hlang Hp Hsz) as [b' [mm [He' [Hd [Hsm Hlk]]]]].
    rewrite He in He'. inversion He'; subst b'. exists mm. auto.
Qed.
