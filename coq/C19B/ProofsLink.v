(* C19B/ProofsLink.v — M_parse_gpos2 extends the main development's M_parse:
   wherever the main model gives an answer (lookups, an error line, a panic,
   exhausted fuel) this part's model gives the same answer; it differs only
   where the main model stops at the keyword GPOS2. *)
From Coq Require Import List NArith ZArith Bool Arith Lia.
From Gen Require Import C19.
From C19 Require Import Model.
From C19B Require Import Model.
Import ListNotations.
Import K.
Local Open Scope N_scope.

Definition xres {A B} (f : A -> B) (r : presult (A * list token)) : presult (B * list token) :=
  match r with
  | POk (a, ts) => POk (f a, ts)
  | PErr l => PErr l
  | PPanic => PPanic
  | PFuel => PFuel
  | PUnmodelled => PUnmodelled
  end.

(* r2 agrees with r1 unless r1 is "unmodelled" *)
Definition extends {A} (r1 r2 : presult A) : Prop :=
  match r1 with PUnmodelled => True | _ => r2 = r1 end.

Lemma bind_read : forall {B} endl (k : token -> P B) ts,
  (t <- read endl ;; k t) ts = k (peek_tok endl ts) (tl ts).
Proof. intros B endl k [|t r]; reflexivity. Qed.

Lemma parse_loop2_extends : forall F endl fuel acc ts,
  extends (xres (map XOld) (parse_loop F endl fuel acc ts)) (parse_loop2 F endl fuel (map XOld acc) ts).
Proof.
  intros F endl. induction fuel as [|f IH]; intros acc ts; [reflexivity|].
  cbn [parse_loop parse_loop2]. rewrite !bind_read.
  set (t := peek_tok endl ts). set (ts1 := tl ts).
  assert (K : forall (rd : P lookup),
            extends (xres (map XOld) ((l <- rd ;; parse_loop F endl f (acc ++ [l])) ts1))
                    (old rd (fun l => parse_loop2 F endl f (map XOld acc ++ [l])) ts1)).
  { intros rd. unfold old, bind. destruct (rd ts1) as [[l ts2]|l| | |]; try reflexivity.
    specialize (IH (acc ++ [l]) ts2). rewrite map_app in IH. exact IH. }
  destruct (ttyp t); try reflexivity; try apply IH.
  cbv zeta.
  repeat match goal with |- context [if ?b then _ else _] => destruct b end;
    try apply K; reflexivity.
Qed.

Theorem parse_gpos2_extends_parse : forall U F text,
  match M_parse U F text with
  | POk ll => M_parse_gpos2 U F text = POk (map XOld ll)
  | PErr l => M_parse_gpos2 U F text = PErr l
  | PPanic => M_parse_gpos2 U F text = PPanic
  | PFuel => M_parse_gpos2 U F text = PFuel
  | PUnmodelled => True
  end.
Proof.
  intros U F text. unfold M_parse, M_parse_gpos2, M_parse_tokens, M_parse_gpos2_tokens.
  pose proof (parse_loop2_extends F (end_line (M_lex U text)) (S (S (length (M_lex U text)))) [] (M_lex U text)) as H.
  cbn [map] in H.
  destruct (parse_loop F (end_line (M_lex U text)) (S (S (length (M_lex U text)))) [] (M_lex U text)) as [[ll ts']|l| | |];
    cbn [xres extends] in H; try rewrite H; try reflexivity.
Qed.
