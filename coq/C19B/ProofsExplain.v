(* C19B/ProofsExplain.v — the lexer reads the text written by M_explain_gpos2
   as the item stream of C19B/Render.v.  Built on the lexer calculus (Lx, LxH)
   and the atoms (glyph lists, value records, headers, whole GPOS1/3/4
   lookups) of the main development. *)
From Coq Require Import List NArith ZArith Bool Arith Lia ZifyBool ZifyNat ZifyN.
From Gen Require Import C19.
From C19 Require Import Model Wf Util ProofsLex Render ProofsExplain.
From C19B Require Import Model Wf Render.
Import ListNotations.
Import K.
Local Open Scope N_scope.

Arguments digits : simpl never.
Arguments name_of : simpl never.
Arguments digits_signed : simpl never.

Section Explain2.
  Variable U : uclass.
  Variable F : font.
  Hypothesis HF : font_wf U F = true.

  Notation Lx := (Lx U).
  Notation LxH := (LxH U).
  Notation rest_ok := (rest_ok U).

  Ltac lit := intros line rest; cbn; rewrite ?N.add_0_r; reflexivity.
  Ltac split_wf H := repeat (apply andb_true_iff in H; destruct H as [H ?]).

  Lemma LxH_amp : LxH k_amp (fun l => [t_amp l]) 0.   Proof. lit. Qed.
  Lemma LxH_nlt : LxH k_nlt (fun l => [t_eol l]) 1.   Proof. lit. Qed.
  Lemma LxH_semi_nlt : LxH ([59] ++ k_nlt) (fun l => [t_semi l; t_eol l]) 1.   Proof. lit. Qed.

  (* ---- pair adjustments ---- *)
  Lemma Lx_padj : forall p, Lx (write_padj p) (padj_toks p) 0.
  Proof.
    intros [a1 a2]. unfold write_padj, padj_toks. cbn [fst snd]. destruct a2 as [v|].
    - eapply Lx_ext.
      + apply Lx_app; [apply Lx_value| |reflexivity].
        apply LxH_app_Lx; [apply LxH_amp|apply Lx_value].
      + intros l. cbn [app]. rewrite !N.add_0_r. reflexivity.
      + reflexivity.
    - rewrite app_nil_r. eapply Lx_ext; [apply Lx_value| |reflexivity].
      intros l. rewrite app_nil_r. reflexivity.
  Qed.

  (* ---- Gpos2_1: "A B -> x+1 & y-2, C D -> _" ---- *)
  Definition pair_ok (e : pkey * padj) : Prop := gids_ok F [fst (fst e); snd (fst e)] = true.

  Lemma Lx_pairs : forall es first, Forall pair_ok es ->
    Lx (explain_pairs U F es first) (pairs_toks U F es first) 0
    /\ rest_ok (explain_pairs U F es first).
  Proof.
    induction es as [|[[a b] pa] es IH]; intros first He.
    - split; [apply Lx_nil|exact I].
    - inversion He as [|? ? Hk Hes]; subst. unfold pair_ok in Hk. cbn [fst snd] in Hk.
      destruct (IH false Hes) as [IH1 IH2]. cbn [explain_pairs pairs_toks]. split.
      + eapply Lx_ext.
        * apply (LxH_app_Lx U (if first then [32] else k_comma) (fun l => if first then [] else [t_comma l]) 0);
            [destruct first; [apply LxH_sp|apply LxH_comma]|].
          apply Lx_app; [apply Lx_glyph_list; [exact HF|exact Hk]| |reflexivity].
          apply LxH_app_Lx; [apply LxH_arrow|].
          apply Lx_app; [apply Lx_padj|exact IH1|exact IH2].
        * intros l. cbn [app]. rewrite !N.add_0_r. destruct first; reflexivity.
        * reflexivity.
      + destruct first; reflexivity.
  Qed.

  (* ---- class lists " A B, , C" ---- *)
  Lemma Lx_clists : forall ls first, Forall (fun gg => gids_ok F gg = true) ls ->
    Lx (explain_class_lists U F ls first) (clists_toks U F ls first) 0
    /\ rest_ok (explain_class_lists U F ls first).
  Proof.
    induction ls as [|gg ls IH]; intros first Hl.
    - split; [apply Lx_nil|exact I].
    - inversion Hl as [|? ? Hg Hls]; subst. destruct (IH false Hls) as [IH1 IH2].
      cbn [explain_class_lists clists_toks]. split.
      + eapply Lx_ext.
        * apply (LxH_app_Lx U (if first then [] else [44]) (fun l => if first then [] else [t_comma l]) 0);
            [destruct first; [apply LxH_nil|apply LxH_comma1]|].
          apply LxH_app_Lx; [apply LxH_sp|].
          apply Lx_app; [apply Lx_glyph_list; [exact HF|exact Hg]|exact IH1|exact IH2].
        * intros l. cbn [app]. rewrite !N.add_0_r. destruct first; reflexivity.
        * reflexivity.
      + destruct first; reflexivity.
  Qed.

  (* ---- the matrix ---- *)
  Lemma Lx_row_tail : forall row, Lx (explain_row row false) (row_toks row false) 0
                                  /\ rest_ok (explain_row row false).
  Proof.
    induction row as [|p row [IH1 IH2]].
    - split; [apply Lx_nil|exact I].
    - cbn [explain_row row_toks]. split; [|reflexivity].
      eapply Lx_ext.
      + apply LxH_app_Lx; [apply LxH_comma|]. apply Lx_app; [apply Lx_padj|exact IH1|exact IH2].
      + intros l. cbn [app]. rewrite !N.add_0_r. reflexivity.
      + reflexivity.
  Qed.

  Lemma Lx_row : forall row, Lx (explain_row row true) (row_toks row true) 0.
  Proof.
    intros [|p row]; [apply Lx_nil|]. destruct (Lx_row_tail row) as [T1 T2].
    cbn [explain_row row_toks app]. eapply Lx_ext.
    - apply Lx_app; [apply Lx_padj|exact T1|exact T2].
    - intros l. cbv beta. rewrite N.add_0_r. reflexivity.
    - reflexivity.
  Qed.

  Lemma LxH_rows : forall rows,
    LxH (explain_rows rows) (rows_toks rows) (N.of_nat (length rows)).
  Proof.
    induction rows as [|row rows IH]; [apply LxH_nil|].
    unfold explain_rows in *. cbn [map concat rows_toks length].
    eapply LxH_ext.
    - apply LxH_app; [|exact IH].
      apply LxH_app; [apply LxH_nlt|].
      apply Lx_app_LxH; [apply Lx_row|apply LxH_semi|reflexivity|discriminate].
    - intros l. cbn [app]. unfold t_eol. rewrite <- !app_assoc. rewrite !N.add_0_r. reflexivity.
    - lia.
  Qed.

  (* ---- class tables ---- *)
  Lemma class_glyphs_ok : forall m c, gids_ok F (map fst m) = true -> gids_ok F (class_glyphs c m) = true.
  Proof.
    intros m c H. unfold class_glyphs, gids_ok in *. rewrite forallb_forall in *.
    intros g Hg. apply H. apply in_map_iff in Hg. destruct Hg as (e & Ee & He).
    apply filter_In in He. apply in_map_iff. exists e. tauto.
  Qed.

  Lemma class_lists_ok : forall m, gids_ok F (map fst m) = true ->
    Forall (fun gg => gids_ok F gg = true) (class_lists_of m).
  Proof.
    intros m H. unfold class_lists_of. apply Forall_forall. intros gg Hg.
    apply in_map_iff in Hg. destruct Hg as (c & Ec & _). subst gg. apply class_glyphs_ok. exact H.
  Qed.

  Lemma cls_ok_gids : forall m, cls_ok F m = true -> gids_ok F (map fst m) = true.
  Proof. intros m H. unfold cls_ok in H. split_wf H. assumption. Qed.

  (* ---- subtables ---- *)
  Lemma pairs_wf_ok : forall pairs, pair_wf F (Gpos2_1 pairs) = true -> Forall pair_ok pairs.
  Proof.
    intros pairs W. cbn [pair_wf] in W. split_wf W.
    match goal with Hx : forallb _ pairs = true |- _ => apply forallb_Forall in Hx; eapply Forall_impl; [|exact Hx] end.
    intros e He. cbn beta in He. split_wf He. unfold pair_ok, gids_ok. cbn [forallb]. cbv beta.
    apply andb_true_iff. split; [assumption|]. apply andb_true_iff. split; [assumption|reflexivity].
  Qed.

  Lemma LxH_fmt2 : forall cov c1 c2 adj, pair_wf F (Gpos2_2 cov c1 c2 adj) = true ->
    LxH ([47] ++ write_glyph_list U F cov ++ [47] ++ k_nlt
           ++ k_first ++ explain_class_lists U F (class_lists_of c1) true ++ [59] ++ k_nlt
           ++ k_second ++ explain_class_lists U F (class_lists_of c2) true ++ [59]
           ++ explain_rows (rows_of adj (cls_count c1) (cls_count c2)))
        (fmt2_toks U F cov c1 c2 adj) (2 + N.of_nat (cls_count c1)).
  Proof.
    intros cov c1 c2 adj W. cbn [pair_wf] in W. split_wf W.
    assert (G1 : Forall (fun gg => gids_ok F gg = true) (class_lists_of c1))
      by (apply class_lists_ok; apply cls_ok_gids; assumption).
    assert (G2 : Forall (fun gg => gids_ok F gg = true) (class_lists_of c2))
      by (apply class_lists_ok; apply cls_ok_gids; assumption).
    destruct (Lx_clists _ true G1) as [A1 A2]. destruct (Lx_clists _ true G2) as [B1 B2].
    pose proof (LxH_rows (rows_of adj (cls_count c1) (cls_count c2))) as R.
    assert (Kf : wf_name U k_first = true) by reflexivity.
    assert (Ks : wf_name U k_second = true) by reflexivity.
    replace ([47] ++ write_glyph_list U F cov ++ [47] ++ k_nlt
           ++ k_first ++ explain_class_lists U F (class_lists_of c1) true ++ [59] ++ k_nlt
           ++ k_second ++ explain_class_lists U F (class_lists_of c2) true ++ [59]
           ++ explain_rows (rows_of adj (cls_count c1) (cls_count c2)))
      with ([47] ++ ((write_glyph_list U F cov ++ ([47] ++ k_nlt))
           ++ (((k_first ++ explain_class_lists U F (class_lists_of c1) true) ++ ([59] ++ k_nlt))
           ++ (((k_second ++ explain_class_lists U F (class_lists_of c2) true) ++ [59])
           ++ explain_rows (rows_of adj (cls_count c1) (cls_count c2))))))
      by (rewrite <- !app_assoc; reflexivity).
    eapply LxH_ext.
    - apply LxH_app; [apply LxH_slash|].
      apply LxH_app.
      { apply Lx_app_LxH; [apply Lx_glyph_list; [exact HF|assumption]| |reflexivity|discriminate].
        apply (LxH_app U [47] (fun l => [t_slash l]) 0 k_nlt (fun l => [t_eol l]) 1); [apply LxH_slash|apply LxH_nlt]. }
      apply LxH_app.
      { apply Lx_app_LxH; [|apply LxH_semi_nlt|reflexivity|discriminate].
        apply Lx_app; [apply Lx_ident; exact Kf|exact A1|].
        destruct (explain_class_lists U F (class_lists_of c1) true); [exact I|exact A2]. }
      apply LxH_app; [|exact R].
      apply Lx_app_LxH; [|apply LxH_semi|reflexivity|discriminate].
      apply Lx_app; [apply Lx_ident; exact Ks|exact B1|].
      destruct (explain_class_lists U F (class_lists_of c2) true); [exact I|exact B2].
    - intros l. unfold fmt2_toks. cbn [app]. rewrite ?N.add_0_r. rewrite <- !app_assoc. cbn [app].
      rewrite ?N.add_0_l. replace (l + 1 + 1) with (l + 2) by lia. reflexivity.
    - unfold rows_of. rewrite map_length, seq_length. lia.
  Qed.

  Lemma Lx_psub : forall s first, pair_wf F s = true ->
    Lx (explain_pair_sub U F s first) (psub_toks U F s first) (psub_dl s first)
    /\ (first = true -> rest_ok (explain_pair_sub U F s first)).
  Proof.
    intros s first W. destruct s as [pairs|cov c1 c2 adj].
    - destruct (Lx_pairs pairs true (pairs_wf_ok pairs W)) as [A B].
      cbn [explain_pair_sub psub_toks psub_dl]. split; [exact A|intros _; exact B].
    - pose proof (LxH_fmt2 cov c1 c2 adj W) as H2. cbn [explain_pair_sub psub_toks psub_dl]. split.
      + apply LxH_Lx. destruct first.
        * eapply LxH_ext; [apply LxH_app; [apply LxH_nlt|exact H2]| |].
          -- intros l. reflexivity.
          -- lia.
        * eapply LxH_ext; [exact H2| |].
          -- intros l. reflexivity.
          -- lia.
      + intros E. subst first. reflexivity.
  Qed.

  (* ---- the subtables of a lookup ---- *)
  Section Subs.
    Variable hdr : list N.
    Variable hdrt : N -> list token.
    Hypothesis Hhdr : Lx hdr hdrt 0.

    Lemma Lx_psubs_rest : forall subs, Forall (fun s => pair_wf F s = true) subs ->
      Lx (explain_psubs U F hdr subs false) (psubs_toks U F hdrt subs false) (psubs_lines subs)
      /\ rest_ok (explain_psubs U F hdr subs false).
    Proof.
      induction subs as [|s r IH]; intros H.
      - split; [apply Lx_nil|exact I].
      - inversion H as [|? ? Hs Hr]; subst. destruct (IH Hr) as [IH1 IH2].
        destruct (Lx_psub s false Hs) as [S1 S2]. cbn [explain_psubs psubs_toks]. split; [|reflexivity].
        eapply Lx_ext.
        + apply LxH_app_Lx; [apply LxH_or|]. apply Lx_app; [exact S1|exact IH1|exact IH2].
        + intros l. cbn [app]. rewrite ?N.add_0_r. reflexivity.
        + cbn [psubs_lines]. lia.
    Qed.

    Lemma Lx_psubs_first : forall subs, Forall (fun s => pair_wf F s = true) subs ->
      Lx (explain_psubs U F hdr subs true) (psubs_toks U F hdrt subs true) (psubs_dl subs).
    Proof.
      intros subs H. destruct subs as [|s r].
      - apply Lx_nil.
      - inversion H as [|? ? Hs Hr]; subst. destruct (Lx_psubs_rest r Hr) as [R1 R2].
        destruct (Lx_psub s true Hs) as [S1 S2]. specialize (S2 eq_refl). cbn [explain_psubs psubs_toks].
        eapply Lx_ext.
        + apply Lx_app; [exact Hhdr| |apply rest_ok_app; [exact S2|exact R2]].
          apply Lx_app; [exact S1|exact R1|exact R2].
        + intros l. cbn [app]. rewrite ?N.add_0_r. reflexivity.
        + unfold psubs_dl. lia.
    Qed.
  End Subs.

  (* ---- lookups and lookup lists ---- *)
  Lemma xlookup_parts : forall lk, xgpos_lookup_wf F lk = true ->
    match lk with
    | XOld o => flags_ok (l_flags o) = true /\ Forall (fun s => sub_wf F s = true) (l_subs o)
    | XPair fl subs => flags_ok fl = true /\ subs <> [] /\ Forall (fun s => pair_wf F s = true) subs
    end.
  Proof.
    intros [o|fl subs] H; unfold xgpos_lookup_wf, old_gpos_lookup_wf, gpos2_lookup_wf in H.
    - rewrite orb_false_r in H. apply gpos_all_lookup_subs; auto.
    - cbn [orb] in H. split_wf H. repeat split; auto.
      + destruct subs; [discriminate|congruence].
      + apply forallb_Forall. assumption.
  Qed.

  Lemma Lx_xlookup : forall lk, xgpos_lookup_wf F lk = true ->
    Lx (explain_xlookup U F lk) (xlookup_toks U F lk) (xlookup_dl lk).
  Proof.
    intros lk H. pose proof (xlookup_parts lk H) as P. destruct lk as [o|fl subs].
    - destruct P as [Pf Ps]. cbn [explain_xlookup xlookup_toks xlookup_dl].
      apply Lx_lookup; auto.
    - destruct P as (Pf & _ & Ps). cbn [explain_xlookup xlookup_toks xlookup_dl].
      apply Lx_psubs_first; auto.
      apply (Lx_hdr U F k_GPOS (mkLookup 2 fl [])); auto.
  Qed.

  Lemma Lx_xgpos : forall ll, Forall (fun lk => xgpos_lookup_wf F lk = true) ll ->
    Lx (M_explain_gpos2 U F ll) (xgpos_toks U F ll) (xgpos_dl ll).
  Proof.
    induction ll as [|lk r IH]; intros H.
    - apply Lx_nil.
    - inversion H as [|? ? Hlk Hr]; subst.
      unfold M_explain_gpos2 in *. destruct r as [|lk' r'].
      + cbn [map join_nl xgpos_toks xgpos_dl]. apply Lx_xlookup; auto.
      + change (join_nl (map (explain_xlookup U F) (lk :: lk' :: r')))
          with (explain_xlookup U F lk ++ ([10] ++ join_nl (map (explain_xlookup U F) (lk' :: r')))).
        eapply Lx_ext.
        * apply Lx_app; [apply Lx_xlookup; auto| |reflexivity].
          apply LxH_app_Lx; [apply LxH_nl|apply IH; exact Hr].
        * intros l. cbn [xgpos_toks]. cbn [app]. rewrite ?N.add_assoc. reflexivity.
        * cbn [xgpos_dl]. lia.
  Qed.

  Lemma lex_explain_xgpos : forall ll, Forall (fun lk => xgpos_lookup_wf F lk = true) ll ->
    M_lex U (M_explain_gpos2 U F ll) = xgpos_toks U F ll 1 ++ [tk TEOF [] (1 + xgpos_dl ll)].
  Proof.
    intros ll H. unfold M_lex. rewrite <- (app_nil_r (M_explain_gpos2 U F ll)).
    rewrite (Lx_xgpos ll H 1 [] I). reflexivity.
  Qed.
End Explain2.
