(* C19B/ProofsStrict.v — no reader of the parser model ever answers
   "unmodelled": that outcome exists only in the main development's parse
   loop, at the keyword GPOS2.  With C19B/ProofsTotal this makes the totality
   statement strict: lookups, or an error with a line; nothing else. *)
From Coq Require Import List NArith ZArith Bool Arith Lia.
From Gen Require Import C19.
From C19 Require Import Model.
From C19 Require ProofsTotal.
From C19B Require Import Model ProofsTotal.
Import ListNotations.
Import K.
Local Open Scope N_scope.

Definition nu {A} (m : P A) : Prop := forall ts, m ts <> PUnmodelled.

Lemma nu_ret : forall {A} (a : A), nu (ret a).
Proof. intros A a ts. discriminate. Qed.
Lemma nu_bind : forall {A B} (m : P A) (f : A -> P B), nu m -> (forall a, nu (f a)) -> nu (bind m f).
Proof.
  intros A B m f Hm Hf ts. unfold bind. specialize (Hm ts).
  destruct (m ts) as [[a ts']|l| | |]; try discriminate; [apply Hf|congruence].
Qed.
Lemma nu_fatal : forall endl {A}, nu (@fatal endl A).
Proof. intros endl A ts. discriminate. Qed.
Lemma nu_fuel : forall {A}, nu (@out_of_fuel A).
Proof. intros A ts. discriminate. Qed.
Lemma nu_panic : forall {A}, nu (@gopanic A).
Proof. intros A ts. discriminate. Qed.
Lemma nu_read : forall endl, nu (read endl).
Proof. intros endl [|t r]; discriminate. Qed.
Lemma nu_unread : forall endl t, nu (unread endl t).
Proof. intros endl t [|t' r]; cbn; [destruct (is_syn_eof endl t)|]; discriminate. Qed.

Ltac nu_step :=
  match goal with
  | |- nu (bind _ _) => apply nu_bind; [|intros]
  | |- nu (ret _) => apply nu_ret
  | |- nu (fatal _) => apply nu_fatal
  | |- nu out_of_fuel => apply nu_fuel
  | |- nu gopanic => apply nu_panic
  | |- nu (read _) => apply nu_read
  | |- nu (unread _ _) => apply nu_unread
  | |- nu (old _ _) => unfold old
  | |- nu (if ?b then _ else _) => destruct b
  | |- nu (match ?x with _ => _ end) => destruct x
  | |- nu (let '(_, _) := ?x in _) => destruct x
  | H : context [nu _] |- nu _ => solve [apply H]
  end.
Ltac nu_tac := repeat nu_step; auto with nu.
Ltac nu_fix f := induction f as [|f IHf]; intros; [apply nu_fuel|]; cbn -[N.lor]; nu_tac.

Section Strict.
  Variable F : font.
  Variable endl : N.

  Lemma nu_optional : forall ty, nu (optional endl ty).   Proof. intros. unfold optional. nu_tac. Qed.
  Lemma nu_required : forall ty, nu (required endl ty).   Proof. intros. unfold required. nu_tac. Qed.
  Lemma nu_optional_ident : forall s, nu (optional_ident endl s).   Proof. intros. unfold optional_ident. nu_tac. Qed.
  Lemma nu_read_identifier : nu (read_identifier endl).   Proof. unfold read_identifier. nu_tac. Qed.
  Lemma nu_required_ident : forall s, nu (required_ident endl s).   Proof. intros. unfold required_ident. nu_tac. Qed.
  Lemma nu_peek : nu (peek endl).   Proof. unfold peek. nu_tac. Qed.
  Hint Resolve nu_optional nu_required nu_optional_ident nu_read_identifier nu_required_ident nu_peek : nu.

  Lemma nu_rlf : forall fuel flags, nu (read_lookup_flags endl fuel flags).
  Proof. intros fuel. nu_fix fuel. Qed.
  Lemma nu_rgl : forall fuel res hy, nu (read_glyph_list_loop F endl fuel res hy).
  Proof. intros fuel. nu_fix fuel. Qed.
  Hint Resolve nu_rlf nu_rgl : nu.
  Lemma nu_rgl' : forall fuel, nu (read_glyph_list F endl fuel).   Proof. intros. unfold read_glyph_list. nu_tac. Qed.
  Hint Resolve nu_rgl' : nu.
  Lemma nu_rgs : forall fuel, nu (read_glyph_set F endl fuel).   Proof. intros. unfold read_glyph_set. nu_tac. Qed.
  Lemma nu_int16 : nu (read_int16 endl).   Proof. unfold read_int16. nu_tac. Qed.
  Lemma nu_uint16 : nu (read_uint16 endl).   Proof. unfold read_uint16. nu_tac. Qed.
  Hint Resolve nu_rgs nu_int16 nu_uint16 : nu.
  Lemma nu_rvl : forall fuel v, nu (read_value_loop endl fuel v).
  Proof. intros fuel. nu_fix fuel. Qed.
  Hint Resolve nu_rvl : nu.
  Lemma nu_rvr : forall fuel, nu (read_value_record endl fuel).   Proof. intros. unfold read_value_record. nu_tac. Qed.
  Lemma nu_header : forall fuel, nu (lookup_header endl fuel).   Proof. intros. unfold lookup_header. nu_tac. Qed.
  Hint Resolve nu_rvr nu_header : nu.

  (* GSUB1-4, GPOS1 *)
  Lemma nu_gsub1_loop : forall fuel res, nu (gsub1_loop F endl fuel res).   Proof. intros fuel. nu_fix fuel. Qed.
  Lemma nu_gsub2_loop : forall fuel d, nu (gsub2_loop F endl fuel d).   Proof. intros fuel. nu_fix fuel. Qed.
  Lemma nu_gsub3_loop : forall fuel d, nu (gsub3_loop F endl fuel d).   Proof. intros fuel. nu_fix fuel. Qed.
  Lemma nu_gsub4_loop : forall fuel d, nu (gsub4_loop F endl fuel d).   Proof. intros fuel. nu_fix fuel. Qed.
  Lemma nu_gpos1_2_loop : forall fuel r, nu (gpos1_2_loop F endl fuel r).   Proof. intros fuel. nu_fix fuel. Qed.
  Hint Resolve nu_gsub1_loop nu_gsub2_loop nu_gsub3_loop nu_gsub4_loop nu_gpos1_2_loop : nu.
  Lemma nu_gpos1_loop : forall fuel s, nu (gpos1_loop F endl fuel s).   Proof. intros fuel. nu_fix fuel. Qed.
  Hint Resolve nu_gpos1_loop : nu.
  Lemma nu_read_gsub1 : forall fuel, nu (read_gsub1 F endl fuel).   Proof. intros. unfold read_gsub1. nu_tac. Qed.
  Lemma nu_read_gsub2 : forall fuel, nu (read_gsub2 F endl fuel).   Proof. intros. unfold read_gsub2. nu_tac. Qed.
  Lemma nu_read_gsub3 : forall fuel, nu (read_gsub3 F endl fuel).   Proof. intros. unfold read_gsub3. nu_tac. Qed.
  Lemma nu_read_gsub4 : forall fuel, nu (read_gsub4 F endl fuel).   Proof. intros. unfold read_gsub4. nu_tac. Qed.
  Lemma nu_read_gpos1 : forall fuel, nu (read_gpos1 F endl fuel).   Proof. intros. unfold read_gpos1. nu_tac. Qed.

  (* GSUB5 *)
  Lemma nu_nested : forall fuel r, nu (read_nested endl fuel r).   Proof. intros fuel. nu_fix fuel. Qed.
  Hint Resolve nu_nested : nu.
  Lemma nu_class_def : forall fuel, nu (parse_class_def F endl fuel).   Proof. intros. unfold parse_class_def. nu_tac. Qed.
  Lemma nu_class_name : nu (read_class_name endl).   Proof. unfold read_class_name. nu_tac. Qed.
  Hint Resolve nu_class_def nu_class_name : nu.
  Lemma nu_class_names : forall fuel a, nu (read_class_names endl fuel a).   Proof. intros fuel. nu_fix fuel. Qed.
  Hint Resolve nu_class_names : nu.
  Lemma nu_ctx1 : forall fuel d, nu (ctx1_loop F endl fuel d).   Proof. intros fuel. nu_fix fuel. Qed.
  Lemma nu_ctx2 : forall fuel n d, nu (ctx2_loop endl fuel n d).   Proof. intros fuel. nu_fix fuel. Qed.
  Lemma nu_ctx3 : forall fuel a, nu (ctx3_sets F endl fuel a).   Proof. intros fuel. nu_fix fuel. Qed.
  Hint Resolve nu_ctx1 nu_ctx2 nu_ctx3 : nu.
  Lemma nu_seqctx_loop : forall fuel n c s, nu (seqctx_loop F endl fuel n c s).   Proof. intros fuel. nu_fix fuel. Qed.
  Hint Resolve nu_seqctx_loop : nu.
  Lemma nu_read_seqctx : forall fuel ty, nu (read_seqctx F endl fuel ty).   Proof. intros. unfold read_seqctx. nu_tac. Qed.

  (* GSUB6 *)
  Lemma nu_chain_peek : nu (chain_peek endl).   Proof. unfold chain_peek. nu_tac. Qed.
  Lemma nu_def_class : forall fuel st, nu (def_class F endl fuel st).   Proof. intros. unfold def_class. nu_tac. Qed.
  Hint Resolve nu_chain_peek nu_def_class : nu.
  Lemma nu_chain1 : forall fuel d, nu (chain1_loop F endl fuel d).   Proof. intros fuel. nu_fix fuel. Qed.
  Lemma nu_chain2 : forall fuel a b c d, nu (chain2_loop endl fuel a b c d).   Proof. intros fuel. nu_fix fuel. Qed.
  Lemma nu_sets_until : forall fuel st a, nu (sets_until F endl fuel st a).   Proof. intros fuel. nu_fix fuel. Qed.
  Lemma nu_sets_then : forall fuel st a, nu (sets_then F endl fuel st a).   Proof. intros fuel. nu_fix fuel. Qed.
  Hint Resolve nu_chain1 nu_chain2 nu_sets_until nu_sets_then : nu.
  Lemma nu_chainctx_loop : forall fuel a b c s, nu (chainctx_loop F endl fuel a b c s).   Proof. intros fuel. nu_fix fuel. Qed.
  Hint Resolve nu_chainctx_loop : nu.
  Lemma nu_read_chainctx : forall fuel ty, nu (read_chainctx F endl fuel ty).   Proof. intros. unfold read_chainctx. nu_tac. Qed.

  (* GPOS3, GPOS4 *)
  Lemma nu_read_glyph : forall fuel, nu (read_glyph F endl fuel).   Proof. intros. unfold read_glyph. nu_tac. Qed.
  Hint Resolve nu_read_glyph : nu.
  Lemma nu_gpos3_recs : forall fuel d, nu (gpos3_recs F endl fuel d).   Proof. intros fuel. nu_fix fuel. Qed.
  Hint Resolve nu_gpos3_recs : nu.
  Lemma nu_gpos3_loop : forall fuel s, nu (gpos3_loop F endl fuel s).   Proof. intros fuel. nu_fix fuel. Qed.
  Hint Resolve nu_gpos3_loop : nu.
  Lemma nu_read_gpos3 : forall fuel, nu (read_gpos3 F endl fuel).   Proof. intros. unfold read_gpos3. nu_tac. Qed.
  Lemma nu_gpos4_marks : forall fuel g m, nu (gpos4_marks F endl fuel g m).   Proof. intros fuel. nu_fix fuel. Qed.
  Lemma nu_gpos4_anchors : forall n i0, nu (gpos4_anchors endl n i0).
  Proof. induction n as [|n IHn]; intros; cbn [gpos4_anchors]; nu_tac. Qed.
  Hint Resolve nu_gpos4_marks nu_gpos4_anchors : nu.
  Lemma nu_gpos4_bases : forall fuel nc g b, nu (gpos4_bases F endl fuel nc g b).   Proof. intros fuel. nu_fix fuel. Qed.
  Hint Resolve nu_gpos4_bases : nu.
  Lemma nu_gpos4_loop : forall fuel s, nu (gpos4_loop F endl fuel s).   Proof. intros fuel. nu_fix fuel. Qed.
  Hint Resolve nu_gpos4_loop : nu.
  Lemma nu_read_gpos4 : forall fuel, nu (read_gpos4 F endl fuel).   Proof. intros. unfold read_gpos4. nu_tac. Qed.

  (* GPOS2 *)
  Lemma nu_padj : forall fuel, nu (read_pair_adjust endl fuel).   Proof. intros. unfold read_pair_adjust. nu_tac. Qed.
  Hint Resolve nu_padj : nu.
  Lemma nu_gpos2_1_loop : forall fuel m, nu (gpos2_1_loop F endl fuel m).   Proof. intros fuel. nu_fix fuel. Qed.
  Lemma nu_class_list_step : forall fuel c m, nu (class_list_step F endl fuel c m).
  Proof. intros. unfold class_list_step. nu_tac. Qed.
  Hint Resolve nu_gpos2_1_loop nu_class_list_step : nu.
  Lemma nu_class_lists_rest : forall fuel c m, nu (class_lists_rest F endl fuel c m).   Proof. intros fuel. nu_fix fuel. Qed.
  Hint Resolve nu_class_lists_rest : nu.
  Lemma nu_class_lists : forall fuel, nu (class_lists F endl fuel).   Proof. intros. unfold class_lists. nu_tac. Qed.
  Lemma nu_optional2 : forall a b, nu (optional2 endl a b).   Proof. intros. unfold optional2. nu_tac. Qed.
  Hint Resolve nu_class_lists nu_optional2 : nu.
  Lemma nu_adj_row : forall fuel n j0, nu (adj_row endl fuel n j0).
  Proof. intros fuel. induction n as [|n IHn]; intros; cbn [adj_row]; nu_tac. Qed.
  Hint Resolve nu_adj_row : nu.
  Lemma nu_adj_rows : forall fuel n1 n2, nu (adj_rows endl fuel n1 n2).
  Proof. intros fuel. induction n1 as [|n1 IHn]; intros; cbn [adj_rows]; nu_tac. Qed.
  Hint Resolve nu_adj_rows : nu.
  Lemma nu_read_gpos2_2 : forall fuel, nu (read_gpos2_2 F endl fuel).   Proof. intros. unfold read_gpos2_2. nu_tac. Qed.
  Hint Resolve nu_read_gpos2_2 : nu.
  Lemma nu_gpos2_loop : forall fuel s, nu (gpos2_loop F endl fuel s).   Proof. intros fuel. nu_fix fuel. Qed.
  Hint Resolve nu_gpos2_loop : nu.
  Lemma nu_read_gpos2 : forall fuel, nu (read_gpos2 F endl fuel).   Proof. intros. unfold read_gpos2. nu_tac. Qed.

  Hint Resolve nu_read_gsub1 nu_read_gsub2 nu_read_gsub3 nu_read_gsub4 nu_read_gpos1 nu_read_seqctx
    nu_read_chainctx nu_read_gpos3 nu_read_gpos4 nu_read_gpos2 : nu.

  Lemma nu_parse_loop2 : forall fuel acc, nu (parse_loop2 F endl fuel acc).
  Proof. intros fuel. nu_fix fuel. Qed.
End Strict.

Theorem parse_gpos2_never_unmodelled : forall U F text, M_parse_gpos2 U F text <> PUnmodelled.
Proof.
  intros U F text. unfold M_parse_gpos2, M_parse_gpos2_tokens, strip.
  pose proof (nu_parse_loop2 F (end_line (M_lex U text)) (S (S (length (M_lex U text)))) [] (M_lex U text)) as H.
  destruct (parse_loop2 _ _ _ _ _) as [[a ts]|l| | |]; try discriminate. congruence.
Qed.

Theorem read_gpos2_never_unmodelled : forall F ts, M_read_gpos2_tokens F ts <> PUnmodelled.
Proof.
  intros F ts. unfold M_read_gpos2_tokens, strip.
  pose proof (nu_read_gpos2 F (end_line ts) (S (S (length ts))) ts) as H.
  destruct (read_gpos2 _ _ _ _) as [[a ts']|l| | |]; try discriminate. congruence.
Qed.

(* ---- the strict form of the totality statements ---- *)
Definition strict_result {A} (Lok : N -> Prop) (r : presult A) : Prop :=
  match r with
  | POk _ => True
  | PErr l => Lok l
  | PPanic | PFuel | PUnmodelled => False
  end.

Lemma strict_of : forall {A} Lok (r : presult A), total_xresult Lok r -> r <> PUnmodelled -> strict_result Lok r.
Proof. intros A Lok [a|l| | |] H N; cbn in *; auto. Qed.

Theorem read_gpos2_tokens_strict : forall F ts (Lok : N -> Prop),
  C19.ProofsTotal.total_font_ok F -> C19.ProofsTotal.toks_ok ts ->
  Forall (fun t => Lok (tline t)) ts -> Lok (end_line ts) ->
  strict_result Lok (M_read_gpos2_tokens F ts).
Proof.
  intros. apply strict_of; [apply read_gpos2_tokens_total; auto|apply read_gpos2_never_unmodelled].
Qed.

Theorem parse_gpos2_text_strict : forall U F text, C19.ProofsTotal.total_font_ok F ->
  strict_result (fun l => 1 <= l <= 1 + C19.ProofsTotal.newlines text) (M_parse_gpos2 U F text).
Proof.
  intros. apply strict_of; [apply parse_gpos2_total_text; auto|apply parse_gpos2_never_unmodelled].
Qed.
