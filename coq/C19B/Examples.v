(* C19B/Examples.v — non-vacuity: concrete fonts and lookup lists meeting every
   hypothesis of every theorem of Props.v, the conclusions evaluated on them,
   the text the model writes compared with the text ExplainGpos wrote for the
   same lookup list, and witnesses for what lies outside the language. *)
From Coq Require Import List NArith ZArith Bool Arith Lia.
From Coq Require String.
From Gen Require Import C19.
From C19 Require Import Model Wf.
From C19 Require ProofsTotal Examples.
From C19B Require Import Model Wf ProofsTotal ProofsStrict.
Import ListNotations.
Import K.
Local Open Scope N_scope.

Definition U0 : uclass := C19.Examples.U0.

(* .notdef A B C D x _ first ; cmap: A->1 B->2 *)
Definition F2 : font :=
  mkFont [[46;110;111;116;100;101;102]; [65]; [66]; [67]; [68]; [120]; [95]; [102;105;114;115;116]]
         [(65, 1); (66, 2)].
(* the main development's fonts: names with a quoted glyph, no names at all *)
Definition F0 : font := C19.Examples.F0.
Definition F1 : font := C19.Examples.F1.

Example F2_wf : font_wf U0 F2 = true.  Proof. vm_compute. reflexivity. Qed.
Example F2_total_ok : C19.ProofsTotal.total_font_ok F2.
Proof. split; [vm_compute; discriminate|repeat constructor; cbn; discriminate]. Qed.

Definition vr (x y dx : Z) : option vrec := Some (mkV x y dx).

(* glyph pairs: shared first glyphs, both / one / no value record, a pair of
   mapped glyphs (written as a string), glyphs named like grammar words *)
Definition S1 : pair_sub :=
  Gpos2_1 [ ((1, 2), (vr 1 0 0, None)); ((1, 3), (None, vr 0 2 0)); ((3, 3), (None, None));
            ((5, 6), (vr 0 0 (-3), vr 1 2 3)) ].
(* class pairs: class 2 of the first table is empty; a glyph named "first" in the coverage *)
Definition S2 : pair_sub :=
  Gpos2_2 [1; 2; 7] [(1, 1); (2, 3)] [(3, 1); (4, 1)]
    [ [(None, None); (vr 1 0 0, None)];
      [(None, vr 0 0 5); (None, None)];
      [(None, None); (None, None)];
      [(vr 1 1 1, vr 2 2 2); (None, None)] ].
(* no coverage, no classes: one row, one column *)
Definition S3 : pair_sub := Gpos2_2 [] [] [] [[(None, None)]].

Definition LL2 : list xlookup :=
  [ XPair 8 [S1; S2; S1]; XPair 6 [S2; S2]; XPair 0 [S3] ].

Example LL2_wf : forallb (gpos2_lookup_wf F2) LL2 = true.  Proof. vm_compute. reflexivity. Qed.
Example LL2_roundtrip : M_parse_gpos2 U0 F2 (M_explain_gpos2 U0 F2 LL2) = POk LL2.
Proof. vm_compute. reflexivity. Qed.
Example LL2_no_panic : M_explain_gpos2_panics LL2 = false.  Proof. vm_compute. reflexivity. Qed.

(* the two single-format theorems *)
Definition LL21 : list xlookup := [ XPair 14 [S1]; XPair 0 [S1; S1] ].
Definition LL22 : list xlookup := [ XPair 2 [S2; S3]; XPair 4 [S3] ].
Example LL21_wf : forallb (gpos2_1_lookup_wf F2) LL21 = true.  Proof. vm_compute. reflexivity. Qed.
Example LL22_wf : forallb (gpos2_2_lookup_wf F2) LL22 = true.  Proof. vm_compute. reflexivity. Qed.
Example LL21_roundtrip : M_parse_gpos2 U0 F2 (M_explain_gpos2 U0 F2 LL21) = POk LL21.
Proof. vm_compute. reflexivity. Qed.
Example LL22_roundtrip : M_parse_gpos2 U0 F2 (M_explain_gpos2 U0 F2 LL22) = POk LL22.
Proof. vm_compute. reflexivity. Qed.

(* the text is the one ExplainGpos wrote for this lookup list (scratch run of
   the Go code on the same font; the first and the last lookup of LL2) *)
Import String.
Local Open Scope string_scope.
Local Open Scope list_scope.
Definition txt (s : String.string) : list N := s2l s.
Definition nlt : list N := [10; 9].

Example LL2_text_first :
  M_explain_gpos2 U0 F2 [XPair 8 [S1; S2; S1]]
  = txt "GPOS2: -marks ""AB"" -> x+1, A C -> _ & y+2, C C -> _, x _ -> dx-3 & x+1 y+2 dx+3 ||" ++ nlt
    ++ txt "/A B first/" ++ nlt ++ txt "first A, , B;" ++ nlt ++ txt "second C D;" ++ nlt
    ++ txt "_, x+1;" ++ nlt ++ txt "_ & dx+5, _;" ++ nlt ++ txt "_, _;" ++ nlt
    ++ txt "x+1 y+1 dx+1 & x+2 y+2 dx+2, _; ||" ++ nlt
    ++ txt " ""AB"" -> x+1, A C -> _ & y+2, C C -> _, x _ -> dx-3 & x+1 y+2 dx+3".
Proof. vm_compute. reflexivity. Qed.
Example LL2_text_last :
  M_explain_gpos2 U0 F2 [XPair 0 [S3]]
  = txt "GPOS2:" ++ nlt ++ txt "//" ++ nlt ++ txt "first;" ++ nlt ++ txt "second;" ++ nlt ++ txt "_;".
Proof. vm_compute. reflexivity. Qed.

(* GPOS4 alone (main model) and lists mixing GPOS1, 2, 3, 4 *)
Example LP4_wf : forallb (gpos4_lookup_wf F0)
    [nth 0 C19.Examples.LP4 (mkLookup 0 0 []); nth 2 C19.Examples.LP4 (mkLookup 0 0 [])] = true.
Proof. vm_compute. reflexivity. Qed.
Example LP4_roundtrip :
  let ll := [nth 0 C19.Examples.LP4 (mkLookup 0 0 []); nth 2 C19.Examples.LP4 (mkLookup 0 0 [])] in
  M_parse U0 F0 (M_explain_gpos U0 F0 ll) = POk ll.
Proof. vm_compute. reflexivity. Qed.

(* over F0 (glyph 1 is mapped from the double quote and from A, glyph 8 is named e-acute) *)
Definition S4 : pair_sub :=
  Gpos2_1 [ ((1, 1), (vr (-32768) 32767 0, vr 0 0 1)); ((1, 2), (None, None)); ((6, 7), (vr 0 1 0, None)); ((8, 9), (None, vr 7 0 0)) ].
Definition S5 : pair_sub :=
  Gpos2_2 [2; 8] [(1, 2); (6, 1); (8, 2)] [(9, 3)] [ [(None, None); (None, None); (None, None); (vr 1 0 0, None)];
                                                     [(None, None); (None, None); (None, None); (None, None)];
                                                     [(None, vr 0 0 (-1)); (None, None); (None, None); (None, None)] ].
Definition LLX : list xlookup :=
  map XOld C19.Examples.LP ++ [XPair 12 [S5; S4]] ++ map XOld C19.Examples.LP3 ++ [XPair 0 [S4]; XPair 2 [S5]]
    ++ map XOld C19.Examples.LP4.
Example LLX_wf : forallb (xgpos_lookup_wf F0) LLX = true.  Proof. vm_compute. reflexivity. Qed.
Example LLX_roundtrip : M_parse_gpos2 U0 F0 (M_explain_gpos2 U0 F0 LLX) = POk LLX.
Proof. vm_compute. reflexivity. Qed.
(* ... and over the font without names and without cmap *)
Example LLX_wf_unnamed : forallb (xgpos_lookup_wf F1) LLX = true.  Proof. vm_compute. reflexivity. Qed.
Example LLX_roundtrip_unnamed : M_parse_gpos2 U0 F1 (M_explain_gpos2 U0 F1 LLX) = POk LLX.
Proof. vm_compute. reflexivity. Qed.
Example LLX_has_all_types :
  map (fun lk => match lk with XOld o => l_type o | XPair _ _ => 2 end) LLX = [1; 1; 2; 3; 1; 3; 2; 2; 4; 1; 4].
Proof. vm_compute. reflexivity. Qed.

(* ---- outside the language: the hypotheses are needed ---- *)

(* an all-zero value record is written "_" and read back as nil *)
Example zero_record_not_expressible :
  let l := [XPair 0 [Gpos2_1 [((1, 2), (vr 1 0 0, vr 0 0 0))]]] in
  gpos2_lookup_wf F2 (hd (XPair 0 []) l) = false
  /\ M_explain_gpos2 U0 F2 l = txt "GPOS2: ""AB"" -> x+1 & _"
  /\ M_parse_gpos2 U0 F2 (M_explain_gpos2 U0 F2 l) = POk [XPair 0 [Gpos2_1 [((1, 2), (vr 1 0 0, None))]]].
Proof. vm_compute. repeat split. Qed.

(* an empty pair table has no syntax *)
Example empty_pair_table_refuted :
  let l := [XPair 4 [Gpos2_1 []]] in
  gpos2_lookup_wf F2 (hd (XPair 0 []) l) = false
  /\ M_explain_gpos2 U0 F2 l = txt "GPOS2: -ligs"
  /\ M_parse_gpos2 U0 F2 (M_explain_gpos2 U0 F2 l) = PErr 1.
Proof. vm_compute. repeat split. Qed.

(* a matrix smaller than the class counts: ExplainGpos indexes out of range *)
Example short_matrix_panics :
  M_explain_gpos2_panics [XPair 0 [Gpos2_2 [] [(1, 1)] [] [[(None, None)]]]] = true.
Proof. vm_compute. reflexivity. Qed.

(* a class-0 entry in a class table is not written *)
Example class0_entry_lost :
  let l := [XPair 0 [Gpos2_2 [] [(1, 0); (2, 1)] [] [[(None, None)]; [(None, None)]]]] in
  gpos2_lookup_wf F2 (hd (XPair 0 []) l) = false
  /\ M_parse_gpos2 U0 F2 (M_explain_gpos2 U0 F2 l) = POk [XPair 0 [Gpos2_2 [] [(2, 1)] [] [[(None, None)]; [(None, None)]]]].
Proof. vm_compute. repeat split. Qed.

(* ---- the code before the repair fixes/C19-gpos2-class-count.diff ---- *)
(* the class of the 65536th list was uint16(65536) = 0: an entry Explain does
   not write (class0_entry_lost), so the parsed lookup was not a fixed point
   of Explain -> Parse; the 65537th list was merged into class 1 *)
Example old_class_counter_wrapped :
  cls_add (65536 mod 65536) [1] [] = Some [(1, 0)]
  /\ cls_add (65537 mod 65536) [2] [(1, 1)] = Some [(1, 1); (2, 1)].
Proof. vm_compute. split; reflexivity. Qed.
(* now a glyph in such a list is an error on the line of the next item *)
Example class_counter_guard :
  class_list_step F2 1 5 65536 [] [mkTok TIdent [65] 7; mkTok TSemi [59] 7] = PErr 7
  /\ class_list_step F2 1 5 65535 [] [mkTok TIdent [65] 7; mkTok TSemi [59] 7] = POk ([(1, 65535)], [mkTok TSemi [59] 7])
  /\ class_list_step F2 1 5 65536 [] [mkTok TSemi [59] 7] = POk ([], [mkTok TSemi [59] 7]).
Proof. vm_compute. repeat split. Qed.

(* ---- the parser on texts Explain never writes ---- *)
Example later_pairs_replace_earlier :
  M_parse_gpos2 U0 F2 (txt "GPOS2 A B -> x+1, A B -> y+2 x+3 x+4 & & _ _") = PErr 1
  /\ M_parse_gpos2 U0 F2 (txt "GPOS2 A B -> x+1, A B -> y+2 x+3 x+4 &")
     = POk [XPair 0 [Gpos2_1 [((1, 2), (vr 4 2 0, None))]]].
Proof. vm_compute. repeat split. Qed.

Example matrix_entries_may_be_missing :
  M_parse_gpos2 U0 F2 (txt "GPOS2: /A/ first , , A; second B, ; x+1 x+2 & & _ _")
  = POk [XPair 0 [Gpos2_2 [1] [(1, 3)] [(2, 1)]
           [[(vr 2 0 0, None); (None, None)]; [(None, None); (None, None)]; [(None, None); (None, None)];
            [(None, None); (None, None)]]]].
Proof. vm_compute. reflexivity. Qed.

Example errors_carry_the_line :
  M_parse_gpos2 U0 F2 (txt "GPOS2:
/A/
first A
") = PErr 4
  /\ M_parse_gpos2 U0 F2 (txt "GPOS2: /A/ first A A;") = PErr 1
  /\ M_parse_gpos2 U0 F2 (txt "
GPOS2: A") = PErr 2
  /\ M_parse_gpos2 U0 F2 (txt "GPOS2: A B -> x+32768") = PErr 1.
Proof. vm_compute. repeat split. Qed.

(* the totality theorem's hypotheses on a concrete item stream *)
Example total_hyps_example :
  let ts := M_lex U0 (txt "GPOS2: /A/ first A; second") in
  C19.ProofsTotal.toks_ok ts /\ strict_result (fun l => l = 1) (M_parse_gpos2_tokens F2 ts).
Proof. split; [apply C19.ProofsTotal.lex_toks_ok|vm_compute; reflexivity]. Qed.
