(* C19B/Wf.v — which GPOS2 lookups the round-trip theorems speak about: the
   lookups the language can express, i.e. the form the parser produces.
   Boolean definitions (decidable, see Examples.v). *)
From Coq Require Import List NArith ZArith Bool Arith.
From Gen Require Import C19.
From C19 Require Import Model Wf.
From C19B Require Import Model.
Import ListNotations.
Local Open Scope N_scope.

(* strictly ascending (Left, Right) keys: the list is a finite map *)
Fixpoint pairs_ascendingb (l : list (pkey * padj)) : bool :=
  match l with
  | [] => true
  | x :: r => match r with [] => true | y :: _ => pkey_ltb (fst x) (fst y) end && pairs_ascendingb r
  end.

Section Wf2.
  Variable F : font.

  (* both value records as the parser produces them: nil, or some non-zero
     field, fields in the int16 range *)
  Definition padj_ok (p : padj) : bool := vrec_ok (fst p) && vrec_ok (snd p).

  (* a class table the parser can produce: a finite map from glyphs of the
     font to classes 1 .. 65535 *)
  Definition cls_ok (m : list (N * N)) : bool :=
    ascendingb (map fst m) && gids_ok F (map fst m)
    && forallb (fun p => (1 <=? snd p) && (snd p <=? 65535)) m.

  Definition pair_wf (s : pair_sub) : bool :=
    match s with
    | Gpos2_1 pairs =>
        negb (is_nil pairs) && pairs_ascendingb pairs
        && forallb (fun e => (fst (fst e) <? num_glyphs F) && (snd (fst e) <? num_glyphs F) && padj_ok (snd e)) pairs
    | Gpos2_2 cov c1 c2 adj =>
        ascendingb cov && gids_ok F cov && cls_ok c1 && cls_ok c2
        && (length adj =? cls_count c1)%nat
        && forallb (fun row => (length row =? cls_count c2)%nat && forallb padj_ok row) adj
    end.

  Definition is_fmt1 (s : pair_sub) : bool := match s with Gpos2_1 _ => true | _ => false end.
  Definition is_fmt2 (s : pair_sub) : bool := match s with Gpos2_2 _ _ _ _ => true | _ => false end.

  (* GPOS2: one or more subtables, glyph pairs and class pairs mixed *)
  Definition gpos2_lookup_wf (lk : xlookup) : bool :=
    match lk with
    | XPair fl subs => flags_ok fl && negb (is_nil subs) && forallb pair_wf subs
    | XOld _ => false
    end.
  (* ... all of them in format 1 (glyph pairs) / format 2 (class pairs) *)
  Definition gpos2_1_lookup_wf (lk : xlookup) : bool :=
    gpos2_lookup_wf lk && match lk with XPair _ subs => forallb is_fmt1 subs | _ => false end.
  Definition gpos2_2_lookup_wf (lk : xlookup) : bool :=
    gpos2_lookup_wf lk && match lk with XPair _ subs => forallb is_fmt2 subs | _ => false end.

  (* GPOS1, GPOS3, GPOS4 as in the main development *)
  Definition old_gpos_lookup_wf (lk : xlookup) : bool :=
    match lk with XOld l => gpos_lookup_wf_all F l | XPair _ _ => false end.
  Definition xgpos4_lookup_wf (lk : xlookup) : bool :=
    match lk with XOld l => gpos4_lookup_wf F l | XPair _ _ => false end.

  (* GPOS1-4 *)
  Definition xgpos_lookup_wf (lk : xlookup) : bool := old_gpos_lookup_wf lk || gpos2_lookup_wf lk.
End Wf2.
