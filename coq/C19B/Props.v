(* C19B/Props.v — part B of property C19: the theorems.  Nothing else. *)
From Coq Require Import List NArith ZArith Bool Arith Lia.
From Gen Require Import C19.
From C19 Require Import Model Wf.
From C19 Require ProofsTotal.
From C19B Require Import Model Wf ProofsParse ProofsCor ProofsTotal ProofsStrict ProofsLink.
Import ListNotations.
Local Open Scope N_scope.

(* ---- faithful notation: GPOS2 ---- *)

(* Pair adjustment lookups whose subtables are glyph-pair tables (Gpos2_1):
   for every unicode classification U, every font whose glyph names are
   distinct identifiers and whose cmap is a finite map into its (at most
   65535) glyphs (the hypotheses of the main development), and every list of
   such lookups in the form the language can express (one or more non-empty
   pair tables per lookup, pairs of glyphs of the font, each value record nil
   or with a non-zero XPlacement / YPlacement / XAdvance in the int16 range,
   any subset of the three lookup flags): parsing the text written by
   ExplainGpos gives back exactly the lookup list.  No bound on the number of
   lookups, subtables or pairs. *)
Theorem parse_explain_id_gpos2_1 :
  forall (U : uclass) (F : font) (ll : list xlookup),
    font_wf U F = true ->
    Forall (fun lk => gpos2_1_lookup_wf F lk = true) ll ->
    M_parse_gpos2 U F (M_explain_gpos2 U F ll) = POk ll.
Proof. exact parse_explain_gpos2_1. Qed.
Print Assumptions parse_explain_id_gpos2_1.

(* ... whose subtables are class-pair tables (Gpos2_2): a coverage set, two
   class tables (finite maps from glyphs to classes 1..65535, empty classes
   allowed), and the class1Count x class2Count matrix of pair adjustments *)
Theorem parse_explain_id_gpos2_2 :
  forall (U : uclass) (F : font) (ll : list xlookup),
    font_wf U F = true ->
    Forall (fun lk => gpos2_2_lookup_wf F lk = true) ll ->
    M_parse_gpos2 U F (M_explain_gpos2 U F ll) = POk ll.
Proof. exact parse_explain_gpos2_2. Qed.
Print Assumptions parse_explain_id_gpos2_2.

(* ... both formats mixed inside one lookup, separated by "||" *)
Theorem parse_explain_id_gpos2 :
  forall (U : uclass) (F : font) (ll : list xlookup),
    font_wf U F = true ->
    Forall (fun lk => gpos2_lookup_wf F lk = true) ll ->
    M_parse_gpos2 U F (M_explain_gpos2 U F ll) = POk ll.
Proof. exact parse_explain_gpos2. Qed.
Print Assumptions parse_explain_id_gpos2.

(* ---- GPOS4 at full strength ---- *)

(* mark-to-base attachment lookups, in the main development's own model of
   Parse and ExplainGpos (M_parse, M_explain_gpos): mark glyphs with class and
   anchor, base glyphs with one anchor per class, mark classes 0..n-1 all
   used, one or more subtables.  (The main development proves this as one
   case of its GPOS1/3/4 theorem; here it is the statement for GPOS4 alone.) *)
Theorem parse_explain_id_gpos4 :
  forall (U : uclass) (F : font) (ll : list lookup),
    font_wf U F = true ->
    Forall (fun lk => gpos4_lookup_wf F lk = true) ll ->
    M_parse U F (M_explain_gpos U F ll) = POk ll.
Proof. exact parse_explain_gpos4_main. Qed.
Print Assumptions parse_explain_id_gpos4.

(* ---- GPOS1-4 together ---- *)

(* lookup lists mixing single adjustment (GPOS1), pair adjustment (GPOS2),
   cursive attachment (GPOS3) and mark-to-base attachment (GPOS4) lookups in
   any order: this is the whole GPOS grammar of the language *)
Theorem parse_explain_id_gpos_1_to_4 :
  forall (U : uclass) (F : font) (ll : list xlookup),
    font_wf U F = true ->
    Forall (fun lk => xgpos_lookup_wf F lk = true) ll ->
    M_parse_gpos2 U F (M_explain_gpos2 U F ll) = POk ll.
Proof. exact parse_explain_xgpos. Qed.
Print Assumptions parse_explain_id_gpos_1_to_4.

(* the model of this part agrees with the main development's M_parse on every
   text on which the latter gives an answer at all (it stops with
   "unmodelled" at the keyword GPOS2) *)
Theorem parse_gpos2_extends_main :
  forall (U : uclass) (F : font) (text : list N),
    match M_parse U F text with
    | POk ll => M_parse_gpos2 U F text = POk (map XOld ll)
    | PErr l => M_parse_gpos2 U F text = PErr l
    | PPanic => M_parse_gpos2 U F text = PPanic
    | PFuel => M_parse_gpos2 U F text = PFuel
    | PUnmodelled => True
    end.
Proof. exact parse_gpos2_extends_parse. Qed.
Print Assumptions parse_gpos2_extends_main.

(* ---- total notation ---- *)

(* readGpos2 on ANY item stream whose string items carry both quotes (what the
   lexer guarantees: lexer_items_well_formed of the main development), for
   every font with at most 65535 glyphs and no cmap entry for glyph 65535:
   a lookup, or an error on an admissible line (strict_result: nothing else);
   never a Go panic, and the model's fuel (number of items + 2) is never
   exhausted.  The
   class1Count x class2Count matrix is read by loops over the class counts,
   which need no fuel. *)
Theorem parse_gpos2_total :
  forall (F : font) (ts : list token) (Lok : N -> Prop),
    C19.ProofsTotal.total_font_ok F -> C19.ProofsTotal.toks_ok ts ->
    Forall (fun t => Lok (tline t)) ts -> Lok (end_line ts) ->
    strict_result Lok (M_read_gpos2_tokens F ts).
Proof. exact read_gpos2_tokens_strict. Qed.
Print Assumptions parse_gpos2_total.

(* Parse of ANY text with every keyword of the language (GSUB1-6, GPOS1-4):
   lookups, or an error whose line lies inside the text (1 .. 1 + number of
   newlines); this model has no "unmodelled" outcome left *)
Theorem parse_total_all_keywords :
  forall (U : uclass) (F : font) (text : list N),
    C19.ProofsTotal.total_font_ok F ->
    strict_result (fun l => 1 <= l <= 1 + C19.ProofsTotal.newlines text) (M_parse_gpos2 U F text).
Proof. exact parse_gpos2_text_strict. Qed.
Print Assumptions parse_total_all_keywords.
