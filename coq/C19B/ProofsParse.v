(* C19B/ProofsParse.v — the parser model maps the item stream of
   C19B/Render.v back to the lookup list it was rendered from.  The glyph
   lists, value records, lookup headers and the whole GPOS1 / GPOS3 / GPOS4
   readers are handled by the lemmas of the main development. *)
From Coq Require Import List NArith ZArith Bool Arith Lia ZifyBool ZifyNat ZifyN.
From Gen Require Import C19.
From C19 Require Import Model Wf Util Render ProofsExplain ProofsParse.
From C19B Require Import Model Wf Render.
From C19B Require ProofsExplain.
Import ListNotations.
Import K.
Local Open Scope N_scope.

Arguments digits : simpl never.
Arguments name_of : simpl never.
Arguments digits_signed : simpl never.
Arguments by_name : simpl never.

(* ------------------------------------------------------------------ *)
(* Finite maps                                                         *)

Definition pkey_lt (a b : pkey) : Prop := fst a < fst b \/ (fst a = fst b /\ snd a < snd b).

Lemma pkey_ltb_spec : forall a b, pkey_ltb a b = true <-> pkey_lt a b.
Proof. intros [a1 a2] [b1 b2]. unfold pkey_ltb, pkey_lt. cbn [fst snd]. lia. Qed.

Lemma pkey_lt_trans : forall a b c, pkey_lt a b -> pkey_lt b c -> pkey_lt a c.
Proof. intros [a1 a2] [b1 b2] [c1 c2]. unfold pkey_lt. cbn [fst snd]. lia. Qed.

Fixpoint pairs_asc (l : list (pkey * padj)) : Prop :=
  match l with
  | [] => True
  | x :: r => match r with [] => True | y :: _ => pkey_lt (fst x) (fst y) end /\ pairs_asc r
  end.

Lemma pairs_ascb_spec : forall l, pairs_ascendingb l = true <-> pairs_asc l.
Proof.
  induction l as [|x r IH]; cbn [pairs_ascendingb pairs_asc]; [tauto|].
  rewrite andb_true_iff, IH. destruct r as [|y r']; [tauto|]. rewrite pkey_ltb_spec. tauto.
Qed.

Lemma pairs_asc_tail : forall x l, pairs_asc (x :: l) -> pairs_asc l.
Proof. intros x l [_ H]. exact H. Qed.

Lemma pairs_asc_lt_all : forall l x, pairs_asc (x :: l) -> Forall (fun y => pkey_lt (fst x) (fst y)) l.
Proof.
  induction l as [|y r IH]; intros x H; [constructor|].
  destruct H as [H1 H2]. constructor; [exact H1|].
  assert (H3 : pairs_asc (x :: r)).
  { cbn [pairs_asc] in *. destruct r as [|z r']; [tauto|]. destruct H2 as [H2 H4]. split; [|exact H4].
    eapply pkey_lt_trans; eauto. }
  apply IH. exact H3.
Qed.

Lemma pm_set_new : forall k v m, Forall (fun e => pkey_lt (fst e) k) m -> pm_set k v m = m ++ [(k, v)].
Proof.
  intros k v. induction m as [|[k' v'] r IH]; intros H; [reflexivity|].
  inversion H as [|? ? Hk Hr]; subst. cbn [fst] in Hk. cbn [pm_set app].
  assert (E1 : pkey_eqb k' k = false).
  { destruct k as [a b], k' as [a' b']. unfold pkey_eqb, pkey_lt in *. cbn [fst snd] in *. lia. }
  assert (E2 : pkey_ltb k k' = false).
  { destruct k as [a b], k' as [a' b']. unfold pkey_ltb, pkey_lt in *. cbn [fst snd] in *. lia. }
  rewrite E1, E2, IH by exact Hr. reflexivity.
Qed.

(* class tables: strictly ascending glyphs *)
Lemma has_key_false : forall {B} g (m : list (N * B)), Forall (fun e => fst e <> g) m -> has_key g m = false.
Proof.
  intros B g m H. unfold has_key. induction H as [|[k v] r Hk Hr IH]; cbn [assoc]; [reflexivity|].
  cbn [fst] in Hk. assert (E : (k =? g) = false) by lia. rewrite E. exact IH.
Qed.

Lemma cls_add_under : forall c L x M,
  Forall (fun g => fst x < g) L ->
  cls_add c L (x :: M) = option_map (cons x) (cls_add c L M).
Proof.
  intros c L [xg xc]. induction L as [|g L IH]; intros M H; [reflexivity|].
  inversion H as [|? ? Hg HL]; subst. cbn [fst] in Hg. cbn [cls_add].
  unfold has_key at 1. cbn [assoc]. assert (E : (xg =? g) = false) by lia. rewrite E.
  fold (has_key g M). destruct (has_key g M); [reflexivity|].
  cbn [cm_ins]. assert (E2 : (g <? xg) = false) by lia. rewrite E2. apply IH. exact HL.
Qed.

Lemma cm_ins_front : forall g c M, Forall (fun e => g < fst e) M -> cm_ins g c M = (g, c) :: M.
Proof.
  intros g c M H. destruct M as [|[g' c'] r]; [reflexivity|]. inversion H; subst. cbn [fst] in *.
  cbn [cm_ins]. assert (E : (g <? g') = true) by lia. rewrite E. reflexivity.
Qed.

(* adding the glyphs selected by q, all of class c, to the part of the table
   selected by p *)
Lemma cls_add_filter : forall c (T : list (N * N)) (p q : N * N -> bool),
  ascending (map fst T) ->
  (forall e, In e T -> q e = true -> p e = false /\ snd e = c) ->
  cls_add c (map fst (filter q T)) (filter p T) = Some (filter (fun e => p e || q e) T).
Proof.
  intros c. induction T as [|x T IH]; intros p q Ha Hq; [reflexivity|].
  assert (Ha' : ascending (map fst T)) by (apply (ascending_tail (fst x)); exact Ha).
  assert (HL : Forall (fun y => fst x < y) (map fst T)) by (apply ascending_lt_all; exact Ha).
  assert (Hq' : forall e, In e T -> q e = true -> p e = false /\ snd e = c)
    by (intros e He; apply Hq; right; exact He).
  assert (Hsel : forall (f : N * N -> bool), Forall (fun g => fst x < g) (map fst (filter f T))).
  { intros f. rewrite Forall_forall in *. intros g Hg. apply HL. apply in_map_iff in Hg.
    destruct Hg as (e & Ee & He). apply filter_In in He. apply in_map_iff. exists e. tauto. }
  assert (Hsel2 : forall (f : N * N -> bool), Forall (fun e => fst x < fst e) (filter f T)).
  { intros f. rewrite Forall_forall in *. intros e He. apply filter_In in He. apply HL. apply in_map. tauto. }
  cbn [filter]. destruct (q x) eqn:Eq.
  - destruct (Hq x (or_introl eq_refl) Eq) as [Ep Ec]. rewrite Ep. cbn [orb map cls_add].
    rewrite has_key_false.
    2:{ eapply Forall_impl; [|apply (Hsel2 p)]. intros e He. cbn beta in He. lia. }
    rewrite cm_ins_front by apply Hsel2.
    destruct x as [xg xc]. cbn [fst snd] in *. subst xc.
    rewrite cls_add_under by (apply Hsel). rewrite IH by auto. reflexivity.
  - rewrite orb_false_r. destruct (p x) eqn:Ep.
    + rewrite cls_add_under by (apply Hsel). rewrite IH by auto. reflexivity.
    + apply IH; auto.
Qed.

(* ---- the largest class ---- *)
Lemma cls_max_ge : forall m e, In e m -> snd e <= cls_max m.
Proof.
  induction m as [|x m IH]; intros e H; [contradiction|]. cbn [cls_max fold_right].
  fold (cls_max m). destruct H as [H|H]; [subst; lia|]. specialize (IH e H). lia.
Qed.

Lemma cls_max_in : forall m, 0 < cls_max m -> exists e, In e m /\ snd e = cls_max m.
Proof.
  induction m as [|x m IH]; intros H; [cbn in H; lia|]. cbn [cls_max fold_right] in *. fold (cls_max m) in *.
  destruct (N.max_spec (snd x) (cls_max m)) as [[A B]|[A B]]; rewrite B in *.
  - destruct (IH H) as (e & He & Ee). exists e. split; [right; exact He|exact Ee].
  - exists x. split; [left; reflexivity|reflexivity].
Qed.

Lemma filter_false : forall {A} (l : list A), filter (fun _ => false) l = [].
Proof. induction l; cbn; auto. Qed.

Lemma filter_all : forall {A} (f : A -> bool) (l : list A), (forall x, In x l -> f x = true) -> filter f l = l.
Proof.
  induction l as [|x l IH]; intros H; [reflexivity|]. cbn [filter]. rewrite (H x (or_introl eq_refl)).
  rewrite IH; auto. intros y Hy. apply H. right. exact Hy.
Qed.

(* the glyph lists of the classes s, s+1, ..., s+k-1 *)
Definition clists (m : list (N * N)) (s k : nat) : list (list N) :=
  map (fun c => class_glyphs (N.of_nat c) m) (seq s k).

Section Parse2.
  Variable U : uclass.
  Variable F : font.
  Hypothesis HF : font_wf U F = true.
  Variable endl : N.

  Notation norm := (norm endl).
  Ltac fuel_tac :=
    repeat (progress (cbn [length app] in *; repeat (rewrite app_length in * ))); lia.
  Ltac split_wf H := repeat (apply andb_true_iff in H; destruct H as [H ?]).

  (* ---- pair adjustments ---- *)
  Lemma read_padj_ok : forall pa l fuel ts0,
    padj_ok pa = true ->
    ityp_eqb (ttyp (peek_tok endl ts0)) TIdent = false ->
    ityp_eqb (ttyp (peek_tok endl ts0)) TAmp = false ->
    (length (padj_toks pa l) < fuel)%nat ->
    exists ts', read_pair_adjust endl fuel (padj_toks pa l ++ ts0) = POk (pa, ts') /\ norm ts' = norm ts0.
  Proof.
    intros [a1 a2] l fuel ts0 Hp Hi Ha Hf. unfold padj_ok in Hp. cbn [fst snd] in Hp.
    apply andb_true_iff in Hp. destruct Hp as [H1 H2].
    unfold padj_toks, read_pair_adjust in *. cbn [fst snd] in *. destruct a2 as [v2|].
    - rewrite <- app_assoc. cbn [app].
      destruct (value_ok U F endl a1 l fuel (t_amp l :: value_toks (Some v2) l ++ ts0) H1 eq_refl) as (ts1 & E1 & N1);
        [clear - Hf; fuel_tac|].
      rewrite norm_cons_ne in N1 by reflexivity. apply norm_eq_cons in N1. subst ts1.
      unfold bind at 1. rewrite E1. unfold bind at 1. rewrite optional_hit by reflexivity.
      destruct (value_ok U F endl (Some v2) l fuel ts0 H2 Hi) as (ts2 & E2 & N2); [clear - Hf; fuel_tac|].
      unfold bind at 1. rewrite E2. unfold ret. exists ts2. auto.
    - rewrite app_nil_r in *.
      destruct (value_ok U F endl a1 l fuel ts0 H1 Hi Hf) as (ts1 & E1 & N1).
      unfold bind at 1. rewrite E1. unfold bind at 1.
      rewrite optional_miss_n by (rewrite (peek_typ_same endl ts1 ts0 N1); exact Ha).
      unfold ret. eexists. split; [reflexivity|]. rewrite norm_idem. exact N1.
  Qed.

  (* ---- shapes ---- *)
  Definition is_glyph_typ (ty : ityp) : bool :=
    match ty with TInt | TIdent | TString => true | _ => false end.

  Lemma name_tok_gt : forall g l, is_glyph_typ (ttyp (name_tok F g l)) = true.
  Proof. intros. unfold name_tok. destruct (is_nil (raw_name F g)); reflexivity. Qed.
  Lemma glyph_tok_gt : forall g l, is_glyph_typ (ttyp (glyph_tok U F g l)) = true.
  Proof.
    intros. unfold glyph_tok. destruct (list_eqb _ _); [apply name_tok_gt|].
    destruct (negb _); [reflexivity|apply name_tok_gt].
  Qed.
  Lemma gl_toks_head_gt : forall g gs l, exists t ts,
    gl_toks U F (g :: gs) l = t :: ts /\ is_glyph_typ (ttyp t) = true.
  Proof.
    intros g gs l. destruct gs as [|g' gs].
    - cbn [gl_toks]. eexists. eexists. split; [reflexivity|apply glyph_tok_gt].
    - unfold gl_toks. destruct (forallb _ _).
      + eexists. eexists. split; reflexivity.
      + cbn [map]. eexists. eexists. split; [reflexivity|apply name_tok_gt].
  Qed.

  Lemma pairs_toks_false : forall e es l,
    pairs_toks U F (e :: es) false l = t_comma l :: pairs_toks U F (e :: es) true l.
  Proof. intros [[a b] pa] es l. reflexivity. Qed.

  (* what may follow the pairs of a Gpos2_1 subtable *)
  Definition ends_pairs (ts0 : list token) : Prop :=
    let ty := ttyp (peek_tok endl ts0) in
    ityp_eqb ty TIdent = false /\ ityp_eqb ty TComma = false /\ ityp_eqb ty TAmp = false.

  Definition pair_ok2 (e : pkey * padj) : Prop :=
    fst (fst e) < num_glyphs F /\ snd (fst e) < num_glyphs F /\ padj_ok (snd e) = true.

  (* ---- format 1 ---- *)
  Lemma gpos2_1_loop_ok : forall es l fuel res ts0,
    es <> [] -> pairs_asc es -> Forall pair_ok2 es ->
    (forall d e, In d res -> In e es -> pkey_lt (fst d) (fst e)) ->
    ends_pairs ts0 ->
    (length (pairs_toks U F es true l ++ ts0) < fuel)%nat ->
    exists ts', gpos2_1_loop F endl fuel res (pairs_toks U F es true l ++ ts0) = POk (res ++ es, ts')
                /\ norm ts' = norm ts0.
  Proof.
    induction es as [|[[a b] pa] es IH]; intros l fuel res ts0 Hn Ha He Hres Hts Hf; [congruence|].
    destruct fuel as [|fu]; [cbn in Hf; lia|].
    inversion He as [|? ? Hab Hes]; subst. destruct Hab as (Hga & Hgb & Hpa). cbn [fst snd] in Hga, Hgb, Hpa.
    cbn [pairs_toks app gpos2_1_loop]. rewrite <- !app_assoc. cbn [app].
    assert (Hgl : gids_ok F [a; b] = true).
    { unfold gids_ok. cbn [forallb]. apply andb_true_iff. split; [lia|]. apply andb_true_iff. split; [lia|reflexivity]. }
    unfold bind at 1. rewrite (rgl_gl U F HF endl [a; b] l (S fu)); auto; [|clear - Hf; cbn [pairs_toks] in Hf; fuel_tac].
    unfold bind at 1. rewrite required_hit by reflexivity.
    assert (Hnew : Forall (fun d => pkey_lt (fst d) (a, b)) res).
    { apply Forall_forall. intros d Hd. apply (Hres d (a, b, pa)); auto. left. reflexivity. }
    destruct Hts as (T1 & T2 & T3).
    destruct es as [|e' es'].
    - cbn [pairs_toks app]. rewrite app_nil_r.
      destruct (read_padj_ok pa l (S fu) ts0 Hpa T1 T3) as (ts' & Ev & En);
        [clear - Hf; cbn [pairs_toks] in Hf; fuel_tac|].
      unfold bind at 1. rewrite Ev. unfold bind at 1.
      rewrite optional_miss_n by (rewrite (peek_typ_same endl ts' ts0 En); exact T2).
      unfold ret. rewrite pm_set_new by exact Hnew.
      eexists. split; [reflexivity|]. rewrite norm_idem. exact En.
    - rewrite pairs_toks_false. rewrite <- ?app_assoc. cbn [app].
      destruct (read_padj_ok pa l (S fu) (t_comma l :: pairs_toks U F (e' :: es') true l ++ ts0) Hpa eq_refl eq_refl)
        as (ts' & Ev & En); [clear - Hf; cbn [pairs_toks] in Hf; fuel_tac|].
      rewrite norm_cons_ne in En by reflexivity. apply norm_eq_cons in En. subst ts'.
      unfold bind at 1. rewrite Ev. unfold bind at 1. rewrite optional_hit by reflexivity.
      unfold bind at 1.
      assert (Hopt : optional endl TEOL (pairs_toks U F (e' :: es') true l ++ ts0)
                     = POk (false, pairs_toks U F (e' :: es') true l ++ ts0)).
      { destruct e' as [[a' b'] pa']. cbn [pairs_toks app].
        destruct (gl_toks_head_gt a' [b'] l) as (t & ts & Et & Ht). rewrite Et. cbn [app].
        apply optional_miss; destruct (ttyp t); cbn in Ht; try discriminate; reflexivity. }
      rewrite Hopt. rewrite pm_set_new by exact Hnew.
      destruct (IH l fu (res ++ [(a, b, pa)]) ts0) as (ts'' & E2 & N2); auto.
      + discriminate.
      + apply (pairs_asc_tail (a, b, pa)). exact Ha.
      + intros d e Hd Hin. apply in_app_or in Hd. destruct Hd as [Hd|Hd].
        * apply Hres; auto. right. exact Hin.
        * destruct Hd as [Hd|[]]. subst d. cbn [fst].
          pose proof (pairs_asc_lt_all _ _ Ha) as HL. rewrite Forall_forall in HL. apply (HL e Hin).
      + repeat split; assumption.
      + clear - Hf. destruct e' as [[a' b'] pa']. cbn [pairs_toks] in *. fuel_tac.
      + exists ts''. split; auto. rewrite <- app_assoc in E2. exact E2.
  Qed.

  (* ---- class lists ---- *)
  Lemma clists_tail_head : forall ls l rest, exists t0 r,
    clists_toks U F ls false l ++ t_semi l :: rest = t0 :: r /\ is_stop (ttyp t0) = true.
  Proof.
    intros [|gg ls] l rest; cbn [clists_toks app]; eexists; eexists; split; reflexivity.
  Qed.

  Lemma class_rest_ok : forall k s m acc l fuel rest,
    ascending (map fst m) -> gids_ok F (map fst m) = true ->
    N.of_nat (s + k) <= 65536 ->
    acc = filter (fun e => snd e <? N.of_nat s) m ->
    (length (clists_toks U F (clists m s k) false l) + 1 < fuel)%nat ->
    class_lists_rest F endl fuel (N.of_nat s) acc (clists_toks U F (clists m s k) false l ++ t_semi l :: rest)
    = POk (filter (fun e => snd e <? N.of_nat (s + k)) m, rest).
  Proof.
    induction k as [|k IH]; intros s m acc l fuel rest Ha Hg Hb Eacc Hf;
      (destruct fuel as [|fu]; [lia|]).
    - cbn [clists seq map clists_toks app class_lists_rest].
      unfold bind at 1. rewrite optional_hit by reflexivity. unfold ret.
      rewrite Nat.add_0_r. subst acc. reflexivity.
    - unfold clists in *. cbn [seq map clists_toks app class_lists_rest] in *.
      fold (clists m (S s) k) in *.
      unfold bind at 1. rewrite optional_miss by reflexivity.
      unfold bind at 1. rewrite required_hit by reflexivity.
      unfold bind at 1. unfold class_list_step at 1. unfold bind at 1.
      rewrite <- app_assoc.
      destruct (clists_tail_head (clists m (S s) k) l rest) as (t0 & r & Et & Hst). rewrite Et.
      rewrite (rgl_gl U F HF endl); auto;
        [|apply ProofsExplain.class_glyphs_ok; exact Hg|clear - Hf; fuel_tac].
      rewrite <- Et.
      assert (Em : N.of_nat s mod 65536 = N.of_nat s) by (apply N.mod_small; lia).
      assert (Eg : (65535 <? N.of_nat s) = false) by lia.
      rewrite Eg, andb_false_r.
      rewrite Em. subst acc. unfold class_glyphs.
      rewrite (cls_add_filter (N.of_nat s) m (fun e => snd e <? N.of_nat s) (fun p => snd p =? N.of_nat s)); auto.
      2:{ intros e _ He. split; lia. }
      unfold ret.
      replace (N.of_nat s + 1) with (N.of_nat (S s)) by lia.
      rewrite (IH (S s) m _ l fu rest); auto.
      + replace (S s + k)%nat with (s + S k)%nat by lia. reflexivity.
      + replace (S s + k)%nat with (s + S k)%nat by lia. exact Hb.
      + apply filter_ext. intros e. lia.
      + clear - Hf. unfold clists in *. fuel_tac.
  Qed.

  Lemma cls_ok_parts : forall m, cls_ok F m = true ->
    ascending (map fst m) /\ gids_ok F (map fst m) = true
    /\ (forall e, In e m -> 1 <= snd e <= 65535).
  Proof.
    intros m H. unfold cls_ok in H. split_wf H. repeat split.
    - apply ascendingb_spec. assumption.
    - assumption.
    - match goal with Hx : forallb _ m = true |- _ => rewrite forallb_forall in Hx; specialize (Hx e H2) end. lia.
    - match goal with Hx : forallb _ m = true |- _ => rewrite forallb_forall in Hx; specialize (Hx e H2) end. lia.
  Qed.

  Lemma class_lists_ok : forall m l fuel rest,
    cls_ok F m = true ->
    (length (clists_toks U F (class_lists_of m) true l) + 1 < fuel)%nat ->
    class_lists F endl fuel (clists_toks U F (class_lists_of m) true l ++ t_semi l :: rest) = POk (m, rest).
  Proof.
    intros m l fuel rest W Hf. destruct (cls_ok_parts m W) as (Ha & Hg & Hc).
    assert (Hmax : cls_max m <= 65535).
    { destruct (N.eq_dec (cls_max m) 0) as [E|E]; [lia|].
      destruct (cls_max_in m) as (e & He & Ee); [lia|]. specialize (Hc e He). lia. }
    unfold class_lists_of in *. fold (clists m 1 (N.to_nat (cls_max m))) in *.
    destruct (N.to_nat (cls_max m)) as [|k] eqn:En.
    - (* no class: the table is empty *)
      assert (Em : m = []).
      { destruct m as [|e m']; [reflexivity|]. pose proof (cls_max_ge (e :: m') e (or_introl eq_refl)).
        specialize (Hc e (or_introl eq_refl)). lia. }
      subst m. cbn [clists seq map clists_toks app]. unfold class_lists.
      unfold bind at 1. rewrite optional_hit by reflexivity. reflexivity.
    - unfold clists in *. cbn [seq map clists_toks app] in *. fold (clists m 2 k) in *.
      rewrite <- app_assoc.
      set (gg := class_glyphs (N.of_nat 1) m) in *.
      destruct (clists_tail_head (clists m 2 k) l rest) as (t0 & r & Et & Hst).
      (* the first item is not ";" *)
      assert (Hhead : exists t ts, gl_toks U F gg l ++ clists_toks U F (clists m 2 k) false l ++ t_semi l :: rest = t :: ts
                                   /\ ityp_eqb (ttyp t) TSemi = false /\ ityp_eqb (ttyp t) TEOF = false).
      { destruct gg as [|g gs] eqn:Eg.
        - destruct k as [|k'].
          + exfalso. destruct (cls_max_in m) as (e & He & Ee); [lia|].
            assert (Hin : In (fst e) (class_glyphs (N.of_nat 1) m)).
            { unfold class_glyphs. apply in_map. apply filter_In. split; [exact He|]. lia. }
            fold gg in Hin. rewrite Eg in Hin. exact Hin.
          + cbn [gl_toks app clists seq map clists_toks]. eexists. eexists. split; [reflexivity|]. split; reflexivity.
        - destruct (gl_toks_head_gt g gs l) as (t & ts & Eh & Ht). rewrite Eh. cbn [app].
          eexists. eexists. split; [reflexivity|]. destruct (ttyp t); cbn in Ht; try discriminate; split; reflexivity. }
      destruct Hhead as (t & ts & Eh & Hs1 & Hs2).
      unfold class_lists. unfold bind at 1. rewrite Eh. rewrite optional_miss by assumption. rewrite <- Eh.
      unfold bind at 1. unfold class_list_step at 1. unfold bind at 1.
      rewrite Et.
      rewrite (rgl_gl U F HF endl); auto;
        [|apply ProofsExplain.class_glyphs_ok; exact Hg|clear - Hf; fuel_tac].
      rewrite <- Et.
      change (65535 <? 1) with false. rewrite andb_false_r.
      change (1 mod 65536) with 1. unfold gg, class_glyphs.
      pose proof (cls_add_filter 1 m (fun _ => false) (fun p => snd p =? N.of_nat 1) Ha) as Hadd.
      rewrite filter_false in Hadd. rewrite Hadd.
      2:{ intros e _ He. split; [reflexivity|]. lia. }
      unfold ret.
      change 2 with (N.of_nat 2).
      rewrite (class_rest_ok k 2 m); auto.
      + f_equal. f_equal. apply filter_all. intros e He.
        pose proof (cls_max_ge m e He). lia.
      + lia.
      + apply filter_ext_in. intros e He. specialize (Hc e He). lia.
      + clear - Hf. fuel_tac.
  Qed.

  (* ---- the matrix ---- *)
  Lemma row_toks_false : forall p row l, row_toks (p :: row) false l = t_comma l :: row_toks (p :: row) true l.
  Proof. reflexivity. Qed.

  (* what may follow a row: ";" *)
  Definition ends_row (ts0 : list token) : Prop :=
    let ty := ttyp (peek_tok endl ts0) in
    ityp_eqb ty TIdent = false /\ ityp_eqb ty TAmp = false.

  Lemma adj_row_ok : forall row j0 l fuel ts0,
    Forall (fun p => padj_ok p = true) row -> ends_row ts0 ->
    (length (row_toks row j0 l ++ ts0) < fuel)%nat ->
    exists ts', adj_row endl fuel (length row) j0 (row_toks row j0 l ++ ts0) = POk (row, ts')
                /\ norm ts' = norm ts0 /\ (row = [] -> ts' = ts0).
  Proof.
    induction row as [|p row IH]; intros j0 l fuel ts0 Hr Hts Hf.
    - cbn [row_toks app length adj_row]. exists ts0. repeat split; reflexivity.
    - inversion Hr as [|? ? Hp Hrow]; subst. cbn [length adj_row].
      assert (Estart' : forall (X : P (list padj)),
                 ((if j0 then ret false else optional endl TComma) ;;; X) (row_toks (p :: row) j0 l ++ ts0)
                 = X (row_toks (p :: row) true l ++ ts0)).
      { intros X. destruct j0; [reflexivity|]. rewrite row_toks_false. cbn [app].
        unfold bind at 1. rewrite optional_hit by reflexivity. reflexivity. }
      rewrite Estart'. cbn [row_toks app]. rewrite <- app_assoc.
      destruct row as [|p' row'].
      + cbn [row_toks app]. destruct Hts as [T1 T2].
        destruct (read_padj_ok p l fuel ts0 Hp T1 T2) as (ts' & Ev & En).
        { clear - Hf. destruct j0; cbn [row_toks] in Hf; fuel_tac. }
        unfold bind at 1. rewrite Ev. cbn [length adj_row]. unfold bind at 1. unfold ret.
        exists ts'. repeat split; auto. discriminate.
      + rewrite row_toks_false. cbn [app].
        destruct (read_padj_ok p l fuel (t_comma l :: row_toks (p' :: row') true l ++ ts0) Hp eq_refl eq_refl) as (ts' & Ev & En).
        { clear - Hf. destruct j0; cbn [row_toks] in Hf; fuel_tac. }
        rewrite norm_cons_ne in En by reflexivity. apply norm_eq_cons in En. subst ts'.
        unfold bind at 1. rewrite Ev.
        destruct (IH false l fuel ts0 Hrow Hts) as (ts'' & E2 & N2 & _).
        { clear - Hf. destruct j0; cbn [row_toks] in *; fuel_tac. }
        rewrite row_toks_false in E2. cbn [app] in E2.
        unfold bind at 1. rewrite E2. unfold ret. exists ts''. repeat split; auto. discriminate.
  Qed.

  Lemma optional2_hit : forall ty1 ty2 t ts, (ityp_eqb (ttyp t) ty1 || ityp_eqb (ttyp t) ty2) = true ->
    optional2 endl ty1 ty2 (t :: ts) = POk (true, ts).
  Proof. intros. unfold optional2, bind, read. rewrite H. reflexivity. Qed.

  (* the rows after the newline that starts the first one *)
  Definition rows_body (row : list padj) (rows : list (list padj)) (l : N) : list token :=
    row_toks row true l ++ [t_semi l] ++ rows_toks rows l.

  Lemma adj_rows_S : forall fuel n1 n2,
    adj_rows endl fuel (S n1) n2
    = (row <- adj_row endl fuel n2 true ;; optional2 endl TComma TSemi ;;; optional endl TEOL ;;;
       rs <- adj_rows endl fuel n1 n2 ;; ret (row :: rs)).
  Proof. reflexivity. Qed.

  Lemma adj_rows_ok : forall rows row n2 l fuel ts0,
    Forall (fun r => length r = n2 /\ Forall (fun p => padj_ok p = true) r) (row :: rows) ->
    (length (rows_body row rows l ++ ts0) < fuel)%nat ->
    exists ts', adj_rows endl fuel (length (row :: rows)) n2 (rows_body row rows l ++ ts0) = POk (row :: rows, ts')
                /\ norm ts' = norm (skip_eol ts0).
  Proof.
    induction rows as [|row' rows IH]; intros row n2 l fuel ts0 Hr Hf;
      inversion Hr as [|? ? [Hl Hp] Hrs]; subst; unfold rows_body in Hf |- *;
      match goal with |- context [adj_rows endl fuel (length (?a :: ?b))] =>
        change (length (a :: b)) with (S (length b)) end;
      rewrite adj_rows_S; cbn [rows_toks app] in Hf |- *;
      repeat (progress (rewrite <- ?app_assoc in Hf |- *; cbn [app] in Hf |- * )).
    - destruct (adj_row_ok row true l fuel (t_semi l :: ts0) Hp) as (ts1 & E1 & N1 & _);
        [split; reflexivity|exact Hf|].
      rewrite norm_cons_ne in N1 by reflexivity. apply norm_eq_cons in N1. subst ts1.
      unfold bind at 1. rewrite E1. unfold bind at 1. rewrite optional2_hit by reflexivity.
      destruct (optional_eol_skip endl ts0) as (b & ts' & Eo & No).
      unfold bind at 1. rewrite Eo. cbn [length adj_rows]. unfold bind at 1. unfold ret. exists ts'. auto.
    - destruct (adj_row_ok row true l fuel (t_semi l :: t_eol l :: row_toks row' true (l + 1) ++ t_semi (l + 1) :: rows_toks rows (l + 1) ++ ts0) Hp)
        as (ts1 & E1 & N1 & _); [split; reflexivity|exact Hf|].
      rewrite norm_cons2 in N1. apply norm_eq_cons in N1. subst ts1.
      unfold bind at 1. rewrite E1. unfold bind at 1. rewrite optional2_hit by reflexivity.
      unfold bind at 1. rewrite optional_hit by reflexivity.
      destruct (IH row' (length row) (l + 1) fuel ts0 Hrs) as (ts' & E2 & N2).
      { clear - Hf. unfold rows_body. repeat (progress (rewrite <- ?app_assoc; cbn [app])). fuel_tac. }
      unfold rows_body in E2. repeat (progress (rewrite <- ?app_assoc in E2; cbn [app] in E2)).
      unfold bind at 1. rewrite E2. unfold ret. exists ts'. auto.
  Qed.

  Lemma nth_map_seq : forall {A} (d : A) (l : list A), map (fun j => nth j l d) (seq 0 (length l)) = l.
  Proof.
    intros A d l. apply nth_ext with (d := d) (d' := d).
    - rewrite map_length, seq_length. reflexivity.
    - intros n Hn. rewrite map_length, seq_length in Hn.
      rewrite (nth_indep _ d (nth 0 l d)) by (rewrite map_length, seq_length; exact Hn).
      rewrite (map_nth (fun j => nth j l d) (seq 0 (length l)) 0%nat n). rewrite seq_nth by exact Hn. reflexivity.
  Qed.

  Lemma rows_of_id : forall adj n1 n2, length adj = n1 -> Forall (fun r => length r = n2) adj ->
    rows_of adj n1 n2 = adj.
  Proof.
    intros adj n1 n2 H1 H2. unfold rows_of. subst n1.
    transitivity (map (fun i => nth i adj []) (seq 0 (length adj))); [|apply nth_map_seq].
    apply map_ext_in. intros i Hi. apply in_seq in Hi.
    unfold row_at. assert (Hn : length (nth i adj []) = n2).
    { rewrite Forall_forall in H2. apply H2. apply nth_In. lia. }
    rewrite <- Hn. apply nth_map_seq.
  Qed.

  (* ---- format 2 ---- *)
  Lemma required_ident_hit : forall s l ts, required_ident endl s (tk TIdent s l :: ts) = POk (tt, ts).
  Proof.
    intros s l ts. unfold required_ident, bind, read, is_ident. cbn [ttyp tval ityp_eqb].
    rewrite list_eqb_refl. reflexivity.
  Qed.

  Lemma read_gpos2_2_ok : forall cov c1 c2 adj l fuel ts0,
    pair_wf F (Gpos2_2 cov c1 c2 adj) = true ->
    (length (fmt2_toks U F cov c1 c2 adj l ++ ts0) < fuel)%nat ->
    exists ts', read_gpos2_2 F endl fuel (fmt2_toks U F cov c1 c2 adj l ++ ts0) = POk (Gpos2_2 cov c1 c2 adj, ts')
                /\ norm ts' = norm (skip_eol ts0).
  Proof.
    intros cov c1 c2 adj l fuel ts0 W Hf. cbn [pair_wf] in W. split_wf W.
    assert (Ha : ascending cov) by (apply ascendingb_spec; assumption).
    assert (Hl : length adj = cls_count c1) by (apply Nat.eqb_eq; assumption).
    assert (Hrows : Forall (fun r => length r = cls_count c2 /\ Forall (fun p => padj_ok p = true) r) adj).
    { match goal with Hx : forallb _ adj = true |- _ => apply forallb_Forall in Hx; eapply Forall_impl; [|exact Hx] end.
      intros r Hr. cbn beta in Hr. apply andb_true_iff in Hr. destruct Hr as [R1 R2].
      split; [apply Nat.eqb_eq; exact R1|apply forallb_Forall; exact R2]. }
    assert (Hid : rows_of adj (cls_count c1) (cls_count c2) = adj).
    { apply rows_of_id; auto. eapply Forall_impl; [|exact Hrows]. intros r [R _]. exact R. }
    unfold fmt2_toks in *. rewrite Hid in *.
    destruct adj as [|row rows]; [unfold cls_count in Hl; cbn in Hl; lia|].
    cbn [rows_toks] in *.
    repeat (progress (rewrite <- ?app_assoc in Hf |- *; cbn [app] in Hf |- * )).
    unfold read_gpos2_2.
    unfold bind at 1. rewrite required_hit by reflexivity.
    unfold bind at 1. rewrite (rgl_gl U F HF endl); auto; [|clear - Hf; fuel_tac].
    unfold bind at 1. rewrite required_hit by reflexivity.
    unfold bind at 1. rewrite optional_hit by reflexivity.
    unfold bind at 1. rewrite required_ident_hit.
    unfold bind at 1. rewrite class_lists_ok; auto; [|clear - Hf; fuel_tac].
    unfold bind at 1. rewrite optional_hit by reflexivity.
    unfold bind at 1. rewrite required_ident_hit.
    unfold bind at 1. rewrite class_lists_ok; auto; [|clear - Hf; fuel_tac].
    unfold bind at 1. rewrite optional_hit by reflexivity.
    rewrite <- Hl.
    destruct (adj_rows_ok rows row (cls_count c2) (l + 2 + 1) fuel ts0 Hrows) as (ts' & E & Nn).
    { clear - Hf. unfold rows_body. repeat (progress (rewrite <- ?app_assoc; cbn [app])). fuel_tac. }
    unfold rows_body in E. repeat (progress (rewrite <- ?app_assoc in E; cbn [app] in E)).
    unfold bind at 1. rewrite E. unfold ret. rewrite sort_uniq_ascending by exact Ha.
    exists ts'. auto.
  Qed.

  (* ---- the subtable loop ---- *)
  Definition psub_ok (s : pair_sub) : Prop := pair_wf F s = true.

  Lemma glyph_typ_props : forall t, is_glyph_typ (ttyp t) = true ->
    ityp_eqb (ttyp t) TEOF = false /\ ityp_eqb (ttyp t) TSlash = false /\ after_flags t = true.
  Proof. intros t H. unfold after_flags. destruct (ttyp t); cbn in H; try discriminate; repeat split; reflexivity. Qed.

  Lemma pairs_wf_parts : forall pairs, pair_wf F (Gpos2_1 pairs) = true ->
    pairs <> [] /\ pairs_asc pairs /\ Forall pair_ok2 pairs.
  Proof.
    intros pairs W. cbn [pair_wf] in W. split_wf W. repeat split.
    - destruct pairs; [discriminate|congruence].
    - apply pairs_ascb_spec. assumption.
    - match goal with Hx : forallb _ pairs = true |- _ => apply forallb_Forall in Hx; eapply Forall_impl; [|exact Hx] end.
      intros e He. cbn beta in He. split_wf He. unfold pair_ok2.
      split; [apply N.ltb_lt; assumption|]. split; [apply N.ltb_lt; assumption|assumption].
  Qed.

  Lemma pairs_head : forall pairs l X, pairs <> [] -> exists t ts,
    pairs_toks U F pairs true l ++ X = t :: ts /\ is_glyph_typ (ttyp t) = true.
  Proof.
    intros [|[[a b] pa] es] l X H; [congruence|]. cbn [pairs_toks app].
    destruct (gl_toks_head_gt a [b] l) as (t & ts & Et & Ht). rewrite Et. cbn [app].
    eexists. eexists. split; [reflexivity|exact Ht].
  Qed.

  Lemma peek_cons : forall t ts, ityp_eqb (ttyp t) TEOF = false -> peek endl (t :: ts) = POk (t, t :: ts).
  Proof. intros t ts H. unfold peek, bind. cbn [read]. rewrite unread_cons by exact H. reflexivity. Qed.

  Lemma psub_read_ok : forall s l fuel X,
    psub_ok s -> ends_pairs X ->
    (length (psub_toks U F s false l ++ X) < fuel)%nat ->
    exists ts',
      (nxt <- peek endl ;;
       (if ityp_eqb (ttyp nxt) TSlash then read_gpos2_2 F endl fuel
        else (m <- gpos2_1_loop F endl fuel [] ;; ret (Gpos2_1 m)))) (psub_toks U F s false l ++ X) = POk (s, ts')
      /\ (norm ts' = norm X \/ norm ts' = norm (skip_eol X)).
  Proof.
    intros s l fuel X Hs HX Hf. destruct s as [pairs|cov c1 c2 adj]; cbn [psub_toks] in *.
    - destruct (pairs_wf_parts pairs Hs) as (Hn & Ha & Hp).
      destruct (pairs_head pairs l X Hn) as (t & ts & Et & Ht).
      destruct (glyph_typ_props t Ht) as (G1 & G2 & _).
      unfold bind at 1. rewrite Et. rewrite peek_cons by exact G1. rewrite G2. rewrite <- Et.
      destruct (gpos2_1_loop_ok pairs l fuel [] X Hn Ha Hp) as (ts' & E & Nn); auto; [intros d e []|].
      unfold bind at 1. rewrite E. unfold ret. exists ts'. auto.
    - unfold bind at 1. unfold fmt2_toks at 1. cbn [app]. rewrite peek_cons by reflexivity.
      cbn [ttyp ityp_eqb t_slash].
      change (t_slash l :: (gl_toks U F cov l ++ [t_slash l; t_eol l; tk TIdent k_first (l + 1)]
                ++ clists_toks U F (class_lists_of c1) true (l + 1) ++ [t_semi (l + 1); t_eol (l + 1); tk TIdent k_second (l + 2)]
                ++ clists_toks U F (class_lists_of c2) true (l + 2) ++ [t_semi (l + 2)]
                ++ rows_toks (rows_of adj (cls_count c1) (cls_count c2)) (l + 2)) ++ X)
        with (fmt2_toks U F cov c1 c2 adj l ++ X).
      destruct (read_gpos2_2_ok cov c1 c2 adj l fuel X Hs Hf) as (ts' & E & Nn).
      exists ts'. auto.
  Qed.

  Lemma ends_top_pairs : forall ts0, ends_top ts0 -> ends_pairs ts0.
  Proof.
    intros ts0 [(e & H)|(e & ty & l2 & more & H)]; subst; unfold ends_pairs; cbn; repeat split; reflexivity.
  Qed.
  Lemma ends_top_or : forall ts0, ends_top ts0 ->
    ityp_eqb (ttyp (peek_tok endl ts0)) TOr = false /\ ityp_eqb (ttyp (peek_tok endl (skip_eol ts0))) TOr = false.
  Proof.
    intros ts0 [(e & H)|(e & ty & l2 & more & H)]; subst; cbn; split; reflexivity.
  Qed.

  Lemma bind_assoc2 : forall {A C D} (m : P A) (i : A -> P C) (k : C -> P D) ts,
    (a <- m ;; c <- i a ;; k c) ts = (c <- (a <- m ;; i a) ;; k c) ts.
  Proof. intros. unfold bind. destruct (m ts) as [[a ts1]| | | |]; auto. Qed.

  Lemma gpos2_loop_ok : forall ss hdr s l fuel acc ts0,
    Forall psub_ok (s :: ss) -> ends_top ts0 ->
    (length (psub_toks U F s false l ++ psubs_toks U F hdr ss false (l + psub_dl s false) ++ ts0) < fuel)%nat ->
    exists ts', gpos2_loop F endl fuel acc (psub_toks U F s false l ++ psubs_toks U F hdr ss false (l + psub_dl s false) ++ ts0)
                = POk (acc ++ s :: ss, ts')
                /\ (norm ts' = norm ts0 \/ norm ts' = norm (skip_eol ts0)).
  Proof.
    induction ss as [|s' ss IH]; intros hdr s l fuel acc ts0 Hs Hts Hf;
      (destruct fuel as [|fu]; [cbn in Hf; lia|]);
      inversion Hs as [|? ? Hs1 Hsr]; subst; cbn [gpos2_loop].
    - cbn [psubs_toks app] in *.
      destruct (psub_read_ok s l (S fu) ts0 Hs1 (ends_top_pairs _ Hts) Hf) as (ts' & Es & En).
      rewrite bind_assoc2. unfold bind at 1. rewrite Es. unfold bind at 1.
      destruct (ends_top_or _ Hts) as [O1 O2].
      rewrite optional_miss_n.
      + unfold ret. eexists. split; [reflexivity|]. rewrite norm_idem. exact En.
      + destruct En as [En|En]; rewrite (peek_typ_same endl _ _ En); assumption.
    - cbn [psubs_toks app] in *. rewrite <- !app_assoc in *. cbn [app] in *.
      set (l0 := l + psub_dl s false) in *.
      set (X := tk TOr [124; 124] l0 :: t_eol l0 :: psub_toks U F s' false (l0 + 1)
                  ++ psubs_toks U F hdr ss false (l0 + 1 + psub_dl s' false) ++ ts0) in *.
      assert (HX : ends_pairs X) by (repeat split; reflexivity).
      destruct (psub_read_ok s l (S fu) X Hs1 HX Hf) as (ts' & Es & En).
      assert (Ex : ts' = X).
      { destruct En as [En|En]; unfold X in En; cbn [skip_eol ttyp ityp_eqb] in En;
          rewrite norm_cons2 in En; apply norm_eq_cons in En; exact En. }
      subst ts'.
      rewrite bind_assoc2. unfold bind at 1. rewrite Es. unfold X at 1.
      unfold bind at 1. rewrite optional_hit by reflexivity.
      unfold bind at 1. rewrite optional_hit by reflexivity.
      destruct (IH hdr s' (l0 + 1) fu (acc ++ [s]) ts0 Hsr Hts) as (ts'' & E2 & N2).
      + clear - Hf. unfold X in Hf. rewrite app_length in Hf. cbn [length] in Hf. lia.
      + exists ts''. split; auto. rewrite E2. rewrite <- app_assoc. reflexivity.
  Qed.

  (* ---- the lookup ---- *)
  Lemma read_gpos2_ok : forall fl subs l fuel ts0,
    gpos2_lookup_wf F (XPair fl subs) = true -> ends_top ts0 ->
    (length (xlookup_toks U F (XPair fl subs) l ++ ts0) < fuel)%nat ->
    exists ts', read_gpos2 F endl fuel (tl (xlookup_toks U F (XPair fl subs) l) ++ ts0) = POk (XPair fl subs, ts')
                /\ (norm ts' = norm ts0 \/ norm ts' = norm (skip_eol ts0)).
  Proof.
    intros fl subs l fuel ts0 W Hts Hf. cbn [gpos2_lookup_wf] in W. split_wf W.
    destruct subs as [|s ss]; [discriminate|].
    assert (Hs : Forall psub_ok (s :: ss)) by (apply forallb_Forall; assumption).
    inversion Hs as [|? ? Hs1 _]; subst.
    cbn [xlookup_toks psubs_toks] in *. unfold phdr_toks, hdr_toks in *. cbn [l_type l_flags app tl] in *.
    rewrite <- !app_assoc in *. cbn [app] in *.
    set (hdr := fun l0 => tk TIdent (k_GPOS ++ digits 2) l0 :: tk TColon [58] l0 :: flag_toks fl l0) in *.
    unfold read_gpos2. unfold bind at 1.
    destruct s as [pairs|cov c1 c2 adj].
    - (* glyph pairs follow the flags on the same line *)
      change (psub_toks U F (Gpos2_1 pairs) true l) with (psub_toks U F (Gpos2_1 pairs) false l) in *.
      change (psub_dl (Gpos2_1 pairs) true) with (psub_dl (Gpos2_1 pairs) false) in *.
      destruct (pairs_wf_parts pairs Hs1) as (Hn & _ & _).
      assert (Eh : exists t ts, psub_toks U F (Gpos2_1 pairs) false l ++ psubs_toks U F hdr ss false (l + psub_dl (Gpos2_1 pairs) false) ++ ts0 = t :: ts
                               /\ after_flags t = true).
      { cbn [psub_toks]. destruct (pairs_head pairs l (psubs_toks U F hdr ss false (l + psub_dl (Gpos2_1 pairs) false) ++ ts0) Hn) as (t & ts & Et & Ht).
        exists t, ts. split; [exact Et|]. apply glyph_typ_props. exact Ht. }
      rewrite (header_ok' U F endl); auto; [|clear - Hf; fuel_tac].
      destruct (gpos2_loop_ok ss hdr (Gpos2_1 pairs) l fuel [] ts0 Hs Hts) as (ts' & El & En).
      { clear - Hf. fuel_tac. }
      unfold bind at 1. rewrite El. cbn [app]. unfold ret. exists ts'. auto.
    - (* class pairs start on the next line *)
      change (psub_toks U F (Gpos2_2 cov c1 c2 adj) true l)
        with (t_eol l :: psub_toks U F (Gpos2_2 cov c1 c2 adj) false (l + 1)) in *.
      assert (Ed : l + psub_dl (Gpos2_2 cov c1 c2 adj) true = l + 1 + psub_dl (Gpos2_2 cov c1 c2 adj) false)
        by (cbn [psub_dl]; lia).
      rewrite Ed in *. cbn [app] in *.
      assert (Eh : psub_toks U F (Gpos2_2 cov c1 c2 adj) false (l + 1)
                   = t_slash (l + 1) :: tl (psub_toks U F (Gpos2_2 cov c1 c2 adj) false (l + 1))) by reflexivity.
      rewrite Eh. cbn [app]. unfold t_eol at 1.
      rewrite (header_ok_nl U F endl); auto; [|clear - Hf; fuel_tac].
      change (t_slash (l + 1) :: tl (psub_toks U F (Gpos2_2 cov c1 c2 adj) false (l + 1))
                ++ psubs_toks U F hdr ss false (l + 1 + psub_dl (Gpos2_2 cov c1 c2 adj) false) ++ ts0)
        with ((t_slash (l + 1) :: tl (psub_toks U F (Gpos2_2 cov c1 c2 adj) false (l + 1)))
                ++ psubs_toks U F hdr ss false (l + 1 + psub_dl (Gpos2_2 cov c1 c2 adj) false) ++ ts0).
      rewrite <- Eh.
      destruct (gpos2_loop_ok ss hdr (Gpos2_2 cov c1 c2 adj) (l + 1) fuel [] ts0 Hs Hts) as (ts' & El & En).
      { clear - Hf. fuel_tac. }
      unfold bind at 1. rewrite El. cbn [app]. unfold ret. exists ts'. auto.
  Qed.

  (* ---- GPOS3 and GPOS4 lookups: readGpos3 / readGpos4 on their own (the main
     development states these steps only inside its parse loop; the proofs
     compose the same component lemmas) ---- *)
  Lemma read_gpos3_ok : forall lk l fuel ts0,
    gpos3_lookup_wf F lk = true -> ends_gpos3 endl ts0 ->
    (length (lookup_toks U F k_GPOS lk l ++ ts0) < fuel)%nat ->
    exists ts', read_gpos3 F endl fuel (tl (lookup_toks U F k_GPOS lk l) ++ ts0) = POk (lk, ts')
                /\ norm ts' = norm ts0.
  Proof.
    intros lk l fuel ts0 Hlk Hts Hf. unfold gpos3_lookup_wf in Hlk. split_wf Hlk.
    destruct lk as [ty fl subs]. cbn [l_type l_flags l_subs] in *.
    match goal with Hx : (ty =? 3) = true |- _ => apply N.eqb_eq in Hx; subst ty end.
    match goal with Hx : forallb _ subs = true |- _ => destruct (g3_subs_shape F _ Hx) as (ps & Es & Hps) end.
    subst subs. destruct ps as [|p ps]; [discriminate|].
    inversion Hps as [|? ? Hp _]; subst.
    destruct (g3_shape U F p l Hp) as (g & r & recs & Et & Et1 & Ed1 & _).
    unfold lookup_toks, hdr_toks in *. cbn [l_subs l_type l_flags map subs_toks sub_toksp sub_dlp app tl] in *.
    rewrite Et1, Ed1 in *. rewrite <- !app_assoc in *. cbn [app] in *.
    replace (l + (1 + pos_dl p false)) with (l + 1 + pos_dl p false) in * by lia.
    unfold read_gpos3. unfold bind at 1.
    destruct (g3_shape U F p (l + 1) Hp) as (g2 & r2 & recs2 & Et2 & _).
    assert (Eh : exists t ts, pos_toks U F p false (l + 1) = t :: ts /\ after_flags t = true).
    { rewrite Et2. unfold rec_toks. cbn [app]. eexists. eexists. split; [reflexivity|apply after_flags_glyph_tok]. }
    destruct Eh as (t & ts & Eh & Ah). rewrite Eh in *. cbn [app] in *.
    rewrite (header_ok_nl U F endl); auto; [|clear - Hf; fuel_tac].
    change (t :: ts ++ subs_toks U F (fun l0 => tk TIdent (k_GPOS ++ digits 3) l0 :: tk TColon [58] l0 :: flag_toks fl l0) (map Pos ps) false (l + 1 + pos_dl p false) ++ ts0)
      with ((t :: ts) ++ subs_toks U F (fun l0 => tk TIdent (k_GPOS ++ digits 3) l0 :: tk TColon [58] l0 :: flag_toks fl l0) (map Pos ps) false (l + 1 + pos_dl p false) ++ ts0).
    rewrite <- Eh in *.
    destruct (gpos3_loop_ok U F HF endl ps (fun l0 => tk TIdent (k_GPOS ++ digits 3) l0 :: tk TColon [58] l0 :: flag_toks fl l0) p (l + 1) fuel [] ts0 Hps Hts) as (ts' & El & En).
    - rewrite Eh. clear - Hf. fuel_tac.
    - unfold bind at 1. rewrite El. cbn [app]. unfold ret, mk_lookup. exists ts'. auto.
  Qed.

  Lemma read_gpos4_ok : forall lk l fuel ts0,
    gpos4_lookup_wf F lk = true ->
    ends4 endl ts0 -> ityp_eqb (ttyp (peek_tok endl (skip_eol ts0))) TOr = false ->
    (length (lookup_toks U F k_GPOS lk l ++ ts0) < fuel)%nat ->
    exists ts', read_gpos4 F endl fuel (tl (lookup_toks U F k_GPOS lk l) ++ ts0) = POk (lk, ts')
                /\ norm ts' = norm (skip_eol ts0).
  Proof.
    intros lk l fuel ts0 Hlk Hts Hor Hf. unfold gpos4_lookup_wf in Hlk. split_wf Hlk.
    destruct lk as [ty fl subs]. cbn [l_type l_flags l_subs] in *.
    match goal with Hx : (ty =? 4) = true |- _ => apply N.eqb_eq in Hx; subst ty end.
    match goal with Hx : forallb _ subs = true |- _ => destruct (g4_subs_shape F _ Hx) as (ps & Es & Hps) end.
    subst subs. destruct ps as [|p ps]; [discriminate|].
    inversion Hps as [|? ? Hp _]; subst.
    destruct (g4_first U F p l Hp) as (Et1 & Ed1 & ts & Eh).
    unfold lookup_toks, hdr_toks in *. cbn [l_subs l_type l_flags map subs_toks sub_toksp sub_dlp app tl] in *.
    rewrite Et1, Ed1 in *. rewrite <- !app_assoc in *. cbn [app] in *.
    replace (l + (1 + pos_dl p false)) with (l + 1 + pos_dl p false) in * by lia.
    unfold read_gpos4. unfold bind at 1.
    rewrite Eh in *. cbn [app] in *.
    rewrite (header_ok_nl U F endl); auto; [|clear - Hf; fuel_tac].
    change (tk TIdent k_mark (l + 1) :: ts ++ subs_toks U F (fun l0 => tk TIdent (k_GPOS ++ digits 4) l0 :: tk TColon [58] l0 :: flag_toks fl l0) (map Pos ps) false (l + 1 + pos_dl p false) ++ ts0)
      with ((tk TIdent k_mark (l + 1) :: ts) ++ subs_toks U F (fun l0 => tk TIdent (k_GPOS ++ digits 4) l0 :: tk TColon [58] l0 :: flag_toks fl l0) (map Pos ps) false (l + 1 + pos_dl p false) ++ ts0).
    rewrite <- Eh.
    destruct (gpos4_loop_ok U F HF endl ps (fun l0 => tk TIdent (k_GPOS ++ digits 4) l0 :: tk TColon [58] l0 :: flag_toks fl l0) p (l + 1) fuel [] ts0 Hps Hts Hor) as (ts' & El & En).
    - rewrite Eh. clear - Hf. fuel_tac.
    - unfold bind at 1. rewrite El. cbn [app]. unfold ret, mk_lookup. exists ts'. auto.
  Qed.

  (* ---- one lookup inside parse() ---- *)
  Lemma p2_gpos1 : forall fu acc l rest,
    parse_loop2 F endl (S fu) acc (tk TIdent (k_GPOS ++ digits 1) l :: rest)
    = (x <- read_gpos1 F endl (S fu) ;; parse_loop2 F endl fu (acc ++ [XOld x])) rest.
  Proof. reflexivity. Qed.
  Lemma p2_gpos2 : forall fu acc l rest,
    parse_loop2 F endl (S fu) acc (tk TIdent (k_GPOS ++ digits 2) l :: rest)
    = (x <- read_gpos2 F endl (S fu) ;; parse_loop2 F endl fu (acc ++ [x])) rest.
  Proof. reflexivity. Qed.
  Lemma p2_gpos3 : forall fu acc l rest,
    parse_loop2 F endl (S fu) acc (tk TIdent (k_GPOS ++ digits 3) l :: rest)
    = (x <- read_gpos3 F endl (S fu) ;; parse_loop2 F endl fu (acc ++ [XOld x])) rest.
  Proof. reflexivity. Qed.
  Lemma p2_gpos4 : forall fu acc l rest,
    parse_loop2 F endl (S fu) acc (tk TIdent (k_GPOS ++ digits 4) l :: rest)
    = (x <- read_gpos4 F endl (S fu) ;; parse_loop2 F endl fu (acc ++ [XOld x])) rest.
  Proof. reflexivity. Qed.

  Lemma lookup_toks_head : forall lk l, l_subs lk <> [] ->
    lookup_toks U F k_GPOS lk l = tk TIdent (k_GPOS ++ digits (l_type lk)) l :: tl (lookup_toks U F k_GPOS lk l).
  Proof.
    intros lk l H. unfold lookup_toks. destruct (l_subs lk) as [|s r]; [congruence|]. reflexivity.
  Qed.

  Lemma old_wf_cases : forall o, gpos_lookup_wf_all F o = true ->
    l_subs o <> [] /\
    ((gpos_lookup_wf F o = true /\ l_type o = 1) \/ (gpos3_lookup_wf F o = true /\ l_type o = 3)
     \/ (gpos4_lookup_wf F o = true /\ l_type o = 4)).
  Proof.
    intros o H. unfold gpos_lookup_wf_all in H. repeat (apply orb_true_iff in H; destruct H as [H|H]).
    - pose proof H as H'. unfold gpos_lookup_wf in H'. split_wf H'.
      split; [destruct (l_subs o); [discriminate|congruence]|]. left. split; [exact H|lia].
    - pose proof H as H'. unfold gpos3_lookup_wf in H'. split_wf H'.
      split; [destruct (l_subs o); [discriminate|congruence]|]. right. left. split; [exact H|lia].
    - pose proof H as H'. unfold gpos4_lookup_wf in H'. split_wf H'.
      split; [destruct (l_subs o); [discriminate|congruence]|]. right. right. split; [exact H|lia].
  Qed.

  Lemma xone : forall lk l fu acc ts0,
    xgpos_lookup_wf F lk = true -> ends_top ts0 ->
    (length (xlookup_toks U F lk l ++ ts0) < S (S fu))%nat ->
    exists ts', parse_loop2 F endl (S (S fu)) acc (xlookup_toks U F lk l ++ ts0)
                = parse_loop2 F endl (S fu) (acc ++ [lk]) ts'
                /\ (norm ts' = norm ts0 \/ norm ts' = norm (skip_eol ts0)).
  Proof.
    intros lk l fu acc ts0 W Hts Hf. destruct lk as [o|fl subs];
      unfold xgpos_lookup_wf, old_gpos_lookup_wf, gpos2_lookup_wf in W.
    - rewrite orb_false_r in W. destruct (old_wf_cases o W) as (Hn & [[H1 Ty]|[[H3 Ty]|[H4 Ty]]]);
        cbn [xlookup_toks] in *; rewrite (lookup_toks_head o l Hn) in *; rewrite Ty in *; cbn [app] in *.
      + rewrite p2_gpos1.
        destruct (read_gpos1_ok U F HF endl o l (S (S fu)) ts0 H1 (ends_top_gpos endl _ Hts)) as (ts' & E & Nn).
        { rewrite (lookup_toks_head o l Hn). rewrite Ty. cbn [app]. exact Hf. }
        unfold bind at 1. rewrite E. exists ts'. auto.
      + rewrite p2_gpos3.
        destruct (read_gpos3_ok o l (S (S fu)) ts0 H3 (ends_top_gpos3 endl _ Hts)) as (ts' & E & Nn).
        { rewrite (lookup_toks_head o l Hn). rewrite Ty. cbn [app]. exact Hf. }
        unfold bind at 1. rewrite E. exists ts'. auto.
      + rewrite p2_gpos4. destruct (ends_top_gpos4 endl _ Hts) as [T1 T2].
        destruct (read_gpos4_ok o l (S (S fu)) ts0 H4 T1 T2) as (ts' & E & Nn).
        { rewrite (lookup_toks_head o l Hn). rewrite Ty. cbn [app]. exact Hf. }
        unfold bind at 1. rewrite E. exists ts'. auto.
    - cbn [orb] in W.
      assert (Hn : subs <> []).
      { split_wf W. destruct subs; [discriminate|congruence]. }
      assert (Eh : xlookup_toks U F (XPair fl subs) l
                   = tk TIdent (k_GPOS ++ digits 2) l :: tl (xlookup_toks U F (XPair fl subs) l)).
      { cbn [xlookup_toks]. destruct subs as [|s r]; [congruence|]. reflexivity. }
      destruct (read_gpos2_ok fl subs l (S (S fu)) ts0 W Hts Hf) as (ts' & E & Nn).
      rewrite Eh. cbn [app]. rewrite p2_gpos2. unfold bind at 1. rewrite E. exists ts'. auto.
  Qed.

  (* ---- the lookup list ---- *)
  Lemma xlookup_toks_shape : forall lk l, xgpos_lookup_wf F lk = true ->
    exists ty more, xlookup_toks U F lk l = tk TIdent (k_GPOS ++ digits ty) l :: tk TColon [58] l :: more.
  Proof.
    intros lk l W. destruct lk as [o|fl subs]; unfold xgpos_lookup_wf, old_gpos_lookup_wf, gpos2_lookup_wf in W.
    - rewrite orb_false_r in W. destruct (old_wf_cases o W) as (Hn & _).
      cbn [xlookup_toks]. unfold lookup_toks. destruct (l_subs o) as [|s r]; [congruence|].
      cbn [subs_toks]. unfold hdr_toks. cbn [app]. eexists. eexists. reflexivity.
    - cbn [orb] in W. split_wf W. destruct subs as [|s r]; [discriminate|].
      cbn [xlookup_toks psubs_toks]. unfold phdr_toks, hdr_toks. cbn [app l_type]. eexists. eexists. reflexivity.
  Qed.

  Lemma xgpos_toks_head : forall lk r l X, xgpos_lookup_wf F lk = true ->
    exists ty more, xgpos_toks U F (lk :: r) l ++ X
                    = tk TIdent (k_GPOS ++ digits ty) l :: tk TColon [58] l :: more.
  Proof.
    intros lk r l X W. destruct (xlookup_toks_shape lk l W) as (ty & more & E).
    destruct r; cbn [xgpos_toks]; rewrite E; cbn [app]; eexists; eexists; reflexivity.
  Qed.

  Lemma xgpos_parse_ok : forall ll l fuel acc e,
    Forall (fun lk => xgpos_lookup_wf F lk = true) ll ->
    (length (xgpos_toks U F ll l ++ [tk TEOF [] e]) < fuel)%nat ->
    exists ts', parse_loop2 F endl fuel acc (xgpos_toks U F ll l ++ [tk TEOF [] e]) = POk (acc ++ ll, ts').
  Proof.
    induction ll as [|lk r IH]; intros l fuel acc e H Hf.
    - destruct fuel; [cbn in Hf; lia|]. cbn. rewrite app_nil_r. eexists. reflexivity.
    - inversion H as [|? ? Hlk Hr]; subst.
      assert (Hl2 : (2 <= length (xlookup_toks U F lk l))%nat).
      { destruct (xlookup_toks_shape lk l Hlk) as (ty & more & E). rewrite E. cbn [length]. lia. }
      destruct r as [|lk2 r'].
      + cbn [xgpos_toks] in *.
        destruct fuel as [|[|fu]]; try (exfalso; clear - Hf Hl2; fuel_tac).
        destruct (xone lk l fu acc [tk TEOF [] e] Hlk) as (ts' & Er & En); [left; eexists; reflexivity|exact Hf|].
        assert (En' : norm ts' = norm [tk TEOF [] e]) by (destruct En as [En|En]; exact En).
        rewrite Er. cbn [parse_loop2]. unfold bind at 1.
        destruct (read_unread endl ts') as [R _]. rewrite R.
        rewrite (peek_typ_same endl ts' [tk TEOF [] e] En'). cbn [peek_tok ttyp]. unfold ret. eauto.
      + assert (Eg : xgpos_toks U F (lk :: lk2 :: r') l
                     = xlookup_toks U F lk l ++ [t_eol (l + xlookup_dl lk)]
                         ++ xgpos_toks U F (lk2 :: r') (l + xlookup_dl lk + 1)) by reflexivity.
        rewrite Eg in *. clear Eg. rewrite <- !app_assoc in *. cbn [app] in *.
        set (rest := xgpos_toks U F (lk2 :: r') (l + xlookup_dl lk + 1) ++ [tk TEOF [] e]) in *.
        inversion Hr as [|? ? Hlk2 _]; subst.
        destruct (xgpos_toks_head lk2 r' (l + xlookup_dl lk + 1) [tk TEOF [] e] Hlk2) as (ty & more & Em).
        fold rest in Em.
        destruct fuel as [|[|fu]]; try (exfalso; clear - Hf Hl2; fuel_tac).
        destruct (xone lk l fu acc (t_eol (l + xlookup_dl lk) :: rest) Hlk) as (ts' & Er & En);
          [right; rewrite Em; do 4 eexists; reflexivity|exact Hf|].
        rewrite Er.
        destruct fu as [|fu']; [exfalso; clear - Hf Hl2; fuel_tac|].
        assert (Hf2 : (length rest < S fu')%nat) by (clear - Hf Hl2; fuel_tac).
        destruct En as [En|En].
        * rewrite norm_cons_ne in En by reflexivity. apply norm_eq_cons in En. subst ts'.
          change (parse_loop2 F endl (S (S fu')) (acc ++ [lk]) (t_eol (l + xlookup_dl lk) :: rest))
            with (parse_loop2 F endl (S fu') (acc ++ [lk]) rest).
          destruct (IH (l + xlookup_dl lk + 1) (S fu') (acc ++ [lk]) e Hr) as (ts'' & E2); [exact Hf2|].
          exists ts''. unfold rest. rewrite <- app_assoc in E2. exact E2.
        * cbn [skip_eol ttyp ityp_eqb t_eol] in En. rewrite Em in En. rewrite norm_cons2 in En.
          apply norm_eq_cons in En. rewrite <- Em in En. subst ts'.
          destruct (IH (l + xlookup_dl lk + 1) (S (S fu')) (acc ++ [lk]) e Hr) as (ts'' & E2); [unfold rest in Hf2; lia|].
          exists ts''. unfold rest. rewrite <- app_assoc in E2. exact E2.
  Qed.
End Parse2.

(* ------------------------------------------------------------------ *)
(* The round trip                                                      *)

Lemma end_line_app2 : forall ts t, end_line (ts ++ [t]) = tline t.
Proof. intros. unfold end_line. rewrite last_opt_app. reflexivity. Qed.

Theorem parse_explain_xgpos : forall U F ll,
  font_wf U F = true -> Forall (fun lk => xgpos_lookup_wf F lk = true) ll ->
  M_parse_gpos2 U F (M_explain_gpos2 U F ll) = POk ll.
Proof.
  intros U F ll HF Hll. unfold M_parse_gpos2. rewrite (ProofsExplain.lex_explain_xgpos U F HF ll Hll).
  unfold M_parse_gpos2_tokens.
  destruct (xgpos_parse_ok U F HF (end_line (xgpos_toks U F ll 1 ++ [tk TEOF [] (1 + xgpos_dl ll)])) ll 1
              (S (S (length (xgpos_toks U F ll 1 ++ [tk TEOF [] (1 + xgpos_dl ll)])))) [] (1 + xgpos_dl ll) Hll)
    as (ts' & E); [lia|]. rewrite E. reflexivity.
Qed.
