From Coq Require Import Extraction ExtrOcamlBasic.
From Common Require Import Conv.
From Gen Require Import C19.
From C19 Require Import Model.
From C19B Require Import Model.
Extraction "c19b_model.ml" conv_anchor ityp_code M_lex M_parse_gpos2 M_parse_gpos2_tokens M_read_gpos2_tokens
  M_explain_gpos2 M_explain_gpos2_panics.
