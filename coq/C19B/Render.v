(* C19B/Render.v — the item stream the lexer produces for the text written by
   M_explain_gpos2, defined directly on the lookup structures (proof device,
   as in the main development: ProofsExplain shows M_lex (M_explain ll) =
   these items, ProofsParse shows that the parser maps them back to ll). *)
From Coq Require Import List NArith ZArith Bool Arith.
From Gen Require Import C19.
From C19 Require Import Model Render.
From C19B Require Import Model.
Import ListNotations.
Import K.
Local Open Scope N_scope.

Section Render2.
  Variable U : uclass.
  Variable F : font.

  Definition t_amp (l : N) := tk TAmp [38] l.
  Definition t_eol (l : N) := tk TEOL [10] l.

  Definition padj_toks (p : padj) (l : N) : list token :=
    value_toks (fst p) l
      ++ match snd p with None => [] | Some _ => t_amp l :: value_toks (snd p) l end.

  Fixpoint pairs_toks (es : list (pkey * padj)) (first : bool) (l : N) : list token :=
    match es with
    | [] => []
    | ((a, b), pa) :: r =>
        (if first then [] else [t_comma l]) ++ gl_toks U F [a; b] l ++ [t_arrow l] ++ padj_toks pa l
          ++ pairs_toks r false l
    end.

  Fixpoint clists_toks (ls : list (list N)) (first : bool) (l : N) : list token :=
    match ls with
    | [] => []
    | gg :: r => (if first then [] else [t_comma l]) ++ gl_toks U F gg l ++ clists_toks r false l
    end.

  Fixpoint row_toks (row : list padj) (first : bool) (l : N) : list token :=
    match row with
    | [] => []
    | p :: r => (if first then [] else [t_comma l]) ++ padj_toks p l ++ row_toks r false l
    end.

  (* every row starts a new line; l is the line of the preceding text *)
  Fixpoint rows_toks (rows : list (list padj)) (l : N) : list token :=
    match rows with
    | [] => []
    | row :: r => t_eol l :: row_toks row true (l + 1) ++ [t_semi (l + 1)] ++ rows_toks r (l + 1)
    end.

  (* the class-pair subtable from "/" on, starting on line l *)
  Definition fmt2_toks (cov : list N) (c1 c2 : list (N * N)) (adj : list (list padj)) (l : N) : list token :=
    [t_slash l] ++ gl_toks U F cov l ++ [t_slash l; t_eol l; tk TIdent k_first (l + 1)]
      ++ clists_toks (class_lists_of c1) true (l + 1) ++ [t_semi (l + 1); t_eol (l + 1); tk TIdent k_second (l + 2)]
      ++ clists_toks (class_lists_of c2) true (l + 2) ++ [t_semi (l + 2)]
      ++ rows_toks (rows_of adj (cls_count c1) (cls_count c2)) (l + 2).

  Definition psub_toks (s : pair_sub) (first : bool) (l : N) : list token :=
    match s with
    | Gpos2_1 pairs => pairs_toks pairs true l
    | Gpos2_2 cov c1 c2 adj =>
        if first then t_eol l :: fmt2_toks cov c1 c2 adj (l + 1) else fmt2_toks cov c1 c2 adj l
    end.
  Definition psub_dl (s : pair_sub) (first : bool) : N :=
    match s with
    | Gpos2_1 _ => 0
    | Gpos2_2 _ c1 _ _ => (if first then 1 else 0) + (2 + N.of_nat (cls_count c1))
    end.

  (* subtables; each " ||\n\t" starts a new line *)
  Fixpoint psubs_toks (hdr : N -> list token) (subs : list pair_sub) (first : bool) (l : N) : list token :=
    match subs with
    | [] => []
    | s :: r =>
        (if first then hdr l ++ psub_toks s true l ++ psubs_toks hdr r false (l + psub_dl s true)
         else [tk TOr [124; 124] l; t_eol l] ++ psub_toks s false (l + 1)
                ++ psubs_toks hdr r false (l + 1 + psub_dl s false))
    end.
  Fixpoint psubs_lines (subs : list pair_sub) : N :=
    match subs with [] => 0 | s :: r => 1 + psub_dl s false + psubs_lines r end.
  Definition psubs_dl (subs : list pair_sub) : N :=
    match subs with [] => 0 | s :: r => psub_dl s true + psubs_lines r end.

  (* "GPOS2:" and the lookup flags *)
  Definition phdr_toks (fl : N) (l : N) : list token := hdr_toks k_GPOS (mkLookup 2 fl []) l.

  Definition xlookup_toks (lk : xlookup) (l : N) : list token :=
    match lk with
    | XOld o => lookup_toks U F k_GPOS o l
    | XPair fl subs => psubs_toks (phdr_toks fl) subs true l
    end.
  Definition xlookup_dl (lk : xlookup) : N :=
    match lk with
    | XOld o => subs_dl (l_subs o)
    | XPair _ subs => psubs_dl subs
    end.

  (* ExplainGpos joined with "\n" *)
  Fixpoint xgpos_toks (ll : list xlookup) (l : N) : list token :=
    match ll with
    | [] => []
    | [lk] => xlookup_toks lk l
    | lk :: r => xlookup_toks lk l ++ [t_eol (l + xlookup_dl lk)] ++ xgpos_toks r (l + xlookup_dl lk + 1)
    end.
  Fixpoint xgpos_dl (ll : list xlookup) : N :=
    match ll with [] => 0 | [lk] => xlookup_dl lk | lk :: r => xlookup_dl lk + 1 + xgpos_dl r end.
End Render2.
