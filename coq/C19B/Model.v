(* C19B/Model.v — part B of property C19: the GPOS2 grammar (pair adjustment,
   Gpos2_1 glyph pairs and Gpos2_2 class pairs) of opentype/gtab/builder,
   which the main development (coq/C19) leaves outside its model.

   The lexer model, the item type, the parser monad, the glyph-list / value-
   record / lookup-flag readers, the glyph-name and quoting machinery of the
   explainer are those of the main development (From C19 Require Import
   Model); this file adds

     read_gpos2 (parser.go: readGpos2, readPairAdjust),
     explain_pair_sub (explain.go: the Gpos2_1 / Gpos2_2 cases of ExplainGpos,
       writePairAdjust),
     M_parse_gpos2   = Parse with EVERY lookup keyword of the language
                       (the main model's parse loop stops at "GPOS2"),
     M_explain_gpos2 = ExplainGpos for lookup lists mixing GPOS1-4.

   Definitions only; proofs are in Proofs*.v. *)
From Coq Require Import List NArith ZArith Bool Arith.
From Gen Require Import C19.
From C19 Require Import Model.
Import ListNotations.
Import K.
Local Open Scope N_scope.

(* ------------------------------------------------------------------ *)
(* Lookup structures                                                   *)

(* gtab.PairAdjust{First, Second *GposValueRecord}; nil = None *)
Definition padj : Type := (option vrec * option vrec)%type.
(* glyph.Pair{Left, Right} *)
Definition pkey : Type := (N * N)%type.

(* Gpos2_1 is a Go map[glyph.Pair]*PairAdjust: the list of its entries in
   ascending (Left, Right) order.  classdef.Table is a Go map[glyph.ID]uint16:
   the list of its (glyph, class) entries in ascending glyph order (entries
   with class 0 are possible in Go and kept).  coverage.Set: ascending glyph
   list.  Adjust [][]*PairAdjust: the rows as they are. *)
Inductive pair_sub : Type :=
| Gpos2_1 (pairs : list (pkey * padj))
| Gpos2_2 (cov : list N) (c1 c2 : list (N * N)) (adj : list (list padj)).

(* a lookup of the list: one the main model speaks about (GSUB1-6, GPOS1,
   GPOS3, GPOS4), or a pair adjustment lookup (LookupType 2) *)
Inductive xlookup : Type :=
| XOld (lk : lookup)
| XPair (flags : N) (subs : list pair_sub).

(* ------------------------------------------------------------------ *)
(* Finite maps as sorted association lists                             *)

Definition pkey_ltb (a b : pkey) : bool :=
  (fst a <? fst b) || ((fst a =? fst b) && (snd a <? snd b)).
Definition pkey_eqb (a b : pkey) : bool := (fst a =? fst b) && (snd a =? snd b).

(* subtable[glyph.Pair{..}] = pair : later entries replace earlier ones *)
Fixpoint pm_set (k : pkey) (v : padj) (m : list (pkey * padj)) : list (pkey * padj) :=
  match m with
  | [] => [(k, v)]
  | (k', v') :: r =>
      if pkey_eqb k' k then (k, v) :: r
      else if pkey_ltb k k' then (k, v) :: m
      else (k', v') :: pm_set k v r
  end.

(* class1[g] = c for a glyph that is not yet in the table *)
Fixpoint cm_ins (g c : N) (m : list (N * N)) : list (N * N) :=
  match m with
  | [] => [(g, c)]
  | (g', c') :: r => if g <? g' then (g, c) :: m else (g', c') :: cm_ins g c r
  end.

(* for _, g := range gg { if _, ok := class1[g]; ok { fatal }; class1[g] = c } *)
Fixpoint cls_add (c : N) (gg : list N) (m : list (N * N)) : option (list (N * N)) :=
  match gg with
  | [] => Some m
  | g :: r => if has_key g m then None else cls_add c r (cm_ins g c m)
  end.

(* classdef.Table.NumClasses: largest class + 1 *)
Definition cls_max (m : list (N * N)) : N := fold_right (fun p a => N.max (snd p) a) 0 m.
Definition cls_count (m : list (N * N)) : nat := S (N.to_nat (cls_max m)).

(* classdef.Table.Glyphs()[c]: the glyphs of class c, ascending *)
Definition class_glyphs (c : N) (m : list (N * N)) : list N :=
  map fst (filter (fun p => snd p =? c) m).
(* classdef.Table.Glyphs()[1:] *)
Definition class_lists_of (m : list (N * N)) : list (list N) :=
  map (fun c => class_glyphs (N.of_nat c) m) (seq 1 (N.to_nat (cls_max m))).

(* ------------------------------------------------------------------ *)
(* M_parse: readGpos2                                                  *)

Section Parser2.
  Variable F : font.
  Variable endl : N.

  (* readPairAdjust *)
  Definition read_pair_adjust (fuel : nat) : P padj :=
    a1 <- read_value_record endl fuel ;;
    b <- optional endl TAmp ;;
    if b then (a2 <- read_value_record endl fuel ;; ret (a1, a2)) else ret (a1, None).

  (* format 1: "A B -> x+1 & y-2, C D -> _"; fatal("expected glyph pair ...")
     peeks, it does not consume *)
  Fixpoint gpos2_1_loop (fuel : nat) (m : list (pkey * padj)) : P (list (pkey * padj)) :=
    match fuel with
    | O => out_of_fuel
    | S f =>
        fr <- read_glyph_list F endl fuel ;;
        match fr with
        | [a; b] =>
            required endl TArrow ;;;
            pa <- read_pair_adjust fuel ;;
            c <- optional endl TComma ;;
            if c then (optional endl TEOL ;;; gpos2_1_loop f (pm_set (a, b) pa m))
            else ret (pm_set (a, b) pa m)
        | _ => fatal endl
        end
    end.

  (* the class lists after "first" / "second":
       for i := 0; ; i++ {
         if p.optional(itemSemicolon) { break }
         if i > 0 { p.required(itemComma, ",") }
         gg := p.readGlyphList()
         for _, g := range gg {
           if classCount > 0xFFFF { fatal }         (fixes/C19-gpos2-class-count.diff)
           if _, ok := class[g]; ok { fatal }
           class[g] = uint16(classCount) }
         classCount++ }
     The first round (i = 0) may consume nothing; every later round consumes
     a comma.  classCount is an int; with the guard the conversion to uint16
     no longer truncates (before the repair the 65536th list became class 0
     and the 65537th was merged into class 1). *)
  Definition class_list_step (fuel : nat) (cnt : N) (m : list (N * N)) : P (list (N * N)) :=
    gg <- read_glyph_list F endl fuel ;;
    if negb (is_nil gg) && (65535 <? cnt) then fatal endl
    else match cls_add (cnt mod 65536) gg m with
         | Some m' => ret m'
         | None => fatal endl
         end.
  Fixpoint class_lists_rest (fuel : nat) (cnt : N) (m : list (N * N)) : P (list (N * N)) :=
    match fuel with
    | O => out_of_fuel
    | S f =>
        b <- optional endl TSemi ;;
        if b then ret m
        else
          required endl TComma ;;;
          m' <- class_list_step fuel cnt m ;;
          class_lists_rest f (cnt + 1) m'
    end.
  Definition class_lists (fuel : nat) : P (list (N * N)) :=
    b <- optional endl TSemi ;;
    if b then ret []
    else (m <- class_list_step fuel 1 [] ;; class_lists_rest fuel 2 m).

  (* p.optional(itemComma, itemSemicolon) *)
  Definition optional2 (ty1 ty2 : ityp) : P bool :=
    t <- read endl ;;
    if ityp_eqb (ttyp t) ty1 || ityp_eqb (ttyp t) ty2 then ret true
    else (unread endl t ;;; ret false).

  (* the class1Count x class2Count matrix: these two loops run over the class
     counts, not over the items *)
  Fixpoint adj_row (fuel : nat) (n : nat) (j0 : bool) : P (list padj) :=
    match n with
    | O => ret []
    | S n' =>
        (if j0 then ret false else optional endl TComma) ;;;
        pa <- read_pair_adjust fuel ;;
        r <- adj_row fuel n' false ;;
        ret (pa :: r)
    end.
  Fixpoint adj_rows (fuel : nat) (n1 n2 : nat) : P (list (list padj)) :=
    match n1 with
    | O => ret []
    | S n1' =>
        row <- adj_row fuel n2 true ;;
        optional2 TComma TSemi ;;;
        optional endl TEOL ;;;
        rs <- adj_rows fuel n1' n2 ;;
        ret (row :: rs)
    end.

  (* format 2 *)
  Definition read_gpos2_2 (fuel : nat) : P pair_sub :=
    required endl TSlash ;;;
    cov <- read_glyph_list F endl fuel ;;
    required endl TSlash ;;;
    optional endl TEOL ;;;
    required_ident endl k_first ;;;
    c1 <- class_lists fuel ;;
    optional endl TEOL ;;;
    required_ident endl k_second ;;;
    c2 <- class_lists fuel ;;
    optional endl TEOL ;;;
    adj <- adj_rows fuel (cls_count c1) (cls_count c2) ;;
    ret (Gpos2_2 (uniq (isort cov)) c1 c2 adj).    (* makeCoverageSet *)

  Fixpoint gpos2_loop (fuel : nat) (subs : list pair_sub) : P (list pair_sub) :=
    match fuel with
    | O => out_of_fuel
    | S f =>
        nxt <- peek endl ;;
        sub <- (if ityp_eqb (ttyp nxt) TSlash then read_gpos2_2 fuel
                else (m <- gpos2_1_loop fuel [] ;; ret (Gpos2_1 m))) ;;
        b <- optional endl TOr ;;
        if b then (optional endl TEOL ;;; gpos2_loop f (subs ++ [sub])) else ret (subs ++ [sub])
    end.

  Definition read_gpos2 (fuel : nat) : P xlookup :=
    flags <- lookup_header endl fuel ;;
    subs <- gpos2_loop fuel [] ;;
    ret (XPair flags subs).

  (* parse(): every keyword of the language *)
  Definition old {A} (m : P lookup) (k : xlookup -> P A) : P A := l <- m ;; k (XOld l).
  Fixpoint parse_loop2 (fuel : nat) (acc : list xlookup) : P (list xlookup) :=
    match fuel with
    | O => out_of_fuel
    | S f =>
        t <- read endl ;;
        match ttyp t with
        | TEOF => ret acc
        | TError => fatal endl
        | TSemi | TEOL => parse_loop2 f acc
        | TIdent =>
            let k := fun l => parse_loop2 f (acc ++ [l]) in
            if list_eqb (tval t) k_GSUB1 then old (read_gsub1 F endl fuel) k
            else if list_eqb (tval t) k_GSUB2 then old (read_gsub2 F endl fuel) k
            else if list_eqb (tval t) k_GSUB3 then old (read_gsub3 F endl fuel) k
            else if list_eqb (tval t) k_GSUB4 then old (read_gsub4 F endl fuel) k
            else if list_eqb (tval t) k_GSUB5 then old (read_seqctx F endl fuel 5) k
            else if list_eqb (tval t) k_GSUB6 then old (read_chainctx F endl fuel 6) k
            else if list_eqb (tval t) k_GPOS1 then old (read_gpos1 F endl fuel) k
            else if list_eqb (tval t) k_GPOS2 then (l <- read_gpos2 fuel ;; k l)
            else if list_eqb (tval t) k_GPOS3 then old (read_gpos3 F endl fuel) k
            else if list_eqb (tval t) k_GPOS4 then old (read_gpos4 F endl fuel) k
            else fatal endl
        | _ => fatal endl
        end
    end.
End Parser2.

Definition strip {A} (r : presult (A * list token)) : presult A :=
  match r with
  | POk (a, _) => POk a
  | PErr l => PErr l
  | PPanic => PPanic
  | PFuel => PFuel
  | PUnmodelled => PUnmodelled
  end.

Definition M_parse_gpos2_tokens (F : font) (ts : list token) : presult (list xlookup) :=
  strip (parse_loop2 F (end_line ts) (S (S (length ts))) [] ts).

(* Parse(fontInfo, input) *)
Definition M_parse_gpos2 (U : uclass) (F : font) (text : list N) : presult (list xlookup) :=
  M_parse_gpos2_tokens F (M_lex U text).

(* readGpos2 alone, on the items after the keyword "GPOS2" *)
Definition M_read_gpos2_tokens (F : font) (ts : list token) : presult xlookup :=
  strip (read_gpos2 F (end_line ts) (S (S (length ts))) ts).

(* ------------------------------------------------------------------ *)
(* M_explain: the Gpos2_1 / Gpos2_2 cases of ExplainGpos               *)

Definition k_amp : list N := [32; 38; 32].          (* " & " *)
Definition k_nlt : list N := [10; 9].               (* "\n\t" *)

Section Explain2.
  Variable U : uclass.
  Variable F : font.

  (* writePairAdjust (the pointer itself is never nil in a parsed table) *)
  Definition write_padj (p : padj) : list N :=
    write_value_record (fst p)
      ++ match snd p with None => [] | Some _ => k_amp ++ write_value_record (snd p) end.

  (* Gpos2_1: CovAndAdjust + sort = the pairs in ascending (Left, Right) order *)
  Fixpoint explain_pairs (l : list (pkey * padj)) (first : bool) : list N :=
    match l with
    | [] => []
    | ((a, b), pa) :: r =>
        (if first then [32] else k_comma) ++ write_glyph_list U F [a; b] ++ k_arrow ++ write_padj pa
          ++ explain_pairs r false
    end.

  (* for i, gg := range class1[1:] { if i > 0 { "," }; " "; writeGlyphList(gg) } *)
  Fixpoint explain_class_lists (ls : list (list N)) (first : bool) : list N :=
    match ls with
    | [] => []
    | gg :: r => (if first then [] else [44]) ++ [32] ++ write_glyph_list U F gg ++ explain_class_lists r false
    end.

  Fixpoint explain_row (row : list padj) (first : bool) : list N :=
    match row with
    | [] => []
    | p :: r => (if first then [] else k_comma) ++ write_padj p ++ explain_row r false
    end.

  (* l.Adjust[i][j] for i < len(class1), j < len(class2) *)
  Definition no_adj : padj := (None, None).
  Definition row_at (adj : list (list padj)) (n2 : nat) (i : nat) : list padj :=
    map (fun j => nth j (nth i adj []) no_adj) (seq 0 n2).
  Definition rows_of (adj : list (list padj)) (n1 n2 : nat) : list (list padj) :=
    map (row_at adj n2) (seq 0 n1).
  (* Go panics (index out of range) when Adjust is smaller than the class
     counts say; larger is ignored *)
  Definition adj_dims_ok (adj : list (list padj)) (n1 n2 : nat) : bool :=
    (n1 <=? length adj)%nat && forallb (fun row => (n2 <=? length row)%nat) (firstn n1 adj).

  Definition explain_rows (rows : list (list padj)) : list N :=
    concat (map (fun row => k_nlt ++ explain_row row true ++ [59]) rows).

  (* a subtable at position i (first <-> i = 0) of its lookup *)
  Definition explain_pair_sub (s : pair_sub) (first : bool) : list N :=
    match s with
    | Gpos2_1 pairs => explain_pairs pairs true
    | Gpos2_2 cov c1 c2 adj =>
        (if first then k_nlt else []) ++ [47] ++ write_glyph_list U F cov ++ [47] ++ k_nlt
          ++ k_first ++ explain_class_lists (class_lists_of c1) true ++ [59] ++ k_nlt
          ++ k_second ++ explain_class_lists (class_lists_of c2) true ++ [59]
          ++ explain_rows (rows_of adj (cls_count c1) (cls_count c2))
    end.
  Definition pair_sub_panics (s : pair_sub) : bool :=
    match s with
    | Gpos2_1 _ => false
    | Gpos2_2 _ c1 c2 adj => negb (adj_dims_ok adj (cls_count c1) (cls_count c2))
    end.

  (* subtables of one lookup: header before the first, " ||\n\t" between *)
  Fixpoint explain_psubs (hdr : list N) (subs : list pair_sub) (first : bool) : list N :=
    match subs with
    | [] => []
    | s :: r => (if first then hdr else k_or) ++ explain_pair_sub s first ++ explain_psubs hdr r false
    end.

  Definition explain_xlookup (l : xlookup) : list N :=
    match l with
    | XOld lk => explain_lookup U F k_GPOS lk
    | XPair fl subs => explain_psubs (k_GPOS ++ digits 2 ++ [58] ++ explain_flags fl) subs true
    end.

  (* ExplainGpos: one string per lookup; callers join them with "\n" *)
  Definition M_explain_gpos2 (ll : list xlookup) : list N :=
    join_nl (map explain_xlookup ll).

  (* ExplainGpos panics on these (see pair_sub_panics) *)
  Definition M_explain_gpos2_panics (ll : list xlookup) : bool :=
    existsb (fun l => match l with XOld _ => false | XPair _ subs => existsb pair_sub_panics subs end) ll.
End Explain2.
