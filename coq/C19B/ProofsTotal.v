(* C19B/ProofsTotal.v — readGpos2, and Parse with every keyword of the
   language, on ANY item stream: lookups or an error with an admissible line;
   never a Go panic, never out of fuel.  The measure is the one of the main
   development (good n: at most n items are left); the two loops over the
   class1Count x class2Count matrix are structural in the counts. *)
From Coq Require Import List NArith ZArith Bool Arith Lia ZifyBool ZifyNat ZifyN.
From Gen Require Import C19.
From C19 Require Import Model Wf Util ProofsTotal.
From C19B Require Import Model.
Import ListNotations.
Import K.
Local Open Scope N_scope.

Section Total2.
  Variable F : font.
  Variable endl : N.
  (* as in the main development: maxp.numGlyphs is a uint16; no cmap entry
     points at glyph 65535 (the uint16 loop of a range ending there in
     readGlyphList would not end) *)
  Hypothesis Hnum : num_glyphs F <= 65535.
  Hypothesis Hcm : Forall (fun p => snd p <> 65535) (f_cmap F).
  Variable Lok : N -> Prop.
  Hypothesis Hendl : Lok endl.

  Local Notation good := (good Lok).
  Local Notation goodlt := (goodlt Lok).
  Local Notation toksL := (toksL Lok).

  Ltac gf := first [exact I | (apply (good_fatal endl Lok Hendl); auto; try (apply (tl_ok Lok); auto))].

  Lemma weaken : forall {A} n n' (r : presult (A * list token)), (n <= n')%nat -> good n r -> good n' r.
  Proof. intros A n n' r. apply (good_weaken F Hnum Lok). Qed.

  (* ---- readPairAdjust ---- *)
  Lemma read_pair_adjust_good : forall fuel ts n, toksL ts -> (length ts <= n)%nat -> (n < fuel)%nat ->
    good n (read_pair_adjust endl fuel ts).
  Proof.
    intros fuel ts n H Hl Hf. unfold read_pair_adjust.
    apply (good_bind Lok _ _ _ n); [apply (rvr_good F endl Hnum Lok Hendl); auto|]. intros a1 ts1 O1 L1.
    apply (good_bind_opt F endl Hnum Lok TAmp _ ts1 n n); auto.
    - intros ts2 O2 L2. apply (good_bind Lok _ _ _ n); [apply (rvr_good F endl Hnum Lok Hendl); auto; lia|].
      intros a2 ts3 O3 L3. apply good_ret; auto.
    - intros ts2 O2 L2. apply good_ret; auto.
  Qed.

  (* ---- format 1 ---- *)
  Lemma gpos2_1_loop_good : forall fuel m ts n, toksL ts -> (length ts <= n)%nat -> (n < fuel)%nat ->
    good n (gpos2_1_loop F endl fuel m ts).
  Proof.
    induction fuel as [|f IH]; intros m ts n H Hl Hf; [lia|]. cbn [gpos2_1_loop].
    apply (good_bind Lok _ _ _ n); [apply (rgl_good' F endl Hnum Hcm Lok Hendl); auto|]. intros fr ts1 O1 L1.
    destruct fr as [|a [|b [|c fr']]]; try gf.
    apply (good_bind_lt Lok _ _ _ n); [apply (required_lt F endl Hnum Lok Hendl); auto|]. intros _ ts2 O2 L2.
    apply (good_bind Lok _ _ _ (length ts2)); [apply read_pair_adjust_good; auto; lia|]. intros pa ts3 O3 L3.
    apply (good_bind_opt F endl Hnum Lok TComma _ ts3 (length ts2) n); auto.
    - intros ts4 O4 L4. apply (good_bind_opt F endl Hnum Lok TEOL _ ts4 (length ts4) n); auto;
        intros ts5 O5 L5; apply (weaken (length ts5)); try lia; apply IH; auto; lia.
    - intros ts4 O4 L4. apply good_ret; auto. lia.
  Qed.

  (* ---- class lists ---- *)
  Lemma class_list_step_good : forall fuel cnt m ts n, toksL ts -> (length ts <= n)%nat -> (n < fuel)%nat ->
    good n (class_list_step F endl fuel cnt m ts).
  Proof.
    intros fuel cnt m ts n H Hl Hf. unfold class_list_step.
    apply (good_bind Lok _ _ _ n); [apply (rgl_good' F endl Hnum Hcm Lok Hendl); auto|]. intros gg ts1 O1 L1.
    destruct (negb (is_nil gg) && (65535 <? cnt)); [gf|].
    destruct (cls_add _ gg m); [apply good_ret; auto|gf].
  Qed.

  Lemma class_lists_rest_good : forall fuel cnt m ts n, toksL ts -> (length ts <= n)%nat -> (n < fuel)%nat ->
    good n (class_lists_rest F endl fuel cnt m ts).
  Proof.
    induction fuel as [|f IH]; intros cnt m ts n H Hl Hf; [lia|]. cbn [class_lists_rest].
    apply (good_bind_opt F endl Hnum Lok TSemi _ ts n n); auto.
    - intros ts1 O1 L1. apply good_ret; auto. lia.
    - intros ts1 O1 L1.
      apply (good_bind_lt Lok _ _ _ n); [apply (required_lt F endl Hnum Lok Hendl); auto|]. intros _ ts2 O2 L2.
      apply (good_bind Lok _ _ _ (length ts2)); [apply class_list_step_good; auto; lia|]. intros m' ts3 O3 L3.
      apply (weaken (length ts3)); [lia|]. apply IH; auto. lia.
  Qed.

  Lemma class_lists_good : forall fuel ts n, toksL ts -> (length ts <= n)%nat -> (n < fuel)%nat ->
    good n (class_lists F endl fuel ts).
  Proof.
    intros fuel ts n H Hl Hf. unfold class_lists.
    apply (good_bind_opt F endl Hnum Lok TSemi _ ts n n); auto.
    - intros ts1 O1 L1. apply good_ret; auto. lia.
    - intros ts1 O1 L1.
      apply (good_bind Lok _ _ _ n); [apply class_list_step_good; auto|]. intros m ts2 O2 L2.
      apply class_lists_rest_good; auto.
  Qed.

  (* ---- the matrix: no fuel, the loops run over the class counts ---- *)
  Lemma optional2_good : forall ty1 ty2 ts, ityp_eqb TEOF ty1 = false -> ityp_eqb TEOF ty2 = false -> toksL ts ->
    match optional2 endl ty1 ty2 ts with
    | POk (b, ts') => toksL ts' /\ (length ts' <= length ts)%nat
    | _ => False
    end.
  Proof.
    intros ty1 ty2 ts H1 H2 H. unfold optional2, bind. rewrite read_eq.
    destruct (ityp_eqb (ttyp (peek_tok endl ts)) ty1 || ityp_eqb (ttyp (peek_tok endl ts)) ty2) eqn:E.
    - cbn. split; [apply (tl_ok Lok); auto|]. destruct ts; cbn; lia.
    - destruct (unread_peek endl Lok ts H) as (ts' & Eu & Ok & Len). rewrite Eu. cbn. auto.
  Qed.

  Lemma adj_row_good : forall fuel k j0 ts n, toksL ts -> (length ts <= n)%nat -> (n < fuel)%nat ->
    good n (adj_row endl fuel k j0 ts).
  Proof.
    intros fuel. induction k as [|k IH]; intros j0 ts n H Hl Hf; cbn [adj_row]; [apply good_ret; auto|].
    assert (K : forall ts1, toksL ts1 -> (length ts1 <= n)%nat ->
                good n ((pa <- read_pair_adjust endl fuel ;; r <- adj_row endl fuel k false ;; ret (pa :: r)) ts1)).
    { intros ts1 O1 L1. apply (good_bind Lok _ _ _ n); [apply read_pair_adjust_good; auto|]. intros pa ts2 O2 L2.
      apply (good_bind Lok _ _ _ n); [apply IH; auto|]. intros r ts3 O3 L3. apply good_ret; auto. }
    destruct j0.
    - unfold bind at 1. unfold ret at 1. apply K; auto.
    - apply (good_bind_opt F endl Hnum Lok TComma _ ts n n); auto; intros ts1 O1 L1; apply K; auto; lia.
  Qed.

  Lemma adj_rows_good : forall fuel n1 n2 ts n, toksL ts -> (length ts <= n)%nat -> (n < fuel)%nat ->
    good n (adj_rows endl fuel n1 n2 ts).
  Proof.
    intros fuel. induction n1 as [|n1 IH]; intros n2 ts n H Hl Hf; cbn [adj_rows]; [apply good_ret; auto|].
    apply (good_bind Lok _ _ _ n); [apply adj_row_good; auto|]. intros row ts1 O1 L1.
    unfold bind at 1. pose proof (optional2_good TComma TSemi ts1 eq_refl eq_refl O1) as G2.
    destruct (optional2 endl TComma TSemi ts1) as [[b ts2]|l| | |]; try contradiction. destruct G2 as [O2 L2].
    apply (good_bind_opt F endl Hnum Lok TEOL _ ts2 n n); auto; try lia;
      intros ts3 O3 L3;
      (apply (good_bind Lok _ _ _ n); [apply IH; auto; lia|]); intros rs ts4 O4 L4; apply good_ret; auto.
  Qed.

  (* ---- format 2 ---- *)
  Lemma read_gpos2_2_good : forall fuel ts n, toksL ts -> (length ts <= n)%nat -> (n < fuel)%nat ->
    good n (read_gpos2_2 F endl fuel ts).
  Proof.
    intros fuel ts n H Hl Hf. unfold read_gpos2_2.
    apply (good_bind_lt Lok _ _ _ n); [apply (required_lt F endl Hnum Lok Hendl); auto|]. intros _ ts1 O1 L1.
    apply (good_bind Lok _ _ _ n); [apply (rgl_good' F endl Hnum Hcm Lok Hendl); auto; lia|]. intros cov ts2 O2 L2.
    apply (good_bind_lt Lok _ _ _ n); [apply (required_lt F endl Hnum Lok Hendl); auto|]. intros _ ts3 O3 L3.
    assert (K : forall ts4, toksL ts4 -> (length ts4 <= n)%nat ->
      good n ((required_ident endl k_first ;;;
               c1 <- class_lists F endl fuel ;; optional endl TEOL ;;; required_ident endl k_second ;;;
               c2 <- class_lists F endl fuel ;; optional endl TEOL ;;;
               adj <- adj_rows endl fuel (cls_count c1) (cls_count c2) ;; ret (Gpos2_2 (uniq (isort cov)) c1 c2 adj)) ts4)).
    { intros ts4 O4 L4.
      apply (good_bind_lt Lok _ _ _ n); [apply (required_ident_lt F endl Hnum Lok Hendl); auto|]. intros _ ts5 O5 L5.
      apply (good_bind Lok _ _ _ n); [apply class_lists_good; auto; lia|]. intros c1 ts6 O6 L6.
      assert (K2 : forall ts7, toksL ts7 -> (length ts7 <= n)%nat ->
        good n ((required_ident endl k_second ;;;
                 c2 <- class_lists F endl fuel ;; optional endl TEOL ;;;
                 adj <- adj_rows endl fuel (cls_count c1) (cls_count c2) ;; ret (Gpos2_2 (uniq (isort cov)) c1 c2 adj)) ts7)).
      { intros ts7 O7 L7.
        apply (good_bind_lt Lok _ _ _ n); [apply (required_ident_lt F endl Hnum Lok Hendl); auto|]. intros _ ts8 O8 L8.
        apply (good_bind Lok _ _ _ n); [apply class_lists_good; auto; lia|]. intros c2 ts9 O9 L9.
        assert (K3 : forall ts10, toksL ts10 -> (length ts10 <= n)%nat ->
          good n ((adj <- adj_rows endl fuel (cls_count c1) (cls_count c2) ;; ret (Gpos2_2 (uniq (isort cov)) c1 c2 adj)) ts10)).
        { intros ts10 O10 L10. apply (good_bind Lok _ _ _ n); [apply adj_rows_good; auto|]. intros adj ts11 O11 L11.
          apply good_ret; auto. }
        apply (good_bind_opt F endl Hnum Lok TEOL _ ts9 n n); auto; intros ts10 O10 L10; apply K3; auto; lia. }
      apply (good_bind_opt F endl Hnum Lok TEOL _ ts6 n n); auto; intros ts7 O7 L7; apply K2; auto; lia. }
    apply (good_bind_opt F endl Hnum Lok TEOL _ ts3 n n); auto; try lia; intros ts4 O4 L4; apply K; auto; lia.
  Qed.

  (* ---- the subtable loop, the lookup ---- *)
  Lemma gpos2_loop_good : forall fuel subs ts n, toksL ts -> (length ts <= n)%nat -> (n < fuel)%nat ->
    good n (gpos2_loop F endl fuel subs ts).
  Proof.
    induction fuel as [|f IH]; intros subs ts n H Hl Hf; [lia|]. cbn [gpos2_loop].
    destruct (peek_good endl Lok ts H) as (ts0 & Ep & O0 & L0). unfold bind at 1. rewrite Ep.
    apply (good_bind Lok _ _ _ n).
    - destruct (ityp_eqb (ttyp (peek_tok endl ts)) TSlash).
      + apply read_gpos2_2_good; auto. lia.
      + apply (good_bind Lok _ _ _ n); [apply gpos2_1_loop_good; auto; lia|]. intros m ts1 O1 L1.
        apply good_ret; auto.
    - intros sub ts1 O1 L1.
      apply (good_bind_opt F endl Hnum Lok TOr _ ts1 n n); auto.
      + intros ts4 O4 L4. apply (good_bind_opt F endl Hnum Lok TEOL _ ts4 (length ts4) n); auto;
          intros ts5 O5 L5; apply (weaken (length ts5)); try lia; apply IH; auto; lia.
      + intros ts4 O4 L4. apply good_ret; auto.
  Qed.

  Lemma read_gpos2_good : forall fuel ts n, toksL ts -> (length ts <= n)%nat -> (n < fuel)%nat ->
    good n (read_gpos2 F endl fuel ts).
  Proof.
    intros fuel ts n H Hl Hf. unfold read_gpos2.
    apply (good_bind Lok _ _ _ n); [apply (header_good F endl Hnum Lok Hendl); auto|]. intros fl ts1 O1 L1.
    apply (good_bind Lok _ _ _ n); [apply gpos2_loop_good; auto|]. intros res ts2 O2 L2.
    apply good_ret; auto.
  Qed.

  (* ---- parse() with every keyword ---- *)
  Lemma parse_loop2_good : forall fuel acc ts n, toksL ts -> (length ts <= n)%nat -> (n < fuel)%nat ->
    good n (parse_loop2 F endl fuel acc ts).
  Proof.
    induction fuel as [|f IH]; intros acc ts n H Hl Hf; [lia|]. cbn [parse_loop2].
    unfold bind at 1. rewrite read_eq.
    assert (Hs : ttyp (peek_tok endl ts) <> TEOF -> toksL (tl ts) /\ (S (length (tl ts)) <= n)%nat).
    { intros X. apply (peek_not_eof_len endl) in X. split; [apply (tl_ok Lok); auto|lia]. }
    assert (Hk : forall (rd : nat -> P lookup),
               (forall ts' n', toksL ts' -> (length ts' <= n')%nat -> (n' < S f)%nat -> good n' (rd (S f) ts')) ->
               ttyp (peek_tok endl ts) <> TEOF ->
               good n (old (rd (S f)) (fun l => parse_loop2 F endl f (acc ++ [l])) (tl ts))).
    { intros rd Hrd X. destruct (Hs X) as [O1 L1]. unfold old.
      apply (good_bind Lok _ _ _ (length (tl ts))); [apply Hrd; auto; lia|]. intros l ts2 O2 L2.
      apply (weaken (length ts2)); [lia|]. apply IH; auto. lia. }
    destruct (ttyp (peek_tok endl ts)) eqn:E; try gf.
    - apply good_ret; [apply (tl_ok Lok); auto|]. destruct ts; cbn in *; lia.
    - destruct Hs as [O1 L1]; [discriminate|]. apply (weaken (length (tl ts))); [lia|]. apply IH; auto. lia.
    - assert (X : TIdent <> TEOF) by discriminate. cbv zeta.
      repeat match goal with |- context [if ?b then _ else _] => destruct b end; try gf.
      + apply (Hk (read_gsub1 F endl)); auto. intros; apply (read_gsub1_good F endl Hnum Hcm Lok Hendl); auto.
      + apply (Hk (read_gsub2 F endl)); auto. intros; apply (read_gsub2_good F endl Hnum Hcm Lok Hendl); auto.
      + apply (Hk (read_gsub3 F endl)); auto. intros; apply (read_gsub3_good F endl Hnum Hcm Lok Hendl); auto.
      + apply (Hk (read_gsub4 F endl)); auto. intros; apply (read_gsub4_good F endl Hnum Hcm Lok Hendl); auto.
      + apply (Hk (fun fu => read_seqctx F endl fu 5)); auto. intros; apply (read_seqctx_good F endl Hnum Hcm Lok Hendl); auto.
      + apply (Hk (fun fu => read_chainctx F endl fu 6)); auto. intros; apply (read_chainctx_good F endl Hnum Hcm Lok Hendl); auto.
      + apply (Hk (read_gpos1 F endl)); auto. intros; apply (read_gpos1_good F endl Hnum Hcm Lok Hendl); auto.
      + destruct (Hs X) as [O1 L1].
        apply (good_bind Lok _ _ _ (length (tl ts))); [apply read_gpos2_good; auto; lia|]. intros l ts2 O2 L2.
        apply (weaken (length ts2)); [lia|]. apply IH; auto. lia.
      + apply (Hk (read_gpos3 F endl)); auto. intros; apply (read_gpos3_good F endl Hnum Hcm Lok Hendl); auto.
      + apply (Hk (read_gpos4 F endl)); auto. intros; apply (read_gpos4_good F endl Hnum Hcm Lok Hendl); auto.
    - destruct Hs as [O1 L1]; [discriminate|]. apply (weaken (length (tl ts))); [lia|]. apply IH; auto. lia.
  Qed.
End Total2.

(* ------------------------------------------------------------------ *)
(* The statements                                                      *)

Definition total_xresult {A} (Lok : N -> Prop) (r : presult A) : Prop :=
  match r with
  | POk _ | PUnmodelled => True
  | PErr l => Lok l
  | PPanic | PFuel => False
  end.

Lemma toksL_of : forall (Lok : N -> Prop) ts, toks_ok ts -> Forall (fun t => Lok (tline t)) ts -> toksL Lok ts.
Proof.
  intros Lok ts H HL. unfold toksL, tokL, toks_ok in *. rewrite Forall_forall in *.
  intros t Ht. split; [apply H; auto|apply HL; auto].
Qed.

(* readGpos2 on the items that follow the keyword "GPOS2" *)
Theorem read_gpos2_tokens_total : forall F ts (Lok : N -> Prop), total_font_ok F -> toks_ok ts ->
  Forall (fun t => Lok (tline t)) ts -> Lok (end_line ts) ->
  total_xresult Lok (M_read_gpos2_tokens F ts).
Proof.
  intros F ts Lok [Hn Hc] H HL He. unfold M_read_gpos2_tokens.
  pose proof (read_gpos2_good F (end_line ts) Hn Hc Lok He (S (S (length ts))) ts (length ts)
                (toksL_of Lok ts H HL) (le_n _)) as G.
  assert (L : (length ts < S (S (length ts)))%nat) by lia. specialize (G L).
  destruct (read_gpos2 F (end_line ts) (S (S (length ts))) ts) as [[ll ts']|l| | |]; cbn in G; cbn; auto.
Qed.

(* Parse with all keywords *)
Theorem parse_gpos2_tokens_total : forall F ts (Lok : N -> Prop), total_font_ok F -> toks_ok ts ->
  Forall (fun t => Lok (tline t)) ts -> Lok (end_line ts) ->
  total_xresult Lok (M_parse_gpos2_tokens F ts).
Proof.
  intros F ts Lok [Hn Hc] H HL He. unfold M_parse_gpos2_tokens.
  pose proof (parse_loop2_good F (end_line ts) Hn Hc Lok He (S (S (length ts))) [] ts (length ts)
                (toksL_of Lok ts H HL) (le_n _)) as G.
  assert (L : (length ts < S (S (length ts)))%nat) by lia. specialize (G L).
  destruct (parse_loop2 F (end_line ts) (S (S (length ts))) [] ts) as [[ll ts']|l| | |]; cbn in G; cbn; auto.
Qed.

Theorem parse_gpos2_total_text : forall U F text, total_font_ok F ->
  total_xresult (fun l => 1 <= l <= 1 + newlines text) (M_parse_gpos2 U F text).
Proof.
  intros U F text HF. unfold M_parse_gpos2. destruct (lex_lines U text) as [A B].
  apply parse_gpos2_tokens_total; auto. apply lex_toks_ok.
Qed.
