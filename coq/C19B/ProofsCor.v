(* C19B/ProofsCor.v — the clauses of the property as corollaries of
   parse_explain_xgpos (this part) and parse_explain_gpos_all (main). *)
From Coq Require Import List NArith ZArith Bool Arith Lia.
From Gen Require Import C19.
From C19 Require Import Model Wf.
From C19 Require ProofsParse.
From C19B Require Import Model Wf ProofsParse.
Import ListNotations.
Local Open Scope N_scope.

Lemma gpos2_wf_x : forall F lk, gpos2_lookup_wf F lk = true -> xgpos_lookup_wf F lk = true.
Proof. intros F lk H. unfold xgpos_lookup_wf. rewrite H. apply orb_true_r. Qed.

Lemma gpos2_1_wf_x : forall F lk, gpos2_1_lookup_wf F lk = true -> xgpos_lookup_wf F lk = true.
Proof. intros F lk H. unfold gpos2_1_lookup_wf in H. apply andb_true_iff in H. apply gpos2_wf_x. tauto. Qed.

Lemma gpos2_2_wf_x : forall F lk, gpos2_2_lookup_wf F lk = true -> xgpos_lookup_wf F lk = true.
Proof. intros F lk H. unfold gpos2_2_lookup_wf in H. apply andb_true_iff in H. apply gpos2_wf_x. tauto. Qed.

Lemma xgpos4_wf_x : forall F lk, xgpos4_lookup_wf F lk = true -> xgpos_lookup_wf F lk = true.
Proof.
  intros F [o|fl subs] H; cbn [xgpos4_lookup_wf] in H; [|discriminate].
  unfold xgpos_lookup_wf, old_gpos_lookup_wf, gpos_lookup_wf_all. rewrite H. rewrite orb_true_r. reflexivity.
Qed.

Lemma parse_explain_sub : forall (wf : font -> xlookup -> bool),
  (forall F lk, wf F lk = true -> xgpos_lookup_wf F lk = true) ->
  forall U F ll, font_wf U F = true -> Forall (fun lk => wf F lk = true) ll ->
  M_parse_gpos2 U F (M_explain_gpos2 U F ll) = POk ll.
Proof.
  intros wf Hwf U F ll HF Hll. apply parse_explain_xgpos; auto.
  eapply Forall_impl; [|exact Hll]. intros lk. apply Hwf.
Qed.

Lemma parse_explain_gpos2_1 : forall U F ll,
  font_wf U F = true -> Forall (fun lk => gpos2_1_lookup_wf F lk = true) ll ->
  M_parse_gpos2 U F (M_explain_gpos2 U F ll) = POk ll.
Proof. apply (parse_explain_sub gpos2_1_lookup_wf). exact gpos2_1_wf_x. Qed.

Lemma parse_explain_gpos2_2 : forall U F ll,
  font_wf U F = true -> Forall (fun lk => gpos2_2_lookup_wf F lk = true) ll ->
  M_parse_gpos2 U F (M_explain_gpos2 U F ll) = POk ll.
Proof. apply (parse_explain_sub gpos2_2_lookup_wf). exact gpos2_2_wf_x. Qed.

Lemma parse_explain_gpos2 : forall U F ll,
  font_wf U F = true -> Forall (fun lk => gpos2_lookup_wf F lk = true) ll ->
  M_parse_gpos2 U F (M_explain_gpos2 U F ll) = POk ll.
Proof. apply (parse_explain_sub gpos2_lookup_wf). exact gpos2_wf_x. Qed.

Lemma parse_explain_xgpos4 : forall U F ll,
  font_wf U F = true -> Forall (fun lk => xgpos4_lookup_wf F lk = true) ll ->
  M_parse_gpos2 U F (M_explain_gpos2 U F ll) = POk ll.
Proof. apply (parse_explain_sub xgpos4_lookup_wf). exact xgpos4_wf_x. Qed.

(* GPOS4 in the main development's own model *)
Lemma parse_explain_gpos4_main : forall U F (ll : list lookup),
  font_wf U F = true -> Forall (fun lk => gpos4_lookup_wf F lk = true) ll ->
  M_parse U F (M_explain_gpos U F ll) = POk ll.
Proof.
  intros U F ll HF Hll. apply C19.ProofsParse.parse_explain_gpos_all; auto.
  eapply Forall_impl; [|exact Hll]. intros lk H. unfold gpos_lookup_wf_all. rewrite H. apply orb_true_r.
Qed.

(* on lists of old lookups the two explainers write the same text *)
Lemma explain_gpos2_old : forall U F (ll : list lookup),
  M_explain_gpos2 U F (map XOld ll) = M_explain_gpos U F ll.
Proof. intros U F ll. unfold M_explain_gpos2, M_explain_gpos. rewrite map_map. reflexivity. Qed.
