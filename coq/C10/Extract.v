From Coq Require Import Extraction ExtrOcamlBasic.
From Common Require Import Conv.
From C10 Require Import Model Observe.
Extraction "c10_model.ml" conv_anchor run run_spec in_domain.
