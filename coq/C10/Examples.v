(* C10/Examples.v — non-vacuity: concrete fonts and lists that satisfy the
   hypotheses of every theorem of Props.v, with non-trivial results (extras
   through rules and nested composites, re-keyed tables, several FDs), and
   witnesses for what the theorems deliberately do NOT say. *)
From Coq Require Import List NArith ZArith Bool Arith.
From Common Require Import Bytes Outcome.
From C10 Require Import Model Spec Observe.
Import ListNotations.
Local Open Scope N_scope.

Definition sg (o : N) (w : Z) (n : N) : glyph := mkGlyph o w n 0 0 [].
Definition cg (o : N) (w : Z) (n : N) (cc : list N) : glyph := mkGlyph o w n 0 0 cc.

(* TrueType: 0 notdef, 1 simple, 2 = comp(9), 3 = comp(1,2), 4 = comp(3,5) (nested), 5 6 simple,
   7 = ligature of 1 2, 8 = single substitute of 6, 9 simple *)
Definition ex_glyf : font :=
  mkFont KGlyf
    [sg 100 500 0; sg 101 510 1; cg 102 520 2 [9]; cg 103 530 3 [1; 2]; cg 104 540 4 [3; 5];
     sg 105 550 5; sg 106 560 6; sg 107 570 7; sg 108 580 8; sg 109 590 9]
    [] []
    [[(65, 1); (66, 2); (67, 4); (68, 7); (69, 5)]]
    None
    [[Single1 2 [6]]; [Lig [(1, [([2], 7)]); (5, [([1; 2], 8)])]]]
    [[[((1, 2), (-30)%Z); ((5, 2), 15%Z); ((7, 6), 40%Z)]]].

Definition ex_list : list N := [0; 4; 2; 1; 6].

Example ex_glyf_wf : wf_fontb ex_glyf = true /\ wf_listb ex_glyf ex_list = true /\ starts0 ex_list = true.
Proof. vm_compute. repeat split. Qed.

(* listed glyphs, then the extras: 8 (single substitute of 6), 7 (ligature of 1 2),
   the components 3, 5 of glyph 4 (3 is itself a composite of listed glyphs) and 9 of glyph 2 *)
Example ex_glyf_sel : forall r, M_subset [] ex_glyf ex_list = Ok r ->
  r_sel r = [0; 4; 2; 1; 6; 8; 7; 3; 5; 9] /\
  f_cmaps (r_font r) = [[(65, 3); (66, 2); (67, 1)]] /\
  f_gsub (r_font r) = [[Single2 [(4, 5)]]; [Lig [(3, [([2], 6)])]]] /\
  f_gpos (r_font r) = [[[((3, 2), (-30)%Z); ((6, 4), 40%Z)]]] /\
  map g_comps (f_glyphs (r_font r)) = [[]; [7; 8]; [9]; []; []; []; []; [3; 2]; []; []].
Proof. vm_compute. intros r H. inversion H. repeat split. Qed.

Example ex_glyf_runs : exists r, M_subset [] ex_glyf ex_list = Ok r.
Proof. vm_compute. eexists. reflexivity. Qed.

Definition orc2 : list nat := [0; 0; 0; 2]%nat.

(* another iteration order gives another order of the extras, the same set *)
Example ex_glyf_other_order : forall r, M_subset orc2 ex_glyf ex_list = Ok r ->
  r_sel r = [0; 4; 2; 1; 6; 8; 7; 9; 3; 5].
Proof. vm_compute. intros r H. inversion H. reflexivity. Qed.

(* ... and the canonical observation is the same, and equals that of S_subset *)
Example ex_glyf_canonical :
  run false [] ex_glyf ex_list = run false orc2 ex_glyf ex_list /\
  (match run false [] ex_glyf ex_list, run_spec false ex_glyf ex_list with
   | RObs o, Some o' => o = o'
   | _, _ => False
   end).
Proof. vm_compute. split; reflexivity. Qed.

(* shaping with the subset commutes with renumbering on this font: "1 2 6" *)
Example ex_glyf_shape : forall r, M_subset [] ex_glyf ex_list = Ok r ->
  shape_all (f_gsub ex_glyf) [1; 2; 6] = [7; 8] /\
  shape_all (f_gsub (r_font r)) [3; 2; 4] = [6; 5].
Proof. vm_compute. intros r H. inversion H. split; reflexivity. Qed.

(* CID-keyed CFF with three FDs; the subset uses two of them, re-indexed *)
Definition cidg (o : N) (w : Z) (c fd : N) : glyph := mkGlyph o w 0 c fd [].
Definition ex_cid : font :=
  mkFont KCid
    [cidg 200 500 0 0; cidg 201 510 17 2; cidg 202 520 5 1; cidg 203 530 9 2; cidg 204 540 3 0]
    [11; 22; 33] [7; 8; 9]
    [[(48, 1); (49, 3)]] None
    [[Lig [(3, [([1], 2)])]]]
    [].

Example ex_cid_wf : wf_fontb ex_cid = true /\ wf_listb ex_cid [0; 3; 1] = true.
Proof. vm_compute. split; reflexivity. Qed.

Example ex_cid_result : forall r, M_subset [] ex_cid [0; 3; 1] = Ok r ->
  r_sel r = [0; 3; 1; 2] /\
  f_privs (r_font r) = [11; 33; 22] /\ f_mats (r_font r) = [7; 9; 8] /\
  map g_fd (f_glyphs (r_font r)) = [0; 1; 1; 2] /\ map g_cid (f_glyphs (r_font r)) = [0; 9; 17; 5].
Proof. vm_compute. intros r H. inversion H. repeat split. Qed.

(* simple CFF with an encoding *)
Definition ex_cff : font :=
  mkFont KCff [sg 300 500 0; sg 301 510 1; sg 302 520 2; sg 303 530 3] [44] []
    [] (Some [0; 1; 2; 3; 0; 2]) [] [].

Example ex_cff_enc : wf_fontb ex_cff = true /\ wf_listb ex_cff [0; 3; 1] = true /\
  forall r, M_subset [] ex_cff [0; 3; 1] = Ok r -> f_enc (r_font r) = Some [0; 2; 0; 1; 0; 0].
Proof. vm_compute. repeat split. intros r H. inversion H. reflexivity. Qed.

Example ex_cff_only : forall r, M_cff_subset ex_cid [0; 3; 1] = Ok r -> r_sel r = [0; 3; 1].
Proof. vm_compute. intros r H. inversion H. reflexivity. Qed.

(* ------------------------------------------------------------------ *)
(* Blank glyphs (zero-length glyf entries).  0 .notdef, 1 space (blank),
   2 A, 3 nbspace = comp(space), 4 Aspace = comp(A, space), 5 outer =
   comp(nbspace), 6 thinspace (blank, not used), 7 figurespace (blank, same
   width as space).  The blank component is appended like any other, also
   when it is reachable only through the nested composite, and the references
   lead to it (new glyph 5), not to glyph 0. *)
Definition ex_blank : font :=
  mkFont KGlyf
    [sg 100 500 0; sg blank_outline 250 1; sg 102 600 2; cg 103 250 3 [1]; cg 104 850 4 [2; 1];
     cg 105 250 5 [3]; sg blank_outline 120 6; sg blank_outline 250 7]
    [] [] [[(32, 1); (65, 2); (160, 3)]] None [] [].

Example ex_blank_wf : wf_fontb ex_blank = true /\ wf_listb ex_blank [0; 5; 4] = true /\
  map is_blank (f_glyphs ex_blank) = [false; true; false; false; false; false; true; true].
Proof. vm_compute. repeat split. Qed.

Example ex_blank_appended : forall r, M_subset [] ex_blank [0; 5; 4] = Ok r ->
  r_sel r = [0; 5; 4; 3; 2; 1] /\
  map g_comps (f_glyphs (r_font r)) = [[]; [3]; [4; 5]; [5]; []; []] /\
  map is_blank (f_glyphs (r_font r)) = [false; false; false; false; false; true] /\
  map g_name (f_glyphs (r_font r)) = [0; 5; 4; 3; 2; 1].
Proof. vm_compute. intros r H. inversion H. repeat split. Qed.

(* only the outer composite listed: space is two levels down *)
Example ex_blank_nested_only : forall r, M_subset [] ex_blank [0; 5] = Ok r ->
  r_sel r = [0; 5; 3; 1] /\ map g_comps (f_glyphs (r_font r)) = [[]; [2]; [3]; []].
Proof. vm_compute. intros r H. inversion H. repeat split. Qed.

(* a listed blank glyph keeps its place; another blank glyph with the same
   width is a different glyph (name 7, not 1) and is not pulled in *)
Example ex_blank_listed : forall r, M_subset [] ex_blank [0; 7; 3; 1] = Ok r ->
  r_sel r = [0; 7; 3; 1] /\ map g_comps (f_glyphs (r_font r)) = [[]; []; [3]; []] /\
  f_cmaps (r_font r) = [[(32, 3); (160, 2)]].
Proof. vm_compute. intros r H. inversion H. repeat split. Qed.

Example ex_blank_canonical :
  match run false [] ex_blank [0; 5; 4], run false [2; 0; 1]%nat ex_blank [0; 5; 4], run_spec false ex_blank [0; 5; 4] with
  | RObs o, RObs o2, Some o' => o = o' /\ o2 = o'
  | _, _, _ => False
  end.
Proof. vm_compute. split; reflexivity. Qed.

(* ------------------------------------------------------------------ *)
(* What the theorems do not claim (stated so that nobody reads more into
   them): a character whose glyph is only an appended extra is NOT mapped in
   the subset (the cmap is built from the given list) ... *)
Example cmap_covers_extras_refuted :
  exists f gl r code g, wf_fontb f = true /\ wf_listb f gl = true /\ M_subset [] f gl = Ok r /\
    match nth_error (f_cmaps f) 0, nth_error (f_cmaps (r_font r)) 0 with
    | Some c, Some c' => lookup code c = Some g /\ In g (r_sel r) /\ lookup code c' = None
    | _, _ => False
    end.
Proof.
  exists ex_glyf, ex_list. eexists. exists 68, 7.
  split; [vm_compute; reflexivity|]. split; [vm_compute; reflexivity|].
  split; [vm_compute; reflexivity|]. vm_compute. repeat split; auto 12.
Qed.

(* ... and a rule whose input enters the subset only as a composite component
   does not fire (the rule closure runs before the component closure): glyph 5
   is a component of 4, the rule 5 1 2 -> 8 exists, 1 and 2 are listed, yet 8
   would be missing if 6 were not listed *)
Example rules_after_components_refuted :
  exists f gl r, wf_fontb f = true /\ wf_listb f gl = true /\ M_subset [] f gl = Ok r /\
    In 5 (r_sel r) /\ In 1 (r_sel r) /\ In 2 (r_sel r) /\ ~ In 8 (r_sel r).
Proof.
  exists ex_glyf, [0; 4; 2; 1]. eexists.
  split; [vm_compute; reflexivity|]. split; [vm_compute; reflexivity|].
  split; [vm_compute; reflexivity|]. vm_compute. repeat split; auto 12.
  intros H. repeat (destruct H as [H|H]; [discriminate|]). exact H.
Qed.

(* outside the domain the model panics like the Go code: a list naming a
   glyph the font does not have, an input font with a format the subsetter
   does not implement *)
Example out_of_range_panics : M_subset [] ex_cff [0; 9] = Panic.
Proof. vm_compute. reflexivity. Qed.

(* GSUB 2.1 / 3.1: the rules are collected, then the rebuild panics *)
Example gsub21_panics :
  M_subset [] (mkFont KGlyf [sg 1 1 0; sg 2 2 1; sg 3 3 2] [] [] [] None [[Multi false [(1, [2; 2])]]] []) [0] = Panic.
Proof. vm_compute. reflexivity. Qed.

Example gsub31_panics :
  M_subset [] (mkFont KGlyf [sg 1 1 0; sg 2 2 1; sg 3 3 2] [] [] [] None [[Multi true [(1, [2; 0])]]] []) [0; 1] = Panic.
Proof. vm_compute. reflexivity. Qed.

(* the GSUB table of a subset carries 1.2 subtables: a subset cannot be
   subsetted again *)
Example subset_of_subset_panics : forall r, M_subset [] ex_glyf ex_list = Ok r ->
  M_subset [] (r_font r) [0; 1] = Panic.
Proof. vm_compute. intros r H. inversion H. reflexivity. Qed.

Example gsub12_panics :
  M_subset [] (mkFont KCff [sg 1 1 0; sg 2 2 1] [44] [] [] None [[Single2 [(1, 0)]]] []) [0] = Panic.
Proof. vm_compute. reflexivity. Qed.
