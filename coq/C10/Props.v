(* C10/Props.v — the property theorems.  Nothing else.

   Domain: `wf_fontb f = true` (abstract font with at most 65536 glyphs whose
   composite references, rule glyphs and FD indices are in range, GSUB 1.1 /
   4.1 only, every coverage / cmap / pair table a finite map) and
   `wf_listb f gl = true` (duplicate-free list of glyphs of the font).  Every
   theorem holds for EVERY iteration-order oracle `orc` (the Go code iterates
   over maps) and includes that the model returns a subset (no Panic, no
   OutOfFuel).  `r_sel r` lists, for every glyph of the subset, the original
   glyph it came from; `pos0 (r_sel r) g` is the new index of original glyph g.

   R1 f gl = listed glyphs + outputs of substitution rules (to a fixed point);
   Needed f gl = R1, plus (TrueType) all composite components, recursively. *)
From Coq Require Import List NArith ZArith Bool Arith.
From Common Require Import Bytes Outcome.
From Coq Require Import Permutation.
From C10 Require Import Model Spec Util Proofs_main Proofs_props Proofs_spec.
Import ListNotations.
Local Open Scope N_scope.

(* C10 clause 1: glyph i of the subset is the original glyph listed at
   position i - same outline, advance width, name, CID, private dictionary and
   font matrix; the same holds for every appended glyph. *)
Theorem glyph_i_is_original : forall orc f gl, wf_fontb f = true -> wf_listb f gl = true ->
  exists r, M_subset orc f gl = Ok r /\
    length (f_glyphs (r_font r)) = length (r_sel r) /\
    (forall i g, nth_error gl i = Some g -> nth_error (r_sel r) i = Some g) /\
    (forall i g, nth_error (r_sel r) i = Some g ->
       exists x y, nth_error (f_glyphs f) (N.to_nat g) = Some x /\
                   nth_error (f_glyphs (r_font r)) i = Some y /\
         g_outline y = g_outline x /\ g_width y = g_width x /\ g_name y = g_name x /\ g_cid y = g_cid x /\
         (f_kind f <> KGlyf -> priv_of (r_font r) y = priv_of f x /\ priv_of (r_font r) y <> None) /\
         (f_kind f = KCid -> mat_of (r_font r) y = mat_of f x /\ mat_of (r_font r) y <> None)).
Proof.
  intros orc f gl Hwf Hl. destruct (M_subset_facts orc f gl Hwf Hl) as [r [E F]]. exists r.
  split; [exact E|]. split; [exact (cl_count f gl r F)|]. split; [exact (cl_listed f gl r F)|exact (cl_glyph f gl r F)].
Qed.
Print Assumptions glyph_i_is_original.

(* C10 clause 2: the list is kept as the prefix, no glyph occurs twice, the
   glyphs of the subset are exactly the needed ones (closed and minimal), and
   every composite reference of the subset points to the new glyph that
   carries the component the original referred to. *)
Theorem closure_minimal_and_closed : forall orc f gl, wf_fontb f = true -> wf_listb f gl = true ->
  exists r, M_subset orc f gl = Ok r /\
    (exists extras, r_sel r = gl ++ extras) /\ NoDup (r_sel r) /\
    (forall g, In g (r_sel r) <-> Needed f gl g) /\
    (f_kind f = KGlyf -> forall i g x y,
       nth_error (r_sel r) i = Some g -> nth_error (f_glyphs f) (N.to_nat g) = Some x ->
       nth_error (f_glyphs (r_font r)) i = Some y ->
       length (g_comps y) = length (g_comps x) /\
       forall k c, nth_error (g_comps x) k = Some c ->
         exists c', nth_error (g_comps y) k = Some c' /\ nth_error (r_sel r) (N.to_nat c') = Some c).
Proof.
  intros orc f gl Hwf Hl. destruct (M_subset_facts orc f gl Hwf Hl) as [r [E F]]. exists r.
  split; [exact E|]. split; [exact (fx_prefix f gl r F)|]. split; [exact (fx_nodup f gl r F)|].
  split; [exact (fx_needed f gl r F)|exact (cl_comps f gl r F)].
Qed.
Print Assumptions closure_minimal_and_closed.

(* C10 clause 2, stated on what a reference leads to: the k-th component of
   every glyph of the subset is a glyph with the outline (in particular: blank
   iff the original component is blank - a zero-length glyf entry such as
   "space"), advance width, name and number of components of the k-th
   component of the original glyph.  A reference re-pointed to any other glyph
   (glyph 0, say) contradicts this unless that glyph is indistinguishable. *)
Theorem composite_components_identical : forall orc f gl, wf_fontb f = true -> wf_listb f gl = true ->
  f_kind f = KGlyf ->
  exists r, M_subset orc f gl = Ok r /\
    forall i g x y,
      nth_error (r_sel r) i = Some g -> nth_error (f_glyphs f) (N.to_nat g) = Some x ->
      nth_error (f_glyphs (r_font r)) i = Some y ->
      forall k c, nth_error (g_comps x) k = Some c ->
        exists c' xc yc, nth_error (g_comps y) k = Some c' /\
          nth_error (f_glyphs f) (N.to_nat c) = Some xc /\
          nth_error (f_glyphs (r_font r)) (N.to_nat c') = Some yc /\
          g_outline yc = g_outline xc /\ g_width yc = g_width xc /\ g_name yc = g_name xc /\
          length (g_comps yc) = length (g_comps xc) /\ is_blank yc = is_blank xc.
Proof.
  intros orc f gl Hwf Hl Hk. destruct (M_subset_facts orc f gl Hwf Hl) as [r [E F]]. exists r.
  split; [exact E|exact (cl_comp_identity f gl r F Hk)].
Qed.
Print Assumptions composite_components_identical.

(* C10 clause 3: every cmap subtable stays a finite map; a character maps to
   new index k iff it mapped to the glyph listed at position k; no other
   character is mapped. *)
Theorem cmap_exact : forall orc f gl, wf_fontb f = true -> wf_listb f gl = true ->
  exists r, M_subset orc f gl = Ok r /\
    length (f_cmaps (r_font r)) = length (f_cmaps f) /\
    forall j c, nth_error (f_cmaps f) j = Some c ->
      exists c', nth_error (f_cmaps (r_font r)) j = Some c' /\ NoDup (map fst c') /\
        forall code k, lookup code c' = Some k <->
          exists g, lookup code c = Some g /\ nth_error gl (N.to_nat k) = Some g.
Proof.
  intros orc f gl Hwf Hl. destruct (M_subset_facts orc f gl Hwf Hl) as [r [E F]]. exists r.
  split; [exact E|]. split; [exact (cl_cmap_count f gl r F)|exact (cl_cmap f gl r Hwf Hl F)].
Qed.
Print Assumptions cmap_exact.

(* C10 clause 4: every GPOS lookup keeps its index and its subtables; on
   every sequence of listed or rule-produced glyphs the subset's lookup, run
   on the renumbered sequence, makes the adjustments of the original; and a
   pair the subset adjusts is the image of a pair the original adjusts. *)
Theorem kerning_commutes : forall orc f gl, wf_fontb f = true -> wf_listb f gl = true ->
  exists r, M_subset orc f gl = Ok r /\
    length (f_gpos (r_font r)) = length (f_gpos f) /\
    forall j lk, nth_error (f_gpos f) j = Some lk ->
      exists lk', nth_error (f_gpos (r_font r)) j = Some lk' /\ length lk' = length lk /\
        (forall s, (forall g, In g s -> R1 f gl g) ->
           kern_seq lk' (map (pos0 (r_sel r)) s) = kern_seq lk s) /\
        (forall x y v, kern_lookup lk' x y = Some v ->
           exists a b, R1 f gl a /\ R1 f gl b /\ nth_error (r_sel r) (N.to_nat x) = Some a /\
                       nth_error (r_sel r) (N.to_nat y) = Some b /\ kern_lookup lk a b = Some v).
Proof.
  intros orc f gl Hwf Hl. destruct (M_subset_facts orc f gl Hwf Hl) as [r [E F]]. exists r.
  split; [exact E|]. split; [exact (cl_gpos_count f gl r F)|exact (cl_kern f gl r F)].
Qed.
Print Assumptions kerning_commutes.

(* C10 clause 5: every GSUB lookup keeps its index; on every sequence of
   listed or rule-produced glyphs, substituting with the subset's lookup and
   renumbering commute (single lookups and the whole table in order), and the
   result again consists of such glyphs. *)
Theorem ligatures_commute : forall orc f gl, wf_fontb f = true -> wf_listb f gl = true ->
  exists r, M_subset orc f gl = Ok r /\
    length (f_gsub (r_font r)) = length (f_gsub f) /\
    (forall j lk, nth_error (f_gsub f) j = Some lk ->
       exists lk', nth_error (f_gsub (r_font r)) j = Some lk' /\
         forall s, (forall g, In g s -> R1 f gl g) ->
           shape_lookup lk' (map (pos0 (r_sel r)) s) = map (pos0 (r_sel r)) (shape_lookup lk s) /\
           (forall g, In g (shape_lookup lk s) -> R1 f gl g)) /\
    (forall s, (forall g, In g s -> R1 f gl g) ->
       shape_all (f_gsub (r_font r)) (map (pos0 (r_sel r)) s) =
       map (pos0 (r_sel r)) (shape_all (f_gsub f) s) /\
       (forall g, In g (shape_all (f_gsub f) s) -> R1 f gl g)).
Proof.
  intros orc f gl Hwf Hl. destruct (M_subset_facts orc f gl Hwf Hl) as [r [E F]]. exists r.
  split; [exact E|]. split; [exact (cl_gsub_count f gl r F)|].
  split; [exact (cl_gsub f gl r Hwf F)|exact (cl_gsub_all f gl r Hwf F)].
Qed.
Print Assumptions ligatures_commute.

(* the renumbering used above is the position in the subset: it names the
   same glyph and is injective on the glyphs of the subset *)
Theorem renumbering_is_position : forall sel g, In g sel -> nth_error sel (N.to_nat (pos0 sel g)) = Some g.
Proof. exact pos0_nth. Qed.
Print Assumptions renumbering_is_position.

Theorem renumbering_injective : forall sel a b, In a sel -> In b sel -> pos0 sel a = pos0 sel b -> a = b.
Proof. exact pos0_inj. Qed.

(* C10 clause 6 (P2): the built-in encoding of a CFF font is transferred: a
   code of a glyph of the subset gets that glyph's new index, every other
   code becomes 0 (unmapped). *)
Theorem encoding_transferred : forall orc f gl, wf_fontb f = true -> wf_listb f gl = true ->
  f_kind f <> KGlyf ->
  exists r, M_subset orc f gl = Ok r /\
    match f_enc f with
    | None => f_enc (r_font r) = None
    | Some e => exists e', f_enc (r_font r) = Some e' /\ length e' = length e /\
        forall code g, nth_error e code = Some g ->
          nth_error e' code = Some (pos0 (r_sel r) g) /\
          (In g (r_sel r) -> nth_error (r_sel r) (N.to_nat (pos0 (r_sel r) g)) = Some g) /\
          (~ In g (r_sel r) -> pos0 (r_sel r) g = 0)
    end.
Proof.
  intros orc f gl Hwf Hl Hk. destruct (M_subset_facts orc f gl Hwf Hl) as [r [E F]]. exists r.
  split; [exact E|]. pose proof (cl_enc f gl r F Hk) as H. destruct (f_enc f) as [e|]; [|exact H].
  destruct H as [e' [H1 [H2 H3]]]. exists e'. split; [exact H1|]. split; [exact H2|].
  intros code g Hc. split; [exact (H3 code g Hc)|]. split; [apply pos0_nth|apply pos0_absent].
Qed.
Print Assumptions encoding_transferred.

(* cff.Outlines.Subset (no closure): glyph i is the listed glyph with its
   private dictionary and matrix, the encoding is transferred. *)
Theorem cff_subset_glyph_i_is_original : forall f gl, wf_fontb f = true -> wf_listb f gl = true ->
  f_kind f <> KGlyf ->
  exists r, M_cff_subset f gl = Ok r /\ r_sel r = gl /\
    Forall2 (fun g y => exists x, glyph_at f g = Ok x /\
               g_outline y = g_outline x /\ g_width y = g_width x /\ g_name y = g_name x /\
               g_cid y = g_cid x /\
               priv_of (r_font r) y = priv_of f x /\ priv_of (r_font r) y <> None /\
               (f_kind f = KCid -> mat_of (r_font r) y = mat_of f x /\ mat_of (r_font r) y <> None))
            gl (f_glyphs (r_font r)) /\
    f_enc (r_font r) = option_map (map (pos0 gl)) (f_enc f).
Proof. exact M_cff_subset_spec. Qed.
Print Assumptions cff_subset_glyph_i_is_original.

(* The executable specification S_subset (Spec.v; what the driver compares the
   mirror model with on every case): its glyph list is the given list followed
   by exactly the other needed glyphs in increasing order ... *)
Theorem spec_selection : forall f gl, wf_fontb f = true -> wf_listb f gl = true ->
  NoDup (S_sel f gl) /\
  (exists extras, S_sel f gl = gl ++ extras /\ sorted_by (fun g => g) extras) /\
  (forall g, In g (S_sel f gl) <-> Needed f gl g).
Proof. exact S_sel_spec. Qed.
Print Assumptions spec_selection.

(* ... and the mirror model, for every iteration order, selects the same
   glyphs: same prefix, the appended extras a permutation of the sorted ones. *)
Theorem selection_matches_spec : forall orc f gl, wf_fontb f = true -> wf_listb f gl = true ->
  exists r, M_subset orc f gl = Ok r /\ Permutation (r_sel r) (S_sel f gl) /\
    exists e e', r_sel r = gl ++ e /\ S_sel f gl = gl ++ e' /\ Permutation e e' /\ sorted_by (fun g => g) e'.
Proof. exact Proofs_spec.selection_matches_spec. Qed.
Print Assumptions selection_matches_spec.
