(* C10/Model.v — executable model of Font.Subset (subset.go, with the
   repairs fixes/C10-*.diff applied) and cff.Outlines.Subset (cff/subset.go)
   over an ABSTRACT font.  Definitions only; the specification side is in
   Spec.v, the proofs in Proofs_*.v.

   Abstract font: glyph records (outline id, advance width, name id, CID, FD
   index, component list), private dictionaries and font matrices per FD (as
   opaque ids), cmap subtables as sorted association lists, the built-in
   encoding, GSUB lookups (single substitution 1.1 / 1.2, ligature 4.1) and
   GPOS lookups (pair adjustment 2.1, the value record an opaque Z).

   Go maps are association lists; wherever the Go code iterates over a map
   (the coverage of a GSUB subtable when the rules are collected, the `todo`
   map of the composite closure) the model takes the order from an explicit
   oracle `orc : list nat`, and the theorems quantify over every oracle.

   glyph.ID is uint16: `glyph.ID(len(s.glyphs))`, `glyph.ID(newgid)` and
   `gid + Delta` are wrapped with wrap16 exactly where Go truncates.  Slice
   indexing out of range is Panic, exhausted fuel is OutOfFuel. *)
From Coq Require Import List NArith ZArith Bool Arith.
From Common Require Import Bytes Outcome.
Import ListNotations.
Local Open Scope N_scope.

(* ------------------------------------------------------------------ *)
(* The abstract font                                                    *)

(* The outline is an opaque id.  One id is reserved: `blank_outline` is the
   glyph without any outline data - a zero-length glyf entry (a nil
   *glyf.Glyph in Go, e.g. "space") or an empty charstring.  Any number of
   glyphs of a font may be blank; they differ in width / name / CID only.
   The subsetter has no special case for them (Components() and
   FixComponents() of a nil glyph are nil): a blank glyph that is a component
   of a retained composite is appended like any other component, and the
   model below does the same - `add_comps` does not look at the outline. *)
Definition blank_outline : N := 0.

Record glyph : Type := mkGlyph {
  g_outline : N;       (* opaque id of the outline data; blank_outline = no outline *)
  g_width : Z;
  g_name : N;          (* opaque id of the glyph name *)
  g_cid : N;
  g_fd : N;            (* FDSelect(gid) *)
  g_comps : list N     (* component glyph ids; [] for a simple glyph *)
}.

Definition is_blank (x : glyph) : bool := (g_outline x =? blank_outline) && match g_comps x with [] => true | _ => false end.

Inductive kind : Type := KGlyf | KCff | KCid.

Definition ligature : Type := (list N * N)%type.          (* In (without the first glyph), Out *)
Definition ligset : Type := (N * list ligature)%type.    (* first glyph, its ligatures in order *)

Inductive gsubst : Type :=
| Single1 (delta : N) (cov : list N)      (* gtab.Gsub1_1: Cov (a set) and Delta *)
| Single2 (m : list (N * N))              (* gtab.Gsub1_2: coverage order, substitute *)
| Lig (sets : list ligset)                (* gtab.Gsub4_1: coverage order *)
| Multi (alt : bool) (m : list (N * list N)).
    (* gtab.Gsub2_1 (alt = false: Repl) and gtab.Gsub3_1 (alt = true:
       Alternates), coverage order; SubsetGsub collects their rules (step 1)
       and panics "not implemented" when it rebuilds the table (step 3) *)

Definition kernsub : Type := list (N * N * Z).            (* gtab.Gpos2_1 *)

Record font : Type := mkFont {
  f_kind : kind;
  f_glyphs : list glyph;
  f_privs : list N;                 (* Private, one id per FD *)
  f_mats : list N;                  (* FontMatrices, one id per FD (CID-keyed only) *)
  f_cmaps : list (list (N * N));    (* code -> gid, one list per subtable *)
  f_enc : option (list N);          (* Encoding: code -> gid *)
  f_gsub : list (list gsubst);      (* lookups -> subtables *)
  f_gpos : list (list kernsub)
}.

(* ------------------------------------------------------------------ *)
(* Small helpers                                                        *)

Fixpoint lookup {V} (k : N) (m : list (N * V)) : option V :=
  match m with
  | [] => None
  | (k', v) :: r => if k =? k' then Some v else lookup k r
  end.

Definition memN (x : N) (l : list N) : bool := existsb (N.eqb x) l.

Definition nthN {A} (l : list A) (i : N) : option A := nth_error l (N.to_nat i).

Definition glyph_at (f : font) (g : N) : outcome glyph :=
  match nthN (f_glyphs f) g with Some x => Ok x | None => Panic end.

(* ------------------------------------------------------------------ *)
(* The subsetter state: s.glyphs and s.newGid                           *)

Record sst : Type := mkSst {
  s_glyphs : list N;          (* old glyph ids, in new order *)
  s_new : list (N * N)        (* the Go map newGid: old -> new; an update conses *)
}.

Definition has (st : sst) (g : N) : bool :=
  match lookup g (s_new st) with Some _ => true | None => false end.

(* newGid[g] on a Go map: the zero value when the key is absent *)
Definition new_or0 (st : sst) (g : N) : N :=
  match lookup g (s_new st) with Some n => n | None => 0 end.

(* func (s *subsetter) getNewGid(oldGid) *)
Definition get_new (st : sst) (g : N) : N * sst :=
  match lookup g (s_new st) with
  | Some n => (n, st)
  | None =>
      let n := wrap16 (N.of_nat (length (s_glyphs st))) in
      (n, mkSst (s_glyphs st ++ [g]) ((g, n) :: s_new st))
  end.

(* for newgid, oldGid := range glyphs { s.newGid[oldGid] = glyph.ID(newgid) } *)
Fixpoint init_new (i : nat) (gl : list N) (m : list (N * N)) : list (N * N) :=
  match gl with
  | [] => m
  | g :: r => init_new (S i) r ((g, wrap16 (N.of_nat i)) :: m)
  end.

Definition init (gl : list N) : sst := mkSst gl (init_new 0 gl []).

(* ------------------------------------------------------------------ *)
(* Map iteration order: the oracle                                      *)

Fixpoint extract {A} (k : nat) (l : list A) {struct l} : option (A * list A) :=
  match l with
  | [] => None
  | x :: r =>
      match k with
      | O => Some (x, r)
      | S k' => match extract k' r with
                | Some (y, r') => Some (y, x :: r')
                | None => None
                end
      end
  end.

(* take one element of a non-empty list, chosen by the head of the oracle *)
Definition pick {A} (orc : list nat) (l : list A) : option (A * list A) :=
  extract (Nat.modulo (hd O orc) (length l)) l.

(* some permutation of l, chosen by the oracle; returns the unused oracle *)
Fixpoint shuffle {A} (fuel : nat) (orc : list nat) (l : list A) : list A * list nat :=
  match fuel with
  | O => (l, orc)
  | S f =>
      match pick orc l with
      | None => (l, orc)
      | Some (x, rest) =>
          let '(r, o) := shuffle f (tl orc) rest in (x :: r, o)
      end
  end.

(* ------------------------------------------------------------------ *)
(* SubsetCMap                                                           *)

Fixpoint subset_cmap (st : sst) (c : list (N * N)) : list (N * N) :=
  match c with
  | [] => []
  | (code, g) :: r =>
      match lookup g (s_new st) with
      | Some n => (code, n) :: subset_cmap st r
      | None => subset_cmap st r
      end
  end.

(* ------------------------------------------------------------------ *)
(* SubsetGsub, step 1: the list of all rules                            *)

Record rule : Type := mkRule {
  r_miss : Z;            (* nMissing *)
  r_in : list N;
  r_out : list N
}.

Definition rules_of_sub (s : gsubst) : list rule :=
  match s with
  | Single1 d cov => map (fun g => mkRule 0 [g] [wrap16 (g + d)]) cov
  | Single2 m => map (fun p => mkRule 0 [fst p] [snd p]) m
  | Lig sets =>
      flat_map (fun s => map (fun l => mkRule 0 (fst s :: fst l) [snd l]) (snd s)) sets
  | Multi _ m => map (fun p => mkRule 0 [fst p] (snd p)) m
  end.

(* the rules in the order the Go code meets them: lookups and subtables in
   order, the coverage of every subtable in map order (the oracle) *)
Fixpoint collect_subs (orc : list nat) (ss : list gsubst) : list rule * list nat :=
  match ss with
  | [] => ([], orc)
  | s :: r =>
      let rs := rules_of_sub s in
      let '(rs', o1) := shuffle (length rs) orc rs in
      let '(rest, o2) := collect_subs o1 r in
      (rs' ++ rest, o2)
  end.

Fixpoint collect_rules (orc : list nat) (ll : list (list gsubst)) : list rule * list nat :=
  match ll with
  | [] => ([], orc)
  | l :: r =>
      let '(rs, o1) := collect_subs orc l in
      let '(rest, o2) := collect_rules o1 r in
      (rs ++ rest, o2)
  end.

(* ------------------------------------------------------------------ *)
(* SubsetGsub, step 2: closure with the nMissing counters               *)

Definition count_missing (st : sst) (ins : list N) : Z :=
  Z.of_nat (length (filter (fun g => negb (has st g)) ins)).

Definition set_missing (st : sst) (r : rule) : rule :=
  mkRule (count_missing st (r_in r)) (r_in r) (r_out r).

(* for _, gid := range r.out { if !s.hasOldGid(gid) { s.getNewGid(gid); added[gid] = {} } } *)
Fixpoint add_outs (outs : list N) (st : sst) (added : list N) : sst * list N :=
  match outs with
  | [] => (st, added)
  | g :: r =>
      if has st g then add_outs r st added
      else add_outs r (snd (get_new st g)) (g :: added)
  end.

(* the inner loop `for pos < len(rules)`: fire and remove every rule whose
   counter is 0, keep the others *)
Fixpoint scan (rules : list rule) (st : sst) (added : list N) : list rule * sst * list N :=
  match rules with
  | [] => ([], st, added)
  | r :: rest =>
      if (r_miss r =? 0)%Z then
        let '(st', added') := add_outs (r_out r) st added in
        scan rest st' added'
      else
        let '(rs, st', added') := scan rest st added in
        (r :: rs, st', added')
  end.

(* for _, in := range r.in { if _, ok := added[in]; ok { rules[i].nMissing-- } } *)
Definition dec_missing (added : list N) (r : rule) : rule :=
  mkRule (r_miss r - Z.of_nat (length (filter (fun g => memN g added) (r_in r))))%Z (r_in r) (r_out r).

Definition miss0 (r : rule) : bool := (r_miss r =? 0)%Z.

(* `for needsRun { ... }` *)
Fixpoint gsub_close (fuel : nat) (rules : list rule) (st : sst) : outcome sst :=
  match fuel with
  | O => OutOfFuel
  | S f =>
      let '(rules1, st1, added) := scan rules st [] in
      let rules2 := map (dec_missing added) rules1 in
      if existsb miss0 rules2 then gsub_close f rules2 st1 else Ok st1
  end.

(* ------------------------------------------------------------------ *)
(* SubsetGsub, step 3: the new subtables                                *)

(* insertion sort by new glyph id (sort.Slice on distinct keys) *)
Fixpoint insert_by {A} (key : A -> N) (x : A) (l : list A) : list A :=
  match l with
  | [] => [x]
  | y :: r => if key x <=? key y then x :: l else y :: insert_by key x r
  end.

Fixpoint sort_by {A} (key : A -> N) (l : list A) : list A :=
  match l with
  | [] => []
  | x :: r => insert_by key x (sort_by key r)
  end.

(* func (s *subsetter) retained(oldGids): those present, sorted by new id *)
Definition retained {A} (st : sst) (old : A -> N) (l : list A) : list A :=
  sort_by (fun x => new_or0 st (old x)) (filter (fun x => has st (old x)) l).

(* Gsub1_1 -> Gsub1_2 *)
Fixpoint build_single (d : N) (ks : list N) (st : sst) : list (N * N) * sst :=
  match ks with
  | [] => ([], st)
  | g :: r =>
      let nf := new_or0 st g in
      let '(nt, st1) := get_new st (wrap16 (g + d)) in
      let '(rest, st2) := build_single d r st1 in
      ((nf, nt) :: rest, st2)
  end.

Fixpoint get_news (gs : list N) (st : sst) : list N * sst :=
  match gs with
  | [] => ([], st)
  | g :: r =>
      let '(n, st1) := get_new st g in
      let '(rest, st2) := get_news r st1 in
      (n :: rest, st2)
  end.

(* the ligatures of one set: those whose components are all present *)
Fixpoint build_ligs (ligs : list ligature) (st : sst) : list ligature * sst :=
  match ligs with
  | [] => ([], st)
  | (ins, out) :: r =>
      if forallb (has st) ins then
        let '(nout, st1) := get_new st out in
        let '(nins, st2) := get_news ins st1 in
        let '(rest, st3) := build_ligs r st2 in
        ((nins, nout) :: rest, st3)
      else build_ligs r st
  end.

Fixpoint build_sets (sets : list ligset) (st : sst) : list ligset * sst :=
  match sets with
  | [] => ([], st)
  | (first, ligs) :: r =>
      let nf := new_or0 st first in
      let '(nl, st1) := build_ligs ligs st in
      let '(rest, st2) := build_sets r st1 in
      match nl with
      | [] => (rest, st2)
      | _ => ((nf, nl) :: rest, st2)
      end
  end.

(* the subtables of one lookup; a subtable that becomes empty is dropped *)
Fixpoint build_subs (ss : list gsubst) (st : sst) : outcome (list gsubst * sst) :=
  match ss with
  | [] => Ok ([], st)
  | Single1 d cov :: r =>
      let '(m, st1) := build_single d (retained st (fun g => g) cov) st in
      p <- build_subs r st1 ;;
      Ok (match m with [] => fst p | _ => Single2 m :: fst p end, snd p)
  | Single2 _ :: _ => Panic                      (* panic("not implemented") *)
  | Lig sets :: r =>
      let '(ns, st1) := build_sets (retained st fst sets) st in
      p <- build_subs r st1 ;;
      Ok (match ns with [] => fst p | _ => Lig ns :: fst p end, snd p)
  | Multi _ _ :: _ => Panic                      (* panic("not implemented") *)
  end.

(* every lookup keeps its index, also when no subtable is left *)
Fixpoint build_lookups (ll : list (list gsubst)) (st : sst) : outcome (list (list gsubst) * sst) :=
  match ll with
  | [] => Ok ([], st)
  | l :: r =>
      p <- build_subs l st ;;
      q <- build_lookups r (snd p) ;;
      Ok (fst p :: fst q, snd q)
  end.

Definition subset_gsub (orc : list nat) (ll : list (list gsubst)) (st : sst)
  : outcome (list (list gsubst) * sst * list nat) :=
  let '(rules, orc1) := collect_rules orc ll in
  let rules0 := map (set_missing st) rules in
  st1 <- gsub_close (S (length rules0)) rules0 st ;;
  p <- build_lookups ll st1 ;;
  Ok (fst p, snd p, orc1).

(* ------------------------------------------------------------------ *)
(* SubsetGpos                                                           *)

Fixpoint subset_kern (st : sst) (k : kernsub) : kernsub :=
  match k with
  | [] => []
  | (l, r, v) :: rest =>
      match lookup l (s_new st), lookup r (s_new st) with
      | Some nl, Some nr => (nl, nr, v) :: subset_kern st rest
      | _, _ => subset_kern st rest
      end
  end.

Definition subset_gpos (st : sst) (ll : list (list kernsub)) : list (list kernsub) :=
  map (map (subset_kern st)) ll.

(* ------------------------------------------------------------------ *)
(* SubsetCFF / cff.Outlines.Subset                                   *)

(* glyphs, private dicts, matrices, and the map old FD -> new FD *)
Fixpoint cff_fds (f : font) (gs : list N) (privs mats : list N) (pmap : list (N * N))
  : outcome (list N * list N * list (N * N)) :=
  match gs with
  | [] => Ok (privs, mats, pmap)
  | g :: r =>
      x <- glyph_at f g ;;
      let fd := g_fd x in
      match lookup fd pmap with
      | Some _ => cff_fds f r privs mats pmap
      | None =>
          match nthN (f_privs f) fd with
          | None => Panic
          | Some p =>
              let np := N.of_nat (length privs) in
              match f_kind f with
              | KCid =>
                  match nthN (f_mats f) fd with
                  | None => Panic
                  | Some m => cff_fds f r (privs ++ [p]) (mats ++ [m]) ((fd, np) :: pmap)
                  end
              | _ => cff_fds f r (privs ++ [p]) mats ((fd, np) :: pmap)
              end
          end
      end
  end.

Fixpoint cff_glyphs (f : font) (single : bool) (pmap : list (N * N)) (gs : list N) : outcome (list glyph) :=
  match gs with
  | [] => Ok []
  | g :: r =>
      x <- glyph_at f g ;;
      rest <- cff_glyphs f single pmap r ;;
      let nfd := if single then 0 else match lookup (g_fd x) pmap with Some n => n | None => 0 end in
      Ok (mkGlyph (g_outline x) (g_width x) (g_name x) (g_cid x) nfd [] :: rest)
  end.

Definition subset_enc (st : sst) (e : option (list N)) : option (list N) :=
  match e with
  | None => None
  | Some l => Some (map (new_or0 st) l)
  end.

Definition subset_cff (f : font) (st : sst) : outcome (list glyph * list N * list N) :=
  t <- cff_fds f (s_glyphs st) [] [] [] ;;
  let '(privs, mats, pmap) := t in
  gl <- cff_glyphs f (Nat.eqb (length privs) 1) pmap (s_glyphs st) ;;
  Ok (gl, privs, mats).

(* ------------------------------------------------------------------ *)
(* SubsetGlyf: composite closure and FixComponents                      *)

Definition set_add (x : N) (l : list N) : list N := if memN x l then l else l ++ [x].

(* the inner loop over the components of the popped glyph *)
Fixpoint add_comps (cc : list N) (st : sst) (todo : list N) : sst * list N :=
  match cc with
  | [] => (st, todo)
  | c :: r =>
      if has st c then add_comps r st todo
      else
        let n := wrap16 (N.of_nat (length (s_glyphs st))) in
        add_comps r (mkSst (s_glyphs st ++ [c]) ((c, n) :: s_new st)) (set_add c todo)
  end.

(* for len(todo) > 0 { oldGid := pop(todo) ... } *)
Fixpoint comp_close (fuel : nat) (f : font) (orc : list nat) (todo : list N) (st : sst) : outcome sst :=
  match fuel with
  | O => OutOfFuel
  | S fu =>
      match pick orc todo with
      | None => Ok st
      | Some (g, todo1) =>
          x <- glyph_at f g ;;
          let '(st1, todo2) := add_comps (g_comps x) st todo1 in
          comp_close fu f (tl orc) todo2 st1
      end
  end.

Fixpoint glyf_glyphs (f : font) (st : sst) (gs : list N) : outcome (list glyph) :=
  match gs with
  | [] => Ok []
  | g :: r =>
      x <- glyph_at f g ;;
      rest <- glyf_glyphs f st r ;;
      Ok (mkGlyph (g_outline x) (g_width x) (g_name x) (g_cid x) 0 (map (new_or0 st) (g_comps x)) :: rest)
  end.

Definition subset_glyf (f : font) (orc : list nat) (st : sst) : outcome (list glyph * sst) :=
  let todo := fold_left (fun t g => set_add g t) (s_glyphs st) [] in
  st1 <- comp_close (S (length (f_glyphs f) + length todo)) f orc todo st ;;
  gl <- glyf_glyphs f st1 (s_glyphs st1) ;;
  Ok (gl, st1).

(* ------------------------------------------------------------------ *)
(* Font.Subset                                                       *)

Record result : Type := mkResult {
  r_sel : list N;      (* the final s.glyphs: old id of every new glyph *)
  r_font : font
}.

Definition M_subset (orc : list nat) (f : font) (gl : list N) : outcome result :=
  let st0 := init gl in
  let cmaps := map (subset_cmap st0) (f_cmaps f) in
  t <- subset_gsub orc (f_gsub f) st0 ;;
  let '(gsub, st1, orc1) := t in
  (* "At this point we have the final list of glyphs" (for CFF) *)
  let gpos := subset_gpos st1 (f_gpos f) in
  match f_kind f with
  | KGlyf =>
      p <- subset_glyf f orc1 st1 ;;
      let '(glyphs, st2) := p in
      Ok (mkResult (s_glyphs st2)
            (mkFont KGlyf glyphs [] [] cmaps None gsub gpos))
  | k =>
      p <- subset_cff f st1 ;;
      let '(glyphs, privs, mats) := p in
      Ok (mkResult (s_glyphs st1)
            (mkFont k glyphs privs mats cmaps (subset_enc st1 (f_enc f)) gsub gpos))
  end.

(* cff.Outlines.Subset: the given list exactly, no closure *)
Definition M_cff_subset (f : font) (gl : list N) : outcome result :=
  let st := init gl in
  p <- subset_cff f st ;;
  let '(glyphs, privs, mats) := p in
  Ok (mkResult gl (mkFont (f_kind f) glyphs privs mats [] (subset_enc st (f_enc f)) [] [])).
