(* C10/Proofs_spec.v — the executable specification S_subset selects exactly
   the needed glyphs (listed glyphs first, extras in increasing order), hence
   the glyph list of the mirror model is a permutation of it, for every
   iteration order. *)
From Coq Require Import List NArith ZArith Bool Arith Lia Permutation.
From Coq Require Import ZifyBool ZifyNat ZifyN.
From Common Require Import Bytes Outcome.
From C10 Require Import Model Spec Util Proofs_state Proofs_gsub Proofs_outl Proofs_main.
Import ListNotations.
Local Open Scope N_scope.

(* ------------------------------------------------------------------ *)
(* folds that only append                                               *)

Definition appends {A} (st : list N -> A -> list N) : Prop :=
  forall acc a, exists e, st acc a = acc ++ e.

Lemma fold_appends {A} (st : list N -> A -> list N) : appends st ->
  forall l acc, exists e, fold_left st l acc = acc ++ e.
Proof.
  intros H. induction l as [|a r IH]; intros acc; cbn [fold_left].
  - exists []. rewrite app_nil_r. reflexivity.
  - destruct (H acc a) as [e1 E1]. destruct (IH (st acc a)) as [e2 E2].
    exists (e1 ++ e2). rewrite E2, E1, app_assoc. reflexivity.
Qed.

Lemma fold_fixpoint {A} (st : list N -> A -> list N) : appends st ->
  forall l acc, length (fold_left st l acc) = length acc -> forall a, In a l -> st acc a = acc.
Proof.
  intros H. induction l as [|a r IH]; intros acc Hl b Hb; [destruct Hb|].
  cbn [fold_left] in Hl. pose proof Hl as Hl0.
  destruct (H acc a) as [e1 E1]. destruct (fold_appends st H r (st acc a)) as [e2 E2].
  rewrite E2, E1, !app_length in Hl.
  assert (e1 = []) by (destruct e1; [reflexivity|cbn in Hl; lia]). subst e1.
  rewrite app_nil_r in E1.
  destruct Hb as [Hb|Hb]; [subst; exact E1|].
  apply IH; [|exact Hb]. rewrite E1 in Hl0. exact Hl0.
Qed.

Lemma set_add_appends : appends (fun a y => set_add y a).
Proof.
  intros acc y. unfold set_add. destruct (memN y acc); [exists []; rewrite app_nil_r|exists [y]]; reflexivity.
Qed.

Lemma adds_In : forall outs acc x,
  In x (fold_left (fun a y => set_add y a) outs acc) <-> In x acc \/ In x outs.
Proof.
  induction outs as [|y r IH]; intros acc x; cbn [fold_left].
  - split; [auto|]. intros [H|[]]; exact H.
  - rewrite IH, set_add_In. cbn [In]. split; intros H.
    + destruct H as [[H|H]|H]; auto.
    + destruct H as [H|[H|H]]; auto.
Qed.

Lemma set_add_nodup : forall y acc, NoDup acc -> NoDup (set_add y acc).
Proof.
  intros y acc H. unfold set_add. destruct (memN y acc) eqn:E; [exact H|].
  apply NoDup_snoc; [exact H|]. apply memN_false. exact E.
Qed.

Lemma adds_nodup : forall outs acc, NoDup acc -> NoDup (fold_left (fun a y => set_add y a) outs acc).
Proof.
  induction outs as [|y r IH]; intros acc H; cbn [fold_left]; [exact H|].
  apply IH. apply set_add_nodup. exact H.
Qed.

(* ------------------------------------------------------------------ *)
(* iteration to a fixed point                                           *)

Definition appender (m : N) (h : list N -> list N) : Prop :=
  forall x, NoDup x -> bounded m x -> (exists e, h x = x ++ e) /\ NoDup (h x) /\ bounded m (h x).

Lemma iter_reaches_fix : forall m h, appender m h -> forall n x, NoDup x -> bounded m x ->
  (N.to_nat m - length x < n)%nat ->
  length (h (iter n h x)) = length (iter n h x) /\ NoDup (iter n h x) /\ bounded m (iter n h x) /\
  (exists e, iter n h x = x ++ e) /\
  (forall P : list N -> Prop, P x -> (forall z, NoDup z -> bounded m z -> P z -> P (h z)) -> P (iter n h x)).
Proof.
  intros m h Hh. induction n as [|n IH]; intros x Hnd Hb Hf; [lia|].
  cbn [iter]. destruct (Hh x Hnd Hb) as [[e He] [Hnd1 Hb1]].
  destruct (Nat.eqb_spec (length (h x)) (length x)) as [El|El].
  - split; [exact El|]. split; [exact Hnd|]. split; [exact Hb|].
    split; [exists []; rewrite app_nil_r; reflexivity|]. intros P HP _. exact HP.
  - assert (Hlen : (length (h x) <= N.to_nat m)%nat).
    { apply NoDup_bounded_length; [exact Hnd1|]. intros y Hy. specialize (Hb1 y Hy). lia. }
    assert (Hgt : (length x < length (h x))%nat) by (rewrite He, app_length in *; lia).
    destruct (IH (h x) Hnd1 Hb1 ltac:(lia)) as [I1 [I2 [I3 [[e2 I4] I5]]]].
    split; [exact I1|]. split; [exact I2|]. split; [exact I3|].
    split; [exists (e ++ e2); rewrite I4, He, app_assoc; reflexivity|].
    intros P HP Hstep. apply I5; [apply Hstep; assumption|exact Hstep].
Qed.

(* ------------------------------------------------------------------ *)
(* the rule closure of the specification                                *)

Definition step1 (acc : list N) (r : rule) : list N :=
  if forallb (fun x => memN x acc) (r_in r)
  then fold_left (fun a y => set_add y a) (r_out r) acc else acc.

Lemma fire_fold : forall rules l, fire rules l = fold_left step1 rules l.
Proof. reflexivity. Qed.

Lemma step1_appends : appends step1.
Proof.
  intros acc r. unfold step1. destruct (forallb (fun x => memN x acc) (r_in r)).
  - apply (fold_appends _ set_add_appends).
  - exists []. rewrite app_nil_r. reflexivity.
Qed.

Lemma fire_appender : forall m rules, rules_bounded m rules -> appender m (fire rules).
Proof.
  intros m rules Hrb x Hnd Hb. rewrite fire_fold. split; [apply (fold_appends _ step1_appends)|].
  revert x Hnd Hb. induction rules as [|r rest IH]; intros x Hnd Hb; cbn [fold_left]; [split; assumption|].
  apply IH.
  - intros y Hy. apply Hrb. right; exact Hy.
  - unfold step1. destruct (forallb (fun x0 => memN x0 x) (r_in r)); [apply adds_nodup|]; exact Hnd.
  - unfold step1. destruct (forallb (fun x0 => memN x0 x) (r_in r)); [|exact Hb].
    intros g Hg. apply adds_In in Hg. destruct Hg as [Hg|Hg]; [apply Hb; exact Hg|].
    destruct (Hrb r (or_introl eq_refl)) as [_ Ho]. apply Ho. exact Hg.
Qed.

Lemma fire_sound : forall rules (T : N -> Prop), closed_under rules T ->
  forall l, (forall x, In x l -> T x) -> forall x, In x (fire rules l) -> T x.
Proof.
  intros rules T Hc. rewrite <- (rev_involutive rules) in Hc |- *.
  assert (Hc' : forall r, In r rules -> (forall x, In x (r_in r) -> T x) -> forall y, In y (r_out r) -> T y).
  { intros r Hr. apply Hc. rewrite rev_involutive. exact Hr. }
  rewrite rev_involutive. clear Hc. induction rules as [|r rest IH]; intros l Hl x Hx; [apply Hl; exact Hx|].
  rewrite fire_fold in Hx. cbn [fold_left] in Hx. rewrite <- fire_fold in Hx.
  apply (IH (fun r0 Hr0 => Hc' r0 (or_intror Hr0)) (step1 l r)); [|exact Hx].
  intros y Hy. unfold step1 in Hy. destruct (forallb (fun x0 => memN x0 l) (r_in r)) eqn:E; [|apply Hl; exact Hy].
  apply adds_In in Hy. destruct Hy as [Hy|Hy]; [apply Hl; exact Hy|].
  apply (Hc' r (or_introl eq_refl)); [|exact Hy]. intros z Hz. apply Hl.
  rewrite forallb_forall in E. apply memN_In. apply E. exact Hz.
Qed.

Lemma fire_fixpoint : forall rules l, length (fire rules l) = length l ->
  closed_under rules (fun g => In g l).
Proof.
  intros rules l Hl r Hr Hin y Hy. rewrite fire_fold in Hl.
  pose proof (fold_fixpoint step1 step1_appends rules l Hl r Hr) as Hs. unfold step1 in Hs.
  assert (E : forallb (fun x => memN x l) (r_in r) = true).
  { apply forallb_forall. intros x Hx. apply memN_In. apply Hin. exact Hx. }
  rewrite E in Hs. rewrite <- Hs. apply adds_In. right; exact Hy.
Qed.

Theorem S_close1_spec : forall f gl, wf_fontb f = true -> wf_listb f gl = true ->
  NoDup (S_close1 f gl) /\ bounded (nG f) (S_close1 f gl) /\
  (exists e, S_close1 f gl = gl ++ e) /\ (forall g, In g (S_close1 f gl) <-> R1 f gl g).
Proof.
  intros f gl Hwf Hl. destruct (wf_list_parts f gl Hl) as [Hnd Hb].
  pose proof (fire_appender (nG f) (all_rules f) (wf_rules_bounded f Hwf)) as Happ.
  unfold S_close1.
  destruct (iter_reaches_fix (nG f) _ Happ (S (length (f_glyphs f))) gl Hnd Hb) as [I1 [I2 [I3 [I4 I5]]]].
  { unfold nG. rewrite Nat2N.id. lia. }
  split; [exact I2|]. split; [exact I3|]. split; [exact I4|]. intros g. split.
  - revert g. apply (I5 (fun l => forall g, In g l -> R1 f gl g)).
    + intros g Hg. apply R1_listed. exact Hg.
    + intros z _ _ Hz. apply (fire_sound (all_rules f) (R1 f gl) (R1_closed f gl)). exact Hz.
  - intros HR. induction HR as [g Hg|r g Hr _ IH Hg].
    + destruct I4 as [e E]. rewrite E. apply in_or_app. left; exact Hg.
    + apply (fire_fixpoint _ _ I1 r Hr IH g Hg).
Qed.

(* ------------------------------------------------------------------ *)
(* the component closure of the specification                           *)

Definition step2 (f : font) (acc : list N) (g : N) : list N :=
  fold_left (fun a c => set_add c a) (comps_of f g) acc.

Lemma step2_appends : forall f, appends (step2 f).
Proof. intros f acc g. apply (fold_appends _ set_add_appends). Qed.

Lemma comps_of_spec : forall f g x, glyph_at f g = Ok x -> comps_of f g = g_comps x.
Proof.
  intros f g x H. unfold comps_of, glyph_at in *. destruct (nthN (f_glyphs f) g); inversion H; reflexivity.
Qed.

Lemma expand_gen_In : forall f l acc x,
  In x (fold_left (step2 f) l acc) <-> In x acc \/ exists g, In g l /\ In x (comps_of f g).
Proof.
  intros f. induction l as [|g r IH]; intros acc x; cbn [fold_left].
  - split; [auto|]. intros [H|[g [[] _]]]. exact H.
  - rewrite IH. unfold step2 at 1. rewrite adds_In. split.
    + intros [[H|H]|[g' [H1 H2]]]; [left; exact H|right; exists g; split; [left; reflexivity|exact H]|].
      right. exists g'. split; [right; exact H1|exact H2].
    + intros [H|[g' [[H1|H1] H2]]]; [left; left; exact H|subst; left; right; exact H2|].
      right. exists g'. split; assumption.
Qed.

Lemma expand_gen_nodup : forall f l acc, NoDup acc -> NoDup (fold_left (step2 f) l acc).
Proof.
  intros f. induction l as [|g r IH]; intros acc H; cbn [fold_left]; [exact H|].
  apply IH. apply adds_nodup. exact H.
Qed.

Lemma expand_appender : forall f, comps_bounded f -> appender (nG f) (expand f).
Proof.
  intros f Hcb x Hnd Hb. unfold expand. split; [apply (fold_appends _ (step2_appends f))|].
  split; [apply expand_gen_nodup; exact Hnd|].
  intros g Hg. apply expand_gen_In in Hg. destruct Hg as [Hg|[g' [H1 H2]]]; [apply Hb; exact Hg|].
  destruct (glyph_at_ok f g' (Hb g' H1)) as [y [Ey _]]. rewrite (comps_of_spec f g' y Ey) in H2.
  eapply Hcb; eauto.
Qed.

Lemma expand_fixpoint : forall f l, length (expand f l) = length l ->
  forall g c, In g l -> In c (comps_of f g) -> In c l.
Proof.
  intros f l Hl g c Hg Hc. unfold expand in Hl.
  pose proof (fold_fixpoint (step2 f) (step2_appends f) l l Hl g Hg) as Hs.
  rewrite <- Hs. unfold step2. apply adds_In. right; exact Hc.
Qed.

Theorem S_close2_spec : forall f gl l, wf_fontb f = true -> f_kind f = KGlyf ->
  NoDup l -> bounded (nG f) l -> (forall g, In g l <-> R1 f gl g) ->
  NoDup (S_close2 f l) /\ (exists e, S_close2 f l = l ++ e) /\ (forall g, In g (S_close2 f l) <-> R2 f gl g).
Proof.
  intros f gl l Hwf Hk Hnd Hb HR1.
  pose proof (expand_appender f (wf_comps_bounded f Hwf Hk)) as Happ. unfold S_close2.
  destruct (iter_reaches_fix (nG f) _ Happ (S (length (f_glyphs f))) l Hnd Hb) as [I1 [I2 [I3 [I4 I5]]]].
  { unfold nG. rewrite Nat2N.id. lia. }
  split; [exact I2|]. split; [exact I4|]. intros g. split.
  - revert g. apply (I5 (fun z => forall g, In g z -> R2 f gl g)).
    + intros g Hg. apply R2_base. apply HR1. exact Hg.
    + intros z _ Hbz Hz g Hg. unfold expand in Hg. apply expand_gen_In in Hg.
      destruct Hg as [Hg|[g' [H1 H2]]]; [auto|].
      destruct (glyph_at_ok f g' (Hbz g' H1)) as [y [Ey _]]. rewrite (comps_of_spec f g' y Ey) in H2.
      eapply R2_comp; [apply Hz; exact H1|exact Ey|exact H2].
  - intros HR. induction HR as [g Hg|g x c _ IH Ex Hc].
    + destruct I4 as [e E]. rewrite E. apply in_or_app. left. apply HR1. exact Hg.
    + apply (expand_fixpoint f _ I1 g c IH). rewrite (comps_of_spec f g x Ex). exact Hc.
Qed.

(* ------------------------------------------------------------------ *)
(* S_sel and the link to the mirror model                               *)

Lemma filter_nodup {A} (p : A -> bool) : forall l, NoDup l -> NoDup (filter p l).
Proof.
  induction l as [|x r IH]; intros H; cbn [filter]; [constructor|].
  inversion H; subst. destruct (p x); [constructor; [|auto]|auto].
  intros Hx. apply filter_In in Hx. tauto.
Qed.

Theorem S_sel_spec : forall f gl, wf_fontb f = true -> wf_listb f gl = true ->
  NoDup (S_sel f gl) /\
  (exists extras, S_sel f gl = gl ++ extras /\ sorted_by (fun g => g) extras) /\
  (forall g, In g (S_sel f gl) <-> Needed f gl g).
Proof.
  intros f gl Hwf Hl. destruct (wf_list_parts f gl Hl) as [Hnd Hb].
  destruct (S_close1_spec f gl Hwf Hl) as [N1 [B1 [[e1 E1] R1iff]]].
  set (l2 := match f_kind f with KGlyf => S_close2 f (S_close1 f gl) | _ => S_close1 f gl end).
  assert (H2 : NoDup l2 /\ (forall g, In g gl -> In g l2) /\ (forall g, In g l2 <-> Needed f gl g)).
  { unfold l2, Needed. destruct (f_kind f) eqn:Ek.
    - destruct (S_close2_spec f gl (S_close1 f gl) Hwf Ek N1 B1 R1iff) as [N2 [[e2 E2] R2iff]].
      split; [exact N2|]. split; [|exact R2iff].
      intros g Hg. rewrite E2, E1. apply in_or_app. left. apply in_or_app. left; exact Hg.
    - split; [exact N1|]. split; [|exact R1iff]. intros g Hg. rewrite E1. apply in_or_app. left; exact Hg.
    - split; [exact N1|]. split; [|exact R1iff]. intros g Hg. rewrite E1. apply in_or_app. left; exact Hg. }
  destruct H2 as [N2 [Hsub Hiff]].
  unfold S_sel. fold l2.
  set (ext := sort_by (fun g => g) (filter (fun g => negb (memN g gl)) l2)).
  assert (Hext : forall g, In g ext <-> In g l2 /\ ~ In g gl).
  { intros g. unfold ext. rewrite sort_by_In, filter_In, negb_true_iff, memN_false. reflexivity. }
  split; [|split].
  - apply NoDup_app_intro; [exact Hnd| |].
    + unfold ext. eapply Permutation_NoDup; [apply Permutation_sym, sort_by_perm|].
      apply filter_nodup. exact N2.
    + intros x Hx Hx'. apply Hext in Hx'. destruct Hx' as [_ Hx']. contradiction.
  - exists ext. split; [reflexivity|apply sort_by_sorted].
  - intros g. rewrite <- Hiff, in_app_iff, Hext. split.
    + intros [H|[H _]]; [apply Hsub; exact H|exact H].
    + intros H. destruct (in_dec N.eq_dec g gl) as [Hg|Hg]; [left; exact Hg|right; split; assumption].
Qed.

(* the glyph list of the mirror model is a permutation of the specification's,
   with the same prefix, whatever the iteration order *)
Theorem selection_matches_spec : forall orc f gl, wf_fontb f = true -> wf_listb f gl = true ->
  exists r, M_subset orc f gl = Ok r /\ Permutation (r_sel r) (S_sel f gl) /\
    exists e e', r_sel r = gl ++ e /\ S_sel f gl = gl ++ e' /\ Permutation e e' /\ sorted_by (fun g => g) e'.
Proof.
  intros orc f gl Hwf Hl. destruct (M_subset_facts orc f gl Hwf Hl) as [r [E F]]. exists r.
  split; [exact E|]. destruct (S_sel_spec f gl Hwf Hl) as [N [[e' [Ee' Hs]] Hiff]].
  assert (P : Permutation (r_sel r) (S_sel f gl)).
  { apply NoDup_Permutation; [exact (fx_nodup _ _ _ F)|exact N|].
    intros g. rewrite (fx_needed _ _ _ F g), Hiff. reflexivity. }
  split; [exact P|]. destruct (fx_prefix _ _ _ F) as [e Ee]. exists e, e'.
  split; [exact Ee|]. split; [exact Ee'|]. split; [|exact Hs].
  rewrite Ee, Ee' in P. eapply Permutation_app_inv_l; exact P.
Qed.
