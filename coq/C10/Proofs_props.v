(* C10/Proofs_props.v — the clauses of the property, derived from `facts`. *)
From Coq Require Import List NArith ZArith Bool Arith Lia Permutation.
From Coq Require Import ZifyBool ZifyNat ZifyN.
From Common Require Import Bytes Outcome.
From C10 Require Import Model Spec Util Proofs_state Proofs_gsub Proofs_outl Proofs_tables Proofs_main.
Import ListNotations.
Local Open Scope N_scope.

Lemma pos_nth : forall sel g k, NoDup sel -> (pos sel g = Some k <-> nth_error sel (N.to_nat k) = Some g).
Proof.
  intros sel g k Hnd. unfold pos. split.
  - destruct (index_of g sel) eqn:E; cbn [option_map]; [|discriminate].
    intros H. inversion H; subst. rewrite Nat2N.id. apply index_of_Some in E. tauto.
  - intros H. rewrite (index_of_nth _ _ _ Hnd H). cbn [option_map]. f_equal. lia.
Qed.

Lemma pos0_nth : forall sel g, In g sel -> nth_error sel (N.to_nat (pos0 sel g)) = Some g.
Proof.
  intros sel g Hin. unfold pos0, pos. destruct (index_of_In g sel Hin) as [i Hi]. rewrite Hi.
  cbn [option_map]. rewrite Nat2N.id. apply index_of_Some in Hi. tauto.
Qed.

Lemma pos0_absent : forall sel g, ~ In g sel -> pos0 sel g = 0.
Proof.
  intros sel g H. unfold pos0, pos. apply index_of_None in H. rewrite H. reflexivity.
Qed.

Lemma pos0_inj : forall sel a b, In a sel -> In b sel -> pos0 sel a = pos0 sel b -> a = b.
Proof.
  intros sel a b Ha Hb E. pose proof (pos0_nth sel a Ha) as H1. pose proof (pos0_nth sel b Hb) as H2.
  rewrite E in H1. congruence.
Qed.

Lemma Forall2_length' {A B} (R : A -> B -> Prop) : forall l l', Forall2 R l l' -> length l = length l'.
Proof. intros l l' H. induction H; cbn; congruence. Qed.

Lemma glyph_at_nth : forall f g x, glyph_at f g = Ok x <-> nth_error (f_glyphs f) (N.to_nat g) = Some x.
Proof.
  intros f g x. unfold glyph_at, nthN. destruct (nth_error (f_glyphs f) (N.to_nat g)); split; intros H;
    inversion H; reflexivity.
Qed.

(* ------------------------------------------------------------------ *)

Section Clauses.
  Variable f : font.
  Variable gl : list N.
  Variable r : result.
  Hypothesis Hwf : wf_fontb f = true.
  Hypothesis Hl : wf_listb f gl = true.
  Hypothesis F : facts f gl r.

  Local Notation sel := (r_sel r).
  Local Notation f' := (r_font r).

  (* glyph i of the subset is the original glyph listed at position i *)
  Lemma cl_listed : forall i g, nth_error gl i = Some g -> nth_error sel i = Some g.
  Proof.
    intros i g H. destruct (fx_prefix _ _ _ F) as [ext E]. rewrite E.
    rewrite nth_error_app1; [exact H|]. apply nth_error_Some. congruence.
  Qed.

  Lemma cl_count : length (f_glyphs f') = length sel.
  Proof. symmetry. eapply Forall2_length'. exact (fx_glyphs _ _ _ F). Qed.

  Lemma cl_glyph : forall i g, nth_error sel i = Some g ->
    exists x y, nth_error (f_glyphs f) (N.to_nat g) = Some x /\ nth_error (f_glyphs f') i = Some y /\
      g_outline y = g_outline x /\ g_width y = g_width x /\ g_name y = g_name x /\ g_cid y = g_cid x /\
      (f_kind f <> KGlyf -> priv_of f' y = priv_of f x /\ priv_of f' y <> None) /\
      (f_kind f = KCid -> mat_of f' y = mat_of f x /\ mat_of f' y <> None).
  Proof.
    intros i g H. destruct (Forall2_nth _ _ _ i g (fx_glyphs _ _ _ F) H) as [y [Hy [x [Ex Hx]]]].
    exists x, y. split; [apply glyph_at_nth; exact Ex|]. split; [exact Hy|]. tauto.
  Qed.

  (* composite references: the k-th component of new glyph i is the new glyph
     that carries the k-th component of the original *)
  Lemma cl_comps : f_kind f = KGlyf -> forall i g x y,
    nth_error sel i = Some g -> nth_error (f_glyphs f) (N.to_nat g) = Some x ->
    nth_error (f_glyphs f') i = Some y ->
    length (g_comps y) = length (g_comps x) /\
    forall k c, nth_error (g_comps x) k = Some c ->
      exists c', nth_error (g_comps y) k = Some c' /\ nth_error sel (N.to_nat c') = Some c.
  Proof.
    intros Hk i g x y Hi Hx Hy.
    destruct (Forall2_nth _ _ _ i g (fx_glyphs _ _ _ F) Hi) as [y' [Hy' [x' [Ex' Hfacts]]]].
    apply glyph_at_nth in Ex'. assert (x' = x) by congruence. assert (y' = y) by congruence. subst x' y'.
    destruct Hfacts as [_ [_ [_ [_ [Hc _]]]]]. rewrite Hk in Hc. rewrite Hc.
    split; [apply map_length|]. intros k c Hkc. exists (pos0 sel c).
    split; [apply map_nth_error; exact Hkc|]. apply pos0_nth.
    apply (fx_comps_in _ _ _ F Hk g x c).
    - eapply nth_error_In; exact Hi.
    - apply glyph_at_nth; exact Hx.
    - eapply nth_error_In; exact Hkc.
  Qed.

  (* what a composite reference leads to: the k-th component of new glyph i
     is a glyph with the outline id (blank or not), width, name and number of
     components of the k-th component of the original *)
  Lemma cl_comp_identity : f_kind f = KGlyf -> forall i g x y,
    nth_error sel i = Some g -> nth_error (f_glyphs f) (N.to_nat g) = Some x ->
    nth_error (f_glyphs f') i = Some y ->
    forall k c, nth_error (g_comps x) k = Some c ->
      exists c' xc yc, nth_error (g_comps y) k = Some c' /\
        nth_error (f_glyphs f) (N.to_nat c) = Some xc /\
        nth_error (f_glyphs f') (N.to_nat c') = Some yc /\
        g_outline yc = g_outline xc /\ g_width yc = g_width xc /\ g_name yc = g_name xc /\
        length (g_comps yc) = length (g_comps xc) /\ is_blank yc = is_blank xc.
  Proof.
    intros Hk i g x y Hi Hx Hy k c Hkc.
    destruct (cl_comps Hk i g x y Hi Hx Hy) as [_ H]. destruct (H k c Hkc) as [c' [Hc' Hsel]].
    destruct (cl_glyph (N.to_nat c') c Hsel) as [xc [yc [Hxc [Hyc [Ho [Hw [Hn _]]]]]]].
    destruct (cl_comps Hk (N.to_nat c') c xc yc Hsel Hxc Hyc) as [Hlen _].
    exists c', xc, yc. repeat (split; [assumption|]).
    unfold is_blank. rewrite Ho.
    destruct (g_comps yc), (g_comps xc); cbn [length] in Hlen; try discriminate; reflexivity.
  Qed.

  (* cmap *)
  Lemma cl_cmap : forall j c, nth_error (f_cmaps f) j = Some c ->
    exists c', nth_error (f_cmaps f') j = Some c' /\ NoDup (map fst c') /\
      forall code k, lookup code c' = Some k <->
        exists g, lookup code c = Some g /\ nth_error gl (N.to_nat k) = Some g.
  Proof.
    intros j c Hj. destruct (wf_font_parts f Hwf) as [Hn [_ [_ [Hcm _]]]].
    destruct (wf_list_parts f gl Hl) as [Hnd Hb].
    pose proof (init_inv (nG f) gl Hn Hnd Hb) as HI0.
    assert (Hc : NoDup (map fst c)) by (apply nodupb_NoDup, Hcm; eapply nth_error_In; eauto).
    exists (subset_cmap (init gl) c). rewrite (fx_cmaps _ _ _ F).
    split; [apply map_nth_error; exact Hj|]. split; [apply subset_cmap_nodup; exact Hc|].
    intros code k. rewrite (subset_cmap_lookup (init gl) c code Hc).
    destruct (lookup code c) as [g|].
    - rewrite (lookup_new_nth (nG f) (init gl) g k HI0). cbn [init s_glyphs]. split.
      + intros H. exists g. split; [reflexivity|exact H].
      + intros [g' [Eg H]]. inversion Eg; subst. exact H.
    - split; [discriminate|]. intros [g [Eg _]]. discriminate.
  Qed.

  Lemma cl_cmap_count : length (f_cmaps f') = length (f_cmaps f).
  Proof. rewrite (fx_cmaps _ _ _ F). apply map_length. Qed.

  (* kerning *)
  Lemma cl_kern : forall j lk, nth_error (f_gpos f) j = Some lk ->
    exists lk', nth_error (f_gpos f') j = Some lk' /\ length lk' = length lk /\
      (forall s, (forall g, In g s -> R1 f gl g) -> kern_seq lk' (map (pos0 sel) s) = kern_seq lk s) /\
      (forall x y v, kern_lookup lk' x y = Some v ->
         exists a b, R1 f gl a /\ R1 f gl b /\ nth_error sel (N.to_nat x) = Some a /\
                     nth_error sel (N.to_nat y) = Some b /\ kern_lookup lk a b = Some v).
  Proof.
    intros j lk Hj. destruct (fx_layout _ _ _ F) as [st1 [I1 [R1iff [Hpos [_ [_ Egpos]]]]]].
    exists (map (subset_kern st1) lk). rewrite Egpos.
    split; [apply map_nth_error; exact Hj|]. split; [apply map_length|]. split.
    - intros s Hs.
      assert (Hs' : forall g, In g s -> In g (s_glyphs st1)) by (intros g Hg; apply R1iff; auto).
      rewrite <- (kern_seq_commute (nG f) st1 lk s I1 Hs'). f_equal.
      apply map_ext_in. intros g Hg. symmetry. apply Hpos. auto.
    - intros x y v. clear Hj. induction lk as [|k rest IH]; cbn [map kern_lookup]; [discriminate|].
      destruct (lookup2 (x, y) (subset_kern st1 k)) as [v0|] eqn:E.
      + intros H. inversion H; subst v0.
        destruct (subset_kern_origin (nG f) st1 k x y v I1 E) as [a [b [Ha [Hb Hk]]]].
        exists a, b.
        assert (Hina : In a (s_glyphs st1)) by (eapply lookup_new_In; eauto).
        assert (Hinb : In b (s_glyphs st1)) by (eapply lookup_new_In; eauto).
        split; [apply R1iff; exact Hina|]. split; [apply R1iff; exact Hinb|].
        assert (Ex : x = pos0 sel a).
        { rewrite <- (Hpos a Hina). unfold new_or0. rewrite Ha. reflexivity. }
        assert (Ey : y = pos0 sel b).
        { rewrite <- (Hpos b Hinb). unfold new_or0. rewrite Hb. reflexivity. }
        destruct (fx_sel1 _ _ _ F) as [sel1 [ext2 [Esel S1]]].
        assert (Hsa : In a sel) by (rewrite Esel; apply in_or_app; left; apply S1, R1iff, Hina).
        assert (Hsb : In b sel) by (rewrite Esel; apply in_or_app; left; apply S1, R1iff, Hinb).
        split; [rewrite Ex; apply pos0_nth; exact Hsa|]. split; [rewrite Ey; apply pos0_nth; exact Hsb|].
        rewrite Hk. reflexivity.
      + intros H. destruct (IH H) as [a [b [Ra [Rb [Na [Nb Hk]]]]]]. exists a, b.
        split; [exact Ra|]. split; [exact Rb|]. split; [exact Na|]. split; [exact Nb|].
        assert (Hina : In a (s_glyphs st1)) by (apply R1iff; exact Ra).
        assert (Hinb : In b (s_glyphs st1)) by (apply R1iff; exact Rb).
        assert (El : lookup2 (a, b) k = None).
        { rewrite <- (subset_kern_lookup (nG f) st1 k a b _ _ I1
                       (new_or0_lookup _ _ _ I1 Hina) (new_or0_lookup _ _ _ I1 Hinb)).
          assert (Ex : new_or0 st1 a = x).
          { rewrite (Hpos a Hina). pose proof (pos0_nth sel a) as P.
            destruct (fx_sel1 _ _ _ F) as [sel1 [ext2 [Esel S1]]].
            assert (Hsa : In a sel) by (rewrite Esel; apply in_or_app; left; apply S1; exact Ra).
            specialize (P Hsa).
            apply (proj2 (pos_nth sel a x (fx_nodup _ _ _ F))) in Na.
            unfold pos0. rewrite Na. reflexivity. }
          assert (Ey : new_or0 st1 b = y).
          { rewrite (Hpos b Hinb).
            apply (proj2 (pos_nth sel b y (fx_nodup _ _ _ F))) in Nb.
            unfold pos0. rewrite Nb. reflexivity. }
          rewrite Ex, Ey. exact E. }
        rewrite El. exact Hk.
  Qed.

  (* substitution *)
  Lemma wf_sub_ok : forall lk s, In lk (f_gsub f) -> In s lk -> sub_ok s.
  Proof.
    intros lk s Hlk Hs. destruct (wf_font_parts f Hwf) as [_ [_ [Hsub _]]].
    specialize (Hsub lk s Hlk Hs). destruct s as [d cov|m|sets|alt m]; cbn [wf_subb sub_ok] in *; [| | |discriminate].
    - apply andb_true_iff in Hsub. apply nodupb_NoDup. tauto.
    - discriminate.
    - apply andb_true_iff in Hsub. apply nodupb_NoDup. tauto.
  Qed.

  Lemma cl_gsub : forall j lk, nth_error (f_gsub f) j = Some lk ->
    exists lk', nth_error (f_gsub f') j = Some lk' /\
      forall s, (forall g, In g s -> R1 f gl g) ->
        shape_lookup lk' (map (pos0 sel) s) = map (pos0 sel) (shape_lookup lk s) /\
        (forall g, In g (shape_lookup lk s) -> R1 f gl g).
  Proof.
    intros j lk Hj. destruct (fx_layout _ _ _ F) as [st1 [I1 [R1iff [Hpos [C1 [Egsub _]]]]]].
    assert (Hlk : In lk (f_gsub f)) by (eapply nth_error_In; eauto).
    exists (pure_lookup st1 lk). rewrite Egsub. split; [apply map_nth_error; exact Hj|].
    intros s Hs.
    assert (Hs' : forall g, In g s -> In g (s_glyphs st1)) by (intros g Hg; apply R1iff; auto).
    destruct (run_lookup_commute (nG f) st1 lk I1
                (fun x Hx => wf_sub_ok lk x Hlk Hx)
                (fun x Hx => closed_sub_closed f st1 lk x Hwf I1 C1 Hlk Hx)
                (length s) s Hs') as [H1 H2].
    unfold shape_lookup. rewrite map_length.
    assert (Em : map (pos0 sel) s = map (new_or0 st1) s).
    { apply map_ext_in. intros g Hg. symmetry. apply Hpos. auto. }
    rewrite Em, H1. split.
    - apply map_ext_in. intros g Hg. apply Hpos. apply H2. exact Hg.
    - intros g Hg. apply R1iff. apply H2. exact Hg.
  Qed.

  Lemma cl_gsub_count : length (f_gsub f') = length (f_gsub f).
  Proof.
    destruct (fx_layout _ _ _ F) as [st1 [_ [_ [_ [_ [Egsub _]]]]]]. rewrite Egsub. apply map_length.
  Qed.

  Lemma cl_gpos_count : length (f_gpos f') = length (f_gpos f).
  Proof.
    destruct (fx_layout _ _ _ F) as [st1 [_ [_ [_ [_ [_ Egpos]]]]]]. rewrite Egpos. apply map_length.
  Qed.

  (* all lookups of the GSUB table, in order *)
  Lemma cl_gsub_all : forall s, (forall g, In g s -> R1 f gl g) ->
    shape_all (f_gsub f') (map (pos0 sel) s) = map (pos0 sel) (shape_all (f_gsub f) s) /\
    (forall g, In g (shape_all (f_gsub f) s) -> R1 f gl g).
  Proof.
    assert (G : forall ll ll', Forall2 (fun lk lk' =>
                  forall s, (forall g, In g s -> R1 f gl g) ->
                    shape_lookup lk' (map (pos0 sel) s) = map (pos0 sel) (shape_lookup lk s) /\
                    (forall g, In g (shape_lookup lk s) -> R1 f gl g)) ll ll' ->
                forall s, (forall g, In g s -> R1 f gl g) ->
                  shape_all ll' (map (pos0 sel) s) = map (pos0 sel) (shape_all ll s) /\
                  (forall g, In g (shape_all ll s) -> R1 f gl g)).
    { intros ll ll' H. induction H as [|lk lk' ll ll' Hh _ IH]; intros s Hs; cbn [shape_all fold_left].
      - split; [reflexivity|exact Hs].
      - destruct (Hh s Hs) as [H1 H2]. rewrite H1. apply IH. exact H2. }
    apply G.
    destruct (fx_layout _ _ _ F) as [st1 [I1 [R1iff [Hpos [C1 [Egsub _]]]]]].
    assert (Hall : forall lk, In lk (f_gsub f) -> exists j, nth_error (f_gsub f) j = Some lk)
      by (intros lk; apply In_nth_error).
    rewrite Egsub.
    assert (Hinc : forall lk, In lk (f_gsub f) -> In lk (f_gsub f)) by auto.
    revert Hinc. generalize (f_gsub f) at 1 3 4. intros ll Hinc.
    induction ll as [|lk ll IH]; cbn [map]; constructor.
    - destruct (Hall lk (Hinc lk (or_introl eq_refl))) as [j Hj].
      destruct (cl_gsub j lk Hj) as [lk' [Hlk' Hcomm]].
      rewrite Egsub in Hlk'.
      rewrite (map_nth_error (pure_lookup st1) j (f_gsub f) Hj) in Hlk'. inversion Hlk'; subst lk'.
      exact Hcomm.
    - apply IH. intros x Hx. apply Hinc. right; exact Hx.
  Qed.

  (* built-in encoding *)
  Lemma cl_enc : f_kind f <> KGlyf ->
    match f_enc f with
    | None => f_enc f' = None
    | Some e => exists e', f_enc f' = Some e' /\ length e' = length e /\
                 forall code g, nth_error e code = Some g ->
                   nth_error e' code = Some (pos0 sel g)
    end.
  Proof.
    intros Hk. rewrite (fx_enc _ _ _ F).
    destruct (f_kind f); [congruence| |]; (destruct (f_enc f) as [e|]; cbn [option_map]; [|reflexivity];
      eexists; split; [reflexivity|]; split; [apply map_length|];
      intros code g H; apply map_nth_error; exact H).
  Qed.
End Clauses.

(* ------------------------------------------------------------------ *)
(* cff.Outlines.Subset                                                  *)

Theorem M_cff_subset_spec : forall f gl, wf_fontb f = true -> wf_listb f gl = true -> f_kind f <> KGlyf ->
  exists r, M_cff_subset f gl = Ok r /\ r_sel r = gl /\
    Forall2 (fun g y => exists x, glyph_at f g = Ok x /\
               g_outline y = g_outline x /\ g_width y = g_width x /\ g_name y = g_name x /\
               g_cid y = g_cid x /\
               priv_of (r_font r) y = priv_of f x /\ priv_of (r_font r) y <> None /\
               (f_kind f = KCid -> mat_of (r_font r) y = mat_of f x /\ mat_of (r_font r) y <> None))
            gl (f_glyphs (r_font r)) /\
    f_enc (r_font r) = option_map (map (pos0 gl)) (f_enc f).
Proof.
  intros f gl Hwf Hl Hk. destruct (wf_font_parts f Hwf) as [Hn _]. destruct (wf_list_parts f gl Hl) as [Hnd Hb].
  pose proof (init_inv (nG f) gl Hn Hnd Hb) as HI0.
  destruct (subset_cff_spec f (init gl) Hwf Hk HI0) as [l [privs [mats [E [Hm G]]]]].
  unfold M_cff_subset. rewrite E. cbn [obind]. eexists. split; [reflexivity|].
  cbn [r_sel r_font f_glyphs f_enc f_privs f_mats]. split; [reflexivity|]. split.
  - cbn [init s_glyphs] in G. eapply Forall2_impl_In; [exact G|].
    intros g y Hg [x [Ex [H1 [H2 [H3 [H4 [H5 [H6 [H7 H8]]]]]]]]]. exists x.
    split; [exact Ex|]. split; [exact H1|]. split; [exact H2|]. split; [exact H3|]. split; [exact H4|].
    unfold priv_of, mat_of. cbn [f_privs f_mats].
    split; [exact H6|]. split; [exact H7|]. intros Hc. apply H8. unfold is_cid. rewrite Hc. reflexivity.
  - unfold subset_enc. destruct (f_enc f) as [e|]; cbn [option_map]; [|reflexivity].
    f_equal. apply map_ext. intros g. apply (pos0_new_or0 (nG f) (init gl) g HI0).
Qed.
