(* C10/Proofs_outl.v — the outline side: the composite closure of SubsetGlyf
   (any pop order) computes the least component-closed superset and
   terminates; the glyph records, private dictionaries and matrices of the
   subset are those of the original glyphs. *)
From Coq Require Import List NArith ZArith Bool Arith Lia Permutation.
From Coq Require Import ZifyBool ZifyNat ZifyN.
From Common Require Import Bytes Outcome.
From C10 Require Import Model Spec Util Proofs_state Proofs_gsub.
Import ListNotations.
Local Open Scope N_scope.

Lemma glyph_at_ok : forall f g, g < nG f -> exists x, glyph_at f g = Ok x /\ In x (f_glyphs f).
Proof.
  intros f g H. unfold glyph_at, nthN, nG in *.
  destruct (nth_error (f_glyphs f) (N.to_nat g)) eqn:E.
  - exists g0. split; [reflexivity|]. eapply nth_error_In; eauto.
  - apply nth_error_None in E. lia.
Qed.

Lemma glyph_at_In : forall f g x, glyph_at f g = Ok x -> In x (f_glyphs f) /\ g < nG f.
Proof.
  intros f g x H. unfold glyph_at, nthN, nG in *.
  destruct (nth_error (f_glyphs f) (N.to_nat g)) eqn:E; [|discriminate].
  inversion H; subst. split; [eapply nth_error_In; eauto|].
  assert (N.to_nat g < length (f_glyphs f))%nat by (apply nth_error_Some; congruence). lia.
Qed.

Lemma Forall2_nth {A B} (R : A -> B -> Prop) : forall l l' i a,
  Forall2 R l l' -> nth_error l i = Some a -> exists b, nth_error l' i = Some b /\ R a b.
Proof.
  intros l l' i a H. revert i. induction H as [|x y l l' Hxy _ IH]; intros i Hi.
  - destruct i; discriminate.
  - destruct i as [|i]; cbn in *.
    + inversion Hi; subst. eauto.
    + apply IH. exact Hi.
Qed.

Lemma Forall2_impl_In {A B} (R R' : A -> B -> Prop) : forall l l',
  Forall2 R l l' -> (forall a b, In a l -> R a b -> R' a b) -> Forall2 R' l l'.
Proof.
  intros l l' H. induction H as [|x y l l' Hxy _ IH]; intros Himp; constructor.
  - apply Himp; [left; reflexivity|exact Hxy].
  - apply IH. intros a b Ha. apply Himp. right; exact Ha.
Qed.

(* ------------------------------------------------------------------ *)
(* composite closure                                                    *)

Definition comps_closed (f : font) (S : N -> Prop) : Prop :=
  forall g x c, S g -> glyph_at f g = Ok x -> In c (g_comps x) -> S c.

Definition comps_bounded (f : font) : Prop :=
  forall g x c, glyph_at f g = Ok x -> In c (g_comps x) -> c < nG f.

Lemma set_add_In : forall x l t, In t (set_add x l) <-> In t l \/ t = x.
Proof.
  intros x l t. unfold set_add. destruct (memN x l) eqn:E.
  - apply memN_In in E. split; [auto|]. intros [H|H]; [exact H|subst; exact E].
  - rewrite in_app_iff. cbn [In]. split; intros [H|H]; auto.
    + destruct H as [H|[]]; auto.
Qed.

Lemma set_add_length : forall x l, (length (set_add x l) <= S (length l))%nat.
Proof.
  intros x l. unfold set_add. destruct (memN x l); [lia|]. rewrite app_length. cbn. lia.
Qed.

Lemma add_comps_spec : forall n cc st todo st' todo',
  n <= 65536 -> Inv n st -> bounded n cc -> add_comps cc st todo = (st', todo') ->
  Inv n st' /\ extends st st' /\
  (forall c, In c cc -> In c (s_glyphs st')) /\
  (forall h, In h (s_glyphs st') -> In h (s_glyphs st) \/ In h cc) /\
  (forall t, In t todo' <-> In t todo \/ (In t (s_glyphs st') /\ ~ In t (s_glyphs st))) /\
  (length todo' + length (s_glyphs st) <= length todo + length (s_glyphs st'))%nat.
Proof.
  intros n. induction cc as [|c r IH]; intros st todo st' todo' Hn HI Hb H; cbn [add_comps] in H.
  - inversion H; subst. split; [exact HI|]. split; [apply extends_refl|].
    split; [intros ? []|]. split; [intros h Hh; left; exact Hh|].
    split; [|lia]. intros t. split; [auto|]. intros [Ht|[Ht1 Ht2]]; [exact Ht|contradiction].
  - assert (Hbr : bounded n r) by (intros x Hx; apply Hb; right; exact Hx).
    destruct (has st c) eqn:E.
    + destruct (IH st todo st' todo' Hn HI Hbr H) as [H1 [H2 [H3 [H4 [H5 H6]]]]].
      split; [exact H1|]. split; [exact H2|]. split; [|split; [|split; [exact H5|exact H6]]].
      * intros x [Hx|Hx]; [subst|auto]. eapply extends_In; [exact H2|].
        apply (has_In n st x HI). exact E.
      * intros h Hh. destruct (H4 h Hh); [left|right; right]; assumption.
    + assert (Hni : ~ In c (s_glyphs st)) by (apply (has_false n st c HI); exact E).
      assert (Hc : c < n) by (apply Hb; left; reflexivity).
      pose proof (append_inv n st c Hn HI Hc Hni) as HI1.
      set (st1 := mkSst (s_glyphs st ++ [c]) ((c, wrap16 (N.of_nat (length (s_glyphs st)))) :: s_new st)) in *.
      assert (X1 : extends st st1) by (exists [c]; reflexivity).
      destruct (IH st1 (set_add c todo) st' todo' Hn HI1 Hbr H) as [H1 [H2 [H3 [H4 [H5 H6]]]]].
      split; [exact H1|]. split; [eapply extends_trans; eauto|].
      split; [|split; [|split]].
      * intros x [Hx|Hx]; [subst|auto]. eapply extends_In; [exact H2|].
        cbn [st1 s_glyphs]. apply in_or_app. right; left; reflexivity.
      * intros h Hh. destruct (H4 h Hh) as [Hh'|Hh']; [|right; right; exact Hh'].
        cbn [st1 s_glyphs] in Hh'. apply in_app_or in Hh'.
        destruct Hh' as [Hh'|[Hh'|[]]]; [left; exact Hh'|right; left; exact Hh'].
      * intros t. rewrite H5, set_add_In. cbn [st1 s_glyphs]. split.
        -- intros [[Ht|Ht]|[Ht1 Ht2]].
           ++ left; exact Ht.
           ++ subst t. right. split; [|exact Hni]. eapply extends_In; [exact H2|].
              cbn [st1 s_glyphs]. apply in_or_app. right; left; reflexivity.
           ++ right. split; [exact Ht1|]. intros Hc'. apply Ht2. apply in_or_app. left; exact Hc'.
        -- intros [Ht|[Ht1 Ht2]]; [left; left; exact Ht|].
           destruct (N.eq_dec t c) as [Etc|Etc]; [left; right; exact Etc|].
           right. split; [exact Ht1|]. intros Hc'. apply in_app_or in Hc'.
           destruct Hc' as [Hc'|[Hc'|[]]]; [contradiction|congruence].
      * pose proof (set_add_length c todo). cbn [st1 s_glyphs] in H6. rewrite app_length in H6.
        cbn [length] in H6. lia.
Qed.

Theorem comp_close_spec : forall f fuel orc todo st,
  nG f <= 65536 -> comps_bounded f -> Inv (nG f) st ->
  (forall t, In t todo -> In t (s_glyphs st)) ->
  (forall g x c, In g (s_glyphs st) -> ~ In g todo -> glyph_at f g = Ok x -> In c (g_comps x) ->
                 In c (s_glyphs st)) ->
  (length (f_glyphs f) - length (s_glyphs st) + length todo < fuel)%nat ->
  exists st', comp_close fuel f orc todo st = Ok st' /\ Inv (nG f) st' /\ extends st st' /\
    comps_closed f (sset st') /\
    (forall T : N -> Prop, (forall g, In g (s_glyphs st) -> T g) -> comps_closed f T ->
       forall g, In g (s_glyphs st') -> T g).
Proof.
  intros f. induction fuel as [|fuel IH]; intros orc todo st Hn Hcb HI Htodo Hdone Hf; [lia|].
  cbn [comp_close]. destruct (pick orc todo) as [[g todo1]|] eqn:Ep.
  - pose proof (pick_perm _ _ _ _ Ep) as Hperm.
    assert (Hg : In g (s_glyphs st)).
    { apply Htodo. eapply Permutation_in; [apply Permutation_sym; exact Hperm|left; reflexivity]. }
    destruct (glyph_at_ok f g (inv_bound _ _ HI g Hg)) as [x [Ex _]]. rewrite Ex. cbn [obind].
    destruct (add_comps (g_comps x) st todo1) as [st1 todo2] eqn:Ea.
    assert (Hbc : bounded (nG f) (g_comps x)) by (intros c Hc; eapply Hcb; eauto).
    destruct (add_comps_spec (nG f) _ _ _ _ _ Hn HI Hbc Ea) as [A1 [A2 [A3 [A4 [A5 A6]]]]].
    assert (Hl1 : length todo = S (length todo1)) by (rewrite (Permutation_length Hperm); reflexivity).
    pose proof (inv_length _ _ A1) as Hlen1. unfold nG in Hlen1. rewrite Nat2N.id in Hlen1.
    destruct (IH (tl orc) todo2 st1 Hn Hcb A1) as [st2 [E2 [I2 [X2 [C2 M2]]]]].
    + intros t Ht. apply A5 in Ht. destruct Ht as [Ht|[Ht _]]; [|exact Ht].
      eapply extends_In; [exact A2|]. apply Htodo.
      eapply Permutation_in; [apply Permutation_sym; exact Hperm|right; exact Ht].
    + intros h y c Hh Hnt Ey Hc.
      destruct (in_dec N.eq_dec h (s_glyphs st)) as [Hin|Hnin].
      * destruct (N.eq_dec h g) as [Ehg|Ehg].
        -- subst h. rewrite Ex in Ey. inversion Ey; subst y. apply A3. exact Hc.
        -- eapply extends_In; [exact A2|]. apply (Hdone h y c Hin); [|exact Ey|exact Hc].
           intros Ht. apply (Permutation_in _ Hperm) in Ht. destruct Ht as [Ht|Ht]; [congruence|].
           apply Hnt. apply A5. left; exact Ht.
      * exfalso. apply Hnt. apply A5. right. split; assumption.
    + destruct A2 as [ext Eext]. rewrite Eext in *. rewrite app_length in *. lia.
    + exists st2. split; [exact E2|]. split; [exact I2|]. split; [eapply extends_trans; eauto|].
      split; [exact C2|].
      intros T Hbase Hcl h Hh. apply (M2 T); [|exact Hcl|exact Hh].
      intros k Hk. destruct (A4 k Hk) as [Hk'|Hk']; [auto|].
      apply (Hcl g x k); [apply Hbase; exact Hg|exact Ex|exact Hk'].
  - apply pick_None in Ep. subst todo.
    exists st. split; [reflexivity|]. split; [exact HI|]. split; [apply extends_refl|].
    split; [|intros T Hbase _ g Hg; auto].
    intros g x c Hg Ex Hc. apply (Hdone g x c Hg (fun H => H) Ex Hc).
Qed.

Lemma todo_init_In : forall l acc t,
  In t (fold_left (fun t g => set_add g t) l acc) <-> In t acc \/ In t l.
Proof.
  induction l as [|x r IH]; intros acc t; cbn [fold_left].
  - split; [auto|]. intros [H|[]]; exact H.
  - rewrite IH, set_add_In. cbn [In]. split; intros H.
    + destruct H as [[H|H]|H]; auto.
    + destruct H as [H|[H|H]]; auto.
Qed.

Lemma todo_init_length : forall l acc,
  (length (fold_left (fun t g => set_add g t) l acc) <= length acc + length l)%nat.
Proof.
  induction l as [|x r IH]; intros acc; cbn [fold_left length]; [lia|].
  specialize (IH (set_add x acc)). pose proof (set_add_length x acc). lia.
Qed.

Lemma wf_comps_bounded : forall f, wf_fontb f = true -> f_kind f = KGlyf -> comps_bounded f.
Proof.
  intros f Hwf Hk g x c Ex Hc. destruct (wf_font_parts f Hwf) as [_ [Hg _]].
  destruct (glyph_at_In f g x Ex) as [Hx _]. specialize (Hg x Hx).
  unfold wf_glyphb in Hg. rewrite Hk in Hg. rewrite forallb_forall in Hg.
  apply gid_ok_lt. auto.
Qed.

(* ------------------------------------------------------------------ *)
(* glyph records, TrueType                                              *)

Definition glyf_rec (st : sst) (x : glyph) : glyph :=
  mkGlyph (g_outline x) (g_width x) (g_name x) (g_cid x) 0 (map (new_or0 st) (g_comps x)).

Lemma glyf_glyphs_spec : forall f st gs, bounded (nG f) gs ->
  exists l, glyf_glyphs f st gs = Ok l /\
    Forall2 (fun g y => exists x, glyph_at f g = Ok x /\ y = glyf_rec st x) gs l.
Proof.
  intros f st. induction gs as [|g r IH]; intros Hb; cbn [glyf_glyphs].
  - exists []. split; [reflexivity|constructor].
  - destruct (glyph_at_ok f g (Hb g (or_introl eq_refl))) as [x [Ex _]]. rewrite Ex. cbn [obind].
    destruct IH as [l [El Hl]]; [intros y Hy; apply Hb; right; exact Hy|].
    rewrite El. cbn [obind]. eexists. split; [reflexivity|]. constructor; [|exact Hl].
    exists x. split; [exact Ex|reflexivity].
Qed.

Theorem subset_glyf_spec : forall f orc st, wf_fontb f = true -> f_kind f = KGlyf -> Inv (nG f) st ->
  exists l st2, subset_glyf f orc st = Ok (l, st2) /\ Inv (nG f) st2 /\ extends st st2 /\
    comps_closed f (sset st2) /\
    (forall T : N -> Prop, (forall g, In g (s_glyphs st) -> T g) -> comps_closed f T ->
       forall g, In g (s_glyphs st2) -> T g) /\
    Forall2 (fun g y => exists x, glyph_at f g = Ok x /\ y = glyf_rec st2 x) (s_glyphs st2) l.
Proof.
  intros f orc st Hwf Hk HI. destruct (wf_font_parts f Hwf) as [Hn _].
  unfold subset_glyf. set (todo := fold_left (fun t g => set_add g t) (s_glyphs st) []).
  destruct (comp_close_spec f (S (length (f_glyphs f) + length todo)) orc todo st Hn
              (wf_comps_bounded f Hwf Hk) HI) as [st2 [E2 [I2 [X2 [C2 M2]]]]].
  - intros t Ht. apply todo_init_In in Ht. destruct Ht as [[]|Ht]; exact Ht.
  - intros g x c Hg Hnt. exfalso. apply Hnt. apply todo_init_In. right; exact Hg.
  - lia.
  - rewrite E2. cbn [obind].
    destruct (glyf_glyphs_spec f st2 (s_glyphs st2) (inv_bound _ _ I2)) as [l [El Hl]].
    rewrite El. cbn [obind]. exists l, st2. split; [reflexivity|]. split; [exact I2|].
    split; [exact X2|]. split; [exact C2|]. split; [exact M2|exact Hl].
Qed.

(* ------------------------------------------------------------------ *)
(* private dictionaries and glyph records, CFF                          *)

Definition is_cid (f : font) : bool := match f_kind f with KCid => true | _ => false end.

(* the FD table built so far is faithful *)
Definition fd_ok (f : font) (privs mats : list N) (pmap : list (N * N)) : Prop :=
  forall fd np, lookup fd pmap = Some np ->
    (exists p, nthN privs np = Some p /\ nthN (f_privs f) fd = Some p) /\
    (is_cid f = true -> exists m, nthN mats np = Some m /\ nthN (f_mats f) fd = Some m).

Definition fds_wf (f : font) : Prop :=
  forall x, In x (f_glyphs f) ->
    (exists p, nthN (f_privs f) (g_fd x) = Some p) /\
    (is_cid f = true -> exists m, nthN (f_mats f) (g_fd x) = Some m).

Lemma nthN_app_l {A} : forall (l l' : list A) i a, nthN l i = Some a -> nthN (l ++ l') i = Some a.
Proof.
  intros l l' i a H. unfold nthN in *. rewrite nth_error_app1; [exact H|].
  apply nth_error_Some. congruence.
Qed.

Lemma nthN_snoc {A} : forall (l : list A) a, nthN (l ++ [a]) (N.of_nat (length l)) = Some a.
Proof.
  intros l a. unfold nthN. rewrite Nat2N.id. rewrite nth_error_app2 by lia.
  rewrite Nat.sub_diag. reflexivity.
Qed.

Lemma cff_fds_spec : forall f gs privs mats pmap,
  fds_wf f -> bounded (nG f) gs -> fd_ok f privs mats pmap ->
  (is_cid f = true -> length mats = length privs) ->
  exists privs' mats' pmap',
    cff_fds f gs privs mats pmap = Ok (privs', mats', pmap') /\
    fd_ok f privs' mats' pmap' /\
    (is_cid f = true -> length mats' = length privs') /\
    (is_cid f = false -> mats' = mats) /\
    (forall fd np, lookup fd pmap = Some np -> lookup fd pmap' = Some np) /\
    (forall g x, In g gs -> glyph_at f g = Ok x -> exists np, lookup (g_fd x) pmap' = Some np).
Proof.
  intros f. induction gs as [|g r IH]; intros privs mats pmap Hwf Hb Hok Hlen; cbn [cff_fds].
  - exists privs, mats, pmap. split; [reflexivity|]. split; [exact Hok|]. split; [exact Hlen|].
    split; [reflexivity|]. split; [auto|]. intros g x [].
  - assert (Hbr : bounded (nG f) r) by (intros y Hy; apply Hb; right; exact Hy).
    destruct (glyph_at_ok f g (Hb g (or_introl eq_refl))) as [x [Ex Hx]]. rewrite Ex. cbn [obind].
    destruct (lookup (g_fd x) pmap) as [np0|] eqn:El.
    + destruct (IH privs mats pmap Hwf Hbr Hok Hlen) as [p' [m' [pm' [E [O [L [M [K C]]]]]]]].
      exists p', m', pm'. split; [exact E|]. split; [exact O|]. split; [exact L|]. split; [exact M|].
      split; [exact K|]. intros g' x' [Hg'|Hg'] Ex'.
      * subst g'. rewrite Ex in Ex'. inversion Ex'; subst x'. exists np0. apply K. exact El.
      * eapply C; eauto.
    + destruct (Hwf x Hx) as [[p Ep] Hm]. rewrite Ep.
      set (np := N.of_nat (length privs)).
      assert (Hfresh : forall fd k, lookup fd pmap = Some k -> nthN privs k <> None).
      { intros fd k Hk. destruct (Hok fd k Hk) as [[q [Hq _]] _]. congruence. }
      destruct (f_kind f) eqn:Ek.
      * (* KGlyf: treated like a simple CFF font *)
        assert (Hc : is_cid f = false) by (unfold is_cid; rewrite Ek; reflexivity).
        destruct (IH (privs ++ [p]) mats ((g_fd x, np) :: pmap) Hwf Hbr) as [p' [m' [pm' [E [O [L [M [K C]]]]]]]].
        { intros fd k Hk. cbn [lookup] in Hk. destruct (N.eqb_spec fd (g_fd x)).
          - inversion Hk; subst k fd. split; [|rewrite Hc; discriminate].
            exists p. split; [apply nthN_snoc|exact Ep].
          - destruct (Hok fd k Hk) as [[q [Hq1 Hq2]] Hmm]. split; [|rewrite Hc; discriminate].
            exists q. split; [apply nthN_app_l; exact Hq1|exact Hq2]. }
        { rewrite Hc. discriminate. }
        exists p', m', pm'. split; [exact E|]. split; [exact O|]. split; [exact L|]. split; [exact M|].
        split.
        -- intros fd k Hk. apply K. cbn [lookup]. destruct (N.eqb_spec fd (g_fd x)); [congruence|exact Hk].
        -- intros g' x' [Hg'|Hg'] Ex'.
           ++ subst g'. rewrite Ex in Ex'. inversion Ex'; subst x'. exists np. apply K.
              cbn [lookup]. rewrite N.eqb_refl. reflexivity.
           ++ eapply C; eauto.
      * assert (Hc : is_cid f = false) by (unfold is_cid; rewrite Ek; reflexivity).
        destruct (IH (privs ++ [p]) mats ((g_fd x, np) :: pmap) Hwf Hbr) as [p' [m' [pm' [E [O [L [M [K C]]]]]]]].
        { intros fd k Hk. cbn [lookup] in Hk. destruct (N.eqb_spec fd (g_fd x)).
          - inversion Hk; subst k fd. split; [|rewrite Hc; discriminate].
            exists p. split; [apply nthN_snoc|exact Ep].
          - destruct (Hok fd k Hk) as [[q [Hq1 Hq2]] Hmm]. split; [|rewrite Hc; discriminate].
            exists q. split; [apply nthN_app_l; exact Hq1|exact Hq2]. }
        { rewrite Hc. discriminate. }
        exists p', m', pm'. split; [exact E|]. split; [exact O|]. split; [exact L|]. split; [exact M|].
        split.
        -- intros fd k Hk. apply K. cbn [lookup]. destruct (N.eqb_spec fd (g_fd x)); [congruence|exact Hk].
        -- intros g' x' [Hg'|Hg'] Ex'.
           ++ subst g'. rewrite Ex in Ex'. inversion Ex'; subst x'. exists np. apply K.
              cbn [lookup]. rewrite N.eqb_refl. reflexivity.
           ++ eapply C; eauto.
      * assert (Hc : is_cid f = true) by (unfold is_cid; rewrite Ek; reflexivity).
        destruct (Hm Hc) as [m Em]. rewrite Em.
        specialize (Hlen Hc).
        destruct (IH (privs ++ [p]) (mats ++ [m]) ((g_fd x, np) :: pmap) Hwf Hbr) as [p' [m' [pm' [E [O [L [M [K C]]]]]]]].
        { intros fd k Hk. cbn [lookup] in Hk. destruct (N.eqb_spec fd (g_fd x)).
          - inversion Hk; subst k fd. split.
            + exists p. split; [apply nthN_snoc|exact Ep].
            + intros _. exists m. split; [|exact Em]. unfold np. rewrite <- Hlen. apply nthN_snoc.
          - destruct (Hok fd k Hk) as [[q [Hq1 Hq2]] Hmm]. split.
            + exists q. split; [apply nthN_app_l; exact Hq1|exact Hq2].
            + intros _. destruct (Hmm Hc) as [q' [Hq1' Hq2']]. exists q'.
              split; [apply nthN_app_l; exact Hq1'|exact Hq2']. }
        { intros _. rewrite !app_length. cbn [length]. lia. }
        exists p', m', pm'. split; [exact E|]. split; [exact O|]. split; [exact L|].
        split; [rewrite Hc; discriminate|].
        split.
        -- intros fd k Hk. apply K. cbn [lookup]. destruct (N.eqb_spec fd (g_fd x)); [congruence|exact Hk].
        -- intros g' x' [Hg'|Hg'] Ex'.
           ++ subst g'. rewrite Ex in Ex'. inversion Ex'; subst x'. exists np. apply K.
              cbn [lookup]. rewrite N.eqb_refl. reflexivity.
           ++ eapply C; eauto.
Qed.

Definition cff_rec (single : bool) (pmap : list (N * N)) (x : glyph) : glyph :=
  mkGlyph (g_outline x) (g_width x) (g_name x) (g_cid x)
          (if single then 0 else match lookup (g_fd x) pmap with Some n => n | None => 0 end) [].

Lemma cff_glyphs_spec : forall f single pmap gs, bounded (nG f) gs ->
  exists l, cff_glyphs f single pmap gs = Ok l /\
    Forall2 (fun g y => exists x, glyph_at f g = Ok x /\ y = cff_rec single pmap x) gs l.
Proof.
  intros f single pmap. induction gs as [|g r IH]; intros Hb; cbn [cff_glyphs].
  - exists []. split; [reflexivity|constructor].
  - destruct (glyph_at_ok f g (Hb g (or_introl eq_refl))) as [x [Ex _]]. rewrite Ex. cbn [obind].
    destruct IH as [l [El Hl]]; [intros y Hy; apply Hb; right; exact Hy|].
    rewrite El. cbn [obind]. eexists. split; [reflexivity|]. constructor; [|exact Hl].
    exists x. split; [exact Ex|reflexivity].
Qed.

Lemma wf_fds : forall f, wf_fontb f = true -> f_kind f <> KGlyf -> fds_wf f.
Proof.
  intros f Hwf Hk x Hx. destruct (wf_font_parts f Hwf) as [_ [Hg _]]. specialize (Hg x Hx).
  unfold wf_glyphb, is_cid in *. destruct (f_kind f); [congruence| |].
  - split; [|discriminate]. unfold nthN.
    destruct (nth_error (f_privs f) (N.to_nat (g_fd x))) eqn:E; [eauto|].
    apply nth_error_None in E. lia.
  - apply andb_true_iff in Hg. destruct Hg as [H1 H2]. split.
    + unfold nthN. destruct (nth_error (f_privs f) (N.to_nat (g_fd x))) eqn:E; [eauto|].
      apply nth_error_None in E. lia.
    + intros _. unfold nthN. destruct (nth_error (f_mats f) (N.to_nat (g_fd x))) eqn:E; [eauto|].
      apply nth_error_None in E. lia.
Qed.

(* what SubsetCFF returns: record i is the original record of s.glyphs[i],
   with an FD index that selects the same private dictionary (and matrix) *)
Theorem subset_cff_spec : forall f st, wf_fontb f = true -> f_kind f <> KGlyf -> Inv (nG f) st ->
  exists l privs mats, subset_cff f st = Ok (l, privs, mats) /\
    (is_cid f = false -> mats = []) /\
    Forall2 (fun g y => exists x, glyph_at f g = Ok x /\
               g_outline y = g_outline x /\ g_width y = g_width x /\ g_name y = g_name x /\
               g_cid y = g_cid x /\ g_comps y = [] /\
               nthN privs (g_fd y) = nthN (f_privs f) (g_fd x) /\ nthN privs (g_fd y) <> None /\
               (is_cid f = true -> nthN mats (g_fd y) = nthN (f_mats f) (g_fd x) /\ nthN mats (g_fd y) <> None))
            (s_glyphs st) l.
Proof.
  intros f st Hwf Hk HI. unfold subset_cff.
  destruct (cff_fds_spec f (s_glyphs st) [] [] [] (wf_fds f Hwf Hk) (inv_bound _ _ HI))
    as [privs [mats [pmap [E [O [L [M [_ C]]]]]]]].
  { intros fd np H. discriminate. }
  { reflexivity. }
  rewrite E. cbn [obind].
  destruct (cff_glyphs_spec f (Nat.eqb (length privs) 1) pmap (s_glyphs st) (inv_bound _ _ HI)) as [l [El Hl]].
  rewrite El. cbn [obind]. exists l, privs, mats. split; [reflexivity|]. split; [exact M|].
  eapply Forall2_impl_In; [exact Hl|]. intros g y Hg [x [Ex Ey]].
  exists x. split; [exact Ex|]. subst y. unfold cff_rec. cbn [g_outline g_width g_name g_cid g_fd g_comps].
  repeat (split; [reflexivity|]).
  destruct (C g x Hg Ex) as [np Enp].
  destruct (O (g_fd x) np Enp) as [[p [Hp1 Hp2]] Hm].
  assert (Hsel : (if Nat.eqb (length privs) 1 then 0 else match lookup (g_fd x) pmap with Some n => n | None => 0 end) = np).
  { rewrite Enp. destruct (Nat.eqb_spec (length privs) 1) as [E1|E1]; [|reflexivity].
    unfold nthN in Hp1. assert (N.to_nat np < length privs)%nat by (apply nth_error_Some; congruence). lia. }
  rewrite Hsel. split; [congruence|]. split; [congruence|].
  intros Hc. destruct (Hm Hc) as [m [Hm1 Hm2]]. split; congruence.
Qed.
