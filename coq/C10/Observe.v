(* C10/Observe.v — the canonical observation of a subset that is compared, as
   a string, with the observation the harness makes on the real subset.

   Every reference to a glyph of the subset is pulled back to the id of the
   original glyph (through r_sel); the appended extras and every finite map
   are listed in increasing order of that id.  In this form the order in
   which the Go code happens to append extras does not show, and neither
   does the numbering of the FDs. *)
From Coq Require Import List NArith ZArith Bool Arith.
From Common Require Import Bytes Outcome.
From C10 Require Import Model Spec.
Import ListNotations.
Local Open Scope Z_scope.

Inductive osub : Type :=
| OS1 (d : Z) (cov : list Z)
| OS2 (m : list (Z * Z))
| OLig (sets : list (Z * list (list Z * Z)))
| OMulti (alt : bool) (m : list (Z * list Z)).

Record obs : Type := mkObs {
  o_sel : list Z;
  o_extras : list Z;
  o_glyphs : list (Z * (Z * Z * Z * Z) * (Z * Z) * list Z);  (* old id, (outline,width,name,cid), (priv,matrix), comps *)
  o_fds : list (Z * Z);
  o_nmats : Z;
  o_cmaps : list (list (Z * Z));
  o_enc : option (list Z);
  o_gsub : list (list osub);
  o_gpos : list (list (list (Z * Z * Z)))
}.

Fixpoint zinsert {A} (key : A -> Z) (x : A) (l : list A) : list A :=
  match l with
  | [] => [x]
  | y :: r => if key x <=? key y then x :: l else y :: zinsert key x r
  end.

(* stable insertion sort *)
Fixpoint zsort {A} (key : A -> Z) (l : list A) : list A :=
  match l with
  | [] => []
  | x :: r => zinsert key x (zsort key r)
  end.

Section Obs.
  Variable sel : list N.      (* r_sel *)
  Variable n0 : nat.          (* length of the glyph list given to Subset *)
  Variable fo : font.         (* the subset font *)

  Definition old (j : N) : Z :=
    match nth_error sel (N.to_nat j) with
    | Some g => if (N.to_nat j <? length (f_glyphs fo))%nat then Z.of_N g else 100000 + Z.of_N j
    | None => 100000 + Z.of_N j
    end.

  Definition resolve (x : glyph) : Z * Z :=
    match f_kind fo with
    | KGlyf => (0, 0)
    | k =>
        let p := match nthN (f_privs fo) (g_fd x) with Some p => Z.of_N p | None => -1 end in
        let m := match k with
                 | KCid => match nthN (f_mats fo) (g_fd x) with Some m => Z.of_N m | None => -1 end
                 | _ => 0
                 end in
        (p, m)
    end.

  Definition oglyph (j : nat) (x : glyph) :=
    (old (N.of_nat j),
     (Z.of_N (g_outline x), g_width x, Z.of_N (g_name x), Z.of_N (g_cid x)),
     resolve x, map old (g_comps x)).

  Fixpoint oglyphs (j : nat) (l : list glyph) :=
    match l with
    | [] => []
    | x :: r => oglyph j x :: oglyphs (S j) r
    end.

  Definition osub_of (s : gsubst) : osub :=
    match s with
    | Single1 d cov => OS1 (Z.of_N d) (zsort (fun z => z) (map old cov))
    | Single2 m => OS2 (zsort fst (map (fun p => (old (fst p), old (snd p))) m))
    | Lig sets =>
        OLig (zsort fst (map (fun s => (old (fst s), map (fun l => (map old (fst l), old (snd l))) (snd s))) sets))
    | Multi a m => OMulti a (zsort fst (map (fun p => (old (fst p), map old (snd p))) m))
    end.

  Definition okern (k : kernsub) : list (Z * Z * Z) :=
    zsort (fun t => fst (fst t)) (zsort (fun t => snd (fst t))
      (map (fun t => (old (fst (fst t)), old (snd (fst t)), snd t)) k)).

  Definition ofds : list (Z * Z) :=
    let mats := f_mats fo in
    let fix go (i : nat) (ps : list N) :=
      match ps with
      | [] => []
      | p :: r =>
          (Z.of_N p,
           match f_kind fo with
           | KCid => match nth_error mats i with Some m => Z.of_N m | None => -1 end
           | _ => 0
           end) :: go (S i) r
      end in
    zsort fst (zsort snd (go O (f_privs fo))).

  Definition observe : obs :=
    let all := oglyphs O (f_glyphs fo) in
    let n0' := Nat.min n0 (length all) in
    let listed := firstn n0' all in
    let extras := zsort (fun t => fst (fst (fst t))) (skipn n0' all) in
    mkObs (map (fun t => fst (fst (fst t))) listed)
          (map (fun t => fst (fst (fst t))) extras)
          (listed ++ extras)
          ofds
          (Z.of_nat (length (f_mats fo)))
          (* "mapped to glyph 0" and "not mapped" are the same thing in a cmap *)
          (map (fun c => map (fun p => (Z.of_N (fst p), old (snd p)))
                           (filter (fun p => negb (N.eqb (snd p) 0)) c)) (f_cmaps fo))
          (match f_enc fo with None => None | Some l => Some (map old l) end)
          (map (map osub_of) (f_gsub fo))
          (map (map okern) (f_gpos fo)).
End Obs.

Inductive run_result : Type :=
| RObs (o : obs)
| RPanic
| RFuel
| RErr.

Definition run (cffonly : bool) (orc : list nat) (f : font) (gl : list N) : run_result :=
  match (if cffonly then M_cff_subset f gl else M_subset orc f gl) with
  | Ok r => RObs (observe (r_sel r) (length gl) (r_font r))
  | Panic => RPanic
  | OutOfFuel => RFuel
  | Err => RErr
  end.

(* the same observation made on the specification S_subset; the driver
   compares the two on every case that lies in the domain *)
Definition strip (f : font) : font :=
  mkFont (f_kind f) (f_glyphs f) (f_privs f) (f_mats f) [] (f_enc f) [] [].

Definition run_spec (cffonly : bool) (f : font) (gl : list N) : option obs :=
  match S_subset (if cffonly then strip f else f) gl with
  | Some r => Some (observe (r_sel r) (length gl) (r_font r))
  | None => None
  end.

Definition in_domain (f : font) (gl : list N) : bool := wf_fontb f && wf_listb f gl.
