(* C10/Proofs_state.v — the subsetter state: s.glyphs and s.newGid stay
   consistent (newGid is exactly "position in s.glyphs"), without duplicates
   and inside the font; no uint16 truncation happens. *)
From Coq Require Import List NArith ZArith Bool Arith Lia Permutation.
From Coq Require Import ZifyBool ZifyNat ZifyN.
From Common Require Import Bytes Outcome.
From C10 Require Import Model Spec Util.
Import ListNotations.
Local Open Scope N_scope.

Definition bounded (n : N) (l : list N) : Prop := forall g, In g l -> g < n.

Record Inv (n : N) (st : sst) : Prop := mkInv {
  inv_nodup : NoDup (s_glyphs st);
  inv_bound : bounded n (s_glyphs st);
  inv_map : forall g, lookup g (s_new st) = option_map N.of_nat (index_of g (s_glyphs st))
}.

Lemma inv_length : forall n st, Inv n st -> (length (s_glyphs st) <= N.to_nat n)%nat.
Proof.
  intros n st [Hnd Hb _]. apply NoDup_bounded_length; [exact Hnd|].
  intros x Hx. specialize (Hb x Hx). lia.
Qed.

Lemma has_In : forall n st g, Inv n st -> (has st g = true <-> In g (s_glyphs st)).
Proof.
  intros n st g [_ _ Hm]. unfold has. rewrite Hm.
  destruct (index_of g (s_glyphs st)) eqn:E; cbn [option_map].
  - split; [intros _|reflexivity]. apply index_of_Some in E. destruct E as [E _].
    eapply nth_error_In; eauto.
  - split; [discriminate|]. intros H. apply index_of_None in E. contradiction.
Qed.

Lemma has_false : forall n st g, Inv n st -> (has st g = false <-> ~ In g (s_glyphs st)).
Proof.
  intros n st g HI. rewrite <- (has_In n st g HI). destruct (has st g); split; intros; congruence.
Qed.

Lemma lookup_new_nth : forall n st g k, Inv n st ->
  (lookup g (s_new st) = Some k <-> nth_error (s_glyphs st) (N.to_nat k) = Some g).
Proof.
  intros n st g k HI. destruct HI as [Hnd Hb Hm]. rewrite Hm. split.
  - destruct (index_of g (s_glyphs st)) eqn:E; cbn [option_map]; [|discriminate].
    intros H. inversion H; subst. apply index_of_Some in E. destruct E as [E _].
    rewrite Nat2N.id. exact E.
  - intros H. rewrite (index_of_nth _ _ _ Hnd H). cbn [option_map]. f_equal. lia.
Qed.

Lemma new_or0_nth : forall n st g, Inv n st -> In g (s_glyphs st) ->
  nth_error (s_glyphs st) (N.to_nat (new_or0 st g)) = Some g.
Proof.
  intros n st g HI Hin. unfold new_or0.
  destruct (lookup g (s_new st)) eqn:E.
  - apply (lookup_new_nth n st g n0 HI). exact E.
  - exfalso. destruct HI as [_ _ Hm]. rewrite Hm in E.
    destruct (index_of_In g _ Hin) as [i Hi]. rewrite Hi in E. discriminate.
Qed.

(* the new numbering is injective on the glyphs of the state *)
Lemma lookup_new_inj : forall n st a b k, Inv n st ->
  lookup a (s_new st) = Some k -> lookup b (s_new st) = Some k -> a = b.
Proof.
  intros n st a b k HI Ha Hb.
  apply (lookup_new_nth n st a k HI) in Ha. apply (lookup_new_nth n st b k HI) in Hb. congruence.
Qed.

Lemma lookup_new_In : forall n st g k, Inv n st -> lookup g (s_new st) = Some k -> In g (s_glyphs st).
Proof.
  intros n st g k HI H. apply (has_In n st g HI). unfold has. rewrite H. reflexivity.
Qed.

(* ------------------------------------------------------------------ *)
(* getNewGid                                                            *)

Lemma get_new_present : forall n st g, Inv n st -> In g (s_glyphs st) ->
  get_new st g = (new_or0 st g, st).
Proof.
  intros n st g HI Hin. unfold get_new, new_or0.
  destruct (lookup g (s_new st)) eqn:E; [reflexivity|].
  exfalso. destruct HI as [_ _ Hm]. rewrite Hm in E.
  destruct (index_of_In g _ Hin) as [i Hi]. rewrite Hi in E. discriminate.
Qed.

Lemma append_inv : forall n st g, n <= 65536 -> Inv n st -> g < n -> ~ In g (s_glyphs st) ->
  Inv n (mkSst (s_glyphs st ++ [g])
               ((g, wrap16 (N.of_nat (length (s_glyphs st)))) :: s_new st)).
Proof.
  intros n st g Hn HI Hg Hni. pose proof HI as [Hnd Hb Hm].
  assert (Hnd' : NoDup (s_glyphs st ++ [g])).
  { apply NoDup_snoc; assumption. }
  assert (Hb' : bounded n (s_glyphs st ++ [g])).
  { intros x Hx. apply in_app_or in Hx. destruct Hx as [Hx|[Hx|[]]]; [auto|subst; exact Hg]. }
  assert (Hlen : (length (s_glyphs st ++ [g]) <= N.to_nat n)%nat).
  { apply NoDup_bounded_length; [exact Hnd'|]. intros x Hx. specialize (Hb' x Hx). lia. }
  rewrite app_length in Hlen. cbn [length] in Hlen.
  constructor; cbn [s_glyphs s_new]; [exact Hnd'|exact Hb'|].
  intros h. cbn [lookup]. destruct (N.eqb_spec h g).
  - subst h. rewrite (index_of_app_r g _ [g] Hni). cbn [index_of]. rewrite N.eqb_refl.
    cbn [option_map]. rewrite wrap16_small by lia. f_equal. lia.
  - rewrite Hm. destruct (index_of h (s_glyphs st)) eqn:E.
    + rewrite (index_of_app_l h _ [g] _ E). reflexivity.
    + apply index_of_None in E. rewrite (index_of_app_r h _ [g] E). cbn [index_of].
      destruct (N.eqb_spec h g); [contradiction|]. reflexivity.
Qed.

Lemma get_new_absent : forall n st g, Inv n st -> ~ In g (s_glyphs st) ->
  snd (get_new st g) = mkSst (s_glyphs st ++ [g])
                             ((g, wrap16 (N.of_nat (length (s_glyphs st)))) :: s_new st).
Proof.
  intros n st g HI Hni. unfold get_new.
  destruct (lookup g (s_new st)) eqn:E; [|reflexivity].
  exfalso. apply Hni. eapply lookup_new_In; eauto.
Qed.

(* a state extends another: same prefix, same numbers for the old glyphs *)
Definition extends (st st' : sst) : Prop := exists ext, s_glyphs st' = s_glyphs st ++ ext.

Lemma extends_refl : forall st, extends st st.
Proof. intros st. exists []. rewrite app_nil_r. reflexivity. Qed.

Lemma extends_trans : forall a b c, extends a b -> extends b c -> extends a c.
Proof.
  intros a b c [e1 H1] [e2 H2]. exists (e1 ++ e2). rewrite H2, H1, app_assoc. reflexivity.
Qed.

Lemma extends_In : forall st st' g, extends st st' -> In g (s_glyphs st) -> In g (s_glyphs st').
Proof. intros st st' g [e H] Hin. rewrite H. apply in_or_app. left; exact Hin. Qed.

Lemma extends_lookup : forall n st st' g k, Inv n st -> Inv n st' -> extends st st' ->
  lookup g (s_new st) = Some k -> lookup g (s_new st') = Some k.
Proof.
  intros n st st' g k HI HI' [e He] H.
  apply (lookup_new_nth n st g k HI) in H. apply (lookup_new_nth n st' g k HI').
  rewrite He. rewrite nth_error_app1; [exact H|]. apply nth_error_Some. congruence.
Qed.

Lemma get_new_spec : forall n st g, n <= 65536 -> Inv n st -> g < n ->
  Inv n (snd (get_new st g)) /\ extends st (snd (get_new st g)) /\
  In g (s_glyphs (snd (get_new st g))) /\
  lookup g (s_new (snd (get_new st g))) = Some (fst (get_new st g)) /\
  (forall h, In h (s_glyphs (snd (get_new st g))) -> In h (s_glyphs st) \/ h = g).
Proof.
  intros n st g Hn HI Hg.
  destruct (in_dec N.eq_dec g (s_glyphs st)) as [Hin|Hni].
  - rewrite (get_new_present n st g HI Hin). cbn [fst snd].
    split; [exact HI|]. split; [apply extends_refl|]. split; [exact Hin|]. split.
    + unfold new_or0. destruct (lookup g (s_new st)) eqn:E; [reflexivity|].
      exfalso. destruct HI as [_ _ Hm]. rewrite Hm in E.
      destruct (index_of_In g _ Hin) as [i Hi]. rewrite Hi in E. discriminate.
    + intros h Hh. left; exact Hh.
  - pose proof (get_new_absent n st g HI Hni) as Hs.
    assert (Hf : fst (get_new st g) = wrap16 (N.of_nat (length (s_glyphs st)))).
    { unfold get_new. destruct (lookup g (s_new st)) eqn:E; [|reflexivity].
      exfalso. apply Hni. eapply lookup_new_In; eauto. }
    rewrite Hs, Hf. cbn [s_glyphs s_new].
    split; [apply append_inv; assumption|].
    split; [exists [g]; reflexivity|].
    split; [apply in_or_app; right; left; reflexivity|].
    split; [cbn [lookup]; rewrite N.eqb_refl; reflexivity|].
    intros h Hh. apply in_app_or in Hh. destruct Hh as [Hh|[Hh|[]]]; [left; exact Hh|right; auto].
Qed.

(* ------------------------------------------------------------------ *)
(* the initial state                                                    *)

Lemma init_new_lookup : forall gl i m g,
  NoDup gl -> N.of_nat (i + length gl) <= 65536 ->
  lookup g (init_new i gl m) =
    match index_of g gl with
    | Some k => Some (N.of_nat (i + k))
    | None => lookup g m
    end.
Proof.
  induction gl as [|x r IH]; intros i m g Hnd Hlen; cbn [init_new index_of]; [reflexivity|].
  inversion Hnd as [|? ? Hni Hnd']; subst. cbn [length] in Hlen.
  rewrite IH by (try assumption; lia).
  destruct (N.eqb_spec g x).
  - subst. assert (E : index_of x r = None) by (apply index_of_None; exact Hni).
    rewrite E. cbn [lookup]. rewrite N.eqb_refl. rewrite wrap16_small by lia. f_equal. lia.
  - destruct (index_of g r) eqn:E; cbn [option_map].
    + f_equal. lia.
    + cbn [lookup]. destruct (N.eqb_spec g x); [contradiction|reflexivity].
Qed.

Lemma init_inv : forall n gl, n <= 65536 -> NoDup gl -> bounded n gl -> Inv n (init gl).
Proof.
  intros n gl Hn Hnd Hb.
  assert (Hlen : (length gl <= N.to_nat n)%nat).
  { apply NoDup_bounded_length; [exact Hnd|]. intros x Hx. specialize (Hb x Hx). lia. }
  constructor; cbn [init s_glyphs s_new]; [exact Hnd|exact Hb|].
  intros g. rewrite init_new_lookup by (try assumption; lia).
  destruct (index_of g gl); reflexivity.
Qed.
