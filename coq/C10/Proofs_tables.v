(* C10/Proofs_tables.v — the re-keyed tables: cmap, kerning pairs and
   substitution lookups mean the same under the new numbering. *)
From Coq Require Import List NArith ZArith Bool Arith Lia Permutation.
From Coq Require Import ZifyBool ZifyNat ZifyN.
From Common Require Import Bytes Outcome.
From C10 Require Import Model Spec Util Proofs_state Proofs_gsub.
Import ListNotations.
Local Open Scope N_scope.

(* ------------------------------------------------------------------ *)
(* cmap                                                                 *)

Lemma subset_cmap_keys : forall st c k, In k (map fst (subset_cmap st c)) -> In k (map fst c).
Proof.
  intros st. induction c as [|[code g] r IH]; intros k H; cbn [subset_cmap] in H; [exact H|].
  cbn [map fst]. destruct (lookup g (s_new st)).
  - cbn [map fst In] in H. destruct H as [H|H]; [left; exact H|right; apply IH; exact H].
  - right. apply IH. exact H.
Qed.

Lemma subset_cmap_lookup : forall st c code, NoDup (map fst c) ->
  lookup code (subset_cmap st c) =
  match lookup code c with Some g => lookup g (s_new st) | None => None end.
Proof.
  intros st. induction c as [|[code' g] r IH]; intros code Hnd; cbn [subset_cmap lookup]; [reflexivity|].
  cbn [map fst] in Hnd. inversion Hnd as [|? ? Hni Hnd']; subst.
  destruct (N.eqb_spec code code') as [E|E].
  - subst code'. destruct (lookup g (s_new st)) eqn:El.
    + cbn [lookup]. rewrite N.eqb_refl. reflexivity.
    + apply lookup_None. intros H. apply Hni. eapply subset_cmap_keys; eauto.
  - destruct (lookup g (s_new st)).
    + cbn [lookup]. destruct (N.eqb_spec code code'); [contradiction|]. apply IH; exact Hnd'.
    + apply IH; exact Hnd'.
Qed.

Lemma subset_cmap_nodup : forall st c, NoDup (map fst c) -> NoDup (map fst (subset_cmap st c)).
Proof.
  intros st. induction c as [|[code g] r IH]; intros Hnd; cbn [subset_cmap]; [constructor|].
  cbn [map fst] in Hnd. inversion Hnd as [|? ? Hni Hnd']; subst.
  destruct (lookup g (s_new st)); [|apply IH; exact Hnd'].
  cbn [map fst]. constructor; [|apply IH; exact Hnd'].
  intros H. apply Hni. eapply subset_cmap_keys; eauto.
Qed.

(* ------------------------------------------------------------------ *)
(* kerning                                                              *)

Lemma pair_eqb_spec : forall a b, pair_eqb a b = true <-> a = b.
Proof.
  intros [a1 a2] [b1 b2]. unfold pair_eqb. cbn [fst snd]. rewrite andb_true_iff, !N.eqb_eq.
  split; [intros [? ?]; subst; reflexivity|intros H; inversion H; auto].
Qed.

Lemma subset_kern_lookup : forall n st k a b na nb, Inv n st ->
  lookup a (s_new st) = Some na -> lookup b (s_new st) = Some nb ->
  lookup2 (na, nb) (subset_kern st k) = lookup2 (a, b) k.
Proof.
  intros n st k a b na nb HI Ha Hb. induction k as [|[[l r] v] rest IH]; cbn [subset_kern]; [reflexivity|].
  unfold lookup2 in *. cbn [find fst].
  destruct (lookup l (s_new st)) as [nl|] eqn:El; [destruct (lookup r (s_new st)) as [nr|] eqn:Er|].
  - cbn [find fst].
    destruct (pair_eqb (a, b) (l, r)) eqn:E1.
    + apply pair_eqb_spec in E1. inversion E1; subst l r.
      assert (E2 : pair_eqb (na, nb) (nl, nr) = true) by (apply pair_eqb_spec; congruence).
      rewrite E2. reflexivity.
    + assert (E2 : pair_eqb (na, nb) (nl, nr) = false).
      { destruct (pair_eqb (na, nb) (nl, nr)) eqn:E2; [|reflexivity].
        apply pair_eqb_spec in E2. inversion E2; subst nl nr.
        assert (a = l) by (eapply lookup_new_inj; eauto).
        assert (b = r) by (eapply lookup_new_inj; eauto). subst.
        assert (pair_eqb (l, r) (l, r) = true) by (apply pair_eqb_spec; reflexivity). congruence. }
      rewrite E2. exact IH.
  - destruct (pair_eqb (a, b) (l, r)) eqn:E1; [|exact IH].
    apply pair_eqb_spec in E1. inversion E1; subst. congruence.
  - destruct (pair_eqb (a, b) (l, r)) eqn:E1; [|exact IH].
    apply pair_eqb_spec in E1. inversion E1; subst. congruence.
Qed.

(* every pair of the subset comes from a pair of the original *)
Lemma subset_kern_origin : forall n st k x y v, Inv n st ->
  lookup2 (x, y) (subset_kern st k) = Some v ->
  exists a b, lookup a (s_new st) = Some x /\ lookup b (s_new st) = Some y /\ lookup2 (a, b) k = Some v.
Proof.
  intros n st k x y v HI. induction k as [|[[l r] v'] rest IH]; cbn [subset_kern]; intros H.
  - discriminate.
  - destruct (lookup l (s_new st)) as [nl|] eqn:El; [destruct (lookup r (s_new st)) as [nr|] eqn:Er|].
    + unfold lookup2 in H. cbn [find fst] in H. destruct (pair_eqb (x, y) (nl, nr)) eqn:E.
      * apply pair_eqb_spec in E. inversion E; subst nl nr. cbn [snd] in H. inversion H; subst v'.
        exists l, r. split; [exact El|]. split; [exact Er|].
        unfold lookup2. cbn [find fst].
        assert (E' : pair_eqb (l, r) (l, r) = true) by (apply pair_eqb_spec; reflexivity).
        rewrite E'. reflexivity.
      * destruct (IH H) as [a [b [Ha [Hb Hk]]]]. exists a, b. split; [exact Ha|]. split; [exact Hb|].
        rewrite <- (subset_kern_lookup n st ((l, r, v') :: rest) a b x y HI Ha Hb).
        cbn [subset_kern]. rewrite El, Er. unfold lookup2. cbn [find fst]. rewrite E. exact H.
    + destruct (IH H) as [a [b [Ha [Hb Hk]]]]. exists a, b. split; [exact Ha|]. split; [exact Hb|].
      rewrite <- (subset_kern_lookup n st ((l, r, v') :: rest) a b x y HI Ha Hb).
      cbn [subset_kern]. rewrite El, Er. exact H.
    + destruct (IH H) as [a [b [Ha [Hb Hk]]]]. exists a, b. split; [exact Ha|]. split; [exact Hb|].
      rewrite <- (subset_kern_lookup n st ((l, r, v') :: rest) a b x y HI Ha Hb).
      cbn [subset_kern]. rewrite El. exact H.
Qed.

Lemma kern_lookup_commute : forall n st lk a b na nb, Inv n st ->
  lookup a (s_new st) = Some na -> lookup b (s_new st) = Some nb ->
  kern_lookup (map (subset_kern st) lk) na nb = kern_lookup lk a b.
Proof.
  intros n st lk a b na nb HI Ha Hb. induction lk as [|k r IH]; cbn [kern_lookup map]; [reflexivity|].
  rewrite (subset_kern_lookup n st k a b na nb HI Ha Hb). rewrite IH. reflexivity.
Qed.

Lemma new_or0_lookup : forall n st g, Inv n st -> In g (s_glyphs st) ->
  lookup g (s_new st) = Some (new_or0 st g).
Proof.
  intros n st g HI Hin. unfold new_or0. destruct (lookup g (s_new st)) eqn:E; [reflexivity|].
  exfalso. apply (has_false n st g HI); [|exact Hin]. unfold has. rewrite E. reflexivity.
Qed.

Lemma kern_seq_commute : forall n st lk s, Inv n st -> (forall g, In g s -> In g (s_glyphs st)) ->
  kern_seq (map (subset_kern st) lk) (map (new_or0 st) s) = kern_seq lk s.
Proof.
  intros n st lk s HI. induction s as [|a r IH]; intros Hs; cbn [kern_seq map]; [reflexivity|].
  destruct r as [|b r']; [reflexivity|]. cbn [map].
  rewrite (kern_lookup_commute n st lk a b _ _ HI
             (new_or0_lookup n st a HI (Hs a (or_introl eq_refl)))
             (new_or0_lookup n st b HI (Hs b (or_intror (or_introl eq_refl))))).
  f_equal. apply IH. intros g Hg. apply Hs. right; exact Hg.
Qed.

(* ------------------------------------------------------------------ *)
(* substitution lookups                                                 *)

Section Sub.
  Variable n : N.
  Variable st : sst.
  Hypothesis HI : Inv n st.

  Local Notation new := (new_or0 st).
  Let inS (g : N) := In g (s_glyphs st).

  Lemma new_inj : forall a b, inS a -> inS b -> new a = new b -> a = b.
  Proof.
    intros a b Ha Hb E. eapply (lookup_new_inj n st a b (new a) HI).
    - apply new_or0_lookup with (n := n); assumption.
    - rewrite E. apply new_or0_lookup with (n := n); assumption.
  Qed.

  Lemma is_prefix_In : forall p s, is_prefix p s = true -> forall x, In x p -> In x s.
  Proof.
    induction p as [|a p IH]; intros s H x Hx; [destruct Hx|].
    destruct s as [|b s]; cbn [is_prefix] in H; [discriminate|].
    apply andb_true_iff in H. destruct H as [H1 H2]. apply N.eqb_eq in H1. subst b.
    destruct Hx as [Hx|Hx]; [left; exact Hx|right; eapply IH; eauto].
  Qed.

  Lemma is_prefix_map : forall p s, (forall x, In x p -> inS x) -> (forall x, In x s -> inS x) ->
    is_prefix (map new p) (map new s) = is_prefix p s.
  Proof.
    induction p as [|a p IH]; intros s Hp Hs; [reflexivity|].
    destruct s as [|b s]; [reflexivity|]. cbn [map is_prefix].
    rewrite IH; [|intros x Hx; apply Hp; right; exact Hx|intros x Hx; apply Hs; right; exact Hx].
    f_equal. destruct (N.eqb_spec a b) as [E|E].
    - subst. apply N.eqb_refl.
    - apply N.eqb_neq. intros H. apply E.
      apply new_inj; [apply Hp; left; reflexivity|apply Hs; left; reflexivity|exact H].
  Qed.

  Definition ren (x : N * list N) : N * list N := (new (fst x), map new (snd x)).

  Lemma try_ligs_commute : forall ligs rest, (forall x, In x rest -> inS x) ->
    try_ligs (pure_ligs st ligs) (map new rest) = option_map ren (try_ligs ligs rest).
  Proof.
    induction ligs as [|[ins out] r IH]; intros rest Hr; [reflexivity|].
    unfold pure_ligs. cbn [filter fst snd try_ligs].
    destruct (forallb (has st) ins) eqn:E.
    - cbn [map fst snd try_ligs].
      assert (Hins : forall x, In x ins -> inS x) by (apply (forallb_has n st ins HI); exact E).
      rewrite (is_prefix_map ins rest Hins Hr).
      destruct (is_prefix ins rest).
      + cbn [option_map]. unfold ren. cbn [fst snd]. rewrite map_length, skipn_map. reflexivity.
      + apply IH; exact Hr.
    - assert (Hnp : is_prefix ins rest = false).
      { destruct (is_prefix ins rest) eqn:Ep; [|reflexivity]. exfalso.
        assert (forallb (has st) ins = true); [|congruence].
        apply (forallb_has n st ins HI). intros x Hx. apply Hr. eapply is_prefix_In; eauto. }
      rewrite Hnp. apply IH; exact Hr.
  Qed.

  Lemma try_ligs_result : forall ligs rest out rest',
    try_ligs ligs rest = Some (out, rest') ->
    exists ins, In (ins, out) ligs /\ is_prefix ins rest = true /\ rest' = skipn (length ins) rest.
  Proof.
    induction ligs as [|[ins o] r IH]; intros rest out rest' H; cbn [try_ligs] in H; [discriminate|].
    destruct (is_prefix ins rest) eqn:E.
    - inversion H; subst. exists ins. split; [left; reflexivity|]. split; [exact E|reflexivity].
    - destruct (IH rest out rest' H) as [i [Hi1 Hi2]]. exists i. split; [right; exact Hi1|exact Hi2].
  Qed.

  Lemma lookup_map_new {V} : forall (h : N -> V) ks g, (forall k, In k ks -> inS k) -> inS g ->
    lookup (new g) (map (fun k => (new k, h k)) ks) = if memN g ks then Some (h g) else None.
  Proof.
    intros h. induction ks as [|k r IH]; intros g Hks Hg; [reflexivity|].
    cbn [map lookup memN existsb]. fold (memN g r).
    destruct (N.eqb_spec g k) as [E|E].
    - subst. rewrite N.eqb_refl. reflexivity.
    - assert (E' : (new g =? new k) = false).
      { apply N.eqb_neq. intros H. apply E. apply new_inj; [exact Hg|apply Hks; left; reflexivity|exact H]. }
      rewrite E'. cbn [orb]. apply IH; [intros x Hx; apply Hks; right; exact Hx|exact Hg].
  Qed.

  Lemma lookup_pure_sets : forall sets g,
    NoDup (map fst sets) -> (forall s, In s sets -> inS (fst s)) -> inS g ->
    lookup (new g) (pure_sets st sets) =
    match lookup g sets with
    | Some ligs => match pure_ligs st ligs with [] => None | nl => Some nl end
    | None => None
    end.
  Proof.
    induction sets as [|[first ligs] r IH]; intros g Hnd Hs Hg; [reflexivity|].
    cbn [map fst] in Hnd. inversion Hnd as [|? ? Hni Hnd']; subst.
    assert (Hr : forall s, In s r -> inS (fst s)) by (intros s Hs'; apply Hs; right; exact Hs').
    unfold pure_sets. cbn [flat_map fst snd lookup]. fold (pure_sets st r).
    destruct (N.eqb_spec g first) as [E|E].
    - subst first.
      assert (Hnone : lookup (new g) (pure_sets st r) = None).
      { rewrite (IH g Hnd' Hr Hg). assert (El : lookup g r = None) by (apply lookup_None; exact Hni).
        rewrite El. reflexivity. }
      destruct (pure_ligs st ligs) as [|l0 nl]; cbn [app].
      + exact Hnone.
      + cbn [lookup]. rewrite N.eqb_refl. reflexivity.
    - assert (E' : (new g =? new first) = false).
      { apply N.eqb_neq. intros H. apply E.
        apply new_inj; [exact Hg|apply (Hs (first, ligs)); left; reflexivity|exact H]. }
      destruct (pure_ligs st ligs) as [|l0 nl]; cbn [app].
      + apply IH; assumption.
      + cbn [lookup]. rewrite E'. apply IH; assumption.
  Qed.

  Lemma retained_nodup {A} : forall (old : A -> N) l, NoDup (map old l) -> NoDup (map old (retained st old l)).
  Proof.
    intros old l Hnd. unfold retained.
    eapply Permutation_NoDup; [apply Permutation_map, Permutation_sym, sort_by_perm|].
    induction l as [|x r IH]; cbn [filter map]; [constructor|].
    cbn [map] in Hnd. inversion Hnd as [|? ? Hni Hnd']; subst.
    destruct (has st (old x)); [|apply IH; exact Hnd'].
    cbn [map]. constructor; [|apply IH; exact Hnd'].
    intros H. apply Hni. apply in_map_iff in H. destruct H as [y [Ey Hy]].
    apply filter_In in Hy. destruct Hy as [Hy _]. rewrite <- Ey. apply in_map. exact Hy.
  Qed.

  Lemma lookup_retained : forall (sets : list ligset) g, NoDup (map fst sets) -> inS g ->
    lookup g (retained st fst sets) = lookup g sets.
  Proof.
    intros sets g Hnd Hg.
    pose proof (retained_nodup fst sets Hnd) as Hnd'.
    destruct (lookup g sets) as [ligs|] eqn:E.
    - apply lookup_NoDup; [exact Hnd'|]. apply (retained_In n st fst sets (g, ligs) HI).
      split; [apply lookup_In; exact E|exact Hg].
    - apply lookup_None. intros H. apply in_map_iff in H. destruct H as [[first ligs] [Ef Hin]].
      cbn [fst] in Ef. subst first. apply (retained_In n st fst sets (g, ligs) HI) in Hin.
      destruct Hin as [Hin _]. apply lookup_None in E. apply E.
      change g with (fst (g, ligs)). apply in_map. exact Hin.
  Qed.

  Lemma apply_lookup_at_app : forall l1 l2 g rest,
    apply_lookup_at (l1 ++ l2) g rest =
    match apply_lookup_at l1 g rest with Some x => Some x | None => apply_lookup_at l2 g rest end.
  Proof.
    induction l1 as [|s r IH]; intros l2 g rest; cbn [app apply_lookup_at]; [reflexivity|].
    destruct (apply_sub s g rest); [reflexivity|apply IH].
  Qed.

  (* a supported subtable: the coverage is a map *)
  Definition sub_ok (s : gsubst) : Prop :=
    match s with
    | Single1 _ cov => NoDup cov
    | Single2 _ => False
    | Lig sets => NoDup (map fst sets)
    | Multi _ _ => False
    end.

  Lemma pure_sub_commute : forall s g rest, sub_ok s -> inS g -> (forall x, In x rest -> inS x) ->
    apply_lookup_at (pure_sub st s) (new g) (map new rest) = option_map ren (apply_sub s g rest).
  Proof.
    intros s g rest Hok Hg Hr. destruct s as [d cov|m|sets|alt m]; cbn [sub_ok pure_sub apply_sub] in *; [| | |contradiction].
    - set (ks := retained st (fun g => g) cov).
      assert (Hks : forall k, In k ks -> inS k).
      { intros k Hk. apply (retained_In n st (fun g => g) cov k HI) in Hk. destruct Hk; assumption. }
      assert (Hmem : memN g ks = memN g cov).
      { destruct (memN g cov) eqn:E.
        - apply memN_In. apply (retained_In n st (fun g => g) cov g HI). split; [apply memN_In; exact E|exact Hg].
        - apply memN_false. intros H. apply (retained_In n st (fun g => g) cov g HI) in H.
          destruct H as [H _]. apply memN_false in E. contradiction. }
      pose proof (lookup_map_new (fun k => new (wrap16 (k + d))) ks g Hks Hg) as Hl.
      unfold pure_single.
      destruct (map (fun g0 => (new g0, new (wrap16 (g0 + d)))) ks) as [|e m'] eqn:Em.
      + cbn [apply_lookup_at]. rewrite <- Hmem.
        destruct ks; [reflexivity|discriminate].
      + cbn [apply_lookup_at apply_sub]. rewrite Hl, Hmem.
        destruct (memN g cov); reflexivity.
    - contradiction.
    - pose proof (retained_nodup fst sets Hok) as Hnd'.
      assert (Hfirst : forall s, In s (retained st fst sets) -> inS (fst s)).
      { intros s Hs. apply (retained_In n st fst sets s HI) in Hs. destruct Hs; assumption. }
      pose proof (lookup_pure_sets (retained st fst sets) g Hnd' Hfirst Hg) as Hl.
      rewrite (lookup_retained sets g Hok Hg) in Hl.
      destruct (pure_sets st (retained st fst sets)) as [|e ns] eqn:Ens.
      + cbn [apply_lookup_at]. cbn [lookup] in Hl.
        destruct (lookup g sets) as [ligs|]; [|reflexivity].
        pose proof (try_ligs_commute ligs rest Hr) as Ht.
        destruct (pure_ligs st ligs); [|discriminate]. cbn [try_ligs] in Ht. exact Ht.
      + cbn [apply_lookup_at apply_sub]. rewrite Hl.
        destruct (lookup g sets) as [ligs|]; [|reflexivity].
        pose proof (try_ligs_commute ligs rest Hr) as Ht.
        destruct (pure_ligs st ligs) as [|l0 nl]; [cbn [try_ligs] in Ht; exact Ht|].
        destruct (try_ligs (l0 :: nl) (map new rest)); [exact Ht|exact Ht].
  Qed.

  Lemma pure_lookup_commute : forall lk g rest, (forall s, In s lk -> sub_ok s) ->
    inS g -> (forall x, In x rest -> inS x) ->
    apply_lookup_at (pure_lookup st lk) (new g) (map new rest) =
    option_map ren (apply_lookup_at lk g rest).
  Proof.
    induction lk as [|s r IH]; intros g rest Hok Hg Hr; [reflexivity|].
    unfold pure_lookup. cbn [flat_map apply_lookup_at]. rewrite apply_lookup_at_app.
    rewrite (pure_sub_commute s g rest (Hok s (or_introl eq_refl)) Hg Hr).
    destruct (apply_sub s g rest); [reflexivity|].
    apply IH; [intros x Hx; apply Hok; right; exact Hx|exact Hg|exact Hr].
  Qed.

  (* what a lookup produces stays inside a rule-closed set *)
  Lemma apply_sub_closed : forall s g rest h rest', sub_closed st s -> inS g ->
    (forall x, In x rest -> inS x) -> apply_sub s g rest = Some (h, rest') ->
    inS h /\ (forall x, In x rest' -> inS x) /\ (length rest' <= length rest)%nat.
  Proof.
    intros s g rest h rest' Hc Hg Hr H. destruct s as [d cov|m|sets|alt m]; cbn [sub_closed apply_sub] in *; [| | |contradiction].
    - destruct (memN g cov) eqn:E; [|discriminate]. inversion H; subst.
      split; [apply Hc; [apply memN_In; exact E|exact Hg]|]. split; [exact Hr|lia].
    - contradiction.
    - destruct (lookup g sets) as [ligs|] eqn:E; [|discriminate].
      destruct (try_ligs_result ligs rest h rest' H) as [ins [Hin [Hp Hrest]]].
      assert (Hins : forall x, In x ins -> inS x) by (intros x Hx; apply Hr; eapply is_prefix_In; eauto).
      split.
      + apply (Hc (g, ligs) (ins, h)); [apply lookup_In; exact E|exact Hin|exact Hg|].
        apply (forallb_has n st ins HI). exact Hins.
      + subst rest'. split; [intros x Hx; apply Hr; eapply skipn_In_l; exact Hx|].
        rewrite skipn_length. lia.
  Qed.
End Sub.
