(* C10/Spec.v — the specification side: what "needed glyph" means (least sets
   closed under substitution rules and composite references), the domain
   (well-formed abstract fonts, admissible glyph lists, as decidable
   predicates), the meaning of kerning and substitution lookups on glyph
   sequences, and the executable specification S_subset (the subset with the
   appended extras in increasing order of their original id, every table
   re-keyed through the index map).  Written from the property text, not from
   subset.go. *)
From Coq Require Import List NArith ZArith Bool Arith.
From Common Require Import Bytes Outcome.
From C10 Require Import Model.
Import ListNotations.
Local Open Scope N_scope.

Definition nG (f : font) : N := N.of_nat (length (f_glyphs f)).

(* every substitution rule of the font: input sequence -> output glyph *)
Definition all_rules (f : font) : list rule := flat_map (flat_map rules_of_sub) (f_gsub f).

(* ------------------------------------------------------------------ *)
(* Needed glyphs                                                        *)

(* R1: the listed glyphs and everything substitution rules can produce from
   them (a rule fires when all of its inputs are there) *)
Inductive R1 (f : font) (gl : list N) : N -> Prop :=
| R1_listed : forall g, In g gl -> R1 f gl g
| R1_rule : forall r g, In r (all_rules f) -> (forall x, In x (r_in r) -> R1 f gl x) ->
            In g (r_out r) -> R1 f gl g.

(* R2: R1 and, recursively, every component of a composite glyph *)
Inductive R2 (f : font) (gl : list N) : N -> Prop :=
| R2_base : forall g, R1 f gl g -> R2 f gl g
| R2_comp : forall g x c, R2 f gl g -> glyph_at f g = Ok x -> In c (g_comps x) -> R2 f gl c.

Definition Needed (f : font) (gl : list N) (g : N) : Prop :=
  match f_kind f with KGlyf => R2 f gl g | _ => R1 f gl g end.

(* ------------------------------------------------------------------ *)
(* The domain, decidable                                                *)

Definition gid_ok (f : font) (g : N) : bool := g <? nG f.

Fixpoint nodupb (l : list N) : bool :=
  match l with [] => true | x :: r => negb (memN x r) && nodupb r end.

Definition pair_eqb (a b : N * N) : bool := (fst a =? fst b) && (snd a =? snd b).
Fixpoint nodupb2 (l : list (N * N)) : bool :=
  match l with [] => true | x :: r => negb (existsb (pair_eqb x) r) && nodupb2 r end.

Definition wf_glyphb (f : font) (x : glyph) : bool :=
  match f_kind f with
  | KGlyf => forallb (gid_ok f) (g_comps x)
  | KCff => g_fd x <? N.of_nat (length (f_privs f))
  | KCid => (g_fd x <? N.of_nat (length (f_privs f))) && (g_fd x <? N.of_nat (length (f_mats f)))
  end.

Definition wf_ligb (f : font) (l : ligature) : bool := forallb (gid_ok f) (fst l) && gid_ok f (snd l).

(* supported layout data: GSUB 1.1 and 4.1 with references in range; the
   coverage of a subtable is a map (no key twice) *)
Definition wf_subb (f : font) (s : gsubst) : bool :=
  match s with
  | Single1 d cov => nodupb cov && forallb (fun g => gid_ok f g && gid_ok f (wrap16 (g + d))) cov
  | Single2 _ => false
  | Lig sets => nodupb (map fst sets) &&
                forallb (fun s => gid_ok f (fst s) && forallb (wf_ligb f) (snd s)) sets
  | Multi _ _ => false
  end.

Definition wf_fontb (f : font) : bool :=
  (nG f <=? 65536) &&
  forallb (wf_glyphb f) (f_glyphs f) &&
  forallb (forallb (wf_subb f)) (f_gsub f) &&
  forallb (fun c => nodupb (map fst c)) (f_cmaps f) &&
  forallb (forallb (fun k => nodupb2 (map fst k))) (f_gpos f).

(* duplicate-free glyph lists of glyphs of the font *)
Definition wf_listb (f : font) (gl : list N) : bool := nodupb gl && forallb (gid_ok f) gl.

Definition starts0 (gl : list N) : bool := match gl with 0 :: _ => true | _ => false end.

(* ------------------------------------------------------------------ *)
(* What the layout tables mean on glyph sequences                       *)

Definition lookup2 {V} (k : N * N) (m : list (N * N * V)) : option V :=
  match find (fun e => pair_eqb k (fst e)) m with Some e => Some (snd e) | None => None end.

(* GPOS 2.1: the adjustment of the pair (a, b): the first subtable of the
   lookup that has the pair *)
Fixpoint kern_lookup (lk : list kernsub) (a b : N) : option Z :=
  match lk with
  | [] => None
  | k :: r => match lookup2 (a, b) k with Some v => Some v | None => kern_lookup r a b end
  end.

(* the adjustments a lookup makes along a glyph sequence *)
Fixpoint kern_seq (lk : list kernsub) (s : list N) : list (option Z) :=
  match s with
  | a :: ((b :: _) as r) => kern_lookup lk a b :: kern_seq lk r
  | _ => []
  end.

Fixpoint is_prefix (p s : list N) : bool :=
  match p, s with
  | [], _ => true
  | x :: p', y :: s' => (x =? y) && is_prefix p' s'
  | _ :: _, [] => false
  end.

(* first ligature of the set whose remaining components are next in the input *)
Fixpoint try_ligs (ligs : list ligature) (rest : list N) : option (N * list N) :=
  match ligs with
  | [] => None
  | (ins, out) :: r =>
      if is_prefix ins rest then Some (out, skipn (length ins) rest) else try_ligs r rest
  end.

(* one subtable at the head of the sequence: replacement glyph and what is left *)
Definition apply_sub (s : gsubst) (g : N) (rest : list N) : option (N * list N) :=
  match s with
  | Single1 d cov => if memN g cov then Some (wrap16 (g + d), rest) else None
  | Single2 m => match lookup g m with Some h => Some (h, rest) | None => None end
  | Lig sets => match lookup g sets with Some ligs => try_ligs ligs rest | None => None end
  | Multi _ _ => None   (* outside the domain (wf_subb); one-to-many replacement is not modelled *)
  end.

(* the first subtable of the lookup that applies *)
Fixpoint apply_lookup_at (lk : list gsubst) (g : N) (rest : list N) : option (N * list N) :=
  match lk with
  | [] => None
  | s :: r => match apply_sub s g rest with Some x => Some x | None => apply_lookup_at r g rest end
  end.

(* a lookup applied along the sequence, left to right; fuel = length *)
Fixpoint run_lookup (fuel : nat) (lk : list gsubst) (s : list N) : list N :=
  match fuel with
  | O => s
  | S f =>
      match s with
      | [] => []
      | g :: rest =>
          match apply_lookup_at lk g rest with
          | Some (h, rest') => h :: run_lookup f lk rest'
          | None => g :: run_lookup f lk rest
          end
      end
  end.

Definition shape_lookup (lk : list gsubst) (s : list N) : list N := run_lookup (length s) lk s.

(* all lookups of a table, in order *)
Definition shape_all (ll : list (list gsubst)) (s : list N) : list N :=
  fold_left (fun s lk => shape_lookup lk s) ll s.

(* ------------------------------------------------------------------ *)
(* S_subset                                                             *)

(* iterate a function that only ever appends, until nothing is appended any
   more (at most n times) *)
Fixpoint iter (n : nat) (h : list N -> list N) (x : list N) : list N :=
  match n with
  | O => x
  | S k => let y := h x in if Nat.eqb (length y) (length x) then x else iter k h y
  end.

(* one pass: every rule whose inputs are all present contributes its outputs *)
Definition fire (rules : list rule) (l : list N) : list N :=
  fold_left (fun acc r =>
               if forallb (fun x => memN x acc) (r_in r)
               then fold_left (fun a y => set_add y a) (r_out r) acc
               else acc) rules l.

Definition S_close1 (f : font) (gl : list N) : list N :=
  iter (S (length (f_glyphs f))) (fire (all_rules f)) gl.

Definition comps_of (f : font) (g : N) : list N :=
  match nthN (f_glyphs f) g with Some x => g_comps x | None => [] end.

Definition expand (f : font) (l : list N) : list N :=
  fold_left (fun acc g => fold_left (fun a c => set_add c a) (comps_of f g) acc) l l.

Definition S_close2 (f : font) (l : list N) : list N := iter (S (length (f_glyphs f))) (expand f) l.

Definition S_sel (f : font) (gl : list N) : list N :=
  let l1 := S_close1 f gl in
  let l2 := match f_kind f with KGlyf => S_close2 f l1 | _ => l1 end in
  gl ++ sort_by (fun g => g) (filter (fun g => negb (memN g gl)) l2).

Fixpoint index_ofN (g : N) (l : list N) (i : N) : option N :=
  match l with
  | [] => None
  | x :: r => if g =? x then Some i else index_ofN g r (i + 1)
  end.

Fixpoint opt_all {A} (l : list (option A)) : option (list A) :=
  match l with
  | [] => Some []
  | None :: _ => None
  | Some x :: r => match opt_all r with Some r' => Some (x :: r') | None => None end
  end.

Fixpoint first_occ (l : list N) (seen : list N) : list N :=
  match l with
  | [] => []
  | x :: r => if memN x seen then first_occ r seen else x :: first_occ r (x :: seen)
  end.

Fixpoint filter_map {A B} (h : A -> option B) (l : list A) : list B :=
  match l with
  | [] => []
  | x :: r => match h x with Some y => y :: filter_map h r | None => filter_map h r end
  end.

Section SSub.
  Variable f : font.
  Variable gl : list N.

  Let l1 := S_close1 f gl.
  Let sel := S_sel f gl.
  Definition s_idx (g : N) : option N := index_ofN g sel 0.
  Definition s_idx0 (g : N) : N := match s_idx g with Some n => n | None => 0 end.
  Definition s_in1 (g : N) : bool := memN g l1.

  (* FDs in the order of their first use *)
  Definition s_fds : list N :=
    first_occ (filter_map (fun g => option_map g_fd (nthN (f_glyphs f) g)) sel) [].

  Definition s_glyph (g : N) : option glyph :=
    match nthN (f_glyphs f) g with
    | None => None
    | Some x =>
        match f_kind f with
        | KGlyf => Some (mkGlyph (g_outline x) (g_width x) (g_name x) (g_cid x) 0 (map s_idx0 (g_comps x)))
        | _ =>
            match index_ofN (g_fd x) s_fds 0 with
            | None => None
            | Some nfd => Some (mkGlyph (g_outline x) (g_width x) (g_name x) (g_cid x) nfd [])
            end
        end
    end.

  Definition s_cmap (c : list (N * N)) : list (N * N) :=
    filter_map (fun p => if memN (snd p) gl then option_map (fun n => (fst p, n)) (s_idx (snd p)) else None) c.

  Definition s_kern (k : kernsub) : kernsub :=
    filter_map (fun e =>
      let '(l, r, v) := e in
      if s_in1 l && s_in1 r then
        match s_idx l, s_idx r with Some nl, Some nr => Some (nl, nr, v) | _, _ => None end
      else None) k.

  Definition s_sub (s : gsubst) : option (option gsubst) :=
    match s with
    | Single1 d cov =>
        let m := sort_by fst (filter_map (fun g =>
                   if s_in1 g then
                     match s_idx g, s_idx (wrap16 (g + d)) with
                     | Some a, Some b => Some (a, b) | _, _ => None end
                   else None) cov) in
        Some (match m with [] => None | _ => Some (Single2 m) end)
    | Single2 _ => None
    | Lig sets =>
        let ns := sort_by fst (filter_map (fun s =>
                   if s_in1 (fst s) then
                     match s_idx (fst s) with
                     | None => None
                     | Some nf =>
                         let ligs := filter_map (fun l =>
                            if forallb s_in1 (fst l) then
                              match opt_all (map s_idx (fst l)), s_idx (snd l) with
                              | Some ins, Some out => Some (ins, out) | _, _ => None end
                            else None) (snd s) in
                         match ligs with [] => None | _ => Some (nf, ligs) end
                     end
                   else None) sets) in
        Some (match ns with [] => None | _ => Some (Lig ns) end)
    | Multi _ _ => None
    end.

  Definition s_lookup (lk : list gsubst) : option (list gsubst) :=
    option_map (filter_map (fun x => x)) (opt_all (map s_sub lk)).

  Definition S_subset : option result :=
    match opt_all (map s_glyph sel), opt_all (map s_lookup (f_gsub f)) with
    | Some glyphs, Some gsub =>
        let cff := match f_kind f with KGlyf => false | _ => true end in
        let privs := if cff then opt_all (map (nthN (f_privs f)) s_fds) else Some [] in
        let mats := match f_kind f with KCid => opt_all (map (nthN (f_mats f)) s_fds) | _ => Some [] end in
        match privs, mats with
        | Some ps, Some ms =>
            Some (mkResult sel
              (mkFont (f_kind f) glyphs ps ms
                 (map s_cmap (f_cmaps f))
                 (if cff then option_map (map s_idx0) (f_enc f) else None)
                 gsub
                 (map (map s_kern) (f_gpos f))))
        | _, _ => None
        end
    | _, _ => None
    end.
End SSub.
