(* C10/Proofs_main.v — Font.Subset as a whole: on every well-formed font and
   admissible list the model returns a subset, and everything the property
   clauses need is collected in `facts`. *)
From Coq Require Import List NArith ZArith Bool Arith Lia Permutation.
From Coq Require Import ZifyBool ZifyNat ZifyN.
From Common Require Import Bytes Outcome.
From C10 Require Import Model Spec Util Proofs_state Proofs_gsub Proofs_outl Proofs_tables.
Import ListNotations.
Local Open Scope N_scope.

(* ------------------------------------------------------------------ *)
(* a lookup run along a sequence                                        *)

Lemma apply_lookup_at_closed : forall n st lk g rest h rest', Inv n st ->
  (forall s, In s lk -> sub_closed st s) -> In g (s_glyphs st) ->
  (forall x, In x rest -> In x (s_glyphs st)) -> apply_lookup_at lk g rest = Some (h, rest') ->
  In h (s_glyphs st) /\ (forall x, In x rest' -> In x (s_glyphs st)) /\ (length rest' <= length rest)%nat.
Proof.
  intros n st. induction lk as [|s r IH]; intros g rest h rest' HI Hc Hg Hr H; cbn [apply_lookup_at] in H.
  - discriminate.
  - destruct (apply_sub s g rest) as [[h0 r0]|] eqn:E.
    + inversion H; subst. eapply apply_sub_closed; eauto. apply Hc. left; reflexivity.
    + eapply IH; eauto. intros x Hx. apply Hc. right; exact Hx.
Qed.

Lemma run_lookup_commute : forall n st lk, Inv n st ->
  (forall s, In s lk -> sub_ok s) -> (forall s, In s lk -> sub_closed st s) ->
  forall fuel s, (forall x, In x s -> In x (s_glyphs st)) ->
  run_lookup fuel (pure_lookup st lk) (map (new_or0 st) s) = map (new_or0 st) (run_lookup fuel lk s) /\
  (forall x, In x (run_lookup fuel lk s) -> In x (s_glyphs st)).
Proof.
  intros n st lk HI Hok Hc. induction fuel as [|fuel IH]; intros s Hs; cbn [run_lookup].
  - split; [reflexivity|exact Hs].
  - destruct s as [|g rest]; cbn [map]; [split; [reflexivity|intros x []]|].
    assert (Hg : In g (s_glyphs st)) by (apply Hs; left; reflexivity).
    assert (Hr : forall x, In x rest -> In x (s_glyphs st)) by (intros x Hx; apply Hs; right; exact Hx).
    rewrite (pure_lookup_commute n st HI lk g rest Hok Hg Hr).
    destruct (apply_lookup_at lk g rest) as [[h rest']|] eqn:E; cbn [option_map ren fst snd].
    + destruct (apply_lookup_at_closed n st lk g rest h rest' HI Hc Hg Hr E) as [Hh [Hr' _]].
      destruct (IH rest' Hr') as [I1 I2]. rewrite I1. cbn [map]. split; [reflexivity|].
      intros x [Hx|Hx]; [subst; exact Hh|auto].
    + destruct (IH rest Hr) as [I1 I2]. rewrite I1. cbn [map]. split; [reflexivity|].
      intros x [Hx|Hx]; [subst; exact Hg|auto].
Qed.

(* ------------------------------------------------------------------ *)
(* everything about one run                                             *)

(* position of an old glyph in the subset *)
Definition pos (sel : list N) (g : N) : option N := option_map N.of_nat (index_of g sel).
Definition pos0 (sel : list N) (g : N) : N := match pos sel g with Some k => k | None => 0 end.

Definition priv_of (f : font) (x : glyph) : option N := nthN (f_privs f) (g_fd x).
Definition mat_of (f : font) (x : glyph) : option N := nthN (f_mats f) (g_fd x).

Record facts (f : font) (gl : list N) (r : result) : Prop := mkFacts {
  (* the glyph list of the subset *)
  fx_nodup : NoDup (r_sel r);
  fx_prefix : exists ext, r_sel r = gl ++ ext;
  fx_needed : forall g, In g (r_sel r) <-> Needed f gl g;
  fx_kind : f_kind (r_font r) = f_kind f;
  (* the glyphs the layout tables were built for: gl plus rule outputs *)
  fx_sel1 : exists sel1 ext2, r_sel r = sel1 ++ ext2 /\ (forall g, In g sel1 <-> R1 f gl g);
  (* glyph records *)
  fx_glyphs : Forall2 (fun g y => exists x, glyph_at f g = Ok x /\
                 g_outline y = g_outline x /\ g_width y = g_width x /\ g_name y = g_name x /\
                 g_cid y = g_cid x /\
                 g_comps y = (match f_kind f with KGlyf => map (pos0 (r_sel r)) (g_comps x) | _ => [] end) /\
                 (f_kind f <> KGlyf -> priv_of (r_font r) y = priv_of f x /\ priv_of (r_font r) y <> None) /\
                 (f_kind f = KCid -> mat_of (r_font r) y = mat_of f x /\ mat_of (r_font r) y <> None))
              (r_sel r) (f_glyphs (r_font r));
  fx_comps_in : f_kind f = KGlyf -> forall g x c, In g (r_sel r) -> glyph_at f g = Ok x ->
                   In c (g_comps x) -> In c (r_sel r);
  (* tables *)
  fx_cmaps : f_cmaps (r_font r) = map (subset_cmap (init gl)) (f_cmaps f);
  fx_enc : f_enc (r_font r) =
           match f_kind f with KGlyf => None | _ => option_map (map (pos0 (r_sel r))) (f_enc f) end;
  fx_layout : exists st1, Inv (nG f) st1 /\ (forall g, In g (s_glyphs st1) <-> R1 f gl g) /\
                (forall g, In g (s_glyphs st1) -> new_or0 st1 g = pos0 (r_sel r) g) /\
                closed_under (all_rules f) (sset st1) /\
                f_gsub (r_font r) = map (pure_lookup st1) (f_gsub f) /\
                f_gpos (r_font r) = map (map (subset_kern st1)) (f_gpos f)
}.

Lemma pos0_new_or0 : forall n st g, Inv n st -> new_or0 st g = pos0 (s_glyphs st) g.
Proof.
  intros n st g [_ _ Hm]. unfold new_or0, pos0, pos. rewrite Hm. reflexivity.
Qed.

Lemma pos0_extends : forall n st st' g, Inv n st -> Inv n st' -> extends st st' ->
  In g (s_glyphs st) -> new_or0 st g = pos0 (s_glyphs st') g.
Proof.
  intros n st st' g HI HI' Hx Hin. rewrite <- (pos0_new_or0 n st' g HI').
  pose proof (new_or0_lookup n st g HI Hin) as H.
  pose proof (extends_lookup n st st' g _ HI HI' Hx H) as H'.
  unfold new_or0 at 2. rewrite H'. reflexivity.
Qed.

Lemma map_ext_in' {A B} : forall (h k : A -> B) l, (forall x, In x l -> h x = k x) -> map h l = map k l.
Proof. intros. apply map_ext_in. assumption. Qed.

Lemma R2_closed : forall f gl, comps_closed f (R2 f gl).
Proof. intros f gl g x c Hg Ex Hc. eapply R2_comp; eauto. Qed.

Theorem M_subset_facts : forall orc f gl, wf_fontb f = true -> wf_listb f gl = true ->
  exists r, M_subset orc f gl = Ok r /\ facts f gl r.
Proof.
  intros orc f gl Hwf Hl.
  destruct (wf_font_parts f Hwf) as [Hn _]. destruct (wf_list_parts f gl Hl) as [Hnd Hb].
  destruct (subset_gsub_spec f gl orc Hwf Hl) as [st1 [orc1 [Eg [I1 [X1 [C1 R1iff]]]]]].
  unfold M_subset. rewrite Eg. cbn [obind].
  destruct (f_kind f) eqn:Ek.
  - (* TrueType *)
    destruct (subset_glyf_spec f orc1 st1 Hwf Ek I1) as [l [st2 [E2 [I2 [X2 [C2 [M2 G2]]]]]]].
    rewrite E2. cbn [obind]. eexists. split; [reflexivity|].
    assert (R2iff : forall g, In g (s_glyphs st2) <-> R2 f gl g).
    { intros g. split.
      - apply (M2 (R2 f gl)); [|apply R2_closed]. intros x Hx. apply R2_base. apply R1iff. exact Hx.
      - intros HR. induction HR as [g Hg|g x c _ IH Ex Hc].
        + eapply extends_In; [exact X2|]. apply R1iff. exact Hg.
        + apply (C2 g x c IH Ex Hc). }
    constructor; cbn [r_sel r_font f_kind f_glyphs f_cmaps f_enc f_gsub f_gpos f_privs f_mats].
    + exact (inv_nodup _ _ I2).
    + destruct X1 as [e1 H1]. destruct X2 as [e2 H2]. exists (e1 ++ e2).
      rewrite H2, H1. cbn [init s_glyphs]. rewrite app_assoc. reflexivity.
    + intros g. unfold Needed. rewrite Ek. apply R2iff.
    + symmetry; exact Ek.
    + destruct X2 as [e2 H2]. exists (s_glyphs st1), e2. split; [exact H2|exact R1iff].
    + eapply Forall2_impl_In; [exact G2|]. intros g y Hg [x [Ex Ey]]. exists x.
      split; [exact Ex|]. subst y. unfold glyf_rec. cbn [g_outline g_width g_name g_cid g_comps g_fd].
      repeat (split; [reflexivity|]). rewrite Ek. split.
      * apply map_ext_in'. intros c Hc. apply (pos0_new_or0 (nG f) st2 c I2).
      * split; [intros H; congruence|intros H; congruence].
    + intros _ g x c Hg Ex Hc. apply (C2 g x c Hg Ex Hc).
    + reflexivity.
    + rewrite Ek; reflexivity.
    + exists st1. split; [exact I1|]. split; [exact R1iff|]. split.
      * intros g Hg. apply (pos0_extends (nG f) st1 st2 g I1 I2 X2 Hg).
      * split; [exact C1|]. split; reflexivity.
  - (* simple CFF *)
    assert (Hk : f_kind f <> KGlyf) by congruence.
    destruct (subset_cff_spec f st1 Hwf Hk I1) as [l [privs [mats [E2 [Hm G2]]]]].
    rewrite E2. cbn [obind]. eexists. split; [reflexivity|].
    constructor; cbn [r_sel r_font f_kind f_glyphs f_cmaps f_enc f_gsub f_gpos f_privs f_mats].
    + exact (inv_nodup _ _ I1).
    + destruct X1 as [e1 H1]. exists e1. exact H1.
    + intros g. unfold Needed. rewrite Ek. apply R1iff.
    + symmetry; exact Ek.
    + exists (s_glyphs st1), []. split; [rewrite app_nil_r; reflexivity|exact R1iff].
    + eapply Forall2_impl_In; [exact G2|]. intros g y Hg [x [Ex [H1 [H2 [H3 [H4 [H5 [H6 [H7 H8]]]]]]]]].
      exists x. split; [exact Ex|]. repeat (split; [assumption|]). rewrite Ek.
      split; [exact H5|]. unfold priv_of, mat_of. cbn [f_privs f_mats].
      split; [intros _; split; assumption|]. intros H; congruence.
    + intros H; congruence.
    + reflexivity.
    + rewrite Ek. unfold subset_enc. destruct (f_enc f) as [e|]; cbn [option_map]; [|reflexivity].
      f_equal. apply map_ext. intros g. apply (pos0_new_or0 (nG f) st1 g I1).
    + exists st1. split; [exact I1|]. split; [exact R1iff|]. split.
      * intros g _. apply (pos0_new_or0 (nG f) st1 g I1).
      * split; [exact C1|]. split; reflexivity.
  - (* CID-keyed CFF *)
    assert (Hk : f_kind f <> KGlyf) by congruence.
    assert (Hc : is_cid f = true) by (unfold is_cid; rewrite Ek; reflexivity).
    destruct (subset_cff_spec f st1 Hwf Hk I1) as [l [privs [mats [E2 [Hm G2]]]]].
    rewrite E2. cbn [obind]. eexists. split; [reflexivity|].
    constructor; cbn [r_sel r_font f_kind f_glyphs f_cmaps f_enc f_gsub f_gpos f_privs f_mats].
    + exact (inv_nodup _ _ I1).
    + destruct X1 as [e1 H1]. exists e1. exact H1.
    + intros g. unfold Needed. rewrite Ek. apply R1iff.
    + symmetry; exact Ek.
    + exists (s_glyphs st1), []. split; [rewrite app_nil_r; reflexivity|exact R1iff].
    + eapply Forall2_impl_In; [exact G2|]. intros g y Hg [x [Ex [H1 [H2 [H3 [H4 [H5 [H6 [H7 H8]]]]]]]]].
      exists x. split; [exact Ex|]. repeat (split; [assumption|]). rewrite Ek.
      split; [exact H5|]. unfold priv_of, mat_of. cbn [f_privs f_mats].
      split; [intros _; split; assumption|]. intros _. apply H8. exact Hc.
    + intros H; congruence.
    + reflexivity.
    + rewrite Ek. unfold subset_enc. destruct (f_enc f) as [e|]; cbn [option_map]; [|reflexivity].
      f_equal. apply map_ext. intros g. apply (pos0_new_or0 (nG f) st1 g I1).
    + exists st1. split; [exact I1|]. split; [exact R1iff|]. split.
      * intros g _. apply (pos0_new_or0 (nG f) st1 g I1).
      * split; [exact C1|]. split; reflexivity.
Qed.
