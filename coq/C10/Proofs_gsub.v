(* C10/Proofs_gsub.v — SubsetGsub step 2 (the nMissing-counter loop) computes
   the least set of glyphs that contains the given ones and is closed under
   the substitution rules, for every order in which the rules are met; it
   terminates within its fuel. *)
From Coq Require Import List NArith ZArith Bool Arith Lia Permutation.
From Coq Require Import ZifyBool ZifyNat ZifyN.
From Common Require Import Bytes Outcome.
From C10 Require Import Model Spec Util Proofs_state.
Import ListNotations.
Local Open Scope N_scope.

Definition sset (st : sst) (g : N) : Prop := In g (s_glyphs st).

Definition closed_under (rules : list rule) (S : N -> Prop) : Prop :=
  forall r, In r rules -> (forall x, In x (r_in r) -> S x) -> forall y, In y (r_out r) -> S y.

Definition rules_bounded (n : N) (rules : list rule) : Prop :=
  forall r, In r rules -> bounded n (r_in r) /\ bounded n (r_out r).

Definition counts_ok (st : sst) (rules : list rule) : Prop :=
  forall r, In r rules -> r_miss r = count_missing st (r_in r).

(* same inputs and outputs, possibly another counter *)
Definition same_io (a b : rule) : Prop := r_in a = r_in b /\ r_out a = r_out b.

Lemma closed_under_io : forall rs rs' S,
  (forall r', In r' rs' -> exists r, In r rs /\ same_io r r') ->
  closed_under rs S -> closed_under rs' S.
Proof.
  intros rs rs' S H Hc r' Hr' Hin y Hy. destruct (H r' Hr') as [r [Hr [Ei Eo]]].
  apply (Hc r Hr); [rewrite Ei; exact Hin|rewrite Eo; exact Hy].
Qed.

(* ------------------------------------------------------------------ *)
(* counters                                                             *)

Lemma count_missing_zero : forall n st ins, Inv n st ->
  (count_missing st ins = 0%Z <-> forall x, In x ins -> In x (s_glyphs st)).
Proof.
  intros n st ins HI. unfold count_missing. induction ins as [|x r IH]; cbn [filter].
  - cbn. split; [intros _ x []|reflexivity].
  - destruct (has st x) eqn:E; cbn [negb].
    + rewrite IH. split; intros H y.
      * intros [Hy|Hy]; [subst; apply (has_In n st y HI); exact E|auto].
      * intros Hy. apply H. right; exact Hy.
    + cbn [length]. split; [lia|]. intros H. exfalso.
      apply (has_false n st x HI) in E. apply E. apply H. left; reflexivity.
Qed.

(* `added`: exactly the glyphs that joined the state since st0 *)
Definition added_ok (st0 st : sst) (added : list N) : Prop :=
  forall g, In g added <-> In g (s_glyphs st) /\ ~ In g (s_glyphs st0).

Lemma count_missing_dec : forall n st0 st added ins,
  Inv n st0 -> Inv n st -> extends st0 st -> added_ok st0 st added ->
  count_missing st ins =
  (count_missing st0 ins - Z.of_nat (length (filter (fun g => memN g added) ins)))%Z.
Proof.
  intros n st0 st added ins HI0 HI Hext Hadd. unfold count_missing.
  induction ins as [|x r IH]; cbn [filter]; [reflexivity|].
  destruct (has st0 x) eqn:E0.
  - assert (E : has st x = true).
    { apply (has_In n st x HI). eapply extends_In; [exact Hext|]. apply (has_In n st0 x HI0). exact E0. }
    assert (Em : memN x added = false).
    { apply memN_false. intros Hx. apply Hadd in Hx. destruct Hx as [_ Hx]. apply Hx.
      apply (has_In n st0 x HI0). exact E0. }
    rewrite E, Em. cbn [negb]. exact IH.
  - destruct (has st x) eqn:E.
    + assert (Em : memN x added = true).
      { apply memN_In. apply Hadd. split; [apply (has_In n st x HI); exact E|].
        apply (has_false n st0 x HI0). exact E0. }
      rewrite Em. cbn [negb length]. lia.
    + assert (Em : memN x added = false).
      { apply memN_false. intros Hx. apply Hadd in Hx. destruct Hx as [Hx _].
        apply (has_false n st x HI) in E. contradiction. }
      rewrite Em. cbn [negb length]. lia.
Qed.

(* ------------------------------------------------------------------ *)
(* add_outs                                                             *)

Lemma add_outs_spec : forall n st0 outs st added st' added',
  n <= 65536 -> Inv n st -> bounded n outs -> extends st0 st -> added_ok st0 st added ->
  add_outs outs st added = (st', added') ->
  Inv n st' /\ extends st st' /\ added_ok st0 st' added' /\
  (forall y, In y outs -> In y (s_glyphs st')) /\
  (forall h, In h (s_glyphs st') -> In h (s_glyphs st) \/ In h outs) /\
  (st' = st -> added' = added).
Proof.
  intros n st0. induction outs as [|g r IH]; intros st added st' added' Hn HI Hb Hext Hadd H;
    cbn [add_outs] in H.
  - inversion H; subst. split; [exact HI|]. split; [apply extends_refl|]. split; [exact Hadd|].
    split; [intros y []|]. split; [intros h Hh; left; exact Hh|]. intros _; reflexivity.
  - assert (Hbr : bounded n r) by (intros x Hx; apply Hb; right; exact Hx).
    destruct (has st g) eqn:E.
    + destruct (IH st added st' added' Hn HI Hbr Hext Hadd H) as [H1 [H2 [H3 [H4 [H5 H6]]]]].
      split; [exact H1|]. split; [exact H2|]. split; [exact H3|]. split; [|split; [|exact H6]].
      * intros y [Hy|Hy]; [subst|auto]. eapply extends_In; [exact H2|].
        apply (has_In n st y HI). exact E.
      * intros h Hh. destruct (H5 h Hh); [left|right; right]; assumption.
    + assert (Hni : ~ In g (s_glyphs st)) by (apply (has_false n st g HI); exact E).
      assert (Hg : g < n) by (apply Hb; left; reflexivity).
      destruct (get_new_spec n st g Hn HI Hg) as [G1 [G2 [G3 [_ G5]]]].
      set (st1 := snd (get_new st g)) in *.
      assert (Hadd1 : added_ok st0 st1 (g :: added)).
      { intros h. split.
        - intros [Hh|Hh].
          + subst h. split; [exact G3|]. intros Hc. apply Hni. eapply extends_In; eauto.
          + apply Hadd in Hh. destruct Hh as [Hh1 Hh2]. split; [eapply extends_In; eauto|exact Hh2].
        - intros [Hh1 Hh2]. destruct (G5 h Hh1) as [Hh|Hh]; [right; apply Hadd; split; assumption|left; auto]. }
      destruct (IH st1 (g :: added) st' added' Hn G1 Hbr (extends_trans _ _ _ Hext G2) Hadd1 H)
        as [H1 [H2 [H3 [H4 [H5 H6]]]]].
      split; [exact H1|]. split; [|split; [exact H3|split; [|split]]].
      * eapply extends_trans; eauto.
      * intros y [Hy|Hy]; [subst; eapply extends_In; eauto|auto].
      * intros h Hh. destruct (H5 h Hh) as [Hh'|Hh']; [|right; right; exact Hh'].
        destruct (G5 h Hh') as [Hh''|Hh'']; [left; exact Hh''|right; left; auto].
      * intros Heq. exfalso. apply Hni. rewrite <- Heq. eapply extends_In; eauto.
Qed.

(* ------------------------------------------------------------------ *)
(* scan                                                                 *)

Lemma scan_spec : forall n st0 rules st added kept st' added',
  n <= 65536 -> Inv n st -> rules_bounded n rules -> extends st0 st -> added_ok st0 st added ->
  scan rules st added = (kept, st', added') ->
  Inv n st' /\ extends st st' /\ added_ok st0 st' added' /\
  (forall r, In r rules -> In r kept \/ (r_miss r = 0%Z /\ forall y, In y (r_out r) -> In y (s_glyphs st'))) /\
  (forall r, In r kept -> In r rules /\ r_miss r <> 0%Z) /\
  (forall h, In h (s_glyphs st') -> In h (s_glyphs st) \/
       exists r, In r rules /\ r_miss r = 0%Z /\ In h (r_out r)) /\
  (length kept <= length rules)%nat /\
  (length kept = length rules -> st' = st /\ added' = added).
Proof.
  intros n st0. induction rules as [|r rest IH]; intros st added kept st' added' Hn HI Hb Hext Hadd H;
    cbn [scan] in H.
  - inversion H; subst. split; [exact HI|]. split; [apply extends_refl|]. split; [exact Hadd|].
    split; [intros ? []|]. split; [intros ? []|]. split; [intros h Hh; left; exact Hh|].
    split; [cbn; lia|]. intros _; split; reflexivity.
  - assert (Hbr : rules_bounded n rest) by (intros x Hx; apply Hb; right; exact Hx).
    destruct (Z.eqb_spec (r_miss r) 0) as [Ez|Ez].
    + destruct (add_outs (r_out r) st added) as [st1 added1] eqn:Ea.
      destruct (Hb r (or_introl eq_refl)) as [_ Hbo].
      destruct (add_outs_spec n st0 _ _ _ _ _ Hn HI Hbo Hext Hadd Ea) as [A1 [A2 [A3 [A4 [A5 A6]]]]].
      destruct (IH st1 added1 kept st' added' Hn A1 Hbr (extends_trans _ _ _ Hext A2) A3 H)
        as [H1 [H2 [H3 [H4 [H5 [H6 [H7 H8]]]]]]].
      split; [exact H1|]. split; [eapply extends_trans; eauto|]. split; [exact H3|].
      split; [|split; [|split; [|split]]].
      * intros x [Hx|Hx]; [subst x|auto]. right. split; [exact Ez|].
        intros y Hy. eapply extends_In; [exact H2|]. apply A4. exact Hy.
      * intros x Hx. destruct (H5 x Hx). split; [right|]; assumption.
      * intros h Hh. destruct (H6 h Hh) as [Hh'|[x [Hx1 [Hx2 Hx3]]]].
        -- destruct (A5 h Hh') as [Hh''|Hh'']; [left; exact Hh''|].
           right. exists r. split; [left; reflexivity|]. split; assumption.
        -- right. exists x. split; [right; exact Hx1|]. split; assumption.
      * cbn [length]. lia.
      * cbn [length]. intros Hl. lia.
    + destruct (scan rest st added) as [[rs st1] added1] eqn:Es. inversion H; subst.
      destruct (IH st added rs st' added' Hn HI Hbr Hext Hadd Es)
        as [H1 [H2 [H3 [H4 [H5 [H6 [H7 H8]]]]]]].
      split; [exact H1|]. split; [exact H2|]. split; [exact H3|].
      split; [|split; [|split; [|split]]].
      * intros x [Hx|Hx]; [subst x; left; left; reflexivity|].
        destruct (H4 x Hx) as [Hk|Hk]; [left; right; exact Hk|right; exact Hk].
      * intros x [Hx|Hx]; [subst x; split; [left; reflexivity|exact Ez]|].
        destruct (H5 x Hx). split; [right|]; assumption.
      * intros h Hh. destruct (H6 h Hh) as [Hh'|[x [Hx1 Hx2]]]; [left; exact Hh'|].
        right. exists x. split; [right; exact Hx1|exact Hx2].
      * cbn [length]. lia.
      * cbn [length]. intros Hl. apply H8. lia.
Qed.

Lemma scan_same_length : forall rules st added kept st' added',
  scan rules st added = (kept, st', added') -> length kept = length rules -> kept = rules.
Proof.
  induction rules as [|r rest IH]; intros st added kept st' added' H Hl; cbn [scan] in H.
  - inversion H; reflexivity.
  - destruct (r_miss r =? 0)%Z.
    + destruct (add_outs (r_out r) st added) as [st1 added1].
      exfalso.
      assert (Hle : (length kept <= length rest)%nat).
      { clear -H. revert st1 added1 kept st' added' H.
        induction rest as [|x xs IHx]; intros st1 added1 kept st' added' H; cbn [scan] in H.
        - inversion H; cbn; lia.
        - destruct (r_miss x =? 0)%Z.
          + destruct (add_outs (r_out x) st1 added1) as [s2 a2].
            specialize (IHx _ _ _ _ _ H). cbn [length]. lia.
          + destruct (scan xs st1 added1) as [[rs s2] a2] eqn:E. inversion H; subst.
            specialize (IHx _ _ _ _ _ E). cbn [length]. lia. }
      cbn [length] in Hl. lia.
    + destruct (scan rest st added) as [[rs st1] added1] eqn:Es. inversion H; subst.
      cbn [length] in Hl. f_equal. eapply IH; [exact Es|lia].
Qed.

(* ------------------------------------------------------------------ *)
(* the loop                                                             *)

Lemma dec_missing_nil : forall r, dec_missing [] r = r.
Proof.
  intros [m i o]. unfold dec_missing. cbn [r_miss r_in r_out].
  assert (E : filter (fun g => memN g []) i = []).
  { induction i as [|x i IH]; cbn; [reflexivity|exact IH]. }
  rewrite E. cbn. f_equal. lia.
Qed.

Theorem gsub_close_spec : forall n fuel rules st,
  n <= 65536 -> Inv n st -> rules_bounded n rules -> counts_ok st rules ->
  (length rules < fuel)%nat ->
  exists st', gsub_close fuel rules st = Ok st' /\ Inv n st' /\ extends st st' /\
    closed_under rules (sset st') /\
    (forall T : N -> Prop, (forall g, In g (s_glyphs st) -> T g) -> closed_under rules T ->
       forall g, In g (s_glyphs st') -> T g).
Proof.
  intros n. induction fuel as [|fuel IH]; intros rules st Hn HI Hb Hc Hf; [lia|].
  cbn [gsub_close].
  destruct (scan rules st []) as [[kept st1] added] eqn:Es.
  assert (Hadd0 : added_ok st st []).
  { intros g. split; [intros []|intros [H1 H2]; contradiction]. }
  destruct (scan_spec n st rules st [] kept st1 added Hn HI Hb (extends_refl st) Hadd0 Es)
    as [H1 [H2 [H3 [H4 [H5 [H6 [H7 H8]]]]]]].
  set (rules2 := map (dec_missing added) kept).
  assert (Hc2 : counts_ok st1 rules2).
  { intros r2 Hr2. apply in_map_iff in Hr2. destruct Hr2 as [r [Er Hr]]. subst r2.
    cbn [dec_missing r_miss r_in]. destruct (H5 r Hr) as [Hr' _].
    rewrite (Hc r Hr'). symmetry. apply (count_missing_dec n st st1 added); assumption. }
  assert (Hio : forall r2, In r2 rules2 -> exists r, In r rules /\ same_io r r2).
  { intros r2 Hr2. apply in_map_iff in Hr2. destruct Hr2 as [r [Er Hr]]. subst r2.
    exists r. split; [apply H5; exact Hr|split; reflexivity]. }
  assert (Hb2 : rules_bounded n rules2).
  { intros r2 Hr2. destruct (Hio r2 Hr2) as [r [Hr [Ei Eo]]]. rewrite <- Ei, <- Eo. apply Hb; exact Hr. }
  (* a glyph of st1 is a glyph of st or the output of a rule all of whose inputs are in st *)
  assert (Hmin1 : forall T : N -> Prop, (forall g, In g (s_glyphs st) -> T g) -> closed_under rules T ->
                  forall g, In g (s_glyphs st1) -> T g).
  { intros T Hbase Hcl g Hg. destruct (H6 g Hg) as [Hg'|[r [Hr [Hz Ho]]]]; [auto|].
    apply (Hcl r Hr); [|exact Ho]. intros x Hx. apply Hbase.
    rewrite (Hc r Hr) in Hz. exact (proj1 (count_missing_zero n st (r_in r) HI) Hz x Hx). }
  destruct (existsb miss0 rules2) eqn:Eex.
  - (* another round: this round fired at least one rule *)
    assert (Hlt : (length rules2 < length rules)%nat).
    { unfold rules2. rewrite map_length.
      destruct (Nat.eq_dec (length kept) (length rules)) as [El|El]; [|lia].
      exfalso. destruct (H8 El) as [Est Ead]. subst st1 added.
      pose proof (scan_same_length _ _ _ _ _ _ Es El) as Ek. subst kept.
      apply existsb_exists in Eex. destruct Eex as [r2 [Hr2 Hz]].
      unfold rules2 in Hr2. apply in_map_iff in Hr2. destruct Hr2 as [r [Er Hr]]. subst r2.
      rewrite dec_missing_nil in Hz. unfold miss0 in Hz.
      destruct (H5 r Hr) as [_ Hnz]. lia. }
    destruct (IH rules2 st1 Hn H1 Hb2 Hc2 ltac:(lia)) as [st2 [E2 [I2 [X2 [C2 M2]]]]].
    exists st2. split; [exact E2|]. split; [exact I2|]. split; [eapply extends_trans; eauto|].
    split.
    + intros r Hr Hin y Hy. destruct (H4 r Hr) as [Hk|[_ Ho]].
      * apply (C2 (dec_missing added r)); [apply in_map; exact Hk|exact Hin|exact Hy].
      * unfold sset. eapply extends_In; [exact X2|]. apply Ho; exact Hy.
    + intros T Hbase Hcl g Hg. apply (M2 T); [apply Hmin1; assumption| |exact Hg].
      eapply closed_under_io; [exact Hio|exact Hcl].
  - (* no counter is 0: done *)
    exists st1. split; [reflexivity|]. split; [exact H1|]. split; [exact H2|]. split; [|exact Hmin1].
    intros r Hr Hin y Hy. destruct (H4 r Hr) as [Hk|[_ Ho]]; [|apply Ho; exact Hy].
    exfalso.
    assert (Hr2 : In (dec_missing added r) rules2) by (apply in_map; exact Hk).
    assert (Hz : r_miss (dec_missing added r) = 0%Z).
    { rewrite (Hc2 _ Hr2). exact (proj2 (count_missing_zero n st1 _ H1) Hin). }
    assert (Hnone : forall x, In x rules2 -> miss0 x = false).
    { intros x Hx. destruct (miss0 x) eqn:Ex; [|reflexivity].
      assert (existsb miss0 rules2 = true) by (apply existsb_exists; exists x; split; assumption).
      congruence. }
    specialize (Hnone _ Hr2). unfold miss0 in Hnone. lia.
Qed.

(* ------------------------------------------------------------------ *)
(* step 1: whatever the iteration order, the rules are the font's rules  *)

Lemma collect_subs_perm : forall ss orc,
  Permutation (fst (collect_subs orc ss)) (flat_map rules_of_sub ss).
Proof.
  induction ss as [|s r IH]; intros orc; cbn [collect_subs flat_map]; [apply Permutation_refl|].
  pose proof (shuffle_perm (length (rules_of_sub s)) orc (rules_of_sub s)) as Hs.
  destruct (shuffle (length (rules_of_sub s)) orc (rules_of_sub s)) as [rs o1]. cbn [fst] in Hs.
  specialize (IH o1). destruct (collect_subs o1 r) as [rest o2]. cbn [fst] in *.
  apply Permutation_app; assumption.
Qed.

Lemma collect_rules_perm : forall ll orc,
  Permutation (fst (collect_rules orc ll)) (flat_map (flat_map rules_of_sub) ll).
Proof.
  induction ll as [|l r IH]; intros orc; cbn [collect_rules flat_map]; [apply Permutation_refl|].
  pose proof (collect_subs_perm l orc) as Hs.
  destruct (collect_subs orc l) as [rs o1]. cbn [fst] in Hs.
  specialize (IH o1). destruct (collect_rules o1 r) as [rest o2]. cbn [fst] in *.
  apply Permutation_app; assumption.
Qed.

(* ------------------------------------------------------------------ *)
(* what well-formedness gives                                           *)

Lemma in_all_rules : forall f r, In r (all_rules f) <->
  exists lk s, In lk (f_gsub f) /\ In s lk /\ In r (rules_of_sub s).
Proof.
  intros f r. unfold all_rules. rewrite in_flat_map. split.
  - intros [lk [Hlk Hr]]. apply in_flat_map in Hr. destruct Hr as [s [Hs Hr]]. eauto.
  - intros [lk [s [Hlk [Hs Hr]]]]. exists lk. split; [exact Hlk|]. apply in_flat_map. eauto.
Qed.

Lemma wf_font_parts : forall f, wf_fontb f = true ->
  nG f <= 65536 /\
  (forall x, In x (f_glyphs f) -> wf_glyphb f x = true) /\
  (forall lk s, In lk (f_gsub f) -> In s lk -> wf_subb f s = true) /\
  (forall c, In c (f_cmaps f) -> nodupb (map fst c) = true) /\
  (forall lk k, In lk (f_gpos f) -> In k lk -> nodupb2 (map fst k) = true).
Proof.
  intros f H. unfold wf_fontb in H. repeat rewrite andb_true_iff in H.
  destruct H as [[[[H1 H2] H3] H4] H5].
  split; [lia|]. split; [apply forallb_forall; exact H2|].
  split; [|split].
  - intros lk s Hlk Hs. rewrite forallb_forall in H3. specialize (H3 lk Hlk).
    rewrite forallb_forall in H3. auto.
  - apply forallb_forall; exact H4.
  - intros lk k Hlk Hk. rewrite forallb_forall in H5. specialize (H5 lk Hlk).
    rewrite forallb_forall in H5. auto.
Qed.

Lemma gid_ok_lt : forall f g, gid_ok f g = true <-> g < nG f.
Proof. intros. unfold gid_ok. lia. Qed.

Lemma wf_rules_bounded : forall f, wf_fontb f = true -> rules_bounded (nG f) (all_rules f).
Proof.
  intros f Hwf r Hr. destruct (wf_font_parts f Hwf) as [_ [_ [Hs _]]].
  apply in_all_rules in Hr. destruct Hr as [lk [s [Hlk [Hin Hr]]]].
  specialize (Hs lk s Hlk Hin). destruct s as [d cov|m|sets|alt m]; cbn [wf_subb rules_of_sub] in *; [| | |discriminate].
  - apply andb_true_iff in Hs. destruct Hs as [_ Hs]. rewrite forallb_forall in Hs.
    apply in_map_iff in Hr. destruct Hr as [g [Er Hg]]. subst r. cbn [r_in r_out].
    specialize (Hs g Hg). apply andb_true_iff in Hs. destruct Hs as [H1 H2].
    apply gid_ok_lt in H1. apply gid_ok_lt in H2.
    split; intros x [Hx|[]]; subst; assumption.
  - discriminate.
  - apply andb_true_iff in Hs. destruct Hs as [_ Hs]. rewrite forallb_forall in Hs.
    apply in_flat_map in Hr. destruct Hr as [st [Hst Hr]]. specialize (Hs st Hst).
    apply andb_true_iff in Hs. destruct Hs as [H1 H2]. rewrite forallb_forall in H2.
    apply in_map_iff in Hr. destruct Hr as [l [Er Hl]]. subst r. cbn [r_in r_out].
    specialize (H2 l Hl). unfold wf_ligb in H2. apply andb_true_iff in H2. destruct H2 as [H2 H3].
    rewrite forallb_forall in H2. apply gid_ok_lt in H1. apply gid_ok_lt in H3.
    split.
    + intros x [Hx|Hx]; [subst; exact H1|]. apply gid_ok_lt. auto.
    + intros x [Hx|[]]. subst; exact H3.
Qed.

Lemma nodupb_NoDup : forall l, nodupb l = true <-> NoDup l.
Proof.
  induction l as [|x r IH]; cbn [nodupb].
  - split; [constructor|reflexivity].
  - rewrite andb_true_iff, negb_true_iff, IH, memN_false. split.
    + intros [H1 H2]. constructor; assumption.
    + intros H. inversion H; subst. split; assumption.
Qed.

Lemma wf_list_parts : forall f gl, wf_listb f gl = true -> NoDup gl /\ bounded (nG f) gl.
Proof.
  intros f gl H. unfold wf_listb in H. apply andb_true_iff in H. destruct H as [H1 H2].
  split; [apply nodupb_NoDup; exact H1|]. rewrite forallb_forall in H2.
  intros g Hg. apply gid_ok_lt. auto.
Qed.

(* ------------------------------------------------------------------ *)
(* step 3 on a closed state: no glyph is added, the tables are pure      *)

Definition pure_single (st : sst) (d : N) (ks : list N) : list (N * N) :=
  map (fun g => (new_or0 st g, new_or0 st (wrap16 (g + d)))) ks.

Definition pure_ligs (st : sst) (ligs : list ligature) : list ligature :=
  map (fun l => (map (new_or0 st) (fst l), new_or0 st (snd l)))
      (filter (fun l => forallb (has st) (fst l)) ligs).

Definition pure_sets (st : sst) (sets : list ligset) : list ligset :=
  flat_map (fun s => match pure_ligs st (snd s) with
                     | [] => []
                     | nl => [(new_or0 st (fst s), nl)]
                     end) sets.

Definition pure_sub (st : sst) (s : gsubst) : list gsubst :=
  match s with
  | Single1 d cov =>
      match pure_single st d (retained st (fun g => g) cov) with [] => [] | m => [Single2 m] end
  | Single2 _ => []
  | Lig sets =>
      match pure_sets st (retained st fst sets) with [] => [] | ns => [Lig ns] end
  | Multi _ _ => []
  end.

Definition pure_lookup (st : sst) (lk : list gsubst) : list gsubst := flat_map (pure_sub st) lk.

Lemma retained_In {A} : forall n st (old : A -> N) l x, Inv n st ->
  (In x (retained st old l) <-> In x l /\ In (old x) (s_glyphs st)).
Proof.
  intros n st old l x HI. unfold retained. rewrite sort_by_In, filter_In.
  rewrite (has_In n st (old x) HI). reflexivity.
Qed.

Lemma build_single_pure : forall n st d ks, Inv n st ->
  (forall g, In g ks -> In (wrap16 (g + d)) (s_glyphs st)) ->
  build_single d ks st = (pure_single st d ks, st).
Proof.
  intros n st d. induction ks as [|g r IH]; intros HI H; cbn [build_single pure_single map]; [reflexivity|].
  rewrite (get_new_present n st _ HI (H g (or_introl eq_refl))).
  rewrite IH by (try assumption; intros x Hx; apply H; right; exact Hx).
  reflexivity.
Qed.

Lemma get_news_pure : forall n st gs, Inv n st -> (forall g, In g gs -> In g (s_glyphs st)) ->
  get_news gs st = (map (new_or0 st) gs, st).
Proof.
  intros n st. induction gs as [|g r IH]; intros HI H; cbn [get_news map]; [reflexivity|].
  rewrite (get_new_present n st g HI (H g (or_introl eq_refl))).
  rewrite IH by (try assumption; intros x Hx; apply H; right; exact Hx).
  reflexivity.
Qed.

Lemma forallb_has : forall n st l, Inv n st ->
  (forallb (has st) l = true <-> forall x, In x l -> In x (s_glyphs st)).
Proof.
  intros n st l HI. rewrite forallb_forall. split; intros H x Hx.
  - apply (has_In n st x HI). auto.
  - apply (has_In n st x HI). auto.
Qed.

Lemma build_ligs_pure : forall n st ligs, Inv n st ->
  (forall l, In l ligs -> forallb (has st) (fst l) = true -> In (snd l) (s_glyphs st)) ->
  build_ligs ligs st = (pure_ligs st ligs, st).
Proof.
  intros n st. induction ligs as [|[ins out] r IH]; intros HI H; cbn [build_ligs]; [reflexivity|].
  assert (Hr : forall l, In l r -> forallb (has st) (fst l) = true -> In (snd l) (s_glyphs st))
    by (intros l Hl; apply H; right; exact Hl).
  unfold pure_ligs. cbn [filter fst snd]. destruct (forallb (has st) ins) eqn:E.
  - rewrite (get_new_present n st out HI (H (ins, out) (or_introl eq_refl) E)).
    rewrite (get_news_pure n st ins HI) by (apply (forallb_has n st ins HI); exact E).
    rewrite (IH HI Hr). reflexivity.
  - rewrite (IH HI Hr). reflexivity.
Qed.

Lemma build_sets_pure : forall n st sets, Inv n st ->
  (forall s l, In s sets -> In l (snd s) -> forallb (has st) (fst l) = true -> In (snd l) (s_glyphs st)) ->
  build_sets sets st = (pure_sets st sets, st).
Proof.
  intros n st. induction sets as [|[first ligs] r IH]; intros HI H; cbn [build_sets]; [reflexivity|].
  rewrite (build_ligs_pure n st ligs HI) by (intros l Hl; apply (H (first, ligs) l); [left; reflexivity|exact Hl]).
  rewrite IH by (try assumption; intros s l Hs; apply H; right; exact Hs).
  unfold pure_sets. cbn [flat_map fst snd]. destruct (pure_ligs st ligs); reflexivity.
Qed.

(* the closedness each subtable needs *)
Definition sub_closed (st : sst) (s : gsubst) : Prop :=
  match s with
  | Single1 d cov => forall g, In g cov -> In g (s_glyphs st) -> In (wrap16 (g + d)) (s_glyphs st)
  | Single2 _ => False
  | Lig sets => forall s l, In s sets -> In l (snd s) -> In (fst s) (s_glyphs st) ->
                  forallb (has st) (fst l) = true -> In (snd l) (s_glyphs st)
  | Multi _ _ => False
  end.

Lemma build_subs_pure : forall n st ss, Inv n st -> (forall s, In s ss -> sub_closed st s) ->
  build_subs ss st = Ok (flat_map (pure_sub st) ss, st).
Proof.
  intros n st. induction ss as [|s r IH]; intros HI H; cbn [build_subs flat_map]; [reflexivity|].
  assert (Hr : forall x, In x r -> sub_closed st x) by (intros x Hx; apply H; right; exact Hx).
  pose proof (H s (or_introl eq_refl)) as Hs.
  destruct s as [d cov|m|sets|alt m]; cbn [sub_closed pure_sub] in *; [| | |contradiction].
  - rewrite (build_single_pure n st d _ HI).
    + rewrite (IH HI Hr). cbn [obind fst snd].
      destruct (pure_single st d (retained st (fun g => g) cov)); reflexivity.
    + intros g Hg. apply (retained_In n st (fun g => g) cov g HI) in Hg. destruct Hg. auto.
  - contradiction.
  - rewrite (build_sets_pure n st _ HI).
    + rewrite (IH HI Hr). cbn [obind fst snd].
      destruct (pure_sets st (retained st fst sets)); reflexivity.
    + intros s l Hsr Hl. apply (retained_In n st fst sets s HI) in Hsr. destruct Hsr as [Hs1 Hs2].
      apply (Hs s l Hs1 Hl Hs2).
Qed.

Lemma build_lookups_pure : forall n st ll, Inv n st ->
  (forall lk s, In lk ll -> In s lk -> sub_closed st s) ->
  build_lookups ll st = Ok (map (pure_lookup st) ll, st).
Proof.
  intros n st. induction ll as [|lk r IH]; intros HI H; cbn [build_lookups map]; [reflexivity|].
  rewrite (build_subs_pure n st lk HI) by (intros s Hs; apply (H lk s); [left; reflexivity|exact Hs]).
  cbn [obind fst snd].
  rewrite IH by (try assumption; intros l s Hl; apply H; right; exact Hl).
  reflexivity.
Qed.

Lemma closed_sub_closed : forall f st lk s, wf_fontb f = true -> Inv (nG f) st ->
  closed_under (all_rules f) (sset st) -> In lk (f_gsub f) -> In s lk -> sub_closed st s.
Proof.
  intros f st lk s Hwf HI Hc Hlk Hs.
  destruct (wf_font_parts f Hwf) as [_ [_ [Hsub _]]]. specialize (Hsub lk s Hlk Hs).
  destruct s as [d cov|m|sets|alt m]; cbn [sub_closed wf_subb] in *; [| | |discriminate].
  - intros g Hg Hin.
    apply (Hc (mkRule 0 [g] [wrap16 (g + d)])).
    + apply in_all_rules. exists lk, (Single1 d cov). split; [exact Hlk|]. split; [exact Hs|].
      cbn [rules_of_sub]. apply in_map_iff. exists g. split; [reflexivity|exact Hg].
    + cbn [r_in]. intros x [Hx|[]]. subst. exact Hin.
    + cbn [r_out]. left; reflexivity.
  - discriminate.
  - intros st0 l Hst Hl Hfirst Hall.
    apply (Hc (mkRule 0 (fst st0 :: fst l) [snd l])).
    + apply in_all_rules. exists lk, (Lig sets). split; [exact Hlk|]. split; [exact Hs|].
      cbn [rules_of_sub]. apply in_flat_map. exists st0. split; [exact Hst|].
      apply in_map_iff. exists l. split; [reflexivity|exact Hl].
    + cbn [r_in]. intros x [Hx|Hx]; [subst; exact Hfirst|].
      unfold sset. apply (forallb_has (nG f) st (fst l) HI); assumption.
    + cbn [r_out]. left; reflexivity.
Qed.

(* ------------------------------------------------------------------ *)
(* SubsetGsub as a whole                                                *)

Lemma R1_closed : forall f gl, closed_under (all_rules f) (R1 f gl).
Proof. intros f gl r Hr Hin y Hy. eapply R1_rule; eauto. Qed.

Theorem subset_gsub_spec : forall f gl orc, wf_fontb f = true -> wf_listb f gl = true ->
  exists (st1 : sst) (orc1 : list nat),
    subset_gsub orc (f_gsub f) (init gl) = Ok (map (pure_lookup st1) (f_gsub f), st1, orc1) /\
    Inv (nG f) st1 /\ extends (init gl) st1 /\
    closed_under (all_rules f) (sset st1) /\
    (forall g, In g (s_glyphs st1) <-> R1 f gl g).
Proof.
  intros f gl orc Hwf Hl.
  destruct (wf_font_parts f Hwf) as [Hn _]. destruct (wf_list_parts f gl Hl) as [Hnd Hb].
  pose proof (init_inv (nG f) gl Hn Hnd Hb) as HI0.
  unfold subset_gsub.
  pose proof (collect_rules_perm (f_gsub f) orc) as Hperm.
  destruct (collect_rules orc (f_gsub f)) as [rules orc1]. cbn [fst] in Hperm.
  fold (all_rules f) in Hperm.
  set (rules0 := map (set_missing (init gl)) rules).
  assert (Hio : forall r0, In r0 rules0 -> exists r, In r (all_rules f) /\ same_io r r0).
  { intros r0 Hr0. apply in_map_iff in Hr0. destruct Hr0 as [r [Er Hr]]. subst r0.
    exists r. split; [eapply Permutation_in; eauto|split; reflexivity]. }
  assert (Hio' : forall r, In r (all_rules f) -> exists r0, In r0 rules0 /\ same_io r0 r).
  { intros r Hr. exists (set_missing (init gl) r). split; [|split; reflexivity].
    apply in_map. eapply Permutation_in; [apply Permutation_sym; exact Hperm|exact Hr]. }
  assert (Hb0 : rules_bounded (nG f) rules0).
  { intros r0 Hr0. destruct (Hio r0 Hr0) as [r [Hr [Ei Eo]]]. rewrite <- Ei, <- Eo.
    apply (wf_rules_bounded f Hwf); exact Hr. }
  assert (Hc0 : counts_ok (init gl) rules0).
  { intros r0 Hr0. apply in_map_iff in Hr0. destruct Hr0 as [r [Er Hr]]. subst r0. reflexivity. }
  destruct (gsub_close_spec (nG f) (S (length rules0)) rules0 (init gl) Hn HI0 Hb0 Hc0 ltac:(lia))
    as [st1 [E1 [I1 [X1 [C1 M1]]]]].
  rewrite E1. cbn [obind].
  assert (Call : closed_under (all_rules f) (sset st1)).
  { eapply closed_under_io; [exact Hio'|exact C1]. }
  rewrite (build_lookups_pure (nG f) st1 (f_gsub f) I1).
  2:{ intros lk s Hlk Hs. eapply closed_sub_closed; eauto. }
  cbn [obind fst snd]. exists st1, orc1. split; [reflexivity|]. split; [exact I1|].
  split; [exact X1|]. split; [exact Call|].
  intros g. split.
  - apply (M1 (R1 f gl)).
    + intros x Hx. apply R1_listed. exact Hx.
    + eapply closed_under_io; [exact Hio|apply R1_closed].
  - intros HR. induction HR as [g Hg|r g Hr _ IH Hg].
    + eapply extends_In; [exact X1|exact Hg].
    + apply (Call r Hr IH g Hg).
Qed.
