(* C10/Util.v — list lemmas used by the C10 proofs: association lists, index
   of an element, pigeonhole, the oracle-driven pick/shuffle. *)
From Coq Require Import List NArith ZArith Bool Arith Lia Permutation.
From Coq Require Import ZifyBool ZifyNat ZifyN.
From Common Require Import Bytes Outcome.
From C10 Require Import Model.
Import ListNotations.
Local Open Scope N_scope.

(* ------------------------------------------------------------------ *)
(* membership test                                                      *)

Lemma memN_In : forall x l, memN x l = true <-> In x l.
Proof.
  intros x l. unfold memN. rewrite existsb_exists. split.
  - intros [y [Hy He]]. apply N.eqb_eq in He. subst. exact Hy.
  - intros H. exists x. split; [exact H | apply N.eqb_refl].
Qed.

Lemma memN_false : forall x l, memN x l = false <-> ~ In x l.
Proof.
  intros x l. rewrite <- memN_In. destruct (memN x l); split; intros; congruence.
Qed.

(* ------------------------------------------------------------------ *)
(* association lists                                                    *)

Lemma lookup_In {V} : forall k (m : list (N * V)) v, lookup k m = Some v -> In (k, v) m.
Proof.
  induction m as [|[k' v'] m IH]; cbn [lookup]; intros v H; [discriminate|].
  destruct (N.eqb_spec k k').
  - inversion H; subst. left; reflexivity.
  - right. apply IH; exact H.
Qed.

Lemma lookup_None {V} : forall k (m : list (N * V)), lookup k m = None <-> ~ In k (map fst m).
Proof.
  induction m as [|[k' v'] m IH]; cbn [lookup map fst In].
  - split; [intros _ []|reflexivity].
  - destruct (N.eqb_spec k k').
    + subst. split; [discriminate|]. intros H. exfalso. apply H. left; reflexivity.
    + rewrite IH. split; intros H.
      * intros [E|E]; [congruence|auto].
      * intros E. apply H. right; exact E.
Qed.

Lemma lookup_NoDup {V} : forall k (m : list (N * V)) v,
  NoDup (map fst m) -> In (k, v) m -> lookup k m = Some v.
Proof.
  induction m as [|[k' v'] m IH]; cbn [lookup map fst In]; intros v Hnd Hin; [contradiction|].
  inversion Hnd as [|? ? Hni Hnd']; subst.
  destruct Hin as [E|Hin].
  - inversion E; subst. rewrite N.eqb_refl. reflexivity.
  - destruct (N.eqb_spec k k').
    + subst. exfalso. apply Hni. change k' with (fst (k', v)). apply in_map. exact Hin.
    + apply IH; assumption.
Qed.

(* ------------------------------------------------------------------ *)
(* index of an element                                                  *)

Fixpoint index_of (g : N) (l : list N) : option nat :=
  match l with
  | [] => None
  | x :: r => if g =? x then Some O else option_map S (index_of g r)
  end.

Lemma index_of_None : forall g l, index_of g l = None <-> ~ In g l.
Proof.
  induction l as [|x r IH]; cbn [index_of In].
  - split; [intros _ []|reflexivity].
  - destruct (N.eqb_spec g x).
    + subst. split; [discriminate|]. intros H. exfalso. apply H. left; reflexivity.
    + destruct (index_of g r) eqn:E; cbn [option_map].
      * split; [discriminate|]. intros H. exfalso.
        assert (Hn : ~ In g r) by (intros Hi; apply H; right; exact Hi).
        apply IH in Hn. discriminate.
      * split; [|reflexivity]. intros _ [Hx|Hi]; [congruence|].
        assert (Hn : ~ In g r) by (apply IH; reflexivity). contradiction.
Qed.

Lemma index_of_Some : forall g l i, index_of g l = Some i -> nth_error l i = Some g /\ (i < length l)%nat.
Proof.
  induction l as [|x r IH]; cbn [index_of]; intros i H; [discriminate|].
  destruct (N.eqb_spec g x).
  - inversion H; subst. cbn. split; [reflexivity|lia].
  - destruct (index_of g r) eqn:E; cbn [option_map] in H; [|discriminate].
    inversion H; subst. destruct (IH n0 eq_refl) as [H1 H2]. cbn. split; [exact H1|lia].
Qed.

Lemma index_of_In : forall g l, In g l -> exists i, index_of g l = Some i.
Proof.
  intros g l H. destruct (index_of g l) eqn:E; [eauto|].
  apply index_of_None in E. contradiction.
Qed.

Lemma index_of_nth : forall l i g, NoDup l -> nth_error l i = Some g -> index_of g l = Some i.
Proof.
  induction l as [|x r IH]; intros i g Hnd Hn.
  - destruct i; discriminate.
  - inversion Hnd as [|? ? Hni Hnd']; subst. destruct i as [|i]; cbn in Hn.
    + inversion Hn; subst. cbn. rewrite N.eqb_refl. reflexivity.
    + cbn [index_of]. destruct (N.eqb_spec g x).
      * subst. exfalso. apply Hni. eapply nth_error_In; eauto.
      * rewrite (IH i g Hnd' Hn). reflexivity.
Qed.

Lemma index_of_app_l : forall g l1 l2 i, index_of g l1 = Some i -> index_of g (l1 ++ l2) = Some i.
Proof.
  induction l1 as [|x r IH]; cbn [index_of app]; intros l2 i H; [discriminate|].
  destruct (g =? x); [exact H|].
  destruct (index_of g r) eqn:E; cbn [option_map] in *; [|discriminate].
  rewrite (IH l2 n eq_refl). exact H.
Qed.

Lemma index_of_app_r : forall g l1 l2, ~ In g l1 ->
  index_of g (l1 ++ l2) = option_map (fun i => (length l1 + i)%nat) (index_of g l2).
Proof.
  induction l1 as [|x r IH]; cbn [index_of app length]; intros l2 H.
  - destruct (index_of g l2); reflexivity.
  - destruct (N.eqb_spec g x).
    + subst. exfalso. apply H. left; reflexivity.
    + rewrite IH by (intros Hi; apply H; right; exact Hi).
      destruct (index_of g l2); reflexivity.
Qed.

Lemma index_of_inj : forall l a b i, index_of a l = Some i -> index_of b l = Some i -> a = b.
Proof.
  intros l a b i Ha Hb. apply index_of_Some in Ha. apply index_of_Some in Hb.
  destruct Ha as [Ha _]. destruct Hb as [Hb _]. congruence.
Qed.

(* ------------------------------------------------------------------ *)
(* pigeonhole                                                           *)

Lemma NoDup_bounded_length : forall (l : list N) (n : nat),
  NoDup l -> (forall x, In x l -> x < N.of_nat n) -> (length l <= n)%nat.
Proof.
  intros l n Hnd Hb.
  assert (Hincl : incl l (map N.of_nat (seq 0 n))).
  { intros x Hx. apply in_map_iff. exists (N.to_nat x). split; [lia|].
    apply in_seq. specialize (Hb x Hx). lia. }
  pose proof (NoDup_incl_length Hnd Hincl) as H.
  rewrite map_length, seq_length in H. exact H.
Qed.

(* ------------------------------------------------------------------ *)
(* extract / pick / shuffle                                             *)

Lemma extract_perm {A} : forall k (l : list A) x r, extract k l = Some (x, r) -> Permutation l (x :: r).
Proof.
  induction k as [|k IH]; intros l x r H; destruct l as [|y l]; cbn [extract] in H; try discriminate.
  - inversion H; subst. apply Permutation_refl.
  - destruct (extract k l) as [[z r']|] eqn:E; [|discriminate].
    inversion H; subst. apply IH in E.
    eapply Permutation_trans; [apply perm_skip; exact E|apply perm_swap].
Qed.

Lemma extract_lt {A} : forall k (l : list A), (k < length l)%nat -> exists x r, extract k l = Some (x, r).
Proof.
  induction k as [|k IH]; intros l H; destruct l as [|y l]; cbn [length] in H; try lia; cbn [extract].
  - eauto.
  - destruct (IH l) as [x [r E]]; [lia|]. rewrite E. eauto.
Qed.

Lemma pick_perm {A} : forall orc (l : list A) x r, pick orc l = Some (x, r) -> Permutation l (x :: r).
Proof. unfold pick. intros. eapply extract_perm; eauto. Qed.

Lemma pick_nil {A} : forall orc, pick orc (@nil A) = None.
Proof. reflexivity. Qed.

Lemma pick_cons {A} : forall orc (l : list A), l <> [] -> exists x r, pick orc l = Some (x, r).
Proof.
  intros orc l H. unfold pick. apply extract_lt.
  destruct l; [congruence|]. apply Nat.mod_upper_bound. cbn; lia.
Qed.

Lemma pick_None {A} : forall orc (l : list A), pick orc l = None -> l = [].
Proof.
  intros orc l H. destruct l as [|x l]; [reflexivity|].
  destruct (pick_cons orc (x :: l)) as [y [r E]]; [discriminate|]. congruence.
Qed.

Lemma shuffle_perm {A} : forall fuel orc (l : list A), Permutation (fst (shuffle fuel orc l)) l.
Proof.
  induction fuel as [|f IH]; intros orc l; cbn [shuffle]; [apply Permutation_refl|].
  destruct (pick orc l) as [[x rest]|] eqn:E; [|apply Permutation_refl].
  specialize (IH (tl orc) rest). destruct (shuffle f (tl orc) rest) as [r o]. cbn [fst] in *.
  apply pick_perm in E. eapply Permutation_trans; [apply perm_skip; exact IH|].
  apply Permutation_sym. exact E.
Qed.

(* ------------------------------------------------------------------ *)
(* wrap16                                                               *)

Lemma wrap16_small : forall x, x < 65536 -> wrap16 x = x.
Proof. intros. unfold wrap16. apply N.mod_small. assumption. Qed.

(* ------------------------------------------------------------------ *)
(* insertion sort                                                       *)

Lemma insert_by_perm {A} (key : A -> N) : forall x l, Permutation (insert_by key x l) (x :: l).
Proof.
  induction l as [|y r IH]; cbn [insert_by]; [apply Permutation_refl|].
  destruct (key x <=? key y); [apply Permutation_refl|].
  eapply Permutation_trans; [apply perm_skip; exact IH|apply perm_swap].
Qed.

Lemma sort_by_perm {A} (key : A -> N) : forall l, Permutation (sort_by key l) l.
Proof.
  induction l as [|x r IH]; cbn [sort_by]; [apply Permutation_refl|].
  eapply Permutation_trans; [apply insert_by_perm|apply perm_skip; exact IH].
Qed.

Lemma sort_by_In {A} (key : A -> N) : forall l x, In x (sort_by key l) <-> In x l.
Proof.
  intros. split; apply Permutation_in; [apply sort_by_perm|apply Permutation_sym, sort_by_perm].
Qed.

Definition sorted_by {A} (key : A -> N) (l : list A) : Prop :=
  forall i j a b, (i < j)%nat -> nth_error l i = Some a -> nth_error l j = Some b -> key a <= key b.

Lemma sorted_by_cons {A} (key : A -> N) : forall x l,
  sorted_by key l -> (forall y, In y l -> key x <= key y) -> sorted_by key (x :: l).
Proof.
  intros x l Hs Hx i j a b Hij Ha Hb. destruct j as [|j]; [lia|]. cbn in Hb.
  destruct i as [|i]; cbn in Ha.
  - inversion Ha; subst. apply Hx. eapply nth_error_In; eauto.
  - eapply Hs; [|exact Ha|exact Hb]. lia.
Qed.

Lemma sorted_by_tail {A} (key : A -> N) : forall x l, sorted_by key (x :: l) -> sorted_by key l.
Proof. intros x l H i j a b Hij Ha Hb. apply (H (S i) (S j) a b); [lia|exact Ha|exact Hb]. Qed.

Lemma sorted_by_head {A} (key : A -> N) : forall x l y, sorted_by key (x :: l) -> In y l -> key x <= key y.
Proof.
  intros x l y H Hy. apply In_nth_error in Hy. destruct Hy as [j Hj].
  apply (H O (S j) x y); [lia|reflexivity|exact Hj].
Qed.

Lemma insert_by_sorted {A} (key : A -> N) : forall x l, sorted_by key l -> sorted_by key (insert_by key x l).
Proof.
  induction l as [|y r IH]; intros Hs; cbn [insert_by].
  - apply sorted_by_cons; [exact Hs|intros ? []].
  - destruct (N.leb_spec (key x) (key y)).
    + apply sorted_by_cons; [exact Hs|]. intros z [Hz|Hz]; [subst; assumption|].
      pose proof (sorted_by_head key y r z Hs Hz). lia.
    + apply sorted_by_cons.
      * apply IH. eapply sorted_by_tail; exact Hs.
      * intros z Hz. apply (Permutation_in _ (insert_by_perm key x r)) in Hz.
        destruct Hz as [Hz|Hz]; [subst; lia|]. eapply sorted_by_head; eauto.
Qed.

Lemma sort_by_sorted {A} (key : A -> N) : forall l, sorted_by key (sort_by key l).
Proof.
  induction l as [|x r IH]; cbn [sort_by].
  - intros i j a b _ Ha. destruct i; discriminate.
  - apply insert_by_sorted. exact IH.
Qed.

Lemma NoDup_snoc {A} : forall (l : list A) x, NoDup l -> ~ In x l -> NoDup (l ++ [x]).
Proof.
  induction l as [|y r IH]; intros x Hnd Hni; cbn [app].
  - constructor; [intros []|constructor].
  - inversion Hnd as [|? ? Hy Hr]; subst. constructor.
    + intros H. apply in_app_or in H. destruct H as [H|[H|[]]]; [contradiction|].
      subst. apply Hni. left; reflexivity.
    + apply IH; [exact Hr|]. intros H. apply Hni. right; exact H.
Qed.

Lemma skipn_In_l {A} : forall k (l : list A) x, In x (skipn k l) -> In x l.
Proof.
  induction k as [|k IH]; intros l x H; [exact H|].
  destruct l as [|y l]; [exact H|]. right. apply IH. exact H.
Qed.

Lemma NoDup_app_intro {A} : forall (a b : list A),
  NoDup a -> NoDup b -> (forall x, In x a -> ~ In x b) -> NoDup (a ++ b).
Proof.
  induction a as [|x r IH]; intros b Ha Hb Hd; cbn [app]; [exact Hb|].
  inversion Ha as [|? ? Hx Hr]; subst. constructor.
  - intros H. apply in_app_or in H. destruct H as [H|H]; [contradiction|].
    apply (Hd x); [left; reflexivity|exact H].
  - apply IH; [exact Hr|exact Hb|]. intros y Hy. apply Hd. right; exact Hy.
Qed.
