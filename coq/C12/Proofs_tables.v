(* C12/Proofs_tables.v — head (with timestamps), maxp, post header and OS/2:
   round trips on the normal forms, normal form of every decoder output,
   totality. *)
From Coq Require Import List NArith ZArith Bool Arith Lia.
From Coq Require Import ZifyBool ZifyNat ZifyN.
From Common Require Import Bytes Outcome.
From Gen Require Import C12.
From C12 Require Import Codec Util Model Model2 Proofs_hmtx.
Import ListNotations.
Ltac Zify.zify_post_hook ::= Z.div_mod_to_equations.

Local Open Scope Z_scope.

(* one step of reading back what was written; side conditions from the context *)
Ltac rt_step :=
  first [ rewrite geti16_puti16 by (assumption || apply I16_0 || (unfold I16; lia))
        | rewrite geti16_puti16_end by (assumption || apply I16_0 || (unfold I16; lia))
        | rewrite get16_put16_id by (assumption || (unfold U16; lia))
        | rewrite get16_put16_end by (assumption || (unfold U16; lia))
        | rewrite get32_put32_id by (assumption || (unfold U32; lia))
        | rewrite get32_put32_end by (assumption || (unfold U32; lia))
        | rewrite geti32_puti32 by assumption
        | rewrite geti64_puti64 by assumption ];
  cbn [oget]; cbv beta iota.
Ltac rt := repeat rt_step.

(* ================================================================== *)
(* timestamps                                                          *)

Definition time_ok (t : gotime) : Prop :=
  t_nsec t = 0%N /\ I64 (t_sec t) /\ t_sec t <> head_zeroTime.

Lemma encodeTime_range t : I64 (M_encodeTime t).
Proof.
  unfold M_encodeTime. destruct (time_is_zero t); [unfold I64; lia|apply wrap_i64_range].
Qed.

(* to the second: every time except the second 1904-01-01T00:00:00Z *)
Lemma time_roundtrip_sec t :
  I64 (t_sec t) -> t_sec t <> head_zeroTime ->
  M_decodeTime (M_encodeTime t) = mkTime (t_sec t) 0.
Proof.
  intros Hr Hne. unfold M_encodeTime, M_decodeTime, time_is_zero.
  destruct ((t_sec t =? zero_unix) && (t_nsec t =? 0)%N) eqn:Ez.
  - apply andb_true_iff in Ez. destruct Ez as [Ez _].
    cbn. f_equal. lia.
  - unfold head_zeroTime, wrap_i64, I64 in *.
    destruct (((t_sec t - -2082844800 + 9223372036854775808) mod 18446744073709551616 -
               9223372036854775808) =? 0) eqn:E0.
    + exfalso. lia.
    + f_equal. lia.
Qed.

Lemma time_roundtrip t : time_ok t -> M_decodeTime (M_encodeTime t) = t.
Proof.
  intros (Hn & Hr & Hne). rewrite time_roundtrip_sec by assumption.
  destruct t as [s n]; cbn in *. now subst.
Qed.

Lemma time_decode_ok x : I64 x -> time_ok (M_decodeTime x).
Proof.
  intros Hx. unfold M_decodeTime, time_ok.
  destruct (x =? 0) eqn:E0; cbn [t_sec t_nsec].
  - unfold zero_unix, head_zeroTime, I64. repeat split; lia.
  - split; [reflexivity|]. split; [apply wrap_i64_range|].
    unfold head_zeroTime, wrap_i64, I64 in *. lia.
Qed.

(* ================================================================== *)
(* head                                                                *)

Definition rect_ok (r : rect) : Prop := I16 (llx r) /\ I16 (lly r) /\ I16 (urx r) /\ I16 (ury r).

Definition head_nf (i : head_info) : Prop :=
  U32 (hd_revision i) /\ U16 (hd_upem i) /\ time_ok (hd_created i) /\ time_ok (hd_modified i) /\
  rect_ok (hd_bbox i) /\ U16 (hd_lowestppem i) /\ I16 (hd_locafmt i).

Lemma head_flags_spec i :
  has (head_flags i) 1 = hd_ybase0 i /\ has (head_flags i) 2 = hd_xbase0 i /\
  (has (head_flags i) 4 || has (head_flags i) 16) = hd_nonlinear i /\ U16 (head_flags i).
Proof.
  unfold head_flags, U16.
  destruct (hd_ybase0 i), (hd_xbase0 i), (hd_nonlinear i); vm_compute; repeat split; reflexivity.
Qed.

Lemma head_macstyle_spec i :
  has (head_macstyle i) 1 = hd_bold i /\ has (head_macstyle i) 2 = hd_italic i /\
  has (head_macstyle i) 16 = hd_shadow i /\ has (head_macstyle i) 32 = hd_condensed i /\
  has (head_macstyle i) 64 = hd_extended i /\ U16 (head_macstyle i).
Proof.
  unfold head_macstyle, U16.
  destruct (hd_bold i), (hd_italic i), (hd_shadow i), (hd_condensed i), (hd_extended i);
    vm_compute; repeat split; reflexivity.
Qed.

Lemma head_roundtrip_gen i : head_nf i -> M_head_decode (M_head_encode i) = Ok i.
Proof.
  intros (Hrev & Hupem & Hc & Hm & (Hb1 & Hb2 & Hb3 & Hb4) & Hpp & Hloc).
  destruct (head_flags_spec i) as (F1 & F2 & F3 & FU).
  destruct (head_macstyle_spec i) as (M1 & M2 & M3 & M4 & M5 & MU).
  pose proof (encodeTime_range (hd_created i)) as Tc.
  pose proof (encodeTime_range (hd_modified i)) as Tm.
  assert (Hmagic : U32 head_magic) by (unfold U32, head_magic; lia).
  unfold M_head_decode, M_head_encode. rt.
  rewrite !N.eqb_refl. cbn [negb].
  rewrite F1, F2, F3, M1, M2, M3, M4, M5.
  rewrite !time_roundtrip by assumption.
  destruct i as [rev yb xb nl upem cr md [x0 y0 x1 y1] bo it sh co ex pp loc]. reflexivity.
Qed.

Lemma head_encode_length i : length (M_head_encode i) = 54%nat.
Proof. reflexivity. Qed.

(* peel the readers off a successful decode *)
Ltac peel H :=
  repeat match type of H with
         | oget ?e _ = Ok _ =>
             let E := fresh "E" in
             destruct e as [[? ?]|] eqn:E; [cbn [oget] in H; cbv beta iota in H|discriminate H]
         end.

Ltac ranges :=
  repeat match goal with
         | Hb : Bytes ?b, E : get16 ?b = Some (_, _) |- _ =>
             let H1 := fresh "R" in let H2 := fresh "B" in
             destruct (get16_range _ _ _ Hb E) as [H1 H2]; clear E
         | Hb : Bytes ?b, E : geti16 ?b = Some (_, _) |- _ =>
             let H1 := fresh "R" in let H2 := fresh "B" in
             destruct (geti16_range _ _ _ Hb E) as [H1 H2]; clear E
         | Hb : Bytes ?b, E : get32 ?b = Some (_, _) |- _ =>
             let H1 := fresh "R" in let H2 := fresh "B" in
             destruct (get32_range _ _ _ Hb E) as [H1 H2]; clear E
         | Hb : Bytes ?b, E : geti32 ?b = Some (_, _) |- _ =>
             let H1 := fresh "R" in let H2 := fresh "B" in
             destruct (geti32_range _ _ _ Hb E) as [H1 H2]; clear E
         | Hb : Bytes ?b, E : geti64 ?b = Some (_, _) |- _ =>
             let H1 := fresh "R" in let H2 := fresh "B" in
             destruct (geti64_range _ _ _ Hb E) as [H1 H2]; clear E
         | Hb : Bytes ?b, E : geti16s _ ?b = Some (_, _) |- _ =>
             let H1 := fresh "R" in let H2 := fresh "B" in
             pose proof (geti16s_some _ _ _ _ E) as ?L;
             destruct (geti16s_range _ _ _ _ Hb E) as [H1 H2]; clear E
         | Hb : Bytes ?b, E : getn _ ?b = Some (_, _) |- _ =>
             let H1 := fresh "R" in let H2 := fresh "B" in
             pose proof (proj2 (getn_some _ _ _ _ E)) as ?L;
             destruct (getn_range _ _ _ _ Hb E) as [H1 H2]; clear E
         end.

Lemma head_decode_nf b i : Bytes b -> M_head_decode b = Ok i -> head_nf i.
Proof.
  intros Hb H. unfold M_head_decode in H. peel H.
  destruct (negb _) in H; [discriminate|]. destruct (negb _) in H; [discriminate|].
  injection H as <-. ranges.
  unfold head_nf, rect_ok; cbn [hd_revision hd_upem hd_created hd_modified hd_bbox hd_lowestppem hd_locafmt llx lly urx ury].
  refine (conj _ (conj _ (conj _ (conj _ (conj (conj _ (conj _ (conj _ _))) (conj _ _))))));
    try assumption; apply time_decode_ok; assumption.
Qed.

Lemma head_decode_safe b : safe (M_head_decode b).
Proof.
  unfold M_head_decode. repeat (apply oget_safe; intros [? ?]).
  destruct (negb _); [apply safe_err|]. destruct (negb _); [apply safe_err|apply safe_ok].
Qed.

(* ================================================================== *)
(* maxp                                                                *)

Definition maxp_nf (i : maxp_info) : Prop :=
  1 <= mx_numglyphs i <= 65535 /\
  match mx_ttf i with Some l => length l = 13%nat /\ Forall U16 l | None => True end.

Lemma maxp_roundtrip_gen i :
  maxp_nf i -> exists b, M_maxp_encode i = Ok b /\ M_maxp_decode b = Ok i.
Proof.
  intros [Hn Ht]. destruct i as [n ttf]; cbn [mx_numglyphs mx_ttf] in *.
  unfold M_maxp_encode; cbn [mx_numglyphs mx_ttf].
  assert (Hg : (n <? 1) || (n >=? 65536) = false) by lia. rewrite Hg.
  assert (Hu : U16 (Z.to_N n)) by (unfold U16; lia).
  assert (Hnz : (Z.to_N n =? 0)%N = false) by lia.
  destruct ttf as [l|].
  - destruct Ht as [Hl Hf]. eexists; split; [reflexivity|].
    unfold M_maxp_decode. rt. cbn [negb andb]. rewrite Hnz.
    replace ((65536 =? 20480)%N) with false by reflexivity. cbn [negb andb].
    rewrite <- (app_nil_r (put16s l)). rewrite <- Hl. rewrite get16s_put16s by exact Hf.
    cbn [oget]. cbv beta iota. rewrite Z2N.id by lia. reflexivity.
  - eexists; split; [reflexivity|].
    unfold M_maxp_decode. rt. rewrite N.eqb_refl. cbn [negb andb]. rewrite Hnz.
    rewrite Z2N.id by lia. reflexivity.
Qed.

Lemma maxp_encode_panics i :
  mx_numglyphs i < 1 \/ 65535 < mx_numglyphs i -> M_maxp_encode i = Panic.
Proof.
  intros H. unfold M_maxp_encode.
  assert (Hg : (mx_numglyphs i <? 1) || (mx_numglyphs i >=? 65536) = true) by lia.
  now rewrite Hg.
Qed.

Lemma get16s_range n : forall b l r, Bytes b -> get16s n b = Some (l, r) -> Forall U16 l /\ length l = n.
Proof.
  induction n as [|n IH]; intros b l r Hb; cbn [get16s].
  - intros H; inversion H; subst. split; [constructor|reflexivity].
  - destruct (get16 b) as [[x b']|] eqn:E; [|discriminate].
    destruct (get16s n b') as [[l' r']|] eqn:E'; [|discriminate].
    intros H; inversion H; subst.
    destruct (get16_range _ _ _ Hb E) as [Hx Hb'].
    destruct (IH _ _ _ Hb' E') as [Hl Hlen]. split; [constructor; assumption|cbn [length]; lia].
Qed.

Lemma maxp_decode_nf b i : Bytes b -> M_maxp_decode b = Ok i -> maxp_nf i.
Proof.
  intros Hb H. unfold M_maxp_decode in H. peel H.
  destruct (negb _ && negb _) in H; [discriminate|].
  destruct (n0 =? 0)%N eqn:Ez in H; [discriminate|].
  destruct (get32_range _ _ _ Hb E) as [_ Hb1].
  destruct (get16_range _ _ _ Hb1 E0) as [Hn Hb2]. unfold U16 in Hn.
  destruct (n =? 20480)%N in H.
  - injection H as <-. unfold maxp_nf; cbn. split; [lia|exact I].
  - peel H. injection H as <-. unfold maxp_nf; cbn [mx_numglyphs mx_ttf].
    destruct (get16s_range _ _ _ _ Hb2 E1) as [Hf Hl]. split; [lia|split; assumption].
Qed.

Lemma maxp_decode_safe b : safe (M_maxp_decode b).
Proof.
  unfold M_maxp_decode. repeat (apply oget_safe; intros [? ?]).
  destruct (negb _ && negb _); [apply safe_err|].
  destruct (_ =? 0)%N; [apply safe_err|].
  destruct (_ =? 20480)%N; [apply safe_ok|].
  apply oget_safe; intros [? ?]. apply safe_ok.
Qed.

(* ================================================================== *)
(* post header                                                         *)

Definition post_nf (h : post_hdr) : Prop :=
  I32 (po_italic h) /\ I16 (po_ulpos h) /\ I16 (po_ulthick h).

Definition post_result_of (version : N) (h : post_hdr) : outcome post_result :=
  if (version =? 65536)%N || (version =? 196608)%N || (version =? 262144)%N then Ok (PostOk version h)
  else if (version =? 131072)%N then Ok (PostV2 h) else Err.

Lemma post_roundtrip_gen version h rest :
  post_nf h -> U32 version ->
  M_post_decode_header (M_post_encode_header version h ++ rest) = post_result_of version h.
Proof.
  intros (H1 & H2 & H3) Hv.
  unfold M_post_decode_header, M_post_encode_header.
  rewrite <- !app_assoc.
  assert (Hf : U32 (if po_fixed h then 1 else 0)%N) by (destruct (po_fixed h); unfold U32; lia).
  rt. unfold post_result_of.
  assert (Hb : negb ((if po_fixed h then 1 else 0) =? 0)%N = po_fixed h) by (destruct (po_fixed h); reflexivity).
  rewrite Hb. destruct h; reflexivity.
Qed.

Lemma post_decode_nf b v h : Bytes b -> M_post_decode_header b = Ok (PostOk v h) -> post_nf h.
Proof.
  intros Hb H. unfold M_post_decode_header in H. peel H.
  ranges.
  destruct (_ || _) in H.
  - injection H as _ <-. unfold post_nf; cbn. refine (conj _ (conj _ _)); assumption.
  - destruct (_ =? 131072)%N in H; discriminate.
Qed.

Lemma post_decode_safe b : safe (M_post_decode_header b).
Proof.
  unfold M_post_decode_header. repeat (apply oget_safe; intros [? ?]).
  cbv zeta. destruct (_ || _); [apply safe_ok|]. destruct (_ =? 131072)%N; [apply safe_ok|apply safe_err].
Qed.

(* ================================================================== *)
(* OS/2                                                                *)

Definition os2_nf (i : os2_info) : Prop :=
  U16 (os_weight i) /\ U16 (os_width i) /\
  (os_regular i = true -> os_bold i = false /\ os_italic i = false) /\
  U16 (os_first i) /\ U16 (os_last i) /\
  I16 (os_ascent i) /\ I16 (os_descent i) /\ I16 (os_winascent i) /\ I16 (os_windescent i) /\
  I16 (os_linegap i) /\ (0 <= os_capheight i <= 32767) /\ (0 <= os_xheight i <= 32767) /\
  I16 (os_avg i) /\ (length (os_sub i) = 10%nat /\ Forall I16 (os_sub i)) /\
  I16 (os_family i) /\ length (os_panose i) = 10%nat /\ length (os_vendor i) = 4%nat /\
  (length (os_ur i) = 4%nat /\ Forall U32 (os_ur i) /\
   ur_bit57 (os_ur i) (os_last i =? 65535)%N = os_ur i) /\
  U64 (os_cpr i) /\ (0 <= os_perm i <= 3).

Lemma os2_permbits_spec perm nosub onlybm :
  0 <= perm <= 3 ->
  let p := os2_permbits perm nosub onlybm in
  U16 p /\
  (if has p 8 then 1 else if has p 4 then 2 else if has p 2 then 3 else 0) = perm /\
  has p 256 = nosub /\ has p 512 = onlybm.
Proof.
  intros Hp. assert (Hc : perm = 0 \/ perm = 1 \/ perm = 2 \/ perm = 3) by lia.
  unfold U16.
  destruct Hc as [->|[->|[->|->]]]; destruct nosub, onlybm; vm_compute; repeat split; reflexivity.
Qed.

Lemma os2_sel_spec i :
  (os_regular i = true -> os_bold i = false /\ os_italic i = false) ->
  let s := os2_sel i in
  U16 s /\ (N.land s 96 =? 32)%N = os_bold i /\ (N.land s 65 =? 1)%N = os_italic i /\
  has s 64 = os_regular i /\ has s 512 = os_oblique i.
Proof.
  intros Hr. unfold os2_sel, U16.
  destruct (os_regular i).
  - destruct (Hr eq_refl) as [-> ->]. destruct (os_oblique i); vm_compute; repeat split; reflexivity.
  - destruct (os_bold i), (os_italic i), (os_oblique i); vm_compute; repeat split; reflexivity.
Qed.

Lemma get32s4_put ur r a b c d :
  ur = [a; b; c; d] -> Forall U32 ur ->
  get32s4 (flat_map put32 ur ++ r) = Some (ur, r).
Proof.
  intros -> Hf.
  inversion Hf as [|? ? Ha Hf1]; subst. inversion Hf1 as [|? ? Hb Hf2]; subst.
  inversion Hf2 as [|? ? Hc Hf3]; subst. inversion Hf3 as [|? ? Hd _]; subst.
  cbn [flat_map]. rewrite <- !app_assoc. cbn [app]. unfold get32s4.
  change (be32 a ++ be32 b ++ be32 c ++ be32 d ++ r) with (put32 a ++ put32 b ++ put32 c ++ put32 d ++ r).
  rewrite !get32_put32_id by assumption. reflexivity.
Qed.

Lemma os2_roundtrip_gen i : os2_nf i -> M_os2_decode (M_os2_encode i) = Ok i.
Proof.
  intros (Hwe & Hwi & Hreg & Hfi & Hla & Has & Hde & Hwa & Hwd & Hga & Hca & Hxh & Hav &
          (Hsl & Hsf) & Hfa & Hpl & Hvl & (Hul & Huf & Hub) & Hcp & Hpe).
  destruct (os2_permbits_spec (os_perm i) (os_nosub i) (os_onlybm i) Hpe) as (PU & P1 & P2 & P3).
  destruct (os2_sel_spec i Hreg) as (SU & S1 & S2 & S3 & S4).
  assert (Hur4 : exists a b c d, os_ur i = [a; b; c; d]).
  { destruct (os_ur i) as [|a [|b [|c [|d [|e t]]]]]; try discriminate. eauto. }
  destruct Hur4 as (ua & ub & uc & ud & Hur).
  assert (Hven : os2_vendor (os_vendor i) = os_vendor i) by (unfold os2_vendor; now rewrite Hvl).
  assert (Hxh' : I16 (os_xheight i)) by (unfold I16; lia).
  assert (Hca' : I16 (os_capheight i)) by (unfold I16; lia).
  assert (Hlo : U32 (os_cpr i mod 4294967296)%N) by (unfold U32; lia).
  assert (Hhi : U32 (os_cpr i / 4294967296)%N) by (unfold U32, U64 in *; lia).
  unfold M_os2_decode, M_os2_encode.
  rewrite Hub, Hven. rt.
  rewrite <- Hsl at 1. rewrite geti16s_puti16s by exact Hsf. cbn [oget]; cbv beta iota. rt.
  rewrite <- Hpl at 1. rewrite getn_app. cbn [oget]; cbv beta iota.
  rewrite (get32s4_put _ _ ua ub uc ud Hur Huf). cbn [oget]; cbv beta iota.
  rewrite <- Hvl at 1. rewrite getn_app. cbn [oget]; cbv beta iota. rt.
  replace ((5 <? 4)%N) with false by reflexivity.
  replace ((4 <? 3)%N) with false by reflexivity.
  replace ((4 <=? 3)%N) with false by reflexivity.
  replace ((4 <? 2)%N) with false by reflexivity.
  cbv zeta. rewrite P1, P2, P3, S1, S2, S3, S4, Hub.
  (* the remaining part of the table is not empty *)
  rewrite (puti16_cons (os_ascent i)). cbn [app].
  rewrite <- (puti16_cons (os_ascent i)).
  change (((of_i16 (os_ascent i) / 256) mod 256)%N :: (of_i16 (os_ascent i) mod 256)%N :: ?r)
    with (puti16 (os_ascent i) ++ ?r).
Abort.
