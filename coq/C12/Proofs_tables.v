(* C12/Proofs_tables.v — head (with timestamps), maxp, post header and OS/2:
   round trips on the normal forms, normal form of every decoder output,
   totality. *)
From Coq Require Import List NArith ZArith Bool Arith Lia.
From Coq Require Import ZifyBool ZifyNat ZifyN.
From Common Require Import Bytes Outcome.
From Gen Require Import C12.
From C12 Require Import Codec Util Model Model2 Proofs_hmtx.
Import ListNotations.
Ltac Zify.zify_post_hook ::= Z.div_mod_to_equations.

Local Open Scope Z_scope.

(* one step of reading back what was written; side conditions from the context *)
Ltac rt_step :=
  first [ rewrite geti16_puti16 by (assumption || apply I16_0 || (unfold I16; lia))
        | rewrite geti16_puti16_end by (assumption || apply I16_0 || (unfold I16; lia))
        | rewrite get16_put16_id by (assumption || (unfold U16; lia))
        | rewrite get16_put16_end by (assumption || (unfold U16; lia))
        | rewrite get32_put32_id by (assumption || (unfold U32; lia))
        | rewrite get32_put32_end by (assumption || (unfold U32; lia))
        | rewrite geti32_puti32 by assumption
        | rewrite geti64_puti64 by assumption ];
  cbn [oget]; cbv beta iota.
Ltac rt := repeat rt_step.

(* ================================================================== *)
(* timestamps                                                          *)

Definition time_ok (t : gotime) : Prop :=
  t_nsec t = 0%N /\ I64 (t_sec t) /\ t_sec t <> head_zeroTime.

Lemma encodeTime_range t : I64 (M_encodeTime t).
Proof.
  unfold M_encodeTime. destruct (time_is_zero t); [unfold I64; lia|apply wrap_i64_range].
Qed.

(* to the second: every time except the second 1904-01-01T00:00:00Z *)
Lemma time_roundtrip_sec t :
  I64 (t_sec t) -> t_sec t <> head_zeroTime ->
  M_decodeTime (M_encodeTime t) = mkTime (t_sec t) 0.
Proof.
  intros Hr Hne. unfold M_encodeTime, M_decodeTime, time_is_zero.
  destruct ((t_sec t =? zero_unix) && (t_nsec t =? 0)%N) eqn:Ez.
  - apply andb_true_iff in Ez. destruct Ez as [Ez _].
    cbn. f_equal. lia.
  - unfold head_zeroTime, wrap_i64, I64 in *.
    destruct (((t_sec t - -2082844800 + 9223372036854775808) mod 18446744073709551616 -
               9223372036854775808) =? 0) eqn:E0.
    + exfalso. lia.
    + f_equal. lia.
Qed.

Lemma time_roundtrip t : time_ok t -> M_decodeTime (M_encodeTime t) = t.
Proof.
  intros (Hn & Hr & Hne). rewrite time_roundtrip_sec by assumption.
  destruct t as [s n]; cbn in *. now subst.
Qed.

Lemma time_decode_ok x : I64 x -> time_ok (M_decodeTime x).
Proof.
  intros Hx. unfold M_decodeTime, time_ok.
  destruct (x =? 0) eqn:E0; cbn [t_sec t_nsec].
  - unfold zero_unix, head_zeroTime, I64. repeat split; lia.
  - split; [reflexivity|]. split; [apply wrap_i64_range|].
    unfold head_zeroTime, wrap_i64, I64 in *. lia.
Qed.

(* ================================================================== *)
(* head                                                                *)

Definition rect_ok (r : rect) : Prop := I16 (llx r) /\ I16 (lly r) /\ I16 (urx r) /\ I16 (ury r).

Definition head_nf (i : head_info) : Prop :=
  U32 (hd_revision i) /\ U16 (hd_upem i) /\ time_ok (hd_created i) /\ time_ok (hd_modified i) /\
  rect_ok (hd_bbox i) /\ U16 (hd_lowestppem i) /\ I16 (hd_locafmt i).

Lemma head_flags_spec i :
  has (head_flags i) 1 = hd_ybase0 i /\ has (head_flags i) 2 = hd_xbase0 i /\
  (has (head_flags i) 4 || has (head_flags i) 16) = hd_nonlinear i /\ U16 (head_flags i).
Proof.
  unfold head_flags, U16.
  destruct (hd_ybase0 i), (hd_xbase0 i), (hd_nonlinear i); vm_compute; repeat split; reflexivity.
Qed.

Lemma head_macstyle_spec i :
  has (head_macstyle i) 1 = hd_bold i /\ has (head_macstyle i) 2 = hd_italic i /\
  has (head_macstyle i) 16 = hd_shadow i /\ has (head_macstyle i) 32 = hd_condensed i /\
  has (head_macstyle i) 64 = hd_extended i /\ U16 (head_macstyle i).
Proof.
  unfold head_macstyle, U16.
  destruct (hd_bold i), (hd_italic i), (hd_shadow i), (hd_condensed i), (hd_extended i);
    vm_compute; repeat split; reflexivity.
Qed.

Lemma head_roundtrip_gen i : head_nf i -> M_head_decode (M_head_encode i) = Ok i.
Proof.
  intros (Hrev & Hupem & Hc & Hm & (Hb1 & Hb2 & Hb3 & Hb4) & Hpp & Hloc).
  destruct (head_flags_spec i) as (F1 & F2 & F3 & FU).
  destruct (head_macstyle_spec i) as (M1 & M2 & M3 & M4 & M5 & MU).
  pose proof (encodeTime_range (hd_created i)) as Tc.
  pose proof (encodeTime_range (hd_modified i)) as Tm.
  assert (Hmagic : U32 head_magic) by (unfold U32, head_magic; lia).
  unfold M_head_decode, M_head_encode. rt.
  rewrite !N.eqb_refl. cbn [negb].
  rewrite F1, F2, F3, M1, M2, M3, M4, M5.
  rewrite !time_roundtrip by assumption.
  destruct i as [rev yb xb nl upem cr md [x0 y0 x1 y1] bo it sh co ex pp loc]. reflexivity.
Qed.

Lemma head_encode_length i : length (M_head_encode i) = 54%nat.
Proof. reflexivity. Qed.

(* peel the readers off a successful decode *)
Ltac peel H :=
  repeat match type of H with
         | oget ?e _ = Ok _ =>
             let E := fresh "E" in
             destruct e as [[? ?]|] eqn:E; [cbn [oget] in H; cbv beta iota in H|discriminate H]
         end.

Ltac ranges :=
  repeat match goal with
         | Hb : Bytes ?b, E : get16 ?b = Some (_, _) |- _ =>
             let H1 := fresh "R" in let H2 := fresh "B" in
             destruct (get16_range _ _ _ Hb E) as [H1 H2]; clear E
         | Hb : Bytes ?b, E : geti16 ?b = Some (_, _) |- _ =>
             let H1 := fresh "R" in let H2 := fresh "B" in
             destruct (geti16_range _ _ _ Hb E) as [H1 H2]; clear E
         | Hb : Bytes ?b, E : get32 ?b = Some (_, _) |- _ =>
             let H1 := fresh "R" in let H2 := fresh "B" in
             destruct (get32_range _ _ _ Hb E) as [H1 H2]; clear E
         | Hb : Bytes ?b, E : geti32 ?b = Some (_, _) |- _ =>
             let H1 := fresh "R" in let H2 := fresh "B" in
             destruct (geti32_range _ _ _ Hb E) as [H1 H2]; clear E
         | Hb : Bytes ?b, E : geti64 ?b = Some (_, _) |- _ =>
             let H1 := fresh "R" in let H2 := fresh "B" in
             destruct (geti64_range _ _ _ Hb E) as [H1 H2]; clear E
         | Hb : Bytes ?b, E : geti16s _ ?b = Some (_, _) |- _ =>
             let H1 := fresh "R" in let H2 := fresh "B" in
             pose proof (geti16s_some _ _ _ _ E) as ?L;
             destruct (geti16s_range _ _ _ _ Hb E) as [H1 H2]; clear E
         | Hb : Bytes ?b, E : getn _ ?b = Some (_, _) |- _ =>
             let H1 := fresh "R" in let H2 := fresh "B" in
             pose proof (proj2 (getn_some _ _ _ _ E)) as ?L;
             destruct (getn_range _ _ _ _ Hb E) as [H1 H2]; clear E
         end.

Lemma head_decode_nf b i : Bytes b -> M_head_decode b = Ok i -> head_nf i.
Proof.
  intros Hb H. unfold M_head_decode in H. peel H.
  destruct (negb _) in H; [discriminate|]. destruct (negb _) in H; [discriminate|].
  injection H as <-. ranges.
  unfold head_nf, rect_ok; cbn [hd_revision hd_upem hd_created hd_modified hd_bbox hd_lowestppem hd_locafmt llx lly urx ury].
  refine (conj _ (conj _ (conj _ (conj _ (conj (conj _ (conj _ (conj _ _))) (conj _ _))))));
    try assumption; apply time_decode_ok; assumption.
Qed.

Lemma head_decode_safe b : safe (M_head_decode b).
Proof.
  unfold M_head_decode. repeat (apply oget_safe; intros [? ?]).
  destruct (negb _); [apply safe_err|]. destruct (negb _); [apply safe_err|apply safe_ok].
Qed.

(* ================================================================== *)
(* maxp                                                                *)

Definition maxp_nf (i : maxp_info) : Prop :=
  1 <= mx_numglyphs i <= 65535 /\
  match mx_ttf i with Some l => length l = 13%nat /\ Forall U16 l | None => True end.

Lemma maxp_roundtrip_gen i :
  maxp_nf i -> exists b, M_maxp_encode i = Ok b /\ M_maxp_decode b = Ok i.
Proof.
  intros [Hn Ht]. destruct i as [n ttf]; cbn [mx_numglyphs mx_ttf] in *.
  unfold M_maxp_encode; cbn [mx_numglyphs mx_ttf].
  assert (Hg : (n <? 1) || (n >=? 65536) = false) by lia. rewrite Hg.
  assert (Hu : U16 (Z.to_N n)) by (unfold U16; lia).
  assert (Hnz : (Z.to_N n =? 0)%N = false) by lia.
  destruct ttf as [l|].
  - destruct Ht as [Hl Hf]. eexists; split; [reflexivity|].
    unfold M_maxp_decode. rt. cbn [negb andb]. rewrite Hnz.
    replace ((65536 =? 20480)%N) with false by reflexivity. cbn [negb andb].
    rewrite <- (app_nil_r (put16s l)). rewrite <- Hl. rewrite get16s_put16s by exact Hf.
    cbn [oget]. cbv beta iota. rewrite Z2N.id by lia. reflexivity.
  - eexists; split; [reflexivity|].
    unfold M_maxp_decode. rt. rewrite N.eqb_refl. cbn [negb andb]. rewrite Hnz.
    rewrite Z2N.id by lia. reflexivity.
Qed.

Lemma maxp_encode_panics i :
  mx_numglyphs i < 1 \/ 65535 < mx_numglyphs i -> M_maxp_encode i = Panic.
Proof.
  intros H. unfold M_maxp_encode.
  assert (Hg : (mx_numglyphs i <? 1) || (mx_numglyphs i >=? 65536) = true) by lia.
  now rewrite Hg.
Qed.

Lemma get16s_range n : forall b l r, Bytes b -> get16s n b = Some (l, r) -> Forall U16 l /\ length l = n.
Proof.
  induction n as [|n IH]; intros b l r Hb; cbn [get16s].
  - intros H; inversion H; subst. split; [constructor|reflexivity].
  - destruct (get16 b) as [[x b']|] eqn:E; [|discriminate].
    destruct (get16s n b') as [[l' r']|] eqn:E'; [|discriminate].
    intros H; inversion H; subst.
    destruct (get16_range _ _ _ Hb E) as [Hx Hb'].
    destruct (IH _ _ _ Hb' E') as [Hl Hlen]. split; [constructor; assumption|cbn [length]; lia].
Qed.

Lemma maxp_decode_nf b i : Bytes b -> M_maxp_decode b = Ok i -> maxp_nf i.
Proof.
  intros Hb H. unfold M_maxp_decode in H. peel H.
  destruct (negb _ && negb _) in H; [discriminate|].
  destruct (n0 =? 0)%N eqn:Ez in H; [discriminate|].
  destruct (get32_range _ _ _ Hb E) as [_ Hb1].
  destruct (get16_range _ _ _ Hb1 E0) as [Hn Hb2]. unfold U16 in Hn.
  destruct (n =? 20480)%N in H.
  - injection H as <-. unfold maxp_nf; cbn. split; [lia|exact I].
  - peel H. injection H as <-. unfold maxp_nf; cbn [mx_numglyphs mx_ttf].
    destruct (get16s_range _ _ _ _ Hb2 E1) as [Hf Hl]. split; [lia|split; assumption].
Qed.

Lemma maxp_decode_safe b : safe (M_maxp_decode b).
Proof.
  unfold M_maxp_decode. repeat (apply oget_safe; intros [? ?]).
  destruct (negb _ && negb _); [apply safe_err|].
  destruct (_ =? 0)%N; [apply safe_err|].
  destruct (_ =? 20480)%N; [apply safe_ok|].
  apply oget_safe; intros [? ?]. apply safe_ok.
Qed.

(* ================================================================== *)
(* post header                                                         *)

Definition post_nf (h : post_hdr) : Prop :=
  I32 (po_italic h) /\ I16 (po_ulpos h) /\ I16 (po_ulthick h).

Definition post_result_of (version : N) (h : post_hdr) : outcome post_result :=
  if (version =? 65536)%N || (version =? 196608)%N || (version =? 262144)%N then Ok (PostOk version h)
  else if (version =? 131072)%N then Ok (PostV2 h) else Err.

Lemma post_roundtrip_gen version h rest :
  post_nf h -> U32 version ->
  M_post_decode_header (M_post_encode_header version h ++ rest) = post_result_of version h.
Proof.
  intros (H1 & H2 & H3) Hv.
  unfold M_post_decode_header, M_post_encode_header.
  rewrite <- !app_assoc.
  assert (Hf : U32 (if po_fixed h then 1 else 0)%N) by (destruct (po_fixed h); unfold U32; lia).
  rt. unfold post_result_of.
  assert (Hb : negb ((if po_fixed h then 1 else 0) =? 0)%N = po_fixed h) by (destruct (po_fixed h); reflexivity).
  rewrite Hb. destruct h; reflexivity.
Qed.

Lemma post_decode_nf b v h : Bytes b -> M_post_decode_header b = Ok (PostOk v h) -> post_nf h.
Proof.
  intros Hb H. unfold M_post_decode_header in H. peel H.
  ranges.
  destruct (_ || _) in H.
  - injection H as _ <-. unfold post_nf; cbn. refine (conj _ (conj _ _)); assumption.
  - destruct (_ =? 131072)%N in H; discriminate.
Qed.

Lemma post_decode_safe b : safe (M_post_decode_header b).
Proof.
  unfold M_post_decode_header. repeat (apply oget_safe; intros [? ?]).
  cbv zeta. destruct (_ || _); [apply safe_ok|]. destruct (_ =? 131072)%N; [apply safe_ok|apply safe_err].
Qed.

(* ================================================================== *)
(* OS/2                                                                *)

Definition os2_nf (i : os2_info) : Prop :=
  U16 (os_weight i) /\ U16 (os_width i) /\
  (os_regular i = true -> os_bold i = false /\ os_italic i = false) /\
  U16 (os_first i) /\ U16 (os_last i) /\
  I16 (os_ascent i) /\ I16 (os_descent i) /\ I16 (os_winascent i) /\ I16 (os_windescent i) /\
  I16 (os_linegap i) /\ (0 <= os_capheight i <= 32767) /\ (0 <= os_xheight i <= 32767) /\
  I16 (os_avg i) /\ (length (os_sub i) = 10%nat /\ Forall I16 (os_sub i)) /\
  I16 (os_family i) /\ length (os_panose i) = 10%nat /\ length (os_vendor i) = 4%nat /\
  (length (os_ur i) = 4%nat /\ Forall U32 (os_ur i) /\
   ur_bit57 (os_ur i) (os_last i =? 65535)%N = os_ur i) /\
  U64 (os_cpr i) /\ (0 <= os_perm i <= 3).

Lemma os2_permbits_spec perm nosub onlybm :
  0 <= perm <= 3 ->
  let p := os2_permbits perm nosub onlybm in
  U16 p /\
  (if has p 8 then 1 else if has p 4 then 2 else if has p 2 then 3 else 0) = perm /\
  has p 256 = nosub /\ has p 512 = onlybm.
Proof.
  intros Hp. assert (Hc : perm = 0 \/ perm = 1 \/ perm = 2 \/ perm = 3) by lia.
  unfold U16.
  destruct Hc as [ -> | [ -> | [ -> | -> ] ] ]; destruct nosub, onlybm; vm_compute; repeat split; reflexivity.
Qed.

Lemma os2_sel_spec i :
  (os_regular i = true -> os_bold i = false /\ os_italic i = false) ->
  let s := os2_sel i in
  U16 s /\ (N.land s 96 =? 32)%N = os_bold i /\ (N.land s 65 =? 1)%N = os_italic i /\
  has s 64 = os_regular i /\ has s 512 = os_oblique i.
Proof.
  intros Hr. unfold os2_sel, U16.
  destruct (os_regular i).
  - destruct (Hr eq_refl) as [-> ->]. destruct (os_oblique i); vm_compute; repeat split; reflexivity.
  - destruct (os_bold i), (os_italic i), (os_oblique i); vm_compute; repeat split; reflexivity.
Qed.

Lemma get32s4_put ur r a b c d :
  ur = [a; b; c; d] -> Forall U32 ur ->
  get32s4 (flat_map put32 ur ++ r) = Some (ur, r).
Proof.
  intros -> Hf.
  inversion Hf as [|? ? Ha Hf1]; subst. inversion Hf1 as [|? ? Hb Hf2]; subst.
  inversion Hf2 as [|? ? Hc Hf3]; subst. inversion Hf3 as [|? ? Hd _]; subst.
  cbn [flat_map]. rewrite <- !app_assoc. cbn [app]. unfold get32s4.
  change (be32 a ++ be32 b ++ be32 c ++ be32 d ++ r) with (put32 a ++ put32 b ++ put32 c ++ put32 d ++ r).
  rewrite !get32_put32_id by assumption. reflexivity.
Qed.

Lemma at_eof_puti16 z r : at_eof (puti16 z ++ r) = false.
Proof. reflexivity. Qed.

Lemma os2_roundtrip_gen i : os2_nf i -> M_os2_decode (M_os2_encode i) = Ok i.
Proof.
  intros (Hwe & Hwi & Hreg & Hfi & Hla & Has & Hde & Hwa & Hwd & Hga & Hca & Hxh & Hav &
          (Hsl & Hsf) & Hfa & Hpl & Hvl & (Hul & Huf & Hub) & Hcp & Hpe).
  destruct (os2_permbits_spec (os_perm i) (os_nosub i) (os_onlybm i) Hpe) as (PU & P1 & P2 & P3).
  destruct (os2_sel_spec i Hreg) as (SU & S1 & S2 & S3 & S4).
  assert (Hur4 : exists a b c d, os_ur i = [a; b; c; d]).
  { destruct (os_ur i) as [|a [|b [|c [|d [|e t]]]]]; try discriminate. eauto. }
  destruct Hur4 as (ua & ub & uc & ud & Hur).
  assert (Hven : os2_vendor (os_vendor i) = os_vendor i) by (unfold os2_vendor; now rewrite Hvl).
  assert (Hxh' : I16 (os_xheight i)) by (unfold I16; lia).
  assert (Hca' : I16 (os_capheight i)) by (unfold I16; lia).
  assert (Hlo : U32 (os_cpr i mod 4294967296)%N) by (unfold U32; lia).
  assert (Hhi : U32 (os_cpr i / 4294967296)%N) by (unfold U32, U64 in *; lia).
  unfold M_os2_decode, M_os2_encode.
  rewrite Hub, Hven. rt.
  rewrite <- Hsl at 1. rewrite geti16s_puti16s by exact Hsf. cbn [oget]; cbv beta iota. rt.
  rewrite <- Hpl at 1. rewrite getn_app. cbn [oget]; cbv beta iota.
  rewrite (get32s4_put _ _ ua ub uc ud Hur Huf). cbn [oget]; cbv beta iota.
  rewrite <- Hvl at 1. rewrite getn_app. cbn [oget]; cbv beta iota. rt.
  replace ((5 <? 4)%N) with false by reflexivity.
  replace ((4 <? 3)%N) with false by reflexivity.
  replace ((4 <=? 3)%N) with false by reflexivity.
  replace ((4 <? 2)%N) with false by reflexivity.
  cbv zeta. rewrite P1, P2, P3, S1, S2, S3, S4, Hub.
  rewrite at_eof_puti16. rt.
  rewrite get32_put32. cbn [oget]; cbv beta iota. rt.
  assert (Ecap : (if 0 <? os_capheight i then os_capheight i else 0) = os_capheight i).
  { destruct (0 <? os_capheight i) eqn:E; lia. }
  assert (Exh : (if 0 <? os_xheight i then os_xheight i else 0) = os_xheight i).
  { destruct (0 <? os_xheight i) eqn:E; lia. }
  assert (Ecp : (os_cpr i / 4294967296 * 4294967296 + os_cpr i mod 4294967296)%N = os_cpr i) by lia.
  rewrite Ecap, Exh, Ecp.
  destruct i; reflexivity.
Qed.

Lemma os2_encode_length i :
  length (os_sub i) = 10%nat -> length (os_panose i) = 10%nat -> length (os_ur i) = 4%nat ->
  length (M_os2_encode i) = 96%nat.
Proof.
  intros H1 H2 H3. unfold M_os2_encode.
  destruct (os_ur i) as [|a [|b [|c [|d [|e t]]]]]; try discriminate.
  assert (Hv : length (os2_vendor (os_vendor i)) = 4%nat).
  { unfold os2_vendor. destruct (length (os_vendor i) =? 4)%nat eqn:E; [now apply Nat.eqb_eq|reflexivity]. }
  rewrite !app_length, puti16s_length, H1, H2, Hv. reflexivity.
Qed.

Lemma os2_decode_safe b : safe (M_os2_decode b).
Proof.
  unfold M_os2_decode. repeat (apply oget_safe; intros [? ?]).
  destruct (5 <? _)%N; [apply safe_err|]. cbv zeta.
  destruct (at_eof _); [apply safe_ok|].
  repeat (apply oget_safe; intros [? ?]).
  destruct (_ <? 2)%N; [apply safe_ok|].
  repeat (apply oget_safe; intros [? ?]). apply safe_ok.
Qed.

(* ------------------------------------------------------------------ *)
(* every Info that OS/2 Read returns is in the normal form             *)

Local Open Scope N_scope.

Lemma land_pow2_zero s k : N.testbit s k = false -> N.land s (2 ^ k) = 0.
Proof.
  intros H. apply N.bits_inj. intros n. rewrite N.land_spec, N.bits_0, N.pow2_bits_eqb.
  destruct (N.eqb_spec k n) as [<-|Hne]; [now rewrite H|apply andb_false_r].
Qed.

Lemma has_testbit s k : has s (2 ^ k) = true -> N.testbit s k = true.
Proof.
  unfold has. intros H. destruct (N.testbit s k) eqn:E; [reflexivity|].
  rewrite (land_pow2_zero s k E) in H. discriminate.
Qed.

Lemma sel_regular_excl s :
  has s 64 = true -> (N.land s 96 =? 32) = false /\ (N.land s 65 =? 1) = false.
Proof.
  intros H. change 64 with (2 ^ 6) in H. apply has_testbit in H.
  split; apply N.eqb_neq; intros E.
  - assert (H0 : N.testbit (N.land s 96) 6 = N.testbit 32 6) by now rewrite E.
    rewrite N.land_spec, H in H0. vm_compute in H0. discriminate.
  - assert (H0 : N.testbit (N.land s 65) 6 = N.testbit 1 6) by now rewrite E.
    rewrite N.land_spec, H in H0. vm_compute in H0. discriminate.
Qed.

Lemma lor_u32 a b : U32 a -> U32 b -> U32 (N.lor a b).
Proof.
  unfold U32. intros Ha Hb.
  destruct (N.eq_dec a 0) as [->|Ha0]; [now rewrite N.lor_0_l|].
  destruct (N.eq_dec b 0) as [->|Hb0]; [now rewrite N.lor_0_r|].
  change 4294967296 with (2 ^ 32) in *.
  assert (Hl : N.lor a b <> 0) by (intros E; apply N.lor_eq_0_iff in E; tauto).
  apply N.log2_lt_pow2; [lia|]. rewrite N.log2_lor.
  apply N.max_lub_lt; apply N.log2_lt_pow2; lia.
Qed.

Lemma ldiff_u32 a b : U32 a -> U32 (N.ldiff a b).
Proof.
  unfold U32. intros Ha. change 4294967296 with (2 ^ 32) in *.
  assert (Hs : N.shiftr (N.ldiff a b) 32 = 0).
  { rewrite N.shiftr_ldiff. rewrite (N.shiftr_div_pow2 a 32), N.div_small by exact Ha.
    apply N.ldiff_0_l. }
  rewrite N.shiftr_div_pow2 in Hs. apply N.div_small_iff in Hs; [exact Hs|lia].
Qed.

Lemma ur_bit57_props ur set :
  length ur = 4%nat -> Forall U32 ur ->
  length (ur_bit57 ur set) = 4%nat /\ Forall U32 (ur_bit57 ur set) /\
  ur_bit57 (ur_bit57 ur set) set = ur_bit57 ur set.
Proof.
  intros Hl Hf. destruct ur as [|a [|b [|c [|d [|e t]]]]]; try discriminate.
  inversion Hf as [|? ? Ha Hf1]; subst. inversion Hf1 as [|? ? Hb Hf2]; subst.
  cbn [ur_bit57]. split; [reflexivity|]. split.
  - constructor; [exact Ha|]. constructor; [|exact Hf2].
    destruct set; [apply lor_u32; [exact Hb|unfold U32; lia]|now apply ldiff_u32].
  - f_equal. f_equal. destruct set.
    + rewrite <- N.lor_assoc. now rewrite N.lor_diag.
    + apply N.bits_inj. intros n. rewrite !N.ldiff_spec.
      destruct (N.testbit b n), (N.testbit 33554432 n); reflexivity.
Qed.

Lemma get32s4_range b ur r : Bytes b -> get32s4 b = Some (ur, r) ->
  length ur = 4%nat /\ Forall U32 ur /\ Bytes r.
Proof.
  unfold get32s4. intros Hb H.
  destruct (get32 b) as [[x1 b1]|] eqn:E1; [|discriminate].
  destruct (get32 b1) as [[x2 b2]|] eqn:E2; [|discriminate].
  destruct (get32 b2) as [[x3 b3]|] eqn:E3; [|discriminate].
  destruct (get32 b3) as [[x4 b4]|] eqn:E4; [|discriminate].
  injection H as <- <-.
  destruct (get32_range _ _ _ Hb E1) as [R1 B1]. destruct (get32_range _ _ _ B1 E2) as [R2 B2].
  destruct (get32_range _ _ _ B2 E3) as [R3 B3]. destruct (get32_range _ _ _ B3 E4) as [R4 B4].
  split; [reflexivity|]. split; [|exact B4]. repeat constructor; assumption.
Qed.

Local Open Scope Z_scope.

(* the record Read builds, from components in range *)
Lemma os2_built_nf weight width sel permbits first last asc desc wasc wdesc gap cap xh avg
      sub family panose vendor ur cpr :
  U16 weight -> U16 width -> U16 first -> U16 last ->
  I16 asc -> I16 desc -> I16 wasc -> I16 wdesc -> I16 gap ->
  0 <= cap <= 32767 -> 0 <= xh <= 32767 -> I16 avg ->
  length sub = 10%nat -> Forall I16 sub -> I16 family ->
  length panose = 10%nat -> length vendor = 4%nat ->
  length ur = 4%nat -> Forall U32 ur -> U64 cpr ->
  os2_nf (mkOs2 weight width (N.land sel 96 =? 32)%N (N.land sel 65 =? 1)%N (has sel 64) (has sel 512)
                first last asc desc wasc wdesc gap cap xh avg sub family panose vendor
                (ur_bit57 ur (last =? 65535)%N) cpr
                (if has permbits 8 then 1 else if has permbits 4 then 2 else if has permbits 2 then 3 else 0)
                (has permbits 256) (has permbits 512)).
Proof.
  intros. destruct (ur_bit57_props ur (last =? 65535)%N H16 H17) as (U1 & U2 & U3).
  unfold os2_nf; cbn [os_weight os_width os_bold os_italic os_regular os_oblique os_first os_last
    os_ascent os_descent os_winascent os_windescent os_linegap os_capheight os_xheight os_avg
    os_sub os_family os_panose os_vendor os_ur os_cpr os_perm os_nosub os_onlybm].
  refine (conj _ (conj _ (conj _ (conj _ (conj _ (conj _ (conj _ (conj _ (conj _ (conj _
         (conj _ (conj _ (conj _ (conj (conj _ _) (conj _ (conj _ (conj _ (conj (conj _ (conj _ _))
         (conj _ _))))))))))))))))))); try assumption.
  - intros Hr. now apply sel_regular_excl.
  - destruct (has permbits 8), (has permbits 4), (has permbits 2); lia.
Qed.

Lemma pos_or_zero_range z : I16 z -> 0 <= (if 0 <? z then z else 0) <= 32767.
Proof. unfold I16. intros H. destruct (0 <? z) eqn:E; lia. Qed.

Lemma os2_decode_nf b i : Bytes b -> M_os2_decode b = Ok i -> os2_nf i.
Proof.
  intros Hb H. unfold M_os2_decode in H. peel H.
  destruct (5 <? _)%N in H; [discriminate|]. cbv zeta in H.
  (* ranges of the version-0 part *)
  destruct (get16_range _ _ _ Hb E) as [_ B0].
  destruct (geti16_range _ _ _ B0 E0) as [Ravg B1].
  destruct (get16_range _ _ _ B1 E1) as [Rwe B2].
  destruct (get16_range _ _ _ B2 E2) as [Rwi B3].
  destruct (get16_range _ _ _ B3 E3) as [_ B4].
  pose proof (geti16s_some _ _ _ _ E4) as Lsub.
  destruct (geti16s_range _ _ _ _ B4 E4) as [Rsub B5].
  destruct (geti16_range _ _ _ B5 E5) as [Rfam B6].
  pose proof (proj2 (getn_some _ _ _ _ E6)) as Lpan.
  destruct (getn_range _ _ _ _ B6 E6) as [_ B7].
  destruct (get32s4_range _ _ _ B7 E7) as (Lur & Rur & B8).
  pose proof (proj2 (getn_some _ _ _ _ E8)) as Lven.
  destruct (getn_range _ _ _ _ B8 E8) as [_ B9].
  destruct (get16_range _ _ _ B9 E9) as [_ B10].
  destruct (get16_range _ _ _ B10 E10) as [Rfi B11].
  destruct (get16_range _ _ _ B11 E11) as [Rla B12].
  assert (Z0 : I16 0) by apply I16_0.
  assert (C0 : 0 <= 0 <= 32767) by lia.
  assert (U0 : U64 0) by (unfold U64; lia).
  destruct (at_eof _) in H.
  - injection H as <-. now apply os2_built_nf.
  - peel H. ranges.
    destruct (_ <? 2)%N in H.
    + injection H as <-. now apply os2_built_nf.
    + peel H. ranges. injection H as <-.
      apply os2_built_nf; try assumption; try (now apply pos_or_zero_range).
      unfold U64, U32 in *. lia.
Qed.
