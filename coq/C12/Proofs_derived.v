(* C12/Proofs_derived.v — the derived fields of the writer equal their
   definitions; head.Version.Round is idempotent. *)
From Coq Require Import List NArith ZArith Bool Arith Lia.
From Coq Require Import ZifyBool ZifyNat ZifyN.
From Common Require Import Bytes Outcome.
From C12 Require Import Codec Util Model Model2 Model3 Proofs_hmtx.
Import ListNotations.
Ltac Zify.zify_post_hook ::= Z.div_mod_to_equations.

Local Open Scope Z_scope.

(* ------------------------------------------------------------------ *)
(* FontBBox                                                            *)

Definition proper (r : rect) : Prop := llx r <= urx r /\ lly r <= ury r.
Definition rect_ok_i16 (r : rect) : Prop := I16 (llx r) /\ I16 (lly r) /\ I16 (urx r) /\ I16 (ury r).

Lemma rect_is_zero_true r :
  rect_is_zero r = true <-> llx r = 0 /\ lly r = 0 /\ urx r = 0 /\ ury r = 0.
Proof. unfold rect_is_zero. rewrite !andb_true_iff, !Z.eqb_eq. tauto. Qed.

Lemma rect_is_zero_false r :
  rect_is_zero r = false <-> ~ (llx r = 0 /\ lly r = 0 /\ urx r = 0 /\ ury r = 0).
Proof. rewrite <- rect_is_zero_true. destruct (rect_is_zero r); split; congruence. Qed.

(* the union of two boxes *)
Definition union (a b : rect) : rect :=
  mkRect (Z.min (llx a) (llx b)) (Z.min (lly a) (lly b)) (Z.max (urx a) (urx b)) (Z.max (ury a) (ury b)).

Lemma rect_extend_union r o :
  proper r -> proper o -> rect_is_zero r = false -> rect_is_zero o = false ->
  rect_extend r o = union r o /\ proper (union r o) /\ rect_is_zero (union r o) = false.
Proof.
  intros [Hr1 Hr2] [Ho1 Ho2] Hzr Hzo. unfold rect_extend. rewrite Hzo, Hzr.
  split; [|split].
  - unfold union. f_equal.
    + destruct (llx o <? llx r) eqn:E; lia.
    + destruct (lly o <? lly r) eqn:E; lia.
    + destruct (urx o >? urx r) eqn:E; lia.
    + destruct (ury o >? ury r) eqn:E; lia.
  - unfold proper, union; cbn [llx lly urx ury]. lia.
  - apply rect_is_zero_false. apply rect_is_zero_false in Hzr.
    unfold union; cbn [llx lly urx ury]. lia.
Qed.

(* folding the union over a list *)
Definition union_all (b : rect) (l : list rect) : rect :=
  mkRect (fold_left Z.min (map llx l) (llx b)) (fold_left Z.min (map lly l) (lly b))
         (fold_left Z.max (map urx l) (urx b)) (fold_left Z.max (map ury l) (ury b)).

Lemma fontbbox_loop_union boxes : forall bbox,
  Forall proper boxes -> proper bbox -> rect_is_zero bbox = false ->
  fontbbox_loop boxes false bbox = union_all bbox (nonempty_boxes boxes).
Proof.
  induction boxes as [|g t IH]; intros bbox Hp Hb Hz.
  - destruct bbox; reflexivity.
  - inversion Hp as [|? ? Hg Ht]; subst.
    cbn [fontbbox_loop nonempty_boxes filter]. fold (nonempty_boxes t).
    destruct (rect_is_zero g) eqn:Eg; cbn [negb].
    + now apply IH.
    + destruct (rect_extend_union bbox g Hb Hg Hz Eg) as (E & P & Z0).
      rewrite E. rewrite IH by assumption.
      unfold union_all, union; cbn [map fold_left llx lly urx ury]. reflexivity.
Qed.

Lemma fontbbox_union_gen boxes : Forall proper boxes -> M_fontbbox boxes = S_fontbbox boxes.
Proof.
  unfold M_fontbbox, S_fontbbox.
  induction boxes as [|g t IH]; intros Hp; [reflexivity|].
  inversion Hp as [|? ? Hg Ht]; subst.
  cbn [fontbbox_loop nonempty_boxes filter]. fold (nonempty_boxes t).
  destruct (rect_is_zero g) eqn:Eg; cbn [negb].
  - now apply IH.
  - rewrite fontbbox_loop_union by assumption.
    unfold union_all, list_min, list_max; cbn [map]. reflexivity.
Qed.

(* the definition is the componentwise extremum over the non-empty boxes *)
Lemma S_fontbbox_extrema boxes :
  let ne := nonempty_boxes boxes in
  (ne = [] -> S_fontbbox boxes = zero_rect) /\
  (ne <> [] ->
     is_min_of (llx (S_fontbbox boxes)) (map llx ne) /\ is_min_of (lly (S_fontbbox boxes)) (map lly ne) /\
     is_max_of (urx (S_fontbbox boxes)) (map urx ne) /\ is_max_of (ury (S_fontbbox boxes)) (map ury ne)).
Proof.
  cbv zeta. unfold S_fontbbox. destruct (nonempty_boxes boxes) as [|g t] eqn:E.
  - split; [reflexivity|congruence].
  - split; [discriminate|intros _]. cbn [llx lly urx ury].
    repeat split; first [apply list_min_is_min | apply list_max_is_max]; discriminate.
Qed.

Lemma nonempty_boxes_spec boxes r :
  In r (nonempty_boxes boxes) <-> In r boxes /\ rect_is_zero r = false.
Proof.
  unfold nonempty_boxes. rewrite filter_In. destruct (rect_is_zero r); cbn; intuition congruence.
Qed.

(* without properness the loop can lose boxes: the union of two non-zero
   improper boxes can be the zero rectangle, which Extend then overwrites *)
Lemma fontbbox_improper_refuted :
  exists boxes, M_fontbbox boxes <> S_fontbbox boxes.
Proof.
  exists [mkRect 0 0 (-1) 0; mkRect 1 0 0 0; mkRect 5 5 6 6]. vm_compute. congruence.
Qed.

(* ------------------------------------------------------------------ *)
(* average width                                                       *)

Lemma avg_loop_spec ws : forall sum count,
  avg_loop ws sum count =
    (sum + list_sum (positive_widths ws), count + Z.of_nat (length (positive_widths ws))).
Proof.
  induction ws as [|w t IH]; intros sum count; cbn [avg_loop positive_widths filter].
  - cbn. f_equal; lia.
  - fold (positive_widths t). destruct (w >? 0) eqn:E; rewrite IH; cbn [list_sum fold_right length].
    + fold (list_sum (positive_widths t)). f_equal; lia.
    + reflexivity.
Qed.

Lemma avg_width_gen ws :
  let s := list_sum (positive_widths ws) in
  let c := Z.of_nat (length (positive_widths ws)) in
  (c = 0 -> M_avgwidth ws = 0) /\
  (0 < c -> M_avgwidth ws = (s + c / 2) / c /\
            2 * s - c <= 2 * (c * M_avgwidth ws) <= 2 * s + c).
Proof.
  cbv zeta. unfold M_avgwidth. rewrite avg_loop_spec.
  set (s := list_sum (positive_widths ws)). set (c := Z.of_nat (length (positive_widths ws))).
  replace (0 + s) with s by lia. replace (0 + c) with c by lia.
  split.
  - intros Hc. rewrite Hc. cbn. unfold s.
    destruct (positive_widths ws); [reflexivity|]. unfold c in Hc. cbn [length] in Hc. lia.
  - intros Hc. assert (E : (c >? 0) = true) by lia. rewrite E. split; [reflexivity|].
    pose proof (Z.div_mod (s + c / 2) c ltac:(lia)) as Hd.
    pose proof (Z.mod_pos_bound (s + c / 2) c Hc) as Hm.
    set (q := (s + c / 2) / c) in *. set (r := (s + c / 2) mod c) in *.
    assert (H2 : 2 * (c / 2) <= c /\ c - 1 <= 2 * (c / 2)) by lia.
    lia.
Qed.

Lemma positive_widths_spec ws w : In w (positive_widths ws) <-> In w ws /\ 0 < w.
Proof. unfold positive_widths. rewrite filter_In. intuition lia. Qed.

(* ------------------------------------------------------------------ *)
(* first / last character                                              *)

Lemma coderange4_loop_spec codes : forall low high,
  coderange4_loop codes low high = (fold_left Z.min codes low, fold_left Z.max codes high).
Proof.
  induction codes as [|k t IH]; intros low high; [reflexivity|].
  cbn [coderange4_loop fold_left]. rewrite IH. f_equal; f_equal.
  - destruct (k <? low) eqn:E; lia.
  - destruct (k >? high) eqn:E; lia.
Qed.

Lemma fold_min_comm l : forall a, fold_left Z.min l a = Z.min a (fold_left Z.min l a).
Proof. intros a. destruct (fold_min_spec l a) as (_ & H & _). lia. Qed.

Lemma fold_min_min l : forall a b, fold_left Z.min l (Z.min a b) = Z.min a (fold_left Z.min l b).
Proof.
  induction l as [|x t IH]; intros a b; [reflexivity|].
  cbn [fold_left]. rewrite <- IH. f_equal. lia.
Qed.

Lemma fold_max_max l : forall a b, fold_left Z.max l (Z.max a b) = Z.max a (fold_left Z.max l b).
Proof.
  induction l as [|x t IH]; intros a b; [reflexivity|].
  cbn [fold_left]. rewrite <- IH. f_equal. lia.
Qed.

Lemma coderange4_spec codes :
  codes <> [] -> Forall (fun k => 0 <= k <= 2147483647) codes ->
  M_coderange4 codes = (list_min 0 codes, list_max 0 codes).
Proof.
  intros Hn Hr. destruct codes as [|k t]; [congruence|].
  unfold M_coderange4. rewrite coderange4_loop_spec. unfold list_min, list_max. cbn [fold_left].
  inversion Hr as [|? ? Hk Ht]; subst. f_equal; f_equal; lia.
Qed.

Lemma coderange12_loop_spec codes : forall low high,
  coderange12_loop codes false low high = (fold_left Z.min codes low, fold_left Z.max codes high).
Proof.
  induction codes as [|k t IH]; intros low high; [reflexivity|].
  cbn [coderange12_loop fold_left orb]. rewrite IH. f_equal; f_equal.
  - destruct (k <? low) eqn:E; lia.
  - destruct (k >? high) eqn:E; lia.
Qed.

Lemma coderange12_spec codes : M_coderange12 codes = (list_min 0 codes, list_max 0 codes).
Proof.
  destruct codes as [|k t]; [reflexivity|].
  unfold M_coderange12. cbn [coderange12_loop orb]. rewrite coderange12_loop_spec. reflexivity.
Qed.

Lemma clamp16_spec x : 0 <= x -> clamp16 x = Z.min x 65535.
Proof. intros H. unfold clamp16. destruct (x >? 65535) eqn:E; lia. Qed.

Lemma list_min_nonneg l d : 0 <= d -> Forall (fun k => 0 <= k) l -> 0 <= list_min d l.
Proof. intros Hd Hl. apply (list_min_P (fun k => 0 <= k)); assumption. Qed.
Lemma list_max_nonneg l d : 0 <= d -> Forall (fun k => 0 <= k) l -> 0 <= list_max d l.
Proof. intros Hd Hl. apply (list_max_P (fun k => 0 <= k)); assumption. Qed.

Lemma first_last_gen codes :
  codes <> [] -> Forall (fun k => 0 <= k <= 2147483647) codes ->
  M_firstlast (Some (M_coderange4 codes)) = (Z.min (list_min 0 codes) 65535, Z.min (list_max 0 codes) 65535) /\
  M_firstlast (Some (M_coderange12 codes)) = (Z.min (list_min 0 codes) 65535, Z.min (list_max 0 codes) 65535).
Proof.
  intros Hn Hr.
  assert (Hnn : Forall (fun k => 0 <= k) codes) by (eapply Forall_impl; [|exact Hr]; cbn; lia).
  rewrite coderange4_spec by assumption. rewrite coderange12_spec.
  unfold M_firstlast. rewrite !clamp16_spec; [split; reflexivity| |].
  - apply list_max_nonneg; [lia|exact Hnn].
  - apply list_min_nonneg; [lia|exact Hnn].
Qed.

(* ------------------------------------------------------------------ *)
(* fixed pitch                                                         *)

Definition all_equal_nonzero (ws : list Z) : Prop :=
  forall a b, In a ws -> In b ws -> a <> 0 -> b <> 0 -> a = b.

Lemma fixedpitch_loop_spec ws : forall width,
  width <> 0 ->
  (fixedpitch_loop ws width = true <-> forall a, In a ws -> a <> 0 -> a = width).
Proof.
  induction ws as [|w t IH]; intros width Hw.
  - cbn. split; [intros _ a []|reflexivity].
  - cbn [fixedpitch_loop]. destruct (w =? 0) eqn:E0.
    + rewrite IH by exact Hw. split.
      * intros H a [<-|Hin] Ha; [lia|now apply H].
      * intros H a Hin Ha. apply H; [now right|exact Ha].
    + assert (Ew : (width =? 0) = false) by lia. rewrite Ew.
      destruct (2 * Z.abs (width - w) >=? 1) eqn:Ed.
      * split; [discriminate|]. intros H. specialize (H w (or_introl eq_refl)). lia.
      * rewrite IH by exact Hw. split.
        -- intros H a [<-|Hin] Ha; [lia|now apply H].
        -- intros H a Hin Ha. apply H; [now right|exact Ha].
Qed.

Lemma fixedpitch_loop0_spec ws :
  fixedpitch_loop ws 0 = true <-> all_equal_nonzero ws.
Proof.
  induction ws as [|w t IH].
  - cbn. split; [intros _ a b []|reflexivity].
  - cbn [fixedpitch_loop]. destruct (w =? 0) eqn:E0.
    + rewrite IH. unfold all_equal_nonzero. split.
      * intros H a b [<-|Ha] [<-|Hb] Ha0 Hb0; try lia; now apply H.
      * intros H a b Ha Hb. apply H; now right.
    + replace (0 =? 0) with true by reflexivity. rewrite fixedpitch_loop_spec by lia. unfold all_equal_nonzero. split.
      * intros H a b [<-|Ha] [<-|Hb] Ha0 Hb0; try reflexivity.
        -- symmetry. now apply H.
        -- now apply H.
        -- rewrite (H a Ha Ha0). symmetry. now apply H.
      * intros H a Ha Ha0. apply H; [now right|now left|exact Ha0|lia].
Qed.

Lemma fixed_pitch_gen ws :
  M_fixedpitch ws = true <-> ws <> [] /\ all_equal_nonzero ws.
Proof.
  unfold M_fixedpitch. destruct ws as [|w t].
  - split; [discriminate|intros [H _]; congruence].
  - rewrite fixedpitch_loop0_spec. split; [intros H; split; [discriminate|exact H]|intros [_ H]; exact H].
Qed.

(* ------------------------------------------------------------------ *)
(* head.Version.Round                                                  *)

Local Open Scope N_scope.

Lemma version_milli_of_milli m : version_milli (version_of_milli m) = m.
Proof.
  unfold version_milli, version_of_milli. cbv zeta.
  set (v := (131072 * m + 1000) / 2000).
  assert (Hv : 2000 * v <= 131072 * m + 1000 /\ 131072 * m + 1000 < 2000 * v + 2000) by (unfold v; lia).
  clearbody v.
  destruct (1000 * v mod 65536 <? 32768) eqn:E1; [lia|].
  destruct (32768 <? 1000 * v mod 65536) eqn:E2; [lia|].
  exfalso. lia.
Qed.

Lemma version_round_idempotent_gen v : M_version_round (M_version_round v) = M_version_round v.
Proof. unfold M_version_round, version_milli_round. now rewrite version_milli_of_milli. Qed.

(* Round keeps exactly the thousandths that String() shows *)
Lemma version_round_milli v : version_milli_string (M_version_round v) = version_milli_string v.
Proof. unfold M_version_round, version_milli_round, version_milli_string. apply version_milli_of_milli. Qed.

(* the thousandth is the nearest one, and the result is the 16.16 value nearest to it *)
Lemma version_milli_nearest v :
  2 * 65536 * version_milli v <= 2 * 1000 * v + 65536 /\ 2 * 1000 * v <= 2 * 65536 * version_milli v + 65536.
Proof.
  unfold version_milli. cbv zeta.
  destruct (1000 * v mod 65536 <? 32768) eqn:E1; [lia|].
  destruct (32768 <? 1000 * v mod 65536) eqn:E2; [lia|].
  destruct (N.even (1000 * v / 65536)); lia.
Qed.

Lemma version_round_close v :
  2000 * M_version_round v <= 131072 * version_milli v + 1000 /\
  131072 * version_milli v < 2000 * M_version_round v + 1000.
Proof. unfold M_version_round, version_milli_round, version_of_milli. lia. Qed.

(* before the fix Round used the half-up thousandth, which differs from the
   printed one at ties: 4096/65536 = 0.0625 prints as 0.062 but rounded to 0.063 *)
Lemma version_round_ties_refuted :
  exists v, version_milli_half_up v <> version_milli_string v /\
            version_of_milli (version_milli_half_up v) <> version_of_milli (version_milli_string v).
Proof. exists 4096. vm_compute. split; congruence. Qed.

(* ------------------------------------------------------------------ *)
(* all derived fields of one written font                              *)

Local Open Scope Z_scope.

Lemma ext_llx_I16 e :
  Forall rect_ok_i16 e -> Forall I16 (map ext_of (nonempty_zip e (map llx e))).
Proof.
  induction 1 as [|r e Hr He IH]; [constructor|].
  cbn [map nonempty_zip]. destruct (rect_is_zero r); [exact IH|].
  cbn [map ext_of]. constructor; [|exact IH].
  destruct Hr as (_ & _ & H3 & _). unfold I16 in *. lia.
Qed.

Definition first_last_of (cm : cmap_kind) : Z * Z :=
  match cm with
  | NoCmap => (0, 0)
  | Cmap4 c | Cmap12 c => (Z.min (list_min 0 c) 65535, Z.min (list_max 0 c) 65535)
  end.

Definition cmap_ok (cm : cmap_kind) : Prop :=
  match cm with
  | NoCmap => True
  | Cmap4 c | Cmap12 c => c <> [] /\ Forall (fun k => 0 <= k <= 2147483647) c
  end.

Lemma derived_gen boxes ws cm :
  length boxes = length ws -> (1 <= length ws)%nat ->
  (N.of_nat (length ws) <= 65535)%N ->
  Forall proper boxes -> Forall rect_ok_i16 boxes ->
  Forall (fun w => 0 <= w) ws -> Forall I16 ws ->
  Forall I16 (map rsb_of (nonempty_zip boxes (combine ws (map llx boxes)))) ->
  cmap_ok cm ->
  M_derived boxes ws cm =
    Ok (mkDerived (Z.of_nat (length boxes)) (S_fontbbox boxes)
                  (S_advmax ws) (S_minlsb boxes (map llx boxes))
                  (S_minrsb boxes ws (map llx boxes)) (S_xmaxext boxes (map llx boxes))
                  (N.of_nat (M_numLong ws))
                  (wrap_i16 (M_avgwidth ws)) (fst (first_last_of cm)) (snd (first_last_of cm))
                  (ury (S_fontbbox boxes)) (wrap_i16 (- lly (S_fontbbox boxes)))
                  (M_fixedpitch ws)).
Proof.
  intros Hlen Hn Hcnt Hprop Hrect Hpos Hws Hrsb Hcm.
  set (i := mkHinfo (Some ws) (Some boxes) None 0 0 0 0).
  assert (Hl : M_lsbs i = Some (map llx boxes)) by reflexivity.
  assert (Hll : length ws = length (map llx boxes)) by (rewrite map_length; lia).
  assert (Hex : forall e, h_extents i = Some e -> length e = length ws).
  { intros e E. cbn in E. injection E as <-. exact Hlen. }
  destruct (encode_shape i 1 0 ws (map llx boxes) eq_refl Hl Hll Hex)
    as (a & b & c & d & _ & _ & _ & _ & Henc).
  assert (Hok : hinfo_ok i 1 0) by (unfold hinfo_ok, I16; cbn; lia).
  assert (Hls : Forall I16 (map llx boxes)).
  { clear -Hrect. induction Hrect as [|r e Hr He IH]; [constructor|].
    cbn [map]. constructor; [apply Hr|exact IH]. }
  assert (Hnl : (N.of_nat (M_numLong ws) <= 65535)%N).
  { assert (ws <> []) by (destruct ws; [cbn in Hn; lia|discriminate]).
    pose proof (numlong_bounds ws H). lia. }
  pose proof (hhea_aggregates_gen i 1 0 _ _ ws boxes (map llx boxes) Henc eq_refl eq_refl Hl Hlen
                (eq_sym Hll) Hok Hpos Hws Hls Hrsb (ext_llx_I16 boxes Hrect) Hnl) as Hagg.
  unfold M_derived. fold i. rewrite Henc. cbn [obind fst]. rewrite Hagg.
  rewrite (fontbbox_union_gen boxes Hprop).
  assert (Hfl : M_firstlast match cm with
                            | NoCmap => None
                            | Cmap4 c => Some (M_coderange4 c)
                            | Cmap12 c => Some (M_coderange12 c)
                            end = first_last_of cm).
  { destruct cm as [|cs|cs]; [reflexivity| |]; destruct Hcm as [Hc1 Hc2];
      destruct (first_last_gen cs Hc1 Hc2) as [E4 E12]; [exact E4|exact E12]. }
  rewrite Hfl. destruct (first_last_of cm) as [f l]. reflexivity.
Qed.
