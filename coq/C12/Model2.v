(* C12/Model2.v — executable models of head/head.go + head/time.go,
   maxp/maxp.go, the header part of post/post.go, and os2/os2.go.
   Definitions only.

   Conventions: uint16/uint32/uint64 fields are [N], int16/int32/int64 and Go
   [int] are [Z]; bit operations are N.land / N.lor / N.ldiff exactly where Go
   has & | &^.  Decoders consume the bytes with the cursor readers of Codec.v
   (see the remark there about binary.Read).
   time.Time is modelled by what the code observes of it: Unix() seconds and
   the nanosecond part; IsZero() <-> Unix() = -62135596800 and nsec = 0 (the
   zero Time is January 1, year 1, 00:00:00 UTC; this constant belongs to the
   Go runtime and is checked by the correspondence run).  Int64 arithmetic
   wraps ([wrap_i64]). *)
From Coq Require Import List NArith ZArith Bool Arith.
From Common Require Import Bytes Outcome.
From Gen Require Import C12.
From C12 Require Import Codec Model.
Import ListNotations.

Local Open Scope Z_scope.

Definition bit (b : bool) (mask : N) : N := if b then mask else 0%N.
Definition has (x mask : N) : bool := negb (N.land x mask =? 0)%N.

(* ================================================================== *)
(* head/time.go                                                        *)

Record gotime : Type := mkTime { t_sec : Z; t_nsec : N }.

Definition zero_unix : Z := -62135596800.
Definition time_is_zero (t : gotime) : bool := (t_sec t =? zero_unix) && (t_nsec t =? 0)%N.

(* encodeTime: if t.IsZero() { return 0 }; return t.Unix() - zeroTime *)
Definition M_encodeTime (t : gotime) : Z :=
  if time_is_zero t then 0 else wrap_i64 (t_sec t - head_zeroTime).

(* decodeTime: if t == 0 { return time.Time{} }; return time.Unix(zeroTime+t, 0) *)
Definition M_decodeTime (x : Z) : gotime :=
  if x =? 0 then mkTime zero_unix 0 else mkTime (wrap_i64 (head_zeroTime + x)) 0.

(* ================================================================== *)
(* head/head.go                                                        *)

Record head_info : Type := mkHead {
  hd_revision : N;
  hd_ybase0 : bool;
  hd_xbase0 : bool;
  hd_nonlinear : bool;
  hd_upem : N;
  hd_created : gotime;
  hd_modified : gotime;
  hd_bbox : rect;
  hd_bold : bool;
  hd_italic : bool;
  hd_shadow : bool;
  hd_condensed : bool;
  hd_extended : bool;
  hd_lowestppem : N;
  hd_locafmt : Z
}.

Definition head_flags (i : head_info) : N :=
  N.lor (bit (hd_ybase0 i) 1)
  (N.lor (bit (hd_xbase0 i) 2)
  (N.lor (bit (hd_nonlinear i) 4)
  (N.lor (bit (hd_nonlinear i) 16)
  (N.lor 8 (N.lor 2048 (N.lor 4096 8192))))))%N.

Definition head_macstyle (i : head_info) : N :=
  N.lor (bit (hd_bold i) 1)
  (N.lor (bit (hd_italic i) 2)
  (N.lor (bit (hd_shadow i) 16)
  (N.lor (bit (hd_condensed i) 32) (bit (hd_extended i) 64))))%N.

Definition head_magic : N := 1594834165%N.   (* 0x5F0F3CF5 *)

Definition M_head_encode (i : head_info) : list N :=
  put32 65536 ++                       (* Version *)
  put32 (hd_revision i) ++
  put32 0 ++                           (* CheckSumAdjustment *)
  put32 head_magic ++
  put16 (head_flags i) ++
  put16 (hd_upem i) ++
  puti64 (M_encodeTime (hd_created i)) ++
  puti64 (M_encodeTime (hd_modified i)) ++
  puti16 (llx (hd_bbox i)) ++ puti16 (lly (hd_bbox i)) ++
  puti16 (urx (hd_bbox i)) ++ puti16 (ury (hd_bbox i)) ++
  put16 (head_macstyle i) ++
  put16 (hd_lowestppem i) ++
  puti16 2 ++                          (* FontDirectionHint *)
  puti16 (hd_locafmt i) ++
  puti16 0.                            (* GlyphDataFormat *)

Definition M_head_decode (b : list N) : outcome head_info :=
  '(version, b) <-? get32 b ;;
  '(revision, b) <-? get32 b ;;
  '(_, b) <-? get32 b ;;
  '(magic, b) <-? get32 b ;;
  '(flags, b) <-? get16 b ;;
  '(upem, b) <-? get16 b ;;
  '(created, b) <-? geti64 b ;;
  '(modified, b) <-? geti64 b ;;
  '(xmin, b) <-? geti16 b ;;
  '(ymin, b) <-? geti16 b ;;
  '(xmax, b) <-? geti16 b ;;
  '(ymax, b) <-? geti16 b ;;
  '(macstyle, b) <-? get16 b ;;
  '(ppem, b) <-? get16 b ;;
  '(_, b) <-? geti16 b ;;
  '(locafmt, b) <-? geti16 b ;;
  '(_, _) <-? geti16 b ;;
  if negb (version =? 65536)%N then Err
  else if negb (magic =? head_magic)%N then Err
  else
    Ok (mkHead revision
               (has flags 1) (has flags 2) (has flags 4 || has flags 16)
               upem (M_decodeTime created) (M_decodeTime modified)
               (mkRect xmin ymin xmax ymax)
               (has macstyle 1) (has macstyle 2) (has macstyle 16)
               (has macstyle 32) (has macstyle 64)
               ppem locafmt).

(* ================================================================== *)
(* maxp/maxp.go                                                        *)

Record maxp_info : Type := mkMaxp {
  mx_numglyphs : Z;                (* Go int *)
  mx_ttf : option (list N)         (* the 13 uint16 fields of TTFInfo, in order *)
}.

Definition M_maxp_encode (i : maxp_info) : outcome (list N) :=
  let n := mx_numglyphs i in
  if (n <? 1) || (n >=? 65536) then Panic    (* panic("sfnt/maxp: numGlyphs out of range") *)
  else
    match mx_ttf i with
    | None => Ok (put32 20480 ++ put16 (Z.to_N n))            (* 0x00005000 *)
    | Some l => Ok (put32 65536 ++ put16 (Z.to_N n) ++ put16s l)
    end.

Definition M_maxp_decode (b : list N) : outcome maxp_info :=
  '(version, b) <-? get32 b ;;
  '(n, b) <-? get16 b ;;
  if negb (version =? 20480)%N && negb (version =? 65536)%N then Err
  else if (n =? 0)%N then Err
  else if (version =? 20480)%N then Ok (mkMaxp (Z.of_N n) None)
  else
    '(l, _) <-? get16s 13 b ;;
    Ok (mkMaxp (Z.of_N n) (Some l)).

(* ================================================================== *)
(* post/post.go, header part                                           *)

Record post_hdr : Type := mkPost {
  po_italic : Z;        (* ItalicAngle * 65536: the 16.16 value *)
  po_ulpos : Z;
  po_ulthick : Z;
  po_fixed : bool
}.

(* the first 32 bytes Encode writes; version is 0x00030000 when Names == nil,
   0x00010000 for the standard Macintosh names, 0x00020000 otherwise *)
Definition M_post_encode_header (version : N) (i : post_hdr) : list N :=
  put32 version ++
  puti32 (po_italic i) ++
  puti16 (po_ulpos i) ++ puti16 (po_ulthick i) ++
  put32 (if po_fixed i then 1 else 0) ++
  put32 0 ++ put32 0 ++ put32 0 ++ put32 0.

(* Read for the versions without a name table of their own (1.0, 3.0, 4.0);
   version 2.0 continues with the glyph name index (property C14) and is not
   decided by this model: [PostV2] *)
Inductive post_result : Type :=
| PostOk (version : N) (h : post_hdr)
| PostV2 (h : post_hdr).

Definition M_post_decode_header (b : list N) : outcome post_result :=
  '(version, b) <-? get32 b ;;
  '(italic, b) <-? geti32 b ;;
  '(ulpos, b) <-? geti16 b ;;
  '(ulthick, b) <-? geti16 b ;;
  '(fixed, b) <-? get32 b ;;
  '(_, b) <-? get32 b ;;
  '(_, b) <-? get32 b ;;
  '(_, b) <-? get32 b ;;
  '(_, _) <-? get32 b ;;
  let h := mkPost italic ulpos ulthick (negb (fixed =? 0)%N) in
  if (version =? 65536)%N || (version =? 196608)%N || (version =? 262144)%N then Ok (PostOk version h)
  else if (version =? 131072)%N then Ok (PostV2 h)
  else Err.

(* ================================================================== *)
(* os2/os2.go                                                          *)

Record os2_info : Type := mkOs2 {
  os_weight : N;
  os_width : N;
  os_bold : bool;
  os_italic : bool;
  os_regular : bool;
  os_oblique : bool;
  os_first : N;
  os_last : N;
  os_ascent : Z;
  os_descent : Z;
  os_winascent : Z;
  os_windescent : Z;
  os_linegap : Z;
  os_capheight : Z;
  os_xheight : Z;
  os_avg : Z;
  os_sub : list Z;        (* SubscriptXSize .. StrikeoutPosition, 10 values *)
  os_family : Z;
  os_panose : list N;     (* 10 bytes *)
  os_vendor : list N;     (* the bytes of the Vendor string *)
  os_ur : list N;         (* UnicodeRange: 4 uint32 *)
  os_cpr : N;             (* CodePageRange: uint64 *)
  os_perm : Z;            (* Permissions: 0 install, 1 edit, 2 view, 3 restricted *)
  os_nosub : bool;
  os_onlybm : bool
}.

Definition os2_permbits (perm : Z) (nosub onlybm : bool) : N :=
  N.lor (if perm =? 3 then 2 else if perm =? 2 then 4 else if perm =? 1 then 8 else 0)
        (N.lor (bit nosub 256) (bit onlybm 512)).

Definition os2_sel (i : os2_info) : N :=
  N.lor (if os_regular i then 64 else N.lor (bit (os_italic i) 1) (bit (os_bold i) 32))
        (N.lor (bit (os_oblique i) 512) 128).

(* vendor := "    "; if len(info.Vendor) == 4 { copy } *)
Definition os2_vendor (v : list N) : list N :=
  if (length v =? 4)%nat then v else [32; 32; 32; 32]%N.

(* UnicodeRange.Bool(57, set): word 1, bit 25 *)
Definition ur_bit57 (ur : list N) (set : bool) : list N :=
  match ur with
  | [a; b; c; d] => [a; (if set then N.lor b 33554432 else N.ldiff b 33554432); c; d]
  | _ => ur
  end.

Definition M_os2_encode (i : os2_info) : list N :=
  (* v0Data *)
  put16 4 ++
  puti16 (os_avg i) ++
  put16 (os_weight i) ++ put16 (os_width i) ++
  put16 (os2_permbits (os_perm i) (os_nosub i) (os_onlybm i)) ++
  puti16s (os_sub i) ++
  puti16 (os_family i) ++
  os_panose i ++
  flat_map put32 (ur_bit57 (os_ur i) (os_last i =? 65535)%N) ++
  os2_vendor (os_vendor i) ++
  put16 (os2_sel i) ++
  put16 (os_first i) ++ put16 (os_last i) ++
  (* v0MsData *)
  puti16 (os_ascent i) ++ puti16 (os_descent i) ++ puti16 (os_linegap i) ++
  puti16 (os_winascent i) ++ puti16 (os_windescent i) ++
  (* codePageRange: low word first *)
  put32 (os_cpr i) ++ put32 (os_cpr i / 4294967296) ++
  (* v2Data *)
  puti16 (os_xheight i) ++ puti16 (os_capheight i) ++
  put16 0 ++ put16 0 ++ put16 0.

Definition get32s4 (b : list N) : option (list N * list N) :=
  match get32 b with
  | Some (a, b) =>
    match get32 b with
    | Some (c, b) =>
      match get32 b with
      | Some (d, b) =>
        match get32 b with
        | Some (e, b) => Some ([a; c; d; e], b)
        | None => None
        end
      | None => None
      end
    | None => None
    end
  | None => None
  end.

Definition at_eof (b : list N) : bool := match b with [] => true | _ => false end.

Definition M_os2_decode (b : list N) : outcome os2_info :=
  '(version, b) <-? get16 b ;;
  '(avg, b) <-? geti16 b ;;
  '(weight, b) <-? get16 b ;;
  '(width, b) <-? get16 b ;;
  '(type, b) <-? get16 b ;;
  '(sub, b) <-? geti16s 10 b ;;
  '(family, b) <-? geti16 b ;;
  '(panose, b) <-? getn 10 b ;;
  '(ur, b) <-? get32s4 b ;;
  '(vendor, b) <-? getn 4 b ;;
  '(sel0, b) <-? get16 b ;;
  '(first, b) <-? get16 b ;;
  '(last, b) <-? get16 b ;;
  if (5 <? version)%N then Err
  else
    let permbits := if (version <? 3)%N then N.land type 15 else type in
    let perm := if has permbits 8 then 1
                else if has permbits 4 then 2
                else if has permbits 2 then 3 else 0 in
    let sel := if (version <=? 3)%N then N.land sel0 127 else sel0 in
    let mk asc desc gap wasc wdesc cap xh cpr :=
      mkOs2 weight width
            ((N.land sel 96 =? 32)%N) ((N.land sel 65 =? 1)%N) (has sel 64) (has sel 512)
            first last asc desc wasc wdesc gap cap xh avg sub family panose vendor
            (ur_bit57 ur (last =? 65535)%N) cpr perm (has permbits 256) (has permbits 512) in
    if at_eof b then Ok (mk 0 0 0 0 0 0 0 0%N)   (* io.EOF: table ends after v0Data *)
    else
      '(asc, b) <-? geti16 b ;;
      '(desc, b) <-? geti16 b ;;
      '(gap, b) <-? geti16 b ;;
      '(wasc, b) <-? geti16 b ;;
      '(wdesc, b) <-? geti16 b ;;
      if (version <? 2)%N then Ok (mk asc desc gap wasc wdesc 0 0 0%N)
      else
        '(cplo, b) <-? get32 b ;;
        '(cphi, b) <-? get32 b ;;
        '(xh, b) <-? geti16 b ;;
        '(cap, b) <-? geti16 b ;;
        '(_, b) <-? get16 b ;;
        '(_, b) <-? get16 b ;;
        '(_, _) <-? get16 b ;;
        Ok (mk asc desc gap wasc wdesc
               (if 0 <? cap then cap else 0) (if 0 <? xh then xh else 0)
               (cphi * 4294967296 + cplo)%N).
