(* C12/Examples.v — non-vacuity: concrete values meeting the hypotheses of the
   theorems of Props.v, evaluated with vm_compute; witnesses showing that the
   hypotheses cannot be dropped. *)
From Coq Require Import List NArith ZArith Bool Arith Lia.
From Common Require Import Bytes Outcome.
From Gen Require Import C12.
From C12 Require Import Codec Util Model Proofs_hmtx.
Import ListNotations.

Local Open Scope Z_scope.

(* ---------- hmtx ---------- *)
Definition ex_boxes : list rect :=
  [mkRect 0 0 0 0; mkRect 50 (-10) 480 700; mkRect (-20) 0 610 712; mkRect 0 0 0 0; mkRect 30 0 590 400; mkRect 30 0 590 400].
Definition ex_widths : list Z := [500; 520; 600; 600; 600; 600].
Definition ex_info : hinfo := mkHinfo (Some ex_widths) (Some ex_boxes) None 800 (-200) 90 0.

Example ex_hmtx_hyps :
  M_lsbs ex_info = Some (map llx ex_boxes) /\ length ex_widths = length (map llx ex_boxes) /\
  M_numLong ex_widths = 3%nat /\ forallb in_i16 ex_widths = true.
Proof. vm_compute. repeat split; reflexivity. Qed.

Example ex_hmtx_roundtrip :
  match M_hmtx_encode ex_info 1 0 with
  | Ok (hhea, Some hm) =>
      length hm = 18%nat /\
      M_hmtx_decode hhea (Some hm) =
        Ok (mkDinfo 800 (-200) 90 1 0 0 (Some ex_widths) (Some (map llx ex_boxes)))
  | _ => False
  end.
Proof. vm_compute. split; reflexivity. Qed.

Example ex_hhea_aggregates :
  match M_hmtx_encode ex_info 1 0 with
  | Ok (hhea, _) =>
      S_hhea_read hhea =
        Some (mkHhea 65536 800 (-200) 90 600 (-20) (-10) 610 1 0 0 [0;0;0;0] 0 3)
  | _ => False
  end.
Proof. vm_compute. reflexivity. Qed.

(* one long record fewer than numLong does not read back *)
Example ex_numlong_minimal :
  S_hmtx_read 2 (S_hmtx_with 2 ex_widths (map llx ex_boxes)) <> Ok (ex_widths, map llx ex_boxes) /\
  S_hmtx_read 3 (S_hmtx_with 3 ex_widths (map llx ex_boxes)) = Ok (ex_widths, map llx ex_boxes).
Proof. split; [vm_compute; discriminate|vm_compute; reflexivity]. Qed.

(* inconsistent lengths: the panics of Encode *)
Example ex_encode_panics :
  M_hmtx_encode (mkHinfo (Some [1; 2]) None (Some [0]) 0 0 0 0) 1 0 = Panic /\
  M_hmtx_encode (mkHinfo (Some [1; 2]) (Some [mkRect 0 0 1 1]) None 0 0 0 0) 1 0 = Panic /\
  M_hmtx_encode (mkHinfo None (Some [mkRect 0 0 1 1]) (Some [3; 4]) 0 0 0 0) 1 0 = Panic.
Proof. vm_compute. repeat split; reflexivity. Qed.

(* the empty (non-nil) vectors do not round trip: Decode returns nil slices;
   hence the hypothesis 1 <= length ws *)
Example hmtx_roundtrip_empty_refuted :
  match M_hmtx_encode (mkHinfo (Some []) None (Some []) 0 0 0 0) 1 0 with
  | Ok (hhea, Some hm) => d_widths_of (M_hmtx_decode hhea (Some hm)) = Some None
  | _ => False
  end.
Proof. vm_compute. reflexivity. Qed.

(* 65536 glyphs without a constant tail: uint16(numLong) wraps to 0 and the
   widths are lost; hence the hypothesis numLong <= 65535 *)
Fixpoint alternating (n : nat) (b : bool) : list Z :=
  match n with O => [] | S n' => (if b then 1 else 0) :: alternating n' (negb b) end.
Definition ex_alternating : list Z := alternating (N.to_nat 65536) false.
Example hmtx_roundtrip_65536_refuted :
  (N.of_nat (M_numLong ex_alternating) = 65536)%N /\
  match M_hmtx_encode (mkHinfo (Some ex_alternating) None (Some ex_alternating) 0 0 0 0) 1 0 with
  | Ok (hhea, Some hm) =>
      match d_widths_of (M_hmtx_decode hhea (Some hm)) with
      | Some (Some ws) => forallb (Z.eqb 0) ws = true /\ (N.of_nat (length ws) = 131072)%N
      | _ => False
      end
  | _ => False
  end.
Proof. vm_compute. repeat split; reflexivity. Qed.

(* a right side bearing that does not fit Int16 wraps (aw = 32767, xMax = -32768):
   hence the representability hypothesis of hhea_aggregates *)
Example hhea_rsb_wrap_refuted :
  M_minrsb (mkHinfo (Some [32767]) (Some [mkRect (-32768) 0 (-32768) 1]) None 0 0 0 0) = Ok (-1) /\
  S_minrsb [mkRect (-32768) 0 (-32768) 1] [32767] [-32768] = 65535.
Proof. vm_compute. split; reflexivity. Qed.

(* decoder: accepted, rejected *)
Example ex_decode_err :
  M_hmtx_decode (hhea_bytes ex_info 1 0 0 0 0 0 2) (Some [0; 1; 0; 2; 0]%N) = Err /\
  M_hmtx_decode (hhea_bytes ex_info 1 0 0 0 0 0 2) (Some [0; 1; 0; 2]%N) = Err /\
  is_ok (M_hmtx_decode (hhea_bytes ex_info 1 0 0 0 0 0 1) (Some [0; 1; 0; 2; 0; 3]%N)) = true.
Proof. vm_compute. repeat split; reflexivity. Qed.
