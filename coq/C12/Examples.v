(* C12/Examples.v — non-vacuity: concrete values meeting the hypotheses of the
   theorems of Props.v, evaluated with vm_compute; witnesses showing that the
   hypotheses cannot be dropped. *)
From Coq Require Import List NArith ZArith Bool Arith Lia.
From Common Require Import Bytes Outcome.
From Gen Require Import C12.
From C12 Require Import Codec Util Model Model2 Model3 Proofs_hmtx Proofs_tables Proofs_derived.
Import ListNotations.

Local Open Scope Z_scope.

(* ---------- hmtx ---------- *)
Definition ex_boxes : list rect :=
  [mkRect 0 0 0 0; mkRect 50 (-10) 480 700; mkRect (-20) 0 610 712; mkRect 0 0 0 0; mkRect 30 0 590 400; mkRect 30 0 590 400].
Definition ex_widths : list Z := [500; 520; 600; 600; 600; 600].
Definition ex_info : hinfo := mkHinfo (Some ex_widths) (Some ex_boxes) None 800 (-200) 90 0.

Example ex_hmtx_hyps :
  M_lsbs ex_info = Some (map llx ex_boxes) /\ length ex_widths = length (map llx ex_boxes) /\
  M_numLong ex_widths = 3%nat /\ forallb in_i16 ex_widths = true.
Proof. vm_compute. repeat split; reflexivity. Qed.

Example ex_hmtx_roundtrip :
  match M_hmtx_encode ex_info 1 0 with
  | Ok (hhea, Some hm) =>
      length hm = 18%nat /\
      M_hmtx_decode hhea (Some hm) =
        Ok (mkDinfo 800 (-200) 90 1 0 0 (Some ex_widths) (Some (map llx ex_boxes)))
  | _ => False
  end.
Proof. vm_compute. split; reflexivity. Qed.

Example ex_hhea_aggregates :
  match M_hmtx_encode ex_info 1 0 with
  | Ok (hhea, _) =>
      S_hhea_read hhea =
        Some (mkHhea 65536 800 (-200) 90 600 (-20) (-10) 610 1 0 0 [0;0;0;0] 0 3)
  | _ => False
  end.
Proof. vm_compute. reflexivity. Qed.

(* one long record fewer than numLong does not read back *)
Example ex_numlong_minimal :
  S_hmtx_read 2 (S_hmtx_with 2 ex_widths (map llx ex_boxes)) <> Ok (ex_widths, map llx ex_boxes) /\
  S_hmtx_read 3 (S_hmtx_with 3 ex_widths (map llx ex_boxes)) = Ok (ex_widths, map llx ex_boxes).
Proof. split; [vm_compute; discriminate|vm_compute; reflexivity]. Qed.

(* inconsistent lengths: the panics of Encode *)
Example ex_encode_panics :
  M_hmtx_encode (mkHinfo (Some [1; 2]) None (Some [0]) 0 0 0 0) 1 0 = Panic /\
  M_hmtx_encode (mkHinfo (Some [1; 2]) (Some [mkRect 0 0 1 1]) None 0 0 0 0) 1 0 = Panic /\
  M_hmtx_encode (mkHinfo None (Some [mkRect 0 0 1 1]) (Some [3; 4]) 0 0 0 0) 1 0 = Panic.
Proof. vm_compute. repeat split; reflexivity. Qed.

(* the empty (non-nil) vectors do not round trip: Decode returns nil slices;
   hence the hypothesis 1 <= length ws *)
Example hmtx_roundtrip_empty_refuted :
  match M_hmtx_encode (mkHinfo (Some []) None (Some []) 0 0 0 0) 1 0 with
  | Ok (hhea, Some hm) => d_widths_of (M_hmtx_decode hhea (Some hm)) = Some None
  | _ => False
  end.
Proof. vm_compute. reflexivity. Qed.

(* 65536 glyphs without a constant tail: uint16(numLong) wraps to 0 and the
   widths are lost; hence the hypothesis numLong <= 65535 *)
Fixpoint alternating (n : nat) (b : bool) : list Z :=
  match n with O => [] | S n' => (if b then 1 else 0) :: alternating n' (negb b) end.
Definition ex_alternating : list Z := alternating (N.to_nat 65536) false.
Example hmtx_roundtrip_65536_refuted :
  (N.of_nat (M_numLong ex_alternating) = 65536)%N /\
  match M_hmtx_encode (mkHinfo (Some ex_alternating) None (Some ex_alternating) 0 0 0 0) 1 0 with
  | Ok (hhea, Some hm) =>
      match d_widths_of (M_hmtx_decode hhea (Some hm)) with
      | Some (Some ws) => forallb (Z.eqb 0) ws = true /\ (N.of_nat (length ws) = 131072)%N
      | _ => False
      end
  | _ => False
  end.
Proof. vm_compute. repeat split; reflexivity. Qed.

(* a right side bearing that does not fit Int16 wraps (aw = 32767, xMax = -32768):
   hence the representability hypothesis of hhea_aggregates *)
Example hhea_rsb_wrap_refuted :
  M_minrsb (mkHinfo (Some [32767]) (Some [mkRect (-32768) 0 (-32768) 1]) None 0 0 0 0) = Ok (-1) /\
  S_minrsb [mkRect (-32768) 0 (-32768) 1] [32767] [-32768] = 65535.
Proof. vm_compute. split; reflexivity. Qed.

(* decoder: accepted, rejected *)
Example ex_decode_err :
  M_hmtx_decode (hhea_bytes ex_info 1 0 0 0 0 0 2) (Some [0; 1; 0; 2; 0]%N) = Err /\
  M_hmtx_decode (hhea_bytes ex_info 1 0 0 0 0 0 2) (Some [0; 1; 0; 2]%N) = Err /\
  is_ok (M_hmtx_decode (hhea_bytes ex_info 1 0 0 0 0 0 1) (Some [0; 1; 0; 2; 0; 3]%N)) = true.
Proof. vm_compute. repeat split; reflexivity. Qed.

(* ---------- head ---------- *)
Definition ex_head : head_info :=
  mkHead 65536 true true false 2048 (mkTime 1136239445 0) (mkTime zero_unix 0)
         (mkRect (-50) (-200) 1200 900) true false false true false 7 1.

Example ex_head_nf_dec :
  (hd_revision ex_head <? 4294967296)%N = true /\ in_i64 (t_sec (hd_created ex_head)) = true /\
  (t_sec (hd_created ex_head) =? head_zeroTime) = false /\ (t_sec (hd_modified ex_head) =? head_zeroTime) = false.
Proof. vm_compute. repeat split; reflexivity. Qed.

Example ex_head_roundtrip : M_head_decode (M_head_encode ex_head) = Ok ex_head.
Proof. vm_compute. reflexivity. Qed.

Example ex_head_rejects :
  M_head_decode (firstn 53 (M_head_encode ex_head)) = Err /\
  M_head_decode (1%N :: tl (M_head_encode ex_head)) = Err.
Proof. vm_compute. split; reflexivity. Qed.

(* ---------- maxp ---------- *)
Example ex_maxp :
  M_maxp_encode (mkMaxp 65535 None) = Ok [0; 0; 80; 0; 255; 255]%N /\
  M_maxp_decode [0; 0; 80; 0; 255; 255]%N = Ok (mkMaxp 65535 None) /\
  M_maxp_encode (mkMaxp 65536 None) = Panic /\ M_maxp_encode (mkMaxp 0 None) = Panic /\
  M_maxp_decode [0; 0; 80; 0; 0; 0]%N = Err /\
  M_maxp_decode [0; 1; 0; 0; 0; 9]%N = Err.
Proof. vm_compute. repeat split; reflexivity. Qed.

(* ---------- post ---------- *)
Example ex_post :
  M_post_decode_header (M_post_encode_header 196608 (mkPost (-786432) (-100) 50 true)) =
    Ok (PostOk 196608 (mkPost (-786432) (-100) 50 true)).
Proof. vm_compute. reflexivity. Qed.

(* ---------- OS/2 ---------- *)
Definition ex_os2 : os2_info :=
  mkOs2 700 5 true true false true 32 65535 800 (-200) 900 250 90 700 500 512
        [1; 2; 3; 4; 5; 6; 7; 8; -9; 10] 2048 [2; 0; 5; 3; 0; 0; 0; 0; 0; 1]%N [71; 79; 32; 32]%N
        [1; 33554432; 0; 0]%N 9223372041149743103%N 2 true false.

Example ex_os2_roundtrip : M_os2_decode (M_os2_encode ex_os2) = Ok ex_os2.
Proof. vm_compute. reflexivity. Qed.

(* outside the normal form: regular together with bold is not expressible *)
Example os2_regular_bold_refuted :
  let i := mkOs2 400 5 true false true false 0 0 0 0 0 0 0 0 0 0 [0;0;0;0;0;0;0;0;0;0] 0
                 [0;0;0;0;0;0;0;0;0;0]%N [32;32;32;32]%N [0;0;0;0]%N 0 0 false false in
  M_os2_decode (M_os2_encode i) <> Ok i.
Proof. vm_compute. congruence. Qed.

(* version gating: the same fsType / fsSelection bytes under version 2 and 4 *)
Example ex_os2_version_gating :
  let t4 := M_os2_encode ex_os2 in
  let t2 := 0%N :: 2%N :: skipn 2 t4 in
  match M_os2_decode t4, M_os2_decode t2 with
  | Ok a, Ok b => os_oblique a = true /\ os_oblique b = false /\ os_nosub a = true /\ os_nosub b = false
  | _, _ => False
  end.
Proof. vm_compute. repeat split; reflexivity. Qed.

(* ---------- derived fields ---------- *)
Example ex_derived :
  M_derived ex_boxes ex_widths (Cmap4 [65; 32; 8364; 97]) =
    Ok (mkDerived 6 (mkRect (-20) (-10) 610 712) 600 (-20) (-10) 610 3 570 32 8364 712 10 false).
Proof. vm_compute. reflexivity. Qed.

Example ex_derived_hyps :
  forallb (fun r => (llx r <=? urx r) && (lly r <=? ury r)) ex_boxes = true /\
  forallb in_i16 (map rsb_of (nonempty_zip ex_boxes (combine ex_widths (map llx ex_boxes)))) = true /\
  length ex_boxes = length ex_widths.
Proof. vm_compute. repeat split; reflexivity. Qed.

Example ex_fixed_pitch :
  M_fixedpitch [600; 0; 600; 600] = true /\ M_fixedpitch [600; 0; 601] = false /\
  M_fixedpitch [] = false /\ M_fixedpitch [0; 0] = true.
Proof. vm_compute. repeat split; reflexivity. Qed.

Example ex_first_last_clamped :
  M_firstlast (Some (M_coderange12 [128512; 65; 70000])) = (65, 65535) /\
  M_firstlast (Some (M_coderange12 [128512; 70000])) = (65535, 65535).
Proof. vm_compute. split; reflexivity. Qed.

(* ---------- version ---------- *)
Example ex_version_round :
  M_version_round 65537 = 65536%N /\ M_version_round 98304 = 98304%N /\
  M_version_round 4096 = 4063%N /\ version_milli_string 4096 = 62%N /\ version_milli_half_up 4096 = 63%N /\
  M_version_round 12288 = 12321%N /\ version_milli_string 12288 = 188%N.
Proof. vm_compute. repeat split; reflexivity. Qed.

(* ---------- timestamps ---------- *)
Example ex_time :
  M_decodeTime (M_encodeTime (mkTime 1136239445 999999999)) = mkTime 1136239445 0 /\
  M_decodeTime (M_encodeTime (mkTime zero_unix 0)) = mkTime zero_unix 0 /\
  M_encodeTime (mkTime zero_unix 0) = 0 /\
  M_encodeTime (mkTime head_zeroTime 0) = 0 /\
  M_decodeTime (M_encodeTime (mkTime 9223372036854775807 0)) = mkTime 9223372036854775807 0 /\
  M_decodeTime (M_encodeTime (mkTime (-9223372036854775808) 0)) = mkTime (-9223372036854775808) 0.
Proof. vm_compute. repeat split; reflexivity. Qed.

(* ---------- decoder fixed points ---------- *)
Example ex_hmtx_decode_fixpoint :
  let hhea := hhea_bytes ex_info 3 (-7) 1 2 3 4 2 in
  let hm := [1; 244; 255; 236; 2; 88; 0; 30; 0; 40; 128; 0]%N in
  match M_hmtx_decode hhea (Some hm) with
  | Ok d =>
      d_widths d = Some [500; 600; 600; 600] /\ d_lsb d = Some [-20; 30; 40; -32768] /\
      match M_hmtx_encode (mkHinfo (d_widths d) None (d_lsb d) (d_ascent d) (d_descent d) (d_linegap d) (d_caretoffset d))
                          (d_rise d) (d_run d) with
      | Ok (h2, Some m2) => M_hmtx_decode h2 (Some m2) = Ok d
      | _ => False
      end
  | _ => False
  end.
Proof. vm_compute. repeat split; reflexivity. Qed.

Example ex_os2_legacy_tables :
  (* a version-0 table that ends after the first 68 bytes, and one with the 10 further bytes *)
  let t := M_os2_encode ex_os2 in
  let t0 := 0%N :: 0%N :: firstn 66 (skipn 2 t) in
  let t1 := 0%N :: 1%N :: firstn 76 (skipn 2 t) in
  match M_os2_decode t0, M_os2_decode t1 with
  | Ok a, Ok b => os_ascent a = 0 /\ os_ascent b = 800 /\ os_cpr b = 0%N /\
                  M_os2_decode (M_os2_encode a) = Ok a /\ M_os2_decode (M_os2_encode b) = Ok b
  | _, _ => False
  end.
Proof. vm_compute. repeat split; reflexivity. Qed.
