(* C12/Proofs_hmtx.v — hmtx/hhea: round trip, minimality of numberOfHMetrics,
   hhea aggregates, totality of the decoder. *)
From Coq Require Import List NArith ZArith Bool Arith Lia.
From Coq Require Import ZifyBool ZifyNat ZifyN.
From Common Require Import Bytes Outcome.
From C12 Require Import Codec Util Model.
Import ListNotations.
Ltac Zify.zify_post_hook ::= Z.div_mod_to_equations.

Local Open Scope Z_scope.

(* ------------------------------------------------------------------ *)
(* A. numberOfHMetrics: the loop from the end = the least admissible k *)

Lemma drop_run_cons2 a b t :
  drop_run (a :: b :: t) = if a =? b then S (drop_run (b :: t)) else O.
Proof. reflexivity. Qed.

Lemma drop_run_lt r : r <> [] -> (drop_run r < length r)%nat.
Proof.
  induction r as [|a r IH]; intros H; [congruence|].
  destruct r as [|b t]; [cbn; lia|].
  rewrite drop_run_cons2. cbn [length].
  destruct (a =? b); [|lia].
  assert (Hn : b :: t <> []) by discriminate. specialize (IH Hn). cbn [length] in IH. lia.
Qed.

Lemma forallb_eqb_last x l : forallb (Z.eqb x) l = true -> l <> [] -> last l 0 = x.
Proof.
  induction l as [|y l IH]; intros H Hn; [congruence|].
  cbn [forallb] in H. apply andb_true_iff in H. destruct H as [H1 H2].
  destruct l as [|z l]; [cbn; lia|].
  change (last (y :: z :: l) 0) with (last (z :: l) 0). apply IH; [exact H2|discriminate].
Qed.

Lemma S_numLong_cons a t :
  S_numLong (a :: t) = if forallb (Z.eqb a) t then 1%nat else S (S_numLong t).
Proof. reflexivity. Qed.

Lemma S_numLong_snoc l a : l <> [] ->
  S_numLong (l ++ [a]) = if last l 0 =? a then S_numLong l else S (length l).
Proof.
  induction l as [|x l IH]; intros Hn; [congruence|].
  destruct l as [|y t].
  - cbn [app S_numLong forallb last length]. rewrite andb_true_r.
    destruct (x =? a); reflexivity.
  - assert (Hn' : y :: t <> []) by discriminate. specialize (IH Hn').
    remember (y :: t) as l' eqn:El'.
    assert (Hlast : last (x :: l') 0 = last l' 0) by (subst l'; reflexivity).
    rewrite Hlast. change ((x :: l') ++ [a]) with (x :: (l' ++ [a])).
    rewrite !S_numLong_cons. rewrite IH. rewrite forallb_app. cbn [forallb]. rewrite andb_true_r.
    destruct (forallb (Z.eqb x) l') eqn:Efa.
    + pose proof (forallb_eqb_last _ _ Efa Hn') as Hl. rewrite Hl.
      cbn [andb]. destruct (x =? a); reflexivity.
    + cbn [andb]. destruct (last l' 0 =? a); reflexivity.
Qed.

Lemma numlong_rev r : (length r - drop_run r)%nat = S_numLong (rev r).
Proof.
  induction r as [|a r IH]; [reflexivity|].
  destruct r as [|b t]; [reflexivity|].
  assert (Hn : rev (b :: t) <> []).
  { cbn [rev]. intros H. apply app_eq_nil in H. destruct H; discriminate. }
  change (rev (a :: b :: t)) with (rev (b :: t) ++ [a]).
  rewrite (S_numLong_snoc _ a Hn).
  assert (Hl : last (rev (b :: t)) 0 = b) by (cbn [rev]; apply last_last).
  rewrite Hl. rewrite drop_run_cons2. rewrite (Z.eqb_sym b a).
  assert (Hlt : (drop_run (b :: t) < length (b :: t))%nat) by (apply drop_run_lt; discriminate).
  destruct (a =? b).
  - rewrite <- IH. cbn [length] in *. lia.
  - rewrite rev_length. cbn [length]. lia.
Qed.

Lemma numlong_agree ws : M_numLong ws = S_numLong ws.
Proof.
  unfold M_numLong. rewrite rev_append_rev, app_nil_r.
  rewrite <- (rev_involutive ws) at 3. rewrite <- numlong_rev. now rewrite rev_length.
Qed.

Lemma S_numLong_le ws : (S_numLong ws <= length ws)%nat.
Proof.
  induction ws as [|a t IH]; cbn [S_numLong length]; [lia|].
  destruct (forallb (Z.eqb a) t); lia.
Qed.

Lemma S_numLong_pos ws : ws <> [] -> (1 <= S_numLong ws)%nat.
Proof. destruct ws as [|a t]; [congruence|]. intros _. cbn [S_numLong]. destruct (forallb (Z.eqb a) t); lia. Qed.

(* ------------------------------------------------------------------ *)
(* B. what a reader reconstructs from k long records                   *)

(* widths as seen through k long records: from index k on, the last long
   width (or prev when k = 0) *)
Fixpoint fill (k : nat) (prev : Z) (ws : list Z) : list Z :=
  match ws with
  | [] => []
  | w :: t => match k with
              | S k' => w :: fill k' w t
              | O => prev :: fill O prev t
              end
  end.

Lemma fill0_id_iff prev t : fill O prev t = t <-> forallb (Z.eqb prev) t = true.
Proof.
  induction t as [|x t IH]; cbn [fill forallb]; [tauto|].
  rewrite andb_true_iff, <- IH. split.
  - intros H. inversion H as [[H1 H2]]. rewrite H2. split; [lia|]. congruence.
  - intros [H1 H2]. f_equal; [lia|exact H2].
Qed.

Lemma fill_id_iff ws : forall k prev, (1 <= k)%nat ->
  (fill k prev ws = ws <-> (S_numLong ws <= k)%nat).
Proof.
  induction ws as [|w t IH]; intros k prev Hk.
  - cbn. split; [lia|reflexivity].
  - destruct k as [|k']; [lia|]. cbn [fill S_numLong].
    destruct k' as [|k''].
    + (* exactly one long record left *)
      destruct (forallb (Z.eqb w) t) eqn:Efa.
      * apply fill0_id_iff in Efa. rewrite Efa. split; [lia|reflexivity].
      * split.
        -- intros H. injection H as H'. apply fill0_id_iff in H'. congruence.
        -- intros H. destruct t as [|y t']; [discriminate|].
           pose proof (S_numLong_pos (y :: t') ltac:(discriminate)). lia.
    + specialize (IH (S k'') w ltac:(lia)).
      destruct (forallb (Z.eqb w) t) eqn:Efa.
      * split; [lia|intros _]. f_equal. apply IH.
        destruct t as [|y t']; [cbn; lia|].
        cbn [S_numLong]. cbn [forallb] in Efa. apply andb_true_iff in Efa. destruct Efa as [E1 E2].
        assert (Hy : forallb (Z.eqb y) t' = true).
        { assert (w = y) by lia. subst. exact E2. }
        rewrite Hy. lia.
      * split.
        -- intros H. injection H as H'. apply IH in H'. lia.
        -- intros H. f_equal. apply IH. lia.
Qed.

Lemma i16_of_puti16 z : I16 z ->
  i16_of ((of_i16 z / 256) mod 256)%N (of_i16 z mod 256)%N = z.
Proof.
  intros H. unfold i16_of.
  replace ((of_i16 z / 256) mod 256 * 256 + of_i16 z mod 256)%N with (of_i16 z).
  - rewrite to_i16_of_i16_wrap. now apply wrap_i16_id.
  - pose proof (of_i16_bound z). lia.
Qed.

Lemma puti16_cons z : puti16 z = [ ((of_i16 z / 256) mod 256)%N ; (of_i16 z mod 256)%N ].
Proof. reflexivity. Qed.

Lemma dec_short_enc prev : forall ws ls,
  length ws = length ls -> Forall I16 ls ->
  dec_short prev (hmtx_bytes O ws ls) = Ok (fill O prev ws, ls).
Proof.
  induction ws as [|w t IH]; intros ls Hlen Hls.
  - destruct ls; [reflexivity|discriminate].
  - destruct ls as [|l ls']; [discriminate|]. inversion Hls as [|? ? Hl Hls']; subst.
    cbn [hmtx_bytes]. rewrite puti16_cons. cbn [app dec_short].
    rewrite IH by (cbn [length] in Hlen; try lia; assumption).
    cbn [fill]. now rewrite i16_of_puti16.
Qed.

Lemma dec_long_enc ws : forall k prev ls,
  length ws = length ls -> (k <= length ws)%nat -> Forall I16 ws -> Forall I16 ls ->
  dec_long k prev (hmtx_bytes k ws ls) = Ok (fill k prev ws, ls).
Proof.
  induction ws as [|w t IH]; intros k prev ls Hlen Hk Hws Hls.
  - destruct ls; [|discriminate]. cbn [length] in Hk. assert (k = O) by lia. subst. reflexivity.
  - destruct ls as [|l ls']; [discriminate|].
    inversion Hws as [|? ? Hw Hws']; subst. inversion Hls as [|? ? Hl Hls']; subst.
    destruct k as [|k'].
    + cbn [dec_long]. apply dec_short_enc; [exact Hlen|constructor; assumption].
    + cbn [hmtx_bytes]. rewrite !puti16_cons. cbn [app dec_long].
      rewrite i16_of_puti16 by exact Hw.
      rewrite IH; try assumption; cbn [length] in *; try lia.
      cbn [fill]. now rewrite i16_of_puti16.
Qed.

(* ------------------------------------------------------------------ *)
(* C. the aggregate loops do not panic on consistent lengths, and equal
      the definitions                                                  *)

Lemma zip_snd_nil {A} e : @nonempty_zip A e [] = [].
Proof. destruct e; reflexivity. Qed.

(* minLeftSideBearing *)
Lemma minlsb_ext_spec : forall ls e first cur,
  (length ls <= length e)%nat ->
  minlsb_ext ls e first cur =
    Ok (let vals := map snd (nonempty_zip e ls) in
        if first then list_min cur vals else fold_left Z.min vals cur).
Proof.
  induction ls as [|l ls IH]; intros e first cur Hlen.
  - rewrite zip_snd_nil. cbn. destruct first; reflexivity.
  - destruct e as [|r e']; [cbn [length] in Hlen; lia|].
    cbn [minlsb_ext nonempty_zip]. cbn [length] in Hlen.
    destruct (rect_is_zero r).
    + apply IH. lia.
    + destruct first.
      * cbn [orb]. rewrite IH by lia. cbn [map snd list_min]. reflexivity.
      * cbn [orb]. destruct (l <? cur) eqn:E; rewrite IH by lia; cbn [map snd fold_left]; f_equal; f_equal; lia.
Qed.

Lemma minlsb_plain_spec : forall ls first cur,
  minlsb_plain ls first cur = if first then list_min cur ls else fold_left Z.min ls cur.
Proof.
  induction ls as [|l ls IH]; intros first cur.
  - destruct first; reflexivity.
  - cbn [minlsb_plain]. destruct first.
    + cbn [orb]. rewrite IH. reflexivity.
    + cbn [orb]. destruct (l <? cur) eqn:E; rewrite IH; cbn [fold_left]; f_equal; lia.
Qed.

(* minRightSideBearing *)
Lemma minrsb_loop_spec : forall e ws ls first cur,
  length e = length ws -> length e = length ls ->
  Forall I16 (map rsb_of (nonempty_zip e (combine ws ls))) ->
  minrsb_loop e ws ls first cur =
    Ok (let vals := map rsb_of (nonempty_zip e (combine ws ls)) in
        if first then list_min cur vals else fold_left Z.min vals cur).
Proof.
  induction e as [|r e IH]; intros ws ls first cur Hw Hl Hfit.
  - destruct ws; [|discriminate]. cbn. destruct first; reflexivity.
  - destruct ws as [|w ws]; [discriminate|]. destruct ls as [|l ls]; [discriminate|].
    cbn [length] in Hw, Hl. cbn [minrsb_loop combine nonempty_zip tl] in *.
    destruct (rect_is_zero r).
    + apply IH; try lia. exact Hfit.
    + cbn [map] in Hfit. inversion Hfit as [|? ? Hx Hfit']; subst.
      cbn [rsb_of] in Hx. rewrite (wrap_i16_id _ Hx).
      rewrite IH by (try lia; assumption). cbn [map rsb_of].
      destruct first.
      * cbn [orb list_min]. reflexivity.
      * cbn [orb fold_left]. f_equal.
        destruct (w - (l + urx r - llx r) <? cur) eqn:E; f_equal; lia.
Qed.

(* xMaxExtent *)
Lemma xmaxext_loop_spec : forall e ls first cur,
  length e = length ls ->
  Forall I16 (map ext_of (nonempty_zip e ls)) ->
  xmaxext_loop e ls first cur =
    Ok (let vals := map ext_of (nonempty_zip e ls) in
        if first then list_max cur vals else fold_left Z.max vals cur).
Proof.
  induction e as [|r e IH]; intros ls first cur Hl Hfit.
  - cbn. destruct first; reflexivity.
  - destruct ls as [|l ls]; [discriminate|].
    cbn [length] in Hl. cbn [xmaxext_loop nonempty_zip tl] in *.
    destruct (rect_is_zero r).
    + apply IH; try lia. exact Hfit.
    + cbn [map] in Hfit. inversion Hfit as [|? ? Hx Hfit']; subst.
      cbn [ext_of] in Hx.
      replace (l + urx r - llx r) with (l + (urx r - llx r)) by lia.
      rewrite (wrap_i16_id _ Hx).
      rewrite IH by (try lia; assumption). cbn [map ext_of].
      destruct first.
      * cbn [orb list_max]. reflexivity.
      * cbn [orb fold_left]. f_equal.
        destruct (l + (urx r - llx r) >? cur) eqn:E; f_equal; lia.
Qed.

(* advanceWidthMax *)
Lemma advmax_fold l : forall a,
  fold_left (fun m w => if w >? m then w else m) l a = fold_left Z.max l a.
Proof.
  induction l as [|x l IH]; intros a; [reflexivity|].
  cbn [fold_left]. rewrite IH. f_equal. destruct (x >? a) eqn:E; lia.
Qed.

Lemma advmax_spec ws : Forall (fun w => 0 <= w) ws -> M_advmax (Some ws) = S_advmax ws.
Proof.
  intros H. unfold M_advmax, S_advmax, list_max. rewrite advmax_fold.
  destruct ws as [|x t]; [reflexivity|]. cbn [fold_left]. inversion H; subst. f_equal. lia.
Qed.

(* list_min / list_max are the minimum / maximum *)
Lemma list_min_is_min d l : l <> [] -> is_min_of (list_min d l) l.
Proof.
  destruct l as [|x t]; [congruence|]. intros _. unfold list_min, is_min_of.
  pose proof (fold_min_spec t x) as H. cbn zeta in H. destruct H as (H1 & H2 & H3).
  split; [destruct H1 as [->|H1]; [now left|now right]|]. constructor; assumption.
Qed.

Lemma list_max_is_max d l : l <> [] -> is_max_of (list_max d l) l.
Proof.
  destruct l as [|x t]; [congruence|]. intros _. unfold list_max, is_max_of.
  pose proof (fold_max_spec t x) as H. cbn zeta in H. destruct H as (H1 & H2 & H3).
  split; [destruct H1 as [->|H1]; [now left|now right]|]. constructor; assumption.
Qed.

(* no panic on consistent lengths, whatever the values *)
Lemma minrsb_loop_ok : forall e ws ls first cur,
  length e = length ls -> exists v, minrsb_loop e ws ls first cur = Ok v.
Proof.
  induction e as [|r e IH]; intros ws ls first cur Hl.
  - cbn. eauto.
  - destruct ls as [|l ls]; [discriminate|]. cbn [length] in Hl.
    destruct ws as [|w ws]; [cbn; eauto|].
    cbn [minrsb_loop tl]. destruct (rect_is_zero r); apply IH; lia.
Qed.

Lemma xmaxext_loop_ok : forall e ls first cur,
  length e = length ls -> exists v, xmaxext_loop e ls first cur = Ok v.
Proof.
  induction e as [|r e IH]; intros ls first cur Hl.
  - cbn. eauto.
  - destruct ls as [|l ls]; [discriminate|]. cbn [length] in Hl.
    cbn [xmaxext_loop tl]. destruct (rect_is_zero r); apply IH; lia.
Qed.

(* ------------------------------------------------------------------ *)
(* D. the hhea bytes read back                                         *)

Definition hinfo_ok (i : hinfo) (rise run : Z) : Prop :=
  I16 (h_ascent i) /\ I16 (h_descent i) /\ I16 (h_linegap i) /\
  I16 (h_caretoffset i) /\ I16 rise /\ I16 run.

Lemma I16_0 : I16 0.
Proof. unfold I16; lia. Qed.

Ltac step_get :=
  first [ rewrite geti16_puti16 by (assumption || apply I16_0)
        | rewrite geti16_puti16_wrap
        | rewrite get16_put16_id by assumption
        | rewrite get16_put16_end by assumption
        | rewrite get32_put32_id by assumption ];
  cbn [oget geti16s]; cbv beta iota.
Ltac run_gets := repeat step_get.

Definition decode_tail (i : hinfo) (rise run : Z) (numhor : N) (hm : option (list N)) : outcome dinfo :=
  match hm with
  | None => Ok (mkDinfo (h_ascent i) (h_descent i) (h_linegap i) rise run (h_caretoffset i) None None)
  | Some d =>
      match dec_long (N.to_nat numhor) 0 d with
      | Ok (ws, ls) =>
          Ok (mkDinfo (h_ascent i) (h_descent i) (h_linegap i) rise run (h_caretoffset i)
                      (nil_if_empty ws) (nil_if_empty ls))
      | Err => Err | Panic => Panic | OutOfFuel => OutOfFuel
      end
  end.

Lemma hhea_decode_bytes i rise run a b c d nl hm :
  hinfo_ok i rise run -> U16 nl ->
  M_hmtx_decode (hhea_bytes i rise run a b c d nl) hm = decode_tail i rise run nl hm.
Proof.
  intros (H1 & H2 & H3 & H4 & H5 & H6) Hnl.
  unfold M_hmtx_decode, hhea_bytes.
  assert (H32 : U32 65536) by (unfold U32; lia).
  run_gets. reflexivity.
Qed.

Lemma hhea_read_bytes i rise run a b c d nl :
  hinfo_ok i rise run -> I16 a -> I16 b -> I16 c -> I16 d -> U16 nl ->
  S_hhea_read (hhea_bytes i rise run a b c d nl) =
    Some (mkHhea 65536 (h_ascent i) (h_descent i) (h_linegap i) a b c d rise run
                 (h_caretoffset i) [0; 0; 0; 0] 0 nl).
Proof.
  intros (H1 & H2 & H3 & H4 & H5 & H6) Ha Hb Hc Hd Hnl.
  unfold S_hhea_read, hhea_bytes.
  assert (H32 : U32 65536) by (unfold U32; lia).
  run_gets. reflexivity.
Qed.

Lemma hhea_bytes_length i rise run a b c d nl :
  length (hhea_bytes i rise run a b c d nl) = 36%nat.
Proof. reflexivity. Qed.

(* ------------------------------------------------------------------ *)
(* E. encoding succeeds on consistent lengths                          *)

Lemma encode_shape i rise run ws ls :
  h_widths i = Some ws -> M_lsbs i = Some ls -> length ws = length ls ->
  (forall e, h_extents i = Some e -> length e = length ws) ->
  exists a b c d,
    M_minlsb i = Ok b /\ M_minrsb i = Ok c /\ M_xmaxext i = Ok d /\ a = M_advmax (Some ws) /\
    M_hmtx_encode i rise run =
      Ok (hhea_bytes i rise run a b c d (wrap16 (N.of_nat (M_numLong ws))),
          Some (hmtx_bytes (M_numLong ws) ws ls)).
Proof.
  intros Hw Hl Hlen He.
  assert (Hb : exists b, M_minlsb i = Ok b).
  { unfold M_minlsb. rewrite Hl. destruct (h_extents i) as [e|] eqn:E; [|eauto].
    rewrite minlsb_ext_spec by (rewrite (He e eq_refl); lia). eauto. }
  assert (Hc : exists c, M_minrsb i = Ok c).
  { unfold M_minrsb. rewrite Hw. destruct (h_extents i) as [e|] eqn:E; [|eauto].
    rewrite (He e eq_refl), Nat.eqb_refl, Hl.
    apply minrsb_loop_ok. rewrite (He e eq_refl). exact Hlen. }
  assert (Hd : exists d, M_xmaxext i = Ok d).
  { unfold M_xmaxext. destruct (h_extents i) as [e|] eqn:E; [|eauto].
    rewrite Hl. apply xmaxext_loop_ok. rewrite (He e eq_refl). exact Hlen. }
  destruct Hb as [b Hb]. destruct Hc as [c Hc]. destruct Hd as [d Hd].
  exists (M_advmax (Some ws)), b, c, d. repeat split; try assumption.
  unfold M_hmtx_encode. rewrite Hb, Hc, Hd. cbn [obind]. rewrite Hw, Hl.
  rewrite Hlen, Nat.eqb_refl. cbn [negb]. reflexivity.
Qed.

(* ------------------------------------------------------------------ *)
(* F. round trip                                                       *)

Lemma hmtx_roundtrip_gen i rise run ws ls :
  h_widths i = Some ws -> M_lsbs i = Some ls ->
  length ws = length ls -> (1 <= length ws)%nat -> (N.of_nat (M_numLong ws) <= 65535)%N ->
  Forall I16 ws -> Forall I16 ls -> hinfo_ok i rise run ->
  (forall e, h_extents i = Some e -> length e = length ws) ->
  exists hhea hm,
    M_hmtx_encode i rise run = Ok (hhea, Some hm) /\
    M_hmtx_decode hhea (Some hm) =
      Ok (mkDinfo (h_ascent i) (h_descent i) (h_linegap i) rise run (h_caretoffset i)
                  (Some ws) (Some ls)).
Proof.
  intros Hw Hl Hlen Hn Hnl Hws Hls Hok He.
  destruct (encode_shape i rise run ws ls Hw Hl Hlen He) as (a & b & c & d & _ & _ & _ & _ & Henc).
  eexists. eexists. split; [exact Henc|].
  assert (Hnl16 : wrap16 (N.of_nat (M_numLong ws)) = N.of_nat (M_numLong ws)).
  { unfold wrap16. apply N.mod_small. lia. }
  rewrite hhea_decode_bytes; [|exact Hok|unfold U16; rewrite Hnl16; lia].
  unfold decode_tail. rewrite Hnl16, Nat2N.id.
  assert (Hk : (M_numLong ws <= length ws)%nat) by (rewrite numlong_agree; apply S_numLong_le).
  rewrite dec_long_enc by assumption.
  assert (Hfill : fill (M_numLong ws) 0 ws = ws).
  { apply fill_id_iff.
    - rewrite numlong_agree. apply S_numLong_pos. destruct ws; [cbn in Hn; lia|discriminate].
    - rewrite numlong_agree. lia. }
  rewrite Hfill.
  destruct ws as [|w ws']; [cbn in Hn; lia|]. destruct ls as [|l ls']; [discriminate|].
  reflexivity.
Qed.

Lemma hmtx_numlong_least_gen ws ls k :
  length ws = length ls -> Forall I16 ws -> Forall I16 ls -> (1 <= k <= length ws)%nat ->
  (S_hmtx_read k (S_hmtx_with k ws ls) = Ok (ws, ls) <-> (M_numLong ws <= k)%nat).
Proof.
  intros Hlen Hws Hls Hk. unfold S_hmtx_read, S_hmtx_with.
  rewrite dec_long_enc by (try assumption; lia).
  rewrite numlong_agree, <- (fill_id_iff ws k 0) by lia.
  split; [intros H; injection H as H; exact H|intros ->; reflexivity].
Qed.

Lemma numlong_bounds ws : ws <> [] -> (1 <= M_numLong ws <= length ws)%nat.
Proof.
  intros H. rewrite numlong_agree. split; [now apply S_numLong_pos|apply S_numLong_le].
Qed.

(* ------------------------------------------------------------------ *)
(* G. totality of the decoder                                          *)

Definition safe {A} (o : outcome A) : Prop := o <> Panic /\ o <> OutOfFuel.

Lemma safe_ok {A} (a : A) : safe (Ok a).
Proof. split; discriminate. Qed.
Lemma safe_err {A} : safe (@Err A).
Proof. split; discriminate. Qed.

Lemma dec_short_safe prev : forall n d, (length d <= n)%nat -> safe (dec_short prev d).
Proof.
  induction n as [|n IH]; intros d Hd.
  - destruct d; [apply safe_ok|cbn [length] in Hd; lia].
  - destruct d as [|a [|b r]]; [apply safe_ok|apply safe_err|].
    cbn [dec_short]. cbn [length] in Hd.
    assert (Hr : (length r <= n)%nat) by lia. specialize (IH r Hr).
    destruct (dec_short prev r) as [[ws ls]| | |]; try apply safe_ok; try apply safe_err;
      destruct IH; congruence.
Qed.

Lemma dec_long_safe : forall k prev d, safe (dec_long k prev d).
Proof.
  induction k as [|k IH]; intros prev d.
  - cbn [dec_long]. apply (dec_short_safe prev (length d)). lia.
  - cbn [dec_long]. destruct d as [|a [|b [|c [|e r]]]]; try apply safe_err.
    specialize (IH (i16_of a b) r).
    destruct (dec_long k (i16_of a b) r) as [[ws ls]| | |]; try apply safe_ok; try apply safe_err;
      destruct IH; congruence.
Qed.

Lemma oget_safe {A B} (x : option A) (f : A -> outcome B) :
  (forall a, safe (f a)) -> safe (oget x f).
Proof. intros H. destruct x; cbn [oget]; [apply H|apply safe_err]. Qed.

Lemma hmtx_decode_safe hhea hm : safe (M_hmtx_decode hhea hm).
Proof.
  unfold M_hmtx_decode.
  repeat (apply oget_safe; intros [? ?]).
  destruct (negb _); [apply safe_err|]. destruct (negb _); [apply safe_err|].
  destruct hm as [d|]; [|apply safe_ok].
  match goal with |- context [dec_long ?k ?p ?d] =>
    pose proof (dec_long_safe k p d) as Hs; destruct (dec_long k p d) as [[ws ls]| | |] end;
    try apply safe_ok; try apply safe_err; destruct Hs; congruence.
Qed.

(* ------------------------------------------------------------------ *)
(* H. aggregates                                                       *)

Lemma list_min_cases d l : list_min d l = d /\ l = [] \/ In (list_min d l) l.
Proof.
  destruct l as [|x t]; [left; split; reflexivity|right].
  apply (list_min_is_min d (x :: t)). discriminate.
Qed.

Lemma list_max_cases d l : list_max d l = d /\ l = [] \/ In (list_max d l) l.
Proof.
  destruct l as [|x t]; [left; split; reflexivity|right].
  apply (list_max_is_max d (x :: t)). discriminate.
Qed.

Lemma list_min_P (P : Z -> Prop) d l : P d -> Forall P l -> P (list_min d l).
Proof.
  intros Hd Hl. destruct (list_min_cases d l) as [[-> _]|H]; [exact Hd|].
  rewrite Forall_forall in Hl. now apply Hl.
Qed.

Lemma list_max_P (P : Z -> Prop) d l : P d -> Forall P l -> P (list_max d l).
Proof.
  intros Hd Hl. destruct (list_max_cases d l) as [[-> _]|H]; [exact Hd|].
  rewrite Forall_forall in Hl. now apply Hl.
Qed.

Lemma nonempty_zip_snd_Forall {A} (P : A -> Prop) e : forall xs,
  Forall P xs -> Forall P (map snd (nonempty_zip e xs)).
Proof.
  induction e as [|r e IH]; intros xs H; [constructor|].
  destruct xs as [|x xs]; [constructor|]. inversion H; subst.
  cbn [nonempty_zip]. destruct (rect_is_zero r); [now apply IH|].
  cbn [map snd]. constructor; [assumption|now apply IH].
Qed.

Lemma hhea_aggregates_gen i rise run hhea hm ws e ls :
  M_hmtx_encode i rise run = Ok (hhea, hm) ->
  h_widths i = Some ws -> h_extents i = Some e -> M_lsbs i = Some ls ->
  length e = length ws -> length ls = length ws ->
  hinfo_ok i rise run ->
  Forall (fun w => 0 <= w) ws -> Forall I16 ws -> Forall I16 ls ->
  Forall I16 (map rsb_of (nonempty_zip e (combine ws ls))) ->
  Forall I16 (map ext_of (nonempty_zip e ls)) ->
  (N.of_nat (M_numLong ws) <= 65535)%N ->
  S_hhea_read hhea =
    Some (mkHhea 65536 (h_ascent i) (h_descent i) (h_linegap i)
                 (S_advmax ws) (S_minlsb e ls) (S_minrsb e ws ls) (S_xmaxext e ls)
                 rise run (h_caretoffset i) [0; 0; 0; 0] 0 (N.of_nat (M_numLong ws))).
Proof.
  intros Henc Hw He Hl Hle Hll Hok Hpos Hws Hls Hrsb Hext Hnl.
  assert (Hex : forall e', h_extents i = Some e' -> length e' = length ws).
  { intros e' E. rewrite He in E. injection E as <-. exact Hle. }
  destruct (encode_shape i rise run ws ls Hw Hl (eq_sym Hll) Hex)
    as (a & b & c & d & Hb & Hc & Hd & Ha & Henc').
  rewrite Henc in Henc'. injection Henc' as -> _.
  (* the four loops equal the definitions *)
  assert (Ea : a = S_advmax ws) by (rewrite Ha; now apply advmax_spec).
  assert (Eb : b = S_minlsb e ls).
  { unfold M_minlsb in Hb. rewrite Hl, He in Hb.
    rewrite minlsb_ext_spec in Hb by lia. injection Hb as <-. reflexivity. }
  assert (Ec : c = S_minrsb e ws ls).
  { unfold M_minrsb in Hc. rewrite He, Hw, Hle, Nat.eqb_refl, Hl in Hc.
    rewrite minrsb_loop_spec in Hc by (try assumption; lia). injection Hc as <-. reflexivity. }
  assert (Ed : d = S_xmaxext e ls).
  { unfold M_xmaxext in Hd. rewrite He, Hl in Hd.
    rewrite xmaxext_loop_spec in Hd by (try assumption; lia). injection Hd as <-. reflexivity. }
  subst b c d. rewrite Ea. clear Ha Ea.
  assert (Hnl16 : wrap16 (N.of_nat (M_numLong ws)) = N.of_nat (M_numLong ws)).
  { unfold wrap16. apply N.mod_small. lia. }
  rewrite Hnl16. apply hhea_read_bytes; try assumption.
  - unfold S_advmax. apply list_max_P; [apply I16_0|exact Hws].
  - unfold S_minlsb. apply list_min_P; [apply I16_0|]. now apply nonempty_zip_snd_Forall.
  - unfold S_minrsb. apply list_min_P; [apply I16_0|exact Hrsb].
  - unfold S_xmaxext. apply list_max_P; [apply I16_0|exact Hext].
  - unfold U16. lia.
Qed.

(* when the side bearings are derived from the boxes (LSB == nil, what
   Font.Write does) the extent of a glyph is its xMax and rsb = aw - xMax *)
Lemma ext_of_llx e : map ext_of (nonempty_zip e (map llx e)) = map urx (map fst (nonempty_zip e (map llx e))).
Proof.
  induction e as [|r e IH]; [reflexivity|].
  cbn [map nonempty_zip]. destruct (rect_is_zero r); [exact IH|].
  cbn [map fst ext_of]. f_equal; [lia|exact IH].
Qed.

Lemma hhea_definitions_extrema_gen :
  forall (e : list rect) (ws ls : list Z),
    (ws <> [] -> Forall (fun w => 0 <= w) ws -> is_max_of (S_advmax ws) ws) /\
    (map snd (nonempty_zip e ls) <> [] ->
       is_min_of (S_minlsb e ls) (map snd (nonempty_zip e ls))) /\
    (map rsb_of (nonempty_zip e (combine ws ls)) <> [] ->
       is_min_of (S_minrsb e ws ls) (map rsb_of (nonempty_zip e (combine ws ls)))) /\
    (map ext_of (nonempty_zip e ls) <> [] ->
       is_max_of (S_xmaxext e ls) (map ext_of (nonempty_zip e ls))) /\
    (nonempty_zip e ls = [] -> S_minlsb e ls = 0 /\ S_xmaxext e ls = 0) /\
    (nonempty_zip e (combine ws ls) = [] -> S_minrsb e ws ls = 0) /\
    S_advmax [] = 0.
Proof.
  intros e ws ls. split; [|split; [|split; [|split; [|split; [|split]]]]].
  - intros H _. apply (list_max_is_max 0 ws H).
  - intros H. apply (list_min_is_min 0 _ H).
  - intros H. apply (list_min_is_min 0 _ H).
  - intros H. apply (list_max_is_max 0 _ H).
  - intros H. unfold S_minlsb, S_xmaxext. rewrite H. split; reflexivity.
  - intros H. unfold S_minrsb. rewrite H. reflexivity.
  - reflexivity.
Qed.

(* ------------------------------------------------------------------ *)
(* I. what Decode returns is a fixed point of Encode/Decode            *)

Lemma i16_of_range a b : U8 a -> U8 b -> I16 (i16_of a b).
Proof. unfold U8, i16_of. intros Ha Hb. apply to_i16_range. lia. Qed.

Lemma dec_short_shape prev : forall n d ws ls,
  (length d <= n)%nat -> Bytes d -> I16 prev -> dec_short prev d = Ok (ws, ls) ->
  length ws = length ls /\ Forall I16 ws /\ Forall I16 ls /\ fill O prev ws = ws.
Proof.
  induction n as [|n IH]; intros d ws ls Hn Hb Hp H.
  - destruct d; [|cbn [length] in Hn; lia]. injection H as <- <-. repeat split; constructor.
  - destruct d as [|a [|b r]]; [injection H as <- <-; repeat split; constructor|discriminate|].
    cbn [dec_short] in H.
    destruct (dec_short prev r) as [[ws' ls']| | |] eqn:E; try discriminate.
    injection H as <- <-.
    apply Bytes_cons in Hb. destruct Hb as [Ha Hb]. apply Bytes_cons in Hb. destruct Hb as [Hb Hr].
    cbn [length] in Hn. destruct (IH r ws' ls' ltac:(lia) Hr Hp E) as (L & F1 & F2 & F3).
    cbn [length fill]. rewrite F3. repeat split; try lia.
    + constructor; assumption.
    + constructor; [now apply i16_of_range|assumption].
Qed.

Lemma dec_long_shape : forall k prev d ws ls,
  Bytes d -> I16 prev -> dec_long k prev d = Ok (ws, ls) ->
  length ws = length ls /\ Forall I16 ws /\ Forall I16 ls /\ fill k prev ws = ws.
Proof.
  induction k as [|k IH]; intros prev d ws ls Hb Hp H.
  - cbn [dec_long] in H. apply (dec_short_shape prev (length d) d); auto.
  - cbn [dec_long] in H. destruct d as [|a [|b [|c [|e r]]]]; try discriminate.
    destruct (dec_long k (i16_of a b) r) as [[ws' ls']| | |] eqn:E; try discriminate.
    injection H as <- <-.
    repeat (apply Bytes_cons in Hb; let H := fresh "Hx" in destruct Hb as [H Hb]).
    assert (Hw : I16 (i16_of a b)) by now apply i16_of_range.
    destruct (IH _ r ws' ls' Hb Hw E) as (L & F1 & F2 & F3).
    cbn [length fill]. rewrite F3. repeat split; try lia.
    + constructor; assumption.
    + constructor; [now apply i16_of_range|assumption].
Qed.

Lemma numlong_of_filled k prev ws :
  fill k prev ws = ws -> (S_numLong ws <= Nat.max k 1)%nat.
Proof.
  intros H. destruct k as [|k].
  - apply fill0_id_iff in H. destruct ws as [|w t]; [cbn; lia|].
    cbn [forallb] in H. apply andb_true_iff in H. destruct H as [H1 H2].
    cbn [S_numLong]. assert (prev = w) by lia. subst. rewrite H2. lia.
  - apply fill_id_iff in H; lia.
Qed.

Lemma hmtx_decode_fixpoint_gen hhea hm d ws ls :
  Bytes hhea -> Bytes hm ->
  M_hmtx_decode hhea (Some hm) = Ok d -> d_widths d = Some ws -> d_lsb d = Some ls ->
  let i := mkHinfo (Some ws) None (Some ls) (d_ascent d) (d_descent d) (d_linegap d) (d_caretoffset d) in
  exists hhea' hm',
    M_hmtx_encode i (d_rise d) (d_run d) = Ok (hhea', Some hm') /\
    M_hmtx_decode hhea' (Some hm') = Ok d.
Proof.
  intros Hb Hm H Hw Hl. cbv zeta.
  unfold M_hmtx_decode in H.
  repeat match type of H with
         | oget ?e _ = Ok _ =>
             let E := fresh "E" in
             destruct e as [[? ?]|] eqn:E; [cbn [oget] in H; cbv beta iota in H|discriminate H]
         end.
  destruct (negb _) in H; [discriminate|]. destruct (negb _) in H; [discriminate|].
  destruct (dec_long _ 0 hm) as [[ws' ls']| | |] eqn:Ed; try discriminate.
  injection H as <-. cbn [d_widths d_lsb d_ascent d_descent d_linegap d_rise d_run d_caretoffset] in *.
  destruct (dec_long_shape _ 0 hm ws' ls' Hm I16_0 Ed) as (L & F1 & F2 & F3).
  assert (ws' = ws) by (destruct ws'; [discriminate|injection Hw as <-; reflexivity]).
  assert (ls' = ls) by (destruct ls'; [discriminate|injection Hl as <-; reflexivity]).
  subst ws' ls'.
  (* ranges of the scalars read from hhea *)
  destruct (get32_range _ _ _ Hb E) as [_ B0].
  destruct (geti16_range _ _ _ B0 E0) as [R1 B1]. destruct (geti16_range _ _ _ B1 E1) as [R2 B2].
  destruct (geti16_range _ _ _ B2 E2) as [R3 B3]. destruct (geti16_range _ _ _ B3 E3) as [_ B4].
  destruct (geti16_range _ _ _ B4 E4) as [_ B5]. destruct (geti16_range _ _ _ B5 E5) as [_ B6].
  destruct (geti16_range _ _ _ B6 E6) as [_ B7]. destruct (geti16_range _ _ _ B7 E7) as [R8 B8].
  destruct (geti16_range _ _ _ B8 E8) as [R9 B9]. destruct (geti16_range _ _ _ B9 E9) as [R10 B10].
  destruct (geti16s_range _ _ _ _ B10 E10) as [_ B11]. destruct (geti16_range _ _ _ B11 E11) as [_ B12].
  destruct (get16_range _ _ _ B12 E12) as [R13 _].
  rewrite Hw, Hl.
  match goal with |- exists _ _, M_hmtx_encode ?i ?r ?u = _ /\ _ =>
    apply (hmtx_roundtrip_gen i r u ws ls) end; try assumption; try reflexivity.
  - destruct ws; [discriminate|cbn [length]; lia].
  - pose proof (numlong_of_filled _ _ _ F3) as Hn. rewrite numlong_agree.
    unfold U16 in R13. lia.
  - unfold hinfo_ok; cbn. refine (conj _ (conj _ (conj _ (conj _ (conj _ _))))); assumption.
  - intros e He. discriminate.
Qed.
