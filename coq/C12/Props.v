(* C12/Props.v — the property theorems of C12 (metrics and header tables),
   stated against the constants the translator extracted from the Go sources
   on this run.  Nothing but statements, one-line proofs from the Proofs_*
   files and Print Assumptions. *)
From Coq Require Import List NArith ZArith Bool Arith Lia.
From Common Require Import Bytes Outcome.
From Gen Require Import C12.
From C12 Require Import Codec Util Model Model2 Model3 Proofs_hmtx Proofs_tables Proofs_derived.
Import ListNotations.

Local Open Scope Z_scope.

(* ================================================================== *)
(* hmtx / hhea                                                        *)

(* Every advance width and left side bearing survives Encode/Decode, however
   the trailing equal widths are compressed: for all width / side-bearing
   vectors of equal length >= 1 with Int16 entries (signed extremes included),
   any glyph boxes of the same length, and numberOfHMetrics representable in
   16 bits, Decode (Encode info) returns the widths, the side bearings,
   ascent, descent, line gap, caret slope and caret offset unchanged.
   [M_lsbs i] is info.LSB, or the xMin of the boxes when LSB is nil. *)
Theorem hmtx_roundtrip :
  forall (i : hinfo) (rise run : Z) (ws ls : list Z),
    h_widths i = Some ws -> M_lsbs i = Some ls ->
    length ws = length ls -> (1 <= length ws)%nat ->
    (N.of_nat (M_numLong ws) <= 65535)%N ->
    Forall I16 ws -> Forall I16 ls -> hinfo_ok i rise run ->
    (forall e, h_extents i = Some e -> length e = length ws) ->
    exists hhea hm,
      M_hmtx_encode i rise run = Ok (hhea, Some hm) /\
      M_hmtx_decode hhea (Some hm) =
        Ok (mkDinfo (h_ascent i) (h_descent i) (h_linegap i) rise run (h_caretoffset i)
                    (Some ws) (Some ls)).
Proof. exact hmtx_roundtrip_gen. Qed.
Print Assumptions hmtx_roundtrip.

(* the same for every glyph count 1..65535 *)
Theorem hmtx_roundtrip_glyph_counts :
  forall (i : hinfo) (rise run : Z) (ws ls : list Z),
    h_widths i = Some ws -> M_lsbs i = Some ls ->
    length ws = length ls -> (1 <= length ws)%nat ->
    (N.of_nat (length ws) <= 65535)%N ->
    Forall I16 ws -> Forall I16 ls -> hinfo_ok i rise run ->
    (forall e, h_extents i = Some e -> length e = length ws) ->
    exists hhea hm,
      M_hmtx_encode i rise run = Ok (hhea, Some hm) /\
      M_hmtx_decode hhea (Some hm) =
        Ok (mkDinfo (h_ascent i) (h_descent i) (h_linegap i) rise run (h_caretoffset i)
                    (Some ws) (Some ls)).
Proof.
  intros i rise run ws ls Hw Hl Hlen Hn Hc. apply hmtx_roundtrip_gen; try assumption.
  assert (ws <> []) by (destruct ws; [cbn in Hn; lia|discriminate]).
  pose proof (numlong_bounds ws H). lia.
Qed.
Print Assumptions hmtx_roundtrip_glyph_counts.

(* numberOfHMetrics written by Encode is the least k >= 1 for which a table
   with k long records reads back as the same widths: it lies in 1..n, agrees
   with the front-to-back definition S_numLong, and a table with k long
   records (1 <= k <= n) reads back exactly iff k >= numLong. *)
Theorem hmtx_numlong_least :
  forall (ws ls : list Z) (k : nat),
    length ws = length ls -> Forall I16 ws -> Forall I16 ls -> (1 <= k <= length ws)%nat ->
    (S_hmtx_read k (S_hmtx_with k ws ls) = Ok (ws, ls) <-> (M_numLong ws <= k)%nat).
Proof. exact hmtx_numlong_least_gen. Qed.
Print Assumptions hmtx_numlong_least.

Theorem hmtx_numlong_range :
  forall ws : list Z, ws <> [] ->
    (1 <= M_numLong ws <= length ws)%nat /\ M_numLong ws = S_numLong ws.
Proof. intros ws H. split; [now apply numlong_bounds|apply numlong_agree]. Qed.
Print Assumptions hmtx_numlong_range.

(* hhea aggregates: for an Info with widths, glyph boxes and side bearings of
   equal length, non-negative advance widths, and per-glyph right side
   bearings / extents that are representable as Int16, the hhea table written
   by Encode carries advanceWidthMax, minLeftSideBearing, minRightSideBearing
   and xMaxExtent equal to their OpenType definitions over the glyphs with a
   non-zero box (0 when there is none), and numberOfHMetrics. *)
Theorem hhea_aggregates :
  forall (i : hinfo) (rise run : Z) (hhea : list N) (hm : option (list N))
         (ws : list Z) (e : list rect) (ls : list Z),
    M_hmtx_encode i rise run = Ok (hhea, hm) ->
    h_widths i = Some ws -> h_extents i = Some e -> M_lsbs i = Some ls ->
    length e = length ws -> length ls = length ws ->
    hinfo_ok i rise run ->
    Forall (fun w => 0 <= w) ws -> Forall I16 ws -> Forall I16 ls ->
    Forall I16 (map rsb_of (nonempty_zip e (combine ws ls))) ->
    Forall I16 (map ext_of (nonempty_zip e ls)) ->
    (N.of_nat (M_numLong ws) <= 65535)%N ->
    S_hhea_read hhea =
      Some (mkHhea 65536 (h_ascent i) (h_descent i) (h_linegap i)
                   (S_advmax ws) (S_minlsb e ls) (S_minrsb e ws ls) (S_xmaxext e ls)
                   rise run (h_caretoffset i) [0; 0; 0; 0] 0 (N.of_nat (M_numLong ws))).
Proof. exact hhea_aggregates_gen. Qed.
Print Assumptions hhea_aggregates.

(* the definitions used above are the extrema they are named after, and the
   defaults are 0 *)
Theorem hhea_definitions_are_extrema :
  forall (e : list rect) (ws ls : list Z),
    (ws <> [] -> Forall (fun w => 0 <= w) ws -> is_max_of (S_advmax ws) ws) /\
    (map snd (nonempty_zip e ls) <> [] ->
       is_min_of (S_minlsb e ls) (map snd (nonempty_zip e ls))) /\
    (map rsb_of (nonempty_zip e (combine ws ls)) <> [] ->
       is_min_of (S_minrsb e ws ls) (map rsb_of (nonempty_zip e (combine ws ls)))) /\
    (map ext_of (nonempty_zip e ls) <> [] ->
       is_max_of (S_xmaxext e ls) (map ext_of (nonempty_zip e ls))) /\
    (nonempty_zip e ls = [] -> S_minlsb e ls = 0 /\ S_xmaxext e ls = 0) /\
    (nonempty_zip e (combine ws ls) = [] -> S_minrsb e ws ls = 0) /\
    S_advmax [] = 0.
Proof. exact hhea_definitions_extrema_gen. Qed.
Print Assumptions hhea_definitions_are_extrema.

(* whatever Decode accepts (with at least one glyph) re-encodes and decodes to
   the same Info: bytes -> Info -> bytes -> Info is stable *)
Theorem hmtx_decode_fixpoint :
  forall (hhea hm : list N) (d : dinfo) (ws ls : list Z),
    Bytes hhea -> Bytes hm ->
    M_hmtx_decode hhea (Some hm) = Ok d -> d_widths d = Some ws -> d_lsb d = Some ls ->
    let i := mkHinfo (Some ws) None (Some ls) (d_ascent d) (d_descent d) (d_linegap d) (d_caretoffset d) in
    exists hhea' hm',
      M_hmtx_encode i (d_rise d) (d_run d) = Ok (hhea', Some hm') /\
      M_hmtx_decode hhea' (Some hm') = Ok d.
Proof. exact hmtx_decode_fixpoint_gen. Qed.
Print Assumptions hmtx_decode_fixpoint.

(* Encode's hhea table has the length the Go constant hheaLength says *)
Theorem hhea_has_hheaLength :
  forall i rise run a b c d nl, length (hhea_bytes i rise run a b c d nl) = hmtx_hheaLength.
Proof. intros. apply hhea_bytes_length. Qed.
Print Assumptions hhea_has_hheaLength.

(* (C02) Decode never panics and needs no fuel, whatever the bytes *)
Theorem hmtx_decode_total :
  forall (hhea : list N) (hm : option (list N)),
    M_hmtx_decode hhea hm <> Panic /\ M_hmtx_decode hhea hm <> OutOfFuel.
Proof. exact hmtx_decode_safe. Qed.
Print Assumptions hmtx_decode_total.

(* ================================================================== *)
(* head: timestamps                                                    *)

(* Timestamps survive to the second: for every time whose Unix seconds fit
   int64 (nanoseconds arbitrary, the zero Time included) except the single
   second 1904-01-01T00:00:00Z, decodeTime (encodeTime t) is t truncated to the
   second.  zeroTime is the constant of head/time.go. *)
Theorem time_roundtrip :
  forall t : gotime,
    I64 (t_sec t) -> t_sec t <> head_zeroTime ->
    M_decodeTime (M_encodeTime t) = mkTime (t_sec t) 0.
Proof. exact time_roundtrip_sec. Qed.
Print Assumptions time_roundtrip.

(* the excluded second is lost (open finding c12-head-time-1904-epoch-reads-as-unset) *)
Theorem time_roundtrip_1904_refuted :
  exists t : gotime, I64 (t_sec t) /\ t_nsec t = 0%N /\ M_decodeTime (M_encodeTime t) <> t.
Proof. exists (mkTime head_zeroTime 0). vm_compute. repeat split; congruence. Qed.
Print Assumptions time_roundtrip_1904_refuted.

(* every stored value decodes to a time that re-encodes and decodes to itself *)
Theorem time_decode_fixpoint :
  forall x : Z, I64 x -> M_decodeTime (M_encodeTime (M_decodeTime x)) = M_decodeTime x.
Proof. intros x Hx. apply Proofs_tables.time_roundtrip. now apply time_decode_ok. Qed.
Print Assumptions time_decode_fixpoint.

(* ================================================================== *)
(* head                                                                *)

(* head.Info survives Encode/Read exactly: all 2^8 combinations of the flag
   and style booleans (any values of the bool fields), font revision,
   unitsPerEm (any uint16: the code has no range check), bounding box, lowest
   PPEM, indexToLocFormat, and both timestamps as in time_roundtrip. *)
Theorem head_roundtrip :
  forall i : head_info, head_nf i -> M_head_decode (M_head_encode i) = Ok i.
Proof. exact head_roundtrip_gen. Qed.
Print Assumptions head_roundtrip.

(* whatever Read accepts is in that normal form, hence a fixed point *)
Theorem head_decode_fixpoint :
  forall (b : list N) (i : head_info),
    Bytes b -> M_head_decode b = Ok i -> head_nf i /\ M_head_decode (M_head_encode i) = Ok i.
Proof. intros b i Hb H. pose proof (head_decode_nf b i Hb H). split; [assumption|now apply head_roundtrip_gen]. Qed.
Print Assumptions head_decode_fixpoint.

Theorem head_has_headLength : forall i, length (M_head_encode i) = head_headLength.
Proof. exact head_encode_length. Qed.
Print Assumptions head_has_headLength.

Theorem head_decode_total :
  forall b : list N, M_head_decode b <> Panic /\ M_head_decode b <> OutOfFuel.
Proof. exact head_decode_safe. Qed.
Print Assumptions head_decode_total.

(* ================================================================== *)
(* maxp                                                                *)

Theorem maxp_roundtrip :
  forall i : maxp_info, maxp_nf i -> exists b, M_maxp_encode i = Ok b /\ M_maxp_decode b = Ok i.
Proof. exact maxp_roundtrip_gen. Qed.
Print Assumptions maxp_roundtrip.

Theorem maxp_decode_fixpoint :
  forall (b : list N) (i : maxp_info),
    Bytes b -> M_maxp_decode b = Ok i ->
    maxp_nf i /\ exists b', M_maxp_encode i = Ok b' /\ M_maxp_decode b' = Ok i.
Proof. intros b i Hb H. pose proof (maxp_decode_nf b i Hb H). split; [assumption|now apply maxp_roundtrip_gen]. Qed.
Print Assumptions maxp_decode_fixpoint.

Theorem maxp_decode_total :
  forall b : list N, M_maxp_decode b <> Panic /\ M_maxp_decode b <> OutOfFuel.
Proof. exact maxp_decode_safe. Qed.
Print Assumptions maxp_decode_total.

(* ================================================================== *)
(* post header                                                         *)

(* italic angle (as the 16.16 number the table stores), underline position
   and thickness, isFixedPitch survive, for each version Encode writes and
   whatever follows the 32-byte header *)
Theorem post_header_roundtrip :
  forall (version : N) (h : post_hdr) (rest : list N),
    post_nf h -> U32 version ->
    M_post_decode_header (M_post_encode_header version h ++ rest) = post_result_of version h.
Proof. exact post_roundtrip_gen. Qed.
Print Assumptions post_header_roundtrip.

Theorem post_header_decode_total :
  forall b : list N, M_post_decode_header b <> Panic /\ M_post_decode_header b <> OutOfFuel.
Proof. exact post_decode_safe. Qed.
Print Assumptions post_header_decode_total.

(* ================================================================== *)
(* OS/2                                                                *)

(* weight / width class, the style bits (regular excludes bold and italic),
   the permission value and the two permission flags, first / last character,
   typographic and Windows ascent / descent, line gap, cap height and x-height
   (non-negative), average width, sub/superscript and strikeout metrics, family
   class, PANOSE, vendor tag, Unicode ranges (bit 57 tied to lastCharIndex =
   0xFFFF) and code page ranges survive Encode/Read exactly *)
Theorem os2_roundtrip :
  forall i : os2_info, os2_nf i -> M_os2_decode (M_os2_encode i) = Ok i.
Proof. exact os2_roundtrip_gen. Qed.
Print Assumptions os2_roundtrip.

(* whatever Read accepts, under any table version 0..5 and any of the three
   table lengths, is in the normal form, hence a fixed point *)
Theorem os2_decode_fixpoint :
  forall (b : list N) (i : os2_info),
    Bytes b -> M_os2_decode b = Ok i -> os2_nf i /\ M_os2_decode (M_os2_encode i) = Ok i.
Proof. intros b i Hb H. pose proof (os2_decode_nf b i Hb H). split; [assumption|now apply os2_roundtrip_gen]. Qed.
Print Assumptions os2_decode_fixpoint.

Theorem os2_decode_total :
  forall b : list N, M_os2_decode b <> Panic /\ M_os2_decode b <> OutOfFuel.
Proof. exact os2_decode_safe. Qed.
Print Assumptions os2_decode_total.

(* ================================================================== *)
(* derived fields of the writer (write.go, font.go)                    *)

(* FontBBox is the union of the non-empty glyph boxes: for glyph boxes with
   xMin <= xMax and yMin <= yMax, Font.FontBBox() equals the rectangle whose
   corners are the componentwise minimum / maximum over the glyphs whose box is
   not the zero rectangle, and the zero rectangle when there is none. *)
Theorem fontbbox_union :
  forall boxes : list rect,
    Forall proper boxes ->
    M_fontbbox boxes = S_fontbbox boxes /\
    (nonempty_boxes boxes = [] -> S_fontbbox boxes = zero_rect) /\
    (nonempty_boxes boxes <> [] ->
       is_min_of (llx (S_fontbbox boxes)) (map llx (nonempty_boxes boxes)) /\
       is_min_of (lly (S_fontbbox boxes)) (map lly (nonempty_boxes boxes)) /\
       is_max_of (urx (S_fontbbox boxes)) (map urx (nonempty_boxes boxes)) /\
       is_max_of (ury (S_fontbbox boxes)) (map ury (nonempty_boxes boxes))).
Proof. intros boxes H. split; [now apply fontbbox_union_gen|apply S_fontbbox_extrema]. Qed.
Print Assumptions fontbbox_union.

(* the properness hypothesis cannot be dropped (boxes with xMin > xMax can only
   come from malformed glyf data) *)
Theorem fontbbox_union_improper_refuted : exists boxes, M_fontbbox boxes <> S_fontbbox boxes.
Proof. exact fontbbox_improper_refuted. Qed.
Print Assumptions fontbbox_union_improper_refuted.

(* xAvgCharWidth: with s the sum and c the number of the positive advance
   widths, the value is 0 when c = 0 and otherwise (s + c/2) / c, which is the
   average s/c rounded to the nearest integer: |c*avg - s| <= c/2. *)
Theorem avg_width_def :
  forall ws : list Z,
    let s := list_sum (positive_widths ws) in
    let c := Z.of_nat (length (positive_widths ws)) in
    (c = 0 -> M_avgwidth ws = 0) /\
    (0 < c -> M_avgwidth ws = (s + c / 2) / c /\
              2 * s - c <= 2 * (c * M_avgwidth ws) <= 2 * s + c).
Proof. exact avg_width_gen. Qed.
Print Assumptions avg_width_def.

(* usFirstCharIndex / usLastCharIndex: the least / greatest code point of the
   cmap subtable (format 4 or 12, in whatever order the map is iterated),
   clamped to 0xFFFF *)
Theorem first_last_char_def :
  forall codes : list Z,
    codes <> [] -> Forall (fun k => 0 <= k <= 2147483647) codes ->
    M_firstlast (Some (M_coderange4 codes)) =
      (Z.min (list_min 0 codes) 65535, Z.min (list_max 0 codes) 65535) /\
    M_firstlast (Some (M_coderange12 codes)) =
      (Z.min (list_min 0 codes) 65535, Z.min (list_max 0 codes) 65535).
Proof. exact first_last_gen. Qed.
Print Assumptions first_last_char_def.

(* isFixedPitch: true iff there is at least one glyph and all non-zero advance
   widths are equal *)
Theorem fixed_pitch_def :
  forall ws : list Z, M_fixedpitch ws = true <-> ws <> [] /\ all_equal_nonzero ws.
Proof. exact fixed_pitch_gen. Qed.
Print Assumptions fixed_pitch_def.

(* all fields Font.Write derives, at once: for a font with 1..65535 glyphs,
   proper Int16 boxes, non-negative Int16 integer widths, representable right
   side bearings and a cmap with at least one code point, the written
   maxp.numGlyphs, head.FontBBox, hhea aggregates and numberOfHMetrics, OS/2
   average width, first / last character, winAscent / winDescent and
   post.isFixedPitch are the definitions. *)
Theorem writer_derived_fields :
  forall (boxes : list rect) (ws : list Z) (cm : cmap_kind),
    length boxes = length ws -> (1 <= length ws)%nat ->
    (N.of_nat (length ws) <= 65535)%N ->
    Forall proper boxes -> Forall rect_ok_i16 boxes ->
    Forall (fun w => 0 <= w) ws -> Forall I16 ws ->
    Forall I16 (map rsb_of (nonempty_zip boxes (combine ws (map llx boxes)))) ->
    cmap_ok cm ->
    M_derived boxes ws cm =
      Ok (mkDerived (Z.of_nat (length boxes)) (S_fontbbox boxes)
                    (S_advmax ws) (S_minlsb boxes (map llx boxes))
                    (S_minrsb boxes ws (map llx boxes)) (S_xmaxext boxes (map llx boxes))
                    (N.of_nat (M_numLong ws))
                    (wrap_i16 (M_avgwidth ws)) (fst (first_last_of cm)) (snd (first_last_of cm))
                    (ury (S_fontbbox boxes)) (wrap_i16 (- lly (S_fontbbox boxes)))
                    (M_fixedpitch ws)).
Proof. exact derived_gen. Qed.
Print Assumptions writer_derived_fields.

(* ================================================================== *)
(* head.Version (P2)                                                   *)

Theorem version_round_idempotent :
  forall v : N, M_version_round (M_version_round v) = M_version_round v.
Proof. exact version_round_idempotent_gen. Qed.
Print Assumptions version_round_idempotent.

(* Round removes exactly what String() does not show: the rounded value prints
   the same thousandths as v (ties to even, as fmt does), these are the
   thousandths nearest to v/65536, and the rounded value is the 16.16 number
   nearest to them (= VersionFromString of the printed text) *)
Theorem version_round_keeps_string :
  forall v : N,
    version_milli_string (M_version_round v) = version_milli_string v /\
    M_version_round v = version_of_milli (version_milli_string v) /\
    (2 * 65536 * version_milli_string v <= 2 * 1000 * v + 65536)%N /\
    (2 * 1000 * v <= 2 * 65536 * version_milli_string v + 65536)%N.
Proof. intros v. split; [apply version_round_milli|split; [reflexivity|apply version_milli_nearest]]. Qed.
Print Assumptions version_round_keeps_string.

(* with the half-up thousandth of the code before fixes/C12-version-round-ties.diff
   the printed value changed at ties (v = 4096: "0.062" became "0.063") *)
Theorem version_round_half_up_refuted :
  exists v, version_milli_half_up v <> version_milli_string v /\
            version_of_milli (version_milli_half_up v) <> version_of_milli (version_milli_string v).
Proof. exact version_round_ties_refuted. Qed.
Print Assumptions version_round_half_up_refuted.

(* ================================================================== *)
(* translator tie                                                      *)

(* The bit masks, version numbers and thresholds the models above use are the
   ones the translator found in the Go sources on this run (head.Read,
   head.Info.Encode, os2.Read, os2.Info.Encode, maxp.Read, hmtx.Decode), in
   source order.  A change of any of them in the code breaks this theorem. *)
Theorem model_constants_match_source :
  head_read_flag_masks = [1; 2; 4; 16]%N /\
  head_read_macstyle_masks = [1; 2; 16; 32; 64]%N /\
  head_read_version = [65536]%N /\ head_read_magic = [head_magic] /\
  head_encode_flag_masks = [1; 2; 4; 16; 8; 2048; 4096; 8192]%N /\
  head_encode_macstyle_masks = [1; 2; 16; 32; 64]%N /\
  os2_read_perm_masks = [8; 4; 2; 256; 512]%N /\ os2_read_perm_legacy_mask = [15]%N /\
  os2_read_sel_masks = [96; 65; 64; 512]%N /\ os2_read_sel_legacy_mask = [127]%N /\
  os2_read_bold_value = [32]%N /\ os2_read_italic_value = [1]%N /\
  os2_read_nonplane0_last = [65535]%N /\
  os2_read_max_version = [5]%N /\ os2_read_version_lt = [3; 2]%N /\ os2_read_version_le = [3]%N /\
  os2_encode_perm_masks = [2; 4; 8; 256; 512]%N /\ os2_encode_sel_masks = [64; 1; 32; 512; 128]%N /\
  maxp_read_versions = [20480; 65536]%N /\
  hmtx_decode_version = [65536]%N /\ hmtx_decode_format = [0]%N.
Proof. repeat split; reflexivity. Qed.
Print Assumptions model_constants_match_source.
