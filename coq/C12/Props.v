(* C12/Props.v — the property theorems of C12 (metrics and header tables),
   stated against the constants the translator extracted from the Go sources
   on this run.  Nothing but statements, one-line proofs from the Proofs_*
   files and Print Assumptions. *)
From Coq Require Import List NArith ZArith Bool Arith Lia.
From Common Require Import Bytes Outcome.
From Gen Require Import C12.
From C12 Require Import Codec Util Model Proofs_hmtx.
Import ListNotations.

Local Open Scope Z_scope.

(* ================================================================== *)
(* hmtx / hhea                                                        *)

(* Every advance width and left side bearing survives Encode/Decode, however
   the trailing equal widths are compressed: for all width / side-bearing
   vectors of equal length >= 1 with Int16 entries (signed extremes included),
   any glyph boxes of the same length, and numberOfHMetrics representable in
   16 bits, Decode (Encode info) returns the widths, the side bearings,
   ascent, descent, line gap, caret slope and caret offset unchanged.
   [M_lsbs i] is info.LSB, or the xMin of the boxes when LSB is nil. *)
Theorem hmtx_roundtrip :
  forall (i : hinfo) (rise run : Z) (ws ls : list Z),
    h_widths i = Some ws -> M_lsbs i = Some ls ->
    length ws = length ls -> (1 <= length ws)%nat ->
    (N.of_nat (M_numLong ws) <= 65535)%N ->
    Forall I16 ws -> Forall I16 ls -> hinfo_ok i rise run ->
    (forall e, h_extents i = Some e -> length e = length ws) ->
    exists hhea hm,
      M_hmtx_encode i rise run = Ok (hhea, Some hm) /\
      M_hmtx_decode hhea (Some hm) =
        Ok (mkDinfo (h_ascent i) (h_descent i) (h_linegap i) rise run (h_caretoffset i)
                    (Some ws) (Some ls)).
Proof. exact hmtx_roundtrip_gen. Qed.
Print Assumptions hmtx_roundtrip.

(* the same for every glyph count 1..65535 *)
Theorem hmtx_roundtrip_glyph_counts :
  forall (i : hinfo) (rise run : Z) (ws ls : list Z),
    h_widths i = Some ws -> M_lsbs i = Some ls ->
    length ws = length ls -> (1 <= length ws)%nat ->
    (N.of_nat (length ws) <= 65535)%N ->
    Forall I16 ws -> Forall I16 ls -> hinfo_ok i rise run ->
    (forall e, h_extents i = Some e -> length e = length ws) ->
    exists hhea hm,
      M_hmtx_encode i rise run = Ok (hhea, Some hm) /\
      M_hmtx_decode hhea (Some hm) =
        Ok (mkDinfo (h_ascent i) (h_descent i) (h_linegap i) rise run (h_caretoffset i)
                    (Some ws) (Some ls)).
Proof.
  intros i rise run ws ls Hw Hl Hlen Hn Hc. apply hmtx_roundtrip_gen; try assumption.
  assert (ws <> []) by (destruct ws; [cbn in Hn; lia|discriminate]).
  pose proof (numlong_bounds ws H). lia.
Qed.
Print Assumptions hmtx_roundtrip_glyph_counts.

(* numberOfHMetrics written by Encode is the least k >= 1 for which a table
   with k long records reads back as the same widths: it lies in 1..n, agrees
   with the front-to-back definition S_numLong, and a table with k long
   records (1 <= k <= n) reads back exactly iff k >= numLong. *)
Theorem hmtx_numlong_least :
  forall (ws ls : list Z) (k : nat),
    length ws = length ls -> Forall I16 ws -> Forall I16 ls -> (1 <= k <= length ws)%nat ->
    (S_hmtx_read k (S_hmtx_with k ws ls) = Ok (ws, ls) <-> (M_numLong ws <= k)%nat).
Proof. exact hmtx_numlong_least_gen. Qed.
Print Assumptions hmtx_numlong_least.

Theorem hmtx_numlong_range :
  forall ws : list Z, ws <> [] ->
    (1 <= M_numLong ws <= length ws)%nat /\ M_numLong ws = S_numLong ws.
Proof. intros ws H. split; [now apply numlong_bounds|apply numlong_agree]. Qed.
Print Assumptions hmtx_numlong_range.

(* hhea aggregates: for an Info with widths, glyph boxes and side bearings of
   equal length, non-negative advance widths, and per-glyph right side
   bearings / extents that are representable as Int16, the hhea table written
   by Encode carries advanceWidthMax, minLeftSideBearing, minRightSideBearing
   and xMaxExtent equal to their OpenType definitions over the glyphs with a
   non-zero box (0 when there is none), and numberOfHMetrics. *)
Theorem hhea_aggregates :
  forall (i : hinfo) (rise run : Z) (hhea : list N) (hm : option (list N))
         (ws : list Z) (e : list rect) (ls : list Z),
    M_hmtx_encode i rise run = Ok (hhea, hm) ->
    h_widths i = Some ws -> h_extents i = Some e -> M_lsbs i = Some ls ->
    length e = length ws -> length ls = length ws ->
    hinfo_ok i rise run ->
    Forall (fun w => 0 <= w) ws -> Forall I16 ws -> Forall I16 ls ->
    Forall I16 (map rsb_of (nonempty_zip e (combine ws ls))) ->
    Forall I16 (map ext_of (nonempty_zip e ls)) ->
    (N.of_nat (M_numLong ws) <= 65535)%N ->
    S_hhea_read hhea =
      Some (mkHhea 65536 (h_ascent i) (h_descent i) (h_linegap i)
                   (S_advmax ws) (S_minlsb e ls) (S_minrsb e ws ls) (S_xmaxext e ls)
                   rise run (h_caretoffset i) [0; 0; 0; 0] 0 (N.of_nat (M_numLong ws))).
Proof. exact hhea_aggregates_gen. Qed.
Print Assumptions hhea_aggregates.

(* the definitions used above are the extrema they are named after, and the
   defaults are 0 *)
Theorem hhea_definitions_are_extrema :
  forall (e : list rect) (ws ls : list Z),
    (ws <> [] -> Forall (fun w => 0 <= w) ws -> is_max_of (S_advmax ws) ws) /\
    (map snd (nonempty_zip e ls) <> [] ->
       is_min_of (S_minlsb e ls) (map snd (nonempty_zip e ls))) /\
    (map rsb_of (nonempty_zip e (combine ws ls)) <> [] ->
       is_min_of (S_minrsb e ws ls) (map rsb_of (nonempty_zip e (combine ws ls)))) /\
    (map ext_of (nonempty_zip e ls) <> [] ->
       is_max_of (S_xmaxext e ls) (map ext_of (nonempty_zip e ls))) /\
    (nonempty_zip e ls = [] -> S_minlsb e ls = 0 /\ S_xmaxext e ls = 0) /\
    (nonempty_zip e (combine ws ls) = [] -> S_minrsb e ws ls = 0) /\
    S_advmax [] = 0.
Proof. exact hhea_definitions_extrema_gen. Qed.
Print Assumptions hhea_definitions_are_extrema.

(* Encode's hhea table has the length the Go constant hheaLength says *)
Theorem hhea_has_hheaLength :
  forall i rise run a b c d nl, length (hhea_bytes i rise run a b c d nl) = hmtx_hheaLength.
Proof. intros. apply hhea_bytes_length. Qed.
Print Assumptions hhea_has_hheaLength.

(* (C02) Decode never panics and needs no fuel, whatever the bytes *)
Theorem hmtx_decode_total :
  forall (hhea : list N) (hm : option (list N)),
    M_hmtx_decode hhea hm <> Panic /\ M_hmtx_decode hhea hm <> OutOfFuel.
Proof. exact hmtx_decode_safe. Qed.
Print Assumptions hmtx_decode_total.
