(* C12/Model.v — executable model of hmtx/hmtx.go (Info.Encode, Decode) and
   the specification-side definitions of the hhea aggregates and of the
   numberOfHMetrics compression.  Definitions only.

   Integers of type funit.Int16 are [Z]; every place where Go wraps or
   truncates is explicit ([wrap_i16], [puti16] = byte(x>>8),byte(x)).
   nil slices are [None], non-nil slices [Some l].
   The caret angle (float64) is not modelled: Encode's fromAngle result
   (rise, run) is an input of the model, Decode's toAngle is left out and the
   raw (rise, run) are returned. *)
From Coq Require Import List NArith ZArith Bool Arith.
From Common Require Import Bytes Outcome.
From C12 Require Import Codec.
Import ListNotations.

Local Open Scope Z_scope.

(* funit.Rect16 *)
Record rect : Type := mkRect { llx : Z; lly : Z; urx : Z; ury : Z }.

(* Rect16.IsZero *)
Definition rect_is_zero (r : rect) : bool :=
  (llx r =? 0) && (lly r =? 0) && (urx r =? 0) && (ury r =? 0).

(* hmtx.Info without the float CaretAngle *)
Record hinfo : Type := mkHinfo {
  h_widths : option (list Z);
  h_extents : option (list rect);
  h_lsb : option (list Z);
  h_ascent : Z;
  h_descent : Z;
  h_linegap : Z;
  h_caretoffset : Z
}.

(* ------------------------------------------------------------------ *)
(* Encode: the aggregates, mirroring the loops of Info.Encode          *)

(* for _, w := range info.Widths { if w > max { max = w } }, max starts at 0 *)
Definition M_advmax (ws : option (list Z)) : Z :=
  match ws with
  | Some l => fold_left (fun m w => if w >? m then w else m) l 0
  | None => 0
  end.

(* lsbs := info.LSB; if lsbs == nil && info.GlyphExtents != nil { LLx of each } *)
Definition M_lsbs (i : hinfo) : option (list Z) :=
  match h_lsb i with
  | Some l => Some l
  | None => match h_extents i with
            | Some e => Some (map llx e)
            | None => None
            end
  end.

(* the minLeftSideBearing loop when GlyphExtents != nil; GlyphExtents[i] with
   i beyond its length is an index-out-of-range panic *)
Fixpoint minlsb_ext (lsbs : list Z) (e : list rect) (first : bool) (cur : Z) : outcome Z :=
  match lsbs with
  | [] => Ok cur
  | l :: ls =>
      match e with
      | [] => Panic
      | r :: e' =>
          if rect_is_zero r then minlsb_ext ls e' first cur
          else if first || (l <? cur) then minlsb_ext ls e' false l
          else minlsb_ext ls e' first cur
      end
  end.

(* the same loop when GlyphExtents == nil: no glyph is skipped *)
Fixpoint minlsb_plain (lsbs : list Z) (first : bool) (cur : Z) : Z :=
  match lsbs with
  | [] => cur
  | l :: ls => if first || (l <? cur) then minlsb_plain ls false l
               else minlsb_plain ls first cur
  end.

Definition M_minlsb (i : hinfo) : outcome Z :=
  match M_lsbs i with
  | None => Ok 0
  | Some lsbs =>
      match h_extents i with
      | Some e => minlsb_ext lsbs e true 0
      | None => Ok (minlsb_plain lsbs true 0)
      end
  end.

(* rsb := info.Widths[i] - (lsbs[i] + ext.URx - ext.LLx)   (Int16 arithmetic
   wraps; lsbs[i] beyond len(lsbs) is an index-out-of-range panic, reached only
   for a glyph with a non-zero box because of the `continue` before it) *)
Fixpoint minrsb_loop (e : list rect) (ws : list Z) (ls : list Z) (first : bool) (cur : Z)
  : outcome Z :=
  match e, ws with
  | r :: e', w :: ws' =>
      if rect_is_zero r then minrsb_loop e' ws' (tl ls) first cur
      else
        match ls with
        | [] => Panic
        | l :: ls' =>
            let rsb := wrap_i16 (w - (l + urx r - llx r)) in
            minrsb_loop e' ws' ls' false (if first || (rsb <? cur) then rsb else cur)
        end
  | _, _ => Ok cur
  end.

Definition M_minrsb (i : hinfo) : outcome Z :=
  match h_extents i, h_widths i with
  | Some e, Some ws =>
      if (length e =? length ws)%nat then
        match M_lsbs i with
        | Some ls => minrsb_loop e ws ls true 0
        | None => Ok 0     (* unreachable: GlyphExtents != nil gives lsbs != nil *)
        end
      else Panic    (* panic("len(info.GlyphExtents) != len(info.Widths)") *)
  | _, _ => Ok 0
  end.

(* extent := lsbs[i] + ext.URx - ext.LLx *)
Fixpoint xmaxext_loop (e : list rect) (ls : list Z) (first : bool) (cur : Z) : outcome Z :=
  match e with
  | [] => Ok cur
  | r :: e' =>
      if rect_is_zero r then xmaxext_loop e' (tl ls) first cur
      else
        match ls with
        | [] => Panic
        | l :: ls' =>
            let ext := wrap_i16 (l + urx r - llx r) in
            xmaxext_loop e' ls' false (if first || (ext >? cur) then ext else cur)
        end
  end.

Definition M_xmaxext (i : hinfo) : outcome Z :=
  match h_extents i with
  | Some e =>
      match M_lsbs i with
      | Some ls => xmaxext_loop e ls true 0
      | None => Ok 0
      end
  | None => Ok 0
  end.

(* numLong := numGlyphs; for numLong > 1 && w[numLong-1] == w[numLong-2] { numLong-- }
   computed on the reversed list: the number of elements dropped *)
Fixpoint drop_run (r : list Z) : nat :=
  match r with
  | a :: ((b :: _) as t) => if a =? b then S (drop_run t) else O
  | _ => O
  end.

(* rev_append ws [] = rev ws, computed in linear time *)
Definition M_numLong (ws : list Z) : nat := (length ws - drop_run (rev_append ws []))%nat.

(* binary.Write of binaryHhea *)
Definition hhea_bytes (i : hinfo) (rise run advmax minlsb minrsb xmaxext : Z) (numlong : N)
  : list N :=
  put32 65536 ++
  puti16 (h_ascent i) ++ puti16 (h_descent i) ++ puti16 (h_linegap i) ++
  puti16 advmax ++ puti16 minlsb ++ puti16 minrsb ++ puti16 xmaxext ++
  puti16 rise ++ puti16 run ++ puti16 (h_caretoffset i) ++
  puti16 0 ++ puti16 0 ++ puti16 0 ++ puti16 0 ++
  puti16 0 ++
  put16 numlong.

(* the hmtx loop: 4 bytes for the first numLong glyphs, 2 bytes afterwards *)
Fixpoint hmtx_bytes (numLong : nat) (ws ls : list Z) : list N :=
  match ws, ls with
  | w :: ws', l :: ls' =>
      match numLong with
      | S k => puti16 w ++ puti16 l ++ hmtx_bytes k ws' ls'
      | O => puti16 l ++ hmtx_bytes O ws' ls'
      end
  | _, _ => []
  end.

(* Info.Encode; rise, run = fromAngle(info.CaretAngle) *)
Definition M_hmtx_encode (i : hinfo) (rise run : Z) : outcome (list N * option (list N)) :=
  let advmax := M_advmax (h_widths i) in
  minlsb <- M_minlsb i ;;
  minrsb <- M_minrsb i ;;
  xmaxext <- M_xmaxext i ;;
  match h_widths i, M_lsbs i with
  | Some ws, Some lsbs =>
      if negb (length lsbs =? length ws)%nat then Panic   (* panic("len(lsbs) != len(info.Widths)") *)
      else
        let numLong := M_numLong ws in
        (* uint16(numLong) *)
        let nl16 := wrap16 (N.of_nat numLong) in
        Ok (hhea_bytes i rise run advmax minlsb minrsb xmaxext nl16,
            Some (hmtx_bytes numLong ws lsbs))
  | _, _ =>
      Ok (hhea_bytes i rise run advmax minlsb minrsb xmaxext 0%N, None)
  end.

(* ------------------------------------------------------------------ *)
(* Decode                                                              *)

Record dinfo : Type := mkDinfo {
  d_ascent : Z;
  d_descent : Z;
  d_linegap : Z;
  d_rise : Z;          (* raw CaretSlopeRise, before toAngle *)
  d_run : Z;
  d_caretoffset : Z;
  d_widths : option (list Z);
  d_lsb : option (list Z)
}.

Definition i16_of (a b : N) : Z := to_i16 (a * 256 + b)%N.

(* iterations with i >= numHorMetrics: width = prevWidth, then a 2-byte lsb *)
Fixpoint dec_short (prev : Z) (d : list N) : outcome (list Z * list Z) :=
  match d with
  | [] => Ok ([], [])
  | [_] => Err
  | a :: b :: r =>
      match dec_short prev r with
      | Ok (ws, ls) => Ok (prev :: ws, i16_of a b :: ls)
      | Err => Err | Panic => Panic | OutOfFuel => OutOfFuel
      end
  end.

(* iterations with i < numHorMetrics (k of them still to come); running out
   of data before k reaches 0 is the final "len(widths) < numHorMetrics" error *)
Fixpoint dec_long (k : nat) (prev : Z) (d : list N) : outcome (list Z * list Z) :=
  match k with
  | O => dec_short prev d
  | S k' =>
      match d with
      | a :: b :: c :: e :: r =>
          let w := i16_of a b in
          match dec_long k' w r with
          | Ok (ws, ls) => Ok (w :: ws, i16_of c e :: ls)
          | Err => Err | Panic => Panic | OutOfFuel => OutOfFuel
          end
      | _ => Err
      end
  end.

Definition nil_if_empty {A} (l : list A) : option (list A) :=
  match l with [] => None | _ => Some l end.

Definition M_hmtx_decode (hhea : list N) (hmtx : option (list N)) : outcome dinfo :=
  '(version, b) <-? get32 hhea ;;
  '(ascent, b) <-? geti16 b ;;
  '(descent, b) <-? geti16 b ;;
  '(linegap, b) <-? geti16 b ;;
  '(_, b) <-? geti16 b ;;          (* advanceWidthMax: ignored *)
  '(_, b) <-? geti16 b ;;          (* minLeftSideBearing *)
  '(_, b) <-? geti16 b ;;          (* minRightSideBearing *)
  '(_, b) <-? geti16 b ;;          (* xMaxExtent *)
  '(rise, b) <-? geti16 b ;;
  '(run, b) <-? geti16 b ;;
  '(caretoffset, b) <-? geti16 b ;;
  '(_, b) <-? geti16s 4 b ;;       (* reserved *)
  '(fmt, b) <-? geti16 b ;;
  '(numhor, _) <-? get16 b ;;
  if negb (version =? 65536)%N then Err
  else if negb (fmt =? 0) then Err
  else
    match hmtx with
    | None => Ok (mkDinfo ascent descent linegap rise run caretoffset None None)
    | Some d =>
        match dec_long (N.to_nat numhor) 0 d with
        | Ok (ws, ls) =>
            Ok (mkDinfo ascent descent linegap rise run caretoffset
                        (nil_if_empty ws) (nil_if_empty ls))
        | Err => Err | Panic => Panic | OutOfFuel => OutOfFuel
        end
    end.

Definition d_widths_of (o : outcome dinfo) : option (option (list Z)) :=
  match o with Ok d => Some (d_widths d) | _ => None end.

(* ------------------------------------------------------------------ *)
(* Specification side                                                  *)

(* numberOfHMetrics: the least k >= 1 such that all widths from index k-1 on
   are equal (written from the hmtx format description, front to back) *)
Fixpoint S_numLong (ws : list Z) : nat :=
  match ws with
  | [] => O
  | a :: t => if forallb (Z.eqb a) t then 1%nat else S (S_numLong t)
  end.

(* an hmtx table with k long records followed by bare side bearings *)
Definition S_hmtx_with (k : nat) (ws ls : list Z) : list N := hmtx_bytes k ws ls.

(* what a reader that knows numberOfHMetrics = k reconstructs *)
Definition S_hmtx_read (k : nat) (d : list N) : outcome (list Z * list Z) := dec_long k 0 d.

(* glyphs with a non-empty box, paired with their metrics *)
Fixpoint nonempty_zip {A} (e : list rect) (xs : list A) : list (rect * A) :=
  match e, xs with
  | r :: e', x :: xs' =>
      if rect_is_zero r then nonempty_zip e' xs' else (r, x) :: nonempty_zip e' xs'
  | _, _ => []
  end.

(* minimum / maximum of a list, with a default for the empty list *)
Definition list_min (d : Z) (l : list Z) : Z :=
  match l with [] => d | x :: t => fold_left Z.min t x end.
Definition list_max (d : Z) (l : list Z) : Z :=
  match l with [] => d | x :: t => fold_left Z.max t x end.

(* hhea definitions (OpenType hhea): over glyphs with contours,
   minLeftSideBearing = min lsb, minRightSideBearing = min (aw - (lsb + xMax - xMin)),
   xMaxExtent = max (lsb + (xMax - xMin)); advanceWidthMax = max aw over all glyphs *)
Definition S_advmax (ws : list Z) : Z := list_max 0 ws.
Definition S_minlsb (e : list rect) (ls : list Z) : Z :=
  list_min 0 (map snd (nonempty_zip e ls)).
(* right side bearing / extent of one glyph (r = box, w = advance, l = lsb) *)
Definition rsb_of (x : rect * (Z * Z)) : Z :=
  let '(r, (w, l)) := x in w - (l + urx r - llx r).
Definition ext_of (x : rect * Z) : Z := let '(r, l) := x in l + (urx r - llx r).

Definition S_minrsb (e : list rect) (ws ls : list Z) : Z :=
  list_min 0 (map rsb_of (nonempty_zip e (combine ws ls))).
Definition S_xmaxext (e : list rect) (ls : list Z) : Z :=
  list_max 0 (map ext_of (nonempty_zip e ls)).

(* an hhea reader written from the table layout (OpenType hhea): version,
   ascender, descender, lineGap, advanceWidthMax, minLeftSideBearing,
   minRightSideBearing, xMaxExtent, caretSlopeRise, caretSlopeRun, caretOffset,
   4 reserved, metricDataFormat, numberOfHMetrics *)
Record hhea_fields : Type := mkHhea {
  f_version : N; f_ascender : Z; f_descender : Z; f_linegap : Z;
  f_advmax : Z; f_minlsb : Z; f_minrsb : Z; f_xmaxext : Z;
  f_rise : Z; f_run : Z; f_caretoffset : Z; f_reserved : list Z;
  f_format : Z; f_numlong : N
}.

Notation "' p <-- e ;; k" := (match e with Some p => k | None => None end)
  (at level 61, p pattern, e at next level, right associativity).

Definition S_hhea_read (b : list N) : option hhea_fields :=
  '(version, b) <-- get32 b ;;
  '(asc, b) <-- geti16 b ;;
  '(desc, b) <-- geti16 b ;;
  '(gap, b) <-- geti16 b ;;
  '(advmax, b) <-- geti16 b ;;
  '(minlsb, b) <-- geti16 b ;;
  '(minrsb, b) <-- geti16 b ;;
  '(xmaxext, b) <-- geti16 b ;;
  '(rise, b) <-- geti16 b ;;
  '(run, b) <-- geti16 b ;;
  '(co, b) <-- geti16 b ;;
  '(res, b) <-- geti16s 4 b ;;
  '(fmt, b) <-- geti16 b ;;
  '(nl, _) <-- get16 b ;;
  Some (mkHhea version asc desc gap advmax minlsb minrsb xmaxext rise run co res fmt nl).
