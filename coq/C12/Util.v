(* C12/Util.v — lemmas about the field readers/writers of Codec.v and about
   minimum/maximum of lists. *)
From Coq Require Import List NArith ZArith Bool Arith Lia.
From Coq Require Import ZifyBool ZifyNat ZifyN.
From Common Require Import Bytes Outcome.
From C12 Require Import Codec.
Import ListNotations.
Ltac Zify.zify_post_hook ::= Z.div_mod_to_equations.

Local Open Scope Z_scope.

(* ---------- ranges ---------- *)

Definition I16 (z : Z) : Prop := -32768 <= z <= 32767.
Definition U16 (x : N) : Prop := (x < 65536)%N.
Definition U32 (x : N) : Prop := (x < 4294967296)%N.
Definition I32 (z : Z) : Prop := -2147483648 <= z <= 2147483647.
Definition I64 (z : Z) : Prop := -9223372036854775808 <= z <= 9223372036854775807.
Definition U64 (x : N) : Prop := (x < 18446744073709551616)%N.
Definition U8 (x : N) : Prop := (x < 256)%N.

Lemma in_i16_iff z : in_i16 z = true <-> I16 z.
Proof. unfold in_i16, I16. lia. Qed.

Lemma wrap_i16_id z : I16 z -> wrap_i16 z = z.
Proof. unfold wrap_i16, I16. lia. Qed.

Lemma wrap_i16_range z : I16 (wrap_i16 z).
Proof. unfold wrap_i16, I16. lia. Qed.

Lemma wrap_i64_id z : I64 z -> wrap_i64 z = z.
Proof. unfold wrap_i64, I64. lia. Qed.

Lemma wrap_i64_range z : I64 (wrap_i64 z).
Proof. unfold wrap_i64, I64. lia. Qed.

Lemma to_i16_of_i16_wrap z : to_i16 (of_i16 z) = wrap_i16 z.
Proof.
  unfold to_i16, of_i16, wrap_i16.
  destruct (N.ltb_spec (Z.to_N (z mod 65536)) 32768); lia.
Qed.

Lemma to_i16_range x : (x < 65536)%N -> I16 (to_i16 x).
Proof. unfold to_i16, I16. intros. destruct (N.ltb_spec x 32768); lia. Qed.

Lemma to_i32_range x : (x < 4294967296)%N -> I32 (to_i32 x).
Proof. unfold to_i32, I32. intros. destruct (N.ltb_spec x 2147483648); lia. Qed.

Lemma to_i32_of_i32' z : I32 z -> to_i32 (of_i32 z) = z.
Proof. unfold I32. intros. apply to_i32_of_i32. lia. Qed.

Lemma to_i64_of_i64 z : I64 z -> to_i64 (of_i64 z) = z.
Proof.
  unfold to_i64, of_i64, I64. intros H.
  destruct (N.ltb_spec (Z.to_N (z mod 18446744073709551616)) 9223372036854775808); lia.
Qed.

Lemma to_i64_of_i64_wrap z : to_i64 (of_i64 z) = wrap_i64 z.
Proof.
  unfold to_i64, of_i64, wrap_i64.
  destruct (N.ltb_spec (Z.to_N (z mod 18446744073709551616)) 9223372036854775808); lia.
Qed.

Lemma of_i64_bound z : (of_i64 z < 18446744073709551616)%N.
Proof. unfold of_i64. lia. Qed.

Lemma to_i64_range x : (x < 18446744073709551616)%N -> I64 (to_i64 x).
Proof. unfold to_i64, I64. intros. destruct (N.ltb_spec x 9223372036854775808); lia. Qed.

(* ---------- single fields ---------- *)

Lemma get8_cons x r : get8 (x :: r) = Some (x, r).
Proof. reflexivity. Qed.

Lemma get16_put16 x r : get16 (put16 x ++ r) = Some ((x mod 65536)%N, r).
Proof. unfold get16, put16, be16; cbn [app]. f_equal. f_equal. lia. Qed.

Lemma get16_put16_id x r : U16 x -> get16 (put16 x ++ r) = Some (x, r).
Proof. unfold U16; intros H. rewrite get16_put16. f_equal. f_equal. lia. Qed.

Lemma geti16_puti16_wrap z r : geti16 (puti16 z ++ r) = Some (wrap_i16 z, r).
Proof.
  unfold geti16, puti16. change (be16 (of_i16 z)) with (put16 (of_i16 z)).
  rewrite get16_put16. rewrite N.mod_small by apply of_i16_bound.
  now rewrite to_i16_of_i16_wrap.
Qed.

Lemma geti16_puti16 z r : I16 z -> geti16 (puti16 z ++ r) = Some (z, r).
Proof. intros H. rewrite geti16_puti16_wrap. now rewrite wrap_i16_id. Qed.

Lemma get32_put32 x r : get32 (put32 x ++ r) = Some ((x mod 4294967296)%N, r).
Proof. unfold get32, put32, be32; cbn [app]. f_equal. f_equal. lia. Qed.

Lemma get32_put32_id x r : U32 x -> get32 (put32 x ++ r) = Some (x, r).
Proof. unfold U32; intros H. rewrite get32_put32. f_equal. f_equal. lia. Qed.

Lemma geti32_puti32 z r : I32 z -> geti32 (puti32 z ++ r) = Some (z, r).
Proof.
  intros H. unfold geti32, puti32. change (be32 (of_i32 z)) with (put32 (of_i32 z)).
  rewrite get32_put32. rewrite N.mod_small by (unfold of_i32; lia).
  now rewrite to_i32_of_i32'.
Qed.

Lemma get64_put64 x r : U64 x -> get64 (put64 x ++ r) = Some (x, r).
Proof.
  unfold U64; intros H. unfold get64, put64. rewrite <- app_assoc.
  change (be32 (x / 4294967296)) with (put32 (x / 4294967296)).
  rewrite get32_put32. change (be32 x) with (put32 x). rewrite get32_put32.
  f_equal. f_equal. lia.
Qed.

(* the same at the very end of a table *)
Lemma get16_put16_end x : U16 x -> get16 (put16 x) = Some (x, []).
Proof. intros H. rewrite <- (app_nil_r (put16 x)). now apply get16_put16_id. Qed.
Lemma geti16_puti16_end z : I16 z -> geti16 (puti16 z) = Some (z, []).
Proof. intros H. rewrite <- (app_nil_r (puti16 z)). now apply geti16_puti16. Qed.
Lemma get32_put32_end x : U32 x -> get32 (put32 x) = Some (x, []).
Proof. intros H. rewrite <- (app_nil_r (put32 x)). now apply get32_put32_id. Qed.

Lemma geti64_puti64_wrap z r : geti64 (puti64 z ++ r) = Some (wrap_i64 z, r).
Proof.
  unfold geti64, puti64. rewrite get64_put64 by apply of_i64_bound.
  f_equal. f_equal. apply to_i64_of_i64_wrap.
Qed.

Lemma geti64_puti64 z r : I64 z -> geti64 (puti64 z ++ r) = Some (z, r).
Proof. intros H. rewrite geti64_puti64_wrap. now rewrite wrap_i64_id. Qed.

Lemma puti16_length z : length (puti16 z) = 2%nat.
Proof. reflexivity. Qed.
Lemma put16_length z : length (put16 z) = 2%nat.
Proof. reflexivity. Qed.
Lemma put32_length z : length (put32 z) = 4%nat.
Proof. reflexivity. Qed.
Lemma put64_length z : length (put64 z) = 8%nat.
Proof. reflexivity. Qed.

Lemma puti16s_length l : length (puti16s l) = (2 * length l)%nat.
Proof. induction l as [|x l IH]; cbn [puti16s flat_map length app]; [reflexivity|]. fold (puti16s l). rewrite app_length, puti16_length. lia. Qed.

(* ---------- runs of fields ---------- *)

Lemma geti16s_puti16s l r :
  Forall I16 l -> geti16s (length l) (puti16s l ++ r) = Some (l, r).
Proof.
  induction 1 as [|x l Hx Hl IH]; [reflexivity|].
  cbn [length geti16s puti16s flat_map]. fold (puti16s l).
  rewrite <- app_assoc, geti16_puti16 by exact Hx. now rewrite IH.
Qed.

Lemma get16s_put16s l r :
  Forall U16 l -> get16s (length l) (put16s l ++ r) = Some (l, r).
Proof.
  induction 1 as [|x l Hx Hl IH]; [reflexivity|].
  cbn [length get16s put16s flat_map]. fold (put16s l).
  rewrite <- app_assoc, get16_put16_id by exact Hx. now rewrite IH.
Qed.

Lemma getn_app l r : getn (length l) (l ++ r) = Some (l, r).
Proof.
  induction l as [|x l IH]; [reflexivity|].
  cbn [length getn app]. now rewrite IH.
Qed.

Lemma getn_some n b l r : getn n b = Some (l, r) -> b = l ++ r /\ length l = n.
Proof.
  revert b l r; induction n as [|n IH]; intros b l r; cbn [getn].
  - intros H; inversion H; subst. split; reflexivity.
  - destruct b as [|x b]; [discriminate|].
    destruct (getn n b) as [[l' r']|] eqn:E; [|discriminate].
    intros H; inversion H; subst. apply IH in E. destruct E as [-> <-]. split; reflexivity.
Qed.

Lemma geti16s_some n b l r : geti16s n b = Some (l, r) -> length l = n.
Proof.
  revert b l r; induction n as [|n IH]; intros b l r; cbn [geti16s].
  - intros H; inversion H; reflexivity.
  - destruct (geti16 b) as [[x b']|]; [|discriminate].
    destruct (geti16s n b') as [[l' r']|] eqn:E; [|discriminate].
    intros H; inversion H; subst. apply IH in E. cbn [length]. now rewrite E.
Qed.

(* ---------- what the readers return is in range (for well-formed bytes) ---------- *)

Definition Bytes (b : list N) : Prop := Forall U8 b.

Lemma Bytes_cons x b : Bytes (x :: b) <-> U8 x /\ Bytes b.
Proof. unfold Bytes. split; [intros H; inversion H; auto | intros [H1 H2]; constructor; auto]. Qed.

Lemma get8_range b x r : Bytes b -> get8 b = Some (x, r) -> U8 x /\ Bytes r.
Proof.
  destruct b as [|a b]; [discriminate|]. intros Hb H. inversion H; subst.
  apply Bytes_cons in Hb. exact Hb.
Qed.

Lemma get16_range b x r : Bytes b -> get16 b = Some (x, r) -> U16 x /\ Bytes r.
Proof.
  destruct b as [|a [|c b]]; try discriminate. intros Hb H. inversion H; subst.
  apply Bytes_cons in Hb. destruct Hb as [Ha Hb]. apply Bytes_cons in Hb. destruct Hb as [Hc Hb].
  unfold U16, U8 in *. split; [lia|exact Hb].
Qed.

Lemma geti16_range b x r : Bytes b -> geti16 b = Some (x, r) -> I16 x /\ Bytes r.
Proof.
  unfold geti16. destruct (get16 b) as [[y r']|] eqn:E; [|discriminate].
  intros Hb H. inversion H; subst. destruct (get16_range _ _ _ Hb E) as [Hy Hr].
  split; [now apply to_i16_range|exact Hr].
Qed.

Lemma get32_range b x r : Bytes b -> get32 b = Some (x, r) -> U32 x /\ Bytes r.
Proof.
  destruct b as [|a [|c [|d [|e b]]]]; try discriminate. intros Hb H. inversion H; subst.
  repeat (apply Bytes_cons in Hb; let H := fresh "Hx" in destruct Hb as [H Hb]).
  unfold U32, U8 in *. split; [lia|exact Hb].
Qed.

Lemma geti32_range b x r : Bytes b -> geti32 b = Some (x, r) -> I32 x /\ Bytes r.
Proof.
  unfold geti32. destruct (get32 b) as [[y r']|] eqn:E; [|discriminate].
  intros Hb H. inversion H; subst. destruct (get32_range _ _ _ Hb E) as [Hy Hr].
  split; [now apply to_i32_range|exact Hr].
Qed.

Lemma get64_range b x r : Bytes b -> get64 b = Some (x, r) -> U64 x /\ Bytes r.
Proof.
  unfold get64. destruct (get32 b) as [[hi r1]|] eqn:E1; [|discriminate].
  destruct (get32 r1) as [[lo r2]|] eqn:E2; [|discriminate].
  intros Hb H. inversion H; subst.
  destruct (get32_range _ _ _ Hb E1) as [H1 Hr1].
  destruct (get32_range _ _ _ Hr1 E2) as [H2 Hr2].
  unfold U64, U32 in *. split; [lia|exact Hr2].
Qed.

Lemma geti64_range b x r : Bytes b -> geti64 b = Some (x, r) -> I64 x /\ Bytes r.
Proof.
  unfold geti64. destruct (get64 b) as [[y r']|] eqn:E; [|discriminate].
  intros Hb H. inversion H; subst. destruct (get64_range _ _ _ Hb E) as [Hy Hr].
  split; [now apply to_i64_range|exact Hr].
Qed.

Lemma getn_range n b l r : Bytes b -> getn n b = Some (l, r) -> Bytes l /\ Bytes r.
Proof.
  intros Hb H. apply getn_some in H. destruct H as [-> _].
  unfold Bytes in *. apply Forall_app in Hb. exact Hb.
Qed.

Lemma geti16s_range n : forall b l r, Bytes b -> geti16s n b = Some (l, r) -> Forall I16 l /\ Bytes r.
Proof.
  induction n as [|n IH]; intros b l r Hb; cbn [geti16s].
  - intros H; inversion H; subst. split; [constructor|exact Hb].
  - destruct (geti16 b) as [[x b']|] eqn:E; [|discriminate].
    destruct (geti16s n b') as [[l' r']|] eqn:E'; [|discriminate].
    intros H; inversion H; subst.
    destruct (geti16_range _ _ _ Hb E) as [Hx Hb'].
    destruct (IH _ _ _ Hb' E') as [Hl Hr]. split; [constructor; assumption|exact Hr].
Qed.

(* ---------- minimum / maximum of a list ---------- *)

Definition is_min_of (m : Z) (l : list Z) : Prop := In m l /\ Forall (fun x => m <= x) l.
Definition is_max_of (m : Z) (l : list Z) : Prop := In m l /\ Forall (fun x => x <= m) l.

Lemma fold_min_spec l : forall a,
  let m := fold_left Z.min l a in
  (m = a \/ In m l) /\ m <= a /\ Forall (fun x => m <= x) l.
Proof.
  induction l as [|x l IH]; intros a; cbn [fold_left].
  - cbn. split; [now left|]. split; [lia|constructor].
  - specialize (IH (Z.min a x)). cbn zeta in IH. destruct IH as (H1 & H2 & H3).
    cbn zeta. split; [|split].
    + destruct H1 as [H1|H1]; [|right; now right].
      rewrite H1. destruct (Z.min_spec a x) as [[_ E]|[_ E]]; rewrite E; [now left|right; now left].
    + lia.
    + constructor; [lia|exact H3].
Qed.

Lemma fold_max_spec l : forall a,
  let m := fold_left Z.max l a in
  (m = a \/ In m l) /\ a <= m /\ Forall (fun x => x <= m) l.
Proof.
  induction l as [|x l IH]; intros a; cbn [fold_left].
  - cbn. split; [now left|]. split; [lia|constructor].
  - specialize (IH (Z.max a x)). cbn zeta in IH. destruct IH as (H1 & H2 & H3).
    cbn zeta. split; [|split].
    + destruct H1 as [H1|H1]; [|right; now right].
      rewrite H1. destruct (Z.max_spec a x) as [[_ E]|[_ E]]; rewrite E; [right; now left|now left].
    + lia.
    + constructor; [lia|exact H3].
Qed.
