(* C12/Model3.v — the writer-side derivations of write.go (makeHead, makeHmtx,
   makeOS2, makePost) and font.go (FontBBox, IsFixedPitch) over integer glyph
   boxes and integer advance widths, cmap CodeRange, and the integer model of
   head.Version.Round / String.  Definitions only.

   Floats: Font.Widths() returns float64; the model covers fonts whose widths
   are integers (always the case for glyf outlines, and for CFF outlines with
   integer widths), where int(w), w > 0, w == 0 and |a-b| >= 0.5 are exact.

   head.Version (uint32, 16.16): Round computes
     x := math.Round(float64(v)/65536*1000) / 1000; Version(math.Round(x*65536)).
   float64(v)/65536 and its product with 1000 are exact (at most 42 significant
   bits); x differs from m/1000 by a relative 2^-53, and m*65536/1000 =
   m*8192/125 is never within 1/250 of a half-integer, so the second Round
   returns the integer nearest to the exact quotient.  Hence the integer
   formulas below; validated against the Go code by the correspondence run. *)
From Coq Require Import List NArith ZArith Bool Arith.
From Common Require Import Bytes Outcome.
From C12 Require Import Codec Model Model2.
Import ListNotations.

Local Open Scope Z_scope.

(* ------------------------------------------------------------------ *)
(* Font.FontBBox with funit.Rect16.Extend                              *)

Definition zero_rect : rect := mkRect 0 0 0 0.

Definition rect_extend (r o : rect) : rect :=
  if rect_is_zero o then r
  else if rect_is_zero r then o
  else mkRect (if llx o <? llx r then llx o else llx r)
              (if lly o <? lly r then lly o else lly r)
              (if urx o >? urx r then urx o else urx r)
              (if ury o >? ury r then ury o else ury r).

Fixpoint fontbbox_loop (boxes : list rect) (first : bool) (bbox : rect) : rect :=
  match boxes with
  | [] => bbox
  | g :: t =>
      if rect_is_zero g then fontbbox_loop t first bbox
      else if first then fontbbox_loop t false g
      else fontbbox_loop t false (rect_extend bbox g)
  end.

Definition M_fontbbox (boxes : list rect) : rect := fontbbox_loop boxes true zero_rect.

(* specification: the union of the non-empty glyph boxes *)
Definition nonempty_boxes (boxes : list rect) : list rect :=
  filter (fun r => negb (rect_is_zero r)) boxes.

Definition S_fontbbox (boxes : list rect) : rect :=
  match nonempty_boxes boxes with
  | [] => zero_rect
  | ne => mkRect (list_min 0 (map llx ne)) (list_min 0 (map lly ne))
                 (list_max 0 (map urx ne)) (list_max 0 (map ury ne))
  end.

(* ------------------------------------------------------------------ *)
(* makeOS2: xAvgCharWidth                                              *)

Fixpoint avg_loop (ws : list Z) (sum count : Z) : Z * Z :=
  match ws with
  | [] => (sum, count)
  | w :: t => if w >? 0 then avg_loop t (sum + w) (count + 1) else avg_loop t sum count
  end.

Definition M_avgwidth (ws : list Z) : Z :=
  let '(sum, count) := avg_loop ws 0 0 in
  if count >? 0 then (sum + count / 2) / count else sum.

Definition positive_widths (ws : list Z) : list Z := filter (fun w => w >? 0) ws.
Definition list_sum (l : list Z) : Z := fold_right Z.add 0 l.

(* ------------------------------------------------------------------ *)
(* cmap CodeRange (Format4 and Format12) and first/last character      *)

(* Format4.CodeRange: low starts at 1<<31-1, high at 0 *)
Fixpoint coderange4_loop (codes : list Z) (low high : Z) : Z * Z :=
  match codes with
  | [] => (low, high)
  | k :: t => coderange4_loop t (if k <? low then k else low) (if k >? high then k else high)
  end.
Definition M_coderange4 (codes : list Z) : Z * Z :=
  match codes with [] => (0, 0) | _ => coderange4_loop codes 2147483647 0 end.

(* Format12.CodeRange: a `first` flag *)
Fixpoint coderange12_loop (codes : list Z) (first : bool) (low high : Z) : Z * Z :=
  match codes with
  | [] => (low, high)
  | k :: t => coderange12_loop t false (if first || (k <? low) then k else low)
                                     (if first || (k >? high) then k else high)
  end.
Definition M_coderange12 (codes : list Z) : Z * Z := coderange12_loop codes true 0 0.

(* firstCharIndex = uint16(low); if low > 0xFFFF { 0xFFFF }; same for high *)
Definition clamp16 (x : Z) : Z := if x >? 65535 then 65535 else x mod 65536.
Definition M_firstlast (range : option (Z * Z)) : Z * Z :=
  match range with
  | Some (low, high) => (clamp16 low, clamp16 high)
  | None => (0, 0)
  end.

(* ------------------------------------------------------------------ *)
(* Font.IsFixedPitch                                                   *)

Fixpoint fixedpitch_loop (ws : list Z) (width : Z) : bool :=
  match ws with
  | [] => true
  | w :: t =>
      if w =? 0 then fixedpitch_loop t width
      else if width =? 0 then fixedpitch_loop t w
      else if 2 * Z.abs (width - w) >=? 1 then false     (* math.Abs(width-w) >= 0.5 *)
      else fixedpitch_loop t width
  end.

Definition M_fixedpitch (ws : list Z) : bool :=
  match ws with [] => false | _ => fixedpitch_loop ws 0 end.

(* ------------------------------------------------------------------ *)
(* everything Font.Write derives, from (boxes, widths, code points)    *)

Inductive cmap_kind : Type := NoCmap | Cmap4 (codes : list Z) | Cmap12 (codes : list Z).

Record derived : Type := mkDerived {
  dv_numglyphs : Z;
  dv_fontbbox : rect;
  dv_advmax : Z; dv_minlsb : Z; dv_minrsb : Z; dv_xmaxext : Z; dv_numlong : N;
  dv_avg : Z; dv_first : Z; dv_last : Z; dv_winascent : Z; dv_windescent : Z;
  dv_fixed : bool
}.

Definition M_derived (boxes : list rect) (ws : list Z) (cm : cmap_kind) : outcome derived :=
  (* makeHmtx: Widths, GlyphExtents, LSB == nil; ascent etc. do not matter here *)
  r <- M_hmtx_encode (mkHinfo (Some ws) (Some boxes) None 0 0 0 0) 1 0 ;;
  match S_hhea_read (fst r) with
  | None => Err
  | Some h =>
      let bbox := M_fontbbox boxes in
      let range := match cm with
                   | NoCmap => None
                   | Cmap4 c => Some (M_coderange4 c)
                   | Cmap12 c => Some (M_coderange12 c)
                   end in
      let '(first, last) := M_firstlast range in
      Ok (mkDerived (Z.of_nat (length boxes)) bbox
                    (f_advmax h) (f_minlsb h) (f_minrsb h) (f_xmaxext h) (f_numlong h)
                    (wrap_i16 (M_avgwidth ws)) first last
                    (ury bbox) (wrap_i16 (- lly bbox))
                    (M_fixedpitch ws))
  end.

(* ------------------------------------------------------------------ *)
(* head.Version                                                        *)

(* the thousandths nearest to v/65536, ties to even: what String() prints
   (fmt "%.03f" rounds the exact binary value half to even) and, since
   fixes/C12-version-round-ties.diff, what Round's first step
   math.RoundToEven(v/65536*1000) computes *)
Definition version_milli (v : N) : N :=
  let q := (1000 * v / 65536)%N in
  let r := (1000 * v mod 65536)%N in
  if (r <? 32768)%N then q
  else if (32768 <? r)%N then (q + 1)%N
  else if N.even q then q else (q + 1)%N.
Definition version_milli_round (v : N) : N := version_milli v.
Definition version_milli_string (v : N) : N := version_milli v.
(* back to 16.16: math.Round(m/1000*65536); also VersionFromString on "m/1000" *)
Definition version_of_milli (m : N) : N := ((131072 * m + 1000) / 2000)%N.
Definition M_version_round (v : N) : N := version_of_milli (version_milli_round v).
(* the thousandths math.Round (half away from zero) would give: the code
   before the fix *)
Definition version_milli_half_up (v : N) : N := ((2000 * v + 65536) / 131072)%N.
