(* C12/Codec.v — cursor-style big-endian field readers/writers shared by the
   table models of C12.  Definitions only (lemmas are in Util.v).

   The Go decoders of this property read fixed-size structs with
   encoding/binary.Read (all-or-nothing: any short read is an error) or with
   io.ReadFull into a fixed buffer.  A cursor that consumes field after field
   and fails when the bytes run out returns Err on exactly the same inputs, so
   the models are written with [get*] and the outcome [Err] for "short". *)
From Coq Require Import List NArith ZArith Bool Arith.
From Common Require Import Bytes Outcome.
Import ListNotations.

Local Open Scope N_scope.

Definition get8 (b : list N) : option (N * list N) :=
  match b with x :: r => Some (x, r) | _ => None end.

Definition get16 (b : list N) : option (N * list N) :=
  match b with x :: y :: r => Some (x * 256 + y, r) | _ => None end.

Definition get32 (b : list N) : option (N * list N) :=
  match b with
  | a :: b :: c :: d :: r => Some (a * 16777216 + b * 65536 + c * 256 + d, r)
  | _ => None
  end.

Definition geti16 (b : list N) : option (Z * list N) :=
  match get16 b with Some (x, r) => Some (to_i16 x, r) | None => None end.

Definition geti32 (b : list N) : option (Z * list N) :=
  match get32 b with Some (x, r) => Some (to_i32 x, r) | None => None end.

(* 64-bit big-endian, unsigned *)
Definition get64 (b : list N) : option (N * list N) :=
  match get32 b with
  | Some (hi, r) =>
      match get32 r with
      | Some (lo, r') => Some (hi * 4294967296 + lo, r')
      | None => None
      end
  | None => None
  end.

Definition geti64 (b : list N) : option (Z * list N) :=
  match get64 b with
  | Some (x, r) =>
      Some ((if x <? 9223372036854775808 then Z.of_N x
             else (Z.of_N x - 18446744073709551616)%Z), r)
  | None => None
  end.

(* n raw bytes *)
Fixpoint getn (n : nat) (b : list N) : option (list N * list N) :=
  match n with
  | O => Some ([], b)
  | S n' =>
      match b with
      | x :: r =>
          match getn n' r with
          | Some (l, r') => Some (x :: l, r')
          | None => None
          end
      | [] => None
      end
  end.

(* n signed 16-bit values *)
Fixpoint geti16s (n : nat) (b : list N) : option (list Z * list N) :=
  match n with
  | O => Some ([], b)
  | S n' =>
      match geti16 b with
      | Some (x, r) =>
          match geti16s n' r with
          | Some (l, r') => Some (x :: l, r')
          | None => None
          end
      | None => None
      end
  end.

(* n unsigned 16-bit values *)
Fixpoint get16s (n : nat) (b : list N) : option (list N * list N) :=
  match n with
  | O => Some ([], b)
  | S n' =>
      match get16 b with
      | Some (x, r) =>
          match get16s n' r with
          | Some (l, r') => Some (x :: l, r')
          | None => None
          end
      | None => None
      end
  end.

(* writers; values are reduced modulo the field width exactly as Go's
   byte(x>>8), byte(x) and binary.Write do *)
Definition put16 (x : N) : list N := be16 x.
Definition put32 (x : N) : list N := be32 x.
Definition puti16 (z : Z) : list N := be16 (of_i16 z).
Definition puti32 (z : Z) : list N := be32 (of_i32 z).
Definition put64 (x : N) : list N := be32 (x / 4294967296) ++ be32 x.
Definition puti16s (l : list Z) : list N := flat_map puti16 l.
Definition put16s (l : list N) : list N := flat_map put16 l.

(* two's complement wrap to the signed ranges (Go's conversion / overflow) *)
Definition wrap_i16 (z : Z) : Z := ((z + 32768) mod 65536 - 32768)%Z.
Definition wrap_i64 (z : Z) : Z :=
  ((z + 9223372036854775808) mod 18446744073709551616 - 9223372036854775808)%Z.
Definition of_i64 (z : Z) : N := Z.to_N (z mod 18446744073709551616)%Z.
Definition to_i64 (x : N) : Z :=
  if x <? 9223372036854775808 then Z.of_N x else (Z.of_N x - 18446744073709551616)%Z.

Definition puti64 (z : Z) : list N := put64 (of_i64 z).

Definition in_i16 (z : Z) : bool := ((-32768 <=? z) && (z <=? 32767))%Z.
Definition in_u16 (x : N) : bool := x <? 65536.
Definition in_u32 (x : N) : bool := x <? 4294967296.
Definition in_i64 (z : Z) : bool :=
  ((-9223372036854775808 <=? z) && (z <=? 9223372036854775807))%Z.

(* option -> outcome sequencing: a missing field is the decoder's error *)
Definition oget {A B} (x : option A) (f : A -> outcome B) : outcome B :=
  match x with Some a => f a | None => Err end.

Notation "' p <-? e ;; k" := (oget e (fun p => k))
  (at level 61, p pattern, e at next level, right associativity).
