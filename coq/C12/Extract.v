From Coq Require Import Extraction ExtrOcamlBasic NArith ZArith.
From Common Require Import Conv.
From Gen Require Import C12.
From C12 Require Import Codec Model Model2 Model3.
(* Z.add .. N.modulo are listed so that the driver can convert 64-bit decimal
   numerals to and from the Coq numbers without going through OCaml's 63-bit int *)
Extraction "c12_model.ml" conv_anchor
  Z.add Z.mul Z.opp Z.div Z.modulo Z.eqb Z.ltb N.add N.mul N.div N.modulo N.eqb
  M_hmtx_encode M_hmtx_decode
  M_encodeTime M_decodeTime M_head_encode M_head_decode
  M_maxp_encode M_maxp_decode
  M_post_encode_header M_post_decode_header
  M_os2_encode M_os2_decode
  M_derived M_version_round version_milli_string.
