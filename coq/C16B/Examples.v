(* C16B/Examples.v — non-vacuity: concrete, non-trivial values satisfy the
   hypotheses of every theorem of Props.v. *)
From Coq Require Import List NArith Bool Arith.
From C16 Require Import Model Proofs.
From C16B Require Import Model Programs Proofs Proofs_witness Proofs_props.
Import ListNotations.

(* four goroutines - two Layouts through their own layouters, the original
   Explain (prints a reversed copy), an Encode - under an interleaved schedule *)
Definition ex_progs : list prog := [layout_prog; layout_prog; explain_copy_prog; encode_prog].
Definition ex_sched : list tid :=
  flat_map (fun _ => [0; 1; 2; 3; 1; 0]) (seq 0 30).

Example ex_hypotheses :
  tbl_ok layout_ly layout_tbl = true /\
  forallb (fp_check layout_tbl) ex_progs = true.
Proof. vm_compute. split; reflexivity. Qed.

(* the hypothesis of checked_programs_commute for EVERY thread id *)
Example ex_all_threads : forall t, fp_check layout_tbl (progs_of ex_progs t) = true.
Proof. intros [|[|[|[|[|t]]]]]; vm_compute; reflexivity. Qed.

Example ex_run :
  fp_result layout_ly layout_tbl own_recv ex_progs wit_heap ex_sched 0 = Some 11%N /\
  fp_result layout_ly layout_tbl own_recv ex_progs wit_heap ex_sched 1 = Some 18%N /\
  fp_result layout_ly layout_tbl own_recv ex_progs wit_heap ex_sched 2 = Some 23%N /\
  fp_result layout_ly layout_tbl own_recv ex_progs wit_heap ex_sched 3 = Some 15%N /\
  has_race (fp_trace layout_ly layout_tbl own_recv ex_progs wit_heap ex_sched) = false /\
  length (fp_trace layout_ly layout_tbl own_recv ex_progs wit_heap ex_sched) = 73.
Proof. vm_compute. repeat split; reflexivity. Qed.

(* the semantic hypotheses of private_writes_commute hold for it *)
Example ex_semantic_hypotheses :
  writes_own_only fstate (own layout_ly) (fp_step layout_ly layout_tbl (fun t => t) (progs_of ex_progs)) fp_init /\
  reads_shared_or_own fstate (own layout_ly) (fp_step layout_ly layout_tbl (fun t => t) (progs_of ex_progs)) fp_init.
Proof.
  split; [apply fp_writes_own | apply fp_reads_ok]; try exact (proj1 ex_hypotheses); exact ex_all_threads.
Qed.

(* the race definition is inhabited and refutable *)
Example ex_race : race [mkEv 0 5%N true; mkEv 0 6%N false; mkEv 1 5%N false].
Proof. apply has_race_sound. reflexivity. Qed.
Example ex_no_race : race_free [mkEv 0 5%N true; mkEv 0 5%N false; mkEv 1 6%N true; mkEv 1 4%N false; mkEv 0 4%N false].
Proof. apply race_free_iff. reflexivity. Qed.

(* the reports of the extracted model *)
Example ex_alias_report :
  alias_report RContext [F_gdef; F_keep] [(F_lookups, 1%N)] =
  [(F_lookups, 1%N); (F_ll, 1%N); (F_gdef, 0%N); (F_seq, 2%N); (F_lookup, 1%N); (F_keep, 0%N); (F_stack, 2%N); (F_scratch, 2%N)].
Proof. reflexivity. Qed.
Example ex_writes :
  writes_covered RContext [F_self; F_seq; F_stack; F_scratch] = true /\
  writes_covered RContext [F_ll] = false /\
  writes_covered RNested [F_InputPos] = true /\ writes_covered RNested [F_Actions] = false /\
  writes_covered RLayouter [F_buf; F_gsub] = true /\ writes_covered RLayouter [F_font] = false.
Proof. vm_compute. repeat split; reflexivity. Qed.

(* the hypotheses of layouters_share_only_the_font are satisfiable: goroutine 0
   and goroutine 1 both reach location 4, the first element of the rule behind
   Context.ll - and, as the theorem says, it is font memory *)
Example ex_meet :
  resolve layout_ly layout_tbl 0 0 (fidx F_ll) 0%N = Some 4%N /\
  resolve layout_ly layout_tbl 1 1 (fidx F_ll) 0%N = Some 4%N /\
  own layout_ly 4%N = None /\
  (* while their buffers are different locations, each owned by its goroutine *)
  resolve layout_ly layout_tbl 0 0 (fidx F_buf) 0%N = Some 52%N /\
  resolve layout_ly layout_tbl 1 1 (fidx F_buf) 0%N = Some 116%N /\
  own layout_ly 52%N = Some 0 /\ own layout_ly 116%N = Some 1.
Proof. vm_compute. repeat split; reflexivity. Qed.

(* ... and of layout_tbl_is_the_alias_tables *)
Example ex_table_entry :
  lookup_fld F_Actions (alias_table RNested) = Some Alias /\
  lookup_fld F_buf (alias_table RLayouter) = Some Fresh /\
  lookup_fld F_seq (alias_table RContext) = Some Caller.
Proof. vm_compute. repeat split; reflexivity. Qed.
