(* C16B/Proofs_witness.v — the witnesses (vm_compute on concrete programs):
   write-then-restore is invisible to a before/after comparison yet races and
   changes another thread's result; one Layouter shared by two goroutines is
   not safe. *)
From Coq Require Import List NArith Bool Arith Lia.
From C16 Require Import Model Proofs.
From C16B Require Import Model Programs Proofs.
Import ListNotations.

Definition wr_progs : list prog := [explain_restore_prog; reader_prog].
Definition wr_seq : list tid := repeat 0 11 ++ repeat 1 4.
Definition wr_bad : list tid := repeat 0 4 ++ repeat 1 4 ++ repeat 0 7.

Definition shared_cells (ly : layout) : list cell := map N.of_nat (seq 0 (N.to_nat (SH ly))).

Lemma shared_cells_all : forall ly c, (c < SH ly)%N -> In c (shared_cells ly).
Proof.
  intros ly c H. unfold shared_cells. apply in_map_iff. exists (N.to_nat c). split; [apply N2Nat.id|].
  apply in_seq. lia.
Qed.

Lemma forallb_shared : forall ly (P : cell -> bool),
  forallb P (shared_cells ly) = true -> forall c, (c < SH ly)%N -> P c = true.
Proof. intros ly P H c Hc. rewrite forallb_forall in H. apply H. apply shared_cells_all. exact Hc. Qed.

Lemma cnt_app : forall l1 l2 u, cnt (l1 ++ l2) u = cnt l1 u + cnt l2 u.
Proof. intros. unfold cnt. apply count_occ_app. Qed.

Lemma cnt_repeat : forall t n u, cnt (repeat t n) u = if Nat.eqb t u then n else 0.
Proof.
  intros t n u. unfold cnt. induction n as [|n IH]; simpl.
  - destruct (Nat.eqb t u); reflexivity.
  - destruct (Nat.eq_dec t u) as [E|E].
    + rewrite IH. apply Nat.eqb_eq in E. rewrite E. reflexivity.
    + rewrite IH. apply Nat.eqb_neq in E. rewrite E. reflexivity.
Qed.

Lemma wr_same_counts : forall u, cnt wr_seq u = cnt wr_bad u.
Proof.
  intro u. unfold wr_seq, wr_bad. rewrite !cnt_app, !cnt_repeat.
  destruct (Nat.eqb 0 u); destruct (Nat.eqb 1 u); reflexivity.
Qed.

Lemma wr_facts :
  tbl_ok layout_ly layout_tbl = true /\
  fp_check layout_tbl explain_restore_prog = false /\
  fp_check layout_tbl reader_prog = true /\
  (* alone: finished, result 23, every shared cell as before *)
  fp_alone_result layout_ly layout_tbl own_recv wr_progs wit_heap 0 11 = Some 23%N /\
  forallb (fun c => N.eqb (fst (fp_alone layout_ly layout_tbl own_recv wr_progs wit_heap 0 11) c) (heap_of wit_heap c))
          (shared_cells layout_ly) = true /\
  fp_alone_result layout_ly layout_tbl own_recv wr_progs wit_heap 1 4 = Some 19%N /\
  (* one after the other: same results, same shared state *)
  fp_result layout_ly layout_tbl own_recv wr_progs wit_heap wr_seq 0 = Some 23%N /\
  fp_result layout_ly layout_tbl own_recv wr_progs wit_heap wr_seq 1 = Some 19%N /\
  forallb (fun c => N.eqb (hp (fp_run layout_ly layout_tbl own_recv wr_progs wit_heap wr_seq) c) (heap_of wit_heap c))
          (shared_cells layout_ly) = true /\
  (* races, whatever the interleaving *)
  has_race (fp_trace layout_ly layout_tbl own_recv wr_progs wit_heap wr_seq) = true /\
  has_race (fp_trace layout_ly layout_tbl own_recv wr_progs wit_heap wr_bad) = true /\
  (* interleaved: the reader sees the slice the wrong way round; the shared state is still restored *)
  fp_result layout_ly layout_tbl own_recv wr_progs wit_heap wr_bad 1 = Some 23%N /\
  fp_result layout_ly layout_tbl own_recv wr_progs wit_heap wr_bad 0 = Some 23%N /\
  forallb (fun c => N.eqb (hp (fp_run layout_ly layout_tbl own_recv wr_progs wit_heap wr_bad) c) (heap_of wit_heap c))
          (shared_cells layout_ly) = true.
Proof. vm_compute. repeat split; reflexivity. Qed.

(* the repaired form (print a reversed copy) passes the check *)
Lemma copy_facts :
  fp_check layout_tbl explain_copy_prog = true /\
  fp_alone_result layout_ly layout_tbl own_recv [explain_copy_prog; reader_prog] wit_heap 0 8 = Some 23%N.
Proof. vm_compute. split; reflexivity. Qed.

(* ---- one Layouter for two goroutines *)
Definition sl_progs : list prog := [layout_prog; layout_prog].
Definition sl_seq : list tid := repeat 0 58 ++ repeat 1 54.
Definition sl_bad : list tid := repeat 0 49 ++ repeat 1 54 ++ repeat 0 9.

Lemma sl_same_counts : forall u, cnt sl_seq u = cnt sl_bad u.
Proof.
  intro u. unfold sl_seq, sl_bad. rewrite !cnt_app, !cnt_repeat.
  destruct (Nat.eqb 0 u); destruct (Nat.eqb 1 u); reflexivity.
Qed.

Lemma sl_facts :
  fp_check layout_tbl layout_prog = true /\
  (* own layouters: alone results *)
  fp_alone_result layout_ly layout_tbl own_recv sl_progs wit_heap 0 58 = Some 11%N /\
  fp_alone_result layout_ly layout_tbl own_recv sl_progs wit_heap 1 54 = Some 18%N /\
  fp_result layout_ly layout_tbl own_recv sl_progs wit_heap sl_bad 0 = Some 11%N /\
  fp_result layout_ly layout_tbl own_recv sl_progs wit_heap sl_bad 1 = Some 18%N /\
  has_race (fp_trace layout_ly layout_tbl own_recv sl_progs wit_heap sl_bad) = false /\
  (* one shared layouter: alone each goroutine still returns its result ... *)
  fp_alone_result layout_ly layout_tbl shared_recv sl_progs wit_heap 0 58 = Some 11%N /\
  fp_alone_result layout_ly layout_tbl shared_recv sl_progs wit_heap 1 54 = Some 18%N /\
  (* ... but together: a race, and a schedule with a different result *)
  has_race (fp_trace layout_ly layout_tbl shared_recv sl_progs wit_heap sl_seq) = true /\
  has_race (fp_trace layout_ly layout_tbl shared_recv sl_progs wit_heap sl_bad) = true /\
  fp_result layout_ly layout_tbl shared_recv sl_progs wit_heap sl_bad 0 = Some 18%N.
Proof. vm_compute. repeat split; reflexivity. Qed.

(* the footprint table is the aliasing tables: field f of the program has the
   kind the table of its receiver says *)
Lemma layout_tbl_kinds : forall f k,
  lookup_fld f layout_fields = Some k ->
  exists fd, nth_error layout_tbl (fidx f) = Some fd /\ f_kind fd = k /\ f_len fd = FLEN.
Proof.
  intros f k H. destruct f; vm_compute in H; inversion H; subst k; eexists; vm_compute; repeat split; reflexivity.
Qed.

Lemma layout_fields_cover : forall rk f k,
  (rk = RLayouter \/ rk = RContext \/ rk = RNested \/ rk = RKeepFunc) ->
  lookup_fld f (alias_table rk) = Some k -> lookup_fld f layout_fields = Some k.
Proof.
  intros rk f k Hrk H.
  destruct Hrk as [ -> | [ -> | [ -> | -> ] ] ]; destruct f; vm_compute in H; try discriminate; inversion H; reflexivity.
Qed.
