From Coq Require Import Extraction ExtrOcamlBasic.
From Common Require Import Conv.
From C16B Require Import Model Programs.
Extraction "c16b_model.ml" conv_anchor alias_report writes_covered alias_table
  fp_check tbl_ok fp_result fp_trace has_race layout_tbl layout_ly layout_prog explain_restore_prog
  explain_copy_prog encode_prog reader_prog wit_heap fidx layout_may_write.
